(** The state invariant of the parse loop, generalised over the flag-subcommand resume state.

    [Invariant.v] fixes [fs_at = None /\ fs_skip = 0] in its invariant [G] and therefore needs the level hypothesis
    "no subcommand of this level has a short flag" (W4).  This file is the same traversal of the model with
      G st := MG (mt st) (cur_idx st) /\ FA (fs_at st) /\ FS (fs_skip st)
    for arbitrary predicates [FA], [FS] and WITHOUT W4 (part 1: a copy of the lemmas of Invariant.v from
    [verify_num_args] to [parse_long_arg] and of the environment/default phases -- the model only passes
    [flag_subcmd_at]/[flag_subcmd_skip] through there), followed by the part that reads and writes the resume
    state (part 2: the short cluster, [parse_short_arg], the token loop) for
      FA a := (no subcommand of this level has a short flag) \/ a = None        FS s := s = 0
    and by the first iteration of a level that was entered by re-reading a cluster (skip = 1).
    Property C01, class [flag_sub_class] (FsTotality.v). *)
From ClapModel Require Import Base.Bytes Base.Machine Base.Utf8 Lex.OsStrExtModel Lex.OsStrExtProofs.
From ClapModel Require Import Parse.Cmd Parse.Build Parse.Valid Parse.Matcher Parse.Errors Parse.Validator Parse.Parser.
From ClapModel Require Import ParseProofs.Safe ParseProofs.Invariant.
From Coq Require Import ZArith Lia.
From RecordUpdate Require Import RecordSet.
Import RecordSetNotations.
Open Scope N_scope.

(** every name below shadows its namesake of Invariant.v inside this module only *)
Module FsInv.
Section Level.
Variable c : cmd.

(** ** consequences of the build step and of the validity gate, per level *)
Hypothesis W1 : forall a, In a (c_args c) -> arg_complete a.
Hypothesis W2 : forall a, In a (c_args c) -> a_index a <> None -> a_is_positional a = true.
Hypothesis W3 : forall a, In a (c_args c) -> find_arg c (a_id a) = Some a.
Hypothesis W5 : forall a, In a (c_args c) -> a_is_positional a = true -> a_index a <> None.

(** ** a state predicate closed under the primitive matcher operations *)
Variable P : list (id * marg) -> N -> Prop.
Hypothesis PC_bump : forall l k, P l k -> P l (k + 1).
Hypothesis PC_remove : forall l k i, P l k -> P (fst (fm_remove i l)) k.
Hypothesis PC_entry : forall l k i ic grp s, P l k ->
  P (fm_entry_or_insert i (marg_new ic grp) (fun m => new_val_group (set_source s m)) l) k.
Hypothesis PC_addval : forall l k i j m m' v, In i (groups_for_arg c j) ->
  P l k -> fm_get i l = Some m -> append_val v m = Some m' ->
  P (fm_update i (fun _ => m') l) k.
(** [V]: where the values of arguments may come from (provenance); [PC_push] may rely on it *)
Variable V : bytes -> Prop.
Hypothesis PC_push : forall l k i m m' v, V v -> P l k -> fm_get i l = Some m -> append_val v m = Some m' ->
  P (fm_update i (push_index (k + 1)) (fm_update i (fun _ => m') l)) (k + 1).
Hypothesis V_true : V s_true.
Hypothesis V_false : V s_false.
Hypothesis V_dec : forall n, V (n_to_dec n).
Hypothesis V_split : forall v d l, V v -> split v d = SplitOk l -> Forall V l.
Hypothesis V_dm : forall a, In a (c_args c) -> Forall V (a_default_missing a).
Hypothesis V_def : forall a, In a (c_args c) -> Forall V (a_default a).
Hypothesis V_env : forall a v, In a (c_args c) -> a_env a = Some v -> V v.
Hypothesis V_dif : forall a i p d, In a (c_args c) -> In (i, p, Some d) (a_default_ifs a) -> V d.

Definition pend_ok (m : matcher) : Prop :=
  forall p, mt_pending m = Some p ->
    exists a, find_arg c (p_id p) = Some a /\ (p_ident p = Some IIndex \/ a_is_positional a = false)
              /\ Forall V (p_raw p).
Definition entries_ok (l : list (id * marg)) : Prop := forall i m, In (i, m) l -> id_exists c i = true.

(** matcher-level invariant at index counter [k] *)
Definition MG (m : matcher) (k : N) : Prop := pend_ok m /\ entries_ok (mt_args m) /\ P (mt_args m) k.
(** state invariant *)
(** [FA], [FS]: what is known of [flag_subcmd_at] / [flag_subcmd_skip]; every lemma down to [parse_long_arg]
    and the env/default phases only passes them through *)
Variable FA : option N -> Prop.
Variable FS : N -> Prop.
Definition G (st : ps) : Prop := MG (mt st) (cur_idx st) /\ FA (fs_at st) /\ FS (fs_skip st).

Definition has_open (i : id) (l : list (id * marg)) : Prop :=
  exists ma, fm_get i l = Some ma /\ m_raw ma <> [].

Lemma G_bump st : G st -> G (ps_bump st).
Proof.
  intros [[Hp [He HP]] [Ha Hs]]. repeat split; autorewrite with ps; auto.
Qed.

Lemma entries_ok_remove l i : entries_ok l -> entries_ok (fst (fm_remove i l)).
Proof. intros H j m Hin. apply (H j m). apply (fm_remove_incl _ _ _ Hin). Qed.

Lemma entries_ok_update l i f : entries_ok l -> entries_ok (fm_update i f l).
Proof.
  intros H j m Hin. destruct (fm_update_in _ _ _ _ _ Hin) as [H1|[v [H1 _]]]; eapply H; eassumption.
Qed.

Lemma entries_ok_entry l i v0 f : entries_ok l -> id_exists c i = true -> entries_ok (fm_entry_or_insert i v0 f l).
Proof.
  intros H Hi j m Hin. destruct (fm_entry_or_insert_in _ _ _ _ _ _ Hin) as [H1|[[v [H1 _]]|[-> _]]];
    [eapply H; eassumption|eapply H; eassumption|exact Hi].
Qed.

(** ** [mt_remove] *)
Lemma MG_remove m k i : MG m k -> MG (fst (mt_remove m i)) k /\ mt_pending (fst (mt_remove m i)) = mt_pending m.
Proof.
  intros [Hp [He HP]]. unfold mt_remove. destruct (fm_remove i (mt_args m)) as [l b] eqn:E. cbn [fst].
  assert (l = fst (fm_remove i (mt_args m))) as -> by (rewrite E; reflexivity).
  split; [|reflexivity]. repeat split.
  - exact Hp.
  - autorewrite with ps. apply entries_ok_remove; exact He.
  - autorewrite with ps. apply PC_remove; exact HP.
Qed.

Lemma MG_remove_fold ids : forall m k, MG m k ->
  MG (fold_left (fun m o => fst (mt_remove m o)) ids m) k
  /\ mt_pending (fold_left (fun m o => fst (mt_remove m o)) ids m) = mt_pending m.
Proof.
  induction ids as [|i t IH]; intros m k H; cbn [fold_left]; [split; [exact H|reflexivity]|].
  destruct (MG_remove m k i H) as [H1 H2]. destruct (IH _ _ H1) as [H3 H4]. split; [exact H3|congruence].
Qed.

(** ** [remove_overrides] *)
Lemma remove_overrides_MG a m k : MG m k ->
  MG (remove_overrides c a m) k /\ mt_pending (remove_overrides c a m) = mt_pending m.
Proof.
  intros H. unfold remove_overrides.
  destruct (MG_remove_fold (a_overrides a) m k H) as [H1 H2].
  match goal with |- context [fold_left _ ?ids (fold_left _ (a_overrides a) m)] =>
    destruct (MG_remove_fold ids _ k H1) as [H3 H4] end.
  split; [exact H3|congruence].
Qed.

(** ** [start_custom_arg_m], [start_custom_group_m] *)
Lemma start_custom_arg_m_MG m k a s : In a (c_args c) -> MG m k ->
  MG (start_custom_arg_m m a s) k /\ mt_pending (start_custom_arg_m m a s) = mt_pending m
  /\ has_open (a_id a) (mt_args (start_custom_arg_m m a s)).
Proof.
  intros Hin [Hp [He HP]]. unfold start_custom_arg_m. split; [|split]; [repeat split| |].
  - exact Hp.
  - autorewrite with ps. apply entries_ok_entry; [exact He|apply id_exists_arg; exact Hin].
  - autorewrite with ps. apply PC_entry; exact HP.
  - reflexivity.
  - autorewrite with ps.
    destruct (fm_entry_or_insert_get (a_id a) (marg_new (a_ignore_case a) false)
                (fun m0 => new_val_group (set_source s m0)) (mt_args m)) as [v Hv].
    exists (new_val_group (set_source s v)). split; [exact Hv|]. cbn. destruct (m_raw v); discriminate.
Qed.

Lemma has_open_entry i j ic grp s l :
  has_open i l -> has_open i (fm_entry_or_insert j (marg_new ic grp) (fun m => new_val_group (set_source s m)) l).
Proof.
  intros [ma [H1 H2]]. eexists. split; [apply fm_get_entry_or_insert_other; exact H1|].
  destruct (beq i j); [|exact H2]. cbn. destruct (m_raw ma); discriminate.
Qed.

Lemma append_val_open v m : m_raw m <> [] -> exists m', append_val v m = Some m' /\ m_raw m' <> [] /\ m_indices m' = m_indices m.
Proof.
  intros H. unfold append_val, push_last.
  destruct (rev (m_raw m)) as [|g r] eqn:E.
  - exfalso. apply H. rewrite <- (rev_involutive (m_raw m)), E. reflexivity.
  - eexists. split; [reflexivity|]. split; [|reflexivity]. cbn. destruct (rev r); discriminate.
Qed.

Lemma has_open_update_val i j l m' : has_open i l -> m_raw m' <> [] -> has_open i (fm_update j (fun _ => m') l).
Proof.
  intros [ma [H1 H2]] Hm. eexists. split; [rewrite fm_get_update, H1; reflexivity|].
  destruct (beq i j); assumption.
Qed.

Lemma has_open_push_index i j l k : has_open i l -> has_open i (fm_update j (push_index k) l).
Proof.
  intros [ma [H1 H2]]. eexists. split; [rewrite fm_get_update, H1; reflexivity|].
  destruct (beq i j); [cbn; exact H2|exact H2].
Qed.

(** ** [start_custom_arg] *)
Definition mres_ok (Q : matcher -> Prop) (r : res matcher) : Prop := safe Q (fun _ => False) r.

Lemma start_custom_arg_safe a s m k : In a (c_args c) -> MG m k ->
  mres_ok (fun m' => MG m' k /\ mt_pending m' = mt_pending m /\ has_open (a_id a) (mt_args m'))
          (start_custom_arg c a s m).
Proof.
  intros Hin H. unfold start_custom_arg.
  set (m1 := match s with SCmdLine => remove_overrides c a m | _ => m end).
  assert (H1 : MG m1 k /\ mt_pending m1 = mt_pending m).
  { subst m1. destruct s; try (split; [exact H|reflexivity]). apply remove_overrides_MG; exact H. }
  destruct H1 as [H1 H1p].
  destruct (start_custom_arg_m_MG m1 k a s Hin H1) as [H2 [H2p H2o]].
  set (m2 := start_custom_arg_m m1 a s) in *.
  destruct (src_explicit s); [|cbn; split; [exact H2|split; [congruence|exact H2o]]].
  assert (Hgs : forall g, In g (groups_for_arg c (a_id a)) -> exists j, In g (groups_for_arg c j))
    by (intros g Hg; exists (a_id a); exact Hg).
  revert Hgs. generalize (groups_for_arg c (a_id a)) as gs.
  assert (Hacc : mres_ok (fun m' => MG m' k /\ mt_pending m' = mt_pending m /\ has_open (a_id a) (mt_args m')) (ROk m2)).
  { cbn. split; [exact H2|split; [congruence|exact H2o]]. }
  revert Hacc. generalize (ROk m2 : res matcher) as acc.
  intros acc Hacc gs. revert acc Hacc. induction gs as [|g gs IH]; intros acc Hacc Hgs; cbn [fold_left]; [exact Hacc|].
  apply IH; [|intros g' Hg'; apply Hgs; right; exact Hg'].
  destruct acc as [m0|e st0|site]; cbn in Hacc; try contradiction. cbn [rbind].
  destruct Hacc as [[Hp [He HP]] [Hpe Hop]].
  unfold start_custom_group_m, add_val_to. autorewrite with ps.
  destruct (fm_entry_or_insert_get g (marg_new false true) (fun m3 => new_val_group (set_source s m3)) (mt_args m0)) as [v Hv].
  rewrite Hv.
  destruct (append_val_open (a_id a) (new_val_group (set_source s v))) as [m' [Ha [Hr _]]];
    [cbn; destruct (m_raw v); discriminate|].
  rewrite Ha. cbn. repeat split.
  - exact Hp.
  - autorewrite with ps. apply entries_ok_update, entries_ok_entry; [exact He|].
    destruct (Hgs g (or_introl eq_refl)) as [j0 Hj0]. eapply id_exists_group. exact Hj0.
  - autorewrite with ps. destruct (Hgs g (or_introl eq_refl)) as [j0 Hj0].
    eapply PC_addval; [exact Hj0|apply PC_entry; exact HP|exact Hv|exact Ha].
  - exact Hpe.
  - autorewrite with ps. apply has_open_update_val; [apply has_open_entry; exact Hop|exact Hr].
Qed.

(** ** [verify_num_args] *)
Lemma verify_num_args_safe a raw st : In a (c_args c) ->
  safe (fun _ => True) (fun s => s = st) (verify_num_args c a raw st).
Proof.
  intros Hin. unfold verify_num_args. destruct (is_set s_ignore_errors c); [exact I|].
  destruct (W1 a Hin) as [_ [Hn _]]. destruct (a_num a) as [r|]; [|contradiction]. cbn [expect rbind].
  destruct ((0 <? vmin r) && (N.of_nat (length raw) =? 0)); [reflexivity|].
  destruct (r_num_values r) as [n|].
  - destruct (negb (n =? N.of_nat (length raw))); [reflexivity|exact I].
  - destruct (N.of_nat (length raw) <? vmin r); [reflexivity|].
    destruct (vmax r <? N.of_nat (length raw)) eqn:E; [|exact I].
    destruct raw; [|reflexivity]. cbn in E. apply N.ltb_lt in E. lia.
Qed.

(** ** [push_arg_values] *)
Lemma push_arg_values_safe a : In a (c_args c) -> forall raw st,
  Forall V raw -> G st -> has_open (a_id a) (mt_args (mt st)) ->
  safe (fun s => G s /\ mt_pending (mt s) = mt_pending (mt st)) G (push_arg_values c a raw st).
Proof.
  intros Hin. destruct (W1 a Hin) as [_ [_ Hvp]].
  induction raw as [|v t IH]; intros st HVr HG Hop; cbn [push_arg_values]; [split; [exact HG|reflexivity]|].
  inversion HVr as [|? ? HVv HVt]; subst.
  destruct (a_vp a) as [vp|]; [|contradiction]. cbn [expect rbind].
  destruct (vp_parse vp v); [cbn; apply G_bump; exact HG|].
  destruct HG as [[Hp [He HP]] [Hfa Hfs]].
  destruct Hop as [ma [Hget Hraw]].
  destruct (append_val_open v ma Hraw) as [m' [Happ [Hraw' _]]].
  unfold add_val_to. autorewrite with ps. rewrite Hget, Happ. cbn [expect rbind].
  unfold add_index_to. autorewrite with ps. rewrite fm_get_update, Hget. cbn [expect rbind]. autorewrite with ps.
  eapply safe_weaken; [apply IH; [exact HVt| |]| |intros s Hs; exact Hs].
  - repeat split; autorewrite with ps; auto.
    + apply entries_ok_update, entries_ok_update; exact He.
    + eapply PC_push; eassumption.
  - autorewrite with ps. apply has_open_push_index, has_open_update_val; [exists ma; split; assumption|exact Hraw'].
  - intros s [Hs1 Hs2]. split; [exact Hs1|]. rewrite Hs2. autorewrite with ps. reflexivity.
Qed.

(** ** the delimiter block never hits its [expect] *)
Lemma encode_utf8_nonempty d : encode_utf8 d <> [].
Proof. unfold encode_utf8. repeat match goal with |- context [if ?b then _ else _] => destruct b end; discriminate. Qed.

Lemma delimit_go_some ddt db ti : db <> [] -> forall l i, exists r, delimit_go ddt db ti i l = Some r.
Proof.
  intros Hdb. induction l as [|v t IH]; intros i; cbn [delimit_go]; [eexists; reflexivity|].
  destruct (IH (i + 1)) as [r Hr]. rewrite Hr.
  destruct (negb (contains v db) || (ddt && match ti with Some k => k <=? i | None => false end)); [eexists; reflexivity|].
  destruct (split_total v db Hdb) as [l' [Hl' _]]. rewrite Hl'. eexists; reflexivity.
Qed.

Lemma delimit_some a raw ti : exists r, delimit c a raw ti = Some r.
Proof.
  unfold delimit. destruct (a_delim a) as [d|]; [|eexists; reflexivity].
  destruct (is_set s_dont_delimit_trailing c && match ti with Some 0 => true | _ => false end); [eexists; reflexivity|].
  apply delimit_go_some. apply encode_utf8_nonempty.
Qed.

(** ** [react_core] *)
Lemma delimit_go_V ddt db ti : forall l i r, Forall V l -> delimit_go ddt db ti i l = Some r -> Forall V r.
Proof.
  induction l as [|v t IH]; intros i r HV; cbn [delimit_go]; [intros H; inversion H; constructor|].
  inversion HV as [|? ? Hv Ht]; subst.
  destruct (negb (contains v db) || (ddt && match ti with Some k => k <=? i | None => false end)).
  - destruct (delimit_go ddt db ti (i + 1) t) as [b|] eqn:E; [|discriminate]. intros H; inversion H; subst.
    cbn. constructor; [exact Hv|eapply IH; eassumption].
  - destruct (split v db) as [| |parts] eqn:Es; try discriminate.
    destruct (delimit_go ddt db ti (i + 1) t) as [b|] eqn:E; [|discriminate]. intros H; inversion H; subst.
    apply Forall_app. split; [eapply V_split; eassumption|eapply IH; eassumption].
Qed.

Lemma delimit_V a raw ti r : Forall V raw -> delimit c a raw ti = Some r -> Forall V r.
Proof.
  unfold delimit. intros HV. destruct (a_delim a) as [d|]; [|intros H; inversion H; subst; exact HV].
  destruct (is_set s_dont_delimit_trailing c && match ti with Some 0 => true | _ => false end);
    [intros H; inversion H; subst; exact HV|]. apply delimit_go_V. exact HV.
Qed.

Definition pending_of (st : ps) := mt_pending (mt st).

Lemma G_set_mt st m : MG m (cur_idx st) -> FA (fs_at st) -> FS (fs_skip st) -> G (st <| mt := m |>).
Proof. intros H1 H2 H3. repeat split; autorewrite with ps; try apply H1; assumption. Qed.

Lemma react_core_safe idn s a raw ti st : In a (c_args c) -> Forall V raw -> G st ->
  safe (fun x => G (fst x) /\ snd x = PRValuesDone /\ pending_of (fst x) = pending_of st) G
       (react_core c idn s a raw ti st).
Proof.
  intros Hin HVraw HG. unfold react_core.
  eapply safe_bind with (Q1 := fun _ => True).
  { destruct (is_cmdline s); [|exact I].
    eapply safe_weaken; [apply verify_num_args_safe; exact Hin|auto|intros s0 ->; exact HG]. }
  intros _ _.
  destruct (match raw with [] => if negb (is_nil (a_default_missing a)) then (a_default_missing a, None) else (raw, ti)
                         | _ => (raw, ti) end) as [raw1 ti1] eqn:Eraw1.
  assert (HV1 : Forall V raw1).
  { destruct raw; [destruct (negb (is_nil (a_default_missing a)))|]; inversion Eraw1; subst;
      first [apply V_dm; exact Hin|exact HVraw]. }
  destruct (delimit_some a raw1 ti1) as [raw2 Hd]. rewrite Hd. cbn [expect rbind].
  pose proof (delimit_V a raw1 ti1 raw2 HV1 Hd) as HV2.
  (* the common tail: start_custom_arg then push_arg_values *)
  assert (Tail : forall raw' st1, Forall V raw' -> G st1 -> pending_of st1 = pending_of st ->
     safe (fun x => G (fst x) /\ snd x = PRValuesDone /\ pending_of (fst x) = pending_of st) G
       (do m2 <- start_custom_arg c a s (mt st1);
        do st' <- push_arg_values c a raw' (st1 <| mt := m2 |>);
        ROk (st', PRValuesDone))).
  { intros raw' st1 HVr' [HM [Hfa Hfs]] Hpe.
    pose proof (start_custom_arg_safe a s (mt st1) (cur_idx st1) Hin HM) as Hs.
    destruct (start_custom_arg c a s (mt st1)) as [m2|e0 s0|site]; cbn in Hs; try contradiction.
    destruct Hs as [HM2 [Hp2 Ho2]]. cbn [rbind].
    eapply safe_bind; [apply (push_arg_values_safe a Hin raw' (st1 <| mt := m2 |>))| ].
    - exact HVr'.
    - apply G_set_mt; assumption.
    - autorewrite with ps. exact Ho2.
    - intros st' [HG' Hp']. cbn. split; [exact HG'|split; [reflexivity|]].
      unfold pending_of in *. rewrite Hp'. autorewrite with ps. congruence. }
  assert (SetLike : forall raw' (bump : bool) st1, Forall V raw' -> G st1 -> pending_of st1 = pending_of st ->
     safe (fun x => G (fst x) /\ snd x = PRValuesDone /\ pending_of (fst x) = pending_of st) G
       (let st2 := if bump && is_cmdline s && is_flag_ident idn then ps_bump st1 else st1 in
        let '(m1, removed) := mt_remove (mt st2) (a_id a) in
        let st3 := st2 <| mt := m1 |> in
        if removed && negb (is_set s_args_override_self c || mem_id (a_id a) (a_overrides a))
        then RErr (mkerr c EArgumentConflict (a_id a)) st3
        else do m2 <- start_custom_arg c a s m1;
             do st' <- push_arg_values c a raw' (st3 <| mt := m2 |>);
             ROk (st', PRValuesDone))).
  { intros raw' bump st1 HVr' HG1 Hpe. cbn zeta.
    set (st2 := if bump && is_cmdline s && is_flag_ident idn then ps_bump st1 else st1).
    assert (HG2 : G st2 /\ pending_of st2 = pending_of st1).
    { subst st2. destruct (bump && is_cmdline s && is_flag_ident idn); [split; [apply G_bump; exact HG1|reflexivity]|split; [exact HG1|reflexivity]]. }
    destruct HG2 as [[HM2 [Hfa2 Hfs2]] Hp2].
    pose proof (MG_remove (mt st2) (cur_idx st2) (a_id a) HM2) as [HM3 Hp3].
    destruct (mt_remove (mt st2) (a_id a)) as [m1 removed] eqn:Er. cbn [fst] in HM3, Hp3.
    assert (HG3 : G (st2 <| mt := m1 |>)) by (apply G_set_mt; assumption).
    destruct (removed && negb (is_set s_args_override_self c || mem_id (a_id a) (a_overrides a))); [exact HG3|].
    specialize (Tail raw' (st2 <| mt := m1 |>) HVr' HG3). autorewrite with ps in Tail. apply Tail.
    unfold pending_of. autorewrite with ps. unfold pending_of in *. congruence. }
  assert (HVt : Forall V (match raw2 with [] => [s_true] | _ => raw2 end))
    by (destruct raw2; [repeat constructor; exact V_true|exact HV2]).
  assert (HVf : Forall V (match raw2 with [] => [s_false] | _ => raw2 end))
    by (destruct raw2; [repeat constructor; exact V_false|exact HV2]).
  destruct (a_get_action a).
  - apply (SetLike raw2 true st HV2 HG eq_refl).
  - set (st1 := if is_cmdline s && is_flag_ident idn then ps_bump st else st).
    assert (HG1 : G st1 /\ pending_of st1 = pending_of st).
    { subst st1. destruct (is_cmdline s && is_flag_ident idn); [split; [apply G_bump; exact HG|reflexivity]|split; [exact HG|reflexivity]]. }
    destruct HG1 as [HG1 Hp1]. apply (Tail raw2 st1 HV2 HG1 Hp1).
  - apply (SetLike _ false st HVt HG eq_refl).
  - apply (SetLike _ false st HVf HG eq_refl).
  - destruct HG as [HM [Hfa Hfs]].
    pose proof (MG_remove (mt st) (cur_idx st) (a_id a) HM) as [HM3 Hp3].
    destruct (mt_remove (mt st) (a_id a)) as [m1 removed] eqn:Er. cbn [fst] in HM3, Hp3.
    match goal with |- context [push_arg_values c a ?r _] => set (rawc := r) end.
    assert (HG3 : G (st <| mt := m1 |>)) by (apply G_set_mt; assumption).
    assert (HVc : Forall V rawc) by (subst rawc; destruct raw2; [repeat constructor; apply V_dec|exact HV2]).
    pose proof (Tail rawc (st <| mt := m1 |>) HVc HG3) as T. autorewrite with ps in T. apply T.
    unfold pending_of. autorewrite with ps. exact Hp3.
  - exact HG.
  - exact HG.
  - exact HG.
  - exact HG.
Qed.

(** ** [resolve_pending], [react] *)
Lemma G_clear_pending st : G st -> G (st <| mt := (mt st) <| mt_pending := None |> |>).
Proof.
  intros [[Hp [He HP]] [Hfa Hfs]]. repeat split; autorewrite with ps; auto.
  intros p Hp'. autorewrite with ps in Hp'. discriminate.
Qed.

Lemma resolve_pending_safe st : G st ->
  safe (fun s => G s /\ pending_of s = None) G (resolve_pending c st).
Proof.
  intros HG. unfold resolve_pending. destruct (mt_pending (mt st)) as [p|] eqn:Ep; [|split; [exact HG|exact Ep]].
  destruct HG as [[Hp [He HP]] [Hfa Hfs]].
  destruct (Hp p Ep) as [a [Hfind [_ HVp]]]. rewrite Hfind. cbn [expect rbind].
  destruct (find_arg_some _ _ _ Hfind) as [Hin _].
  eapply safe_bind; [apply react_core_safe; [exact Hin|exact HVp|apply G_clear_pending; exact (conj (conj Hp (conj He HP)) (conj Hfa Hfs))]|].
  intros [st' pr] [HG' [_ Hpe]]. cbn in *. split; [exact HG'|]. rewrite Hpe. unfold pending_of. autorewrite with ps. reflexivity.
Qed.

Lemma react_safe idn s a raw ti st : In a (c_args c) -> Forall V raw -> G st ->
  safe (fun x => G (fst x) /\ snd x = PRValuesDone /\ pending_of (fst x) = None) G (react c idn s a raw ti st).
Proof.
  intros Hin HVraw HG. unfold react. eapply safe_bind; [apply resolve_pending_safe; exact HG|].
  intros st1 [HG1 Hp1]. eapply safe_weaken; [apply react_core_safe; eassumption| |auto].
  intros x [H1 [H2 H3]]. split; [exact H1|split; [exact H2|congruence]].
Qed.

Lemma resolve_pending_ignore_safe st : G st ->
  safe (fun s => G s) G (resolve_pending_ignore c st).
Proof.
  intros HG. unfold resolve_pending_ignore. pose proof (resolve_pending_safe st HG) as H.
  destruct (resolve_pending c st); cbn in *; [apply H|exact H|exact H].
Qed.

(** ** results of the option/flag parsers *)
Definition pend_is (st : ps) (i : id) : Prop := exists p, pending_of st = Some p /\ p_id p = i.
Definition sub_findable (n : bytes) : Prop := exists sc, find_subcommand c n = Some sc.

Definition flag_res (st : ps) (x : ps * presult * bool) : Prop :=
  let '(st1, pr, _) := x in
  G st1 /\
  match pr with
  | PROpt i => pend_is st1 i
  | PRFlagSub n => sub_findable n /\ st1 = st
  | PRMaybeHyphen | PRNoArg => st1 = st
  | PRAttachedNotConsumed => False
  | _ => True
  end.

(** ** [parse_opt_value] *)
Lemma pending_values_push_new m i idn tr v : mt_pending m = None ->
  pending_values_push m i idn tr v =
  Some (m <| mt_pending := Some (mkPending i idn (match v with Some x => [x] | None => [] end)
                                  (if tr then Some 0 else None)) |>).
Proof.
  intros H. unfold pending_values_push. rewrite H. cbn [p_id p_ident p_raw p_trailing_idx].
  rewrite beq_refl. cbn [negb].
  replace (is_some idn && negb (ident_eqb idn idn)) with false
    by (destruct idn as [[]|]; reflexivity).
  destruct tr; destruct v; reflexivity.
Qed.

Lemma G_new_pending st p a : G st -> find_arg c (p_id p) = Some a ->
  (p_ident p = Some IIndex \/ a_is_positional a = false) -> Forall V (p_raw p) ->
  G (st <| mt := (mt st) <| mt_pending := Some p |> |>).
Proof.
  intros [[Hp [He HP]] [Hfa Hfs]] Hf Hi HVp. repeat split; autorewrite with ps; auto.
  intros p' Hp'. autorewrite with ps in Hp'. inversion Hp'; subst. exists a; split; [assumption|split; assumption].
Qed.

Lemma parse_opt_value_safe idn attached a has_eq st :
  In a (c_args c) -> a_is_positional a = false -> (forall v, attached = Some v -> V v) -> G st ->
  safe (fun x => G (fst x) /\
                 match snd x with
                 | PROpt i => pend_is (fst x) i
                 | PRValuesDone => True
                 | PRAttachedNotConsumed => attached <> None /\ a_req_eq a = true /\ has_eq = false
                 | PREqualsNotProvided _ => True
                 | _ => False end) G
       (parse_opt_value c idn attached a has_eq st).
Proof.
  intros Hin Hnp HVa HG. unfold parse_opt_value.
  destruct (a_req_eq a && negb has_eq) eqn:Ereq.
  - destruct (W1 a Hin) as [_ [Hn _]]. destruct (a_num a) as [r|]; [|contradiction]. cbn [expect rbind].
    destruct (vmin r =? 0).
    + eapply safe_bind; [apply react_safe; [exact Hin|constructor|exact HG]|]. intros x [HGx _]. cbn. split; [exact HGx|].
      destruct attached; cbn; [|exact I]. apply andb_prop in Ereq. destruct Ereq as [E1 E2].
      repeat split; [discriminate|exact E1|destruct has_eq; [discriminate|reflexivity]].
    + cbn. split; [exact HG|exact I].
  - destruct attached as [v|].
    + eapply safe_bind; [apply react_safe; [exact Hin|constructor; [apply HVa; reflexivity|constructor]|exact HG]|].
      intros x [HGx _]. cbn. split; [exact HGx|exact I].
    + eapply safe_bind; [apply resolve_pending_safe; exact HG|]. intros st1 [HG1 Hp1].
      rewrite (pending_values_push_new _ _ _ _ _ Hp1). cbn [expect rbind]. cbn.
      split.
      * destruct (find_arg_of_in c a Hin) as [a' Ha']. rewrite (W3 a Hin) in Ha'. inversion Ha'; subst a'.
        eapply G_new_pending; [exact HG1|cbn; apply W3; exact Hin|right; exact Hnp|constructor].
      * eexists. unfold pending_of. autorewrite with ps. split; reflexivity.
Qed.

(** ** subcommand names that the lookups return are resolvable *)
Lemma find_subcommand_name sc : In sc (c_subs c) -> sub_findable (c_name sc).
Proof.
  intros Hin. unfold sub_findable, find_subcommand.
  destruct (List.find (fun s => aliases_to s (c_name sc)) (c_subs c)) as [s|] eqn:E; [exists s; reflexivity|].
  exfalso. apply (List.find_none _ _ E) in Hin. unfold aliases_to in Hin. rewrite beq_refl in Hin. discriminate.
Qed.

Lemma first_unique_in {A} (l : list A) x : first_unique l = Some x -> In x l.
Proof. destruct l as [|y [|z t]]; cbn; try discriminate. intros H; inversion H; left; reflexivity. Qed.

Lemma filter_map_in {A B} (f : A -> option B) l y : In y (filter_map f l) -> exists x, In x l /\ f x = Some y.
Proof.
  induction l as [|a t IH]; cbn; [tauto|]. destruct (f a) as [b|] eqn:E.
  - intros [<-|H]; [exists a; split; [left; reflexivity|exact E]|].
    destruct (IH H) as [x [H1 H2]]. exists x; split; [right; exact H1|exact H2].
  - intros H. destruct (IH H) as [x [H1 H2]]. exists x; split; [right; exact H1|exact H2].
Qed.

Lemma possible_long_flag_subcommand_findable l n : possible_long_flag_subcommand c l = Some n -> sub_findable n.
Proof.
  unfold possible_long_flag_subcommand.
  set (inf := if is_set s_infer_sub c then _ else None).
  assert (Hinf : forall n0, inf = Some n0 -> sub_findable n0).
  { subst inf. destruct (is_set s_infer_sub c); [|discriminate]. intros n0 H.
    apply first_unique_in, filter_map_in in H. destruct H as [sc [Hin H]].
    destruct (c_long_flag sc); [|discriminate].
    destruct (is_prefix l b); [inversion H; apply find_subcommand_name; exact Hin|].
    destruct (existsb _ _); inversion H. apply find_subcommand_name; exact Hin. }
  destruct inf as [n0|]; [intros H; inversion H; subst; apply Hinf; reflexivity|].
  unfold find_long_subcmd. destruct (List.find _ (c_subs c)) as [sc|] eqn:E; cbn; [|discriminate].
  intros H; inversion H. apply find_subcommand_name. apply (List.find_some _ _ E).
Qed.

Lemma possible_subcommand_findable tok vaf n : possible_subcommand c tok vaf = Some n -> sub_findable n.
Proof.
  unfold possible_subcommand. destruct (negb (utf8_valid tok)); [discriminate|].
  destruct (is_set s_args_negate_subs c && vaf); [discriminate|].
  set (inf := if is_set s_infer_sub c then _ else None).
  assert (Hinf : forall n0, inf = Some n0 -> sub_findable n0).
  { subst inf. destruct (is_set s_infer_sub c); [|discriminate]. intros n0 H.
    apply first_unique_in, filter_map_in in H. destruct H as [sc [Hin H]].
    destruct (is_prefix tok (c_name sc)); [inversion H; apply find_subcommand_name; exact Hin|].
    (* an alias: find_subcommand resolves aliases too *)
    apply List.find_some in H. destruct H as [Hal _].
    unfold sub_findable, find_subcommand.
    destruct (List.find (fun s => aliases_to s n0) (c_subs c)) as [s|] eqn:E; [exists s; reflexivity|].
    exfalso. apply (List.find_none _ _ E) in Hin. unfold aliases_to in Hin.
    apply Bool.orb_false_elim in Hin. destruct Hin as [_ Hin].
    assert (existsb (beq n0) (all_aliases sc) = true) by (apply existsb_exists; exists n0; split; [exact Hal|apply beq_refl]).
    congruence. }
  destruct inf as [n0|]; [intros H; inversion H; subst; apply Hinf; reflexivity|].
  destruct (find_subcommand c tok) as [sc|] eqn:E; cbn; [|discriminate].
  intros H; inversion H. apply find_subcommand_name. unfold find_subcommand in E. apply (List.find_some _ _ E).
Qed.

(** ** [parse_long_arg] *)
Definition LI (pst : pstate_t) (st : ps) : Prop :=
  match pst with
  | PSOpt i => pend_is st i
  | PSPos i => exists a, find_arg c i = Some a
  | PSValuesDone => True
  end.

Lemma state_arg_safe pst st : G st -> LI pst st ->
  exists sa, state_arg c pst = ROk sa /\ (forall a, sa = Some a -> In a (c_args c)).
Proof.
  intros HG HL. destruct pst as [|i|i]; cbn.
  - exists None. split; [reflexivity|discriminate].
  - destruct HL as [p [Hp Hid]]. destruct HG as [[Hpe _] _]. destruct (Hpe p Hp) as [a [Hf _]].
    rewrite Hid in Hf. rewrite Hf. cbn. exists (Some a). split; [reflexivity|].
    intros a0 H; inversion H; subst. apply (find_arg_some _ _ _ Hf).
  - destruct HL as [a Hf]. rewrite Hf. cbn. exists (Some a). split; [reflexivity|].
    intros a0 H; inversion H; subst. apply (find_arg_some _ _ _ Hf).
Qed.

Lemma nonpos_of_index_none a : In a (c_args c) -> a_index a = None -> a_is_positional a = false.
Proof.
  intros Hin Hi. destruct (a_is_positional a) eqn:E; [|reflexivity].
  exfalso. apply (W5 a Hin E). exact Hi.
Qed.

Lemma parse_long_arg_safe flag ok value pst pc vaf st :
  G st -> LI pst st -> (flag = [] -> value <> None) -> (forall v, value = Some v -> V v) ->
  safe (fun x => flag_res st x /\ snd (fst x) <> PRNoArg) G (parse_long_arg c flag ok value pst pc vaf st).
Proof.
  intros HG HL Hflag HVv. unfold parse_long_arg.
  destruct (state_arg_safe pst st HG HL) as [sa [-> _]]. cbn [rbind].
  destruct (match sa with Some a => a_hyphen a | None => false end);
    [cbn; split; [split; [exact HG|reflexivity]|discriminate]|].
  destruct (negb ok); [cbn; split; [split; [exact HG|exact I]|discriminate]|].
  destruct (is_nil flag && negb (is_some value)) eqn:En.
  { exfalso. apply andb_prop in En. destruct En as [E1 E2]. destruct flag; [|discriminate].
    specialize (Hflag eq_refl). destruct value; [discriminate|contradiction]. }
  set (found := match get_long c flag with Some a => Some a | None => _ end).
  assert (Hfound : forall a, found = Some a -> In a (c_args c) /\ a_is_positional a = false).
  { subst found. intros a. destruct (get_long c flag) as [a0|] eqn:Eg.
    - intros H; inversion H; subst. destruct (get_long_in _ _ _ Eg) as [Hin Hi].
      split; [exact Hin|apply nonpos_of_index_none; assumption].
    - destruct (is_set s_infer_long c); [|discriminate]. intros H.
      apply first_unique_in, filter_map_in in H. destruct H as [x [Hin H]].
      destruct (a_is_positional x) eqn:Ep; [discriminate|].
      assert (x = a).
      { destruct (a_long x); [destruct (is_prefix flag b); [inversion H; reflexivity|]|];
          destruct (existsb _ _); inversion H; reflexivity. }
      subst. split; assumption. }
  destruct found as [a|].
  - destruct (Hfound a eq_refl) as [Hin Hnp].
    destruct (a_takes_value a).
    + eapply safe_bind; [apply parse_opt_value_safe; eassumption|].
      intros [st1 pr] [HG1 Hpr]. cbn in *.
      destruct pr; try contradiction; (split; [split; [exact HG1|try exact I; try exact Hpr]|discriminate]).
      destruct Hpr as [H1 [_ H3]]. destruct value; [discriminate|contradiction].
    + destruct value as [rest|]; [cbn; split; [split; [exact HG|exact I]|discriminate]|].
      eapply safe_bind; [apply react_safe; [exact Hin|constructor|exact HG]|].
      intros [st1 pr] [HG1 [Hpr _]]. cbn in *. subst pr. split; [split; [exact HG1|exact I]|discriminate].
  - destruct (possible_long_flag_subcommand c flag) as [n|] eqn:Es.
    + cbn. split; [|discriminate]. split; [exact HG|].
      split; [eapply possible_long_flag_subcommand_findable; exact Es|reflexivity].
    + destruct (match get_pos c pc with Some a => a_hyphen a && negb (a_last a) | None => false end);
        cbn; (split; [split; [exact HG|]|discriminate]); [reflexivity|exact I].
Qed.

(** ** the short cluster *)
Lemma strip_eq_spec (val : option bytes) :
  (match val with Some (61 :: v) => (Some v, true) | _ => (val, false) end) =
  match val with Some (b :: v) => if b =? 61 then (Some v, true) else (val, false) | _ => (val, false) end.
Proof.
  destruct val as [[|b v]|]; try reflexivity. destruct (b =? 61) eqn:E.
  - apply N.eqb_eq in E. subst. reflexivity.
  - destruct b as [|p]; [reflexivity|].
    do 7 (try (destruct p as [p|p|]; try reflexivity)); cbn in E; discriminate.
Qed.

Lemma sf_next_skipn r ch r' : sf_next r = Some (inl ch, r') -> exists n, r' = skipn n r.
Proof.
  unfold sf_next. destruct r as [|b t]; [discriminate|].
  destruct (utf8_step (b :: t)) as [[c0 n]|]; intros H; inversion H. exists n. reflexivity.
Qed.

(** ** [is_new_arg] *)
Lemma is_new_arg_safe next a : In a (c_args c) -> exists b, is_new_arg c next a = ROk b.
Proof.
  intros Hin. unfold is_new_arg. rewrite (W3 a Hin). cbn [expect rbind].
  destruct (a_hyphen a || (a_negnum a && pa_is_negative_number next)); [eexists; reflexivity|].
  destruct (is_long next); [eexists; reflexivity|]. destruct (is_short next); eexists; reflexivity.
Qed.

Lemma to_long_flag tok f ok v : to_long tok = Some (f, ok, v) -> f = [] -> v <> None.
Proof.
  unfold to_long. destruct (strip_prefix tok [DASH; DASH]) as [[|b t]|]; try discriminate.
  destruct (split_once (b :: t) [EQ]) as [[f0 v0]|] eqn:E.
  - intros H; inversion H; subst. discriminate.
  - intros H; inversion H; subst. discriminate.
Qed.

Lemma to_short_nonempty tok r : to_short tok = Some r -> r <> [].
Proof.
  unfold to_short. destruct (strip_prefix tok [DASH]) as [r0|]; [|discriminate].
  destruct (starts_with r0 [DASH]); [discriminate|]. destruct r0; cbn; [discriminate|].
  intros H; inversion H; discriminate.
Qed.

Lemma pending_values_push_same m p i idn tr v :
  mt_pending m = Some p -> p_id p = i -> (idn = None \/ p_ident p = idn) ->
  exists p', pending_values_push m i idn tr v = Some (m <| mt_pending := Some p' |>)
             /\ p_id p' = i /\ p_ident p' = p_ident p
             /\ p_raw p' = match v with Some x => p_raw p ++ [x] | None => p_raw p end.
Proof.
  intros Hp Hi Hid. subst i. unfold pending_values_push. rewrite Hp. rewrite beq_refl. cbn [negb].
  replace (is_some idn && negb (ident_eqb (p_ident p) idn)) with false.
  - eexists. split; [reflexivity|]. cbn. split; [reflexivity|split; reflexivity].
  - destruct Hid as [->|Hid]; [reflexivity|]. rewrite Hid. destruct idn as [[]|]; reflexivity.
Qed.

Lemma G_update_pending st p p' : G st -> pending_of st = Some p -> p_id p' = p_id p -> p_ident p' = p_ident p ->
  Forall V (p_raw p') ->
  G (st <| mt := (mt st) <| mt_pending := Some p' |> |>).
Proof.
  intros HG Hp Hid Hident HVp. pose proof HG as [[Hpe _] _]. destruct (Hpe p Hp) as [a [Hf [Hi _]]].
  eapply G_new_pending; [exact HG|rewrite Hid; exact Hf|rewrite Hident; exact Hi|exact HVp].
Qed.

Lemma pending_raw_V st p : G st -> pending_of st = Some p -> Forall V (p_raw p).
Proof. intros [[Hpe _] _] Hp. destruct (Hpe p Hp) as [a [_ [_ HV]]]. exact HV. Qed.

Lemma push_pos_safe st a tok trailing : In a (c_args c) -> a_index a <> None -> V tok -> G st ->
  (pending_of st = None \/ exists p, pending_of st = Some p /\ p_id p = a_id a) ->
  exists m1, pending_values_push (mt st) (a_id a) (Some IIndex) trailing (Some tok) = Some m1
             /\ G (st <| mt := m1 |>).
Proof.
  intros Hin Hidx HVtok HG [Hn|[p [Hp Hid]]].
  - rewrite (pending_values_push_new _ _ _ _ _ Hn). eexists. split; [reflexivity|].
    eapply G_new_pending; [exact HG|cbn; apply W3; exact Hin|left; reflexivity|cbn; repeat constructor; exact HVtok].
  - pose proof HG as [[Hpe _] _]. destruct (Hpe p Hp) as [a' [Hf [Hi HVp]]].
    rewrite Hid, (W3 a Hin) in Hf. inversion Hf; subst a'.
    assert (Hident : p_ident p = Some IIndex).
    { destruct Hi as [Hi|Hi]; [exact Hi|]. rewrite (W2 a Hin Hidx) in Hi. discriminate. }
    destruct (pending_values_push_same (mt st) p (a_id a) (Some IIndex) trailing (Some tok) Hp Hid)
      as [p' [Hpush [Hid' [Hident' Hraw']]]]; [right; exact Hident|].
    rewrite Hpush. eexists. split; [reflexivity|].
    eapply G_update_pending; [exact HG|exact Hp|congruence|exact Hident'|].
    rewrite Hraw'. apply Forall_app. split; [exact HVp|repeat constructor; exact HVtok].
Qed.

(** every suffix of a token has an admissible provenance *)
Definition Vtok (tok : bytes) : Prop := forall n, V (skipn n tok).

Lemma to_long_value_suffix tok f ok v : to_long tok = Some (f, ok, Some v) -> exists n, v = skipn n tok.
Proof.
  unfold to_long, strip_prefix. destruct (starts_with tok [DASH; DASH]); [|discriminate].
  remember (skipn (length [DASH; DASH]) tok) as r eqn:Er. destruct r as [|b t]; [discriminate|].
  unfold split_once. destruct (find (b :: t) [EQ]) as [start|]; [|discriminate].
  intros H; inversion H; subst v. exists (length [DASH; DASH] + (start + length [EQ]))%nat.
  rewrite <- (skipn_add (start + length [EQ]) (length [DASH; DASH]) tok), <- Er. reflexivity.
Qed.

Lemma to_short_suffix tok r : to_short tok = Some r -> exists n, r = skipn n tok.
Proof.
  unfold to_short, strip_prefix. destruct (starts_with tok [DASH]); [|discriminate].
  destruct (starts_with _ [DASH]); [discriminate|]. destruct (is_nil _); [discriminate|].
  intros H. injection H as <-. exists (length [DASH]). reflexivity.
Qed.

(** ** the environment and default phases *)
Lemma fold_res_safe {A} (step : res ps -> A -> res ps) (l : list A) (Q : A -> Prop) :
  (forall x, In x l -> Q x) ->
  (forall acc x, Q x -> safe G G acc -> safe G G (step acc x)) ->
  forall acc, safe G G acc -> safe G G (fold_left step l acc).
Proof.
  intros HQ Hstep. induction l as [|x t IH]; intros acc Hacc; cbn [fold_left]; [exact Hacc|].
  apply IH; [intros y Hy; apply HQ; right; exact Hy|]. apply Hstep; [apply HQ; left; reflexivity|exact Hacc].
Qed.

Lemma add_env_safe st : G st -> safe G G (add_env c st).
Proof.
  intros HG. unfold add_env.
  apply (fold_res_safe _ (c_args c) (fun a => In a (c_args c))); [auto| |exact HG].
  intros acc a Hin Hacc. eapply safe_bind; [exact Hacc|]. intros s HGs.
  destruct (mt_contains (mt s) (a_id a)); [exact HGs|].
  destruct (a_env a) as [v|] eqn:Eenv; [|exact HGs].
  eapply safe_bind; [apply react_safe; [exact Hin|repeat constructor; eapply V_env; eassumption|exact HGs]|]. intros x [Hx _]. exact Hx.
Qed.

Lemma add_default_value_safe a st : In a (c_args c) -> G st -> safe G G (add_default_value c a st).
Proof.
  intros Hin HG. unfold add_default_value.
  assert (Plain : safe G G (if negb (is_nil (a_default a)) then
                              if mt_contains (mt st) (a_id a) then ROk st
                              else do x <- react c None SDefault a (a_default a) None st; ROk (fst x)
                            else ROk st)).
  { destruct (negb (is_nil (a_default a))); [|exact HG]. destruct (mt_contains (mt st) (a_id a)); [exact HG|].
    eapply safe_bind; [apply react_safe; [exact Hin|apply V_def; exact Hin|exact HG]|]. intros x [Hx _]. exact Hx. }
  destruct (negb (is_nil (a_default_ifs a)) && negb (mt_contains (mt st) (a_id a))); [|exact Plain].
  destruct (List.find _ (a_default_ifs a)) as [[[i p] [d|]]|] eqn:Ef; [|exact HG|exact Plain].
  apply List.find_some in Ef. destruct Ef as [Hind _].
  eapply safe_bind; [apply react_safe; [exact Hin|repeat constructor; eapply V_dif; eassumption|exact HG]|]. intros x [Hx _]. exact Hx.
Qed.

Lemma add_defaults_safe st : G st -> safe G G (add_defaults c st).
Proof.
  intros HG. unfold add_defaults.
  apply (fold_res_safe _ (c_args c) (fun a => In a (c_args c))); [auto| |exact HG].
  intros acc a Hin Hacc. eapply safe_bind; [exact Hacc|]. intros s HGs. apply add_default_value_safe; assumption.
Qed.

(** ** storing the subcommand's matches does not disturb the invariant *)
Lemma G_set_sub st sub : G st -> G (st <| mt := (mt st) <| mt_sub := sub |> |>).
Proof. intros [[Hp [He HP]] [Hfa Hfs]]. repeat split; assumption. Qed.

Lemma G_ps_new : P [] 0 -> FA None -> FS 0 -> G ps_new.
Proof.
  intros HP HA HS. repeat split; cbn; try assumption; try reflexivity.
  - intros p Hp. discriminate.
  - intros i m [].
Qed.

(** * part 2: the resume state of short flag-subcommands *)

(** "no subcommand of this level has a short flag" (the level hypothesis W4 of Invariant.v), now a case *)
Definition W4c : Prop := forall ch, find_short_subcmd c ch = None.
Hypothesis HFA : forall a, FA a <-> (W4c \/ a = None).
Hypothesis HFS : forall s, FS s <-> s = 0.

(** what is left of the invariant once the resume state no longer matters (after the loop; error states) *)
Definition Gout (st : ps) : Prop := MG (mt st) (cur_idx st).

Lemma G_inv st : G st -> Gout st /\ FA (fs_at st) /\ fs_skip st = 0.
Proof. intros [HM [Ha Hs]]. split; [exact HM|split; [exact Ha|apply HFS; exact Hs]]. Qed.
Lemma G_of st : Gout st -> FA (fs_at st) -> fs_skip st = 0 -> G st.
Proof. intros HM Ha Hs. split; [exact HM|split; [exact Ha|apply HFS; exact Hs]]. Qed.

Lemma find_short_subcmd_findable ch n : find_short_subcmd c ch = Some n -> sub_findable n.
Proof.
  unfold find_short_subcmd. destruct (List.find _ (c_subs c)) as [sc|] eqn:E; cbn; [|discriminate].
  intros H; inversion H. apply find_subcommand_name. apply (List.find_some _ _ E).
Qed.

(** the cluster starts with a character, and something follows it *)
Definition first_ok (r : bytes) : Prop := exists ch r', sf_next r = Some (inl ch, r') /\ r' <> [].

Lemma first_ok_nonempty r : first_ok r -> r <> [].
Proof. intros [ch [r' [H _]]] ->. cbn in H. discriminate. Qed.

(** ** the short cluster *)
Definition short_post (st : ps) (r : bytes) (ret : presult) (x : ps * presult * bool) : Prop :=
  let '(st1, pr, _) := x in
  Gout st1 /\ fs_skip st1 = 0 /\
  match pr with
  | PROpt i => FA (fs_at st1) /\ pend_is st1 i
  | PRFlagSub n => sub_findable n /\ (exists ch, find_short_subcmd c ch = Some n)
                   /\ (fs_at st1 = None \/ (fs_at st1 = Some (cur_idx st1) /\ first_ok r))
  | PRMaybeHyphen => False
  | PRNoArg => st1 = st /\ ret = PRNoArg /\ r = []
  | PRAttachedNotConsumed | PRUnneeded _ _ => False
  | _ => FA (fs_at st1)
  end.

Lemma short_loop_fs : forall fuel r ret vaf st,
  (length r < fuel)%nat -> G st ->
  (ret = PRNoArg \/ ret = PRValuesDone) -> (forall n, V (skipn n r)) ->
  safe (short_post st r ret) G (short_loop c fuel r ret vaf st).
Proof.
  induction fuel as [|f IH]; intros r ret vaf st Hlen HG Hret HVs; [lia|].
  cbn [short_loop].
  destruct (sf_next r) as [[[ch|rest] r']|] eqn:En.
  - pose proof En as Hshr. apply sf_next_shrinks in Hshr.
    assert (HVs' : forall n, V (skipn n r')).
    { destruct (sf_next_skipn _ _ _ En) as [n0 ->]. intros n. rewrite skipn_add. apply HVs. }
    (* what a recursive call on [r'] gives for the whole cluster *)
    assert (Lift : forall ret' st' (x : ps * presult * bool),
               (r' <> [] \/ ret' = PRValuesDone) -> short_post st' r' ret' x -> short_post st r ret x).
    { intros ret' st' [[st2 pr2] v2] Hne [HG2 [Hs2 H2]]. split; [exact HG2|split; [exact Hs2|]].
      destruct pr2; try exact H2; try exact I.
      - destruct H2 as [Hf [Hex [Hn|[Ha Hfo]]]]; (split; [exact Hf|split; [exact Hex|]]); [left; exact Hn|right; split; [exact Ha|]].
        exists ch, r'. split; [exact En|apply first_ok_nonempty; exact Hfo].
      - destruct H2 as [_ [H2 H3]]. destruct Hne as [Hne|Hne]; [contradiction|]. subst ret'. discriminate. }
    destruct (get_short c ch) as [a|] eqn:Eg.
    + destruct (get_short_in _ _ _ Eg) as [Hin Hi].
      pose proof (nonpos_of_index_none a Hin Hi) as Hnp.
      destruct (negb (a_takes_value a)).
      * eapply safe_bind; [apply react_safe; [exact Hin|constructor|exact HG]|].
        intros [st1 pr] [HG1 [Hpr _]]. cbn in Hpr, HG1. subst pr. cbn [fst snd].
        eapply safe_weaken; [apply IH; [lia|exact HG1|right; reflexivity|exact HVs']| |auto].
        intros x Hx. eapply Lift; [right; reflexivity|exact Hx].
      * set (val := match r' with [] => None | _ => Some r' end).
        destruct (match val with Some (61 :: v) => (Some v, true) | _ => (val, false) end) as [val' has_eq] eqn:Ev.
        assert (HVval : forall v, val' = Some v -> V v).
        { intros v Hv. rewrite strip_eq_spec in Ev. subst val.
          destruct r' as [|b0 t0]; [injection Ev as E1 _; rewrite <- E1 in Hv; discriminate|].
          destruct (b0 =? 61); injection Ev as E1 _; rewrite <- E1 in Hv; injection Hv as <-;
            [apply (HVs' 1%nat)|apply (HVs' 0%nat)]. }
        eapply safe_bind; [apply parse_opt_value_safe; eassumption|].
        intros [st1 pr] [HG1 Hpr]. cbn [fst snd] in *.
        destruct (G_inv _ HG1) as [Ho1 [Ha1 Hs1]].
        destruct pr; try contradiction; cbn.
        -- split; [exact Ho1|split; [exact Hs1|split; [exact Ha1|exact Hpr]]].
        -- split; [exact Ho1|split; [exact Hs1|exact Ha1]].
        -- (* attached value not consumed: go on with the rest of the cluster *)
           destruct Hpr as [Hatt _].
           assert (Hr' : r' <> []).
           { subst val. destruct r'; [|discriminate]. inversion Ev; subst. contradiction. }
           eapply safe_weaken; [apply IH; [lia|exact HG1|exact Hret|exact HVs']| |auto].
           intros x Hx. eapply Lift; [left; exact Hr'|exact Hx].
        -- split; [exact Ho1|split; [exact Hs1|exact Ha1]].
    + destruct (find_short_subcmd c ch) as [name|] eqn:Ef.
      * (* a short flag-subcommand: the pending occurrence is stored, the index counter bumped, [at] recorded *)
        eapply safe_bind; [apply resolve_pending_safe; exact HG|]. intros st1 [HG1 _].
        assert (Hat : fs_at st1 = None).
        { destruct (G_inv _ HG1) as [_ [Ha1 _]]. apply HFA in Ha1. destruct Ha1 as [Hw|Hn]; [|exact Hn].
          rewrite Hw in Ef. discriminate. }
        pose proof (G_inv _ (G_bump _ HG1)) as [Hob [_ Hsb]].
        unfold Gout in Hob. autorewrite with ps in Hob, Hsb.
        destruct st1 as [m1 k1 a1 s1]. cbn in Hat, Hob, Hsb. subst a1 s1.
        cbn. split; [exact Hob|split; [reflexivity|]].
        split; [eapply find_short_subcmd_findable; exact Ef|split; [exists ch; exact Ef|]].
        destruct r' as [|b0 t0]; cbn; [left; reflexivity|right; split; [reflexivity|]].
        exists ch, (b0 :: t0). split; [exact En|discriminate].
      * destruct (G_inv _ HG) as [Ho [Ha Hs]]. cbn. split; [exact Ho|split; [exact Hs|exact Ha]].
  - destruct (G_inv _ HG) as [Ho [Ha Hs]]. cbn. split; [exact Ho|split; [exact Hs|exact Ha]].
  - destruct (G_inv _ HG) as [Ho [Ha Hs]]. cbn. split; [exact Ho|split; [exact Hs|]].
    destruct Hret as [->| ->]; [|exact Ha].
    split; [reflexivity|split; [reflexivity|]]. unfold sf_next in En. destruct r; [reflexivity|].
    destruct (utf8_step (n :: r)) as [[? ?]|]; discriminate.
Qed.

(** ** [parse_short_arg], nothing to skip *)
Lemma parse_short_arg_fs r pst pc vaf st : r <> [] -> G st -> LI pst st -> (forall n, V (skipn n r)) ->
  safe (fun x => let '(st1, pr, _) := x in
                 Gout st1 /\ fs_skip st1 = 0 /\
                 match pr with
                 | PROpt i => FA (fs_at st1) /\ pend_is st1 i
                 | PRMaybeHyphen => st1 = st
                 | PRFlagSub n => sub_findable n /\ (exists ch, find_short_subcmd c ch = Some n)
                                  /\ (fs_at st1 = None \/ (fs_at st1 = Some (cur_idx st1) /\ first_ok r))
                 | PRNoArg | PRAttachedNotConsumed | PRUnneeded _ _ => False
                 | _ => FA (fs_at st1)
                 end) G
       (parse_short_arg c r pst pc vaf st).
Proof.
  intros Hr HG HL HVs. unfold parse_short_arg.
  destruct (state_arg_safe pst st HG HL) as [sa [-> _]]. cbn [rbind].
  destruct (G_inv _ HG) as [Ho [Ha Hs]].
  destruct (match sa with Some a => a_hyphen a || (a_negnum a && sf_is_negative_number r) | None => false end);
    [cbn; split; [exact Ho|split; [exact Hs|reflexivity]]|].
  destruct (match get_pos c pc with Some a => a_negnum a | None => false end && sf_is_negative_number r);
    [cbn; split; [exact Ho|split; [exact Hs|reflexivity]]|].
  destruct (match get_pos c pc with Some a => a_hyphen a && negb (a_last a) | None => false end
            && sf_any_unknown c (S (length r)) r);
    [cbn; split; [exact Ho|split; [exact Hs|reflexivity]]|].
  rewrite Hs.
  replace (N.to_nat (N.min 0 (N.of_nat (S (length r))))) with O by lia. cbn [sf_advance_by expect rbind].
  assert (Hst : st <| fs_skip := 0 |> = st).
  { destruct st; cbn in *. subst. reflexivity. }
  rewrite Hst.
  eapply safe_weaken; [apply short_loop_fs; [lia|exact HG|left; reflexivity|exact HVs]| |auto].
  intros [[st1 pr] v] [HG1 [Hs1 H1]]. split; [exact HG1|split; [exact Hs1|]].
  destruct pr; try exact H1; try exact I; try contradiction.
  destruct H1 as [_ [_ H1]]. contradiction.
Qed.

(** ** [parse_short_arg] on the cluster that is re-read by the level a short flag-subcommand selected:
    skip = 1.  The level has no short flag-subcommands of its own, and the positional the counter points
    at accepts neither negative numbers nor (unless it is [last]) hyphen values, so the early
    MaybeHyphenValue returns -- which would leave the skip unconsumed -- are not taken. *)
Definition nohyph (pc : N) : bool :=
  match get_pos c pc with
  | Some a => negb (a_negnum a) && negb (a_hyphen a && negb (a_last a))
  | None => true end.

Lemma parse_short_arg_resume r pc vaf st :
  first_ok r -> W4c -> nohyph pc = true ->
  fs_skip st = 1 -> G (st <| fs_skip := 0 |>) -> (forall n, V (skipn n r)) ->
  safe (fun x => let '(st1, pr, _) := x in
                 G st1 /\
                 match pr with
                 | PROpt i => pend_is st1 i
                 | PRMaybeHyphen | PRFlagSub _ | PRNoArg | PRAttachedNotConsumed | PRUnneeded _ _ => False
                 | _ => True
                 end) G
       (parse_short_arg c r PSValuesDone pc vaf st).
Proof.
  intros [ch [r' [Hnext Hr']]] Hw Hnh Hskip HG HVs. unfold parse_short_arg. cbn [state_arg rbind].
  assert (H2 : match get_pos c pc with Some a => a_negnum a | None => false end = false
               /\ match get_pos c pc with Some a => a_hyphen a && negb (a_last a) | None => false end = false).
  { unfold nohyph in Hnh. destruct (get_pos c pc) as [a|]; [|split; reflexivity].
    apply andb_prop in Hnh. destruct Hnh as [E1 E2].
    split; [destruct (a_negnum a); [discriminate|reflexivity]|destruct (a_hyphen a && negb (a_last a)); [discriminate|reflexivity]]. }
  destruct H2 as [E1 E2]. rewrite E1, E2. cbn [andb].
  rewrite Hskip.
  replace (N.to_nat (N.min 1 (N.of_nat (S (length r))))) with 1%nat by lia.
  cbn [sf_advance_by]. rewrite Hnext. cbn [expect rbind].
  assert (HVs' : forall n, V (skipn n r')).
  { destruct (sf_next_skipn _ _ _ Hnext) as [n0 ->]. intros n. rewrite skipn_add. apply HVs. }
  eapply safe_weaken; [apply short_loop_fs; [lia|exact HG|left; reflexivity|exact HVs']| |auto].
  intros [[st1 pr] v] [HG1 [Hs1 H1]].
  destruct pr; try contradiction.
  - destruct H1 as [_ [[ch0 Hch0] _]]. rewrite Hw in Hch0. discriminate.
  - split; [apply G_of; [exact HG1|apply H1|exact Hs1]|apply H1].
  - split; [apply G_of; assumption|exact I].
  - split; [apply G_of; assumption|exact I].
  - split; [apply G_of; assumption|exact I].
  - destruct H1 as [_ [_ H1]]. contradiction.
Qed.

(** ** the token loop *)
(** the tokens handed to a level that is entered with [keep_state]: the cluster that is read again comes first *)
Definition resumable (toks : list bytes) : Prop :=
  exists tok rest r, toks = tok :: rest /\ to_short tok = Some r /\ first_ok r.

Definition lr_ok (lr : loop_res) : Prop :=
  match lr with
  | LDone st => Gout st
  | LSub n keep _ st toks' =>
      Gout st /\ sub_findable n
      /\ (keep = true -> (exists ch, find_short_subcmd c ch = Some n) /\ fs_skip st = 1 /\ resumable toks')
  | LExternal _ _ st => Gout st
  | LHelpSub _ st => Gout st
  end.

Lemma parse_loop_fs : forall toks ls st, G st -> LI (l_pst ls) st -> Forall Vtok toks ->
  safe lr_ok G (parse_loop c toks ls st).
Proof.
  induction toks as [|tok rest IH0]; intros ls st HG HL HVtoks; [cbn; exact (proj1 HG)|].
  inversion HVtoks as [|? ? HVtok HVrest]; subst.
  assert (IH : forall ls st, G st -> LI (l_pst ls) st -> safe lr_ok G (parse_loop c rest ls st))
    by (intros; apply IH0; assumption).
  clear IH0.
  assert (HVt0 : V tok) by (apply (HVtok 0%nat)).
  cbn [parse_loop].
  (* phase 1 *)
  match goal with |- safe _ _ (rbind ?ph _) => set (phase1 := ph) end.
  assert (Hph : safe (fun x => let '(early, ls1, st1) := x in
                        match early with
                        | Some r => safe lr_ok G r
                        | None => G st1 /\ LI (l_pst ls1) st1 /\ l_pst ls1 = l_pst ls end) G phase1).
  { subst phase1. destruct (l_trailing ls); [cbn; split; [exact HG|split; [exact HL|reflexivity]]|].
    destruct (if is_set s_sub_precedence c || match l_pst ls with PSValuesDone => true | _ => false end
              then possible_subcommand c tok (l_vaf ls) else None) as [sc|] eqn:Esub.
    { assert (Hsc : sub_findable sc).
      { destruct (is_set s_sub_precedence c || match l_pst ls with PSValuesDone => true | _ => false end);
          [eapply possible_subcommand_findable; exact Esub|discriminate]. }
      destruct (beq sc s_help && negb (is_set s_disable_help_sub c)); cbn; [exact (proj1 HG)|].
      split; [exact (proj1 HG)|split; [exact Hsc|discriminate]]. }
    (* after_flag *)
    assert (After : forall x, flag_res st x ->
       safe (fun y => let '(early, ls1, st1) := y in
                        match early with
                        | Some r => safe lr_ok G r
                        | None => G st1 /\ LI (l_pst ls1) st1 /\ l_pst ls1 = l_pst ls end) G
         (let '(st1, pr, vaf1) := x in
          let ls1 := mkL (l_pst ls) (l_pos ls) vaf1 false in
          match pr with
          | PRValuesDone => ROk (Some (parse_loop c rest (mkL PSValuesDone (l_pos ls) vaf1 false) st1), ls1, st1)
          | PROpt i => ROk (Some (parse_loop c rest (mkL (PSOpt i) (l_pos ls) vaf1 false) st1), ls1, st1)
          | PRFlagSub n => ROk (Some (ROk (LSub n false vaf1 st1 rest)), ls1, st1)
          | PREqualsNotProvided a =>
              do st2 <- resolve_pending_ignore c st1; ROk (Some (RErr (mkerr c ENoEquals a) st2), ls1, st2)
          | PRNoMatchingArg a =>
              do st2 <- resolve_pending_ignore c st1; ROk (Some (RErr (mkerr c EUnknownArgument a) st2), ls1, st2)
          | PRUnneeded r a =>
              do st2 <- resolve_pending_ignore c st1; ROk (Some (RErr (mkerr c ETooManyValues a) st2), ls1, st2)
          | PRMaybeHyphen => ROk (None, ls1, st1)
          | PRNoArg => ROk (None, ls1, st1)
          | PRAttachedNotConsumed => RPanic 203
          end)).
    { intros [[st1 pr] vaf1] [HG1 Hpr]. cbn zeta.
      destruct pr; cbn [safe].
      - destruct Hpr as [Hs _]. split; [exact (proj1 HG1)|split; [exact Hs|discriminate]].
      - apply IH; [exact HG1|exact Hpr].
      - apply IH; [exact HG1|exact I].
      - contradiction.
      - eapply safe_bind; [apply resolve_pending_ignore_safe; exact HG1|]. intros st2 HG2. cbn. exact HG2.
      - subst st1. cbn. split; [exact HG|split; [exact HL|reflexivity]].
      - eapply safe_bind; [apply resolve_pending_ignore_safe; exact HG1|]. intros st2 HG2. cbn. exact HG2.
      - eapply safe_bind; [apply resolve_pending_ignore_safe; exact HG1|]. intros st2 HG2. cbn. exact HG2.
      - subst st1. cbn. split; [exact HG|split; [exact HL|reflexivity]]. }
    destruct (is_escape tok).
    { destruct (state_arg_safe (l_pst ls) st HG HL) as [sa [-> _]]. cbn [rbind].
      destruct (match sa with Some a => a_hyphen a | None => false end); cbn; [split; [exact HG|split; [exact HL|reflexivity]]|].
      apply IH.
      - destruct HG as [[Hp [He HP]] [Hfa Hfs]]. unfold start_trailing.
        destruct (mt_pending (mt st)) as [p|] eqn:Ep; [|apply G_set_mt; [exact (conj Hp (conj He HP))|assumption|assumption]].
        apply (G_update_pending st p); [exact (conj (conj Hp (conj He HP)) (conj Hfa Hfs))|exact Ep|reflexivity|reflexivity|].
        destruct (Hp p Ep) as [a0 [_ [_ HVp0]]]. exact HVp0.
      - cbn. destruct (l_pst ls) as [|i|i]; [exact I| |exact HL].
        destruct HL as [p [Hp Hi]]. unfold pend_is, pending_of, start_trailing in *. rewrite Hp.
        eexists. autorewrite with ps. split; [reflexivity|exact Hi]. }
    destruct (to_long tok) as [[[f ok] v]|] eqn:El.
    { eapply safe_bind; [apply parse_long_arg_safe; [exact HG|exact HL|intros Hf; eapply to_long_flag; eassumption|]|].
      { intros v0 Hv0. subst v. destruct (to_long_value_suffix _ _ _ _ El) as [n0 ->]. apply HVtok. }
      intros [[st1 pr] vaf1] [Hres Hno]. cbn [fst snd] in *.
      destruct pr; try (exfalso; apply Hno; reflexivity);
        (let HA := fresh "HA" in pose proof (After (st1, _, vaf1) Hres) as HA; cbn in HA |- *; exact HA). }
    destruct (to_short tok) as [r|] eqn:Es; [|cbn; split; [exact HG|split; [exact HL|reflexivity]]].
    eapply safe_bind; [apply parse_short_arg_fs; [eapply to_short_nonempty; exact Es|exact HG|exact HL|]|].
    { destruct (to_short_suffix _ _ Es) as [n0 ->]. intros n. rewrite skipn_add. apply HVtok. }
    intros [[st1 pr] vaf1] [Ho1 [Hs1 Hpr]].
    destruct pr; try contradiction.
    - (* a short flag-subcommand: [keep_state] iff letters follow it in the cluster; skip = cur_idx - at + 1 = 1 *)
      destruct Hpr as [Hf [Hex [Hn|[Ha Hfo]]]].
      + rewrite Hn. cbn. split; [exact Ho1|split; [exact Hf|discriminate]].
      + rewrite Ha. unfold checked_sub. rewrite N.leb_refl. cbn [expect rbind]. cbn.
        split; [exact Ho1|split; [exact Hf|intros _]].
        split; [exact Hex|split; [rewrite N.sub_diag; reflexivity|]].
        exists tok, rest, r. split; [reflexivity|split; [exact Es|exact Hfo]].
    - assert (HA : flag_res st (st1, PROpt i, vaf1)) by (split; [apply G_of; [exact Ho1|apply Hpr|exact Hs1]|apply Hpr]).
      apply After in HA. cbn in HA |- *. exact HA.
    - assert (HA : flag_res st (st1, PRValuesDone, vaf1)) by (split; [apply G_of; assumption|exact I]).
      apply After in HA. cbn in HA |- *. exact HA.
    - subst st1. assert (HA : flag_res st (st, PRMaybeHyphen, vaf1)) by (split; [exact HG|reflexivity]).
      apply After in HA. cbn in HA |- *. exact HA.
    - assert (HA : flag_res st (st1, PREqualsNotProvided a, vaf1)) by (split; [apply G_of; assumption|exact I]).
      apply After in HA. cbn in HA |- *. exact HA.
    - assert (HA : flag_res st (st1, PRNoMatchingArg a, vaf1)) by (split; [apply G_of; assumption|exact I]).
      apply After in HA. cbn in HA |- *. exact HA. }
  eapply safe_bind; [exact Hph|]. clear Hph phase1.
  intros [[early ls1] st1] H1.
  destruct early as [r|]; [exact H1|].
  destruct H1 as [HG1 [HL1 Hpst]].
  match goal with
  | |- safe _ _ (match _ with PSValuesDone => ?t | PSOpt _ => _ | PSPos _ => _ end) =>
      assert (Hpos : safe lr_ok G t)
  end.
  { cbn zeta.
    match goal with |- safe _ _ (rbind ?e _) => assert (Hpc : exists pcv, e = ROk pcv) end.
    { match goal with |- exists _, (if ?b then _ else _) = _ => destruct b end.
      - destruct rest as [|n rest']; [eexists; reflexivity|].
        destruct (List.find _ (positionals c)) as [a|] eqn:Ef; [|eexists; reflexivity].
        apply List.find_some in Ef. destruct Ef as [Hin _]. unfold positionals in Hin. apply filter_In in Hin.
        destruct (is_new_arg_safe n a (proj1 Hin)) as [b ->]. cbn. eexists; reflexivity.
      - match goal with |- exists _, (if ?b then _ else _) = _ => destruct b end; eexists; reflexivity. }
    destruct Hpc as [pcv ->]. cbn [rbind].
    destruct (get_pos c pcv) as [a|] eqn:Eg.
    - destruct (get_pos_in _ _ _ Eg) as [Hin Hidx].
      destruct (a_last a && negb (l_trailing ls1)).
      + eapply safe_bind; [apply resolve_pending_ignore_safe; exact HG1|]. intros s2 HG2. exact HG2.
      + match goal with |- safe _ _ (rbind (if ?b then _ else _) _) => destruct b eqn:Eb end.
        * eapply safe_bind; [apply resolve_pending_safe; exact HG1|]. intros s2 [HG2 Hp2].
          destruct (check_terminator a tok); [apply IH; [exact HG2|exact I]|].
          destruct (push_pos_safe s2 a tok (l_trailing ls1 || a_tva a) Hin Hidx HVt0 HG2 (or_introl Hp2)) as [m1 [Hpush HGm]].
          rewrite Hpush. cbn [expect rbind].
          destruct (negb (a_is_multiple a)); apply IH; try exact HGm; cbn; [exact I|].
          exists a. apply W3; exact Hin.
        * cbn [rbind].
          assert (Hpend : exists p, pending_of st1 = Some p /\ p_id p = a_id a).
          { apply Bool.orb_false_elim in Eb. destruct Eb as [E1 _]. apply Bool.negb_false_iff in E1.
            unfold pending_arg_id, pending_of in *. destruct (mt_pending (mt st1)) as [p|]; cbn in E1; [|discriminate].
            exists p. split; [reflexivity|]. apply beq_eq in E1. exact E1. }
          destruct (check_terminator a tok); [apply IH; [exact HG1|exact I]|].
          destruct (push_pos_safe st1 a tok (l_trailing ls1 || a_tva a) Hin Hidx HVt0 HG1 (or_intror Hpend)) as [m1 [Hpush HGm]].
          rewrite Hpush. cbn [expect rbind].
          destruct (negb (a_is_multiple a)); apply IH; try exact HGm; cbn; [exact I|].
          exists a. apply W3; exact Hin.
    - destruct (is_set s_allow_external c).
      + destruct (utf8_valid tok); [cbn; exact (proj1 HG1)|].
        eapply safe_bind; [apply resolve_pending_ignore_safe; exact HG1|]. intros s2 HG2. exact HG2.
      + eapply safe_bind; [apply resolve_pending_ignore_safe; exact HG1|]. intros s2 HG2. exact HG2. }
  destruct (if l_trailing ls1 then PSValuesDone else l_pst ls1) eqn:Est.
  - exact Hpos.
  - (* an option is collecting values *)
    assert (Hi : l_trailing ls1 = false /\ l_pst ls1 = PSOpt i) by (destruct (l_trailing ls1); [discriminate|split; [reflexivity|exact Est]]).
    destruct Hi as [Htr Hpst1]. rewrite Hpst1 in HL1. destruct HL1 as [p [Hp Hid]].
    pose proof HG1 as [[Hpe _] _]. destruct (Hpe p Hp) as [a [Hf _]]. rewrite Hid in Hf. rewrite Hf. cbn [expect rbind].
    destruct (find_arg_some _ _ _ Hf) as [Hin _].
    destruct (check_terminator a tok); [apply IH; [exact HG1|exact I]|].
    destruct (pending_values_push_same (mt st1) p i None false (Some tok) Hp Hid) as [p' [Hpush [Hid' [Hident' Hraw']]]];
      [left; reflexivity|].
    rewrite Hpush. cbn [expect rbind]. unfold needs_more_vals.
    destruct (W1 a Hin) as [_ [Hn _]]. destruct (a_num a) as [r|]; [|contradiction]. cbn [expect rbind].
    apply IH.
    + eapply G_update_pending; [exact HG1|exact Hp|congruence|exact Hident'|].
      rewrite Hraw'. apply Forall_app. split; [apply (pending_raw_V st1 p HG1 Hp)|repeat constructor; exact HVt0].
    + cbn. match goal with |- LI (if ?b then _ else _) _ => destruct b end; [|exact I].
      eexists. unfold pending_of. autorewrite with ps. split; [reflexivity|exact Hid'].
  - exact Hpos.
Qed.

(** ** the first iteration of a level entered by re-reading the cluster (skip = 1) *)
Lemma to_short_not_long tok r : to_short tok = Some r -> is_escape tok = false /\ to_long tok = None.
Proof.
  unfold to_short, to_long, is_escape, strip_prefix.
  destruct tok as [|b0 [|b1 t]].
  - cbn. discriminate.
  - cbn [starts_with]. destruct (b0 =? DASH); cbn; discriminate.
  - cbn [starts_with length skipn beq]. destruct (b0 =? DASH) eqn:E0; cbn [andb]; [|discriminate].
    cbn [starts_with]. destruct (b1 =? DASH) eqn:E1; cbn [andb]; [destruct t; discriminate|]. intros _.
    split; reflexivity.
Qed.

Lemma parse_loop_resume tok rest r st :
  to_short tok = Some r -> first_ok r -> W4c -> nohyph 1 = true ->
  fs_skip st = 1 -> G (st <| fs_skip := 0 |>) -> Forall Vtok (tok :: rest) ->
  safe lr_ok G (parse_loop c (tok :: rest) (mkL PSValuesDone 1 false false) st).
Proof.
  intros Es Hfo Hw Hnh Hskip HG HVtoks.
  inversion HVtoks as [|? ? HVtok HVrest]; subst.
  assert (Ho : Gout st) by exact (proj1 HG).
  destruct (to_short_not_long _ _ Es) as [Eesc Elong].
  cbn [parse_loop l_trailing l_pst l_vaf l_pos].
  rewrite Bool.orb_true_r.
  destruct (possible_subcommand c tok false) as [sc|] eqn:Esub.
  { pose proof (possible_subcommand_findable _ _ _ Esub) as Hsc.
    destruct (beq sc s_help && negb (is_set s_disable_help_sub c)); cbn; [exact Ho|].
    split; [exact Ho|split; [exact Hsc|discriminate]]. }
  rewrite Eesc, Elong, Es.
  cbn [rbind].
  match goal with |- safe _ _ (rbind (rbind ?e _) _) => assert (Hps : safe (fun x => let '(st1, pr, _) := x in
                 G st1 /\
                 match pr with
                 | PROpt i => pend_is st1 i
                 | PRMaybeHyphen | PRFlagSub _ | PRNoArg | PRAttachedNotConsumed | PRUnneeded _ _ => False
                 | _ => True
                 end) G e) end.
  { apply parse_short_arg_resume; try assumption.
    destruct (to_short_suffix _ _ Es) as [n0 ->]. intros n. rewrite skipn_add. apply HVtok. }
  match goal with |- safe _ _ (rbind (rbind ?e _) _) => destruct e as [[[st1 pr] vaf1]|e0 s0|x0] end;
    cbn in Hps; [|exact Hps|contradiction].
  destruct Hps as [HG1 Hpr].
  destruct pr; try contradiction; cbn [rbind].
  - apply parse_loop_fs; [exact HG1|exact Hpr|exact HVrest].
  - apply parse_loop_fs; [exact HG1|exact I|exact HVrest].
  - pose proof (resolve_pending_ignore_safe st1 HG1) as Hr.
    destruct (resolve_pending_ignore c st1) as [s2|e2 s2|x2]; cbn in Hr |- *; [exact Hr|exact Hr|contradiction].
  - pose proof (resolve_pending_ignore_safe st1 HG1) as Hr.
    destruct (resolve_pending_ignore c st1) as [s2|e2 s2|x2]; cbn in Hr |- *; [exact Hr|exact Hr|contradiction].
Qed.

End Level.
End FsInv.
