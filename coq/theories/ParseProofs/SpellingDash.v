(** Property C08: an explicit [--] before positionals that do not look like flags leaves the result
    unchanged.

    Second bisimulation of the token loop: the two runs are in loop states that agree except that the
    run with the [--] is "trailing", and in parser states that agree except for the trailing index
    recorded in the pending occurrence ([er]: that index erased).  Class of the level ([dd_class]): no
    [allow_missing_positional], no [dont_delimit_trailing_values], no [last(true)] positional -- the three
    places where the loop / [react] read "after [--]" for something else than skipping the flag phase.
    Low-index multiples ([<src>... <dst>]) ARE in the class: the look-ahead of the positional counter
    correction reads the token after the current one, and the bare [--] is not a new argument
    ([la_dd]). *)
From ClapModel Require Import Base.Bytes Base.Machine Base.Utf8 Lex.OsStrExtModel.
From ClapModel Require Import Parse.Cmd Parse.Build Parse.Valid Parse.Matcher Parse.Errors Parse.Validator Parse.Parser.
From ClapModel Require Import ParseProofs.Safe ParseProofs.Spelling ParseProofs.Actions ParseProofs.ActionsLoop ParseProofs.Dispatch.
From ClapModel Require Import ParseProofs.SpellingLine ParseProofs.SpellingStep.
From Coq Require Import ZArith Lia List Bool.
From RecordUpdate Require Import RecordSet.
Import RecordSetNotations.
Import ListNotations.
Open Scope N_scope.

Definition dd : bytes := [45; 45].

(** erase the trailing index of the pending occurrence *)
Definition erp (p : pending) : pending := p <| p_trailing_idx := None |>.
Definition erm (m : matcher) : matcher := m <| mt_pending := opt_map erp (mt_pending m) |>.
Definition er (s : ps) : ps := s <| mt := erm (mt s) |>.

Section Dash.
Variable c : cmd.

(** the class of the level *)
Definition dd_class : Prop :=
  is_set s_allow_missing_pos c = false /\ is_set s_dont_delimit_trailing c = false /\
  existsb a_last (c_args c) = false.

(** a token that is a positional value with or without a preceding [--]: not [--], not looking like a
    long or short flag, not a subcommand name *)
Definition pos_tok (t : bytes) : Prop :=
  is_escape t = false /\ to_long t = None /\ to_short t = None /\ possible_subcommand c t false = None.

(** the place of the inserted [--]: not already after a [--], no option waiting for a value (documented:
    [--opt -- v] ends the option), the open positional does not take hyphen values (it would swallow the
    [--]), and [--] is not a subcommand name of the level *)
Definition dd_site (ls : lstate) : Prop :=
  l_trailing ls = false /\ (forall i, l_pst ls <> PSOpt i) /\
  match state_arg c (l_pst ls) with
  | ROk (Some b) => a_hyphen b = false
  | ROk None => True
  | _ => False
  end /\
  possible_subcommand c dd false = None.

(** ** without [dont_delimit_trailing_values] the trailing index is never read *)
Lemma delimit_go_noddt db ti : forall l i, delimit_go false db ti i l = delimit_go false db None i l.
Proof.
  induction l as [|v t IH]; intros i; [reflexivity|].
  cbn [delimit_go andb]. rewrite IH. reflexivity.
Qed.

Lemma occ_values_noddt a raw ti : is_set s_dont_delimit_trailing c = false ->
  occ_values c a raw ti = occ_values c a raw None.
Proof.
  intros D. unfold occ_values.
  assert (K : forall r t, delimit c a r t = delimit c a r None).
  { intros r t. unfold delimit. destruct (a_delim a) as [d|]; [|reflexivity].
    rewrite D. cbn [andb]. apply delimit_go_noddt. }
  destruct raw as [|v t]; [destruct (negb (is_nil (a_default_missing a)))|]; apply K.
Qed.

Lemma react_core_noddt idn s a raw ti st : is_set s_dont_delimit_trailing c = false ->
  react_core c idn s a raw ti st = react_core c idn s a raw None st.
Proof. intros D. rewrite !react_core_unfold, (occ_values_noddt a raw ti D). reflexivity. Qed.

Hypothesis D : is_set s_dont_delimit_trailing c = false.

Lemma resolve_er s : resolve_pending c (er s) = resolve_pending c s.
Proof.
  destruct s as [m ci fa fk]. destruct m as [ar pe su]. unfold resolve_pending, er, erm.
  cbn [mt mt_pending]. destruct pe as [p|]; [|reflexivity].
  destruct p as [pid pidn praw pti]. cbn.
  destruct (find_arg c pid) as [a|]; cbn [expect rbind]; [|reflexivity].
  rewrite (react_core_noddt pidn SCmdLine a praw pti _ D). reflexivity.
Qed.

Lemma resolve_teq s2 s' : er s2 = er s' -> resolve_pending c s2 = resolve_pending c s'.
Proof. intros H. rewrite <- (resolve_er s2), H. apply resolve_er. Qed.

Lemma ignore_teq s2 s' : er s2 = er s' -> resolve_pending_ignore c s2 = resolve_pending_ignore c s'.
Proof. intros H. unfold resolve_pending_ignore. rewrite (resolve_teq _ _ H). reflexivity. Qed.

Lemma pending_arg_id_er s : pending_arg_id (mt (er s)) = pending_arg_id (mt s).
Proof. destruct s as [m ci fa fk]. destruct m as [ar pe su]. destruct pe as [p|]; reflexivity. Qed.

Lemma pending_arg_id_teq s2 s' : er s2 = er s' -> pending_arg_id (mt s2) = pending_arg_id (mt s').
Proof. intros H. rewrite <- (pending_arg_id_er s2), H. apply pending_arg_id_er. Qed.

Lemma push_er m i idn tr v :
  opt_map erm (pending_values_push m i idn tr v) = opt_map erm (pending_values_push (erm m) i idn false v).
Proof.
  destruct m as [ar pe su]. unfold pending_values_push, erm. cbn [mt_pending].
  destruct pe as [p|]; cbn [opt_map].
  - destruct p as [pid pidn praw pti]. cbn [erp p_id p_ident p_raw p_trailing_idx].
    cbn. destruct (negb (beq pid i)); [reflexivity|].
    destruct (is_some idn && negb (ident_eqb pidn idn)); [reflexivity|].
    destruct tr; destruct pti; reflexivity.
  - cbn. destruct (negb (beq i i)); [reflexivity|].
    destruct (is_some idn && negb (ident_eqb idn idn)); [reflexivity|].
    destruct tr; reflexivity.
Qed.

Lemma push_teq m2 m' i idn tr2 tr' v : erm m2 = erm m' ->
  opt_map erm (pending_values_push m2 i idn tr2 v) = opt_map erm (pending_values_push m' i idn tr' v).
Proof. intros H. rewrite (push_er m2), (push_er m'), H. reflexivity. Qed.

Lemma er_set_mt s m : er (s <| mt := m |>) = (er s) <| mt := erm m |>.
Proof. destruct s; reflexivity. Qed.

Lemma er_mt s : mt (er s) = erm (mt s).
Proof. destruct s; reflexivity. Qed.

Lemma teq_set_mt s2 s' m2 m' : er s2 = er s' -> erm m2 = erm m' ->
  er (s2 <| mt := m2 |>) = er (s' <| mt := m' |>).
Proof. intros H Hm. rewrite !er_set_mt, H, Hm. reflexivity. Qed.

Lemma teq_mt s2 s' : er s2 = er s' -> erm (mt s2) = erm (mt s').
Proof. intros H. rewrite <- !er_mt, H. reflexivity. Qed.

Lemma er_start_trailing s : er (s <| mt := start_trailing (mt s) |>) = er s.
Proof.
  destruct s as [m ci fa fk]. destruct m as [ar pe su]. destruct pe as [p|]; [|reflexivity].
  destruct p as [pid pidn praw pti]. reflexivity.
Qed.

(** ** the positional counter correction does not read "after [--]" in the class *)
Hypothesis AM : is_set s_allow_missing_pos c = false.
Hypothesis NL : existsb a_last (c_args c) = false.

Lemma pos_counter_dd rest lB lA : l_pos lB = l_pos lA -> l_vaf lB = l_vaf lA ->
  pos_counter c rest lB = pos_counter c rest lA.
Proof.
  intros P V. unfold pos_counter. cbv zeta. rewrite AM, NL, P, V. cbn [andb orb].
  rewrite !orb_false_r, !andb_false_r. reflexivity.
Qed.

Lemma class_not_last a pc : get_pos c pc = Some a -> a_last a = false.
Proof.
  intros G. destruct (a_last a) eqn:E; [|reflexivity]. exfalso.
  destruct (get_pos_in _ _ _ G) as [Hin _].
  assert (X : existsb a_last (c_args c) = true) by (apply existsb_exists; exists a; auto).
  rewrite NL in X. discriminate.
Qed.

(** ** the bisimulation *)
Definition lsrel (lB lA : lstate) : Prop :=
  l_pst lB = l_pst lA /\ l_pos lB = l_pos lA /\ l_vaf lB = l_vaf lA /\ l_trailing lB = true /\
  (l_trailing lA = true \/ forall i, l_pst lA <> PSOpt i).

Definition srel (b a : sres) : Prop :=
  match b, a with
  | SGo lB sB, SGo lA sA => lsrel lB lA /\ er sB = er sA
  | SExit (XExt sB), SExit (XExt sA) => er sB = er sA
  | SExit x, SExit y => x = y
  | _, _ => False
  end.

Lemma srel_exit x : srel (SExit x) (SExit x).
Proof. destruct x; cbn; reflexivity. Qed.

Lemma phase1_pos_tok tok ls st : pos_tok tok -> phase1_s c tok ls st = ROk (None, ls, st).
Proof.
  intros [E [TL [TS PS]]]. unfold phase1_s. destruct (l_trailing ls); [reflexivity|]. cbv zeta.
  rewrite (possible_subcommand_vaf c tok (l_vaf ls) PS), if_same.
  unfold classify_s. rewrite E, TL, TS. reflexivity.
Qed.

Lemma step_pos_tok rest tok ls st : pos_tok tok ->
  step c rest tok ls st = phase2_s c (pos_counter c rest) tok ls st.
Proof. intros H. unfold step, step_with, finish_s. rewrite (phase1_pos_tok tok ls st H). reflexivity. Qed.

Lemma positional_dd rest tok lB lA sB sA : pos_tok tok -> lsrel lB lA -> er sB = er sA ->
  srel (positional_s c (pos_counter c rest) tok lB sB) (positional_s c (pos_counter c rest) tok lA sA).
Proof.
  intros [E [TL [TS PS]]] [Ppst [Ppos [Pvaf [TB TA]]]] H.
  unfold positional_s. rewrite (pos_counter_dd rest lB lA Ppos Pvaf).
  destruct (pos_counter c rest lA) as [pc'|e s|n]; cbn [sbind]; [|reflexivity..].
  destruct (get_pos c pc') as [a|] eqn:G.
  - rewrite (class_not_last a pc' G). cbn [andb]. cbv zeta.
    rewrite (pending_arg_id_teq sB sA H).
    assert (K : forall s1B s1A, er s1B = er s1A ->
      srel (if check_terminator a tok then SGo (mkL PSValuesDone (pc' + 1) true (l_trailing lB || a_tva a)) s1B
            else sbind (expect 415 (pending_values_push (mt s1B) (a_id a) (Some IIndex) (l_trailing lB || a_tva a) (Some tok)))
                   (fun m1 => if negb (a_is_multiple a)
                              then SGo (mkL PSValuesDone (pc' + 1) true (l_trailing lB || a_tva a)) (s1B <| mt := m1 |>)
                              else SGo (mkL (PSPos (a_id a)) pc' true (l_trailing lB || a_tva a)) (s1B <| mt := m1 |>)))
           (if check_terminator a tok then SGo (mkL PSValuesDone (pc' + 1) true (l_trailing lA || a_tva a)) s1A
            else sbind (expect 415 (pending_values_push (mt s1A) (a_id a) (Some IIndex) (l_trailing lA || a_tva a) (Some tok)))
                   (fun m1 => if negb (a_is_multiple a)
                              then SGo (mkL PSValuesDone (pc' + 1) true (l_trailing lA || a_tva a)) (s1A <| mt := m1 |>)
                              else SGo (mkL (PSPos (a_id a)) pc' true (l_trailing lA || a_tva a)) (s1A <| mt := m1 |>)))).
    { intros s1B s1A H1. rewrite TB. cbn [orb].
      destruct (check_terminator a tok).
      - cbn [srel]. split; [|exact H1]. repeat split. right. intros i. cbn. discriminate.
      - pose proof (push_teq (mt s1B) (mt s1A) (a_id a) (Some IIndex) true (l_trailing lA || a_tva a) (Some tok)
                      (teq_mt _ _ H1)) as PE.
        destruct (pending_values_push (mt s1B) (a_id a) (Some IIndex) true (Some tok)) as [mB|];
        destruct (pending_values_push (mt s1A) (a_id a) (Some IIndex) (l_trailing lA || a_tva a) (Some tok)) as [mA|];
        cbn [opt_map] in PE; try discriminate PE; cbn [expect sbind]; [|reflexivity].
        assert (EM : erm mB = erm mA) by (exact (f_equal (fun o => match o with Some x => x | None => erm mB end) PE)).
        destruct (negb (a_is_multiple a)); cbn [srel].
        + split; [|apply teq_set_mt; assumption]. repeat split. right. intros i. cbn. discriminate.
        + split; [|apply teq_set_mt; assumption]. repeat split. right. intros i. cbn. discriminate. }
    destruct (negb (match pending_arg_id (mt sA) with Some i => beq i (a_id a) | None => false end)
              || negb (a_multiple_values a)).
    + rewrite (resolve_teq sB sA H).
      destruct (resolve_pending c sA) as [s1|e s|n]; cbn [sbind]; [|reflexivity..].
      apply K. reflexivity.
    + cbn [sbind]. apply K. exact H.
  - destruct (is_set s_allow_external c).
    + destruct (utf8_valid tok).
      * cbn [srel]. exact H.
      * rewrite (ignore_teq sB sA H). destruct (resolve_pending_ignore c sA); reflexivity.
    + rewrite (ignore_teq sB sA H).
      assert (ME : match_arg_error c tok (l_vaf lB) (l_trailing lB) = match_arg_error c tok (l_vaf lA) (l_trailing lA)).
      { unfold match_arg_error. rewrite Pvaf, (possible_subcommand_vaf c tok (l_vaf lA) PS).
        cbn [is_some]. rewrite !andb_false_r. reflexivity. }
      rewrite ME. destruct (resolve_pending_ignore c sA); reflexivity.
Qed.

Lemma phase2_dd rest tok lB lA sB sA : pos_tok tok -> lsrel lB lA -> er sB = er sA ->
  srel (phase2_s c (pos_counter c rest) tok lB sB) (phase2_s c (pos_counter c rest) tok lA sA).
Proof.
  intros PT L H. pose proof L as [Ppst [_ [_ [TB TA]]]]. unfold phase2_s. rewrite TB.
  destruct (l_trailing lA) eqn:T.
  - apply positional_dd; assumption.
  - destruct TA as [TA|TA]; [discriminate|].
    destruct (l_pst lA) as [|i|i] eqn:Q; try (apply positional_dd; assumption).
    exfalso. apply (TA i). reflexivity.
Qed.

(** results: equal, or both [LDone] / both the same external subcommand with states equal up to the
    trailing index of the pending occurrence *)
Definition dd_rel (r2 r' : res loop_res) : Prop :=
  match r2, r' with
  | ROk (LDone s2), ROk (LDone s') => er s2 = er s'
  | ROk (LExternal n2 v2 s2), ROk (LExternal n' v' s') => n2 = n' /\ v2 = v' /\ er s2 = er s'
  | _, _ => r2 = r'
  end.

Lemma dd_rel_refl r : dd_rel r r.
Proof. destruct r as [lr|e s|n]; cbn; try reflexivity. destruct lr; cbn; auto. Qed.

Theorem dash_bisim : forall tail lB lA sB sA,
  Forall pos_tok tail -> lsrel lB lA -> er sB = er sA ->
  dd_rel (parse_loop c tail lB sB) (parse_loop c tail lA sA).
Proof.
  induction tail as [|tok rest IH]; intros lB lA sB sA F L H.
  - cbn. exact H.
  - inversion F as [|? ? PT F']; subst.
    rewrite !parse_loop_cons, !iteration_step, !(step_pos_tok rest tok _ _ PT).
    pose proof (phase2_dd rest tok lB lA sB sA PT L H) as R.
    destruct (phase2_s c (pos_counter c rest) tok lB sB) as [l2 s2|x];
    destruct (phase2_s c (pos_counter c rest) tok lA sA) as [l' s'|y]; cbn [srel] in R; try contradiction.
    + destruct R as [RL RS]. cbn [interp]. apply IH; assumption.
    + destruct x; contradiction.
    + cbn [interp].
      destruct x; destruct y; cbn [srel] in R; try discriminate R;
        try (inversion R; subst; apply dd_rel_refl).
      cbn [exit_res dd_rel]. auto.
Qed.

(** the step at the [--] itself *)
Lemma step_dd rest ls st : dd_site ls ->
  step c rest dd ls st = SGo (mkL (l_pst ls) (l_pos ls) (l_vaf ls) true) (st <| mt := start_trailing (mt st) |>).
Proof.
  intros [T [_ [SA PS]]]. unfold step, step_with, phase1_s. rewrite T. cbv zeta.
  rewrite (possible_subcommand_vaf c dd (l_vaf ls) PS), if_same.
  unfold classify_s. change (is_escape dd) with true. cbv iota.
  destruct (state_arg c (l_pst ls)) as [sa|e s|n]; [|contradiction..].
  cbn [rbind].
  assert (HH : match sa with Some b => a_hyphen b | None => false end = false).
  { destruct sa as [b|]; [exact SA|reflexivity]. }
  rewrite HH. reflexivity.
Qed.

(** [-- tail] vs [tail] at a loop state *)
Theorem dash_loop tail ls st : dd_site ls -> Forall pos_tok tail ->
  dd_rel (parse_loop c (dd :: tail) ls st) (parse_loop c tail ls st).
Proof.
  intros S F. rewrite parse_loop_cons, iteration_step, (step_dd tail ls st S). cbn [interp].
  apply dash_bisim; [exact F| |apply er_start_trailing].
  destruct S as [T [NO _]]. repeat split; cbn; try reflexivity. right. exact NO.
Qed.

(** ** the look-ahead cannot tell the bare [--] from a positional value *)
Lemma plain_not_flag v : is_escape v = false -> to_long v = None -> to_short v = None ->
  is_long v = false /\ is_short v = false.
Proof.
  unfold is_escape, to_long, to_short, is_long, is_short, is_stdio, strip_prefix, is_escape, DASH.
  destruct v as [|x v]; [cbn; auto|].
  cbn [starts_with length skipn beq].
  destruct (x =? 45) eqn:X; cbn [andb negb]; [|auto].
  destruct v as [|y v]; [cbn; auto|].
  cbn [starts_with length skipn beq is_nil].
  destruct (y =? 45) eqn:Y; cbn [andb negb]; [|intros; try discriminate; auto].
  destruct v as [|z v]; [cbn; intros; discriminate|].
  cbn. intros _ H. destruct (split_once (z :: v) [EQ]) as [[f w]|]; discriminate.
Qed.

Lemma is_new_arg_plain v a : is_escape v = false -> to_long v = None -> to_short v = None ->
  is_new_arg c v a = is_new_arg c dd a.
Proof.
  intros E TL TS. destruct (plain_not_flag v E TL TS) as [L S].
  unfold is_new_arg. destruct (find_arg c (a_id a)) as [a0|]; cbn [expect rbind]; [|reflexivity].
  rewrite L, S. change (is_long dd) with false. change (is_short dd) with false.
  destruct (a_hyphen a0 || (a_negnum a0 && pa_is_negative_number v));
  destruct (a_hyphen a0 || (a_negnum a0 && pa_is_negative_number dd)); reflexivity.
Qed.

Lemma la_dd v t t' : pos_tok v -> possible_subcommand c dd false = None -> la_eq c (dd :: t') (v :: t).
Proof.
  intros [E [TL [TS PS]]] PD ls. unfold pos_counter. cbv zeta.
  rewrite (possible_subcommand_vaf c v (l_vaf ls) PS), (possible_subcommand_vaf c dd (l_vaf ls) PD).
  destruct (find _ (positionals c)) as [a|]; [|reflexivity].
  rewrite (is_new_arg_plain v a E TL TS). reflexivity.
Qed.

(** ** the [--] behind an arbitrary prefix *)
Theorem dash_anywhere pre tail ls st ls' st' :
  Forall pos_tok tail -> tail <> [] ->
  run c pre tail ls st = inl (ls', st') -> dd_site ls' ->
  dd_rel (parse_loop c (pre ++ dd :: tail) ls st) (parse_loop c (pre ++ tail) ls st).
Proof.
  intros F NE R S. rewrite !run_split.
  assert (LA : la_eq c (dd :: tail) tail).
  { destruct tail as [|v t]; [contradiction|]. inversion F; subst. apply la_dd; [assumption|apply S]. }
  rewrite (run_la c pre (dd :: tail) tail ls st LA), R. apply dash_loop; assumption.
Qed.

(** when the loop leaves the level inside the prefix with an error, the [--] is never reached *)
Theorem dash_not_reached pre tail ls st e s tok pre' :
  Forall pos_tok tail -> tail <> [] -> possible_subcommand c dd false = None ->
  run c pre tail ls st = inr (XErr e s, tok, pre') ->
  parse_loop c (pre ++ dd :: tail) ls st = parse_loop c (pre ++ tail) ls st.
Proof.
  intros F NE PD R. rewrite !run_split.
  assert (LA : la_eq c (dd :: tail) tail).
  { destruct tail as [|v t]; [contradiction|]. inversion F; subst. apply la_dd; assumption. }
  rewrite (run_la c pre (dd :: tail) tail ls st LA), R. reflexivity.
Qed.
End Dash.

(** * Through [get_matches_with], [do_parse], [parse_top] *)
Section DashGmw.
Variable c : cmd.
Hypothesis D : is_set s_dont_delimit_trailing c = false.

Lemma er_ws X s : er (ws X s) = ws X (er s).
Proof. destruct s as [m ci fa fk]. destruct m as [ar pe su]. reflexivity. Qed.

Lemma resolve_ws_teq X s2 s' : er s2 = er s' -> resolve_pending c (ws X s2) = resolve_pending c (ws X s').
Proof. intros H. apply (resolve_teq c D). rewrite !er_ws, H. reflexivity. Qed.

Lemma dd_dispatch f r2 r' : is_set s_ignore_errors c = false -> dd_rel r2 r' ->
  gmw_rel (post c (do lr <- r2; dispatch_lr c f lr)) (post c (do lr <- r'; dispatch_lr c f lr)).
Proof.
  intros IE H.
  destruct r2 as [lr2|e2 t2|n2].
  2:{ cbn [dd_rel] in H. rewrite <- H. apply gmw_rel_refl. }
  2:{ cbn [dd_rel] in H. rewrite <- H. apply gmw_rel_refl. }
  destruct lr2 as [s2|nm k v s2 rs|nm vals s2|names s2].
  - destruct r' as [[s'|? ? ? ? ?|? ? ?|? ?]|e' t'|n']; cbn [dd_rel] in H; try discriminate H.
    cbn [rbind dispatch_lr]. unfold post. rewrite (resolve_teq c D s2 s' H). apply gmw_rel_refl.
  - cbn [dd_rel] in H. rewrite <- H. apply gmw_rel_refl.
  - destruct r' as [[s'|? ? ? ? ?|nm' vals' s'|? ?]|e' t'|n']; cbn [dd_rel] in H; try discriminate H.
    destruct H as [<- [<- H]]. cbn [rbind dispatch_lr]. unfold external_matches. cbv zeta.
    destruct (ext_fold_rel c (opt_default VPOsString (c_ext_vp c)) s2 s' vals
                (start_custom_arg_m matcher_new (arg_new ext_id) SCmdLine)) as [[r [E2 [E' NE]]]|[e [E2 E']]].
    + cbv zeta in E2, E'. rewrite E2, E'. destruct r as [m|e t|k]; cbn [rbind].
      * unfold post.
        change (s2 <| mt := (mt s2) <| mt_sub := Some (nm, into_inner m) |> |>) with (ws (Some (nm, into_inner m)) s2).
        change (s' <| mt := (mt s') <| mt_sub := Some (nm, into_inner m) |> |>) with (ws (Some (nm, into_inner m)) s').
        rewrite (resolve_ws_teq _ s2 s' H). apply gmw_rel_refl.
      * exfalso. apply (NE e t). reflexivity.
      * apply gmw_rel_refl.
    + cbv zeta in E2, E'. rewrite E2, E'. cbn [rbind]. unfold post. rewrite IE. reflexivity.
  - cbn [dd_rel] in H. rewrite <- H. apply gmw_rel_refl.
Qed.

Lemma dd_gmw_lift f X Y st0 : is_set s_ignore_errors c = false ->
  dd_rel (parse_loop c X ls_top st0) (parse_loop c Y ls_top st0) ->
  gmw_rel (get_matches_with (S f) c X st0) (get_matches_with (S f) c Y st0).
Proof. intros IE H. rewrite !gmw_unfold, !parsed_of_dispatch. apply dd_dispatch; assumption. Qed.
End DashGmw.

Lemma do_parse_of_gmw c0 X Y : is_set s_ignore_errors (build_self c0) = false ->
  (forall f, gmw_rel (get_matches_with (S f) (build_self c0) X ps_new) (get_matches_with (S f) (build_self c0) Y ps_new)) ->
  do_parse c0 X = do_parse c0 Y.
Proof.
  intros IE H. unfold do_parse. cbv zeta. destruct (negb (valid c0)); [reflexivity|].
  pose proof (H (S (depth (build_self c0)))) as G.
  destruct (get_matches_with (S (S (depth (build_self c0)))) (build_self c0) X ps_new) as [s2|e2 s2|n2];
  destruct (get_matches_with (S (S (depth (build_self c0)))) (build_self c0) Y ps_new) as [s'|e' s'|n'];
  cbn [gmw_rel] in G; try discriminate.
  - inversion G; reflexivity.
  - subst e'. rewrite IE. reflexivity.
  - inversion G; reflexivity.
Qed.

(** [p pre -- tail] = [p pre tail], whole line *)
Theorem dash_top c0 bin pre tail ls' st' :
  is_set s_no_binary_name c0 = false ->
  let c := build_self (top_cmd c0 bin) in
  is_set s_ignore_errors c = false -> dd_class c ->
  Forall (pos_tok c) tail -> tail <> [] ->
  run c pre tail ls_top ps_new = inl (ls', st') -> dd_site c ls' ->
  parse_top c0 (bin :: pre ++ dd :: tail) = parse_top c0 (bin :: pre ++ tail).
Proof.
  intros NB c IE [AM [D NL]] F NE R S. unfold parse_top. rewrite NB.
  apply (do_parse_of_gmw (top_cmd c0 bin) _ _ IE). intros f.
  apply (dd_gmw_lift c D f _ _ ps_new IE).
  apply (dash_anywhere c D AM NL pre tail ls_top ps_new ls' st' F NE R S).
Qed.

(** the same inside the level selected by a subcommand name: the parent's loop stops at the name and
    hands the remaining tokens to the child level, which starts in [ls_top] from a fresh state *)
Theorem dash_level c f pre tail ls' st' :
  is_set s_ignore_errors c = false -> dd_class c ->
  Forall (pos_tok c) tail -> tail <> [] ->
  run c pre tail ls_top ps_new = inl (ls', st') -> dd_site c ls' ->
  gmw_rel (get_matches_with (S f) c (pre ++ dd :: tail) ps_new) (get_matches_with (S f) c (pre ++ tail) ps_new).
Proof.
  intros IE [AM [D NL]] F NE R S.
  apply (dd_gmw_lift c D f _ _ ps_new IE).
  apply (dash_anywhere c D AM NL pre tail ls_top ps_new ls' st' F NE R S).
Qed.

(** * Non-vacuity: a [cp]-like command with low-index multiples *)
(** [p [-v|--verb] [--opt|-o <v>] <s>... <d> [run]] *)
Definition exd_cmd : cmd :=
  (cmd_new [112]) <| c_bin_name := Some [112] |>
  <| c_args := [
       (arg_new [118]) <| a_long := Some [118; 101; 114; 98] |> <| a_short := Some 118 |> <| a_action := Some ASetTrue |>;
       (arg_new [111]) <| a_long := Some [111; 112; 116] |> <| a_short := Some 111 |> <| a_action := Some ASet |>;
       (arg_new [115]) <| a_action := Some AAppend |> <| a_num := Some {| vmin := 1; vmax := usize_max |} |> <| a_required := true |>;
       (arg_new [100]) <| a_action := Some ASet |> <| a_required := true |> ] |>
  <| c_subs := [ cmd_new [114; 117; 110] ] |>.
Definition exd := build_self exd_cmd.
Definition t_a : bytes := [97].
Definition t_b : bytes := [98].
Definition t_c : bytes := [99].
Definition t_dv : bytes := [45; 118].

Example exd_top : build_self (top_cmd exd_cmd [112]) = exd /\ assert_app exd = true /\ valid exd_cmd = true.
Proof. vm_compute. repeat split. Qed.

Lemma exd_pos_tok t : (is_escape t || is_some (to_long t) || is_some (to_short t)
                       || is_some (possible_subcommand exd t false)) = false -> pos_tok exd t.
Proof.
  intros H. apply orb_false_iff in H. destruct H as [H H4]. apply orb_false_iff in H. destruct H as [H H3].
  apply orb_false_iff in H. destruct H as [H1 H2]. unfold pos_tok.
  destruct (to_long t); [discriminate|]. destruct (to_short t); [discriminate|].
  destruct (possible_subcommand exd t false); [discriminate|]. auto.
Qed.

(** every hypothesis of [dash_top] holds for [p -v a -- b c] / [p -v a b c] (the [--] between two values of
    the low-index multiple: the look-ahead at [a] reads the [--]) and for [p -v -- a b c]; the lines are
    successful parses with sources [a b] and destination [c] *)
Example ex_dash_hyps :
  is_set s_no_binary_name exd_cmd = false /\ is_set s_ignore_errors exd = false /\ dd_class exd /\
  Forall (pos_tok exd) [t_b; t_c] /\ [t_b; t_c] <> [] /\
  (exists ls' st', run exd [t_dv; t_a] [t_b; t_c] ls_top ps_new = inl (ls', st') /\ dd_site exd ls' /\
                   l_pst ls' = PSPos [115]) /\
  (exists ls' st', run exd [t_dv] [t_a; t_b; t_c] ls_top ps_new = inl (ls', st') /\ dd_site exd ls') /\
  out_ok (parse_top exd_cmd [[112]; t_dv; t_a; t_b; t_c]) = true /\
  parse_top exd_cmd [[112]; t_dv; t_a; dd; t_b; t_c] = parse_top exd_cmd [[112]; t_dv; t_a; t_b; t_c] /\
  parse_top exd_cmd [[112]; t_dv; dd; t_a; t_b; t_c] = parse_top exd_cmd [[112]; t_dv; t_a; t_b; t_c].
Proof.
  split; [vm_compute; reflexivity|]. split; [vm_compute; reflexivity|].
  split; [vm_compute; auto|].
  split; [repeat constructor; apply exd_pos_tok; vm_compute; reflexivity|].
  split; [discriminate|].
  split.
  { eexists _, _. split; [vm_compute; reflexivity|]. split; [|reflexivity].
    split; [reflexivity|]. split; [intros i; discriminate|]. split; vm_compute; reflexivity. }
  split.
  { eexists _, _. split; [vm_compute; reflexivity|].
    split; [reflexivity|]. split; [intros i; discriminate|]. split; vm_compute; auto. }
  split; [vm_compute; reflexivity|]. split; vm_compute; reflexivity.
Qed.

(** * The documented exceptions, as witnesses on the model (each replayed on the implementation,
      corpus/C08/dashdash.exceptions.cases): outside the class the [--] changes the result of a successful line *)
Definition differ (a b : outcome) : Prop := out_ok a = true /\ a <> b.
Definition w_P : bytes := [112].
Definition w_last : cmd := (cmd_new [112]) <| c_bin_name := Some [112] |>
  <| c_args := [ (arg_new [97]) <| a_action := Some ASet |>; (arg_new [108]) <| a_action := Some ASet |> <| a_last := true |> ] |>.
Definition w_miss : cmd := (cmd_new [112]) <| c_bin_name := Some [112] |> <| c_set := settings_none <| s_allow_missing_pos := true |> |>
  <| c_args := [ (arg_new [97]) <| a_action := Some ASet |>; (arg_new [98]) <| a_action := Some ASet |> <| a_required := true |> ] |>.
Definition w_ddt : cmd := (cmd_new [112]) <| c_bin_name := Some [112] |> <| c_set := settings_none <| s_dont_delimit_trailing := true |> |>
  <| c_args := [ (arg_new [97]) <| a_action := Some AAppend |> <| a_delim := Some 44 |> <| a_num := Some {| vmin := 1; vmax := usize_max |} |> ] |>.
Definition w_opt : cmd := (cmd_new [112]) <| c_bin_name := Some [112] |>
  <| c_args := [ (arg_new [111]) <| a_long := Some [111;112;116] |> <| a_action := Some ASet |> <| a_num := Some {| vmin := 0; vmax := 1 |} |>;
                 (arg_new [97]) <| a_action := Some ASet |> ] |>.
Definition w_sub : cmd := (cmd_new [112]) <| c_bin_name := Some [112] |>
  <| c_args := [ (arg_new [97]) <| a_action := Some ASet |> ] |> <| c_subs := [cmd_new [114;117;110]] |>.

(** [last(true)]: [p x] fills the first positional, [p -- x] the last one;
    [allow_missing_positional]: [p x y] fills both, [p -- x y] only the last (twice);
    [dont_delimit_trailing_values]: [p a,b] is two values, [p -- a,b] one;
    an option with an optional value: [p --opt v] gives it [v], [p --opt -- v] ends the option;
    a subcommand name: [p run] selects it, [p -- run] is a value *)
Theorem dashdash_exceptions :
  valid w_last = true /\ differ (parse_top w_last [w_P; t_a]) (parse_top w_last [w_P; dd; t_a]) /\
  valid w_miss = true /\ differ (parse_top w_miss [w_P; t_a; t_b]) (parse_top w_miss [w_P; dd; t_a; t_b]) /\
  valid w_ddt = true /\ differ (parse_top w_ddt [w_P; [97; 44; 98]]) (parse_top w_ddt [w_P; dd; [97; 44; 98]]) /\
  valid w_opt = true /\ differ (parse_top w_opt [w_P; [45; 45; 111; 112; 116]; t_a]) (parse_top w_opt [w_P; [45; 45; 111; 112; 116]; dd; t_a]) /\
  valid w_sub = true /\ differ (parse_top w_sub [w_P; [114; 117; 110]]) (parse_top w_sub [w_P; dd; [114; 117; 110]]).
Proof. unfold differ. repeat split; vm_compute; try reflexivity; discriminate. Qed.

(** Observation (model and implementation agree): with low-index multiples a bare [--] at the very END of
    the line is not neutral -- the look-ahead at the last value sees a token that is not a new argument,
    keeps the counter on the multiple, and the required last positional is then missing.
    [p a b c] is accepted, [p a b c --] is MissingRequiredArgument.  The hypothesis [tail <> []] of
    [dash_anywhere] is necessary. *)
Theorem dashdash_empty_tail_witness :
  out_ok (parse_top exd_cmd [[112]; t_a; t_b; t_c]) = true /\
  out_kind (parse_top exd_cmd [[112]; t_a; t_b; t_c; dd]) = Some EMissingRequiredArgument.
Proof. split; vm_compute; reflexivity. Qed.

(** * What the relation and the classes say, spelled out (pinned) *)
Theorem dd_rel_meaning r2 r' : dd_rel r2 r' ->
  r2 = r' \/
  (exists s2 s', r2 = ROk (LDone s2) /\ r' = ROk (LDone s') /\ er s2 = er s') \/
  (exists n vals s2 s', r2 = ROk (LExternal n vals s2) /\ r' = ROk (LExternal n vals s') /\ er s2 = er s').
Proof.
  destruct r2 as [[s2|? ? ? ? ?|n vals s2|? ?]|e t|k]; cbn [dd_rel]; try (intros H; left; exact H).
  - destruct r' as [[s'|? ? ? ? ?|? ? ?|? ?]|e t|k]; try (intros H; left; exact H).
    intros H. right. left. exists s2, s'. auto.
  - destruct r' as [[s'|? ? ? ? ?|n' vals' s'|? ?]|e t|k]; try (intros H; left; exact H).
    intros [<- [<- H]]. right. right. exists n, vals, s2, s'. auto.
Qed.

Theorem dash_classes_meaning c :
  (forall s, er s = s <| mt := (mt s) <| mt_pending :=
                 opt_map (fun p => p <| p_trailing_idx := None |>) (mt_pending (mt s)) |> |>) /\
  (dd_class c <-> is_set s_allow_missing_pos c = false /\ is_set s_dont_delimit_trailing c = false /\
                  forall a, In a (c_args c) -> a_last a = false) /\
  (forall t, pos_tok c t <->
     is_escape t = false /\ to_long t = None /\ to_short t = None /\ possible_subcommand c t false = None) /\
  (forall ls, dd_site c ls <->
     l_trailing ls = false /\ (forall i, l_pst ls <> PSOpt i) /\
     match state_arg c (l_pst ls) with ROk (Some b) => a_hyphen b = false | ROk None => True | _ => False end /\
     possible_subcommand c dd false = None).
Proof.
  split; [intros s; reflexivity|]. split; [|split; intros; reflexivity].
  unfold dd_class. split; intros [A [B C]]; (split; [exact A|split; [exact B|]]).
  - intros a Hin. destruct (a_last a) eqn:E; [|reflexivity].
    assert (X : existsb a_last (c_args c) = true) by (apply existsb_exists; exists a; auto).
    rewrite C in X. discriminate.
  - destruct (existsb a_last (c_args c)) eqn:E; [|reflexivity].
    apply existsb_exists in E. destruct E as [a [Hin L]]. rewrite (C a Hin) in L. discriminate.
Qed.
