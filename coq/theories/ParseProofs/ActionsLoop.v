(** Property C07, part 2: connection of the [react] folds of Actions.v to the token loop of
    [Parser::parse] ([parse_loop]) for a proved class of token lists: lines made of separate short
    flags ([flag_tokens]: each token is [-x] where [x] is an ASCII, non-digit short of an argument
    that takes no value, in a command without subcommands) and, more generally, lines made of
    short-flag clusters ([cluster_tokens]: [-vvqv]). *)
From ClapModel Require Import Base.Bytes Base.Machine Base.Utf8 Lex.OsStrExtModel.
From ClapModel Require Import Parse.Cmd Parse.Build Parse.Valid Parse.Matcher Parse.Errors Parse.Validator Parse.Parser.
From ClapModel Require Import ParseProofs.Actions.
From Coq Require Import ZArith.
From RecordUpdate Require Import RecordSet.
Import RecordSetNotations.
Open Scope N_scope.

Definition plain_short_flag (c : cmd) (ch : N) (a : arg) : Prop :=
  c_subs c = [] /\ ch < 128 /\ ch <> 45 /\ is_digit ch = false /\ get_short c ch = Some a /\ a_takes_value a = false.

Lemma possible_subcommand_nosubs c tok vaf : c_subs c = [] -> possible_subcommand c tok vaf = None.
Proof.
  intros H. unfold possible_subcommand, find_subcommand. rewrite H. cbn.
  destruct (negb (utf8_valid tok)); [reflexivity|].
  destruct (is_set s_args_negate_subs c && vaf); [reflexivity|].
  destruct (is_set s_infer_sub c); reflexivity.
Qed.

Lemma react_core_ok_pr c idn s a raw ti st st' pr : react_core c idn s a raw ti st = ROk (st', pr) -> pr = PRValuesDone.
Proof.
  rewrite react_core_unfold.
  destruct (if is_cmdline s then verify_num_args c a raw st else ROk tt) as [[]|e0 st0|site]; cbn [rbind]; try discriminate.
  destruct (occ_values c a raw ti) as [vals|]; cbn [expect rbind]; [|discriminate].
  assert (forall vs bump, set_like c idn s a vs bump st = ROk (st', pr) -> pr = PRValuesDone) as HS.
  { intros vs bump. unfold set_like.
    destruct (mt_remove _ _) as [m1 removed]. destruct (removed && negb (self_override c a)); [discriminate|].
    destruct (start_custom_arg c a s m1); cbn [rbind]; try discriminate.
    destruct (push_arg_values c a vs _); cbn [rbind]; try discriminate. intros H; inversion H; reflexivity. }
  unfold react_action. destruct (a_get_action a); try discriminate; try apply HS.
  - destruct (start_custom_arg c a s _); cbn [rbind]; try discriminate.
    destruct (push_arg_values c a vals _); cbn [rbind]; try discriminate. intros H; inversion H; reflexivity.
  - destruct (mt_remove _ _) as [m1 removed].
    destruct (start_custom_arg c a s m1); cbn [rbind]; try discriminate.
    destruct (push_arg_values c a _ _); cbn [rbind]; try discriminate. intros H; inversion H; reflexivity.
Qed.

Lemma react_ok_pr c idn s a raw ti st st' pr : react c idn s a raw ti st = ROk (st', pr) -> pr = PRValuesDone.
Proof.
  unfold react. destruct (resolve_pending c st); cbn [rbind]; try discriminate. apply react_core_ok_pr.
Qed.

Lemma parse_short_flag c ch a pos vaf st :
  plain_short_flag c ch a -> fs_skip st = 0 ->
  parse_short_arg c [ch] PSValuesDone pos vaf st =
  (do x <- react c (Some IShort) SCmdLine a [] None st; ROk (fst x, snd x, true)).
Proof.
  intros [Hs [Hlt [Hne [Hd [Hg Htv]]]]] Hskip.
  assert (Hstep : utf8_step [ch] = Some (ch, 1%nat)).
  { unfold utf8_step. apply N.ltb_lt in Hlt. rewrite Hlt. reflexivity. }
  assert (Hnum : sf_is_negative_number [ch] = false).
  { unfold sf_is_negative_number, is_number. cbn [is_number_aux]. rewrite Hd.
    replace (0 <? 0) with false by reflexivity. rewrite !andb_false_r. reflexivity. }
  assert (Hnext : sf_next [ch] = Some (inl ch, [])).
  { unfold sf_next. rewrite Hstep. reflexivity. }
  assert (Hunk : sf_any_unknown c 2 [ch] = false).
  { cbn [sf_any_unknown]. rewrite Hnext. unfold contains_short. rewrite Hg. reflexivity. }
  unfold parse_short_arg. cbn [state_arg rbind]. cbn [length].
  rewrite Hnum, !andb_false_r. rewrite Hunk, !andb_false_r.
  rewrite Hskip. change (N.to_nat (N.min 0 (N.of_nat 2))) with 0%nat. cbn [sf_advance_by expect rbind length].
  assert (Est : st <| fs_skip := 0 |> = st) by (destruct st; cbn in Hskip; subst; reflexivity).
  rewrite Est. cbn [short_loop]. rewrite Hnext, Hg, Htv. cbn [negb].
  destruct (react c (Some IShort) SCmdLine a [] None st) as [[st1 pr]|e st1|site]; cbn [rbind fst snd]; reflexivity.
Qed.

Lemma parse_loop_short_flag c ch a rest pos vaf st :
  plain_short_flag c ch a -> fs_skip st = 0 ->
  parse_loop c ([45; ch] :: rest) (mkL PSValuesDone pos vaf false) st =
  (do x <- react c (Some IShort) SCmdLine a [] None st;
   parse_loop c rest (mkL PSValuesDone pos true false) (fst x)).
Proof.
  intros Hp Hskip. pose proof (parse_short_flag c ch a pos vaf st Hp Hskip) as Hpsa.
  destruct Hp as [Hs [Hlt [Hne [Hd [Hg Htv]]]]].
  assert (Hesc : is_escape [45; ch] = false).
  { unfold is_escape, DASH. cbn [beq]. destruct (ch =? 45) eqn:E; [apply N.eqb_eq in E; contradiction|]. reflexivity. }
  assert (E45 : (ch =? 45) = false) by (apply N.eqb_neq; exact Hne).
  assert (Hlong : to_long [45; ch] = None).
  { unfold to_long, strip_prefix, DASH. cbn [starts_with]. rewrite E45. reflexivity. }
  assert (Hshort : to_short [45; ch] = Some [ch]).
  { unfold to_short, strip_prefix, DASH. cbn [starts_with length skipn].
    change ((45 =? 45) && true) with true. cbn iota. cbn [starts_with]. rewrite E45. reflexivity. }
  cbn [parse_loop]. cbn [l_trailing l_pst l_vaf l_pos].
  rewrite (possible_subcommand_nosubs c [45; ch] vaf Hs), Hesc, Hlong, Hshort, Hpsa.
  destruct (is_set s_sub_precedence c); cbn [orb];
  (destruct (react c (Some IShort) SCmdLine a [] None st) as [[st1 pr]|e st1|site] eqn:Er; cbn [rbind fst snd]; try reflexivity;
   rewrite (react_ok_pr _ _ _ _ _ _ _ _ _ Er); reflexivity).
Qed.


(** [react] touches only the matcher and the index counter *)
Lemma push_arg_values_fs c a : forall raw st st', push_arg_values c a raw st = ROk st' -> fs_skip st' = fs_skip st.
Proof.
  induction raw as [|v t IH]; intros st st' H; cbn [push_arg_values] in H.
  - inversion H; reflexivity.
  - destruct (a_vp a); cbn [expect rbind] in H; [|discriminate].
    destruct (vp_parse v0 v); [discriminate|].
    destruct (add_val_to _ _ _); cbn [expect rbind] in H; [|discriminate].
    destruct (add_index_to _ _ _); cbn [expect rbind] in H; [|discriminate].
    apply IH in H. rewrite H. destruct st; reflexivity.
Qed.

Lemma react_core_fs c idn s a raw ti st st' pr : react_core c idn s a raw ti st = ROk (st', pr) -> fs_skip st' = fs_skip st.
Proof.
  rewrite react_core_unfold.
  destruct (if is_cmdline s then verify_num_args c a raw st else ROk tt) as [[]|e0 st0|site]; cbn [rbind]; try discriminate.
  destruct (occ_values c a raw ti) as [vals|]; cbn [expect rbind]; [|discriminate].
  assert (forall vs bump, set_like c idn s a vs bump st = ROk (st', pr) -> fs_skip st' = fs_skip st) as HS.
  { intros vs bump. unfold set_like.
    set (st1 := if bump && is_cmdline s && is_flag_ident idn then ps_bump st else st).
    assert (E1 : fs_skip st1 = fs_skip st) by (unfold st1; destruct (bump && is_cmdline s && is_flag_ident idn); destruct st; reflexivity).
    destruct (mt_remove _ _) as [m1 removed]. destruct (removed && negb (self_override c a)); [discriminate|].
    destruct (start_custom_arg c a s m1); cbn [rbind]; try discriminate.
    destruct (push_arg_values c a vs _) eqn:Ep; cbn [rbind]; try discriminate. intros H; inversion H; subst.
    apply push_arg_values_fs in Ep. rewrite Ep, <- E1. destruct st1; reflexivity. }
  unfold react_action. destruct (a_get_action a); try discriminate; try apply HS.
  - set (st1 := if is_cmdline s && is_flag_ident idn then ps_bump st else st).
    assert (E1 : fs_skip st1 = fs_skip st) by (unfold st1; destruct (is_cmdline s && is_flag_ident idn); destruct st; reflexivity).
    destruct (start_custom_arg c a s _); cbn [rbind]; try discriminate.
    destruct (push_arg_values c a vals _) eqn:Ep; cbn [rbind]; try discriminate. intros H; inversion H; subst.
    apply push_arg_values_fs in Ep. rewrite Ep, <- E1. destruct st1; reflexivity.
  - destruct (mt_remove _ _) as [m1 removed].
    destruct (start_custom_arg c a s m1); cbn [rbind]; try discriminate.
    destruct (push_arg_values c a _ _) eqn:Ep; cbn [rbind]; try discriminate. intros H; inversion H; subst.
    apply push_arg_values_fs in Ep. rewrite Ep. destruct st; reflexivity.
Qed.

Lemma react_fs c idn s a raw ti st st' pr : react c idn s a raw ti st = ROk (st', pr) -> fs_skip st' = fs_skip st.
Proof.
  unfold react, resolve_pending. destruct (mt_pending (mt st)) as [p|]; cbn [rbind].
  - destruct (find_arg c (p_id p)); cbn [expect rbind]; [|discriminate].
    destruct (react_core c (p_ident p) SCmdLine a0 (p_raw p) (p_trailing_idx p) _) as [[st1 pr1]|e st1|site] eqn:E1; cbn [rbind fst]; try discriminate.
    intros H. apply react_core_fs in H. apply react_core_fs in E1. rewrite H, E1. destruct st; reflexivity.
  - apply react_core_fs.
Qed.

(** ** A proved token class: lines made of separate short flags, e.g. [-v -v -q -v] *)
Definition flag_occ (a : arg) : occ := mkOcc (Some IShort) SCmdLine a [] None.
Inductive flag_tokens (c : cmd) : list bytes -> list occ -> Prop :=
| ft_nil : flag_tokens c [] []
| ft_cons ch a toks os : plain_short_flag c ch a -> flag_tokens c toks os ->
    flag_tokens c ([45; ch] :: toks) (flag_occ a :: os).

(** on that class the token loop of [Parser::parse] IS the fold of [react] over the occurrences *)
Theorem parse_loop_flag_tokens c : forall toks os, flag_tokens c toks os -> forall pos vaf st,
  fs_skip st = 0 ->
  parse_loop c toks (mkL PSValuesDone pos vaf false) st = (do st' <- react_all c os st; ROk (LDone st')).
Proof.
  induction 1 as [|ch a toks os Hp Hft IH]; intros pos vaf st Hskip.
  - reflexivity.
  - rewrite (parse_loop_short_flag c ch a toks pos vaf st Hp Hskip). cbn [react_all flag_occ o_ident o_src o_arg o_raw o_ti].
    destruct (react c (Some IShort) SCmdLine a [] None st) as [[st1 pr]|e st1|site] eqn:Er; cbn [rbind fst]; try reflexivity.
    apply IH. rewrite (react_fs _ _ _ _ _ _ _ _ _ Er). exact Hskip.
Qed.

(** corollary: [-v] given n times to a built Count flag through the real token loop stores min(n,255), for all n *)
Theorem parse_loop_count_flag c ch a n pos vaf st :
  plain_short_flag c ch a -> count_flag a -> ~ In (a_id a) (groups_for_arg c (a_id a)) ->
  wf_m (mt st) -> mt_pending (mt st) = None -> fs_skip st = 0 -> groups_of (a_id a) (mt st) = None ->
  exists st', parse_loop c (repeat [45; ch] n) (mkL PSValuesDone pos vaf false) st = ROk (LDone st') /\
    groups_of (a_id a) (mt st') = enc (N.of_nat n).
Proof.
  intros Hp Hcf Hng Hwf Hpend Hskip Hg.
  assert (Hft : flag_tokens c (repeat [45; ch] n) (repeat (flag_occ a) n)).
  { induction n; cbn [repeat]; constructor; assumption. }
  rewrite (parse_loop_flag_tokens c _ _ Hft pos vaf st Hskip).
  destruct (count_total c a (Some IShort) SCmdLine None Hcf Hng n st 0 Hwf Hpend Hg) as [st' [E [_ [_ G]]]].
  unfold flag_occ. rewrite E. cbn [rbind]. exists st'. split; [reflexivity|exact G].
Qed.

Module LoopExamples.
  Import Examples.
  Example plain_v : plain_short_flag c 118 v.
  Proof. repeat split; try reflexivity. discriminate. Qed.
  Example tokens_vvq : flag_tokens c [[45; 118]; [45; 113]; [45; 118]] [flag_occ v; flag_occ q; flag_occ v].
  Proof. repeat constructor; try reflexivity; discriminate. Qed.
End LoopExamples.

(** ** Clusters: [-vvqv] *)
Inductive cluster_flags (c : cmd) : bytes -> list occ -> Prop :=
| cf_nil : cluster_flags c [] []
| cf_cons ch a r os : ch < 128 -> get_short c ch = Some a -> a_takes_value a = false ->
    cluster_flags c r os -> cluster_flags c (ch :: r) (flag_occ a :: os).

Lemma sf_next_ascii ch r : ch < 128 -> sf_next (ch :: r) = Some (inl ch, r).
Proof. intros H. unfold sf_next, utf8_step. apply N.ltb_lt in H. rewrite H. reflexivity. Qed.

Lemma cluster_known c : forall r os, cluster_flags c r os -> forall fuel, sf_any_unknown c fuel r = false.
Proof.
  induction 1 as [|ch a r os Hlt Hg Htv Hc IH]; intros fuel; destruct fuel as [|f]; try reflexivity.
  cbn [sf_any_unknown]. rewrite (sf_next_ascii ch r Hlt). unfold contains_short. rewrite Hg. cbn [is_some negb orb]. apply IH.
Qed.

Lemma short_loop_cluster c : forall r os, cluster_flags c r os -> forall fuel ret vaf st, (length r < fuel)%nat ->
  short_loop c fuel r ret vaf st =
  (do st' <- react_all c os st;
   ROk (st', match os with [] => ret | _ => PRValuesDone end, match os with [] => vaf | _ => true end)).
Proof.
  induction 1 as [|ch a r os Hlt Hg Htv Hc IH]; intros fuel ret vaf st Hf.
  - destruct fuel as [|f]; [cbn in Hf; lia|]. reflexivity.
  - destruct fuel as [|f]; [cbn in Hf; lia|]. cbn [short_loop]. rewrite (sf_next_ascii ch r Hlt), Hg, Htv. cbn [negb].
    cbn [react_all flag_occ o_ident o_src o_arg o_raw o_ti].
    destruct (react c (Some IShort) SCmdLine a [] None st) as [[st1 pr]|e st1|site] eqn:Er; cbn [rbind fst snd]; try reflexivity.
    rewrite IH by (cbn [length] in Hf; lia). rewrite (react_ok_pr _ _ _ _ _ _ _ _ _ Er).
    destruct (react_all c os st1); cbn [rbind]; try reflexivity. destruct os; reflexivity.
Qed.

(** a cluster token: [-] followed by at least one flag character; the first is neither [-] nor a digit *)
Definition cluster_token (c : cmd) (tok : bytes) (os : list occ) : Prop :=
  exists ch r, tok = 45 :: ch :: r /\ ch <> 45 /\ is_digit ch = false /\ cluster_flags c (ch :: r) os.

Lemma parse_short_cluster c ch r os pos vaf st :
  is_digit ch = false -> cluster_flags c (ch :: r) os -> fs_skip st = 0 ->
  parse_short_arg c (ch :: r) PSValuesDone pos vaf st = (do st' <- react_all c os st; ROk (st', PRValuesDone, true)).
Proof.
  intros Hd Hc Hskip.
  assert (Hnum : sf_is_negative_number (ch :: r) = false).
  { unfold sf_is_negative_number, is_number. cbn [is_number_aux]. rewrite Hd.
    replace (0 <? 0) with false by reflexivity. rewrite !andb_false_r. reflexivity. }
  unfold parse_short_arg. cbn [state_arg rbind].
  rewrite Hnum, !andb_false_r. rewrite (cluster_known c _ _ Hc), !andb_false_r.
  rewrite Hskip. rewrite N.min_0_l. cbn [N.to_nat sf_advance_by expect rbind].
  assert (Est : st <| fs_skip := 0 |> = st) by (destruct st; cbn in Hskip; subst; reflexivity).
  rewrite Est. rewrite (short_loop_cluster c _ _ Hc) by lia.
  inversion Hc; subst. reflexivity.
Qed.

Lemma parse_loop_cluster_token c tok os rest pos vaf st :
  c_subs c = [] -> cluster_token c tok os -> fs_skip st = 0 ->
  parse_loop c (tok :: rest) (mkL PSValuesDone pos vaf false) st =
  (do st' <- react_all c os st; parse_loop c rest (mkL PSValuesDone pos true false) st').
Proof.
  intros Hs [ch [r [Et [Hne [Hd Hc]]]]] Hskip. subst tok.
  pose proof (parse_short_cluster c ch r os pos vaf st Hd Hc Hskip) as Hpsa.
  assert (E45 : (ch =? 45) = false) by (apply N.eqb_neq; exact Hne).
  assert (Hesc : is_escape (45 :: ch :: r) = false).
  { unfold is_escape, DASH. cbn [beq]. rewrite E45. reflexivity. }
  assert (Hlong : to_long (45 :: ch :: r) = None).
  { unfold to_long, strip_prefix, DASH. cbn [starts_with]. rewrite E45. reflexivity. }
  assert (Hshort : to_short (45 :: ch :: r) = Some (ch :: r)).
  { unfold to_short, strip_prefix, DASH. cbn [starts_with length skipn].
    change ((45 =? 45) && true) with true. cbn iota. cbn [starts_with]. rewrite E45. reflexivity. }
  cbn [parse_loop]. cbn [l_trailing l_pst l_vaf l_pos].
  rewrite (possible_subcommand_nosubs c _ vaf Hs), Hesc, Hlong, Hshort, Hpsa.
  destruct (is_set s_sub_precedence c); cbn [orb];
  (destruct (react_all c os st) as [st1|e st1|site]; cbn [rbind fst snd]; reflexivity).
Qed.

Lemma react_all_app c : forall os1 os2 st, react_all c (os1 ++ os2) st = (do st1 <- react_all c os1 st; react_all c os2 st1).
Proof.
  induction os1 as [|o os1 IH]; intros os2 st; [reflexivity|]. cbn [app react_all].
  destruct (react c _ _ _ _ _ st) as [[st1 pr]|e st1|site]; cbn [rbind fst]; try reflexivity. apply IH.
Qed.

Lemma react_all_fs c : forall os st st', react_all c os st = ROk st' -> fs_skip st' = fs_skip st.
Proof.
  induction os as [|o os IH]; intros st st' H; cbn [react_all] in H; [inversion H; reflexivity|].
  destruct (react c _ _ _ _ _ st) as [[st1 pr]|e st1|site] eqn:Er; cbn [rbind fst] in H; try discriminate.
  rewrite (IH _ _ H). apply (react_fs _ _ _ _ _ _ _ _ _ Er).
Qed.

(** lines made of flag clusters, e.g. [-vv -q -vqv] *)
Inductive cluster_tokens (c : cmd) : list bytes -> list occ -> Prop :=
| ct_nil : cluster_tokens c [] []
| ct_cons tok os toks os' : cluster_token c tok os -> cluster_tokens c toks os' ->
    cluster_tokens c (tok :: toks) (os ++ os').

Theorem parse_loop_cluster_tokens c : c_subs c = [] -> forall toks os, cluster_tokens c toks os -> forall pos vaf st,
  fs_skip st = 0 ->
  parse_loop c toks (mkL PSValuesDone pos vaf false) st = (do st' <- react_all c os st; ROk (LDone st')).
Proof.
  intros Hs. induction 1 as [|tok os toks os' Ht Hts IH]; intros pos vaf st Hskip.
  - reflexivity.
  - rewrite (parse_loop_cluster_token c tok os toks pos vaf st Hs Ht Hskip). rewrite react_all_app.
    destruct (react_all c os st) as [st1|e st1|site] eqn:Er; cbn [rbind]; try reflexivity.
    apply IH. rewrite (react_all_fs _ _ _ _ Er). exact Hskip.
Qed.

(** [-vvv...v] (one cluster of n+1 [v]s) to a built Count flag stores min(n+1,255) *)
Theorem parse_loop_count_cluster c ch a n pos vaf st :
  plain_short_flag c ch a -> count_flag a -> ~ In (a_id a) (groups_for_arg c (a_id a)) ->
  wf_m (mt st) -> mt_pending (mt st) = None -> fs_skip st = 0 -> groups_of (a_id a) (mt st) = None ->
  exists st', parse_loop c [45 :: repeat ch (S n)] (mkL PSValuesDone pos vaf false) st = ROk (LDone st') /\
    groups_of (a_id a) (mt st') = enc (N.of_nat (S n)).
Proof.
  intros [Hs [Hlt [Hne [Hd [Hg Htv]]]]] Hcf Hng Hwf Hpend Hskip Hgr.
  assert (Hcl : forall k, cluster_flags c (repeat ch k) (repeat (flag_occ a) k)).
  { induction k; cbn [repeat]; constructor; assumption. }
  assert (Hts : cluster_tokens c [45 :: repeat ch (S n)] (repeat (flag_occ a) (S n) ++ [])).
  { constructor; [|constructor]. exists ch, (repeat ch n). repeat split; try assumption. apply (Hcl (S n)). }
  rewrite app_nil_r in Hts.
  rewrite (parse_loop_cluster_tokens c Hs _ _ Hts pos vaf st Hskip).
  destruct (count_total c a (Some IShort) SCmdLine None Hcf Hng (S n) st 0 Hwf Hpend Hgr) as [st' [E [_ [_ G]]]].
  unfold flag_occ in *. rewrite E. cbn [rbind]. exists st'. split; [reflexivity|exact G].
Qed.

Module ClusterExamples.
  Import Examples.
  Example cluster_vqv : cluster_token c [45; 118; 113; 118] [flag_occ v; flag_occ q; flag_occ v].
  Proof. exists 118, [113; 118]. repeat split; try discriminate. repeat constructor. Qed.
End ClusterExamples.
