(** Property C10, fourth pass, part 2: "inputs that break no rule are not rejected" for whole invocation
    trees, at [parse_top].

    [inv_rules c i]: the rules of NoSpurious.v ([level_rules]) at every level of the invocation tree [i]
    (C02's [inv]: items, optionally a subcommand name and the invocation of that subcommand).
    [run_inv_ok]: for a tree of C02's lifted class ([wfx_inv]) whose levels declare no environment values and
    index their positionals ([lvl_class], boolean), the rules imply that the DENOTATION [run_inv] succeeds
    (induction on the tree; each level is [level_accepts]); [no_spurious_reject] composes this with C02's
    un-parser theorem ([parse_top_merged_x]: the parse of the rendered line IS the denotation):
    [parse_top c0 (bin :: render_inv i) = OOk _].

    Rule (c) quantifies over the matchers that report the denotation.  [Relations_cview]: C03's [Relations]
    reads of an explicit entry only its values and its case-folding flag; [reports_determine]: on a level
    without groups two matchers that report the same occurrences agree on exactly that; hence
    [relations_rule_decide]: on such a level rule (c) holds as soon as the validator accepts the matcher the
    denotation ends in -- the form in which the examples discharge it. *)
From ClapModel Require Import Base.Bytes Base.Machine Base.Utf8 Lex.OsStrExtModel.
From ClapModel Require Import Parse.Cmd Parse.Build Parse.Valid Parse.Matcher Parse.Errors Parse.Validator Parse.Parser.
From ClapModel Require Import ParseProofs.Safe ParseProofs.Actions ParseProofs.Sources ParseProofs.ErrorSound ParseProofs.Relations
                              ParseProofs.RelationsClauses ParseProofs.ValidateTotal ParseProofs.RelationsComplete ParseProofs.RelationsCompleteAll
                              ParseProofs.Unparse ParseProofs.UnparseTop ParseProofs.UnparseSub ParseProofs.UnparseTrail ParseProofs.UnparseTree
                              ParseProofs.UnparseX ParseProofs.UnparseXProofs ParseProofs.UnparseXTree ParseProofs.UnparseGlobals ParseProofs.UnparseLift ParseProofs.NoSpurious.
From Coq Require Import ZArith Lia List Bool.
From RecordUpdate Require Import RecordSet.
Import RecordSetNotations.
Import ListNotations.
Open Scope N_scope.

(** * 1. trees *)
Definition has_sub (i : inv) : bool := match i with ISub _ _ _ => true | _ => false end.

(** class (boolean), beside C02's [wfx_inv]: no level declares an environment value; positionals are indexed *)
Fixpoint lvl_class (c : cmd) (i : inv) : bool :=
  no_env c && pos_indexed_b c &&
  match i with
  | ISub _ name j => match child c name with Some scb => lvl_class scb j | None => false end
  | _ => true
  end.

(** the rules, at every level of the tree *)
Fixpoint inv_rules (c : cmd) (i : inv) : Prop :=
  level_rules c (inv_occs c i) (has_sub i) /\
  match i with
  | ISub _ name j => match child c name with Some scb => inv_rules scb j | None => False end
  | _ => True
  end.

Lemma convx_assert_app c : convx c = true -> assert_app c = true.
Proof. unfold convx. intros H. apply andb_prop in H. destruct H as [H _]. apply andb_prop in H. destruct H as [H _]. exact H. Qed.

(** THE DENOTATION SUCCEEDS *)
Theorem run_inv_ok : forall i c, wfx_inv c i = true -> lvl_class c i = true -> inv_rules c i ->
  exists st, run_inv c i = ROk st.
Proof.
  induction i as [its|its name j IH|its vs]; intros c Hw Hc [HR HRsub].
  - destruct (wfx_inv_parts c _ Hw) as [Hx [_ Hits]]. cbn [lvl_class] in Hc.
    rewrite andb_true_r in Hc. apply andb_prop in Hc. destruct Hc as [He Hp].
    cbn [inv_occs has_sub] in HR.
    destruct (level_accepts c (occs c 1 its) None (convx_assert_app c Hx) He Hp (occs_line c its 1) HR) as [st1 [st [E1 [E2 Es]]]].
    rewrite (ssub_none_id st1 Es) in E2. cbn [run_inv]. rewrite E1. cbn [rbind]. exists st. exact E2.
  - destruct (wfx_inv_parts c _ Hw) as [Hx [_ [Hits [_ [_ [scn [sc0 [scb [_ [_ [_ [_ [Hch Hwj]]]]]]]]]]]]].
    cbn [lvl_class] in Hc. rewrite Hch in Hc. apply andb_prop in Hc. destruct Hc as [Hc Hcj].
    apply andb_prop in Hc. destruct Hc as [He Hp].
    cbn [inv_rules] in HRsub. rewrite Hch in HRsub.
    destruct (IH scb Hwj Hcj HRsub) as [sub_st Esub].
    cbn [inv_occs has_sub] in HR.
    destruct (level_accepts c (occs c 1 its) (Some (c_name scb, into_inner (mt sub_st)))
                (convx_assert_app c Hx) He Hp (occs_line c its 1) HR) as [st1 [st [E1 [E2 _]]]].
    exists st. apply (run_inv_sub_ok_x c its name j scb sub_st st Hx Hits Hch Esub).
    exists st1. split; [exact E1|exact E2].
  - cbn [wfx_inv] in Hw. rewrite andb_false_r in Hw. discriminate Hw.
Qed.

(** NO SPURIOUS REJECTION at [parse_top]: a rendered invocation that breaks no rule is accepted *)
Theorem no_spurious_reject c0 bin i : is_set s_no_binary_name c0 = false ->
  valid (with_bin c0 bin) = true -> wfx_inv (build_self (with_bin c0 bin)) i = true ->
  lvl_class (build_self (with_bin c0 bin)) i = true -> inv_rules (build_self (with_bin c0 bin)) i ->
  exists m, parse_top c0 (bin :: render_inv i) = OOk m.
Proof.
  intros Hnb Hv Hw Hc HR. destruct (run_inv_ok i _ Hw Hc HR) as [st E].
  eexists. exact (parse_top_merged_x c0 bin i st Hnb Hv Hw E).
Qed.

(** the converse packaging, first form: a rejected rendered line breaks a rule *)
Theorem rejected_breaks_rule c0 bin i e : is_set s_no_binary_name c0 = false ->
  valid (with_bin c0 bin) = true -> wfx_inv (build_self (with_bin c0 bin)) i = true ->
  lvl_class (build_self (with_bin c0 bin)) i = true ->
  parse_top c0 (bin :: render_inv i) = OErr e -> ~ inv_rules (build_self (with_bin c0 bin)) i.
Proof.
  intros Hnb Hv Hw Hc HE HR. destruct (no_spurious_reject c0 bin i Hnb Hv Hw Hc HR) as [m E].
  rewrite E in HE. discriminate HE.
Qed.

(** * 2. what [Relations] reads of a matcher *)
Definition cview (mt : matcher) (i : id) : option (list bytes * bool) :=
  match explicit_view mt i with Some e => Some (concat (m_raw e), m_ignore_case e) | None => None end.

Lemma cview_some mt i p : cview mt i = Some p <->
  exists e, fm_get i (mt_args mt) = Some e /\ explicit_m e /\ p = (concat (m_raw e), m_ignore_case e).
Proof.
  unfold cview. destruct (explicit_view mt i) as [e|] eqn:E.
  - apply explicit_view_some in E. destruct E as [G X]. split.
    + intros [= <-]. exists e. auto.
    + intros [e' [G' [_ ->]]]. rewrite G in G'. inversion G'; subst. reflexivity.
  - split; [discriminate|]. intros [e' [G' [X' _]]].
    assert (S : explicit_view mt i = Some e') by (apply explicit_view_some; auto). rewrite E in S. discriminate S.
Qed.

Lemma holds_cview p m m' : explicit_m m -> concat (m_raw m) = concat (m_raw m') -> m_ignore_case m = m_ignore_case m' ->
  holds p m' -> holds p m.
Proof.
  intros X Er Ei [_ H]. split; [exact X|]. destruct p as [v|]; [|exact I].
  destruct H as [r [Hr Hm]]. exists r. rewrite Er, Ei. auto.
Qed.

Theorem Relations_cview c mt mt' :
  (forall i, cview mt i = cview mt' i) -> is_some (mt_sub mt) = is_some (mt_sub mt') ->
  Relations c mt -> Relations c mt'.
Proof.
  intros Ev Es R.
  assert (Hget : forall i m', fm_get i (mt_args mt') = Some m' -> explicit_m m' ->
            exists m, fm_get i (mt_args mt) = Some m /\ explicit_m m /\ concat (m_raw m) = concat (m_raw m')
                      /\ m_ignore_case m = m_ignore_case m').
  { intros i m' G X.
    assert (S : cview mt' i = Some (concat (m_raw m'), m_ignore_case m')) by (apply cview_some; exists m'; auto).
    rewrite <- Ev in S. apply cview_some in S. destruct S as [m [G0 [X0 E0]]]. inversion E0.
    exists m. auto. }
  assert (Hp : forall x, present mt x <-> present mt' x).
  { intros x. unfold present. split.
    - intros [m [G X]].
      assert (S : cview mt x = Some (concat (m_raw m), m_ignore_case m)) by (apply cview_some; exists m; auto).
      rewrite Ev in S. apply cview_some in S. destruct S as [m' [G' [X' _]]]. exists m'. auto.
    - intros [m' [G' X']]. destruct (Hget x m' G' X') as [m [G [X _]]]. exists m. auto. }
  assert (Hhv : forall o v, has_value mt' o v -> has_value mt o v).
  { intros o v (m' & Hm & Hh). destruct (Hget o m' Hm (proj1 Hh)) as [m [G [X [Er Ei]]]].
    exists m. split; [exact G|]. exact (holds_cview _ m m' X Er Ei Hh). }
  apply (RelationsP_ext c mt' (present mt)); [exact Hp|].
  destruct R as [R1 R2 R3 R4]. constructor.
  - exact R1.
  - exact R2.
  - unfold negates_reqs in *. rewrite <- Es. intros Hn x Hx. apply (R3 Hn).
    destruct Hx as [a Hin Hr | g Hin Hr | g y Hin Hr Hy | x g y Hg Hpx Hy | root m' y Hg Hm HR].
    + now apply Rq_static.
    + now apply Rq_group.
    + now apply (Rq_group_requires c mt _ g).
    + now apply (Rq_present_group c mt _ x g).
    + destruct (Hget root m' Hg Hm) as [m [G [X [Er Ei]]]].
      apply (Rq_requires c mt _ root m); [exact G|exact X|].
      induction HR as [a p y Ha Hin Hh|x b y HRx IHx Hb Hin].
      * apply (RB_direct c root m a p y Ha Hin). exact (holds_cview p m m' X Er Ei Hh).
      * exact (RB_trans c root m x b y IHx Hb Hin).
  - unfold negates_reqs in *. rewrite <- Es. intros Hn a Hin Hc. apply (R4 Hn a Hin).
    destruct Hc as [(o & v & Ho & Hv)|[(Hne & Hall)|Hu]].
    + left. exists o, v. auto.
    + right. left. split; [exact Hne|]. intros o v Ho. auto.
    + right. right. exact Hu.
Qed.

(** on a level without groups, reporting the same occurrences determines what [Relations] reads *)
Theorem reports_determine c os sub m m' : c_groups c = [] ->
  reports c os sub m -> reports c os sub m' -> forall i, cview m i = cview m' i.
Proof.
  intros Hg R R' i.
  assert (NG : forall x, groups_for_arg c x = []) by (intros x; unfold groups_for_arg; rewrite Hg; reflexivity).
  assert (Half : forall m1 m2, reports c os sub m1 -> reports c os sub m2 -> forall p, cview m1 i = Some p -> cview m2 i = Some p).
  { intros m1 m2 R1 R2 p S. apply cview_some in S. destruct S as [e [G [X ->]]].
    destruct (find_arg c i) as [a|] eqn:Ef.
    - unfold find_arg in Ef. apply List.find_some in Ef. destruct Ef as [Hin Eb]. apply beq_eq in Eb. subst i.
      pose proof (rp_arg c _ _ _ R1 a Hin) as A1. pose proof (rp_arg c _ _ _ R2 a Hin) as A2.
      destruct (denote_os c (a_id a) os) as [gs|].
      + destruct A1 as [e1 [G1 [_ [Er1 Ei1]]]]. destruct A2 as [e2 [G2 [X2 [Er2 Ei2]]]].
        rewrite G in G1. inversion G1; subst e1. apply cview_some. exists e2. split; [exact G2|]. split; [exact X2|].
        rewrite Er1, Er2, Ei1, Ei2. reflexivity.
      + exfalso. apply A1. exists e. auto.
    - exfalso. assert (P : present m1 i) by (exists e; auto).
      destruct (rp_other c _ _ _ R1 i P) as [o [_ [_ Hk]]].
      + intros a Hin E. unfold find_arg in Ef. pose proof (List.find_none _ _ Ef a Hin) as Hx. cbn beta in Hx.
        rewrite E, beq_refl in Hx. discriminate Hx.
      + rewrite NG in Hk. destruct Hk. }
  destruct (cview m i) as [p|] eqn:E1.
  - symmetry. exact (Half m m' R R' p E1).
  - destruct (cview m' i) as [p'|] eqn:E2; [|reflexivity].
    rewrite (Half m' m R' R p' E2) in E1. discriminate E1.
Qed.

(** hence rule (c) can be DECIDED on such a level: it holds when the validator accepts the matcher the
    denotation ends in *)
Theorem relations_rule_decide c os x : assert_app c = true -> c_groups c = [] ->
  Forall (line_occ c) os -> Forall occ_rules os -> no_repeat c os -> defaults_ok c ->
  (forall st1 st3, react_all c os ps_new = ROk st1 -> add_defaults c (ssub x st1) = ROk st3 ->
                   validate c (mt st3) = VOk) ->
  relations_rule c os (is_some x).
Proof.
  intros Happ Hg HL HO HN Hd HV m Rm.
  destruct (react_all_ok c Happ os [] ps_new (linv_new c) HL HO HN) as [st1 [E1 HI]]. cbn [app] in HI.
  pose proof HI as [Hwf Hp _ _ _ _ _].
  assert (Hwf2 : wf_m (mt (ssub x st1))) by (unfold wf_m; rewrite ssub_mt, msub_args; exact Hwf).
  assert (Hp2 : mt_pending (mt (ssub x st1)) = None) by (rewrite ssub_mt, msub_pending; exact Hp).
  destruct (add_defaults_ok c Happ (ssub x st1) Hd Hwf2 Hp2) as [st3 [E3 W3]].
  pose proof (final_reports c os x st1 st3 HI E3) as R3.
  assert (Rel : Relations c (mt st3)) by (apply (validate_sound c (mt st3) Happ W3); exact (HV st1 st3 E1 E3)).
  apply (Relations_cview c (mt st3) m); [exact (reports_determine c os _ _ _ Hg R3 Rm)| |exact Rel].
  rewrite (rp_sub c _ _ _ R3), (rp_sub c _ _ _ Rm). reflexivity.
Qed.

(** ... and REFUTED when every other rule holds and the denotation is rejected after the loop *)
Theorem relations_rule_refute c os x : assert_app c = true -> no_env c = true -> pos_indexed_b c = true ->
  Forall (line_occ c) os -> Forall occ_rules os -> no_repeat c os -> defaults_ok c -> shape_rule c os (is_some x) ->
  (forall st1 st, react_all c os ps_new = ROk st1 -> post_loop c (ssub x st1) <> ROk st) ->
  ~ relations_rule c os (is_some x).
Proof.
  intros Happ Henv Hpos HL HO HN Hd HS HF HR.
  destruct (level_accepts c os x Happ Henv Hpos HL (Build_level_rules c os _ HO HN Hd HR HS)) as [st1 [st [E1 [E2 _]]]].
  exact (HF st1 st E1 E2).
Qed.

(** * 3. the converse, by kind: when the occurrence rules (a) (b) (d) (h) and the default rule (e) hold at
    every level, the only phase that can still reject is the validator: the error has a validator kind, i.e.
    the kind names rule (c) *)
Record level_rules_nc (c : cmd) (os : list occ) : Prop := {
  ln_occ : Forall occ_rules os;
  ln_rep : no_repeat c os;
  ln_def : defaults_ok c
}.
Fixpoint inv_rules_nc (c : cmd) (i : inv) : Prop :=
  level_rules_nc c (inv_occs c i) /\
  match i with
  | ISub _ name j => match child c name with Some scb => inv_rules_nc scb j | None => False end
  | _ => True
  end.
Definition validator_kind (k : ekind) : Prop :=
  In k [EDisplayHelpOnMissing; EMissingSubcommand; EArgumentConflict; EMissingRequiredArgument].

Lemma level_nc c os x st1 : assert_app c = true -> no_env c = true -> linv c os (mt st1) -> defaults_ok c ->
  (exists st, post_loop c (ssub x st1) = ROk st)
  \/ (exists e st, post_loop c (ssub x st1) = RErr e st /\ validator_kind (e_kind e)).
Proof.
  intros Happ Henv HI Hd. unfold post_loop. rewrite (add_env_none c _ Henv). cbn [rbind].
  pose proof HI as [Hwf Hp Hcl Hden Hic Hkey _].
  assert (Hwf2 : wf_m (mt (ssub x st1))) by (unfold wf_m; rewrite ssub_mt, msub_args; exact Hwf).
  assert (Hp2 : mt_pending (mt (ssub x st1)) = None) by (rewrite ssub_mt, msub_pending; exact Hp).
  destruct (add_defaults_ok c Happ (ssub x st1) Hd Hwf2 Hp2) as [st3 [E3 W3]].
  rewrite E3. cbn [rbind].
  destruct (add_defaults_frame c _ _ Hp2 E3) as [_ [Hsub [[news [Hargs Hnews]] _]]].
  rewrite ssub_mt, msub_args in Hargs, Hnews.
  assert (HK : keys_ok c (mt_args (mt st3))).
  { intros i m Hin. rewrite Hargs in Hin. apply in_app_or in Hin. destruct Hin as [Hin|Hin].
    - destruct (Hkey i (in_fm_get_some i m _ Hin)) as [o [_ [Ha [E|G]]]].
      + destruct (find_arg_of_in c _ Ha) as [a' Ea]. unfold id_exists. rewrite E, Ea. reflexivity.
      + exact (id_exists_group c _ _ G).
    - rewrite Forall_forall in Hnews. destruct (Hnews _ Hin) as [_ [_ [a [Ha [Ea _]]]]]. cbn [fst] in Ea.
      destruct (find_arg_of_in c _ Ha) as [a' Ea']. unfold id_exists. rewrite <- Ea, Ea'. reflexivity. }
  destruct (validate c (mt st3)) as [|k a|s] eqn:V; cbn [vres_to_res].
  - left. exists st3. reflexivity.
  - right. exists (mkerr c k a), st3. split; [reflexivity|]. exact (validate_kinds c _ k a V).
  - exfalso. exact (ValidateTotal.validate_total c (assert_app_rel_wf c Happ) (mt st3) HK s V).
Qed.

Theorem run_inv_nc : forall i c, wfx_inv c i = true -> lvl_class c i = true -> inv_rules_nc c i ->
  (exists st, run_inv c i = ROk st) \/ (exists e st, run_inv c i = RErr e st /\ validator_kind (e_kind e)).
Proof.
  induction i as [its|its name j IH|its vs]; intros c Hw Hc [[HO HN HD] HRsub].
  - destruct (wfx_inv_parts c _ Hw) as [Hx [_ Hits]]. cbn [lvl_class] in Hc.
    rewrite andb_true_r in Hc. apply andb_prop in Hc. destruct Hc as [He Hp].
    cbn [inv_occs] in HO, HN. pose proof (convx_assert_app c Hx) as Happ.
    destruct (react_all_ok c Happ _ [] ps_new (linv_new c) (occs_line c its 1) HO HN) as [st1 [E1 HI]]. cbn [app] in HI.
    cbn [run_inv]. rewrite E1. cbn [rbind]. rewrite <- (ssub_none_id st1 (li_sub c _ _ HI)).
    exact (level_nc c _ None st1 Happ He HI HD).
  - destruct (wfx_inv_parts c _ Hw) as [Hx [_ [Hits [_ [_ [scn [sc0 [scb [_ [_ [_ [_ [Hch Hwj]]]]]]]]]]]]].
    cbn [lvl_class] in Hc. rewrite Hch in Hc. apply andb_prop in Hc. destruct Hc as [Hc Hcj].
    apply andb_prop in Hc. destruct Hc as [He Hp].
    cbn [inv_rules_nc] in HRsub. rewrite Hch in HRsub.
    cbn [inv_occs] in HO, HN. pose proof (convx_assert_app c Hx) as Happ.
    destruct (react_all_ok c Happ _ [] ps_new (linv_new c) (occs_line c its 1) HO HN) as [st1 [E1 HI]]. cbn [app] in HI.
    pose proof (flush_items_x c Hx its PSValuesDone 1 ps_new Hits) as F.
    cbn [resolve_pending ps_new mt matcher_new mt_pending rbind] in F. change (mkPs matcher_new 0 None 0) with ps_new in F.
    rewrite E1 in F. cbn [run_inv]. rewrite Hch.
    destruct (apply_items c 1 its ps_new) as [st'|e0 s0|n0]; cbn [rbind] in F |- *; try discriminate F.
    destruct (IH scb Hwj Hcj HRsub) as [[sub_st Es]|[e [st [Es Hk]]]]; rewrite Es.
    + rewrite resolve_pending_sub, F. cbn [psub rbind]. exact (level_nc c _ _ st1 Happ He HI HD).
    + right. exists e, st'. split; [reflexivity|exact Hk].
  - cbn [wfx_inv] in Hw. rewrite andb_false_r in Hw. discriminate Hw.
Qed.

Theorem rejection_names_relations c0 bin i e : is_set s_no_binary_name c0 = false ->
  valid (with_bin c0 bin) = true -> wfx_inv (build_self (with_bin c0 bin)) i = true ->
  lvl_class (build_self (with_bin c0 bin)) i = true -> inv_rules_nc (build_self (with_bin c0 bin)) i ->
  parse_top c0 (bin :: render_inv i) = OErr e -> validator_kind (e_kind e).
Proof.
  intros Hnb Hv Hw Hc HR HE. rewrite (parse_top_inv_x c0 bin i Hnb Hv Hw) in HE.
  destruct (wfx_inv_parts _ _ Hw) as [_ [Hie _]].
  destruct (run_inv_nc i _ Hw Hc HR) as [[st Es]|[e' [st [Es Hk]]]]; rewrite Es in HE; unfold finish_outcome in HE.
  - discriminate HE.
  - unfold with_bin in Hie. fold (with_bin c0 bin) in Hie. rewrite Hie in HE. cbn [andb] in HE. inversion HE; subst. exact Hk.
Qed.

(** the rules without (c) are part of the rules *)
Lemma inv_rules_nc_of : forall i c, inv_rules c i -> inv_rules_nc c i.
Proof.
  induction i as [its|its name j IH|its vs]; intros c [[HO HN HD _ _] Hs]; (split; [constructor; assumption|]); try exact I.
  cbn [inv_rules] in Hs. destruct (child c name) as [scb|]; [exact (IH scb Hs)|exact Hs].
Qed.

(** * 4. the vocabulary spelled out (pinned in Properties/C10.v) *)
Lemma occ_rules_spec : forall o,
  occ_rules o <->
  (match a_get_action (o_arg o) with ASet | AAppend | ASetTrue | ASetFalse | ACount => true | _ => false end = true
   /\ (exists r, a_num (o_arg o) = Some r /\ count_in_range r (N.of_nat (length (o_raw o))))
   /\ exists vp, a_vp (o_arg o) = Some vp /\
        forall pss,
          Forall2 (fun v ps => match a_delim (o_arg o) with
                               | Some d => pieces_of (encode_utf8 d) v ps
                               | None => ps = [v] end)
                  (match o_raw o with [] => a_default_missing (o_arg o) | _ => o_raw o end) pss ->
          Forall (in_lang vp) (pushed (o_arg o) (concat pss))
          /\ (a_get_action (o_arg o) = ACount -> concat pss = [] -> vp = VPCount)).
Proof. intros o. reflexivity. Qed.

Lemma level_rules_spec : forall c os sub,
  level_rules c os sub <->
  (Forall occ_rules os
   /\ (forall os1 o os2, os = os1 ++ o :: os2 -> set_family (o_arg o) = true -> self_override c (o_arg o) = false ->
         fold_left (step_abs c (a_id (o_arg o))) os1 None = None)
   /\ (forall a raw, In a (c_args c) ->
         ((raw = a_default a /\ raw <> []) \/ (exists i p d, In (i, p, Some d) (a_default_ifs a) /\ raw = [d])) ->
         storing a = true /\ values_ok a raw)
   /\ (forall m, reports c os sub m -> Relations c m)
   /\ (sub = true \/ (is_set s_sub_required c = false /\ (is_set s_arg_required_else_help c = false \/ os <> [])))).
Proof.
  intros c os sub. split.
  - intros [H1 H2 H3 H4 H5]. exact (conj H1 (conj H2 (conj H3 (conj H4 H5)))).
  - intros [H1 [H2 [H3 [H4 H5]]]]. exact (Build_level_rules c os sub H1 H2 H3 H4 H5).
Qed.

Lemma reports_spec : forall c os sub m,
  reports c os sub m <->
  ((forall a, In a (c_args c) ->
      match fold_left (step_abs c (a_id a)) os None with
      | Some gs => exists e, fm_get (a_id a) (mt_args m) = Some e /\ m_source e <> Some SDefault /\ m_raw e = gs
                             /\ m_ignore_case e = a_ignore_case a
      | None => ~ (exists e, fm_get (a_id a) (mt_args m) = Some e /\ m_source e <> Some SDefault)
      end)
   /\ (forall k, (exists e, fm_get k (mt_args m) = Some e /\ m_source e <> Some SDefault) ->
         (forall a, In a (c_args c) -> a_id a <> k) ->
         exists o, In o os /\ In (o_arg o) (c_args c) /\ In k (groups_for_arg c (a_id (o_arg o))))
   /\ is_some (mt_sub m) = sub).
Proof.
  intros c os sub m. split.
  - intros [H1 H2 H3]. exact (conj H1 (conj H2 H3)).
  - intros [H1 [H2 H3]]. exact (Build_reports c os sub m H1 H2 H3).
Qed.

Lemma inv_rules_spec : forall c i,
  (inv_rules c i <->
   level_rules c (inv_occs c i) (match i with ISub _ _ _ => true | _ => false end) /\
   match i with
   | ISub _ name j => match child c name with Some scb => inv_rules scb j | None => False end
   | _ => True
   end)
  /\ (lvl_class c i =
      forallb (fun a => negb (is_some (a_env a))) (c_args c) && forallb (fun p => is_some (a_index p)) (positionals c) &&
      match i with
      | ISub _ name j => match child c name with Some scb => lvl_class scb j | None => false end
      | _ => true
      end).
Proof. intros c i. split; [destruct i; reflexivity|destruct i; reflexivity]. Qed.

Lemma inv_rules_nc_spec : forall c i,
  (inv_rules_nc c i <->
   (Forall occ_rules (inv_occs c i) /\ no_repeat c (inv_occs c i) /\ defaults_ok c) /\
   match i with
   | ISub _ name j => match child c name with Some scb => inv_rules_nc scb j | None => False end
   | _ => True
   end)
  /\ (inv_rules c i -> inv_rules_nc c i).
Proof.
  intros c i. split; [|apply inv_rules_nc_of].
  destruct i; cbn [inv_rules_nc]; (split; [intros [[H1 H2 H3] H4]; exact (conj (conj H1 (conj H2 H3)) H4)
                                          |intros [[H1 [H2 H3]] H4]; exact (conj (Build_level_rules_nc _ _ H1 H2 H3) H4)]).
Qed.

Lemma final_matcher_reports : forall c os x st1 st3, assert_app c = true ->
  Forall (line_occ c) os -> Forall occ_rules os -> no_repeat c os ->
  react_all c os ps_new = ROk st1 -> add_defaults c (ssub x st1) = ROk st3 ->
  reports c os (is_some x) (mt st3).
Proof.
  intros c os x st1 st3 Happ HL HO HN E1 E3.
  destruct (react_all_ok c Happ os [] ps_new (linv_new c) HL HO HN) as [st1' [E1' HI]].
  rewrite E1 in E1'. inversion E1'; subst st1'. exact (final_reports c os x st1 st3 HI E3).
Qed.

