(** C01, round 5 (F): the line side of the recorded finding, sharpened.

    The resume logic of short flag-subcommands ([flag_subcmd_at], [flag_subcmd_skip], the re-read of the current token) is
    engaged only when a short flag-subcommand letter is FOLLOWED by further characters of its cluster.  [tok_ok L t]: in the
    cluster [t] no character other than the last one is in the letter set [L]; [letters_inb L c0]: every short flag and
    short-flag alias of every subcommand of the definition, at every depth, is in [L] (syntactic).

      [do_parse_no_resume]: for EVERY definition the gate accepts, every letter set covering its short flag-subcommand
      letters, and every line all of whose tokens are [tok_ok L] -- clusters `-abc`, attached values `-ovalue`, `-j4`, `-o=v`
      are all fine as long as no flag-subcommand letter stands before the end of a cluster -- parsing never reaches a panic
      site nor runs out of fuel.  [FsLine.do_parse_single_clusters] is the special case of one-character clusters.

    Proof: structural lemmas ([gx]: a postcondition on the successful result only, no invariant needed): [short_loop_at],
    [parse_short_arg_at]: for ANY state and ANY [flag_subcmd_skip], a cluster that is [CO L] yields [PRFlagSub] only
    with [flag_subcmd_at = None] ([advance_by] moves along the same cluster; the flag-subcommand branch clears [at] when the
    letter ends the cluster, and a letter of [L] with something behind it contradicts [CO L]).  Instance of
    [SitesGuards.gx_parse_loop]: the loop never returns [LSub .. keep_state = true ..].  Then the recursion of FsLine.v. *)
From ClapModel Require Import Base.Bytes Base.Machine Base.Utf8 Lex.LexModel.
From ClapModel Require Import Parse.Cmd Parse.Build Parse.Valid Parse.Matcher Parse.Errors Parse.Validator Parse.Parser.
From ClapModel Require Import ParseProofs.Safe ParseProofs.Invariant ParseProofs.Totality
                              ParseProofs.Relations ParseProofs.ValidateTotal ParseProofs.TotalityMain
                              ParseProofs.ActionsLoop
                              ParseProofs.FlagSubClass ParseProofs.FsInvariant ParseProofs.FsTotality ParseProofs.FsAny
                              ParseProofs.SitesGuards ParseProofs.FsLine.
From Coq Require Import ZArith Lia.
From RecordUpdate Require Import RecordSet.
Import RecordSetNotations.
Open Scope N_scope.

(** * letters and clusters *)
Definition memN (x : N) (l : list N) : bool := existsb (N.eqb x) l.
Lemma memN_in x l : memN x l = true <-> In x l.
Proof.
  unfold memN. rewrite existsb_exists. split.
  - intros [y [Hin Hy]]. apply N.eqb_eq in Hy. subst. exact Hin.
  - intros Hin. exists x. split; [exact Hin|apply N.eqb_refl].
Qed.

Definition sub_letters (s : cmd) : list N :=
  match c_short_flag s with Some f => [f] | None => [] end ++ map fst (c_short_flag_aliases s).
Definition letters_here (c : cmd) : list N := flat_map sub_letters (c_subs c).

Lemma find_short_subcmd_letter c ch n : find_short_subcmd c ch = Some n -> In ch (letters_here c).
Proof.
  unfold find_short_subcmd. destruct (List.find _ (c_subs c)) as [s|] eqn:E; [|discriminate]. intros _.
  apply List.find_some in E. destruct E as [Hin Hs]. unfold letters_here. apply in_flat_map. exists s. split; [exact Hin|].
  unfold short_flag_aliases_to in Hs. unfold sub_letters. apply in_or_app.
  apply orb_true_iff in Hs. destruct Hs as [Hs|Hs].
  - left. destruct (c_short_flag s) as [f|]; [|discriminate]. apply N.eqb_eq in Hs. subst. left. reflexivity.
  - right. apply existsb_exists in Hs. destruct Hs as [p [Hp Hq]]. apply N.eqb_eq in Hq. subst. apply in_map. exact Hp.
Qed.

Fixpoint cluster_ok (fuel : nat) (L : list N) (r : bytes) : bool :=
  match fuel with
  | O => true
  | S f => match sf_next r with
           | Some (inl ch, r') => (is_nil r' || negb (memN ch L)) && cluster_ok f L r'
           | _ => true
           end
  end.
Definition tok_ok (L : list N) (t : bytes) : bool :=
  match to_short t with Some r => cluster_ok (S (length r)) L r | None => true end.

(** fuel-free reading *)
Definition CO (L : list N) (r : bytes) : Prop := exists fuel, (length r < fuel)%nat /\ cluster_ok fuel L r = true.

Lemma CO_step L r ch r' : CO L r -> sf_next r = Some (inl ch, r') -> (r' = [] \/ ~ In ch L) /\ CO L r'.
Proof.
  intros [fuel [Hlen Hok]] En. destruct fuel as [|f]; [lia|]. cbn [cluster_ok] in Hok. rewrite En in Hok.
  apply andb_true_iff in Hok. destruct Hok as [H1 H2]. split.
  - apply orb_true_iff in H1. destruct H1 as [H1|H1]; [left; destruct r'; [reflexivity|discriminate]|right].
    intros Hin. apply memN_in in Hin. rewrite Hin in H1. discriminate.
  - exists f. split; [|exact H2]. apply sf_next_shrinks in En. lia.
Qed.

Lemma CO_advance L : forall k r r0, sf_advance_by k r = Some r0 -> CO L r -> CO L r0.
Proof.
  induction k as [|k IH]; intros r r0 H Hc; cbn [sf_advance_by] in H; [injection H as <-; exact Hc|].
  destruct (sf_next r) as [[[ch|rest] r']|] eqn:En; try discriminate.
  apply (IH r' r0 H). apply (CO_step L r ch r' Hc En).
Qed.

Lemma tok_ok_CO L t r : tok_ok L t = true -> to_short t = Some r -> CO L r.
Proof. unfold tok_ok. intros H E. rewrite E in H. exists (S (length r)). split; [lia|exact H]. Qed.

(** * the structural lemmas of one level *)
Section Level.
Variable c : cmd.
Variable L : list N.
Hypothesis HL : forall ch, In ch (letters_here c) -> In ch L.

Definition at_none (x : ps * presult * bool) : Prop :=
  let '(st1, pr, _) := x in forall n, pr = PRFlagSub n -> fs_at st1 = None.

Lemma parse_opt_value_not_flagsub idn att a has_eq st :
  gx (fun x => forall n, snd x <> PRFlagSub n) (parse_opt_value c idn att a has_eq st).
Proof.
  unfold parse_opt_value. gxsteps; cbn [snd]; intros n0 H; try discriminate H.
  destruct (is_some att); discriminate H.
Qed.

Lemma react_values_done' idn s a raw ti st : gx (fun x => snd x = PRValuesDone) (react c idn s a raw ti st).
Proof.
  destruct (react c idn s a raw ti st) as [[st' pr]|e s0|x] eqn:E; cbn; [|exact I|exact I].
  eapply react_ok_pr. exact E.
Qed.

Lemma short_loop_at : forall fuel r ret vaf st, CO L r -> (forall n, ret <> PRFlagSub n) ->
  gx at_none (short_loop c fuel r ret vaf st).
Proof.
  induction fuel as [|f IH]; intros r ret vaf st Hco Hret; cbn [short_loop]; [exact I|].
  destruct (sf_next r) as [[[ch|rest] r']|] eqn:En.
  - destruct (CO_step L r ch r' Hco En) as [Hlast Hco'].
    destruct (get_short c ch) as [a|].
    + destruct (negb (a_takes_value a)).
      * eapply gx_bind; [apply react_values_done'|]. intros x Hx. apply IH; [exact Hco'|]. rewrite Hx. discriminate.
      * match goal with |- gx _ (let '(v, h) := ?x in _) => destruct x as [val has_eq] end.
        eapply gx_bind; [apply parse_opt_value_not_flagsub|]. intros x Hx.
        destruct (snd x) eqn:Es; try (cbn; intros n0 H; discriminate H).
        -- exfalso. exact (Hx n Es).
        -- apply IH; assumption.
    + destruct (find_short_subcmd c ch) as [name|] eqn:Ef.
      * apply gx_bindT. intros st1. cbn. intros n _.
        destruct Hlast as [Hl|Hl]; [subst r'; reflexivity|].
        exfalso. apply Hl. apply HL. eapply find_short_subcmd_letter. exact Ef.
      * cbn. intros n H. discriminate H.
  - cbn. intros n H. discriminate H.
  - cbn. intros n H. exfalso. apply (Hret n H).
Qed.

Lemma parse_short_arg_at r pst pc vaf st : CO L r -> gx at_none (parse_short_arg c r pst pc vaf st).
Proof.
  intros Hco. unfold parse_short_arg. apply gx_bindT. intros sa.
  repeat match goal with |- gx _ (if ?b then _ else _) => destruct b; [cbn; intros n H; discriminate H|] end.
  destruct (sf_advance_by _ r) as [r0|] eqn:Ea; cbn [expect rbind]; [|exact I].
  apply short_loop_at; [eapply CO_advance; eassumption|discriminate].
Qed.

(** the token loop never asks for [keep_state] on a line of the class *)
Definition no_keep (toks : list bytes) (lr : loop_res) : Prop :=
  forallb (tok_ok L) toks = true -> match lr with LSub _ true _ _ _ => False | _ => True end.

Lemma parse_loop_no_keep toks ls st : gx (no_keep toks) (parse_loop c toks ls st).
Proof.
  apply gx_parse_loop; unfold no_keep.
  - intros tok rest lr H Hf. apply H. cbn [forallb] in Hf. apply andb_true_iff in Hf. apply Hf.
  - intros; exact I.
  - intros; exact I.
  - intros; exact I.
  - intros tok rest n vaf st1 r pst pc vaf0 st0 a d Es Eps Ea Hf.
    cbn [forallb] in Hf. apply andb_true_iff in Hf. destruct Hf as [Ht _].
    pose proof (parse_short_arg_at r pst pc vaf0 st0 (tok_ok_CO _ _ _ Ht Es)) as H. rewrite Eps in H. cbn in H.
    rewrite (H n eq_refl) in Ea. discriminate.
  - intros; exact I.
Qed.
End Level.

(** * the tree *)
Fixpoint tree_ok_L (L : list N) (fuel : nat) (c : cmd) : Prop :=
  match fuel with
  | O => False
  | S f => wfc' c /\ assert_app c = true /\ (forall ch, In ch (letters_here c) -> In ch L)
           /\ (forall name sc, build_subcommand c name = Some sc -> tree_ok_L L f sc)
  end.

Lemma forallb_suffix {A} (f : A -> bool) s l : (exists pre, l = pre ++ s) -> forallb f l = true -> forallb f s = true.
Proof. intros [pre ->] H. rewrite forallb_app in H. apply andb_true_iff in H. apply H. Qed.

Lemma gmw_no_resume L : forall fuel c toks st0, tree_ok_L L fuel c -> forallb (tok_ok L) toks = true -> Gl c st0 ->
  safe (GT c) (GT c) (get_matches_with fuel c toks st0).
Proof.
  induction fuel as [|f IH]; intros c toks st0 Hok Hline Hentry; [destruct Hok|].
  destruct (trivP_closed c) as [PC1 [PC2 [PC3 [PC4 [PC5 PC0]]]]].
  destruct (trivV_ok c toks) as [[V1 [V2 [V3 [V4 [V5 [V6 [V7 V8]]]]]]] HVtoks].
  destruct Hok as [Hwf [Happ [HLc Hch]]]. pose proof Hwf as [W1 [W2 [W3 W5]]].
  assert (HFA : forall a, FAc c a <-> FsInv.W4c c \/ a = None) by (intros a; reflexivity).
  assert (HFS : forall s, FS0 s <-> s = 0) by (intros s; reflexivity).
  cbn [get_matches_with].
  match goal with |- safe _ _ (match ?pp with ROk _ => _ | RErr _ _ => _ | RPanic _ => _ end) => set (parsed := pp) end.
  assert (Hparsed : safe (GT c) (GT c) parsed).
  { subst parsed.
    assert (Hloop : safe (FsInv.lr_ok c trivP trivV) (Gl c)
                         (parse_loop c toks (mkL PSValuesDone 1 false false) st0)).
    { eapply FsInv.parse_loop_fs; try eassumption; try exact I. }
    pose proof (parse_loop_no_keep c L HLc toks (mkL PSValuesDone 1 false false) st0) as Hnk.
    destruct (parse_loop c toks (mkL PSValuesDone 1 false false) st0) as [lr|e0 s0|x0] eqn:Eloop;
      cbn in Hloop, Hnk; cbn [rbind]; [|apply GT_of_Gl'; exact Hloop|contradiction].
    destruct lr as [st|name keep vaf st rest|name vals st|names st].
    + split; [exact Hloop|split; exact I].
    + destruct Hloop as [HGs [[sc0 Hfind] _]].
      assert (HGT : GT c st) by (split; [exact HGs|split; exact I]).
      pose proof (sub_tokens_suffix _ _ _ _ _ _ _ _ _ Eloop) as Hsuf.
      destruct (is_set s_args_negate_subs c && vaf); [exact HGT|].
      rewrite Hfind. cbn [expect rbind].
      destruct (build_subcommand c (c_name sc0)) as [sc|] eqn:Eb; [|exact HGT].
      pose proof (Hch _ _ Eb) as Hsc.
      destruct f as [|f']; [destruct Hsc|].
      pose proof Hsc as [_ [Happsc _]]. rewrite Happsc. cbn [negb].
      assert (Hk : keep = false).
      { destruct keep; [|reflexivity]. exfalso. exact (Hnk Hline). }
      subst keep.
      assert (Hsub : safe (GT sc) (GT sc) (get_matches_with (S f') sc rest ps_new)).
      { apply IH; [exact Hsc|eapply forallb_suffix; eassumption|].
        apply FsInv.G_ps_new; [exact I|right; reflexivity|reflexivity]. }
      destruct (get_matches_with (S f') sc rest ps_new) as [sub_st|e sub_st|site]; cbn in Hsub.
      * apply FsInv.G_set_sub; exact HGT.
      * destruct (is_set s_ignore_errors c); [apply FsInv.G_set_sub; exact HGT|exact HGT].
      * contradiction.
    + assert (HGT : GT c st) by (split; [exact Hloop|split; exact I]).
      match goal with |- safe _ _ (rbind ?fl _) => set (filled := fl) end.
      assert (Hfill : match filled with ROk _ => True | RErr _ s => s = st | RPanic _ => False end).
      { subst filled. apply external_fill_safe. cbn.
        eexists. split; [reflexivity|]. cbn. discriminate. }
      destruct filled as [m|e s|x]; cbn [rbind]; [|subst s; exact HGT|contradiction].
      apply FsInv.G_set_sub; exact HGT.
    + split; [exact Hloop|split; exact I]. }
  destruct parsed as [st|e st|site]; cbn in Hparsed; [| |contradiction].
  - eapply safe_bind; [eapply FsInv.resolve_pending_safe; eassumption|].
    intros st1 [HG1 _].
    eapply safe_bind; [eapply FsInv.add_env_safe; eassumption|].
    intros st2 HG2.
    eapply safe_bind; [eapply FsInv.add_defaults_safe; eassumption|].
    intros st3 HG3. unfold vres_to_res.
    destruct (validate c (mt st3)) as [|k a|s] eqn:Ev; [exact HG3|exact HG3|].
    exfalso. revert Ev. apply validate_total; [apply assert_app_rel_wf; exact Happ|apply HG3].
  - destruct (is_set s_ignore_errors c); [|exact Hparsed].
    assert (Hr : safe (GT c) (GT c) (resolve_pending c st)).
    { eapply safe_weaken; [eapply FsInv.resolve_pending_safe; eassumption|intros a Ha; exact (proj1 Ha)|auto]. }
    destruct (resolve_pending c st) as [s0|e0 s0|x0]; cbn in Hr; [| |contradiction].
    all: assert (He : safe (GT c) (GT c) (add_env c s0)) by (eapply FsInv.add_env_safe; eassumption).
    all: destruct (add_env c s0) as [s1|e1 s1|x1]; cbn in He; [| |contradiction].
    all: assert (Hd : safe (GT c) (GT c) (add_defaults c s1)) by (eapply FsInv.add_defaults_safe; eassumption).
    all: destruct (add_defaults c s1) as [s2|e2 s2|x2]; cbn in Hd; [exact Hd|exact Hd|contradiction].
Qed.

(** * the class: a letter set that covers the short flags and short-flag aliases of every subcommand, at every depth *)
Fixpoint letters_inb (L : list N) (x : cmd) : bool :=
  match x with
  | mkCmd _ _ _ _ _ _ _ _ subs _ _ _ _ _ _ _ _ _ =>
      (fix go (l : list cmd) : bool :=
         match l with
         | [] => true
         | s :: t => forallb (fun ch => memN ch L) (sub_letters s) && letters_inb L s && go t
         end) subs
  end.

Lemma letters_inb_spec L x : letters_inb L x = true <->
  forall s, In s (c_subs x) -> (forall ch, In ch (sub_letters s) -> In ch L) /\ letters_inb L s = true.
Proof.
  destruct x as [n al sf lf sfa lfa args groups subs set gset v lv ext bn dn ab lab]. cbn [letters_inb c_subs].
  set (go := fix go (l : list cmd) : bool :=
         match l with
         | [] => true
         | s :: t => forallb (fun ch => memN ch L) (sub_letters s) && letters_inb L s && go t
         end).
  assert (Hl : forall s, forallb (fun ch => memN ch L) (sub_letters s) = true <-> forall ch, In ch (sub_letters s) -> In ch L).
  { intros s. rewrite forallb_forall. split; intros H ch Hin; [apply memN_in; apply H; exact Hin|apply memN_in; apply H; exact Hin]. }
  induction subs as [|s t IH]; cbn [go]; [split; [intros _ s []|reflexivity]|].
  rewrite !Bool.andb_true_iff, IH, Hl. split.
  - intros [[H1 H2] H3] s' [<-|Hin]; [split; assumption|apply H3; exact Hin].
  - intros H. split; [split; apply (H s); left; reflexivity|intros s' Hin; apply H; right; exact Hin].
Qed.

Lemma letters_inb_frame L y s : c_subs y = c_subs s -> letters_inb L y = letters_inb L s.
Proof. destruct y, s. cbn. intros ->. reflexivity. Qed.

Lemma nsf_sub_letters s : nsf s -> sub_letters s = [].
Proof. intros [H1 H2]. unfold sub_letters. rewrite H1, H2. reflexivity. Qed.

Lemma letters_here_built L x : s_built (c_set x) = false -> letters_inb L x = true ->
  forall ch, In ch (letters_here (build_self x)) -> In ch L.
Proof.
  intros Hb Hl ch Hin. unfold letters_here in Hin. apply in_flat_map in Hin. destruct Hin as [s [Hs Hch]].
  rewrite letters_inb_spec in Hl.
  destruct (subs_build_self x Hb s Hs) as [[s0 [Hin0 [[_ [Hf2 Hf3]] _]]]|[_ [Hn _]]].
  - destruct (Hl s0 Hin0) as [H0 _]. apply H0. unfold sub_letters in *. rewrite <- Hf2, <- Hf3. exact Hch.
  - rewrite (nsf_sub_letters _ Hn) in Hch. destruct Hch.
Qed.

Lemma letters_inb_child L x s : s_built (c_set x) = false -> letters_inb L x = true ->
  In s (c_subs (build_self x)) -> letters_inb L s = true.
Proof.
  intros Hb Hl Hs. rewrite letters_inb_spec in Hl.
  destruct (subs_build_self x Hb s Hs) as [[s0 [Hin0 [[Hf1 _] _]]]|[Hs0 _]].
  - rewrite (letters_inb_frame L s s0 Hf1). apply (Hl s0 Hin0).
  - apply letters_inb_spec. rewrite Hs0. intros s' [].
Qed.

Lemma tree_ok_L_of L : forall f x, unbuilt x = true -> letters_inb L x = true ->
  valid_tree f (build_self x) = true -> tree_ok_L L f (build_self x).
Proof.
  induction f as [|f IH]; intros x Hu Hl Hv; [discriminate|].
  cbn [valid_tree] in Hv. apply andb_true_iff in Hv. destruct Hv as [Happ Hvch].
  rewrite forallb_forall in Hvch.
  pose proof Hu as Hu'. apply unbuilt_spec in Hu'. destruct Hu' as [Hb _].
  cbn [tree_ok_L]. split; [apply wfc'_of_built; assumption|split; [exact Happ|split; [apply letters_here_built; assumption|]]].
  intros name sc Hbs. destruct (build_subcommand_spec' _ _ _ Hbs) as [s0 [y [Hin0 [Hbs0 [-> [Hset [Hgset Hsubs]]]]]]].
  specialize (Hvch s0 Hin0). rewrite Hbs0 in Hvch.
  apply IH; [| |exact Hvch].
  - rewrite (unbuilt_frame y s0 Hsubs Hset Hgset). eapply unbuilt_child; eassumption.
  - rewrite (letters_inb_frame L y s0 Hsubs). eapply letters_inb_child; eassumption.
Qed.

(** * the theorems *)
Definition no_resume (L : list N) (toks : list bytes) : bool := forallb (tok_ok L) toks.

Theorem do_parse_no_resume c0 L toks : unbuilt c0 = true -> valid c0 = true ->
  letters_inb L c0 = true -> no_resume L toks = true ->
  match do_parse c0 toks with OPanicked _ | OOutOfFuel => False | _ => True end.
Proof.
  intros Hu Hv HL Hl. unfold do_parse. rewrite Hv. cbn [negb].
  unfold valid in Hv. cbn zeta in Hv.
  pose proof (tree_ok_L_of L _ _ Hu HL Hv) as Hok.
  assert (Hentry : Gl (build_self c0) ps_new) by (apply FsInv.G_ps_new; [exact I|right; reflexivity|reflexivity]).
  pose proof (gmw_no_resume L _ (build_self c0) toks ps_new Hok Hl Hentry) as Hs.
  destruct (get_matches_with _ (build_self c0) toks ps_new) as [st|e st|s]; cbn in Hs.
  - exact I.
  - destruct (is_set s_ignore_errors (build_self c0) && use_stderr (e_kind e)); exact I.
  - contradiction.
Qed.

(** one-character clusters are in the class for every letter set *)
Lemma single_cluster_tok_ok L t : multi_cluster t = false -> tok_ok L t = true.
Proof.
  unfold multi_cluster, tok_ok. destruct (to_short t) as [r|]; [|reflexivity].
  cbn [cluster_ok]. destruct (sf_next r) as [[[ch|rest] r']|]; try reflexivity.
  destruct r' as [|b r'']; [|discriminate]. intros _. cbn.
  destruct (length r); reflexivity.
Qed.
