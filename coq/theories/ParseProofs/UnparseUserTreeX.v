(** Property C02, fourth pass, item (2), trees of the LIFTED class: the class conjuncts of every level of [wfy_inv]
    from the command tree as written.  Same shape as UnparseUserTree.v: [user_treex] (every node [user_conventionalx],
    no [ignore_errors], no [Built] mark in the global settings, no subcommand named or aliased [help]) is stable under
    [prop_child]; [child_is_prop]: the child the parser builds IS [build_self] of the propagated child (with names). *)
From ClapModel Require Import Base.Bytes Base.Machine Base.Utf8 Lex.OsStrExtModel.
From ClapModel Require Import Parse.Cmd Parse.Build Parse.Valid Parse.Matcher Parse.Errors Parse.Validator Parse.Parser.
From ClapModel Require Import ParseProofs.Actions ParseProofs.Unparse ParseProofs.UnparseProofs ParseProofs.UnparseTop
                              ParseProofs.UnparseSub ParseProofs.UnparseTrail ParseProofs.UnparseTree
                              ParseProofs.UnparseX ParseProofs.UnparseXTrail ParseProofs.UnparseXLook ParseProofs.UnparseYTree
                              ParseProofs.UnparseBridge ParseProofs.UnparseUser ParseProofs.UnparseUserTree.
From Coq Require Import ZArith Lia List Bool.
From RecordUpdate Require Import RecordSet.
Import RecordSetNotations.
Import ListNotations.
Open Scope N_scope.

(** [_build_subcommand]: the names it sets before [_build_self] *)
Definition named_sub (c sc : cmd) : cmd :=
      let bin := match c_bin_name c with
                 | Some b => b ++ [32] ++ c_name sc
                 | None => c_name sc end in
      let sc := sc <| c_bin_name := Some bin |> in
      match c_display_name sc with
      | Some _ => sc
      | None =>
          let sd := opt_default (c_name c) (c_display_name c) in
          sc <| c_display_name := Some (sd ++ (if is_nil sd then [] else [45]) ++ c_name sc) |>
      end.
Lemma build_subcommand_named c name : build_subcommand c name =
  match find (fun s => beq (c_name s) name) (c_subs c) with None => None | Some sc => Some (build_self (named_sub c sc)) end.
Proof. reflexivity. Qed.
Lemma named_cases c sc : (exists b, named_sub c sc = sc <| c_bin_name := b |>) \/
  (exists b d, named_sub c sc = sc <| c_bin_name := b |> <| c_display_name := d |>).
Proof.
  unfold named_sub. cbv zeta.
  match goal with |- (exists b, match ?d with _ => _ end = _) \/ _ => destruct d end.
  - left. eexists. reflexivity.
  - right. eexists. eexists. reflexivity.
Qed.

(** the child the parser builds for a subcommand token *)
Lemma child_is_prop c0 scn sc0 scb : s_built (c_set c0) = false -> no_help_sub c0 = true ->
  (beq scn s_help && negb (is_set s_disable_help_sub (build_self c0))) = false ->
  find_subcommand (build_self c0) scn = Some sc0 -> build_subcommand (build_self c0) (c_name sc0) = Some scb ->
  exists s0, In s0 (c_subs c0) /\ scb = build_self (named_sub (build_self c0) (prop_child c0 s0)).
Proof.
  intros Eb N0 Hps Ef Ech.
  rewrite build_subcommand_named in Ech.
  destruct (find (fun s => beq (c_name s) (c_name sc0)) (c_subs (build_self c0))) as [sc2|] eqn:Ef2; [|discriminate Ech].
  apply find_some in Ef2. destruct Ef2 as [Hin2 En2]. apply beq_eq in En2.
  unfold find_subcommand in Ef. apply find_some in Ef. destruct Ef as [Hin0 Eal].
  assert (Hnh : forall s0, In s0 (c_subs c0) -> aliases_to s0 s_help = false).
  { intros s0 Hs0. unfold no_help_sub in N0. rewrite forallb_forall in N0. specialize (N0 s0 Hs0). apply negb_true_iff in N0. exact N0. }
  destruct (built_subs c0 Eb sc2 Hin2) as [[s0 [Hs0 E2]]|[Nh [Ah Dh]]].
  - assert (Ename : c_name s0 <> s_help).
    { intros E. pose proof (Hnh s0 Hs0) as X. unfold aliases_to in X. rewrite E, beq_refl in X. discriminate X. }
    assert (E2' : sc2 = prop_child c0 s0).
    { rewrite E2. unfold glob_sub, prop_child. destruct (propagate_spec (bs_settings c0) s0) as [_ [_ [Pn _]]]. rewrite Pn.
      destruct (beq (c_name s0) s_help) eqn:Eh; [apply beq_eq in Eh; contradiction|]. reflexivity. }
    exists s0. rewrite E2' in Ech. injection Ech as Escb.
    split; [exact Hs0|symmetry; exact Escb].
  - exfalso. rewrite Nh in En2.
    destruct (built_subs c0 Eb sc0 Hin0) as [[s0 [Hs0 E0]]|[Nh0 [Ah0 Dh0]]].
    + assert (X : c_name sc0 = c_name s0).
      { rewrite E0. unfold glob_sub. destruct (propagate_spec (bs_settings c0) s0) as [_ [_ [Pn _]]].
        match goal with |- c_name (if ?b then _ else _) = _ => destruct b end; [exact Pn|].
        destruct (add_globals_spec (filter a_global (c_args (bs_help_version (bs_propagate (bs_settings c0))))) (propagate_subcommand (bs_settings c0) s0)) as [l [_ [_ [_ [_ [_ [En _]]]]]]].
        rewrite En. exact Pn. }
      pose proof (Hnh s0 Hs0) as Y. unfold aliases_to in Y. rewrite <- X, <- En2, beq_refl in Y. discriminate Y.
    + unfold aliases_to, all_aliases in Eal. rewrite Ah0, Nh0 in Eal. cbn [map existsb] in Eal. rewrite orb_false_r in Eal.
      apply beq_eq in Eal. rewrite <- Eal in Hps. rewrite beq_refl, Dh in Hps. discriminate Hps.
Qed.

(** ** the class on the tree as written, lifted *)
Definition user_nodex (c0 : cmd) : bool :=
  user_conventionalx c0 && negb (is_set s_ignore_errors c0) && negb (s_built (c_gset c0)) && no_help_sub c0.
Fixpoint user_treex (k : nat) (c0 : cmd) : bool :=
  match k with
  | O => false
  | S k' => user_nodex c0 && forallb (user_treex k') (c_subs c0)
  end.

Lemma user_nodex_parts c0 : user_nodex c0 = true ->
  user_conventionalx c0 = true /\ is_set s_ignore_errors c0 = false /\ s_built (c_gset c0) = false /\ no_help_sub c0 = true.
Proof.
  unfold user_nodex. intros H. apply andb_prop in H. destruct H as [H H4].
  apply andb_prop in H. destruct H as [H H3]. apply andb_prop in H. destruct H as [H1 H2].
  apply negb_true_iff in H2. apply negb_true_iff in H3. repeat split; assumption.
Qed.
Lemma user_conventionalx_parts c0 : user_conventionalx c0 = true ->
  s_built (c_set c0) = false /\ is_set s_sub_precedence c0 = false /\
  is_set s_allow_hyphen c0 = false /\ is_set s_allow_negnum c0 = false /\ is_set s_tva c0 = false /\
  forallb convx_arg0 (c_args c0) = true.
Proof.
  unfold user_conventionalx. intros H.
  apply andb_prop in H. destruct H as [H Hargs]. apply andb_prop in H. destruct H as [H Htva].
  apply andb_prop in H. destruct H as [H Hnn]. apply andb_prop in H. destruct H as [H Hhy]. apply andb_prop in H. destruct H as [Hb Hsp].
  repeat match goal with Hx : negb _ = true |- _ => apply negb_true_iff in Hx end. repeat split; assumption.
Qed.

Lemma prop_child_nodex c0 s0 : user_nodex c0 = true -> user_nodex s0 = true -> user_nodex (prop_child c0 s0) = true /\
  c_subs (prop_child c0 s0) = c_subs s0.
Proof.
  intros H0 Hs. destruct (user_nodex_parts c0 H0) as [U0 [I0 [B0 _]]]. destruct (user_nodex_parts s0 Hs) as [Us [Is [Bs Ns]]].
  destruct (user_conventionalx_parts c0 U0) as [_ [P1 [P3 [P4 [P5 A0]]]]].
  destruct (user_conventionalx_parts s0 Us) as [Q0 [Q1 [Q3 [Q4 [Q5 As]]]]].
  unfold prop_child. cbv zeta.
  set (c1 := bs_settings c0). set (x := bs_help_version (bs_propagate c1)).
  destruct (add_globals_spec (filter a_global (c_args x)) (propagate_subcommand c1 s0)) as [l [EA [Hl [ES [EG [ESub _]]]]]].
  destruct (propagate_spec c1 s0) as [PA [PS [_ [_ [PSet PG]]]]].
  assert (GS : c_gset c1 = c_gset c0) by apply gset_bs_settings.
  assert (HL : forallb convx_arg0 l = true).
  { apply forallb_forall. intros a Ha. specialize (Hl a Ha). apply filter_In in Hl. destruct Hl as [Hin _].
    unfold x in Hin. destruct (args_help_version (bs_propagate c1)) as [hv [Eh Hhv]]. rewrite Eh, args_propagate in Hin.
    unfold c1 in Hin. rewrite args_settings in Hin. apply in_app_or in Hin. destruct Hin as [Hin|Hin].
    - rewrite forallb_forall in A0. apply A0. exact Hin.
    - destruct (Hhv a Hin) as [->| ->]; reflexivity. }
  assert (SET : forall f : settings -> bool, (forall a b, f (settings_or a b) = f a || f b) -> is_set f c0 = false ->
            is_set f (add_globals (filter a_global (c_args x)) (propagate_subcommand c1 s0)) = is_set f s0).
  { intros f Hf H. destruct (is_set_or f c0 H) as [_ Hg]. unfold is_set. rewrite ES, EG, PSet, PG, !Hf, GS, Hg, !orb_false_r. reflexivity. }
  split; [|rewrite ESub; exact PS].
  unfold user_nodex, user_conventionalx.
  rewrite (SET s_sub_precedence (fun a b => eq_refl) P1),
    (SET s_allow_hyphen (fun a b => eq_refl) P3), (SET s_allow_negnum (fun a b => eq_refl) P4), (SET s_tva (fun a b => eq_refl) P5),
    (SET s_ignore_errors (fun a b => eq_refl) I0), Q1, Q3, Q4, Q5, Is.
  rewrite ES, EG, PSet, PG, EA, PA. cbn [negb andb].
  assert (Eb1 : s_built (settings_or (c_set s0) (c_gset c1)) = false) by (change (s_built (c_set s0) || s_built (c_gset c1) = false); rewrite GS, Q0, B0; reflexivity).
  assert (Eb2 : s_built (settings_or (c_gset s0) (c_gset c1)) = false) by (change (s_built (c_gset s0) || s_built (c_gset c1) = false); rewrite GS, Bs, B0; reflexivity).
  rewrite Eb1, Eb2. cbn [negb andb]. rewrite forallb_app, As, HL. cbn [andb].
  unfold no_help_sub. rewrite ESub, PS. exact Ns.
Qed.

Lemma prop_child_treex k c0 s0 : user_nodex c0 = true -> user_treex k s0 = true -> user_treex k (prop_child c0 s0) = true.
Proof.
  intros H0 Hs. destruct k as [|k']; [discriminate Hs|]. cbn [user_treex] in *. apply andb_prop in Hs. destruct Hs as [Hn Hsub].
  destruct (prop_child_nodex c0 s0 H0 Hn) as [N S]. rewrite N, S. exact Hsub.
Qed.
Lemma user_treex_names k x b d : user_treex k (x <| c_bin_name := b |> <| c_display_name := d |>) = user_treex k x.
Proof. destruct k; reflexivity. Qed.
Lemma user_treex_bin k x b : user_treex k (x <| c_bin_name := b |>) = user_treex k x.
Proof. destruct k; reflexivity. Qed.

Lemma convx_of_user_a c0 : assert_app (build_self c0) = true -> user_conventionalx c0 = true -> convx (build_self c0) = true.
Proof.
  intros Ha Hu. destruct (user_conventionalx_parts c0 Hu) as [Eb [P1 [P3 [P4 [P5 A0]]]]].
  unfold convx. rewrite Ha.
  rewrite (is_set_build_self s_sub_precedence c0 (fun s => eq_refl) (set_sp c0)). rewrite P1. cbn [andb negb].
  apply (built_args_pred convx_arg0 convx_arg c0); try assumption.
  - intros a Hc E. unfold convx_arg0 in Hc. apply andb_prop in Hc. destruct Hc as [Hi Hc].
    destruct (ab_flags a) as [F1 [F2 _]]. rewrite ab_positional, ab_index in E.
    destruct (a_index a) eqn:Ei; [discriminate Hi|]. cbn [is_some negb] in E. rewrite andb_true_r in E. rewrite E in Hc.
    unfold convx_arg. rewrite ab_index, Ei, F1, F2. cbn [is_some negb orb] in *. exact Hc.
  - intros a n Hc Hp _. reflexivity.
  - reflexivity.
  - reflexivity.
  - intros Hbt. rewrite Hbt in Eb. discriminate.
Qed.

(** [wfy_inv] without the class conjuncts, at every level *)
Fixpoint wfy_tree_body (c : cmd) (i : invy) : bool :=
  match i with
  | YSub its name j =>
      wfx_items c PSValuesDone 1 its && is_done (items_pst c PSValuesDone 1 its)
      && negb (is_set s_args_negate_subs c)
      && match possible_subcommand c name false with
         | Some scn => negb (beq scn s_help && negb (is_set s_disable_help_sub c))
         | None => false end
      && match child c name with
         | Some scb => wfy_tree_body scb j
         | None => false end
  | _ => wfy_body c i
  end.

Theorem wfy_inv_of_user_tree : forall i k c0 f, user_treex k c0 = true -> valid_tree (S f) (build_self c0) = true ->
  wfy_tree_body (build_self c0) i = true -> wfy_inv (build_self c0) i = true.
Proof.
  induction i as [its|its name j IH|its vs|its vs|its vs|its init vl its2]; intros k c0 f Hu Hv Hb;
    (destruct k as [|k']; [discriminate Hu|]); cbn [user_treex] in Hu; apply andb_prop in Hu; destruct Hu as [Hn Hsub];
    destruct (user_nodex_parts c0 Hn) as [U0 [I0 [B0 N0]]];
    assert (Ha : assert_app (build_self c0) = true) by (cbn [valid_tree] in Hv; apply andb_prop in Hv; apply Hv);
    pose proof (convx_of_user_a c0 Ha U0) as Hc; rewrite wfy_inv_body, Hc, ie_build_self, I0; cbn [negb andb].
  1, 3, 4, 5, 6: exact Hb.
  cbn [wfy_tree_body] in Hb. cbn [wfy_body].
  apply andb_prop in Hb. destruct Hb as [Hb Hch]. rewrite Hb. cbn [andb].
  apply andb_prop in Hb. destruct Hb as [Hb Hps].
  destruct (child (build_self c0) name) as [scb|] eqn:Ech; [|discriminate Hch].
  unfold child in Ech. destruct (possible_subcommand (build_self c0) name false) as [scn|] eqn:Ep; [|discriminate Ech].
  destruct (find_subcommand (build_self c0) scn) as [sc0|] eqn:Ef; [|discriminate Ech].
  pose proof (valid_tree_child f (build_self c0) scn sc0 scb Hv Ef Ech) as Hvc.
  destruct f as [|f']; [cbn [valid_tree] in Hvc; discriminate|].
  destruct (user_conventionalx_parts c0 U0) as [Eb _].
  assert (Hps' : (beq scn s_help && negb (is_set s_disable_help_sub (build_self c0))) = false) by (apply negb_true_iff in Hps; exact Hps).
  destruct (child_is_prop c0 scn sc0 scb Eb N0 Hps' Ef Ech) as [s0 [Hs0 Escb]].
  assert (Hu3 : user_treex k' (named_sub (build_self c0) (prop_child c0 s0)) = true).
  { assert (Hut : user_treex k' (prop_child c0 s0) = true).
    { apply prop_child_treex; [exact Hn|]. rewrite forallb_forall in Hsub. apply Hsub. exact Hs0. }
    destruct (named_cases (build_self c0) (prop_child c0 s0)) as [[b ->]|[b [d ->]]]; [rewrite user_treex_bin|rewrite user_treex_names]; exact Hut. }
  rewrite Escb in *. apply (IH k' _ f' Hu3 Hvc Hch).
Qed.

Theorem parse_top_user_tree_y c0 bin i k : is_set s_no_binary_name c0 = false -> valid (with_bin c0 bin) = true ->
  user_treex k c0 = true -> wfy_tree_body (build_self (with_bin c0 bin)) i = true ->
  parse_top c0 (bin :: render_invy i) = finish_outcome (with_bin c0 bin) (run_invy (build_self (with_bin c0 bin)) i).
Proof.
  intros Hn Hv Hu Hb. apply (parse_top_inv_y c0 bin i Hn Hv).
  assert (Hu' : user_treex k (with_bin c0 bin) = true).
  { unfold with_bin. destruct (c_bin_name c0); [exact Hu|]. destruct (utf8_valid bin && negb (is_nil bin)); [rewrite user_treex_bin|]; exact Hu. }
  assert (Hv' := Hv). unfold valid in Hv'. cbv zeta in Hv'.
  apply (wfy_inv_of_user_tree i k (with_bin c0 bin) (S (depth (build_self (with_bin c0 bin)))) Hu' Hv' Hb).
Qed.

(** non-vacuity: the lifted-class tree of the third pass ([... run --key=K]) as written *)
From ClapModel Require Import ParseProofs.UnparseXExamples.
Example user_treex_examples :
  user_treex 3 XEx.c0 = true /\ wfy_tree_body (build_self (with_bin XEx.c0 XEx.bin)) (of_inv XEx.xinv) = true /\
  user_tree 3 XEx.c0 = false.
Proof. vm_compute. repeat split; reflexivity. Qed.
