(** Property C05, round 3: [dont_delimit_trailing_values] as a GLOBAL setting.

    [Command::dont_delimit_trailing_values] sets the flag in [settings] and [g_settings]; [_propagate_subcommand]
    (run by [_build_self] on every child) ors the parent's [g_settings] into the child's [settings] and
    [g_settings].  So the flag is set at EVERY level the parser can descend into ([ddt_all_of_global]), the
    stored form of the tail is the tail itself at every depth ([tail_form_ddt]), and [delivered] can be read
    with [t' = t] ([delivered_v]): the tail is verbatim -- its first token included, whatever the positional
    collected before the [--] -- at depth >= 2 too. *)
From ClapModel Require Import Base.Bytes Base.Machine Base.Utf8 Lex.OsStrExtModel.
From ClapModel Require Import Parse.Cmd Parse.Build Parse.Valid Parse.Matcher Parse.Errors Parse.Validator Parse.Parser.
From ClapModel Require Import ParseProofs.Safe ParseProofs.Invariant ParseProofs.Totality ParseProofs.TotalityMain
  ParseProofs.Sources ParseProofs.Spelling ParseProofs.Dispatch ParseProofs.Provenance
  ParseProofs.Escape ParseProofs.EscapeWalk ParseProofs.EscapeStore ParseProofs.EscapeSub ParseProofs.EscapeLevel
  ParseProofs.EscapeChain ParseProofs.EscapeDisplay ParseProofs.EscapeGlobals ParseProofs.EscapeTop.
From Coq Require Import ZArith Lia List Bool.
From RecordUpdate Require Import RecordSet.
Import RecordSetNotations.
Import ListNotations.
Open Scope N_scope.

Definition gddt (x : cmd) : bool := s_dont_delimit_trailing (c_gset x).

(** the setting is set at every level of every chain of built subcommands *)
Fixpoint ddt_all (fuel : nat) (c : cmd) : Prop :=
  match fuel with
  | O => True
  | S f => is_set s_dont_delimit_trailing c = true
           /\ forall name sc, build_subcommand c name = Some sc -> ddt_all f sc
  end.

Lemma gddt_propagate parent sc : gddt parent = true -> gddt (propagate_subcommand parent sc) = true.
Proof.
  unfold gddt, propagate_subcommand. intros H.
  destruct (s_propagate_version (c_set parent));
    repeat match goal with |- context [match ?o with Some _ => _ | None => _ end] => destruct o end;
    cbn; rewrite H; apply orb_true_r.
Qed.


Lemma gset_mark y : c_gset (bs_mark y) = c_gset y. Proof. reflexivity. Qed.
Lemma gset_deprecated y : c_gset (bs_deprecated y) = c_gset y. Proof. reflexivity. Qed.
Lemma gset_args y : c_gset (bs_args y) = c_gset y. Proof. reflexivity. Qed.
Lemma gset_globals y : c_gset (bs_globals y) = c_gset y. Proof. reflexivity. Qed.
Lemma gset_propagate y : c_gset (bs_propagate y) = c_gset y. Proof. reflexivity. Qed.
Lemma gset_help_version y : c_gset (bs_help_version y) = c_gset y.
Proof.
  unfold bs_help_version.
  set (y1 := if negb (is_set s_disable_help_flag y) then y <| c_args := c_args y ++ [help_arg] |> else y).
  assert (E1 : c_gset y1 = c_gset y) by (subst y1; destruct (negb (is_set s_disable_help_flag y)); reflexivity).
  set (y2 := if negb (is_disable_version_flag_set y1) then y1 <| c_args := c_args y1 ++ [version_arg] |> else y1).
  assert (E2 : c_gset y2 = c_gset y1) by (subst y2; destruct (negb (is_disable_version_flag_set y1)); reflexivity).
  destruct (negb (is_set s_disable_help_sub y2)); (transitivity (c_gset y2); [reflexivity|congruence]).
Qed.
Lemma gset_settings y : c_gset (bs_settings y) = c_gset y.
Proof.
  unfold bs_settings.
  set (y1 := y <| c_set := settings_or (c_set y) (c_gset y) |>).
  assert (E1 : c_gset y1 = c_gset y) by reflexivity.
  set (y2 := if is_set s_args_negate_subs y1 then _ else y1).
  assert (E2 : c_gset y2 = c_gset y1) by (subst y2; destruct (is_set s_args_negate_subs y1); reflexivity).
  set (y3 := if is_some (c_ext_vp y2) then _ else y2).
  assert (E3 : c_gset y3 = c_gset y2) by (subst y3; destruct (is_some (c_ext_vp y2)); reflexivity).
  destruct (negb (has_subcommands y3)); (transitivity (c_gset y3); [reflexivity|congruence]).
Qed.
Lemma gset_build_self x : c_gset (build_self x) = c_gset x.
Proof.
  unfold build_self. destruct (s_built (c_set x)); [reflexivity|].
  rewrite gset_mark, gset_deprecated, gset_args, gset_globals, gset_help_version, gset_propagate, gset_settings. reflexivity.
Qed.

Lemma gddt_build_self x : gddt x = true -> gddt (build_self x) = true /\ is_set s_dont_delimit_trailing (build_self x) = true.
Proof.
  intros H. assert (G : gddt (build_self x) = true) by (unfold gddt; rewrite gset_build_self; exact H).
  split; [exact G|]. unfold is_set. unfold gddt in G. rewrite G. apply orb_true_r.
Qed.

Lemma subs_help_version y s : In s (c_subs (bs_help_version y)) ->
  In s (c_subs y) \/ exists y2, c_gset y2 = c_gset y /\ s = fix_help_unset (help_subcommand y2).
Proof.
  unfold bs_help_version.
  set (y1 := if negb (is_set s_disable_help_flag y) then y <| c_args := c_args y ++ [help_arg] |> else y).
  assert (E1 : c_gset y1 = c_gset y /\ c_subs y1 = c_subs y) by (subst y1; destruct (negb (is_set s_disable_help_flag y)); split; reflexivity).
  set (y2 := if negb (is_disable_version_flag_set y1) then y1 <| c_args := c_args y1 ++ [version_arg] |> else y1).
  assert (E2 : c_gset y2 = c_gset y1 /\ c_subs y2 = c_subs y1) by (subst y2; destruct (negb (is_disable_version_flag_set y1)); split; reflexivity).
  destruct E1 as [E1 F1]. destruct E2 as [E2 F2].
  destruct (negb (is_set s_disable_help_sub y2)).
  - change (c_subs (y2 <| c_subs := ?l |>)) with l. intros Hin. apply in_app_or in Hin.
    destruct Hin as [Hin|[<-|[]]]; [left; rewrite <- F1, <- F2; exact Hin|].
    right. exists y2. split; [congruence|reflexivity].
  - intros Hin. left. rewrite <- F1, <- F2. exact Hin.
Qed.

Lemma gddt_help y2 : gddt y2 = true -> gddt (fix_help_unset (help_subcommand y2)) = true.
Proof.
  intros H. unfold fix_help_unset, help_subcommand.
  set (h0 := (cmd_new s_help) <| c_about := Some s_help_about |> <| c_args := [help_subcommand_arg] |>).
  pose proof (gddt_propagate y2 h0 H) as Hh. unfold gddt in *. cbn. exact Hh.
Qed.

(** every child of a built command carries the global setting *)
Lemma subs_gddt x : s_built (c_set x) = false -> gddt x = true ->
  forall s, In s (c_subs (build_self x)) -> gddt s = true.
Proof.
  intros Hb Hg s. rewrite (build_self_subs x Hb). unfold pre_globals.
  set (x1 := bs_settings x).
  assert (Hx1 : gddt x1 = true) by (subst x1; unfold gddt; rewrite gset_settings; exact Hg).
  set (x2 := bs_propagate x1).
  assert (Hg2 : gddt x2 = true) by (subst x2; unfold gddt; rewrite gset_propagate; exact Hx1).
  assert (Hs2 : forall s2, In s2 (c_subs x2) -> gddt s2 = true).
  { subst x2. unfold bs_propagate. change (c_subs (x1 <| c_subs := ?l |>)) with l.
    intros s2 Hin. apply in_map_iff in Hin. destruct Hin as [s0 [<- _]]. apply gddt_propagate. exact Hx1. }
  set (x3 := bs_help_version x2).
  assert (H3 : forall s3, In s3 (c_subs x3) -> gddt s3 = true).
  { intros s3 Hin. subst x3. destruct (subs_help_version x2 s3 Hin) as [Hin2|(y2 & Ey & ->)]; [exact (Hs2 s3 Hin2)|].
    apply gddt_help. unfold gddt in *. rewrite Ey. exact Hg2. }
  unfold bs_globals. change (c_subs (x3 <| c_subs := ?l |>)) with l.
  intros Hin. apply in_map_iff in Hin. destruct Hin as [s3 [<- Hin3]].
  destruct (beq (c_name s3) s_help && negb (is_set s_disable_help_sub x3)); [exact (H3 s3 Hin3)|].
  destruct (add_globals_frame (filter a_global (c_args x3)) s3) as (_ & _ & Hgs & _).
  unfold add_globals in Hgs. unfold gddt. rewrite Hgs. exact (H3 s3 Hin3).
Qed.

Theorem ddt_all_of_global : forall f x, plain x = true -> gddt x = true -> ddt_all f (build_self x).
Proof.
  induction f as [|f IH]; intros x Hp Hg; [exact I|].
  pose proof Hp as Hp'. apply plain_spec in Hp'. destruct Hp' as [Hb [Hgb Hsub]].
  cbn [ddt_all]. split; [exact (proj2 (gddt_build_self x Hg))|].
  intros name sc Hbs. unfold build_subcommand in Hbs.
  destruct (List.find (fun s => beq (c_name s) name) (c_subs (build_self x))) as [s0|] eqn:Ef; [|discriminate].
  apply List.find_some in Ef. destruct Ef as [Hin0 _].
  pose proof (subs_gddt x Hb Hg s0 Hin0) as Hs0.
  pose proof (plain_child x s0 Hp Hin0) as Hp0.
  injection Hbs as <-.
  apply IH.
  - rewrite <- Hp0. apply plain_frame;
      repeat match goal with |- context [match ?d with Some _ => _ | None => _ end] => destruct d end; reflexivity.
  - unfold gddt in *. rewrite <- Hs0.
    repeat match goal with |- context [match ?d with Some _ => _ | None => _ end] => destruct d end; reflexivity.
Qed.

(** [delivered] read with the stored form of the tail equal to the tail: at the level that consumed the [--] the
    last value group of the absorbing positional ENDS WITH the tail itself (whatever it holds before it); in the
    chain class the stored form of every token is the token *)
Fixpoint delivered_v (fuel : nat) (c : cmd) (t : list bytes) (m : matches) : Prop :=
  match fuel with
  | O => False
  | S f =>
      ((forall a, sink_from c 1 a ->
          ms_sub m = None /\
          exists e gs early', fm_get (a_id a) (ms_args m) = Some e /\ m_raw e = gs ++ [early' ++ t]
                              /\ m_source e = Some SCmdLine)
       /\ (chainc c = true ->
           ms_sub m = None /\ (forall a t0, tail_form c a t0 = Some t0)
           /\ exists x pc, chain_filled c (fun y => fm_get y (ms_args m)) pc (x ++ t)))
      \/ (exists name sc sm, build_subcommand c name = Some sc /\ ms_sub m = Some (c_name sc, sm) /\ delivered_v f sc t sm)
      \/ (exists name vals sm, ms_sub m = Some (name, sm) /\ ms_sub sm = None /\
                               fm_get ext_id (ms_args sm) = Some (ext_marg (vals ++ dashdash :: t)))
  end.

Lemma delivered_ddt : forall f c t m, ddt_all f c -> delivered f c t m -> delivered_v f c t m.
Proof.
  induction f as [|f IH]; intros c t m Hd H; [destruct H|].
  destruct Hd as [Hset Hch]. cbn [delivered delivered_v] in *.
  destruct H as [[D1 D2]|[(name & sc & sm & Eb & Esub & Hr)|Hx]].
  - left. split.
    + intros a Ha. destruct (D1 a Ha) as (Hn & e & gs & early & t' & G1 & G2 & G3 & G4).
      rewrite (tail_form_ddt c a t Hset) in G4. injection G4 as <-.
      split; [exact Hn|]. exists e, gs, early. auto.
    + intros Hc. destruct (D2 Hc) as (Hn & x & pc & Hcf). split; [exact Hn|].
      split; [intros a t0; exact (tail_form_ddt c a t0 Hset)|]. exists x, pc. exact Hcf.
  - right. left. exists name, sc, sm. split; [exact Eb|]. split; [exact Esub|]. exact (IH sc t sm (Hch _ _ Eb) Hr).
  - right. right. exact Hx.
Qed.

(** (3): the entry points.  Class [esc_class_g] (global arguments allowed) and the setting given as a GLOBAL
    setting of the root ([Command::dont_delimit_trailing_values] does that): the tail is verbatim at every depth *)
Theorem do_parse_delivered_ddt c0 pre t m :
  esc_class_g c0 = true -> gddt c0 = true -> t <> [] ->
  do_parse c0 (pre ++ dashdash :: t) = OOk m ->
  delivered_v (top_fuel c0) (build_self c0) t m.
Proof.
  intros Hc Hg Ht H. apply delivered_ddt; [|exact (do_parse_delivered_g c0 pre t m Hc Ht H)].
  apply ddt_all_of_global; [|exact Hg].
  unfold esc_class_g, esc_class0 in Hc. apply andb_true_iff in Hc as [Hc _]. apply andb_true_iff in Hc as [Hc _].
  apply andb_true_iff in Hc as [Hc _]. exact Hc.
Qed.

Theorem parse_top_delivered_ddt c0 bin pre t m :
  esc_class_g c0 = true -> gddt c0 = true -> is_set s_no_binary_name c0 = false -> c_bin_name c0 <> None -> t <> [] ->
  parse_top c0 (bin :: pre ++ dashdash :: t) = OOk m ->
  delivered_v (top_fuel c0) (build_self c0) t m.
Proof.
  intros Hc Hg Hnb Hb Ht. unfold parse_top. rewrite Hnb. destruct (c_bin_name c0); [|contradiction].
  apply do_parse_delivered_ddt; assumption.
Qed.

(** * Non-vacuity: [prog (dont_delimit_trailing_values) a [b [q(delimiter ,)]...]]: the positional that receives
    the tail is two levels below the command the setting was given on *)
Definition d_q : arg := (arg_new [113]) <| a_num := Some {| vmin := 1; vmax := usize_max |} |> <| a_delim := Some 44 |>.
Definition d_b : cmd := (cmd_new [98]) <| c_args := [d_q] |>.
Definition d_a : cmd := (cmd_new [97]) <| c_subs := [d_b] |>.
Definition d_set : settings := settings_none <| s_dont_delimit_trailing := true |>.
Definition d_c0 : cmd :=
  (cmd_new [112]) <| c_subs := [d_a] |> <| c_bin_name := Some [112] |> <| c_set := d_set |> <| c_gset := d_set |>.
Definition w_ab : bytes := [120; 44; 121].        (* x,y *)
Definition w_cd : bytes := [99; 44; 100].         (* c,d *)
Definition w_ef : bytes := [101; 44; 102].        (* e,f *)

Example ex_ddt_class : esc_class_g d_c0 = true /\ gddt d_c0 = true.
Proof. split; vm_compute; reflexivity. Qed.

(** the level two below the root is a sink level and has the setting although it was never given there *)
Example ex_ddt_depth : exists sa sb q,
  build_subcommand (build_self d_c0) [97] = Some sa /\ build_subcommand sa [98] = Some sb /\
  is_set s_dont_delimit_trailing sb = true /\ s_dont_delimit_trailing (c_set d_b) = false /\
  sink_from sb 1 q /\ a_id q = [113] /\ a_delim q = Some 44.
Proof.
  destruct (build_subcommand (build_self d_c0) [97]) as [sa|] eqn:Ea; [|vm_compute in Ea; discriminate].
  destruct (build_subcommand sa [98]) as [sb|] eqn:Eb.
  2:{ exfalso. vm_compute in Ea. injection Ea as <-. vm_compute in Eb. discriminate. }
  destruct (sink_arg sb 1) as [q|] eqn:Eq.
  2:{ exfalso. vm_compute in Ea. injection Ea as <-. vm_compute in Eb. injection Eb as <-. vm_compute in Eq. discriminate. }
  exists sa, sb, q. split; [reflexivity|]. split; [exact Eb|].
  vm_compute in Ea. injection Ea as <-. vm_compute in Eb. injection Eb as <-.
  split; [vm_compute; reflexivity|]. split; [reflexivity|]. split.
  - right. split; [vm_compute; reflexivity|exact Eq].
  - vm_compute in Eq. injection Eq as <-. split; reflexivity.
Qed.

(** [prog a b x,y -- c,d e,f]: the value before the [--] is split, the tail is not -- its FIRST token included *)
Example ex_ddt_run :
  match parse_top d_c0 ([112] :: [[97]; [98]; w_ab] ++ dashdash :: [w_cd; w_ef]) with
  | OOk (Matches _ (Some (_, Matches _ (Some (_, Matches args None))))) =>
      opt_map m_raw (fm_get [113] args) = Some [[[120]; [121]] ++ [w_cd; w_ef]]
  | _ => False
  end.
Proof. vm_compute. reflexivity. Qed.
