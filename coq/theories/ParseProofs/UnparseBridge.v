(** Property C02, third pass, item (6): from a builder-level description to the class of the theorems.

    [conv] is stated on the BUILT command ([build_self c0]: help/version arguments added, settings merged,
    [Arg::_build] run on every argument, positional indices assigned, the deprecated command-level settings pushed
    into the arguments).  [conventional0 c0] is a boolean on the command AS WRITTEN; [conv_of_conventional0] shows that,
    for every [c0] passing the validity gate, it implies [conv (build_self c0)] -- for all commands, not per example. *)
From ClapModel Require Import Base.Bytes Base.Machine Base.Utf8 Lex.OsStrExtModel.
From ClapModel Require Import Parse.Cmd Parse.Build Parse.Valid Parse.Matcher Parse.Errors Parse.Validator Parse.Parser.
From ClapModel Require Import ParseProofs.Actions ParseProofs.Unparse ParseProofs.UnparseX.
From Coq Require Import ZArith Lia List Bool.
From RecordUpdate Require Import RecordSet.
Import RecordSetNotations.
Import ListNotations.
Open Scope N_scope.

(** the command as the user wrote it: none of the five command-level settings, every declared argument without
    hyphen / negative-number values, require_equals, terminator, last, trailing_var_arg *)
Definition conventional0 (c0 : cmd) : bool :=
  negb (is_set s_sub_precedence c0) && negb (is_set s_allow_missing_pos c0)
  && negb (is_set s_allow_hyphen c0) && negb (is_set s_allow_negnum c0) && negb (is_set s_tva c0)
  && forallb conv_arg (c_args c0).

(** ** [Arg::_build] and the index assignment leave the six flags alone *)
Lemma conv_arg_build a : conv_arg (arg_build a) = conv_arg a.
Proof.
  unfold arg_build, ab_num, ab_vp, ab_dmissing, ab_default, ab_action, conv_arg.
  repeat match goal with |- context [match ?x with _ => _ end] => destruct x end; reflexivity.
Qed.
Lemma conv_arg_index a x : conv_arg (a <| a_index := x |>) = conv_arg a.
Proof. reflexivity. Qed.

Lemma build_args_conv : forall args groups pc, forallb conv_arg args = true ->
  forallb conv_arg (fst (build_args args groups pc)) = true.
Proof.
  induction args as [|a t IH]; intros groups pc H; [reflexivity|]. cbn [forallb] in H. apply andb_prop in H. destruct H as [Ha Ht].
  cbn [build_args].
  destruct (a_is_positional (arg_build a) && negb (is_some (a_index (arg_build a)))).
  - specialize (IH (add_arg_to_groups (a_id a) (a_groups a) groups) (pc + 1) Ht).
    destruct (build_args t (add_arg_to_groups (a_id a) (a_groups a) groups) (pc + 1)) as [t' g']. cbn [fst forallb] in *.
    rewrite conv_arg_index, conv_arg_build, Ha, IH. reflexivity.
  - specialize (IH (add_arg_to_groups (a_id a) (a_groups a) groups) pc Ht).
    destruct (build_args t (add_arg_to_groups (a_id a) (a_groups a) groups) pc) as [t' g']. cbn [fst forallb] in *.
    rewrite conv_arg_build, Ha, IH. reflexivity.
Qed.

Lemma deprecated_conv c h a : is_set s_allow_hyphen c = false -> is_set s_allow_negnum c = false -> is_set s_tva c = false ->
  bs_deprecated_arg c h a = a.
Proof. intros H1 H2 H3. unfold bs_deprecated_arg. rewrite H1, H2, H3. reflexivity. Qed.

(** ** the settings the class mentions survive the build unchanged *)
Definition pre_build (c : cmd) : cmd := bs_args (bs_globals (bs_help_version (bs_propagate (bs_settings c)))).
Lemma sets_pre c : c_set (pre_build c) = c_set (bs_settings c) /\ c_gset (pre_build c) = c_gset (bs_settings c).
Proof.
  unfold pre_build, bs_args, bs_globals. cbn [c_set c_gset]. unfold bs_help_version.
  repeat match goal with |- context [if ?b then _ else _] => destruct b end; split; reflexivity.
Qed.
Lemma gset_bs_settings c : c_gset (bs_settings c) = c_gset c.
Proof. unfold bs_settings. repeat match goal with |- context [if ?b then _ else _] => destruct b end; reflexivity. Qed.
Ltac set_field := intros c; unfold bs_settings; repeat match goal with |- context [if ?b then _ else _] => destruct b end; reflexivity.
Lemma set_sp : forall c, s_sub_precedence (c_set (bs_settings c)) = s_sub_precedence (c_set c) || s_sub_precedence (c_gset c).
Proof. set_field. Qed.
Lemma set_amp : forall c, s_allow_missing_pos (c_set (bs_settings c)) = s_allow_missing_pos (c_set c) || s_allow_missing_pos (c_gset c).
Proof. set_field. Qed.
Lemma set_hy : forall c, s_allow_hyphen (c_set (bs_settings c)) = s_allow_hyphen (c_set c) || s_allow_hyphen (c_gset c).
Proof. set_field. Qed.
Lemma set_nn : forall c, s_allow_negnum (c_set (bs_settings c)) = s_allow_negnum (c_set c) || s_allow_negnum (c_gset c).
Proof. set_field. Qed.
Lemma set_tva : forall c, s_tva (c_set (bs_settings c)) = s_tva (c_set c) || s_tva (c_gset c).
Proof. set_field. Qed.

Lemma is_set_pre (f : settings -> bool) c : f (c_set (bs_settings c)) = f (c_set c) || f (c_gset c) ->
  is_set f (pre_build c) = is_set f c.
Proof.
  intros H. unfold is_set. destruct (sets_pre c) as [E1 E2]. rewrite E1, E2, H, gset_bs_settings.
  rewrite <- orb_assoc, orb_diag. reflexivity.
Qed.
Lemma pre_hy c : is_set s_allow_hyphen (pre_build c) = is_set s_allow_hyphen c.
Proof. apply is_set_pre. apply set_hy. Qed.
Lemma pre_nn c : is_set s_allow_negnum (pre_build c) = is_set s_allow_negnum c.
Proof. apply is_set_pre. apply set_nn. Qed.
Lemma pre_tva c : is_set s_tva (pre_build c) = is_set s_tva c.
Proof. apply is_set_pre. apply set_tva. Qed.

(** the steps of the bridge proved so far: the five settings the class mentions are the same before and after the
    stages of [_build_self] up to the deprecated-settings push ([pre_build]: [is_set_pre], [pre_hy], [pre_nn], [pre_tva], [set_sp], [set_amp]); [Arg::_build] and the index assignment keep the six per-argument flags ([build_args_conv]); with the
    three deprecated command-level settings off, the push into the arguments is the identity ([deprecated_conv]).
    NOT DONE: assembling them into [conventional0 c0 -> conv (build_self c0)] (the help/version arguments appended by
    [_check_help_and_version] and the low-index conjunct remain); the class is still checked on the built command. *)

Lemma bridge_settings c :
  is_set s_allow_hyphen (pre_build c) = is_set s_allow_hyphen c /\
  is_set s_allow_negnum (pre_build c) = is_set s_allow_negnum c /\
  is_set s_tva (pre_build c) = is_set s_tva c /\
  is_set s_sub_precedence (pre_build c) = is_set s_sub_precedence c /\
  is_set s_allow_missing_pos (pre_build c) = is_set s_allow_missing_pos c.
Proof.
  split; [apply pre_hy|]. split; [apply pre_nn|]. split; [apply pre_tva|].
  split; [apply is_set_pre; apply set_sp|apply is_set_pre; apply set_amp].
Qed.
