(** Property C02, third pass, item (6): from a builder-level description to the class of the theorems.

    [conv] is stated on the BUILT command ([build_self c0]: help/version arguments added, settings merged,
    [Arg::_build] run on every argument, positional indices assigned, the deprecated command-level settings pushed
    into the arguments).  [conventional0 c0] is a boolean on the command AS WRITTEN; [conv_of_conventional0] shows that,
    for every [c0] passing the validity gate, it implies [conv (build_self c0)] -- for all commands, not per example. *)
From ClapModel Require Import Base.Bytes Base.Machine Base.Utf8 Lex.OsStrExtModel.
From ClapModel Require Import Parse.Cmd Parse.Build Parse.Valid Parse.Matcher Parse.Errors Parse.Validator Parse.Parser.
From ClapModel Require Import ParseProofs.Actions ParseProofs.Unparse ParseProofs.UnparseX.
From Coq Require Import ZArith Lia List Bool.
From RecordUpdate Require Import RecordSet.
Import RecordSetNotations.
Import ListNotations.
Open Scope N_scope.

(** the command as the user wrote it: none of the five command-level settings, every declared argument without
    hyphen / negative-number values, require_equals, terminator, last, trailing_var_arg *)
Definition conventional0 (c0 : cmd) : bool :=
  negb (is_set s_sub_precedence c0) && negb (is_set s_allow_missing_pos c0)
  && negb (is_set s_allow_hyphen c0) && negb (is_set s_allow_negnum c0) && negb (is_set s_tva c0)
  && forallb conv_arg (c_args c0).

(** ** [Arg::_build] and the index assignment leave the six flags alone *)
Lemma conv_arg_build a : conv_arg (arg_build a) = conv_arg a.
Proof.
  unfold arg_build, ab_num, ab_vp, ab_dmissing, ab_default, ab_action, conv_arg.
  repeat match goal with |- context [match ?x with _ => _ end] => destruct x end; reflexivity.
Qed.
Lemma conv_arg_index a x : conv_arg (a <| a_index := x |>) = conv_arg a.
Proof. reflexivity. Qed.

Lemma build_args_conv : forall args groups pc, forallb conv_arg args = true ->
  forallb conv_arg (fst (build_args args groups pc)) = true.
Proof.
  induction args as [|a t IH]; intros groups pc H; [reflexivity|]. cbn [forallb] in H. apply andb_prop in H. destruct H as [Ha Ht].
  cbn [build_args].
  destruct (a_is_positional (arg_build a) && negb (is_some (a_index (arg_build a)))).
  - specialize (IH (add_arg_to_groups (a_id a) (a_groups a) groups) (pc + 1) Ht).
    destruct (build_args t (add_arg_to_groups (a_id a) (a_groups a) groups) (pc + 1)) as [t' g']. cbn [fst forallb] in *.
    rewrite conv_arg_index, conv_arg_build, Ha, IH. reflexivity.
  - specialize (IH (add_arg_to_groups (a_id a) (a_groups a) groups) pc Ht).
    destruct (build_args t (add_arg_to_groups (a_id a) (a_groups a) groups) pc) as [t' g']. cbn [fst forallb] in *.
    rewrite conv_arg_build, Ha, IH. reflexivity.
Qed.

Lemma deprecated_conv c h a : is_set s_allow_hyphen c = false -> is_set s_allow_negnum c = false -> is_set s_tva c = false ->
  bs_deprecated_arg c h a = a.
Proof. intros H1 H2 H3. unfold bs_deprecated_arg. rewrite H1, H2, H3. reflexivity. Qed.

(** ** the settings the class mentions survive the build unchanged *)
Definition pre_build (c : cmd) : cmd := bs_args (bs_globals (bs_help_version (bs_propagate (bs_settings c)))).
Lemma sets_pre c : c_set (pre_build c) = c_set (bs_settings c) /\ c_gset (pre_build c) = c_gset (bs_settings c).
Proof.
  unfold pre_build, bs_args, bs_globals. cbn [c_set c_gset]. unfold bs_help_version.
  repeat match goal with |- context [if ?b then _ else _] => destruct b end; split; reflexivity.
Qed.
Lemma gset_bs_settings c : c_gset (bs_settings c) = c_gset c.
Proof. unfold bs_settings. repeat match goal with |- context [if ?b then _ else _] => destruct b end; reflexivity. Qed.
Ltac set_field := intros c; unfold bs_settings; repeat match goal with |- context [if ?b then _ else _] => destruct b end; reflexivity.
Lemma set_sp : forall c, s_sub_precedence (c_set (bs_settings c)) = s_sub_precedence (c_set c) || s_sub_precedence (c_gset c).
Proof. set_field. Qed.
Lemma set_amp : forall c, s_allow_missing_pos (c_set (bs_settings c)) = s_allow_missing_pos (c_set c) || s_allow_missing_pos (c_gset c).
Proof. set_field. Qed.
Lemma set_hy : forall c, s_allow_hyphen (c_set (bs_settings c)) = s_allow_hyphen (c_set c) || s_allow_hyphen (c_gset c).
Proof. set_field. Qed.
Lemma set_nn : forall c, s_allow_negnum (c_set (bs_settings c)) = s_allow_negnum (c_set c) || s_allow_negnum (c_gset c).
Proof. set_field. Qed.
Lemma set_tva : forall c, s_tva (c_set (bs_settings c)) = s_tva (c_set c) || s_tva (c_gset c).
Proof. set_field. Qed.

Lemma is_set_pre (f : settings -> bool) c : f (c_set (bs_settings c)) = f (c_set c) || f (c_gset c) ->
  is_set f (pre_build c) = is_set f c.
Proof.
  intros H. unfold is_set. destruct (sets_pre c) as [E1 E2]. rewrite E1, E2, H, gset_bs_settings.
  rewrite <- orb_assoc, orb_diag. reflexivity.
Qed.
Lemma pre_hy c : is_set s_allow_hyphen (pre_build c) = is_set s_allow_hyphen c.
Proof. apply is_set_pre. apply set_hy. Qed.
Lemma pre_nn c : is_set s_allow_negnum (pre_build c) = is_set s_allow_negnum c.
Proof. apply is_set_pre. apply set_nn. Qed.
Lemma pre_tva c : is_set s_tva (pre_build c) = is_set s_tva c.
Proof. apply is_set_pre. apply set_tva. Qed.

(** the steps of the bridge proved so far: the five settings the class mentions are the same before and after the
    stages of [_build_self] up to the deprecated-settings push ([pre_build]: [is_set_pre], [pre_hy], [pre_nn], [pre_tva], [set_sp], [set_amp]); [Arg::_build] and the index assignment keep the six per-argument flags ([build_args_conv]); with the
    three deprecated command-level settings off, the push into the arguments is the identity ([deprecated_conv]).
    NOT DONE: assembling them into [conventional0 c0 -> conv (build_self c0)] (the help/version arguments appended by
    [_check_help_and_version] and the low-index conjunct remain); the class is still checked on the built command. *)

Lemma bridge_settings c :
  is_set s_allow_hyphen (pre_build c) = is_set s_allow_hyphen c /\
  is_set s_allow_negnum (pre_build c) = is_set s_allow_negnum c /\
  is_set s_tva (pre_build c) = is_set s_tva c /\
  is_set s_sub_precedence (pre_build c) = is_set s_sub_precedence c /\
  is_set s_allow_missing_pos (pre_build c) = is_set s_allow_missing_pos c.
Proof.
  split; [apply pre_hy|]. split; [apply pre_nn|]. split; [apply pre_tva|].
  split; [apply is_set_pre; apply set_sp|apply is_set_pre; apply set_amp].
Qed.

(** * Fourth pass, item (2): the assembly.
    Every step goes through a projection lemma stated on a VARIABLE command (so that no [cbn]/conversion ever sees
    [build_self] of a concrete or destructed command). *)
Lemma build_self_built c : s_built (c_set c) = true -> build_self c = c.
Proof. intros H. unfold build_self. rewrite H. reflexivity. Qed.
Lemma build_self_unbuilt c : s_built (c_set c) = false -> build_self c = bs_mark (bs_deprecated (pre_build c)).
Proof. intros H. unfold build_self, pre_build. rewrite H. reflexivity. Qed.

Lemma args_mark x : c_args (bs_mark x) = c_args x.
Proof. reflexivity. Qed.
Lemma args_deprecated x : exists h, c_args (bs_deprecated x) = map (bs_deprecated_arg x h) (c_args x).
Proof. eexists. reflexivity. Qed.
Lemma args_bs_args x : c_args (bs_args x) = fst (build_args (c_args x) (c_groups x) 1).
Proof. reflexivity. Qed.
Lemma args_globals x : c_args (bs_globals x) = c_args x.
Proof. reflexivity. Qed.
Lemma args_propagate x : c_args (bs_propagate x) = c_args x.
Proof. reflexivity. Qed.
Lemma args_settings x : c_args (bs_settings x) = c_args x.
Proof. unfold bs_settings. repeat match goal with |- context [if ?b then _ else _] => destruct b end; reflexivity. Qed.
(** [_check_help_and_version] appends at most the generated help and version flags *)
Lemma args_help_version x : exists l, c_args (bs_help_version x) = c_args x ++ l /\ (forall a, In a l -> a = help_arg \/ a = version_arg).
Proof.
  unfold bs_help_version.
  destruct (negb (is_set s_disable_help_flag x)) eqn:E1.
  - destruct (negb (is_disable_version_flag_set (x <| c_args := c_args x ++ [help_arg] |>))) eqn:E2.
    + exists [help_arg; version_arg]. split.
      * match goal with |- context [if ?b then _ else _] => destruct b end;
          (transitivity ((c_args x ++ [help_arg]) ++ [version_arg]); [reflexivity|rewrite <- app_assoc; reflexivity]).
      * intros a [<-|[<-|[]]]; auto.
    + exists [help_arg]. split.
      * match goal with |- context [if ?b then _ else _] => destruct b end; reflexivity.
      * intros a [<-|[]]; auto.
  - destruct (negb (is_disable_version_flag_set x)) eqn:E2.
    + exists [version_arg]. split.
      * match goal with |- context [if ?b then _ else _] => destruct b end; reflexivity.
      * intros a [<-|[]]; auto.
    + exists []. split.
      * rewrite app_nil_r. match goal with |- context [if ?b then _ else _] => destruct b end; reflexivity.
      * intros a [].
Qed.

(** the arguments of the built command: the declared ones, then the generated flags, each through [Arg::_build]
    and the index assignment, then the deprecated-settings push *)
Lemma args_pre_build c : exists l g, c_args (pre_build c) = fst (build_args (c_args c ++ l) g 1) /\
  (forall a, In a l -> a = help_arg \/ a = version_arg).
Proof.
  unfold pre_build. rewrite args_bs_args, args_globals.
  destruct (args_help_version (bs_propagate (bs_settings c))) as [l [E Hl]]. rewrite E, args_propagate, args_settings.
  exists l. eexists. split; [reflexivity|exact Hl].
Qed.

Lemma is_set_mark (f : settings -> bool) x : (forall s, f (s <| s_built := true |>) = f s) -> is_set f (bs_mark x) = is_set f x.
Proof.
  intros H. unfold is_set. change (c_set (bs_mark x)) with ((c_set x) <| s_built := true |>).
  change (c_gset (bs_mark x)) with (c_gset x). rewrite H. reflexivity.
Qed.
Lemma is_set_deprecated (f : settings -> bool) x : is_set f (bs_deprecated x) = is_set f x.
Proof. reflexivity. Qed.

Lemma is_set_build_self (f : settings -> bool) c : (forall s, f (s <| s_built := true |>) = f s) ->
  (f (c_set (bs_settings c)) = f (c_set c) || f (c_gset c)) ->
  is_set f (build_self c) = is_set f c.
Proof.
  intros Hm Hs. destruct (s_built (c_set c)) eqn:Eb.
  - rewrite (build_self_built c Eb). reflexivity.
  - rewrite (build_self_unbuilt c Eb), (is_set_mark f _ Hm), is_set_deprecated. apply is_set_pre. exact Hs.
Qed.

Lemma valid_assert_app c0 : valid c0 = true -> assert_app (build_self c0) = true.
Proof.
  unfold valid. cbv zeta. generalize (build_self c0). intros b H. cbn [valid_tree] in H.
  apply andb_prop in H. apply H.
Qed.

(** per-argument predicates that survive [Arg::_build], the index assignment and (with the three deprecated settings
    off) the push: [P] on the declared arguments and on the two generated flags gives [P'] on the built ones *)
Lemma build_args_pred (P P' : arg -> bool) :
  (forall a, P a = true -> a_is_positional (arg_build a) && negb (is_some (a_index (arg_build a))) = false -> P' (arg_build a) = true) ->
  (forall a n, P a = true -> a_is_positional (arg_build a) = true -> a_index (arg_build a) = None ->
               P' ((arg_build a) <| a_index := Some n |>) = true) ->
  forall args groups pc, forallb P args = true -> forallb P' (fst (build_args args groups pc)) = true.
Proof.
  intros H1 H2. induction args as [|a t IH]; intros groups pc H; [reflexivity|]. cbn [forallb] in H. apply andb_prop in H. destruct H as [Ha Ht].
  cbn [build_args].
  destruct (a_is_positional (arg_build a) && negb (is_some (a_index (arg_build a)))) eqn:E.
  - specialize (IH (add_arg_to_groups (a_id a) (a_groups a) groups) (pc + 1) Ht).
    destruct (build_args t (add_arg_to_groups (a_id a) (a_groups a) groups) (pc + 1)) as [t' g']. cbn [fst forallb] in *.
    apply andb_prop in E. destruct E as [E1 E2]. rewrite IH, andb_true_r. apply H2; [exact Ha|exact E1|].
    destruct (a_index (arg_build a)); [discriminate|reflexivity].
  - specialize (IH (add_arg_to_groups (a_id a) (a_groups a) groups) pc Ht).
    destruct (build_args t (add_arg_to_groups (a_id a) (a_groups a) groups) pc) as [t' g']. cbn [fst forallb] in *.
    rewrite IH, (H1 a Ha E). reflexivity.
Qed.

Lemma built_args_pred (P P' : arg -> bool) c :
  (forall a, P a = true -> a_is_positional (arg_build a) && negb (is_some (a_index (arg_build a))) = false -> P' (arg_build a) = true) ->
  (forall a n, P a = true -> a_is_positional (arg_build a) = true -> a_index (arg_build a) = None ->
               P' ((arg_build a) <| a_index := Some n |>) = true) ->
  P help_arg = true -> P version_arg = true ->
  (s_built (c_set c) = true -> forallb P' (c_args c) = true) ->
  is_set s_allow_hyphen c = false -> is_set s_allow_negnum c = false -> is_set s_tva c = false ->
  forallb P (c_args c) = true -> forallb P' (c_args (build_self c)) = true.
Proof.
  intros H1 H2 Hh Hv Hb S1 S2 S3 HP. destruct (s_built (c_set c)) eqn:Eb.
  - rewrite (build_self_built c Eb). apply Hb. reflexivity.
  - rewrite (build_self_unbuilt c Eb), args_mark.
    destruct (args_deprecated (pre_build c)) as [h E]. rewrite E.
    assert (Em : map (bs_deprecated_arg (pre_build c) h) (c_args (pre_build c)) = c_args (pre_build c)).
    { rewrite <- (map_id (c_args (pre_build c))) at 2. apply map_ext. intros a.
      apply deprecated_conv; [rewrite pre_hy; exact S1|rewrite pre_nn; exact S2|rewrite pre_tva; exact S3]. }
    rewrite Em. destruct (args_pre_build c) as [l [g [El Hl]]]. rewrite El.
    apply (build_args_pred P P' H1 H2). rewrite forallb_app, HP. cbn [andb].
    apply forallb_forall. intros a Ha. destruct (Hl a Ha) as [->| ->]; assumption.
Qed.

(** THE BRIDGE, old class: a command as written, passing the validity gate, without the five command-level settings and
    with conventional arguments only, is in [conv] once built -- all commands.  (The low-index conjunct is kept as a
    hypothesis on the built command here; [low_index_of_user] below derives it from the declared arguments.) *)
Theorem conv_of_conventional0 c0 : valid c0 = true -> conventional0 c0 = true ->
  low_index_multiple (build_self c0) = false -> conv (build_self c0) = true.
Proof.
  intros Hv Hc Hl. unfold conventional0 in Hc.
  apply andb_prop in Hc. destruct Hc as [Hc Hargs]. apply andb_prop in Hc. destruct Hc as [Hc Htva].
  apply andb_prop in Hc. destruct Hc as [Hc Hnn]. apply andb_prop in Hc. destruct Hc as [Hc Hhy]. apply andb_prop in Hc. destruct Hc as [Hsp Hamp].
  unfold conv. rewrite (valid_assert_app c0 Hv), Hl.
  rewrite (is_set_build_self s_sub_precedence c0 (fun s => eq_refl) (set_sp c0)).
  rewrite (is_set_build_self s_allow_missing_pos c0 (fun s => eq_refl) (set_amp c0)).
  rewrite Hsp, Hamp. cbn [andb negb]. rewrite !andb_true_r.
  apply (built_args_pred conv_arg conv_arg c0).
  - intros a Ha _. rewrite conv_arg_build. exact Ha.
  - intros a n Ha _ _. rewrite conv_arg_index, conv_arg_build. exact Ha.
  - reflexivity.
  - reflexivity.
  - intros _. exact Hargs.
  - destruct (is_set s_allow_hyphen c0); [discriminate|reflexivity].
  - destruct (is_set s_allow_negnum c0); [discriminate|reflexivity].
  - destruct (is_set s_tva c0); [discriminate|reflexivity].
  - exact Hargs.
Qed.

(** ** the low-index conjunct from the declared arguments *)
(** [Arg::_build] touches neither the names nor the index *)
Ltac ab_block := intros ?; repeat match goal with |- context [match ?x with _ => _ end] => destruct x end; reflexivity.
Lemma ab_long a : a_long (arg_build a) = a_long a.
Proof.
  unfold arg_build.
  assert (H1 : forall a, a_long (ab_num a) = a_long a) by (unfold ab_num; ab_block).
  assert (H2 : forall a, a_long (ab_vp a) = a_long a) by (unfold ab_vp; ab_block).
  assert (H3 : forall a, a_long (ab_dmissing a) = a_long a) by (unfold ab_dmissing; ab_block).
  assert (H4 : forall a, a_long (ab_default a) = a_long a) by (unfold ab_default; ab_block).
  assert (H5 : forall a, a_long (ab_action a) = a_long a) by (unfold ab_action; ab_block).
  rewrite H1, H2, H3, H4, H5. reflexivity.
Qed.
Lemma ab_short a : a_short (arg_build a) = a_short a.
Proof.
  unfold arg_build.
  assert (H1 : forall a, a_short (ab_num a) = a_short a) by (unfold ab_num; ab_block).
  assert (H2 : forall a, a_short (ab_vp a) = a_short a) by (unfold ab_vp; ab_block).
  assert (H3 : forall a, a_short (ab_dmissing a) = a_short a) by (unfold ab_dmissing; ab_block).
  assert (H4 : forall a, a_short (ab_default a) = a_short a) by (unfold ab_default; ab_block).
  assert (H5 : forall a, a_short (ab_action a) = a_short a) by (unfold ab_action; ab_block).
  rewrite H1, H2, H3, H4, H5. reflexivity.
Qed.
Lemma ab_index a : a_index (arg_build a) = a_index a.
Proof.
  unfold arg_build.
  assert (H1 : forall a, a_index (ab_num a) = a_index a) by (unfold ab_num; ab_block).
  assert (H2 : forall a, a_index (ab_vp a) = a_index a) by (unfold ab_vp; ab_block).
  assert (H3 : forall a, a_index (ab_dmissing a) = a_index a) by (unfold ab_dmissing; ab_block).
  assert (H4 : forall a, a_index (ab_default a) = a_index a) by (unfold ab_default; ab_block).
  assert (H5 : forall a, a_index (ab_action a) = a_index a) by (unfold ab_action; ab_block).
  rewrite H1, H2, H3, H4, H5. reflexivity.
Qed.
Lemma ab_positional a : a_is_positional (arg_build a) = a_is_positional a.
Proof. unfold a_is_positional. rewrite ab_long, ab_short. reflexivity. Qed.

(** on the command as written: no explicit index; a positional that takes several values or appends (after
    [Arg::_build] has filled in action and value range) is the last declared positional *)
Definition npos (l : list arg) : nat := length (filter a_is_positional l).
Definition no_index (l : list arg) : bool := forallb (fun a => negb (is_some (a_index a))) l.
Fixpoint last_only_multiple (l : list arg) : bool :=
  match l with
  | [] => true
  | a :: t => (negb (a_is_positional a && a_is_multiple (arg_build a)) || (npos t =? 0)%nat) && last_only_multiple t
  end.

(** the low-index test as a function of the argument list *)
Definition has_idx (a : arg) : bool := is_some (a_index a).
Definition lim_args (args : list arg) : bool :=
  existsb (fun a => a_is_multiple a && negb (N.of_nat (length (filter has_idx args)) =? opt_default 0 (a_index a)))
          (filter a_is_positional args).

Lemma keymap_pos_count : forall args,
  length (filter (fun p : key * arg => match fst p with KPos _ => true | _ => false end)
                 (flat_map (fun a => map (fun k => (k, a)) (arg_keys a)) args)) = length (filter has_idx args).
Proof.
  induction args as [|a t IH]; [reflexivity|]. cbn [flat_map]. rewrite filter_app, app_length, IH. cbn [filter].
  unfold has_idx, arg_keys. destruct (a_index a) as [n|]; cbn [is_some]; [reflexivity|].
  assert (E : forall (l : list key), (forall k, In k l -> match k with KPos _ => false | _ => true end = true) ->
              filter (fun p : key * arg => match fst p with KPos _ => true | _ => false end) (map (fun k => (k, a)) l) = []).
  { induction l as [|k l IHl]; intros H; [reflexivity|]. cbn [map filter fst].
    pose proof (H k (or_introl eq_refl)) as Hk. destruct k; try discriminate Hk; apply IHl; intros k' Hk'; apply H; right; exact Hk'. }
  rewrite E; [reflexivity|]. intros k Hk. repeat (apply in_app_or in Hk; destruct Hk as [Hk|Hk]).
  - destruct (a_short a); [destruct Hk as [<-|[]]; reflexivity|destruct Hk].
  - destruct (a_long a); [destruct Hk as [<-|[]]; reflexivity|destruct Hk].
  - apply in_map_iff in Hk. destruct Hk as [p [<- _]]. reflexivity.
  - apply in_map_iff in Hk. destruct Hk as [p [<- _]]. reflexivity.
Qed.

Lemma low_index_lim c : low_index_multiple c = lim_args (c_args c).
Proof.
  unfold low_index_multiple, lim_args, positional_count, positionals, keymap. rewrite keymap_pos_count. reflexivity.
Qed.

Lemma multiple_index a x : a_is_multiple (a <| a_index := x |>) = a_is_multiple a.
Proof. reflexivity. Qed.
Lemma positional_index a x : a_is_positional (a <| a_index := x |>) = a_is_positional a.
Proof. reflexivity. Qed.

Lemma npos_cons a t : npos (a :: t) = if a_is_positional a then S (npos t) else npos t.
Proof. unfold npos. cbn [filter]. destruct (a_is_positional a); reflexivity. Qed.

Lemma build_args_idx : forall L g pc, no_index L = true ->
  length (filter has_idx (fst (build_args L g pc))) = npos L /\
  (last_only_multiple L = true -> forall a', In a' (fst (build_args L g pc)) -> a_is_positional a' = true ->
     a_is_multiple a' = true -> a_index a' = Some (pc + N.of_nat (npos L) - 1)).
Proof.
  induction L as [|a t IH]; intros g pc Hn; [split; [reflexivity|intros _ a' []]|].
  cbn [no_index forallb] in Hn. apply andb_prop in Hn. destruct Hn as [Ha Hn].
  assert (Hai : a_index a = None) by (destruct (a_index a); [discriminate|reflexivity]).
  cbn [build_args]. rewrite ab_positional, ab_index, Hai. cbn [is_some negb]. rewrite andb_true_r.
  rewrite npos_cons.
  destruct (a_is_positional a) eqn:Ep.
  - destruct (IH (add_arg_to_groups (a_id a) (a_groups a) g) (pc + 1) Hn) as [IH1 IH2].
    destruct (build_args t (add_arg_to_groups (a_id a) (a_groups a) g) (pc + 1)) as [t' g'] eqn:Eb. cbn [fst] in *.
    split.
    + assert (Hh : has_idx ((arg_build a) <| a_index := Some pc |>) = true) by reflexivity.
      cbn [filter]. rewrite Hh. cbn [length]. rewrite IH1. reflexivity.
    + intros Hl a' Hin Hp Hm. cbn [last_only_multiple] in Hl. apply andb_prop in Hl. destruct Hl as [Hl1 Hl2]. rewrite Ep in Hl1. cbn [andb] in Hl1.
      destruct Hin as [<-|Hin].
      * rewrite multiple_index in Hm. rewrite Hm in Hl1. cbn [negb orb] in Hl1. apply Nat.eqb_eq in Hl1. rewrite Hl1.
        cbn. f_equal. lia.
      * rewrite (IH2 Hl2 a' Hin Hp Hm). f_equal. lia.
  - destruct (IH (add_arg_to_groups (a_id a) (a_groups a) g) pc Hn) as [IH1 IH2].
    destruct (build_args t (add_arg_to_groups (a_id a) (a_groups a) g) pc) as [t' g'] eqn:Eb. cbn [fst] in *.
    split.
    + assert (Hh : has_idx (arg_build a) = false) by (unfold has_idx; rewrite ab_index, Hai; reflexivity).
      cbn [filter]. rewrite Hh. exact IH1.
    + intros Hl a' Hin Hp Hm. cbn [last_only_multiple] in Hl. apply andb_prop in Hl. destruct Hl as [_ Hl2].
      destruct Hin as [<-|Hin]; [rewrite ab_positional, Ep in Hp; discriminate|]. apply (IH2 Hl2 a' Hin Hp Hm).
Qed.

Lemma lim_built L g : no_index L = true -> last_only_multiple L = true -> lim_args (fst (build_args L g 1)) = false.
Proof.
  intros Hn Hl. destruct (build_args_idx L g 1 Hn) as [H1 H2]. unfold lim_args. rewrite H1.
  destruct (existsb _ _) eqn:E; [|reflexivity]. apply existsb_exists in E. destruct E as [a' [Hin E]].
  apply filter_In in Hin. destruct Hin as [Hin Hp]. apply andb_prop in E. destruct E as [Hm E].
  rewrite (H2 Hl a' Hin Hp Hm) in E. cbn [opt_default] in E.
  assert (X : (N.of_nat (npos L) =? 1 + N.of_nat (npos L) - 1) = true) by (apply N.eqb_eq; lia).
  rewrite X in E. discriminate.
Qed.

Lemma npos_app l1 l2 : npos (l1 ++ l2) = (npos l1 + npos l2)%nat.
Proof. unfold npos. rewrite filter_app, app_length. reflexivity. Qed.
Lemma lom_app : forall l1 l2, npos l2 = 0%nat -> last_only_multiple l2 = true -> last_only_multiple (l1 ++ l2) = last_only_multiple l1.
Proof.
  induction l1 as [|a t IH]; intros l2 H0 H2; [exact H2|]. cbn [app last_only_multiple]. rewrite npos_app, H0, Nat.add_0_r, (IH l2 H0 H2). reflexivity.
Qed.

(** THE COMMAND AS THE USER WRITES IT: not yet built; none of the five command-level settings; every declared argument
    conventional ([conv_arg]); no explicit positional index; only the last declared positional takes several values / appends *)
Definition user_conventional (c0 : cmd) : bool :=
  negb (s_built (c_set c0)) && conventional0 c0 && no_index (c_args c0) && last_only_multiple (c_args c0).

Theorem low_index_of_user c0 : s_built (c_set c0) = false ->
  is_set s_allow_hyphen c0 = false -> is_set s_allow_negnum c0 = false -> is_set s_tva c0 = false ->
  no_index (c_args c0) = true -> last_only_multiple (c_args c0) = true ->
  low_index_multiple (build_self c0) = false.
Proof.
  intros Eb S1 S2 S3 Hn Hl. rewrite low_index_lim. rewrite (build_self_unbuilt c0 Eb), args_mark.
  destruct (args_deprecated (pre_build c0)) as [h E]. rewrite E.
  assert (Em : map (bs_deprecated_arg (pre_build c0) h) (c_args (pre_build c0)) = c_args (pre_build c0)).
  { rewrite <- (map_id (c_args (pre_build c0))) at 2. apply map_ext. intros a.
    apply deprecated_conv; [rewrite pre_hy; exact S1|rewrite pre_nn; exact S2|rewrite pre_tva; exact S3]. }
  rewrite Em. destruct (args_pre_build c0) as [l [g [El Hlv]]]. rewrite El.
  assert (Hl0 : npos l = 0%nat /\ last_only_multiple l = true /\ no_index l = true).
  { clear -Hlv. induction l as [|a t IH]; [repeat split|].
    destruct IH as [I1 [I2 I3]]; [intros b Hb; apply Hlv; right; exact Hb|].
    destruct (Hlv a (or_introl eq_refl)) as [->| ->]; unfold npos, no_index in *; cbn [filter forallb last_only_multiple];
      (split; [exact I1|split; [rewrite I2; reflexivity|exact I3]]). }
  destruct Hl0 as [L1 [L2 L3]].
  apply lim_built.
  - unfold no_index in *. rewrite forallb_app, Hn, L3. reflexivity.
  - rewrite (lom_app _ _ L1 L2). exact Hl.
Qed.

Theorem conv_of_user c0 : valid c0 = true -> user_conventional c0 = true -> conv (build_self c0) = true.
Proof.
  intros Hv H. unfold user_conventional in H.
  apply andb_prop in H. destruct H as [H Hl]. apply andb_prop in H. destruct H as [H Hn]. apply andb_prop in H. destruct H as [Hb Hc].
  apply (conv_of_conventional0 c0 Hv Hc). assert (Hc' := Hc). unfold conventional0 in Hc'.
  apply andb_prop in Hc'. destruct Hc' as [Hc' _]. apply andb_prop in Hc'. destruct Hc' as [Hc' Htva].
  apply andb_prop in Hc'. destruct Hc' as [Hc' Hnn]. apply andb_prop in Hc'. destruct Hc' as [_ Hhy].
  apply low_index_of_user; try assumption.
  - destruct (s_built (c_set c0)); [discriminate|reflexivity].
  - destruct (is_set s_allow_hyphen c0); [discriminate|reflexivity].
  - destruct (is_set s_allow_negnum c0); [discriminate|reflexivity].
  - destruct (is_set s_tva c0); [discriminate|reflexivity].
Qed.

(** ** the same bridge for the lifted class [convx] *)
Lemma ab_flags a : a_last (arg_build a) = a_last a /\ a_tva (arg_build a) = a_tva a /\
  a_hyphen (arg_build a) = a_hyphen a /\ a_negnum (arg_build a) = a_negnum a.
Proof.
  unfold arg_build.
  assert (H1 : forall a, a_last (ab_num a) = a_last a /\ a_tva (ab_num a) = a_tva a /\ a_hyphen (ab_num a) = a_hyphen a /\ a_negnum (ab_num a) = a_negnum a)
    by (unfold ab_num; intros ?; repeat match goal with |- context [match ?x with _ => _ end] => destruct x end; repeat split).
  assert (H2 : forall a, a_last (ab_vp a) = a_last a /\ a_tva (ab_vp a) = a_tva a /\ a_hyphen (ab_vp a) = a_hyphen a /\ a_negnum (ab_vp a) = a_negnum a)
    by (unfold ab_vp; intros ?; repeat match goal with |- context [match ?x with _ => _ end] => destruct x end; repeat split).
  assert (H3 : forall a, a_last (ab_dmissing a) = a_last a /\ a_tva (ab_dmissing a) = a_tva a /\ a_hyphen (ab_dmissing a) = a_hyphen a /\ a_negnum (ab_dmissing a) = a_negnum a)
    by (unfold ab_dmissing; intros ?; repeat match goal with |- context [match ?x with _ => _ end] => destruct x end; repeat split).
  assert (H4 : forall a, a_last (ab_default a) = a_last a /\ a_tva (ab_default a) = a_tva a /\ a_hyphen (ab_default a) = a_hyphen a /\ a_negnum (ab_default a) = a_negnum a)
    by (unfold ab_default; intros ?; repeat match goal with |- context [match ?x with _ => _ end] => destruct x end; repeat split).
  assert (H5 : forall a, a_last (ab_action a) = a_last a /\ a_tva (ab_action a) = a_tva a /\ a_hyphen (ab_action a) = a_hyphen a /\ a_negnum (ab_action a) = a_negnum a)
    by (unfold ab_action; intros ?; repeat match goal with |- context [match ?x with _ => _ end] => destruct x end; repeat split).
  destruct (H1 (ab_vp (ab_dmissing (ab_default (ab_action a))))) as [A1 [A2 [A3 A4]]].
  destruct (H2 (ab_dmissing (ab_default (ab_action a)))) as [B1 [B2 [B3 B4]]].
  destruct (H3 (ab_default (ab_action a))) as [C1 [C2 [C3 C4]]].
  destruct (H4 (ab_action a)) as [D1 [D2 [D3 D4]]]. destruct (H5 a) as [E1 [E2 [E3 E4]]].
  repeat split; congruence.
Qed.

(** a declared argument of the lifted class: no explicit index; an option has neither [last] nor [trailing_var_arg]
    ([require_equals], terminators, hyphen / negative-number values, and for positionals [last(true)] / [trailing_var_arg]: free) *)
Definition convx_arg0 (a : arg) : bool :=
  negb (is_some (a_index a)) && (a_is_positional a || (negb (a_last a) && negb (a_tva a))).
Definition user_conventionalx (c0 : cmd) : bool :=
  negb (s_built (c_set c0))
  && negb (is_set s_sub_precedence c0)
  && negb (is_set s_allow_hyphen c0) && negb (is_set s_allow_negnum c0) && negb (is_set s_tva c0)
  && forallb convx_arg0 (c_args c0).

Lemma convx_arg0_index : forall l, forallb convx_arg0 l = true -> no_index l = true.
Proof.
  induction l as [|a t IH]; intros H; [reflexivity|]. cbn [forallb] in H. apply andb_prop in H. destruct H as [Ha Ht].
  unfold convx_arg0 in Ha. apply andb_prop in Ha. destruct Ha as [Ha _]. unfold no_index. cbn [forallb]. rewrite Ha. apply IH. exact Ht.
Qed.

Theorem convx_of_user c0 : valid c0 = true -> user_conventionalx c0 = true -> convx (build_self c0) = true.
Proof.
  intros Hv H. unfold user_conventionalx in H.
  apply andb_prop in H. destruct H as [H Hargs]. apply andb_prop in H. destruct H as [H Htva].
  apply andb_prop in H. destruct H as [H Hnn]. apply andb_prop in H. destruct H as [H Hhy].
  apply andb_prop in H. destruct H as [Hb Hsp].
  assert (Eb : s_built (c_set c0) = false) by (destruct (s_built (c_set c0)); [discriminate|reflexivity]).
  assert (S1 : is_set s_allow_hyphen c0 = false) by (destruct (is_set s_allow_hyphen c0); [discriminate|reflexivity]).
  assert (S2 : is_set s_allow_negnum c0 = false) by (destruct (is_set s_allow_negnum c0); [discriminate|reflexivity]).
  assert (S3 : is_set s_tva c0 = false) by (destruct (is_set s_tva c0); [discriminate|reflexivity]).
  unfold convx. rewrite (valid_assert_app c0 Hv).
  rewrite (is_set_build_self s_sub_precedence c0 (fun s => eq_refl) (set_sp c0)).
  rewrite Hsp. cbn [andb negb].
  apply (built_args_pred convx_arg0 convx_arg c0); try assumption.
  - intros a Ha E. unfold convx_arg0 in Ha. apply andb_prop in Ha. destruct Ha as [Hi Ha].
    destruct (ab_flags a) as [F1 [F2 [F3 F4]]]. rewrite ab_positional, ab_index in E.
    destruct (a_index a) eqn:Ei; [discriminate Hi|]. cbn [is_some negb] in E. rewrite andb_true_r in E. rewrite E in Ha.
    unfold convx_arg. rewrite ab_index, Ei, F1, F2. cbn [is_some negb orb] in *. exact Ha.
  - intros a n Ha Hp _. reflexivity.
  - reflexivity.
  - reflexivity.
  - intros Hbt. rewrite Hbt in Eb. discriminate.
Qed.
