(** Property C06: what the caller receives under [ignore_errors] after an error (repaired statement order).

    [get_matches_with], error branch under [ignore_errors]:
      let _ = resolve_pending;  let _ = add_env;  let _ = add_defaults;  the error is returned.
    Proved here, for EVERY command, token list and start state (no class restriction is needed):
    - the three dropped phases run in that order, each from the state the previous one LEFT (its own error, if
      any, is dropped with the state it left behind);
    - after the first of them no occurrence is pending, and none is pending in the state handed back;
    - the defaults phase -- also when it stops at an error (e.g. a default value its parser refuses) -- only
      APPENDS entries, each labelled DefaultValue, each for an argument of the level that had no entry; every
      entry that existed before it (command line, environment, groups) is handed back exactly as it was.
    Hence a value that came from a default never sits in an entry labelled CommandLine or EnvVariable.
    Before the repair this was false: see [PendingFlush.pending_default_before_fix]. *)
From ClapModel Require Import Base.Bytes Base.Machine Base.Utf8 Lex.OsStrExtModel.
From ClapModel Require Import Parse.Cmd Parse.Build Parse.Valid Parse.Matcher Parse.Errors Parse.Validator Parse.Parser.
From ClapModel Require Import ParseProofs.Dispatch ParseProofs.Sources ParseProofs.PendingFlush.
From Coq Require Import ZArith Lia List Bool.
From RecordUpdate Require Import RecordSet.
Import RecordSetNotations.
Import ListNotations.
Open Scope N_scope.

(** * 1. No operation of the phases after the loop re-opens a pending occurrence -- error states included *)
Section KeepPending.
Variable c : cmd.
Variable q : option pending.
Definition Pq (st : ps) : Prop := mt_pending (mt st) = q.
Definition Mq (m : matcher) : Prop := mt_pending m = q.

Lemma mt_remove_pending m o : mt_pending (fst (mt_remove m o)) = mt_pending m.
Proof. unfold mt_remove. destruct (fm_remove o (mt_args m)). reflexivity. Qed.

Lemma fold_remove_pending l : forall m, mt_pending (fold_left (fun m o => fst (mt_remove m o)) l m) = mt_pending m.
Proof. induction l as [|o t IH]; intros m; cbn [fold_left]; [reflexivity|]. rewrite IH. apply mt_remove_pending. Qed.

Lemma remove_overrides_pending a m : mt_pending (remove_overrides c a m) = mt_pending m.
Proof. unfold remove_overrides. rewrite !fold_remove_pending. reflexivity. Qed.

Lemma add_val_to_pending m i v m' : add_val_to m i v = Some m' -> mt_pending m' = mt_pending m.
Proof. intros H. apply add_val_to_spec in H. destruct H as [? [? [? [_ [_ [_ [H _]]]]]]]. exact H. Qed.
Lemma add_index_to_pending m i k m' : add_index_to m i k = Some m' -> mt_pending m' = mt_pending m.
Proof. intros H. apply add_index_to_spec in H. exact (proj1 (proj2 H)). Qed.

Lemma start_custom_arg_pending a sr m : Mq m -> holds Mq (fun _ => False) (start_custom_arg c a sr m).
Proof.
  intros Hm. unfold start_custom_arg.
  set (m1 := match sr with SCmdLine => remove_overrides c a m | _ => m end).
  assert (H1 : Mq m1). { unfold Mq in *. subst m1. destruct sr; try exact Hm. rewrite remove_overrides_pending. exact Hm. }
  assert (H2 : Mq (start_custom_arg_m m1 a sr)) by exact H1.
  destruct (src_explicit sr); [|exact H2].
  generalize (groups_for_arg c (a_id a)).
  assert (H0 : holds Mq (fun _ => False) (ROk (start_custom_arg_m m1 a sr) : res matcher)) by exact H2.
  revert H0. generalize (ROk (start_custom_arg_m m1 a sr) : res matcher).
  intros r H0 l. revert r H0. induction l as [|g t IH]; intros r H0; cbn [fold_left]; [exact H0|].
  apply IH. eapply holds_bind; [exact H0|]. intros m0 Hm0.
  apply holds_expect. intros m' Hm'. apply add_val_to_pending in Hm'. unfold Mq in *. rewrite Hm'. exact Hm0.
Qed.

Lemma push_arg_values_pending a : forall raw st, Pq st -> holds Pq Pq (push_arg_values c a raw st).
Proof.
  induction raw as [|v t IH]; intros st Hs; cbn [push_arg_values]; [exact Hs|].
  eapply holds_bind; [apply holds_expect; intros; exact I|]. intros vp _.
  destruct (vp_parse vp v); [exact Hs|].
  eapply holds_bind; [apply (holds_expect (fun m1 => mt_pending m1 = q)); intros m1 H1; apply add_val_to_pending in H1; rewrite H1; exact Hs|].
  intros m1 Hm1.
  eapply holds_bind; [apply (holds_expect (fun m2 => mt_pending m2 = q)); intros m2 H2; apply add_index_to_pending in H2; rewrite H2; exact Hm1|].
  intros m2 Hm2. apply IH. exact Hm2.
Qed.

Lemma verify_num_args_pending a raw st : Pq st -> holds (fun _ => True) Pq (verify_num_args c a raw st).
Proof.
  intros Hs. unfold verify_num_args. destruct (is_set s_ignore_errors c); [exact I|].
  eapply holds_bind; [apply holds_expect; intros; exact I|]. intros r _.
  destruct (_ && _); [exact Hs|]. destruct (r_num_values r).
  - destruct (negb _); [exact Hs | exact I].
  - destruct (_ <? _); [exact Hs|]. destruct (_ <? _); [|exact I]. destruct raw; [exact I | exact Hs].
Qed.

Lemma react_core_pending_any idn sr a raw ti st :
  Pq st -> holds (fun x => Pq (fst x)) Pq (react_core c idn sr a raw ti st).
Proof.
  intros Hs. unfold react_core.
  eapply holds_bind.
  { destruct (is_cmdline sr); [apply verify_num_args_pending; exact Hs | exact I]. }
  intros _ _.
  match goal with |- context [let '(_, _) := ?X in _] => destruct X as [raw' ti'] end.
  eapply holds_bind; [apply holds_expect; intros; exact I|]. intros raw2 _.
  assert (Hbump : forall (b : bool) st0, Pq st0 -> Pq (if b then ps_bump st0 else st0)) by (intros [] ? ?; assumption).
  assert (Hset : forall raw0 bump st0, Pq st0 ->
     holds (fun x : ps * presult => Pq (fst x)) Pq
       (let st := if bump && is_cmdline sr && is_flag_ident idn then ps_bump st0 else st0 in
        let '(m1, removed) := mt_remove (mt st) (a_id a) in
        let st := st <| mt := m1 |> in
        if removed && negb (is_set s_args_override_self c || mem_id (a_id a) (a_overrides a))
        then RErr (mkerr c EArgumentConflict (a_id a)) st
        else do m2 <- start_custom_arg c a sr m1;
             do st' <- push_arg_values c a raw0 (st <| mt := m2 |>);
             ROk (st', PRValuesDone))).
  { intros raw0 bump st0 Hs0. cbv zeta.
    pose proof (Hbump (bump && is_cmdline sr && is_flag_ident idn) st0 Hs0) as Hb.
    set (stb := if bump && is_cmdline sr && is_flag_ident idn then ps_bump st0 else st0) in *.
    pose proof (mt_remove_pending (mt stb) (a_id a)) as Hr.
    destruct (mt_remove (mt stb) (a_id a)) as [m1 removed]. cbn [fst] in Hr.
    assert (Hm1 : Mq m1) by (unfold Mq, Pq in *; congruence).
    destruct (removed && _); [exact Hm1|].
    eapply holds_bind; [eapply holds_weaken; [apply start_custom_arg_pending; exact Hm1 | intros ? H; exact H | intros ? []]|].
    intros m2 Hm2.
    eapply holds_bind; [apply push_arg_values_pending; exact Hm2|]. intros st' Hst'. exact Hst'. }
  destruct (a_get_action a).
  - apply Hset. exact Hs.
  - assert (Hb := Hbump (is_cmdline sr && is_flag_ident idn) st Hs).
    eapply holds_bind; [eapply holds_weaken; [apply start_custom_arg_pending; exact Hb | intros ? H; exact H | intros ? []]|].
    intros m2 Hm2. eapply holds_bind; [apply push_arg_values_pending; exact Hm2|]. intros st' Hst'. exact Hst'.
  - apply Hset. exact Hs.
  - apply Hset. exact Hs.
  - pose proof (mt_remove_pending (mt st) (a_id a)) as Hr.
    destruct (mt_remove (mt st) (a_id a)) as [m1 removed]. cbn [fst] in Hr.
    assert (Hm1 : Mq m1) by (unfold Mq, Pq in *; congruence).
    eapply holds_bind; [eapply holds_weaken; [apply start_custom_arg_pending; exact Hm1 | intros ? H; exact H | intros ? []]|].
    intros m2 Hm2. eapply holds_bind; [apply push_arg_values_pending; exact Hm2|]. intros st' Hst'. exact Hst'.
  - exact Hs.
  - exact Hs.
  - exact Hs.
  - exact Hs.
Qed.
End KeepPending.

(** [resolve_pending] leaves no pending occurrence -- whether it succeeds or its error is dropped *)
Lemma resolve_pending_clears_any c st :
  holds (fun s => mt_pending (mt s) = None) (fun s => mt_pending (mt s) = None) (resolve_pending c st).
Proof.
  unfold resolve_pending. destruct (mt_pending (mt st)) as [p|] eqn:Ep; [|exact Ep].
  eapply holds_bind; [apply holds_expect; intros; exact I|]. intros a _.
  eapply holds_bind; [apply (react_core_pending_any c None); reflexivity|]. intros x Hx. exact Hx.
Qed.

Lemma react_keeps_no_pending c idn sr a raw ti st : mt_pending (mt st) = None ->
  holds (fun x => mt_pending (mt (fst x)) = None) (fun s => mt_pending (mt s) = None) (react c idn sr a raw ti st).
Proof.
  intros Hp. rewrite (react_no_pending _ _ _ _ _ _ _ Hp). apply (react_core_pending_any c None). exact Hp.
Qed.

Lemma fold_res_holds {X} (Q : ps -> Prop) (f : ps -> X -> res ps) (l : list X) :
  (forall st x, In x l -> Q st -> holds Q Q (f st x)) ->
  forall r, holds Q Q r -> holds Q Q (fold_left (fun rst x => do st <- rst; f st x) l r).
Proof.
  induction l as [|x t IH]; intros Hf r Hr; cbn [fold_left]; [exact Hr|].
  apply IH; [intros st y Hy; apply Hf; right; exact Hy|].
  eapply holds_bind; [exact Hr|]. intros st Hst. apply Hf; [left; reflexivity|exact Hst].
Qed.

Lemma add_env_keeps_no_pending c st : mt_pending (mt st) = None ->
  holds (fun s => mt_pending (mt s) = None) (fun s => mt_pending (mt s) = None) (add_env c st).
Proof.
  intros Hp. unfold add_env.
  apply (fold_res_holds (fun s => mt_pending (mt s) = None)
           (fun st a => if mt_contains (mt st) (a_id a) then ROk st
                        else match a_env a with Some v => do x <- react c None SEnv a [v] None st; ROk (fst x) | None => ROk st end));
    [|exact Hp].
  intros st0 a _ H0. destruct (mt_contains _ _); [exact H0|]. destruct (a_env a); [|exact H0].
  eapply holds_bind; [apply react_keeps_no_pending; exact H0|]. intros x Hx. exact Hx.
Qed.

(** * 2. The defaults phase only appends DefaultValue entries for absent arguments -- error states included *)
Section DefaultsShape.
Variable c : cmd.
Variable old : list (id * marg).

(** an entry the defaults phase may have appended to [old] *)
Definition dflt_new (p : id * marg) : Prop :=
  m_source (snd p) = Some SDefault /\ m_is_group (snd p) = false
  /\ fm_get (fst p) old = None /\ exists a, In a (c_args c) /\ a_id a = fst p.

Definition Dsh (st : ps) : Prop :=
  mt_pending (mt st) = None /\ exists news, mt_args (mt st) = old ++ news /\ Forall dflt_new news.

(** the shape while the values of the fresh entry of [a] are being pushed *)
Definition Dpush (a : arg) (news : list (id * marg)) (st : ps) : Prop :=
  mt_pending (mt st) = None /\
  exists e, mt_args (mt st) = (old ++ news) ++ [(a_id a, e)] /\ m_source e = Some SDefault /\ m_is_group e = false.

Lemma Dpush_Dsh a news st : In a (c_args c) -> Forall dflt_new news -> fm_get (a_id a) (old ++ news) = None ->
  Dpush a news st -> Dsh st.
Proof.
  intros Hin Hn Habs [Hp [e [Ha [Hs Hg]]]]. split; [exact Hp|].
  exists (news ++ [(a_id a, e)]). split; [rewrite Ha, app_assoc; reflexivity|].
  apply Forall_app. split; [exact Hn|]. constructor; [|constructor].
  repeat split; cbn [fst snd]; [exact Hs|exact Hg|apply fm_get_app_none in Habs; exact Habs|].
  exists a. split; [exact Hin|reflexivity].
Qed.

Lemma push_arg_values_Dpush a news : fm_get (a_id a) (old ++ news) = None ->
  forall raw st, Dpush a news st -> holds (Dpush a news) (Dpush a news) (push_arg_values c a raw st).
Proof.
  intros Habs. induction raw as [|v t IH]; intros st Hs; cbn [push_arg_values]; [exact Hs|].
  assert (Hb : Dpush a news (ps_bump st)) by exact Hs.
  eapply holds_bind; [apply holds_expect; intros; exact I|]. intros vp _.
  destruct (vp_parse vp v); [exact Hb|].
  destruct (add_val_to (mt (ps_bump st)) (a_id a) v) as [m1|] eqn:E1; cbn [expect rbind holds]; [|exact I].
  destruct (add_index_to m1 (a_id a) (cur_idx (ps_bump st))) as [m2|] eqn:E2; cbn [expect rbind holds]; [|exact I].
  apply IH.
  apply add_val_to_spec in E1. destruct E1 as [m0 [gs0 [g0 [G0 [R0 [A1 [P1 S1]]]]]]].
  apply add_index_to_spec in E2. destruct E2 as [A2 [P2 S2]].
  destruct Hs as [Hp [e [Ha [Hse Hge]]]]. cbn in G0, A1, P1.
  assert (m0 = e).
  { rewrite Ha, fm_get_app, Habs in G0. cbn in G0. rewrite beq_refl in G0. congruence. }
  subst m0.
  split; [cbn; congruence|].
  exists (push_index (cur_idx (ps_bump st)) (e <| m_raw := gs0 ++ [g0 ++ [v]] |>)). cbn.
  split; [|split; [exact Hse|exact Hge]].
  rewrite A2, A1, Ha, fm_update_compose. rewrite (fm_update_app_absent _ _ _ _ Habs). reflexivity.
Qed.

(** one [react_core] with source DefaultValue on an argument of the level that has no entry *)
Lemma react_core_default_Dsh a raw st : In a (c_args c) -> Dsh st -> fm_get (a_id a) (mt_args (mt st)) = None ->
  holds (fun x => Dsh (fst x)) Dsh (react_core c None SDefault a raw None st).
Proof.
  intros Hin Hs Habs. pose proof Hs as [Hp [news [Ha Hn]]]. rewrite Ha in Habs.
  unfold react_core. cbn [is_cmdline rbind].
  match goal with |- context [let '(_, _) := ?X in _] => destruct X as [raw' ti'] end.
  eapply holds_bind; [apply holds_expect; intros; exact I|]. intros raw2 _.
  (* the store: a fresh entry is appended, then the values are pushed into it *)
  assert (Hstore : forall raw0 (st0 : ps) m1, mt_args m1 = old ++ news -> mt_pending m1 = None ->
     holds (fun x : ps * presult => Dsh (fst x)) Dsh
       (do m2 <- start_custom_arg c a SDefault m1;
        do st' <- push_arg_values c a raw0 (st0 <| mt := m2 |>);
        ROk (st', PRValuesDone))).
  { intros raw0 st0 m1 Hm Hpm. unfold start_custom_arg. cbn [src_explicit rbind].
    set (e0 := new_val_group (set_source SDefault (marg_new (a_ignore_case a) false))).
    assert (A0 : mt_args (start_custom_arg_m m1 a SDefault) = (old ++ news) ++ [(a_id a, e0)]).
    { unfold start_custom_arg_m. cbn. rewrite Hm. apply fm_entry_or_insert_absent. exact Habs. }
    assert (P0 : mt_pending (start_custom_arg_m m1 a SDefault) = None) by exact Hpm.
    eapply holds_bind with (Q1 := Dpush a news).
    - eapply holds_weaken; [apply (push_arg_values_Dpush a news Habs)| |].
      + split; [exact P0|]. exists e0. split; [exact A0|split; reflexivity].
      + intros s0 H0; exact H0.
      + intros s0 H0. exact (Dpush_Dsh a news s0 Hin Hn Habs H0).
    - intros st' H'. exact (Dpush_Dsh a news st' Hin Hn Habs H'). }
  assert (Hrm : mt_remove (mt st) (a_id a) = (mt st <| mt_args := mt_args (mt st) |>, false)).
  { apply mt_remove_absent. rewrite Ha. exact Habs. }
  destruct (a_get_action a); cbn [andb is_cmdline]; rewrite ?andb_false_r; cbn [andb].
  - rewrite Hrm. cbn [andb]. apply Hstore; [exact Ha|exact Hp].
  - apply Hstore; [exact Ha|exact Hp].
  - rewrite Hrm. cbn [andb]. apply Hstore; [exact Ha|exact Hp].
  - rewrite Hrm. cbn [andb]. apply Hstore; [exact Ha|exact Hp].
  - rewrite Hrm. apply Hstore; [exact Ha|exact Hp].
  - exact Hs.
  - exact Hs.
  - exact Hs.
  - exact Hs.
Qed.

Lemma add_default_value_Dsh a st : In a (c_args c) -> Dsh st -> holds Dsh Dsh (add_default_value c a st).
Proof.
  intros Hin Hs. unfold add_default_value. unfold mt_contains, fm_contains.
  destruct (fm_get (a_id a) (mt_args (mt st))) as [e|] eqn:Eg; cbn [is_some negb].
  - rewrite andb_false_r. destruct (negb (is_nil (a_default a))); exact Hs.
  - assert (Hreact : forall raw, holds Dsh Dsh (do x <- react c None SDefault a raw None st; ROk (fst x))).
    { intros raw. rewrite (react_no_pending _ _ _ _ _ _ _ (proj1 Hs)).
      eapply holds_bind; [apply react_core_default_Dsh; assumption|]. intros x Hx. exact Hx. }
    assert (Hplain : holds Dsh Dsh (if negb (is_nil (a_default a))
                                     then do x <- react c None SDefault a (a_default a) None st; ROk (fst x)
                                     else ROk st)).
    { destruct (negb (is_nil (a_default a))); [apply Hreact|exact Hs]. }
    destruct (negb (is_nil (a_default_ifs a)) && true); [|exact Hplain].
    destruct (List.find _ (a_default_ifs a)) as [[[i p] [d|]]|]; [apply Hreact|exact Hs|exact Hplain].
Qed.

Lemma add_defaults_Dsh st : Dsh st -> holds Dsh Dsh (add_defaults c st).
Proof.
  intros Hs. unfold add_defaults.
  apply (fold_res_holds Dsh (fun st a => add_default_value c a st)); [|exact Hs].
  intros st0 a Hin H0. apply add_default_value_Dsh; assumption.
Qed.
End DefaultsShape.

(** the defaults phase, whatever its outcome: nothing pending afterwards, entries only appended, all of them
    labelled DefaultValue and for arguments without an entry; existing entries handed on unchanged *)
Theorem add_defaults_frame_any c st st' :
  mt_pending (mt st) = None -> leaves (add_defaults c st) st' ->
  mt_pending (mt st') = None
  /\ (exists news, mt_args (mt st') = mt_args (mt st) ++ news
                   /\ Forall (dflt_new c (mt_args (mt st))) news)
  /\ (forall j m, fm_get j (mt_args (mt st)) = Some m -> fm_get j (mt_args (mt st')) = Some m)
  /\ (forall j m', fm_get j (mt_args (mt st)) = None -> fm_get j (mt_args (mt st')) = Some m' ->
        m_source m' = Some SDefault /\ m_is_group m' = false).
Proof.
  intros Hp Hl.
  assert (H0 : Dsh c (mt_args (mt st)) st).
  { split; [exact Hp|]. exists []. rewrite app_nil_r. split; [reflexivity|constructor]. }
  pose proof (add_defaults_Dsh c (mt_args (mt st)) st H0) as H.
  assert (H' : Dsh c (mt_args (mt st)) st').
  { destruct Hl as [Hl|[e Hl]]; rewrite Hl in H; exact H. }
  destruct H' as [P [news [A F]]].
  split; [exact P|]. split; [exists news; split; assumption|]. split.
  - intros j m G. rewrite A, fm_get_app, G. reflexivity.
  - intros j m' G G'. rewrite A, fm_get_app, G in G'.
    clear A. induction news as [|[k e] t IH]; [discriminate|].
    inversion F as [|? ? Hhd Htl]; subst. cbn [fm_get] in G'. destruct (beq k j).
    + inversion G'; subst. destruct Hhd as [Hs [Hg _]]. split; [exact Hs|exact Hg].
    + apply IH; assumption.
Qed.

(** * 3. What [get_matches_with] hands back with an error under [ignore_errors] *)

(** the frame of the defaults phase between [s1] (what the command line and the environment left) and [st] *)
Definition defaults_only_appended (c : cmd) (s1 st : ps) : Prop :=
  (exists news, mt_args (mt st) = mt_args (mt s1) ++ news /\ Forall (dflt_new c (mt_args (mt s1))) news)
  /\ (forall j m, fm_get j (mt_args (mt s1)) = Some m -> fm_get j (mt_args (mt st)) = Some m)
  /\ (forall j m', fm_get j (mt_args (mt s1)) = None -> fm_get j (mt_args (mt st)) = Some m' ->
        m_source m' = Some SDefault /\ m_is_group m' = false).

Lemma defaults_only_appended_refl c s : defaults_only_appended c s s.
Proof.
  split; [exists []; rewrite app_nil_r; split; [reflexivity|constructor]|].
  split; [intros j m G; exact G|]. intros j m' G G'. congruence.
Qed.

Local Ltac rx := first [reflexivity | eassumption].

Theorem ignore_errors_pending_flushed fuel' c toks st0 e st :
  is_set s_ignore_errors c = true ->
  get_matches_with (S fuel') c toks st0 = RErr e st ->
  mt_pending (mt st) = None
  /\ exists s1, mt_pending (mt s1) = None /\ defaults_only_appended c s1 st
     /\ ((* the error is the command line's: the three dropped phases ran in the repaired order, each from the
            state the previous one left *)
         (exists st_c s0, cmdline_phase fuel' c toks st0 = RErr e st_c
            /\ leaves (resolve_pending c st_c) s0 /\ mt_pending (mt s0) = None
            /\ leaves (add_env c s0) s1 /\ leaves (add_defaults c s1) st)
         \/ (* the command line was accepted: the error is that of the first later phase that failed *)
         (exists st_c, cmdline_phase fuel' c toks st0 = ROk st_c
            /\ ((resolve_pending c st_c = RErr e st /\ s1 = st)
                \/ exists s0, resolve_pending c st_c = ROk s0
                     /\ ((add_env c s0 = RErr e st /\ s1 = st)
                         \/ (add_env c s0 = ROk s1
                             /\ (add_defaults c s1 = RErr e st
                                 \/ (add_defaults c s1 = ROk st /\ validate c (mt st) <> VOk))))))).
Proof.
  intros Hig. rewrite get_matches_with_unfold.
  destruct (cmdline_phase fuel' c toks st0) as [st_c|e' st_c|x] eqn:Ec; [| |discriminate].
  - pose proof (resolve_pending_clears_any c st_c) as Hc0.
    destruct (resolve_pending c st_c) as [s0|e0 s0|x0] eqn:E0; cbn [rbind holds] in *; [| |discriminate].
    2:{ intros [= <- <-]. split; [exact Hc0|]. exists s0. split; [exact Hc0|]. split; [apply defaults_only_appended_refl|].
        right. exists st_c. split; [rx|]. left. split; rx. }
    pose proof (add_env_keeps_no_pending c s0 Hc0) as Hc1.
    destruct (add_env c s0) as [s1|e1 s1|x1] eqn:E1; cbn [rbind holds] in *; [| |discriminate].
    2:{ intros [= <- <-]. split; [exact Hc1|]. exists s1. split; [exact Hc1|]. split; [apply defaults_only_appended_refl|].
        right. exists st_c. split; [rx|]. right. exists s0. split; [rx|]. left. split; rx. }
    destruct (add_defaults c s1) as [s2|e2 s2|x2] eqn:E2; cbn [rbind] in *; [| |discriminate].
    + unfold vres_to_res. destruct (validate c (mt s2)) as [|k a|x] eqn:Ev; [discriminate| |discriminate].
      intros [= <- <-].
      destruct (add_defaults_frame_any c s1 s2 Hc1 (or_introl E2)) as [P2 [Hn [Hk Hw]]].
      split; [exact P2|]. exists s1. split; [exact Hc1|]. split; [exact (conj Hn (conj Hk Hw))|].
      right. exists st_c. split; [rx|]. right. exists s0. split; [rx|]. right. split; [rx|].
      right. split; [rx|]. rewrite Ev. discriminate.
    + intros [= <- <-].
      destruct (add_defaults_frame_any c s1 s2 Hc1 (or_intror (ex_intro _ e2 E2))) as [P2 [Hn [Hk Hw]]].
      split; [exact P2|]. exists s1. split; [exact Hc1|]. split; [exact (conj Hn (conj Hk Hw))|].
      right. exists st_c. split; [rx|]. right. exists s0. split; [rx|]. right. split; [rx|].
      left. rx.
  - rewrite Hig. intros H. change (ignored_post c e' st_c = RErr e st) in H.
    destruct (ignored_post_cases c e' st_c) as [[x [Hx _]]|[s0 [s1 [s2 [L0 [L1 [L2 Hr]]]]]]]; [rewrite Hx in H; discriminate|].
    rewrite Hr in H. injection H as <- <-.
    assert (P0 : mt_pending (mt s0) = None).
    { pose proof (resolve_pending_clears_any c st_c) as Hc. destruct L0 as [L0|[e0 L0]]; rewrite L0 in Hc; exact Hc. }
    assert (P1 : mt_pending (mt s1) = None).
    { pose proof (add_env_keeps_no_pending c s0 P0) as Hc. destruct L1 as [L1|[e1 L1]]; rewrite L1 in Hc; exact Hc. }
    destruct (add_defaults_frame_any c s1 s2 P1 L2) as [P2 [Hn [Hk Hw]]].
    split; [exact P2|]. exists s1. split; [exact P1|]. split; [exact (conj Hn (conj Hk Hw))|].
    left. exists st_c, s0. repeat split; assumption.
Qed.

(** non-vacuity: the first witness command of PendingFlush.v takes the first branch with an occurrence that IS
    pending when the error is raised, and the flush stores it as the only entry labelled CommandLine *)
Example ignore_errors_pending_flushed_witness :
  let c := build_self (flush_cmd1 <| c_bin_name := Some [112] |>) in
  is_set s_ignore_errors c = true
  /\ exists e st_c st,
       get_matches_with (S (S (depth c))) c (tl flush_line1) ps_new = RErr e st
       /\ cmdline_phase (S (depth c)) c (tl flush_line1) ps_new = RErr e st_c
       /\ mt_pending (mt st_c) <> None /\ mt_pending (mt st) = None
       /\ map (fun p => (fst p, m_source (snd p), m_raw (snd p))) (mt_args (mt st))
          = [([112], Some SCmdLine, [[[115]]])].
Proof.
  cbv zeta. split; [vm_compute; reflexivity|].
  eexists. eexists. eexists.
  split; [vm_compute; reflexivity|]. split; [vm_compute; reflexivity|].
  split; [vm_compute; discriminate|]. split; vm_compute; reflexivity.
Qed.
