(** Property C05, round 3: [Append] positionals with [num_args(1)] -- one OCCURRENCE per token of the tail.

    Class [sink1 c a]: the positional counter cannot move ([EscapeWalk.sticky]), [a] is the positional at
    index 1, takes one value per occurrence ([a_multiple_values a = false]), has action [Append] and does not
    override itself.  In trailing mode every token closes the occurrence that is open ([flush_for] =
    [resolve_pending], always) and opens a new one holding just that token with trailing index 0; closing
    it ([react_core], [Append]: [start_custom_arg] adds a value group, [push_arg_values] fills it) appends ONE
    value group to the entry of [a] -- the stored form of that one token.  So the value groups of [a] after the
    parse are those it had when the tail started, followed by one group per token of the tail, in order
    ([append1_run]). *)
From ClapModel Require Import Base.Bytes Base.Machine Base.Utf8 Lex.OsStrExtModel.
From ClapModel Require Import Parse.Cmd Parse.Build Parse.Valid Parse.Matcher Parse.Errors Parse.Validator Parse.Parser.
From ClapModel Require Import ParseProofs.Safe ParseProofs.Invariant ParseProofs.Totality ParseProofs.TotalityMain
  ParseProofs.Sources ParseProofs.Spelling ParseProofs.Dispatch ParseProofs.Provenance
  ParseProofs.Escape ParseProofs.EscapeWalk ParseProofs.EscapeStore ParseProofs.EscapeSub ParseProofs.EscapeLevel
  ParseProofs.EscapeChain ParseProofs.EscapeDisplay ParseProofs.EscapeGlobals ParseProofs.EscapeTop ParseProofs.EscapeAny
  ParseProofs.EscapeHyphen.
From Coq Require Import ZArith Lia List Bool.
From RecordUpdate Require Import RecordSet.
Import RecordSetNotations.
Import ListNotations.
Open Scope N_scope.

Section Append1.
Variable c : cmd.
Hypothesis Hl : lvl c.
Hypothesis Hst : lvl_store c.
Let W3 := proj1 Hl.
Let WP := proj1 (proj2 Hl).

(** the value groups of the entry of [y] *)
Definition raw_of (y : id) (st : ps) : list (list bytes) :=
  match get_entry y st with Some e => m_raw e | None => [] end.

(** [a] is in no overrides relation with itself *)
Definition noself (a : arg) : bool :=
  negb (existsb (fun o => beq o (a_id a)) (a_overrides a)) && negb (mem_id (a_id a) (a_overrides a)).

Definition sink1 (a : arg) : Prop :=
  sticky c = true /\ get_pos c 1 = Some a /\ a_multiple_values a = false /\ a_get_action a = AAppend /\ noself a = true.

(** one group per token: the stored form of that token alone *)
Definition stored1 (a : arg) (t : list bytes) (groups : list (list bytes)) : Prop :=
  Forall2 (fun tok g => tail_form c a [tok] = Some g) t groups.

Lemma remove_overrides_keep a m x :
  existsb (fun o => beq o x) (a_overrides a) = false ->
  match find_arg c x with Some ov => mem_id (a_id a) (a_overrides ov) | None => false end = false ->
  fm_get x (mt_args (remove_overrides c a m)) = fm_get x (mt_args m).
Proof.
  intros Hov Htr. unfold remove_overrides. rewrite fold_remove_frame.
  - apply fold_remove_frame. exact Hov.
  - clear -Htr. generalize (arg_ids (fold_left (fun m o => fst (mt_remove m o)) (a_overrides a) m)).
    induction l as [|i l IH]; [reflexivity|]. cbn [filter].
    destruct (match find_arg c i with Some ov => mem_id (a_id a) (a_overrides ov) | None => false end) eqn:Ei;
      [|exact IH].
    cbn [existsb]. rewrite IH, orb_false_r.
    destruct (beq i x) eqn:Eb; [|reflexivity]. apply beq_eq in Eb. subst i. rewrite Htr in Ei. discriminate.
Qed.

(** [start_custom_arg] for an [Append] argument outside every overrides relation with itself: one more
    (empty) value group at the end of its entry *)
Lemma start_append_entry a m m2 :
  find_group c (a_id a) = None -> noself a = true -> find_arg c (a_id a) = Some a ->
  start_custom_arg c a SCmdLine m = ROk m2 ->
  exists e, fm_get (a_id a) (mt_args m2) = Some e /\
            m_raw e = match fm_get (a_id a) (mt_args m) with Some e0 => m_raw e0 | None => [] end ++ [[]].
Proof.
  intros Hg Hns Hf H. unfold noself in Hns. apply andb_true_iff in Hns as [N1 N2].
  apply negb_true_iff in N1, N2.
  unfold start_custom_arg in H. cbn [src_explicit] in H.
  change (fold_left (group_step a SCmdLine) (groups_for_arg c (a_id a))
            (ROk (start_custom_arg_m (remove_overrides c a m) a SCmdLine)) = ROk m2) in H.
  apply group_fold_spec in H. destruct H as [Hfr _].
  rewrite Hfr.
  - unfold start_custom_arg_m. cbn. rewrite fm_get_entry_or_insert_same.
    eexists. split; [reflexivity|]. cbn.
    rewrite (remove_overrides_keep a m (a_id a) N1); [|rewrite Hf; exact N2].
    destruct (fm_get (a_id a) (mt_args m)); reflexivity.
  - destruct (mem_id (a_id a) (groups_for_arg c (a_id a))) eqn:Em; [|reflexivity].
    apply in_groups_for_arg in Em. contradiction.
Qed.

(** closing an occurrence of [a] that holds exactly one token, trailing index 0 *)
Lemma append1_resolve st p a tok b2 :
  mt_pending (mt st) = Some p -> p_id p = a_id a -> p_raw p = [tok] -> p_trailing_idx p = Some 0 ->
  In a (c_args c) -> a_get_action a = AAppend -> noself a = true ->
  resolve_pending c st = ROk b2 ->
  exists g, tail_form c a [tok] = Some g /\ raw_of (a_id a) b2 = raw_of (a_id a) st ++ [g]
            /\ mt_pending (mt b2) = None.
Proof.
  intros Hp Hid Hraw Hti Hin Hact Hns E.
  pose proof (Spelling.resolve_pending_clears c st b2 E) as Hnone.
  pose proof (W3 a Hin) as Hf. pose proof (proj2 Hst a Hin) as Hg.
  unfold resolve_pending in E. rewrite Hp, Hid, Hf in E. cbn [expect rbind] in E.
  destruct (react_core c (p_ident p) SCmdLine a (p_raw p) (p_trailing_idx p) _) as [[s2 pr]|e0 s0|n0] eqn:Er;
    cbn [rbind] in E; try discriminate. injection E as <-. cbn [fst] in *.
  rewrite react_core_unfold in Er. cbn [is_cmdline] in Er.
  destruct (verify_num_args _ _ _ _); [|discriminate|discriminate]. cbn [rbind] in Er.
  rewrite Hraw, Hti in Er. cbn [react_vals fst snd] in Er.
  unfold react_tail in Er.
  pose proof (delimit_app_trailing c a [] [tok] 0 ltac:(cbn; lia)) as Hd. cbn [app] in Hd.
  rewrite (delimit_nil c a) in Hd.
  destruct (delimit c a [tok] (Some 0)) as [vs|] eqn:Ed; [|discriminate]. cbn [expect rbind] in Er.
  destruct (tail_form c a [tok]) as [g|] eqn:Etf; [|discriminate]. cbn [app] in Hd. injection Hd as ->.
  exists g. split; [reflexivity|]. split; [|exact Hnone].
  rewrite Hact in Er.
  match type of Er with context [start_custom_arg c a SCmdLine ?M] => set (m0 := M) in *;
    destruct (start_custom_arg c a SCmdLine m0) as [m2| |] eqn:E1; [|discriminate|discriminate] end.
  cbn [rbind] in Er.
  match type of Er with context [push_arg_values c a g ?S] => destruct (push_arg_values c a g S) as [s3| |] eqn:E2;
    [|discriminate|discriminate] end.
  cbn [rbind] in Er. injection Er as <- _.
  destruct (start_append_entry a m0 m2 Hg Hns Hf E1) as (e1 & G1 & R1).
  apply push_arg_values_spec in E2. destruct E2 as (_ & _ & _ & _ & _ & He).
  destruct (He e1 _ [] G1 R1) as (e' & G' & _ & R' & _).
  unfold raw_of, get_entry. rewrite G', R'. cbn [app].
  assert (Hm0 : fm_get (a_id a) (mt_args m0) = fm_get (a_id a) (mt_args (mt st))).
  { subst m0. destruct (is_cmdline SCmdLine && is_flag_ident (p_ident p)); reflexivity. }
  rewrite Hm0. destruct (fm_get (a_id a) (mt_args (mt st))); reflexivity.
Qed.

Hypothesis a : arg.
Hypothesis Hs1 : sink1 a.

Let S1 := proj1 Hs1.
Let S2 := proj1 (proj2 Hs1).
Let S3 := proj1 (proj2 (proj2 Hs1)).
Let S4 := proj1 (proj2 (proj2 (proj2 Hs1))).
Let S5 := proj2 (proj2 (proj2 (proj2 Hs1))).

(** one iteration of a successful trailing-mode loop at the positional *)
Lemma append1_step tok rest ls st s1 :
  l_trailing ls = true -> l_pos ls = 1 -> parse_loop c (tok :: rest) ls st = ROk (LDone s1) ->
  exists st1 m1, resolve_pending c st = ROk st1 /\
    pending_values_push (mt st1) (a_id a) (Some IIndex) true (Some tok) = Some m1 /\
    parse_loop c rest (mkL (PSPos (a_id a)) 1 true true) (st1 <| mt := m1 |>) = ROk (LDone s1).
Proof.
  intros Htr Hpos. rewrite (parse_loop_trailing_step c tok rest ls st Htr). unfold pos_body.
  assert (Hpc : pos_correct c (l_pos ls) (l_vaf ls) rest = ROk 1).
  { rewrite Hpos. pose proof S1 as Hs. unfold sticky in Hs.
    apply andb_prop in Hs. destruct Hs as [Hs _]. apply andb_prop in Hs. destruct Hs as [Hs H3].
    apply andb_prop in Hs. destruct Hs as [H1 H2]. apply negb_true_iff in H1, H2, H3.
    rewrite (pos_correct_sink c 1 (l_vaf ls) rest H2). unfold sink_index. rewrite H1, H3. reflexivity. }
  rewrite Hpc. cbn [rbind]. rewrite S2. rewrite S3. cbn [negb]. rewrite orb_true_r.
  destruct (resolve_pending c st) as [st1|? ?|?] eqn:Ef; cbn [rbind]; try discriminate.
  destruct (sticky_pos c _ _ S1 S2) as [Hm Hterm].
  assert (Ect : check_terminator a tok = false) by (unfold check_terminator; rewrite Hterm; reflexivity).
  rewrite Ect.
  destruct (pending_values_push (mt st1) (a_id a) (Some IIndex) true (Some tok)) as [m1|] eqn:Ep; cbn [expect rbind]; [|discriminate].
  rewrite Hm. cbn [negb]. intros E. exists st1, m1. split; [reflexivity|]. split; [exact Ep|exact E].
Qed.

(** (2): the trailing-mode loop, then [resolve_pending]: one value group per token *)
Theorem append1_run : forall t ls st s1 s2,
  l_trailing ls = true -> l_pos ls = 1 ->
  parse_loop c t ls st = ROk (LDone s1) -> resolve_pending c s1 = ROk s2 ->
  exists b groups, resolve_pending c st = ROk b /\ stored1 a t groups /\
    raw_of (a_id a) s2 = raw_of (a_id a) b ++ groups.
Proof.
  induction t as [|tok rest IH]; intros ls st s1 s2 Htr Hpos E Er.
  - cbn [parse_loop] in E. injection E as <-. exists s2, []. split; [exact Er|]. split; [constructor|].
    rewrite app_nil_r. reflexivity.
  - destruct (append1_step _ _ _ _ _ Htr Hpos E) as (st1 & m1 & Ef & Ep & E').
    destruct (get_pos_in _ _ _ S2) as [Hin Hidx].
    pose proof (Spelling.resolve_pending_clears c st st1 Ef) as Hnone.
    destruct (push_spec _ _ _ _ _ Ep) as (p & Hpend & Hid & Hraw & Hti & Hargs & _).
    unfold pend_raw, pend_ti in Hraw, Hti. rewrite Hnone in Hraw, Hti. cbn [app] in Hraw. apply beq_eq in Hid.
    set (st2 := st1 <| mt := m1 |>) in *.
    destruct (IH (mkL (PSPos (a_id a)) 1 true true) st2 s1 s2 eq_refl eq_refl E' Er) as (b2 & groups & Eb2 & Hst2 & Hr2).
    destruct (append1_resolve st2 p a tok b2 Hpend Hid Hraw Hti Hin S4 S5 Eb2) as (g & Hg & Hr & _).
    exists st1, (g :: groups). split; [exact Ef|]. split; [constructor; assumption|].
    rewrite Hr2, Hr. rewrite <- app_assoc. cbn [app].
    assert (Heq : raw_of (a_id a) st2 = raw_of (a_id a) st1).
    { unfold raw_of, get_entry. subst st2. change (mt (st1 <| mt := m1 |>)) with m1. rewrite Hargs. reflexivity. }
    rewrite Heq. reflexivity.
Qed.

(** in the class the trailing-mode loop cannot run out of positionals *)
Lemma append1_done : forall toks ls st lr, l_trailing ls = true -> l_pos ls = 1 ->
  parse_loop c toks ls st = ROk lr -> exists s, lr = LDone s.
Proof.
  induction toks as [|tok rest IH]; intros ls st lr Htr Hpos.
  - cbn [parse_loop]. intros E. injection E as <-. eexists; reflexivity.
  - rewrite (parse_loop_trailing_step c tok rest ls st Htr). unfold pos_body.
    assert (Hpc : pos_correct c (l_pos ls) (l_vaf ls) rest = ROk 1).
    { rewrite Hpos. pose proof S1 as Hs. unfold sticky in Hs.
      apply andb_prop in Hs. destruct Hs as [Hs _]. apply andb_prop in Hs. destruct Hs as [Hs H3].
      apply andb_prop in Hs. destruct Hs as [H1 H2]. apply negb_true_iff in H1, H2, H3.
      rewrite (pos_correct_sink c 1 (l_vaf ls) rest H2). unfold sink_index. rewrite H1, H3. reflexivity. }
    rewrite Hpc. cbn [rbind]. rewrite S2.
    destruct (_ : res ps) as [st1|? ?|?]; cbn [rbind]; try discriminate.
    destruct (sticky_pos c _ _ S1 S2) as [Hm Hterm].
    assert (Ect : check_terminator a tok = false) by (unfold check_terminator; rewrite Hterm; reflexivity).
    rewrite Ect.
    destruct (pending_values_push (mt st1) (a_id a) (Some IIndex) true (Some tok)) as [m1|]; cbn [expect rbind]; [|discriminate].
    rewrite Hm. cbn [negb]. apply IH; reflexivity.
Qed.
End Append1.

(** * One level, the tree, the entry points *)
Section Append1Level.
Variable c : cmd.
Hypothesis Hl : lvl c.
Hypothesis Hst : lvl_store c.
Hypothesis Hdd : forall vaf, possible_subcommand c dashdash vaf = None.
Let W3 := proj1 Hl.
Let WP := proj1 (proj2 Hl).

(** the final entry of [a]: what it held, then one value group per token of [x ++ t] ([x] is [[]], or [[--]]
    when [trailing_var_arg] had switched the loop to trailing mode before and the [--] itself is a value) *)
Definition consumed_append1 (t : list bytes) (st0 st' : ps) (lr : res loop_res) : Prop :=
  forall a, sink1 c a ->
    exists st1 x e before groups,
      lr = ROk (LDone st1) /\ mt_sub (mt st') = mt_sub (mt st0) /\
      get_entry (a_id a) st' = Some e /\ m_raw e = before ++ groups /\ stored1 c a (x ++ t) groups.

Theorem level_append1 f pre t st0 st' :
  t <> [] -> mt_pending (mt st0) = None ->
  get_matches_with (S f) c (pre ++ dashdash :: t) st0 = ROk st' ->
  consumed_append1 t st0 st' (parse_loop c (pre ++ dashdash :: t) ls0 st0)
  \/ (exists n k v st1 r, parse_loop c (pre ++ dashdash :: t) ls0 st0 = ROk (LSub n k v st1 (r ++ dashdash :: t)))
  \/ (exists tk r st1, parse_loop c (pre ++ dashdash :: t) ls0 st0 = ROk (LExternal tk (r ++ dashdash :: t) st1))
  \/ hyphen_exception c t t ls0 st0
       (parse_loop c (pre ++ dashdash :: t) ls0 st0) (parse_loop c (pre ++ dashdash :: t) ls0 st0).
Proof.
  intros Ht Hp0 H. rewrite gmw_unfold in H.
  destruct (post_ok_inv _ _ _ H) as (stp & s2 & s3 & Hparsed & Hr & He & Hd).
  destruct (TV0 c st0 Hp0) as [HTV HLTV].
  destruct (escape_line_sim_h c W3 WP Hdd pre t t ls0 st0 HTV HLTV) as [Hs2|Hex]; [|right; right; right; exact Hex].
  pose proof (esim_left c _ _ _ _ _ _ Hs2) as Hs. clear Hs2.
  unfold parsed_of in Hparsed. fold ls0 in Hparsed.
  remember (parse_loop c (pre ++ dashdash :: t) ls0 st0) as R eqn:ER.
  destruct Hs as [x ls' st1 Htr H1 Hpos Hsub|e1 s1|x|n k v s1 r|r s1|tk r s1]; cbn [rbind] in Hparsed; try discriminate Hparsed.
  - left. symmetry in ER.
    destruct (parse_loop c (x ++ t) ls' st1) as [lr|e1 s1|x1] eqn:EL; cbn [rbind] in Hparsed; try discriminate Hparsed.
    intros a Ha. pose proof Ha as (S1 & S2 & _).
    assert (Hp1 : l_pos ls' = 1) by (exact (proj1 Hpos S1)).
    destruct (append1_done c a Ha _ _ _ _ Htr Hp1 EL) as [st1' ->]. injection Hparsed as ->.
    destruct (append1_run c Hl Hst a Ha (x ++ t) ls' st1 stp s2 Htr Hp1 EL Hr) as (b & groups & Eb & Hsto & Hraw).
    destruct (get_pos_in _ _ _ S2) as [Hin _].
    assert (Hne : groups <> []).
    { intros ->. inversion Hsto as [Hx|]. destruct x; [apply Ht; symmetry; exact Hx|discriminate]. }
    assert (He2 : exists e, get_entry (a_id a) s2 = Some e /\ m_raw e = raw_of (a_id a) b ++ groups).
    { unfold raw_of in Hraw at 1. destruct (get_entry (a_id a) s2) as [e|]; [exists e; split; [reflexivity|exact Hraw]|].
      exfalso. destruct (raw_of (a_id a) b); [apply Hne; symmetry; exact Hraw|discriminate]. }
    destruct He2 as (e & Ge & Re).
    pose proof (Spelling.resolve_pending_clears c stp s2 Hr) as Hnone.
    exists stp, x, e, (raw_of (a_id a) b), groups. split; [reflexivity|]. split.
    + destruct (add_env_frame c s2 s3 Hnone He) as (Hp3 & Hs3 & _).
      destruct (add_defaults_frame c s3 st' Hp3 Hd) as (_ & Hs4 & _).
      rewrite Hs4, Hs3.
      pose proof (resolve_pending_sub c (mt_sub (mt stp)) stp eq_refl) as Hk. rewrite Hr in Hk. cbn in Hk.
      unfold Dispatch.S_ in Hk. rewrite Hk.
      pose proof (trailing_any_sub c _ _ _ _ Htr EL) as Hts. cbn [lr_state] in Hts. rewrite Hts. exact Hsub.
    + split; [eapply phases_keep; [exact Hnone|exact He|exact Hd|exact (proj2 Hst a Hin)|exact Ge]|]. auto.
  - right. left. exists n, k, v, s1, r. reflexivity.
  - right. right. left. exists tk, r, s1. reflexivity.
Qed.
End Append1Level.

(** where the tail went, [Append]-with-[num_args(1)] levels: one value group per token at the end of the entry
    of the positional; or the subcommand / external subcommand [pre] selected; or the hyphen exception *)
Fixpoint delivered_a (fuel : nat) (c : cmd) (t : list bytes) (m : matches) : Prop :=
  match fuel with
  | O => False
  | S f =>
      (forall a, sink1 c a ->
         ms_sub m = None /\
         exists x e before groups, fm_get (a_id a) (ms_args m) = Some e /\ m_raw e = before ++ groups
                                   /\ stored1 c a (x ++ t) groups)
      \/ (exists name sc sm, build_subcommand c name = Some sc /\ ms_sub m = Some (c_name sc, sm) /\ delivered_a f sc t sm)
      \/ (exists name vals sm, ms_sub m = Some (name, sm) /\ ms_sub sm = None /\
                               fm_get ext_id (ms_args sm) = Some (ext_marg (vals ++ dashdash :: t)))
      \/ (exists a, In a (c_args c) /\ a_hyphen a = true)
  end.

Theorem gmw_delivered_a : forall fuel c pre t st0 st',
  esc_okh fuel c -> t <> [] -> mt_pending (mt st0) = None -> mt_sub (mt st0) = None ->
  get_matches_with fuel c (pre ++ dashdash :: t) st0 = ROk st' ->
  delivered_a fuel c t (into_inner (mt st')).
Proof.
  induction fuel as [|f IH]; intros c pre t st0 st' Hok Ht Hp0 Hs0 H; [destruct Hok|].
  destruct Hok as (Hwf & Happ & Hig & Hdd & Hch).
  pose proof (lvl_of_wfc c Hwf Happ) as Hl. pose proof (lvl_store_of_wfc c Hwf Happ) as Hst.
  destruct (level_append1 c Hl Hst Hdd f pre t st0 st' Ht Hp0 H) as [Hc|[Hc|[Hc|Hc]]].
  - cbn [delivered_a]. left. intros a Ha.
    destruct (Hc a Ha) as (st1 & x & e & before & groups & _ & G1 & G2 & G3 & G4).
    split; [cbn; rewrite G1; exact Hs0|]. exists x, e, before, groups. auto.
  - destruct Hc as (n & k & v & st1 & r & EL). rewrite gmw_unfold in H.
    destruct (post_ok_inv c _ _ H) as (stp & s2 & s3 & Hparsed & _).
    pose proof (post_keeps_sub c (mt_sub (mt stp)) (ROk stp) eq_refl) as Hk.
    rewrite Hparsed in H. rewrite H in Hk. cbn in Hk. unfold Dispatch.S_ in Hk.
    unfold parsed_of in Hparsed. change (mkL PSValuesDone 1 false false) with ls0 in Hparsed. rewrite EL in Hparsed.
    cbn [rbind] in Hparsed.
    destruct (after_sub_ok _ _ _ _ _ _ _ _ Hig Hparsed) as (sc0 & sc & sub_st & Ef & Eb & Eg & ->).
    cbn [delivered_a]. right. left. exists (c_name sc0), sc, (into_inner (mt sub_st)).
    split; [exact Eb|]. split; [cbn [into_inner ms_sub]; rewrite Hk; reflexivity|].
    apply (IH sc r t (sub_init k st1) sub_st (Hch _ _ Eb) Ht); [| |exact Eg]; unfold sub_init; destruct k; reflexivity.
  - destruct Hc as (tk & r & st1 & EL). rewrite gmw_unfold in H.
    destruct (post_ok_inv c _ _ H) as (stp & s2 & s3 & Hparsed & _).
    pose proof (post_keeps_sub c (mt_sub (mt stp)) (ROk stp) eq_refl) as Hk.
    rewrite Hparsed in H. rewrite H in Hk. cbn in Hk. unfold Dispatch.S_ in Hk.
    unfold parsed_of in Hparsed. change (mkL PSValuesDone 1 false false) with ls0 in Hparsed. rewrite EL in Hparsed.
    cbn [rbind] in Hparsed.
    pose proof (external_verbatim c tk (r ++ dashdash :: t) st1) as Hx. rewrite Hparsed in Hx. cbn [holds] in Hx.
    cbn [delivered_a]. right. right. left. exists tk, r, (Matches [(ext_id, ext_marg (r ++ dashdash :: t))] None).
    cbn [into_inner ms_sub]. rewrite Hk, Hx. split; [reflexivity|]. split; reflexivity.
  - cbn [delivered_a]. right. right. right. exact (hyphen_exception_arg _ _ _ _ _ _ _ Hc).
Qed.

Lemma delivered_a_sng gl : forall f c t m m', pos_free gl f c -> delivered_a f c t m -> sng gl m m' -> delivered_a f c t m'.
Proof.
  induction f as [|f IH]; intros c t m m' Hp Hd Hs; [destruct Hd|].
  destruct m as [ar s], m' as [ar' s']. destruct Hp as (Hp & He & Hch). destruct Hs as [Hs1 Hs2].
  cbn [delivered_a ms_sub ms_args] in *.
  destruct Hd as [D1|[(name & sc & sm & Eb & Esub & Hd)|[(name & vals & sm & Esub & Hn & Hext)|Hh]]].
  - left. intros a Ha. destruct (D1 a Ha) as (Hnone & x & e & before & groups & G1 & G2). subst s.
    destruct s' as [[? ?]|]; [contradiction|]. split; [reflexivity|]. exists x, e, before, groups. split; [|exact G2].
    destruct Ha as (_ & Hgp & _). destruct (get_pos_in _ _ _ Hgp) as [Hin Hidx]. rewrite (Hs1 _ (Hp a Hin Hidx)). exact G1.
  - right. left. subst s. destruct s' as [[n' sm']|]; [|contradiction]. destruct Hs2 as [<- Hs2].
    exists name, sc, sm'. split; [exact Eb|]. split; [reflexivity|]. exact (IH sc t sm sm' (Hch _ _ Eb) Hd Hs2).
  - right. right. left. subst s. destruct s' as [[n' sm']|]; [|contradiction]. destruct Hs2 as [<- Hs2].
    exists name, vals, sm'. split; [reflexivity|].
    destruct sm as [sa ss], sm' as [sa' ss']. cbn [ms_sub ms_args sng] in *. destruct Hs2 as [Hq1 Hq2]. subst ss.
    split; [destruct ss' as [[? ?]|]; [contradiction|reflexivity]|]. rewrite (Hq1 _ He). exact Hext.
  - right. right. right. exact Hh.
Qed.

Theorem do_parse_delivered_a c0 pre t m :
  esc_class_hg c0 = true -> t <> [] ->
  do_parse c0 (pre ++ dashdash :: t) = OOk m ->
  delivered_a (top_fuel c0) (build_self c0) t m.
Proof.
  unfold esc_class_hg. intros Hc Ht H. apply andb_true_iff in Hc as [Hc Hpf].
  destruct (esc_class_h_ok c0 Hc) as (Hv & Hok & Hig).
  destruct (do_parse_ok_inv_h _ _ _ Hc H) as (st & Eg & Hs).
  pose proof (gmw_delivered_a _ _ pre t ps_new st Hok Ht eq_refl eq_refl Eg) as Hd.
  exact (delivered_a_sng _ _ _ _ _ _ (pos_free_of _ _ _ Hpf) Hd Hs).
Qed.

Theorem parse_top_delivered_a c0 bin pre t m :
  esc_class_hg c0 = true -> is_set s_no_binary_name c0 = false -> c_bin_name c0 <> None -> t <> [] ->
  parse_top c0 (bin :: pre ++ dashdash :: t) = OOk m ->
  delivered_a (top_fuel c0) (build_self c0) t m.
Proof.
  intros Hc Hnb Hb Ht. unfold parse_top. rewrite Hnb. destruct (c_bin_name c0); [|contradiction].
  apply do_parse_delivered_a; assumption.
Qed.

(** * Non-vacuity: [EscapeAny.k_c0] -- the positional is an [Append] positional with [num_args(1)] *)
Example ex_append1_class : esc_class_hg k_c0 = true /\ exists a, sink1 (build_self k_c0) a /\ a_id a = [112].
Proof.
  split; [vm_compute; reflexivity|].
  destruct (get_pos (build_self k_c0) 1) as [a|] eqn:E; [|vm_compute in E; discriminate].
  exists a. split.
  - split; [vm_compute; reflexivity|]. split; [exact E|].
    vm_compute in E. injection E as <-. repeat split; vm_compute; reflexivity.
  - vm_compute in E. injection E as <-. reflexivity.
Qed.

(** with a delimiter on that positional each token is split on its own: [prog -- a,b c] gives the three
    values in TWO groups *)
Definition k_posd : arg := k_pos <| a_delim := Some 44 |>.
Definition kd_c0 : cmd := (cmd_new [112]) <| c_args := [k_opt; k_posd] |> <| c_bin_name := Some [112] |>.
Example ex_append1_delim :
  esc_class_hg kd_c0 = true /\
  match parse_top kd_c0 ([112] :: [[122]] ++ dashdash :: [[97; 44; 98]; [99]]) with
  | OOk (Matches args None) => opt_map m_raw (fm_get [112] args) = Some ([[[122]]] ++ [[[97]; [98]]; [[99]]])
  | _ => False
  end.
Proof. split; vm_compute; reflexivity. Qed.
Example ex_append1_run :
  match parse_top k_c0 ([112] :: [w_g; w_opt; w_v] ++ dashdash :: [t_sub; w_help; w_x; w_optw]) with
  | OOk (Matches args None) => opt_map m_raw (fm_get [112] args) = Some ([] ++ [[t_sub]; [w_help]; [w_x]; [w_optw]])
  | _ => False
  end.
Proof. vm_compute. reflexivity. Qed.
