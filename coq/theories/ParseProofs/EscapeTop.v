(** Property C05, round 2: from the token loop to [get_matches_with], [do_parse] and [parse_top].

    [level_tail_verbatim] / [level_prefix_entries]: one level, loop + [resolve_pending] + [add_env] +
    [add_defaults] + [validate]; [gmw_delivered] / [gmw_prefix_same]: induction over the recursion into
    subcommands; [do_parse_delivered], [parse_top_delivered], [do_parse_prefix_same],
    [parse_top_prefix_same]: the entry points, for the boolean class [esc_class]. *)
From ClapModel Require Import Base.Bytes Base.Machine Base.Utf8 Lex.OsStrExtModel.
From ClapModel Require Import Parse.Cmd Parse.Build Parse.Valid Parse.Matcher Parse.Errors Parse.Validator Parse.Parser.
From ClapModel Require Import ParseProofs.Safe ParseProofs.Invariant ParseProofs.Totality ParseProofs.TotalityMain
  ParseProofs.Sources ParseProofs.Spelling ParseProofs.Dispatch ParseProofs.Provenance
  ParseProofs.Escape ParseProofs.EscapeWalk ParseProofs.EscapeStore ParseProofs.EscapeSub.
From Coq Require Import ZArith Lia List Bool.
From RecordUpdate Require Import RecordSet.
Import RecordSetNotations.
Import ListNotations.
Open Scope N_scope.

(** what the storing step needs of a level *)
Definition lvl_store (c : cmd) : Prop :=
  (forall a, In a (c_args c) -> a_takes_value a = true -> a_get_action a = ASet \/ a_get_action a = AAppend)
  /\ (forall a, In a (c_args c) -> find_group c (a_id a) = None).

Lemma lvl_store_of_wfc c : Totality.wfc c -> assert_app c = true -> lvl_store c.
Proof.
  intros (W1 & W2 & W3 & W4 & W5) Happ. split.
  - intros a Hin Ht. destruct (TotalityMain.assert_app_arg _ _ Happ Hin) as [Haa _].
    unfold assert_arg in Haa. repeat (apply andb_true_iff in Haa as [Haa ?]).
    match goal with Hi : (vmax _ <=? vmax _) = true |- _ => rename Hi into HI end.
    unfold a_takes_value, r_takes_values in Ht. apply negb_true_iff, N.eqb_neq in Ht.
    destruct (a_get_action a); auto; cbn in HI; apply N.leb_le in HI; exfalso; lia.
  - intros a Hin. destruct (find_group c (a_id a)) as [g|] eqn:Eg; [|reflexivity]. exfalso.
    unfold find_group in Eg. apply List.find_some in Eg. destruct Eg as [Hg Hb]. apply beq_eq in Hb.
    pose proof (Provenance.assert_app_groups_sane c Happ g Hg) as Hs. rewrite Hb, (W3 a Hin) in Hs. discriminate.
Qed.

Section LevelTop.
Variable c : cmd.
Hypothesis Hl : lvl c.
Hypothesis Hst : lvl_store c.
Hypothesis Hnh : forall a, In a (c_args c) -> a_hyphen a = false.
Hypothesis Hdd : forall vaf, possible_subcommand c dashdash vaf = None.

Let W3 := proj1 Hl.
Let WP := proj1 (proj2 Hl).
Let WD := proj2 (proj2 Hl).

(** the class: after the escape every token goes to the multi-valued positional [a], whatever the
    positional counter is (a [last] positional / [allow_missing_positional]), or the counter
    cannot move ([sticky]) and [a] is the positional at its initial value *)
Definition sink_from (pc0 : N) (a : arg) : Prop :=
  (forall pc, sink_arg c pc = Some a) \/ (sticky c = true /\ sink_arg c pc0 = Some a).

Lemma sink_from_at pc0 a q : sink_from pc0 a -> (sticky c = true -> q = pc0) -> sink_arg c q = Some a.
Proof. intros [H|[Hs H]] Hq; [apply H|rewrite (Hq Hs); exact H]. Qed.

Lemma sink_in pc a : sink_arg c pc = Some a -> In a (c_args c) /\ a_index a <> None.
Proof. intros H. destruct (sink_arg_spec c _ _ H) as (_ & Hg & _). exact (get_pos_in _ _ _ Hg). Qed.

Lemma pend_ti_le st : TV c st -> pend_ti (mt st) <= N.of_nat (length (pend_raw (mt st))).
Proof.
  intros H. unfold pend_ti, pend_raw. destruct (mt_pending (mt st)) as [p|] eqn:E; [|cbn; lia].
  destruct (p_trailing_idx p) as [t0|] eqn:Et; [|lia]. exact (proj2 (H p E) t0 Et).
Qed.

Lemma flush_sub a st st1 : flush_for c a st = ROk st1 -> mt_sub (mt st1) = mt_sub (mt st).
Proof.
  unfold flush_for. destruct (_ || _).
  - intros E. pose proof (resolve_pending_sub c (mt_sub (mt st)) st eq_refl) as Hk. rewrite E in Hk. exact Hk.
  - intros E. injection E as <-. reflexivity.
Qed.

(** in trailing mode at a sink the loop can only end with [LDone] *)
Lemma trailing_sink_done toks ls st lr a :
  l_trailing ls = true -> sink_arg c (l_pos ls) = Some a -> parse_loop c toks ls st = ROk lr ->
  exists st1, lr = LDone st1.
Proof.
  intros Htr Hs E.
  destruct (trailing_outcome c toks ls st Htr) as [ls' st2 _ Er|pre tok rest ls1 st1 Eq Hr Hstop].
  - rewrite E in Er. injection Er as ->. eexists; reflexivity.
  - exfalso. rewrite E in Hstop. pose proof (truns_sink c _ _ _ _ _ _ _ Hs Hr) as Hs1.
    destruct (sink_arg_spec c _ _ Hs1) as (Hlow & Hg & _).
    inversion Hstop as [| pc' Hpc Hgn _ | |]; subst.
    rewrite (pos_correct_sink c _ _ _ Hlow) in Hpc. injection Hpc as <-. rewrite Hg in Hgn. discriminate.
Qed.

(** after the loop and [resolve_pending]: the entry of the sink positional ends with the tail,
    every entry outside [touched a] is the one of the state [flush_for a st] *)
Lemma trailing_sink_store x t ls st st1 st2 a :
  l_trailing ls = true -> sink_arg c (l_pos ls) = Some a -> TV c st -> t <> [] ->
  parse_loop c (x ++ t) ls st = ROk (LDone st1) -> resolve_pending c st1 = ROk st2 ->
  exists st0 e gs early' t',
    flush_for c a st = ROk st0 /\
    get_entry (a_id a) st2 = Some e /\ m_raw e = gs ++ [early' ++ t'] /\ m_source e = Some SCmdLine /\
    tail_form c a t = Some t' /\ mt_pending (mt st2) = None /\
    (forall y, touched c a y = false -> get_entry y st2 = get_entry y st0) /\
    mt_sub (mt st2) = mt_sub (mt st0).
Proof.
  intros Htr Hs HTV Ht E Er.
  destruct (x ++ t) as [|tok tail] eqn:Ext; [destruct x; [contradiction|discriminate]|].
  destruct (trailing_done_sink c tok tail ls st st1 a Htr Hs E)
    as (st0 & p & F & Hp & Hid & Hraw & Hti & Hargs & Hsub & _).
  apply beq_eq in Hid. destruct (sink_in _ _ Hs) as [Hin Hidx].
  assert (Hf : find_arg c (p_id p) = Some a) by (rewrite Hid; apply W3; exact Hin).
  pose proof (flush_TV c a st st0 HTV F) as HTV0.
  rewrite <- Ext, app_assoc in Hraw.
  assert (Hk : pend_ti (mt st0) <= N.of_nat (length (pend_raw (mt st0) ++ x))).
  { pose proof (pend_ti_le st0 HTV0). rewrite app_length. lia. }
  destruct (sink_resolve c st1 p a _ t _ st2 (proj2 Hst a Hin) (proj1 Hst a Hin (WP a Hin Hidx)) Hp Hf Hraw Ht Hti Hk Er)
    as (e & gs & early' & t' & G1 & G2 & G3 & _ & G5 & G6).
  exists st0, e, gs, early', t'. repeat split; try assumption.
  - intros y Hy. rewrite (resolve_pending_frame c st1 st2 p a y Hp Hf Hy Er). unfold get_entry. rewrite Hargs. reflexivity.
  - pose proof (resolve_pending_sub c (mt_sub (mt st1)) st1 eq_refl) as Hk2. rewrite Er in Hk2. cbn in Hk2.
    unfold Dispatch.S_ in Hk2. congruence.
Qed.

(** ** the phases after the loop *)
Lemma post_ok_inv parsed st' : post c parsed = ROk st' ->
  exists stp s2 s3, parsed = ROk stp /\ resolve_pending c stp = ROk s2 /\ add_env c s2 = ROk s3 /\
                    add_defaults c s3 = ROk st'.
Proof.
  destruct parsed as [stp|e stp|x]; cbn [post]; [| |discriminate].
  - destruct (resolve_pending c stp) as [s2|e2 s2|x2] eqn:E2; cbn [rbind]; try discriminate.
    destruct (add_env c s2) as [s3|e3 s3|x3] eqn:E3; cbn [rbind]; try discriminate.
    destruct (add_defaults c s3) as [s4|e4 s4|x4] eqn:E4; cbn [rbind]; try discriminate.
    unfold vres_to_res. destruct (validate c (mt s4)); try discriminate.
    intros H. injection H as <-. exists stp, s2, s3. auto.
  - intros H. exfalso. destruct (is_set s_ignore_errors c); [|discriminate].
    destruct (add_env c stp) as [s1|e1 s1|x1]; [| |discriminate];
      (destruct (add_defaults c s1) as [s2|e2 s2|x2]; discriminate).
Qed.

Lemma phases_keep s2 s3 st' y e :
  mt_pending (mt s2) = None -> add_env c s2 = ROk s3 -> add_defaults c s3 = ROk st' ->
  find_group c y = None -> get_entry y s2 = Some e -> get_entry y st' = Some e.
Proof.
  intros Hp He Hd Hg Hy.
  destruct (add_env_frame c s2 s3 Hp He) as (Hp3 & _ & Hk & _).
  destruct (add_defaults_frame c s3 st' Hp3 Hd) as (_ & _ & _ & Hk2 & _).
  apply Hk2. apply Hk; assumption.
Qed.

Lemma phases_cmdline s2 s3 st' y e :
  mt_pending (mt s2) = None -> add_env c s2 = ROk s3 -> add_defaults c s3 = ROk st' ->
  find_group c y = None -> get_entry y st' = Some e -> m_source e = Some SCmdLine -> get_entry y s2 = Some e.
Proof.
  intros Hp He Hd Hg Hy Hsrc.
  destruct (add_env_frame c s2 s3 Hp He) as (Hp3 & _ & Hk & Hnew & _).
  destruct (add_defaults_frame c s3 st' Hp3 Hd) as (_ & _ & _ & Hk2 & Hnew2).
  unfold get_entry in *.
  destruct (fm_get y (mt_args (mt s2))) as [e2|] eqn:E2.
  - rewrite (Hk2 _ _ (Hk _ _ Hg E2)) in Hy. exact Hy.
  - exfalso. destruct (fm_get y (mt_args (mt s3))) as [e3|] eqn:E3.
    + destruct (Hnew _ _ Hg E2 E3) as [Hs3 _]. rewrite (Hk2 _ _ E3) in Hy. injection Hy as <-. congruence.
    + pose proof (Hnew2 _ _ E3 Hy). congruence.
Qed.

Definition ls0 : lstate := mkL PSValuesDone 1 false false.

Lemma TV0 st0 : mt_pending (mt st0) = None -> TV c st0 /\ LTV c ls0.
Proof. intros H. split; [apply TV_none; exact H|]. intros i Hi. discriminate. Qed.

(** (1) for the states the loop is entered with (no pending occurrence: [ps_new], [sub_init]): a
    help/version outcome of [pre ++ -- :: t] is the outcome of [pre ++ -- :: t2] for every tail [t2] *)
Theorem display_not_from_tail_initial pre t t2 st0 e st' :
  mt_pending (mt st0) = None ->
  parse_loop c (pre ++ dashdash :: t) ls0 st0 = RErr e st' -> is_display (e_kind e) = true ->
  parse_loop c (pre ++ dashdash :: t2) ls0 st0 = RErr e st'.
Proof.
  intros Hp0. destruct (TV0 st0 Hp0) as [HTV HLTV].
  exact (display_not_from_tail c W3 WP Hnh Hdd WD pre t t2 ls0 st0 e st' HTV HLTV).
Qed.

(** (3), one level: a successful [get_matches_with] on [pre ++ -- :: t] has stored [t] (in its stored form) at the
    end of the last value group of the sink positional and recorded no subcommand -- unless [pre] itself
    dispatched to a subcommand or an external subcommand, which then receives [-- :: t] unread *)
Theorem level_tail_verbatim f pre t st0 st' :
  t <> [] -> mt_pending (mt st0) = None ->
  get_matches_with (S f) c (pre ++ dashdash :: t) st0 = ROk st' ->
  (forall a, sink_from 1 a ->
    exists st1 e gs early' t',
      parse_loop c (pre ++ dashdash :: t) ls0 st0 = ROk (LDone st1) /\
      mt_sub (mt st') = mt_sub (mt st0) /\
      get_entry (a_id a) st' = Some e /\ m_raw e = gs ++ [early' ++ t'] /\ m_source e = Some SCmdLine /\
      tail_form c a t = Some t')
  \/ (exists n k v st1 r, parse_loop c (pre ++ dashdash :: t) ls0 st0 = ROk (LSub n k v st1 (r ++ dashdash :: t)))
  \/ (exists tk r st1, parse_loop c (pre ++ dashdash :: t) ls0 st0 = ROk (LExternal tk (r ++ dashdash :: t) st1)).
Proof.
  intros Ht Hp0 H. rewrite gmw_unfold in H.
  destruct (post_ok_inv _ _ H) as (stp & s2 & s3 & Hparsed & Hr & He & Hd).
  destruct (TV0 st0 Hp0) as [HTV HLTV].
  pose proof (escape_line_one c W3 WP Hnh Hdd pre t ls0 st0 HTV HLTV) as Hs.
  unfold parsed_of in Hparsed. fold ls0 in Hparsed.
  remember (parse_loop c (pre ++ dashdash :: t) ls0 st0) as R eqn:ER.
  destruct Hs as [x ls' st1 Htr H1 Hpos Hsub|e1 s1|x|n k v s1 r|r s1|tk r s1]; cbn [rbind] in Hparsed; try discriminate Hparsed.
  - left. intros a Hsink. symmetry in ER.
    destruct (parse_loop c (x ++ t) ls' st1) as [lr|e1 s1|x1] eqn:EL; cbn [rbind] in Hparsed; try discriminate Hparsed.
    assert (Hsa : sink_arg c (l_pos ls') = Some a) by (apply (sink_from_at 1 a); [exact Hsink|exact (proj1 Hpos)]).
    destruct (trailing_sink_done _ _ _ _ _ Htr Hsa EL) as [st1' ->]. injection Hparsed as ->.
    destruct (trailing_sink_store x t ls' st1 stp s2 a Htr Hsa H1 Ht EL Hr)
      as (stb & e & gs & early' & t' & F & G1 & G2 & G3 & G4 & G5 & _ & G7).
    exists stp, e, gs, early', t'. split; [reflexivity|]. split.
    + destruct (add_env_frame c s2 s3 G5 He) as (Hp3 & Hs3 & _).
      destruct (add_defaults_frame c s3 st' Hp3 Hd) as (_ & Hs4 & _).
      rewrite Hs4, Hs3, G7, (flush_sub _ _ _ F). exact Hsub.
    + destruct (sink_in _ _ Hsa) as [Hin _].
      split; [eapply phases_keep; [exact G5|exact He|exact Hd|exact (proj2 Hst a Hin)|exact G1]|]. auto.
  - right. left. exists n, k, v, s1, r. reflexivity.
  - right. right. exists tk, r, s1. reflexivity.
Qed.

(** ** (4), one level: what the options and flags before the [--] got does not depend on the tail *)
Lemma trailing_base l ls st stl sr a :
  l_trailing ls = true -> sink_arg c (l_pos ls) = Some a -> TV c st ->
  parse_loop c l ls st = ROk (LDone stl) -> resolve_pending c stl = ROk sr ->
  exists st0, flush_for c a st = ROk st0 /\ mt_pending (mt sr) = None /\
              (forall y, touched c a y = false -> get_entry y sr = get_entry y st0) /\
              mt_sub (mt sr) = mt_sub (mt st).
Proof.
  intros Htr Hs HTV E Er. destruct l as [|tok tail].
  - cbn [parse_loop] in E. injection E as <-.
    pose proof (Spelling.resolve_pending_clears c st sr Er) as Hnone.
    assert (Hsub : mt_sub (mt sr) = mt_sub (mt st)).
    { pose proof (resolve_pending_sub c (mt_sub (mt st)) st eq_refl) as Hk. rewrite Er in Hk. exact Hk. }
    destruct (sink_in _ _ Hs) as [Hin _].
    unfold flush_for.
    destruct (negb (match pending_arg_id (mt st) with Some i => beq i (a_id a) | None => false end)
              || negb (a_multiple_values a)) eqn:Eb.
    + exists sr. split; [exact Er|]. split; [exact Hnone|]. split; [reflexivity|exact Hsub].
    + exists st. split; [reflexivity|]. split; [exact Hnone|]. split; [|exact Hsub]. intros y Hy.
      apply orb_false_elim in Eb. destruct Eb as [Eb _]. apply negb_false_iff in Eb.
      unfold pending_arg_id in Eb. destruct (mt_pending (mt st)) as [p|] eqn:Ep; cbn [opt_map] in Eb; [|discriminate].
      apply beq_eq in Eb.
      apply (resolve_pending_frame c st sr p a y Ep); [rewrite Eb; apply W3; exact Hin|exact Hy|exact Er].
  - destruct (trailing_sink_store [] (tok :: tail) ls st stl sr a Htr Hs HTV ltac:(discriminate) E Er)
      as (st0 & _ & _ & _ & _ & F & _ & _ & _ & _ & G5 & G6 & G7).
    exists st0. split; [exact F|]. split; [exact G5|]. split; [exact G6|]. rewrite G7. exact (flush_sub _ _ _ F).
Qed.

Theorem level_prefix_entries f pre t1 t2 st0 s1 s2 :
  mt_pending (mt st0) = None ->
  get_matches_with (S f) c (pre ++ dashdash :: t1) st0 = ROk s1 ->
  get_matches_with (S f) c (pre ++ dashdash :: t2) st0 = ROk s2 ->
  (forall a, sink_from 1 a ->
    exists l1 l2,
      parse_loop c (pre ++ dashdash :: t1) ls0 st0 = ROk (LDone l1) /\
      parse_loop c (pre ++ dashdash :: t2) ls0 st0 = ROk (LDone l2) /\
      mt_sub (mt s1) = mt_sub (mt st0) /\ mt_sub (mt s2) = mt_sub (mt st0) /\
      forall y e, touched c a y = false -> find_group c y = None ->
                  get_entry y s1 = Some e -> m_source e = Some SCmdLine -> get_entry y s2 = Some e)
  \/ (exists n k v st1 r,
        parse_loop c (pre ++ dashdash :: t1) ls0 st0 = ROk (LSub n k v st1 (r ++ dashdash :: t1)) /\
        parse_loop c (pre ++ dashdash :: t2) ls0 st0 = ROk (LSub n k v st1 (r ++ dashdash :: t2)))
  \/ (exists tk r st1,
        parse_loop c (pre ++ dashdash :: t1) ls0 st0 = ROk (LExternal tk (r ++ dashdash :: t1) st1) /\
        parse_loop c (pre ++ dashdash :: t2) ls0 st0 = ROk (LExternal tk (r ++ dashdash :: t2) st1)).
Proof.
  intros Hp0 H1 H2. rewrite gmw_unfold in H1, H2.
  destruct (post_ok_inv _ _ H1) as (p1 & r1 & e1 & Hparsed1 & Hr1 & He1 & Hd1).
  destruct (post_ok_inv _ _ H2) as (p2 & r2 & e2 & Hparsed2 & Hr2 & He2 & Hd2).
  destruct (TV0 st0 Hp0) as [HTV HLTV].
  pose proof (escape_line_sim c W3 WP Hnh Hdd pre t1 t2 ls0 st0 HTV HLTV) as Hs.
  unfold parsed_of in Hparsed1, Hparsed2. fold ls0 in Hparsed1, Hparsed2.
  remember (parse_loop c (pre ++ dashdash :: t1) ls0 st0) as R1 eqn:ER1.
  remember (parse_loop c (pre ++ dashdash :: t2) ls0 st0) as R2 eqn:ER2.
  destruct Hs as [x ls' st1 Htr HT Hpos Hsub|e0 s0|x|n k v s0 r|r s0|tk r s0];
    cbn [rbind] in Hparsed1, Hparsed2; try discriminate Hparsed1.
  - left. intros a Hsink.
    assert (Hsa : sink_arg c (l_pos ls') = Some a) by (apply (sink_from_at 1 a); [exact Hsink|exact (proj1 Hpos)]).
    destruct (parse_loop c (x ++ t1) ls' st1) as [lr1|? ?|?] eqn:EL1; cbn [rbind] in Hparsed1; try discriminate Hparsed1.
    destruct (parse_loop c (x ++ t2) ls' st1) as [lr2|? ?|?] eqn:EL2; cbn [rbind] in Hparsed2; try discriminate Hparsed2.
    destruct (trailing_sink_done _ _ _ _ _ Htr Hsa EL1) as [l1 ->].
    destruct (trailing_sink_done _ _ _ _ _ Htr Hsa EL2) as [l2 ->].
    injection Hparsed1 as ->. injection Hparsed2 as ->.
    exists p1, p2. split; [reflexivity|]. split; [reflexivity|].
    destruct (trailing_base _ _ _ _ _ _ Htr Hsa HT EL1 Hr1) as (b1 & F1 & N1 & B1 & S1).
    destruct (trailing_base _ _ _ _ _ _ Htr Hsa HT EL2 Hr2) as (b2 & F2 & N2 & B2 & S2).
    rewrite F1 in F2. injection F2 as <-.
    destruct (add_env_frame c r1 e1 N1 He1) as (Q1 & Q2 & _). destruct (add_defaults_frame c e1 s1 Q1 Hd1) as (_ & Q3 & _).
    destruct (add_env_frame c r2 e2 N2 He2) as (Q4 & Q5 & _). destruct (add_defaults_frame c e2 s2 Q4 Hd2) as (_ & Q6 & _).
    split; [rewrite Q3, Q2, S1; exact Hsub|]. split; [rewrite Q6, Q5, S2; exact Hsub|].
    intros y e Hy Hg Hy1 Hsrc.
    pose proof (phases_cmdline _ _ _ _ _ N1 He1 Hd1 Hg Hy1 Hsrc) as Hq.
    rewrite (B1 y Hy), <- (B2 y Hy) in Hq.
    exact (phases_keep _ _ _ _ _ N2 He2 Hd2 Hg Hq).
  - right. left. exists n, k, v, s0, r. split; reflexivity.
  - right. right. exists tk, r, s0. split; reflexivity.
Qed.
End LevelTop.

(** * The whole tree *)
Definition sink_of := sink_from.

Fixpoint esc_ok (fuel : nat) (c : cmd) : Prop :=
  match fuel with
  | O => False
  | S f => Totality.wfc c /\ assert_app c = true
           /\ is_set s_ignore_errors c = false
           /\ (forall a, In a (c_args c) -> a_hyphen a = false)
           /\ (forall vaf, possible_subcommand c dashdash vaf = None)
           /\ forall name sc, build_subcommand c name = Some sc -> esc_ok f sc
  end.

(** where the tail went: into the sink positional of this level (and then no subcommand is
    recorded), or to the subcommand [pre] selected, or verbatim to the external subcommand [pre] selected *)
Fixpoint delivered (fuel : nat) (c : cmd) (t : list bytes) (m : matches) : Prop :=
  match fuel with
  | O => False
  | S f =>
      (forall a, sink_from c 1 a ->
         ms_sub m = None /\
         exists e gs early' t', fm_get (a_id a) (ms_args m) = Some e /\ m_raw e = gs ++ [early' ++ t']
                                /\ m_source e = Some SCmdLine /\ tail_form c a t = Some t')
      \/ (exists name sc sm, build_subcommand c name = Some sc /\ ms_sub m = Some (c_name sc, sm) /\ delivered f sc t sm)
      \/ (exists name vals, ms_sub m = Some (name, Matches [(ext_id, ext_marg (vals ++ dashdash :: t))] None))
  end.

Lemma build_found c n sc0 : find_subcommand c n = Some sc0 -> build_subcommand c (c_name sc0) <> None.
Proof.
  unfold find_subcommand. intros H. apply List.find_some in H. destruct H as [Hin _].
  unfold build_subcommand. destruct (List.find (fun s => beq (c_name s) (c_name sc0)) (c_subs c)) eqn:E; [discriminate|].
  apply (List.find_none _ _ E) in Hin. rewrite beq_refl in Hin. discriminate.
Qed.

Theorem gmw_delivered : forall fuel c pre t st0 st',
  esc_ok fuel c -> t <> [] -> mt_pending (mt st0) = None -> mt_sub (mt st0) = None ->
  get_matches_with fuel c (pre ++ dashdash :: t) st0 = ROk st' ->
  delivered fuel c t (into_inner (mt st')).
Proof.
  induction fuel as [|f IH]; intros c pre t st0 st' Hok Ht Hp0 Hs0 H; [destruct Hok|].
  destruct Hok as (Hwf & Happ & Hig & Hnh & Hdd & Hch).
  pose proof (lvl_of_wfc c Hwf Happ) as Hl. pose proof (lvl_store_of_wfc c Hwf Happ) as Hst.
  destruct (level_tail_verbatim c Hl Hst Hnh Hdd f pre t st0 st' Ht Hp0 H) as [Hc|[Hc|Hc]].
  - cbn [delivered]. left. intros a Ha. destruct (Hc a Ha) as (st1 & e & gs & early' & t' & _ & G1 & G2 & G3 & G4 & G5).
    split; [cbn; rewrite G1; exact Hs0|]. exists e, gs, early', t'. auto.
  - destruct Hc as (n & k & v & st1 & r & EL). rewrite gmw_unfold in H.
    destruct (post_ok_inv c _ _ H) as (stp & s2 & s3 & Hparsed & _).
    pose proof (post_keeps_sub c (mt_sub (mt stp)) (ROk stp) eq_refl) as Hk.
    rewrite Hparsed in H. rewrite H in Hk. cbn in Hk. unfold Dispatch.S_ in Hk.
    unfold parsed_of in Hparsed. change (mkL PSValuesDone 1 false false) with ls0 in Hparsed. rewrite EL in Hparsed.
    cbn [rbind] in Hparsed. unfold after_sub in Hparsed.
    destruct (is_set s_args_negate_subs c && v); [discriminate|].
    destruct (find_subcommand c n) as [sc0|] eqn:Ef; cbn [expect rbind] in Hparsed; [|discriminate].
    destruct (build_subcommand c (c_name sc0)) as [sc|] eqn:Eb; [|exfalso; exact (build_found c n sc0 Ef Eb)].
    destruct (negb (assert_app sc)); [discriminate|].
    destruct (get_matches_with f sc (r ++ dashdash :: t) (sub_init k st1)) as [sub_st|e sub_st|x] eqn:Eg; [| |discriminate].
    2:{ rewrite Hig in Hparsed. discriminate. }
    injection Hparsed as <-.
    cbn [delivered]. right. left. exists (c_name sc0), sc, (into_inner (mt sub_st)).
    split; [exact Eb|]. split; [cbn [into_inner ms_sub]; rewrite Hk; reflexivity|].
    apply (IH sc r t (sub_init k st1) sub_st (Hch _ _ Eb) Ht); [| |exact Eg]; unfold sub_init; destruct k; reflexivity.
  - destruct Hc as (tk & r & st1 & EL). rewrite gmw_unfold in H.
    destruct (post_ok_inv c _ _ H) as (stp & s2 & s3 & Hparsed & _).
    pose proof (post_keeps_sub c (mt_sub (mt stp)) (ROk stp) eq_refl) as Hk.
    rewrite Hparsed in H. rewrite H in Hk. cbn in Hk. unfold Dispatch.S_ in Hk.
    unfold parsed_of in Hparsed. change (mkL PSValuesDone 1 false false) with ls0 in Hparsed. rewrite EL in Hparsed.
    cbn [rbind] in Hparsed.
    pose proof (external_verbatim c tk (r ++ dashdash :: t) st1) as Hx. rewrite Hparsed in Hx. cbn [holds] in Hx.
    cbn [delivered]. right. right. exists tk, r. cbn [into_inner ms_sub]. rewrite Hk, Hx. reflexivity.
Qed.

(** (4) over the tree: two successful parses of the same prefix with different tails agree, at the level
    that consumed the [--], on every command-line entry outside [touched a] *)
Fixpoint prefix_same (fuel : nat) (c : cmd) (m1 m2 : matches) : Prop :=
  match fuel with
  | O => False
  | S f =>
      (forall a, sink_from c 1 a ->
         ms_sub m1 = None /\ ms_sub m2 = None /\
         forall y e, touched c a y = false -> find_group c y = None ->
                     fm_get y (ms_args m1) = Some e -> m_source e = Some SCmdLine -> fm_get y (ms_args m2) = Some e)
      \/ (exists name sc sm1 sm2, build_subcommand c name = Some sc /\ ms_sub m1 = Some (c_name sc, sm1)
                                  /\ ms_sub m2 = Some (c_name sc, sm2) /\ ms_args m1 = ms_args m2
                                  /\ prefix_same f sc sm1 sm2)
      \/ (exists name vals t1 t2,
            ms_sub m1 = Some (name, Matches [(ext_id, ext_marg (vals ++ dashdash :: t1))] None) /\
            ms_sub m2 = Some (name, Matches [(ext_id, ext_marg (vals ++ dashdash :: t2))] None) /\
            ms_args m1 = ms_args m2)
  end.

Lemma after_sub_ok f c n k v st1 rest stp :
  is_set s_ignore_errors c = false -> after_sub f c n k v st1 rest = ROk stp ->
  exists sc0 sc sub_st, find_subcommand c n = Some sc0 /\ build_subcommand c (c_name sc0) = Some sc /\
    get_matches_with f sc rest (sub_init k st1) = ROk sub_st /\ stp = record_sub st1 (c_name sc) sub_st.
Proof.
  intros Hig. unfold after_sub. destruct (is_set s_args_negate_subs c && v); [discriminate|].
  destruct (find_subcommand c n) as [sc0|] eqn:Ef; cbn [expect rbind]; [|discriminate].
  destruct (build_subcommand c (c_name sc0)) as [sc|] eqn:Eb; [|intros _; exfalso; exact (build_found c n sc0 Ef Eb)].
  destruct (negb (assert_app sc)); [discriminate|].
  destruct (get_matches_with f sc rest (sub_init k st1)) as [sub_st|e sub_st|x] eqn:Eg; [| |discriminate].
  - intros H. injection H as <-. exists sc0, sc, sub_st. auto.
  - rewrite Hig. discriminate.
Qed.

Theorem gmw_prefix_same : forall fuel c pre t1 t2 st0 s1 s2,
  esc_ok fuel c -> mt_pending (mt st0) = None -> mt_sub (mt st0) = None ->
  get_matches_with fuel c (pre ++ dashdash :: t1) st0 = ROk s1 ->
  get_matches_with fuel c (pre ++ dashdash :: t2) st0 = ROk s2 ->
  prefix_same fuel c (into_inner (mt s1)) (into_inner (mt s2)).
Proof.
  induction fuel as [|f IH]; intros c pre t1 t2 st0 s1 s2 Hok Hp0 Hs0 H1 H2; [destruct Hok|].
  destruct Hok as (Hwf & Happ & Hig & Hnh & Hdd & Hch).
  pose proof (lvl_of_wfc c Hwf Happ) as Hl. pose proof (lvl_store_of_wfc c Hwf Happ) as Hst.
  destruct (level_prefix_entries c Hl Hst Hnh Hdd f pre t1 t2 st0 s1 s2 Hp0 H1 H2) as [Hc|[Hc|Hc]].
  - cbn [prefix_same]. left. intros a Ha. destruct (Hc a Ha) as (l1 & l2 & _ & _ & G1 & G2 & G3).
    split; [cbn; rewrite G1; exact Hs0|]. split; [cbn; rewrite G2; exact Hs0|]. exact G3.
  - destruct Hc as (n & k & v & st1 & r & EL1 & EL2). rewrite gmw_unfold in H1, H2.
    destruct (post_ok_inv c _ _ H1) as (p1 & q1 & e1 & Hparsed1 & A1 & A2 & A3).
    destruct (post_ok_inv c _ _ H2) as (p2 & q2 & e2 & Hparsed2 & B1 & B2 & B3).
    pose proof (post_keeps_sub c (mt_sub (mt p1)) (ROk p1) eq_refl) as Hk1.
    pose proof (post_keeps_sub c (mt_sub (mt p2)) (ROk p2) eq_refl) as Hk2.
    rewrite Hparsed1 in H1. rewrite H1 in Hk1. rewrite Hparsed2 in H2. rewrite H2 in Hk2.
    cbn in Hk1, Hk2. unfold Dispatch.S_ in Hk1, Hk2.
    unfold parsed_of in Hparsed1, Hparsed2. change (mkL PSValuesDone 1 false false) with ls0 in Hparsed1, Hparsed2.
    rewrite EL1 in Hparsed1. rewrite EL2 in Hparsed2. cbn [rbind] in Hparsed1, Hparsed2.
    destruct (after_sub_ok _ _ _ _ _ _ _ _ Hig Hparsed1) as (sc0 & sc & sub1 & Ef & Eb & Eg1 & ->).
    destruct (after_sub_ok _ _ _ _ _ _ _ _ Hig Hparsed2) as (sc0' & sc' & sub2 & Ef' & Eb' & Eg2 & ->).
    rewrite Ef in Ef'. injection Ef' as <-. rewrite Eb in Eb'. injection Eb' as <-.
    rewrite record_sub_ssub in A1, B1.
    destruct (phases_ssub c _ _ _ _ _ _ _ _ _ A1 A2 A3 B1 B2 B3) as (d0 & -> & ->).
    cbn [prefix_same]. right. left. exists (c_name sc0), sc, (into_inner (mt sub1)), (into_inner (mt sub2)).
    split; [exact Eb|]. split; [cbn [into_inner ms_sub]; rewrite Hk1; reflexivity|].
    split; [cbn [into_inner ms_sub]; rewrite Hk2; reflexivity|]. split; [reflexivity|].
    apply (IH sc r t1 t2 (sub_init k st1) sub1 sub2 (Hch _ _ Eb)); [| |exact Eg1|exact Eg2]; unfold sub_init; destruct k; reflexivity.
  - destruct Hc as (tk & r & st1 & EL1 & EL2). rewrite gmw_unfold in H1, H2.
    destruct (post_ok_inv c _ _ H1) as (p1 & q1 & e1 & Hparsed1 & A1 & A2 & A3).
    destruct (post_ok_inv c _ _ H2) as (p2 & q2 & e2 & Hparsed2 & B1 & B2 & B3).
    pose proof (post_keeps_sub c (mt_sub (mt p1)) (ROk p1) eq_refl) as Hk1.
    pose proof (post_keeps_sub c (mt_sub (mt p2)) (ROk p2) eq_refl) as Hk2.
    rewrite Hparsed1 in H1. rewrite H1 in Hk1. rewrite Hparsed2 in H2. rewrite H2 in Hk2.
    cbn in Hk1, Hk2. unfold Dispatch.S_ in Hk1, Hk2.
    unfold parsed_of in Hparsed1, Hparsed2. change (mkL PSValuesDone 1 false false) with ls0 in Hparsed1, Hparsed2.
    rewrite EL1 in Hparsed1. rewrite EL2 in Hparsed2. cbn [rbind] in Hparsed1, Hparsed2.
    pose proof (external_verbatim c tk (r ++ dashdash :: t1) st1) as Hx1. rewrite Hparsed1 in Hx1. cbn [holds] in Hx1.
    pose proof (external_verbatim c tk (r ++ dashdash :: t2) st1) as Hx2. rewrite Hparsed2 in Hx2. cbn [holds] in Hx2.
    assert (Hargs : mt_args (mt s1) = mt_args (mt s2)).
    { subst p1 p2.
      destruct (phases_ssub c (Some (tk, Matches [(ext_id, ext_marg (r ++ dashdash :: t1))] None))
                  (Some (tk, Matches [(ext_id, ext_marg (r ++ dashdash :: t2))] None)) st1 _ _ _ _ _ _ A1 A2 A3 B1 B2 B3)
        as (d0 & -> & ->). reflexivity. }
    cbn [prefix_same]. right. right. exists tk, r, t1, t2. cbn [into_inner ms_sub ms_args]. rewrite Hk1, Hk2, Hx1, Hx2.
    split; [reflexivity|]. split; [reflexivity|exact Hargs].
Qed.

(** * [do_parse] / [parse_top] *)
Fixpoint esc_okb (fuel : nat) (c : cmd) : bool :=
  match fuel with
  | O => false
  | S f =>
      negb (is_set s_ignore_errors c) && forallb (fun a => negb (a_hyphen a)) (c_args c)
      && negb (is_some (possible_subcommand c dashdash false)) && negb (is_some (possible_subcommand c dashdash true))
      && forallb (fun s => match build_subcommand c (c_name s) with Some sc => esc_okb f sc | None => false end) (c_subs c)
  end.

Lemma esc_ok_of : forall f c, tree_ok f c -> esc_okb f c = true -> esc_ok f c.
Proof.
  induction f as [|f IH]; intros c Hok Hb; [destruct Hok|].
  destruct Hok as (Hwf & Happ & Hch). cbn [esc_okb] in Hb.
  apply andb_true_iff in Hb as [Hb H5]. apply andb_true_iff in Hb as [Hb H4].
  apply andb_true_iff in Hb as [Hb H3]. apply andb_true_iff in Hb as [H1 H2].
  cbn [esc_ok]. split; [exact Hwf|]. split; [exact Happ|]. split; [apply negb_true_iff; exact H1|].
  split; [intros a Hin; rewrite forallb_forall in H2; apply negb_true_iff; apply H2; exact Hin|].
  split.
  - intros [|].
    + destruct (possible_subcommand c dashdash true); [discriminate|reflexivity].
    + destruct (possible_subcommand c dashdash false); [discriminate|reflexivity].
  - intros name sc Hbs. apply IH; [exact (Hch name sc Hbs)|].
    pose proof Hbs as Hbs'. unfold build_subcommand in Hbs'.
    destruct (List.find (fun s => beq (c_name s) name) (c_subs c)) as [s0|] eqn:Ef; [|discriminate].
    apply List.find_some in Ef. destruct Ef as [Hin Hn]. apply beq_eq in Hn.
    rewrite forallb_forall in H5. specialize (H5 s0 Hin). rewrite Hn, Hbs in H5. exact H5.
Qed.

Fixpoint globals_free (c : cmd) : bool :=
  match c with
  | mkCmd _ _ _ _ _ _ args _ subs _ _ _ _ _ _ _ _ _ =>
      forallb (fun a => negb (a_global a)) args
      && (fix go (l : list cmd) : bool := match l with [] => true | s :: t => globals_free s && go t end) subs
  end.

Lemma globals_free_spec c : globals_free c = true ->
  filter a_global (c_args c) = [] /\ forall s, In s (c_subs c) -> globals_free s = true.
Proof.
  destruct c as [? ? ? ? ? ? args ? subs ? ? ? ? ? ? ? ? ?]. cbn [globals_free c_args c_subs].
  intros H. apply andb_true_iff in H as [H1 H2]. split.
  - clear H2. induction args as [|a l IHl]; [reflexivity|]. cbn [forallb] in H1. apply andb_true_iff in H1 as [Ha Hl].
    cbn [filter]. apply negb_true_iff in Ha. rewrite Ha. apply IHl. exact Hl.
  - clear H1. induction subs as [|s0 l IHl]; intros s Hin; [destruct Hin|].
    apply andb_true_iff in H2 as [Hs Hl]. destruct Hin as [<-|Hin]; [exact Hs|apply IHl; assumption].
Qed.

Lemma used_global_args_free : forall f c m, globals_free c = true -> used_global_args f c m = [].
Proof.
  induction f as [|f IH]; intros c m H; [reflexivity|]. cbn [used_global_args].
  destruct (globals_free_spec c H) as [H1 H2]. rewrite H1. cbn [map app].
  destruct (ms_sub m) as [[name sm]|]; [|reflexivity].
  destruct (find_subcommand c name) as [sc|] eqn:Ef; [|reflexivity].
  apply IH. apply H2. unfold find_subcommand in Ef. exact (proj1 (List.find_some _ _ Ef)).
Qed.

Lemma fill_nil : forall f m, fill_in_global_values f [] m [] = (m, []).
Proof.
  induction f as [|f IH]; intros m; [reflexivity|]. cbn [fill_in_global_values fold_left].
  destruct m as [args [[name sm]|]]; cbn [ms_sub ms_args]; [rewrite IH|]; reflexivity.
Qed.

Definition top_fuel (c0 : cmd) : nat := S (S (depth (build_self c0))).

(** the class of the whole-parse theorems, all boolean: [plain] and [valid] (as for C01), no
    [ignore_errors], no argument accepting hyphen values and no subcommand named [--] at any level
    ([esc_okb]), no global arguments ([globals_free] of the fully built tree) *)
Definition esc_class (c0 : cmd) : bool :=
  plain c0 && valid c0 && esc_okb (top_fuel c0) (build_self c0) && globals_free (build_recursive (top_fuel c0) c0).

Lemma esc_class_ok c0 : esc_class c0 = true ->
  valid c0 = true /\ esc_ok (top_fuel c0) (build_self c0) /\ is_set s_ignore_errors (build_self c0) = false
  /\ globals_free (build_recursive (top_fuel c0) c0) = true.
Proof.
  unfold esc_class. intros H. apply andb_true_iff in H as [H H4]. apply andb_true_iff in H as [H H3].
  apply andb_true_iff in H as [H1 H2]. split; [exact H2|].
  pose proof H2 as Hv. unfold valid in Hv. cbn zeta in Hv.
  pose proof (tree_ok_of_valid _ _ H1 Hv) as Hok.
  pose proof (esc_ok_of _ _ Hok H3) as He. split; [exact He|]. split; [|exact H4].
  unfold top_fuel in He. cbn [esc_ok] in He. exact (proj1 (proj2 (proj2 He))).
Qed.

(** (3): for every command of the class, every prefix and every non-empty tail: a successful parse
    has delivered the tail *)
Theorem do_parse_delivered c0 pre t m :
  esc_class c0 = true -> t <> [] ->
  do_parse c0 (pre ++ dashdash :: t) = OOk m ->
  delivered (top_fuel c0) (build_self c0) t m.
Proof.
  intros Hc Ht. destruct (esc_class_ok c0 Hc) as (Hv & Hok & Hig & Hg).
  unfold do_parse. rewrite Hv. cbn [negb]. fold (top_fuel c0).
  destruct (get_matches_with (top_fuel c0) (build_self c0) (pre ++ dashdash :: t) ps_new) as [st|e st|x] eqn:Eg.
  - rewrite (used_global_args_free _ _ _ Hg), fill_nil. cbn [fst]. intros H. injection H as <-.
    exact (gmw_delivered _ _ pre t ps_new st Hok Ht eq_refl eq_refl Eg).
  - rewrite Hig. discriminate.
  - destruct x; discriminate.
Qed.

Theorem parse_top_delivered c0 bin pre t m :
  esc_class c0 = true -> is_set s_no_binary_name c0 = false -> c_bin_name c0 <> None -> t <> [] ->
  parse_top c0 (bin :: pre ++ dashdash :: t) = OOk m ->
  delivered (top_fuel c0) (build_self c0) t m.
Proof.
  intros Hc Hnb Hb Ht. unfold parse_top. rewrite Hnb. destruct (c_bin_name c0); [|contradiction].
  apply do_parse_delivered; assumption.
Qed.

Lemma do_parse_ok_inv c0 toks m : esc_class c0 = true -> do_parse c0 toks = OOk m ->
  exists st, get_matches_with (top_fuel c0) (build_self c0) toks ps_new = ROk st /\ m = into_inner (mt st).
Proof.
  intros Hc. destruct (esc_class_ok c0 Hc) as (Hv & Hok & Hig & Hg).
  unfold do_parse. rewrite Hv. cbn [negb]. fold (top_fuel c0).
  destruct (get_matches_with (top_fuel c0) (build_self c0) toks ps_new) as [st|e st|x] eqn:Eg.
  - rewrite (used_global_args_free _ _ _ Hg), fill_nil. cbn [fst]. intros H. injection H as <-. exists st. auto.
  - rewrite Hig. discriminate.
  - destruct x; discriminate.
Qed.

(** (4): two successful parses with the same prefix and different tails (the empty one included) *)
Theorem do_parse_prefix_same c0 pre t1 t2 m1 m2 :
  esc_class c0 = true ->
  do_parse c0 (pre ++ dashdash :: t1) = OOk m1 -> do_parse c0 (pre ++ dashdash :: t2) = OOk m2 ->
  prefix_same (top_fuel c0) (build_self c0) m1 m2.
Proof.
  intros Hc H1 H2. destruct (esc_class_ok c0 Hc) as (Hv & Hok & Hig & Hg).
  destruct (do_parse_ok_inv _ _ _ Hc H1) as (s1 & E1 & ->). destruct (do_parse_ok_inv _ _ _ Hc H2) as (s2 & E2 & ->).
  exact (gmw_prefix_same _ _ pre t1 t2 ps_new s1 s2 Hok eq_refl eq_refl E1 E2).
Qed.

Theorem parse_top_prefix_same c0 bin pre t1 t2 m1 m2 :
  esc_class c0 = true -> is_set s_no_binary_name c0 = false -> c_bin_name c0 <> None ->
  parse_top c0 (bin :: pre ++ dashdash :: t1) = OOk m1 -> parse_top c0 (bin :: pre ++ dashdash :: t2) = OOk m2 ->
  prefix_same (top_fuel c0) (build_self c0) m1 m2.
Proof.
  intros Hc Hnb Hb. unfold parse_top. rewrite Hnb. destruct (c_bin_name c0); [|contradiction].
  apply do_parse_prefix_same; assumption.
Qed.

(** * Non-vacuity: an option, a flag, a [last] multi-valued positional, and a subcommand with a
    multi-valued positional of its own *)
Definition x_pos : arg := (arg_new [112]) <| a_num := Some {| vmin := 0; vmax := usize_max |} |> <| a_last := true |>.
Definition x_opt : arg := (arg_new [111]) <| a_long := Some [111; 112; 116] |> <| a_action := Some ASet |>.
Definition x_flag : arg := (arg_new [102]) <| a_short := Some 102 |> <| a_action := Some ASetTrue |>.
Definition x_q : arg := (arg_new [113]) <| a_num := Some {| vmin := 1; vmax := usize_max |} |>.
Definition x_sub : cmd := (cmd_new [115; 117; 98]) <| c_args := [x_q] |>.
Definition x_c0 : cmd :=
  (cmd_new [112]) <| c_args := [x_opt; x_flag; x_pos] |> <| c_subs := [x_sub] |> <| c_bin_name := Some [112] |>.
Definition w_opt : bytes := [45; 45; 111; 112; 116].
Definition w_v : bytes := [118].
Definition w_f : bytes := [45; 102].
Definition w_x : bytes := [45; 120].
Definition x_tail : list bytes := [t_help; t_sub; []; t_optv; dashdash].

Example ex_class : esc_class x_c0 = true /\ is_set s_no_binary_name x_c0 = false /\ c_bin_name x_c0 <> None.
Proof. split; [vm_compute; reflexivity|]. split; [reflexivity|discriminate]. Qed.

(** the root: every positional counter leads to the [last] positional *)
Example ex_sink_root : exists a, sink_from (build_self x_c0) 1 a /\ a_id a = [112].
Proof.
  destruct (sink_arg (build_self x_c0) 1) as [a|] eqn:E; [|vm_compute in E; discriminate].
  exists a. split.
  - left. intros pc. rewrite <- E. unfold sink_arg, sink_index.
    assert (E1 : low_index_mults_any (build_self x_c0) = false) by (vm_compute; reflexivity).
    assert (E2 : is_set s_allow_missing_pos (build_self x_c0) || existsb a_last (c_args (build_self x_c0)) = true)
      by (vm_compute; reflexivity).
    rewrite E1, E2. reflexivity.
  - vm_compute in E. injection E as <-. reflexivity.
Qed.

(** the subcommand: a single multi-valued positional, the counter cannot move ([sticky]) *)
Example ex_sink_sub : exists sc a, build_subcommand (build_self x_c0) t_sub = Some sc /\
  sink_from sc 1 a /\ a_id a = [113].
Proof.
  destruct (build_subcommand (build_self x_c0) t_sub) as [sc|] eqn:Eb; [|vm_compute in Eb; discriminate].
  destruct (sink_arg sc 1) as [a|] eqn:E.
  2:{ exfalso. vm_compute in Eb. injection Eb as <-. vm_compute in E. discriminate. }
  exists sc, a. split; [reflexivity|]. split.
  - right. split; [|exact E]. vm_compute in Eb. injection Eb as <-. vm_compute. reflexivity.
  - vm_compute in Eb. injection Eb as <-. vm_compute in E. injection E as <-. reflexivity.
Qed.

(** [prog --opt v -f -- --help sub "" --opt=v --]: everything after the first [--] is in the positional *)
Example ex_top_run :
  match parse_top x_c0 ([112] :: [w_opt; w_v; w_f] ++ dashdash :: x_tail) with
  | OOk (Matches args None) =>
      opt_map m_raw (fm_get [112] args) = Some [x_tail] /\ opt_map m_raw (fm_get [111] args) = Some [[w_v]]
  | _ => False
  end.
Proof. vm_compute. split; reflexivity. Qed.

(** [prog -f sub v -- --help -x]: the prefix selects the subcommand, whose positional receives the tail *)
Example ex_top_dispatch :
  match parse_top x_c0 ([112] :: [w_f; t_sub; w_v] ++ dashdash :: [t_help; w_x]) with
  | OOk (Matches _ (Some (n, Matches args None))) =>
      n = t_sub /\ opt_map m_raw (fm_get [113] args) = Some [[w_v; t_help; w_x]]
  | _ => False
  end.
Proof. vm_compute. split; reflexivity. Qed.

(** the same prefix without a tail succeeds as well (hypotheses of [parse_top_prefix_same]) *)
Example ex_top_empty_tail :
  match parse_top x_c0 ([112] :: [w_opt; w_v; w_f] ++ dashdash :: []) with
  | OOk (Matches args None) => opt_map m_raw (fm_get [111] args) = Some [[w_v]] /\ fm_get [112] args = None
  | _ => False
  end.
Proof. vm_compute. split; reflexivity. Qed.

(** [--opt] is outside [touched] of the positional *)
Example ex_untouched : exists a, sink_arg (build_self x_c0) 1 = Some a /\
  touched (build_self x_c0) a [111] = false /\ find_group (build_self x_c0) [111] = None.
Proof. eexists. split; [vm_compute; reflexivity|]. split; vm_compute; reflexivity. Qed.

(** a help request BEFORE the escape is a help outcome whatever follows the escape *)
Example ex_display_prefix :
  match parse_loop (build_self x_c0) ([t_help] ++ dashdash :: x_tail) ls0 ps_new,
        parse_loop (build_self x_c0) ([t_help] ++ dashdash :: []) ls0 ps_new with
  | RErr e1 _, RErr e2 _ => is_display (e_kind e1) = true /\ e1 = e2
  | _, _ => False
  end.
Proof. vm_compute. split; reflexivity. Qed.

(** The restriction to entries outside [touched] cannot be dropped: an option that the positional
    overrides loses its entry as soon as the tail gives the positional a value (documented semantics
    of [overrides_with]; corpus/C05/escape-main.r2.cases replays the line on the implementation). *)
Definition y_pos : arg := x_pos <| a_overrides := [[111]] |>.
Definition y_c0 : cmd := (cmd_new [112]) <| c_args := [x_opt; y_pos] |> <| c_bin_name := Some [112] |>.
Theorem prefix_unrestricted_refuted : exists c0 pre t m1 m2 y,
  esc_class c0 = true /\ do_parse c0 (pre ++ dashdash :: t) = OOk m1 /\ do_parse c0 (pre ++ dashdash :: []) = OOk m2 /\
  fm_get y (ms_args m2) <> None /\ fm_get y (ms_args m1) = None.
Proof.
  exists y_c0, [w_opt; w_v], [w_x]. eexists. eexists. exists [111].
  split; [vm_compute; reflexivity|]. split; [vm_compute; reflexivity|]. split; [vm_compute; reflexivity|].
  split; [vm_compute; discriminate|vm_compute; reflexivity].
Qed.
