(** Property C05, round 2: from the token loop to [get_matches_with], [do_parse] and [parse_top].

    [level_tail_verbatim] / [level_prefix_entries]: one level, loop + [resolve_pending] + [add_env] +
    [add_defaults] + [validate]; [gmw_delivered] / [gmw_prefix_same]: induction over the recursion into
    subcommands; [do_parse_delivered], [parse_top_delivered], [do_parse_prefix_same],
    [parse_top_prefix_same]: the entry points, for the boolean class [esc_class]. *)
From ClapModel Require Import Base.Bytes Base.Machine Base.Utf8 Lex.OsStrExtModel.
From ClapModel Require Import Parse.Cmd Parse.Build Parse.Valid Parse.Matcher Parse.Errors Parse.Validator Parse.Parser.
From ClapModel Require Import ParseProofs.Safe ParseProofs.Invariant ParseProofs.Totality ParseProofs.TotalityMain
  ParseProofs.Sources ParseProofs.Spelling ParseProofs.Dispatch ParseProofs.Provenance
  ParseProofs.Escape ParseProofs.EscapeWalk ParseProofs.EscapeStore ParseProofs.EscapeSub ParseProofs.EscapeLevel ParseProofs.EscapeChain ParseProofs.EscapeDisplay ParseProofs.EscapeGlobals.
From Coq Require Import ZArith Lia List Bool.
From RecordUpdate Require Import RecordSet.
Import RecordSetNotations.
Import ListNotations.
Open Scope N_scope.

Section LevelThm.
Variable c : cmd.
Hypothesis Hl : lvl c.
Hypothesis Hst : lvl_store c.
Hypothesis Hnh : forall a, In a (c_args c) -> a_hyphen a = false.
Hypothesis Hdd : forall vaf, possible_subcommand c dashdash vaf = None.
Let W3 := proj1 Hl.
Let WP := proj1 (proj2 Hl).

(** (3), one level: a successful [get_matches_with] on [pre ++ -- :: t] has stored [t]: at the end of the
    last value group of the sink positional (class [sink_from]), or distributed over the single-valued
    positionals and the multi-valued one that follow the counter (class [chainc]; [x] is [[]], or [[--]]
    when the loop was in trailing mode already -- [trailing_var_arg] -- and the [--] itself is a value);
    the loop ended with [LDone] and no subcommand was recorded -- unless [pre] itself dispatched to a
    subcommand or an external subcommand, which then receives [-- :: t] unread *)
Definition consumed_sink (t : list bytes) (st0 st' : ps) (lr : res loop_res) : Prop :=
  forall a, sink_from c 1 a ->
    exists st1 e gs early' t',
      lr = ROk (LDone st1) /\ mt_sub (mt st') = mt_sub (mt st0) /\
      get_entry (a_id a) st' = Some e /\ m_raw e = gs ++ [early' ++ t'] /\ m_source e = Some SCmdLine /\
      tail_form c a t = Some t'.
Definition consumed_chain (t : list bytes) (st0 st' : ps) (lr : res loop_res) : Prop :=
  chainc c = true ->
    exists st1 x pc,
      lr = ROk (LDone st1) /\ mt_sub (mt st') = mt_sub (mt st0) /\
      chain_filled c (fun y => get_entry y st') pc (x ++ t).

Theorem level_tail_verbatim f pre t st0 st' :
  t <> [] -> mt_pending (mt st0) = None ->
  get_matches_with (S f) c (pre ++ dashdash :: t) st0 = ROk st' ->
  (consumed_sink t st0 st' (parse_loop c (pre ++ dashdash :: t) ls0 st0) /\
   consumed_chain t st0 st' (parse_loop c (pre ++ dashdash :: t) ls0 st0))
  \/ (exists n k v st1 r, parse_loop c (pre ++ dashdash :: t) ls0 st0 = ROk (LSub n k v st1 (r ++ dashdash :: t)))
  \/ (exists tk r st1, parse_loop c (pre ++ dashdash :: t) ls0 st0 = ROk (LExternal tk (r ++ dashdash :: t) st1)).
Proof.
  intros Ht Hp0 H. rewrite gmw_unfold in H.
  destruct (post_ok_inv _ _ _ H) as (stp & s2 & s3 & Hparsed & Hr & He & Hd).
  destruct (TV0 c st0 Hp0) as [HTV HLTV].
  pose proof (escape_line_one c W3 WP Hnh Hdd pre t ls0 st0 HTV HLTV) as Hs.
  unfold parsed_of in Hparsed. fold ls0 in Hparsed.
  remember (parse_loop c (pre ++ dashdash :: t) ls0 st0) as R eqn:ER.
  destruct Hs as [x ls' st1 Htr H1 Hpos Hsub|e1 s1|x|n k v s1 r|r s1|tk r s1]; cbn [rbind] in Hparsed; try discriminate Hparsed.
  - left. symmetry in ER.
    destruct (parse_loop c (x ++ t) ls' st1) as [lr|e1 s1|x1] eqn:EL; cbn [rbind] in Hparsed; try discriminate Hparsed.
    split.
    + intros a Hsink.
      assert (Hsa : sink_arg c (l_pos ls') = Some a) by (apply (sink_from_at c 1 a); [exact Hsink|exact (proj1 Hpos)]).
      destruct (trailing_sink_done c _ _ _ _ _ Htr Hsa EL) as [st1' ->]. injection Hparsed as ->.
      destruct (trailing_sink_store c Hl Hst x t ls' st1 stp s2 a Htr Hsa H1 Ht EL Hr)
        as (stb & e & gs & early' & t' & F & G1 & G2 & G3 & G4 & G5 & _ & G7).
      exists stp, e, gs, early', t'. split; [reflexivity|]. split.
      * destruct (add_env_frame c s2 s3 G5 He) as (Hp3 & Hs3 & _).
        destruct (add_defaults_frame c s3 st' Hp3 Hd) as (_ & Hs4 & _).
        rewrite Hs4, Hs3, G7, (flush_sub c _ _ _ F). exact Hsub.
      * destruct (sink_in c _ _ Hsa) as [Hin _].
        split; [eapply phases_keep; [exact G5|exact He|exact Hd|exact (proj2 Hst a Hin)|exact G1]|]. auto.
    + intros Hch.
      assert (Hrg : in_range c (l_pos ls')).
      { apply (proj2 Hpos); [exact (proj1 (proj2 (chain_facts c Hch)))|exact (in_range_1 c Hch)]. }
      destruct (chain_done c Hch _ _ _ _ Htr Hrg EL) as [st1' ->]. injection Hparsed as ->.
      assert (Hne : x ++ t <> []) by (destruct x; [exact Ht|discriminate]).
      pose proof (chain_run c Hl Hst Hch (x ++ t) ls' st1 stp s2 Hne Htr H1 EL Hr) as Hcf.
      pose proof (Spelling.resolve_pending_clears c stp s2 Hr) as Hnone.
      exists stp, x, (l_pos ls'). split; [reflexivity|]. split.
      * destruct (add_env_frame c s2 s3 Hnone He) as (Hp3 & Hs3 & _).
        destruct (add_defaults_frame c s3 st' Hp3 Hd) as (_ & Hs4 & _).
        rewrite Hs4, Hs3.
        pose proof (resolve_pending_sub c (mt_sub (mt stp)) stp eq_refl) as Hk. rewrite Hr in Hk. cbn in Hk.
        unfold Dispatch.S_ in Hk. rewrite Hk, (chain_sub c Hch _ _ _ _ Htr EL). exact Hsub.
      * eapply chain_filled_mono; [|exact Hcf]. intros a e Hin _ Hy. cbv beta in *.
        eapply phases_keep; [exact Hnone|exact He|exact Hd|exact (proj2 Hst a Hin)|exact Hy].
  - right. left. exists n, k, v, s1, r. reflexivity.
  - right. right. exists tk, r, s1. reflexivity.
Qed.

(** ** (4), one level: what the options and flags before the [--] got does not depend on the tail *)
Definition same_sink (st0 s1 s2 : ps) (lr1 lr2 : res loop_res) : Prop :=
  forall a, sink_from c 1 a ->
    exists l1 l2,
      lr1 = ROk (LDone l1) /\ lr2 = ROk (LDone l2) /\
      mt_sub (mt s1) = mt_sub (mt st0) /\ mt_sub (mt s2) = mt_sub (mt st0) /\
      forall y e, touched c a y = false -> find_group c y = None ->
                  get_entry y s1 = Some e -> m_source e = Some SCmdLine -> get_entry y s2 = Some e.
Definition same_chain (st0 s1 s2 : ps) (lr1 lr2 : res loop_res) : Prop :=
  chainc c = true ->
    exists l1 l2,
      lr1 = ROk (LDone l1) /\ lr2 = ROk (LDone l2) /\
      mt_sub (mt s1) = mt_sub (mt st0) /\ mt_sub (mt s2) = mt_sub (mt st0) /\
      forall y e, (forall j a', get_pos c j = Some a' -> touched c a' y = false) -> find_group c y = None ->
                  get_entry y s1 = Some e -> m_source e = Some SCmdLine -> get_entry y s2 = Some e.

Theorem level_prefix_entries f pre t1 t2 st0 s1 s2 :
  mt_pending (mt st0) = None ->
  get_matches_with (S f) c (pre ++ dashdash :: t1) st0 = ROk s1 ->
  get_matches_with (S f) c (pre ++ dashdash :: t2) st0 = ROk s2 ->
  (same_sink st0 s1 s2 (parse_loop c (pre ++ dashdash :: t1) ls0 st0) (parse_loop c (pre ++ dashdash :: t2) ls0 st0) /\
   same_chain st0 s1 s2 (parse_loop c (pre ++ dashdash :: t1) ls0 st0) (parse_loop c (pre ++ dashdash :: t2) ls0 st0))
  \/ (exists n k v st1 r,
        parse_loop c (pre ++ dashdash :: t1) ls0 st0 = ROk (LSub n k v st1 (r ++ dashdash :: t1)) /\
        parse_loop c (pre ++ dashdash :: t2) ls0 st0 = ROk (LSub n k v st1 (r ++ dashdash :: t2)))
  \/ (exists tk r st1,
        parse_loop c (pre ++ dashdash :: t1) ls0 st0 = ROk (LExternal tk (r ++ dashdash :: t1) st1) /\
        parse_loop c (pre ++ dashdash :: t2) ls0 st0 = ROk (LExternal tk (r ++ dashdash :: t2) st1)).
Proof.
  intros Hp0 H1 H2. rewrite gmw_unfold in H1, H2.
  destruct (post_ok_inv _ _ _ H1) as (p1 & r1 & e1 & Hparsed1 & Hr1 & He1 & Hd1).
  destruct (post_ok_inv _ _ _ H2) as (p2 & r2 & e2 & Hparsed2 & Hr2 & He2 & Hd2).
  destruct (TV0 c st0 Hp0) as [HTV HLTV].
  pose proof (escape_line_sim c W3 WP Hnh Hdd pre t1 t2 ls0 st0 HTV HLTV) as Hs.
  unfold parsed_of in Hparsed1, Hparsed2. fold ls0 in Hparsed1, Hparsed2.
  remember (parse_loop c (pre ++ dashdash :: t1) ls0 st0) as R1 eqn:ER1.
  remember (parse_loop c (pre ++ dashdash :: t2) ls0 st0) as R2 eqn:ER2.
  destruct Hs as [x ls' st1 Htr HT Hpos Hsub|e0 s0|x|n k v s0 r|r s0|tk r s0];
    cbn [rbind] in Hparsed1, Hparsed2; try discriminate Hparsed1.
  - left.
    destruct (parse_loop c (x ++ t1) ls' st1) as [lr1|? ?|?] eqn:EL1; cbn [rbind] in Hparsed1; try discriminate Hparsed1.
    destruct (parse_loop c (x ++ t2) ls' st1) as [lr2|? ?|?] eqn:EL2; cbn [rbind] in Hparsed2; try discriminate Hparsed2.
    pose proof (Spelling.resolve_pending_clears c _ _ Hr1) as N1.
    pose proof (Spelling.resolve_pending_clears c _ _ Hr2) as N2.
    destruct (add_env_frame c r1 e1 N1 He1) as (Q1 & Q2 & _). destruct (add_defaults_frame c e1 s1 Q1 Hd1) as (_ & Q3 & _).
    destruct (add_env_frame c r2 e2 N2 He2) as (Q4 & Q5 & _). destruct (add_defaults_frame c e2 s2 Q4 Hd2) as (_ & Q6 & _).
    pose proof (resolve_pending_sub c (mt_sub (mt p1)) p1 eq_refl) as K1. rewrite Hr1 in K1. cbn in K1. unfold Dispatch.S_ in K1.
    pose proof (resolve_pending_sub c (mt_sub (mt p2)) p2 eq_refl) as K2. rewrite Hr2 in K2. cbn in K2. unfold Dispatch.S_ in K2.
    split.
    + intros a Hsink.
      assert (Hsa : sink_arg c (l_pos ls') = Some a) by (apply (sink_from_at c 1 a); [exact Hsink|exact (proj1 Hpos)]).
      destruct (trailing_sink_done c _ _ _ _ _ Htr Hsa EL1) as [l1 ->].
      destruct (trailing_sink_done c _ _ _ _ _ Htr Hsa EL2) as [l2 ->].
      injection Hparsed1 as ->. injection Hparsed2 as ->.
      exists p1, p2. split; [reflexivity|]. split; [reflexivity|].
      destruct (trailing_base c Hl Hst _ _ _ _ _ _ Htr Hsa HT EL1 Hr1) as (b1 & F1 & _ & B1 & S1).
      destruct (trailing_base c Hl Hst _ _ _ _ _ _ Htr Hsa HT EL2 Hr2) as (b2 & F2 & _ & B2 & S2).
      rewrite F1 in F2. injection F2 as <-.
      split; [rewrite Q3, Q2, S1; exact Hsub|]. split; [rewrite Q6, Q5, S2; exact Hsub|].
      intros y e Hy Hg Hy1 Hsrc.
      pose proof (phases_cmdline c _ _ _ _ _ N1 He1 Hd1 Hg Hy1 Hsrc) as Hq.
      rewrite (B1 y Hy), <- (B2 y Hy) in Hq.
      exact (phases_keep c _ _ _ _ _ N2 He2 Hd2 Hg Hq).
    + intros Hch.
      assert (Hrg : in_range c (l_pos ls')).
      { apply (proj2 Hpos); [exact (proj1 (proj2 (chain_facts c Hch)))|exact (in_range_1 c Hch)]. }
      destruct (chain_done c Hch _ _ _ _ Htr Hrg EL1) as [l1 ->].
      destruct (chain_done c Hch _ _ _ _ Htr Hrg EL2) as [l2 ->].
      injection Hparsed1 as ->. injection Hparsed2 as ->.
      exists p1, p2. split; [reflexivity|]. split; [reflexivity|].
      destruct (proj2 (proj2 (proj2 (proj2 (chain_facts c Hch)))) _ Hrg) as [a Eg].
      destruct (chain_base c Hl Hch _ _ _ _ _ a Htr Eg EL1 Hr1) as (b1 & F1 & _ & B1).
      destruct (chain_base c Hl Hch _ _ _ _ _ a Htr Eg EL2 Hr2) as (b2 & F2 & _ & B2).
      rewrite F1 in F2. injection F2 as <-.
      split; [rewrite Q3, Q2, K1, (chain_sub c Hch _ _ _ _ Htr EL1); exact Hsub|].
      split; [rewrite Q6, Q5, K2, (chain_sub c Hch _ _ _ _ Htr EL2); exact Hsub|].
      intros y e Hy Hg Hy1 Hsrc.
      pose proof (phases_cmdline c _ _ _ _ _ N1 He1 Hd1 Hg Hy1 Hsrc) as Hq.
      assert (Hy' : forall j a', l_pos ls' <= j -> get_pos c j = Some a' -> touched c a' y = false)
        by (intros j a' _ Hg'; exact (Hy j a' Hg')).
      rewrite (B1 y Hy'), <- (B2 y Hy') in Hq.
      exact (phases_keep c _ _ _ _ _ N2 He2 Hd2 Hg Hq).
  - right. left. exists n, k, v, s0, r. split; reflexivity.
  - right. right. exists tk, r, s0. split; reflexivity.
Qed.
End LevelThm.

(** * The whole tree *)
Definition sink_of := sink_from.

Fixpoint esc_ok (fuel : nat) (c : cmd) : Prop :=
  match fuel with
  | O => False
  | S f => Totality.wfc c /\ assert_app c = true
           /\ is_set s_ignore_errors c = false
           /\ (forall a, In a (c_args c) -> a_hyphen a = false)
           /\ (forall vaf, possible_subcommand c dashdash vaf = None)
           /\ nodisp_src c
           /\ forall name sc, build_subcommand c name = Some sc -> esc_ok f sc
  end.

(** where the tail went: into the sink positional of this level (and then no subcommand is
    recorded), or to the subcommand [pre] selected, or verbatim to the external subcommand [pre] selected *)
Fixpoint delivered (fuel : nat) (c : cmd) (t : list bytes) (m : matches) : Prop :=
  match fuel with
  | O => False
  | S f =>
      ((forall a, sink_from c 1 a ->
          ms_sub m = None /\
          exists e gs early' t', fm_get (a_id a) (ms_args m) = Some e /\ m_raw e = gs ++ [early' ++ t']
                                 /\ m_source e = Some SCmdLine /\ tail_form c a t = Some t')
       /\ (chainc c = true ->
           ms_sub m = None /\ exists x pc, chain_filled c (fun y => fm_get y (ms_args m)) pc (x ++ t)))
      \/ (exists name sc sm, build_subcommand c name = Some sc /\ ms_sub m = Some (c_name sc, sm) /\ delivered f sc t sm)
      \/ (exists name vals sm, ms_sub m = Some (name, sm) /\ ms_sub sm = None /\
                               fm_get ext_id (ms_args sm) = Some (ext_marg (vals ++ dashdash :: t)))
  end.

Lemma build_found c n sc0 : find_subcommand c n = Some sc0 -> build_subcommand c (c_name sc0) <> None.
Proof.
  unfold find_subcommand. intros H. apply List.find_some in H. destruct H as [Hin _].
  unfold build_subcommand. destruct (List.find (fun s => beq (c_name s) (c_name sc0)) (c_subs c)) eqn:E; [discriminate|].
  apply (List.find_none _ _ E) in Hin. rewrite beq_refl in Hin. discriminate.
Qed.

Theorem gmw_delivered : forall fuel c pre t st0 st',
  esc_ok fuel c -> t <> [] -> mt_pending (mt st0) = None -> mt_sub (mt st0) = None ->
  get_matches_with fuel c (pre ++ dashdash :: t) st0 = ROk st' ->
  delivered fuel c t (into_inner (mt st')).
Proof.
  induction fuel as [|f IH]; intros c pre t st0 st' Hok Ht Hp0 Hs0 H; [destruct Hok|].
  destruct Hok as (Hwf & Happ & Hig & Hnh & Hdd & Hnd & Hch).
  pose proof (lvl_of_wfc c Hwf Happ) as Hl. pose proof (lvl_store_of_wfc c Hwf Happ) as Hst.
  destruct (level_tail_verbatim c Hl Hst Hnh Hdd f pre t st0 st' Ht Hp0 H) as [Hc|[Hc|Hc]].
  - cbn [delivered]. left. destruct Hc as [Hc1 Hc2]. split.
    + intros a Ha. destruct (Hc1 a Ha) as (st1 & e & gs & early' & t' & _ & G1 & G2 & G3 & G4 & G5).
      split; [cbn; rewrite G1; exact Hs0|]. exists e, gs, early', t'. auto.
    + intros Hcc. destruct (Hc2 Hcc) as (st1 & x & pc & _ & G1 & G2).
      split; [cbn; rewrite G1; exact Hs0|]. exists x, pc. exact G2.
  - destruct Hc as (n & k & v & st1 & r & EL). rewrite gmw_unfold in H.
    destruct (post_ok_inv c _ _ H) as (stp & s2 & s3 & Hparsed & _).
    pose proof (post_keeps_sub c (mt_sub (mt stp)) (ROk stp) eq_refl) as Hk.
    rewrite Hparsed in H. rewrite H in Hk. cbn in Hk. unfold Dispatch.S_ in Hk.
    unfold parsed_of in Hparsed. change (mkL PSValuesDone 1 false false) with ls0 in Hparsed. rewrite EL in Hparsed.
    cbn [rbind] in Hparsed. unfold after_sub in Hparsed.
    destruct (is_set s_args_negate_subs c && v); [discriminate|].
    destruct (find_subcommand c n) as [sc0|] eqn:Ef; cbn [expect rbind] in Hparsed; [|discriminate].
    destruct (build_subcommand c (c_name sc0)) as [sc|] eqn:Eb; [|exfalso; exact (build_found c n sc0 Ef Eb)].
    destruct (negb (assert_app sc)); [discriminate|].
    destruct (get_matches_with f sc (r ++ dashdash :: t) (sub_init k st1)) as [sub_st|e sub_st|x] eqn:Eg; [| |discriminate].
    2:{ rewrite Hig in Hparsed. discriminate. }
    injection Hparsed as <-.
    cbn [delivered]. right. left. exists (c_name sc0), sc, (into_inner (mt sub_st)).
    split; [exact Eb|]. split; [cbn [into_inner ms_sub]; rewrite Hk; reflexivity|].
    apply (IH sc r t (sub_init k st1) sub_st (Hch _ _ Eb) Ht); [| |exact Eg]; unfold sub_init; destruct k; reflexivity.
  - destruct Hc as (tk & r & st1 & EL). rewrite gmw_unfold in H.
    destruct (post_ok_inv c _ _ H) as (stp & s2 & s3 & Hparsed & _).
    pose proof (post_keeps_sub c (mt_sub (mt stp)) (ROk stp) eq_refl) as Hk.
    rewrite Hparsed in H. rewrite H in Hk. cbn in Hk. unfold Dispatch.S_ in Hk.
    unfold parsed_of in Hparsed. change (mkL PSValuesDone 1 false false) with ls0 in Hparsed. rewrite EL in Hparsed.
    cbn [rbind] in Hparsed.
    pose proof (external_verbatim c tk (r ++ dashdash :: t) st1) as Hx. rewrite Hparsed in Hx. cbn [holds] in Hx.
    cbn [delivered]. right. right. exists tk, r, (Matches [(ext_id, ext_marg (r ++ dashdash :: t))] None).
    cbn [into_inner ms_sub]. rewrite Hk, Hx. split; [reflexivity|]. split; reflexivity.
Qed.

(** (4) over the tree: two successful parses of the same prefix with different tails agree, at the level
    that consumed the [--], on every command-line entry outside [touched a] *)
Fixpoint prefix_same (fuel : nat) (c : cmd) (m1 m2 : matches) : Prop :=
  match fuel with
  | O => False
  | S f =>
      ((forall a, sink_from c 1 a ->
          ms_sub m1 = None /\ ms_sub m2 = None /\
          forall y e, touched c a y = false -> find_group c y = None ->
                      fm_get y (ms_args m1) = Some e -> m_source e = Some SCmdLine -> fm_get y (ms_args m2) = Some e)
       /\ (chainc c = true ->
           ms_sub m1 = None /\ ms_sub m2 = None /\
           forall y e, (forall j a', get_pos c j = Some a' -> touched c a' y = false) -> find_group c y = None ->
                       fm_get y (ms_args m1) = Some e -> m_source e = Some SCmdLine -> fm_get y (ms_args m2) = Some e))
      \/ (exists name sc sm1 sm2, build_subcommand c name = Some sc /\ ms_sub m1 = Some (c_name sc, sm1)
                                  /\ ms_sub m2 = Some (c_name sc, sm2) /\ ms_args m1 = ms_args m2
                                  /\ prefix_same f sc sm1 sm2)
      \/ (exists name vals t1 t2,
            ms_sub m1 = Some (name, Matches [(ext_id, ext_marg (vals ++ dashdash :: t1))] None) /\
            ms_sub m2 = Some (name, Matches [(ext_id, ext_marg (vals ++ dashdash :: t2))] None) /\
            ms_args m1 = ms_args m2)
  end.

Lemma after_sub_ok f c n k v st1 rest stp :
  is_set s_ignore_errors c = false -> after_sub f c n k v st1 rest = ROk stp ->
  exists sc0 sc sub_st, find_subcommand c n = Some sc0 /\ build_subcommand c (c_name sc0) = Some sc /\
    get_matches_with f sc rest (sub_init k st1) = ROk sub_st /\ stp = record_sub st1 (c_name sc) sub_st.
Proof.
  intros Hig. unfold after_sub. destruct (is_set s_args_negate_subs c && v); [discriminate|].
  destruct (find_subcommand c n) as [sc0|] eqn:Ef; cbn [expect rbind]; [|discriminate].
  destruct (build_subcommand c (c_name sc0)) as [sc|] eqn:Eb; [|intros _; exfalso; exact (build_found c n sc0 Ef Eb)].
  destruct (negb (assert_app sc)); [discriminate|].
  destruct (get_matches_with f sc rest (sub_init k st1)) as [sub_st|e sub_st|x] eqn:Eg; [| |discriminate].
  - intros H. injection H as <-. exists sc0, sc, sub_st. auto.
  - rewrite Hig. discriminate.
Qed.

Theorem gmw_prefix_same : forall fuel c pre t1 t2 st0 s1 s2,
  esc_ok fuel c -> mt_pending (mt st0) = None -> mt_sub (mt st0) = None ->
  get_matches_with fuel c (pre ++ dashdash :: t1) st0 = ROk s1 ->
  get_matches_with fuel c (pre ++ dashdash :: t2) st0 = ROk s2 ->
  prefix_same fuel c (into_inner (mt s1)) (into_inner (mt s2)).
Proof.
  induction fuel as [|f IH]; intros c pre t1 t2 st0 s1 s2 Hok Hp0 Hs0 H1 H2; [destruct Hok|].
  destruct Hok as (Hwf & Happ & Hig & Hnh & Hdd & Hnd & Hch).
  pose proof (lvl_of_wfc c Hwf Happ) as Hl. pose proof (lvl_store_of_wfc c Hwf Happ) as Hst.
  destruct (level_prefix_entries c Hl Hst Hnh Hdd f pre t1 t2 st0 s1 s2 Hp0 H1 H2) as [Hc|[Hc|Hc]].
  - cbn [prefix_same]. left. destruct Hc as [Hc1 Hc2]. split.
    + intros a Ha. destruct (Hc1 a Ha) as (l1 & l2 & _ & _ & G1 & G2 & G3).
      split; [cbn; rewrite G1; exact Hs0|]. split; [cbn; rewrite G2; exact Hs0|]. exact G3.
    + intros Hcc. destruct (Hc2 Hcc) as (l1 & l2 & _ & _ & G1 & G2 & G3).
      split; [cbn; rewrite G1; exact Hs0|]. split; [cbn; rewrite G2; exact Hs0|]. exact G3.
  - destruct Hc as (n & k & v & st1 & r & EL1 & EL2). rewrite gmw_unfold in H1, H2.
    destruct (post_ok_inv c _ _ H1) as (p1 & q1 & e1 & Hparsed1 & A1 & A2 & A3).
    destruct (post_ok_inv c _ _ H2) as (p2 & q2 & e2 & Hparsed2 & B1 & B2 & B3).
    pose proof (post_keeps_sub c (mt_sub (mt p1)) (ROk p1) eq_refl) as Hk1.
    pose proof (post_keeps_sub c (mt_sub (mt p2)) (ROk p2) eq_refl) as Hk2.
    rewrite Hparsed1 in H1. rewrite H1 in Hk1. rewrite Hparsed2 in H2. rewrite H2 in Hk2.
    cbn in Hk1, Hk2. unfold Dispatch.S_ in Hk1, Hk2.
    unfold parsed_of in Hparsed1, Hparsed2. change (mkL PSValuesDone 1 false false) with ls0 in Hparsed1, Hparsed2.
    rewrite EL1 in Hparsed1. rewrite EL2 in Hparsed2. cbn [rbind] in Hparsed1, Hparsed2.
    destruct (after_sub_ok _ _ _ _ _ _ _ _ Hig Hparsed1) as (sc0 & sc & sub1 & Ef & Eb & Eg1 & ->).
    destruct (after_sub_ok _ _ _ _ _ _ _ _ Hig Hparsed2) as (sc0' & sc' & sub2 & Ef' & Eb' & Eg2 & ->).
    rewrite Ef in Ef'. injection Ef' as <-. rewrite Eb in Eb'. injection Eb' as <-.
    rewrite record_sub_ssub in A1, B1.
    destruct (phases_ssub c _ _ _ _ _ _ _ _ _ A1 A2 A3 B1 B2 B3) as (d0 & -> & ->).
    cbn [prefix_same]. right. left. exists (c_name sc0), sc, (into_inner (mt sub1)), (into_inner (mt sub2)).
    split; [exact Eb|]. split; [cbn [into_inner ms_sub]; rewrite Hk1; reflexivity|].
    split; [cbn [into_inner ms_sub]; rewrite Hk2; reflexivity|]. split; [reflexivity|].
    apply (IH sc r t1 t2 (sub_init k st1) sub1 sub2 (Hch _ _ Eb)); [| |exact Eg1|exact Eg2]; unfold sub_init; destruct k; reflexivity.
  - destruct Hc as (tk & r & st1 & EL1 & EL2). rewrite gmw_unfold in H1, H2.
    destruct (post_ok_inv c _ _ H1) as (p1 & q1 & e1 & Hparsed1 & A1 & A2 & A3).
    destruct (post_ok_inv c _ _ H2) as (p2 & q2 & e2 & Hparsed2 & B1 & B2 & B3).
    pose proof (post_keeps_sub c (mt_sub (mt p1)) (ROk p1) eq_refl) as Hk1.
    pose proof (post_keeps_sub c (mt_sub (mt p2)) (ROk p2) eq_refl) as Hk2.
    rewrite Hparsed1 in H1. rewrite H1 in Hk1. rewrite Hparsed2 in H2. rewrite H2 in Hk2.
    cbn in Hk1, Hk2. unfold Dispatch.S_ in Hk1, Hk2.
    unfold parsed_of in Hparsed1, Hparsed2. change (mkL PSValuesDone 1 false false) with ls0 in Hparsed1, Hparsed2.
    rewrite EL1 in Hparsed1. rewrite EL2 in Hparsed2. cbn [rbind] in Hparsed1, Hparsed2.
    pose proof (external_verbatim c tk (r ++ dashdash :: t1) st1) as Hx1. rewrite Hparsed1 in Hx1. cbn [holds] in Hx1.
    pose proof (external_verbatim c tk (r ++ dashdash :: t2) st1) as Hx2. rewrite Hparsed2 in Hx2. cbn [holds] in Hx2.
    assert (Hargs : mt_args (mt s1) = mt_args (mt s2)).
    { subst p1 p2.
      destruct (phases_ssub c (Some (tk, Matches [(ext_id, ext_marg (r ++ dashdash :: t1))] None))
                  (Some (tk, Matches [(ext_id, ext_marg (r ++ dashdash :: t2))] None)) st1 _ _ _ _ _ _ A1 A2 A3 B1 B2 B3)
        as (d0 & -> & ->). reflexivity. }
    cbn [prefix_same]. right. right. exists tk, r, t1, t2. cbn [into_inner ms_sub ms_args]. rewrite Hk1, Hk2, Hx1, Hx2.
    split; [reflexivity|]. split; [reflexivity|exact Hargs].
Qed.

(** * (1) over the tree: a help/version outcome of the whole parse is not caused by the tail *)
Lemma find_sub_dd c : (forall vaf, possible_subcommand c dashdash vaf = None) -> find_subcommand c dashdash = None.
Proof.
  intros H. specialize (H false). unfold possible_subcommand in H.
  change (utf8_valid dashdash) with true in H. cbn [negb] in H. rewrite andb_false_r in H.
  match type of H with match ?inf with Some n => _ | None => _ end = None => destruct inf end; [discriminate|].
  destruct (find_subcommand c dashdash); [discriminate|reflexivity].
Qed.

Lemma help_walk_dd : forall r f c t1 t2, esc_ok f c ->
  help_walk c (r ++ dashdash :: t1) = help_walk c (r ++ dashdash :: t2).
Proof.
  induction r as [|n r IH]; intros f c t1 t2 Hok; destruct f as [|f]; try destruct Hok.
  - destruct H0 as (_ & _ & _ & Hdd & _). cbn [app help_walk]. rewrite (find_sub_dd c Hdd). reflexivity.
  - destruct H0 as (_ & _ & _ & _ & _ & Hch). cbn [app help_walk].
    destruct (find_subcommand c n) as [s0|]; [|reflexivity].
    destruct (build_subcommand c (c_name s0)) as [s'|] eqn:Eb; [|reflexivity].
    exact (IH f s' t1 t2 (Hch _ _ Eb)).
Qed.

Lemma post_err c e st : is_set s_ignore_errors c = false -> post c (RErr e st) = RErr e st.
Proof. intros H. cbn [post]. rewrite H. reflexivity. Qed.

Theorem gmw_display_not_from_tail : forall fuel c pre t1 t2 st0 e s,
  esc_ok fuel c -> mt_pending (mt st0) = None ->
  get_matches_with fuel c (pre ++ dashdash :: t1) st0 = RErr e s -> is_display (e_kind e) = true ->
  exists s', get_matches_with fuel c (pre ++ dashdash :: t2) st0 = RErr e s'.
Proof.
  induction fuel as [|f IH]; intros c pre t1 t2 st0 e s Hok Hp0 H Hd; [destruct Hok|].
  pose proof Hok as Hok'. destruct Hok as (Hwf & Happ & Hig & Hnh & Hdd & Hnd & Hch).
  pose proof (lvl_of_wfc c Hwf Happ) as Hl. destruct Hl as (W3 & WP & WD).
  assert (Hl : lvl c) by (split; [exact W3|split; [exact WP|exact WD]]).
  rewrite !gmw_unfold in *. unfold parsed_of in *. fold ls0 in *.
  destruct (TV0 c st0 Hp0) as [HTV HLTV].
  pose proof (escape_line_sim c W3 WP Hnh Hdd pre t1 t2 ls0 st0 HTV HLTV) as Hs.
  remember (parse_loop c (pre ++ dashdash :: t1) ls0 st0) as R1 eqn:ER1.
  remember (parse_loop c (pre ++ dashdash :: t2) ls0 st0) as R2 eqn:ER2.
  assert (Contra : forall stp, TV c stp -> post c (ROk stp) = RErr e s -> False).
  { intros stp HT Hp. rewrite (post_no_display c Hl Hnd stp e s HT Hp) in Hd. discriminate. }
  destruct Hs as [x ls' st1 Htr HT _ _|e0 s0|x|n k v s0 r HT0|r s0|tk r s0 HT0]; cbn [rbind] in H |- *.
  - exfalso. destruct (parse_loop c (x ++ t1) ls' st1) as [lr|e1 s1|x1] eqn:EL; cbn [rbind] in H.
    + pose proof (trailing_result_TV c Hl _ _ _ _ WP Htr HT EL) as HTlr.
      destruct lr as [s1|? ? ? s1 ?|nm vals s1|? s1]; cbn [lr_state] in HTlr.
      * exact (Contra s1 HTlr H).
      * destruct (trailing_no_dispatch c _ _ _ _ Htr EL) as [[? Hq]|(? & ? & ? & ? & _ & Hq & _)]; discriminate Hq.
      * destruct (external_matches c nm vals s1) as [stp|e1 s2|x1] eqn:Ex.
        -- pose proof (external_verbatim c nm vals s1) as Hx. rewrite Ex in Hx. cbn [holds] in Hx. subst stp.
           exact (Contra _ (TV_set_sub c s1 _ HTlr) H).
        -- rewrite (post_err c _ _ Hig) in H. injection H as <- _.
           rewrite (external_matches_kind c _ _ _ _ _ Ex) in Hd. discriminate.
        -- discriminate H.
      * destruct (trailing_no_dispatch c _ _ _ _ Htr EL) as [[? Hq]|(? & ? & ? & ? & _ & Hq & _)]; discriminate Hq.
    + rewrite (post_err c _ _ Hig) in H. injection H as <- _.
      rewrite (trailing_no_display_TV c W3 WP WD _ _ _ _ _ Htr HT EL) in Hd. discriminate.
    + discriminate H.
  - exists s. exact H.
  - discriminate H.
  - unfold after_sub in *.
    destruct (is_set s_args_negate_subs c && v); [exists s; exact H|].
    destruct (find_subcommand c n) as [sc0|]; cbn [expect rbind] in *; [|discriminate H].
    destruct (build_subcommand c (c_name sc0)) as [sc|] eqn:Eb; [|exfalso; exact (Contra s0 HT0 H)].
    destruct (negb (assert_app sc)); [discriminate H|].
    destruct (get_matches_with f sc (r ++ dashdash :: t1) (sub_init k s0)) as [sub1|e1 sub1|x1] eqn:Eg1.
    + exfalso. exact (Contra _ (TV_set_sub c s0 _ HT0) H).
    + rewrite Hig in H. rewrite (post_err c _ _ Hig) in H. injection H as <- <-.
      assert (Hps : mt_pending (mt (sub_init k s0)) = None) by (unfold sub_init; destruct k; reflexivity).
      destruct (IH sc r t1 t2 (sub_init k s0) e1 sub1 (Hch _ _ Eb) Hps Eg1 Hd) as [s' Eg2].
      rewrite Eg2, Hig. exists s0. apply post_err. exact Hig.
    + discriminate H.
  - rewrite (help_walk_dd r (S f) c t1 t2 Hok') in H. exists s. exact H.
  - exfalso. destruct (external_matches c tk (r ++ dashdash :: t1) s0) as [stp|e1 s2|x1] eqn:Ex.
    + pose proof (external_verbatim c tk (r ++ dashdash :: t1) s0) as Hx. rewrite Ex in Hx. cbn [holds] in Hx. subst stp.
      exact (Contra _ (TV_set_sub c s0 _ HT0) H).
    + rewrite (post_err c _ _ Hig) in H. injection H as <- _.
      rewrite (external_matches_kind c _ _ _ _ _ Ex) in Hd. discriminate.
    + discriminate H.
Qed.

(** * [do_parse] / [parse_top] *)
Fixpoint esc_okb (fuel : nat) (c : cmd) : bool :=
  match fuel with
  | O => false
  | S f =>
      negb (is_set s_ignore_errors c) && forallb (fun a => negb (a_hyphen a)) (c_args c)
      && negb (is_some (possible_subcommand c dashdash false)) && negb (is_some (possible_subcommand c dashdash true))
      && forallb (fun a => negb (display_action a)
                           || (negb (is_some (a_env a)) && is_nil (a_default a) && is_nil (a_default_ifs a))) (c_args c)
      && forallb (fun s => match build_subcommand c (c_name s) with Some sc => esc_okb f sc | None => false end) (c_subs c)
  end.

Lemma esc_ok_of : forall f c, tree_ok f c -> esc_okb f c = true -> esc_ok f c.
Proof.
  induction f as [|f IH]; intros c Hok Hb; [destruct Hok|].
  destruct Hok as (Hwf & Happ & Hch). cbn [esc_okb] in Hb.
  apply andb_true_iff in Hb as [Hb H5]. apply andb_true_iff in Hb as [Hb H6]. apply andb_true_iff in Hb as [Hb H4].
  apply andb_true_iff in Hb as [Hb H3]. apply andb_true_iff in Hb as [H1 H2].
  cbn [esc_ok]. split; [exact Hwf|]. split; [exact Happ|]. split; [apply negb_true_iff; exact H1|].
  split; [intros a Hin; rewrite forallb_forall in H2; apply negb_true_iff; apply H2; exact Hin|].
  split; [|split].
  - intros [|].
    + destruct (possible_subcommand c dashdash true); [discriminate|reflexivity].
    + destruct (possible_subcommand c dashdash false); [discriminate|reflexivity].
  - intros a Hin Ha. rewrite forallb_forall in H6. specialize (H6 a Hin). rewrite Ha in H6. cbn [negb orb] in H6.
    apply andb_true_iff in H6 as [H6 Hc3]. apply andb_true_iff in H6 as [Hc1 Hc2].
    split; [destruct (a_env a); [discriminate|reflexivity]|].
    split; [destruct (a_default a); [reflexivity|discriminate]|destruct (a_default_ifs a); [reflexivity|discriminate]].
  - intros name sc Hbs. apply IH; [exact (Hch name sc Hbs)|].
    pose proof Hbs as Hbs'. unfold build_subcommand in Hbs'.
    destruct (List.find (fun s => beq (c_name s) name) (c_subs c)) as [s0|] eqn:Ef; [|discriminate].
    apply List.find_some in Ef. destruct Ef as [Hin Hn]. apply beq_eq in Hn.
    rewrite forallb_forall in H5. specialize (H5 s0 Hin). rewrite Hn, Hbs in H5. exact H5.
Qed.

Fixpoint globals_free (c : cmd) : bool :=
  match c with
  | mkCmd _ _ _ _ _ _ args _ subs _ _ _ _ _ _ _ _ _ =>
      forallb (fun a => negb (a_global a)) args
      && (fix go (l : list cmd) : bool := match l with [] => true | s :: t => globals_free s && go t end) subs
  end.

Lemma globals_free_spec c : globals_free c = true ->
  filter a_global (c_args c) = [] /\ forall s, In s (c_subs c) -> globals_free s = true.
Proof.
  destruct c as [? ? ? ? ? ? args ? subs ? ? ? ? ? ? ? ? ?]. cbn [globals_free c_args c_subs].
  intros H. apply andb_true_iff in H as [H1 H2]. split.
  - clear H2. induction args as [|a l IHl]; [reflexivity|]. cbn [forallb] in H1. apply andb_true_iff in H1 as [Ha Hl].
    cbn [filter]. apply negb_true_iff in Ha. rewrite Ha. apply IHl. exact Hl.
  - clear H1. induction subs as [|s0 l IHl]; intros s Hin; [destruct Hin|].
    apply andb_true_iff in H2 as [Hs Hl]. destruct Hin as [<-|Hin]; [exact Hs|apply IHl; assumption].
Qed.

Lemma used_global_args_free : forall f c m, globals_free c = true -> used_global_args f c m = [].
Proof.
  induction f as [|f IH]; intros c m H; [reflexivity|]. cbn [used_global_args].
  destruct (globals_free_spec c H) as [H1 H2]. rewrite H1. cbn [map app].
  destruct (ms_sub m) as [[name sm]|]; [|reflexivity].
  destruct (find_subcommand c name) as [sc|] eqn:Ef; [|reflexivity].
  apply IH. apply H2. unfold find_subcommand in Ef. exact (proj1 (List.find_some _ _ Ef)).
Qed.

Lemma fill_nil : forall f m, fill_in_global_values f [] m [] = (m, []).
Proof.
  induction f as [|f IH]; intros m; [reflexivity|]. cbn [fill_in_global_values fold_left].
  destruct m as [args [[name sm]|]]; cbn [ms_sub ms_args]; [rewrite IH|]; reflexivity.
Qed.

Definition top_fuel (c0 : cmd) : nat := S (S (depth (build_self c0))).

(** the class of the whole-parse theorems, all boolean: [plain] and [valid] (as for C01), no
    [ignore_errors], no argument accepting hyphen values and no subcommand named [--] at any level
    ([esc_okb]), no global arguments ([globals_free] of the fully built tree) *)
Definition esc_class0 (c0 : cmd) : bool := plain c0 && valid c0 && esc_okb (top_fuel c0) (build_self c0).
Definition esc_class (c0 : cmd) : bool := esc_class0 c0 && globals_free (build_recursive (top_fuel c0) c0).

Lemma esc_class0_ok c0 : esc_class0 c0 = true ->
  valid c0 = true /\ esc_ok (top_fuel c0) (build_self c0) /\ is_set s_ignore_errors (build_self c0) = false.
Proof.
  unfold esc_class0. intros H. apply andb_true_iff in H as [H H3]. apply andb_true_iff in H as [H1 H2].
  split; [exact H2|].
  pose proof H2 as Hv. unfold valid in Hv. cbn zeta in Hv.
  pose proof (tree_ok_of_valid _ _ H1 Hv) as Hok.
  pose proof (esc_ok_of _ _ Hok H3) as He. split; [exact He|].
  unfold top_fuel in He. cbn [esc_ok] in He. exact (proj1 (proj2 (proj2 He))).
Qed.

Lemma esc_class_ok c0 : esc_class c0 = true ->
  valid c0 = true /\ esc_ok (top_fuel c0) (build_self c0) /\ is_set s_ignore_errors (build_self c0) = false
  /\ globals_free (build_recursive (top_fuel c0) c0) = true.
Proof.
  unfold esc_class. intros H. apply andb_true_iff in H as [H H4].
  destruct (esc_class0_ok c0 H) as (A & B & C). auto.
Qed.

(** (3): for every command of the class, every prefix and every non-empty tail: a successful parse
    has delivered the tail *)
Theorem do_parse_delivered c0 pre t m :
  esc_class c0 = true -> t <> [] ->
  do_parse c0 (pre ++ dashdash :: t) = OOk m ->
  delivered (top_fuel c0) (build_self c0) t m.
Proof.
  intros Hc Ht. destruct (esc_class_ok c0 Hc) as (Hv & Hok & Hig & Hg).
  unfold do_parse. rewrite Hv. cbn [negb]. fold (top_fuel c0).
  destruct (get_matches_with (top_fuel c0) (build_self c0) (pre ++ dashdash :: t) ps_new) as [st|e st|x] eqn:Eg.
  - rewrite (used_global_args_free _ _ _ Hg), fill_nil. cbn [fst]. intros H. injection H as <-.
    exact (gmw_delivered _ _ pre t ps_new st Hok Ht eq_refl eq_refl Eg).
  - rewrite Hig. discriminate.
  - destruct x; discriminate.
Qed.

Theorem parse_top_delivered c0 bin pre t m :
  esc_class c0 = true -> is_set s_no_binary_name c0 = false -> c_bin_name c0 <> None -> t <> [] ->
  parse_top c0 (bin :: pre ++ dashdash :: t) = OOk m ->
  delivered (top_fuel c0) (build_self c0) t m.
Proof.
  intros Hc Hnb Hb Ht. unfold parse_top. rewrite Hnb. destruct (c_bin_name c0); [|contradiction].
  apply do_parse_delivered; assumption.
Qed.

Lemma do_parse_ok_inv c0 toks m : esc_class c0 = true -> do_parse c0 toks = OOk m ->
  exists st, get_matches_with (top_fuel c0) (build_self c0) toks ps_new = ROk st /\ m = into_inner (mt st).
Proof.
  intros Hc. destruct (esc_class_ok c0 Hc) as (Hv & Hok & Hig & Hg).
  unfold do_parse. rewrite Hv. cbn [negb]. fold (top_fuel c0).
  destruct (get_matches_with (top_fuel c0) (build_self c0) toks ps_new) as [st|e st|x] eqn:Eg.
  - rewrite (used_global_args_free _ _ _ Hg), fill_nil. cbn [fst]. intros H. injection H as <-. exists st. auto.
  - rewrite Hig. discriminate.
  - destruct x; discriminate.
Qed.

(** (4): two successful parses with the same prefix and different tails (the empty one included) *)
Theorem do_parse_prefix_same c0 pre t1 t2 m1 m2 :
  esc_class c0 = true ->
  do_parse c0 (pre ++ dashdash :: t1) = OOk m1 -> do_parse c0 (pre ++ dashdash :: t2) = OOk m2 ->
  prefix_same (top_fuel c0) (build_self c0) m1 m2.
Proof.
  intros Hc H1 H2. destruct (esc_class_ok c0 Hc) as (Hv & Hok & Hig & Hg).
  destruct (do_parse_ok_inv _ _ _ Hc H1) as (s1 & E1 & ->). destruct (do_parse_ok_inv _ _ _ Hc H2) as (s2 & E2 & ->).
  exact (gmw_prefix_same _ _ pre t1 t2 ps_new s1 s2 Hok eq_refl eq_refl E1 E2).
Qed.

Theorem parse_top_prefix_same c0 bin pre t1 t2 m1 m2 :
  esc_class c0 = true -> is_set s_no_binary_name c0 = false -> c_bin_name c0 <> None ->
  parse_top c0 (bin :: pre ++ dashdash :: t1) = OOk m1 -> parse_top c0 (bin :: pre ++ dashdash :: t2) = OOk m2 ->
  prefix_same (top_fuel c0) (build_self c0) m1 m2.
Proof.
  intros Hc Hnb Hb. unfold parse_top. rewrite Hnb. destruct (c_bin_name c0); [|contradiction].
  apply do_parse_prefix_same; assumption.
Qed.

(** * Non-vacuity: an option, a flag, a [last] multi-valued positional, and a subcommand with a
    multi-valued positional of its own *)
Definition x_pos : arg := (arg_new [112]) <| a_num := Some {| vmin := 0; vmax := usize_max |} |> <| a_last := true |>.
Definition x_opt : arg := (arg_new [111]) <| a_long := Some [111; 112; 116] |> <| a_action := Some ASet |>.
Definition x_flag : arg := (arg_new [102]) <| a_short := Some 102 |> <| a_action := Some ASetTrue |>.
Definition x_q : arg := (arg_new [113]) <| a_num := Some {| vmin := 1; vmax := usize_max |} |>.
Definition x_sub : cmd := (cmd_new [115; 117; 98]) <| c_args := [x_q] |>.
Definition x_c0 : cmd :=
  (cmd_new [112]) <| c_args := [x_opt; x_flag; x_pos] |> <| c_subs := [x_sub] |> <| c_bin_name := Some [112] |>.
Definition w_opt : bytes := [45; 45; 111; 112; 116].
Definition w_v : bytes := [118].
Definition w_f : bytes := [45; 102].
Definition w_x : bytes := [45; 120].
Definition x_tail : list bytes := [t_help; t_sub; []; t_optv; dashdash].

Example ex_class : esc_class x_c0 = true /\ is_set s_no_binary_name x_c0 = false /\ c_bin_name x_c0 <> None.
Proof. split; [vm_compute; reflexivity|]. split; [reflexivity|discriminate]. Qed.

(** the root: every positional counter leads to the [last] positional *)
Example ex_sink_root : exists a, sink_from (build_self x_c0) 1 a /\ a_id a = [112].
Proof.
  destruct (sink_arg (build_self x_c0) 1) as [a|] eqn:E; [|vm_compute in E; discriminate].
  exists a. split.
  - left. intros pc. rewrite <- E. unfold sink_arg, sink_index.
    assert (E1 : low_index_mults_any (build_self x_c0) = false) by (vm_compute; reflexivity).
    assert (E2 : is_set s_allow_missing_pos (build_self x_c0) || existsb a_last (c_args (build_self x_c0)) = true)
      by (vm_compute; reflexivity).
    rewrite E1, E2. reflexivity.
  - vm_compute in E. injection E as <-. reflexivity.
Qed.

(** the subcommand: a single multi-valued positional, the counter cannot move ([sticky]) *)
Example ex_sink_sub : exists sc a, build_subcommand (build_self x_c0) t_sub = Some sc /\
  sink_from sc 1 a /\ a_id a = [113].
Proof.
  destruct (build_subcommand (build_self x_c0) t_sub) as [sc|] eqn:Eb; [|vm_compute in Eb; discriminate].
  destruct (sink_arg sc 1) as [a|] eqn:E.
  2:{ exfalso. vm_compute in Eb. injection Eb as <-. vm_compute in E. discriminate. }
  exists sc, a. split; [reflexivity|]. split.
  - right. split; [|exact E]. vm_compute in Eb. injection Eb as <-. vm_compute. reflexivity.
  - vm_compute in Eb. injection Eb as <-. vm_compute in E. injection E as <-. reflexivity.
Qed.

(** [prog --opt v -f -- --help sub "" --opt=v --]: everything after the first [--] is in the positional *)
Example ex_top_run :
  match parse_top x_c0 ([112] :: [w_opt; w_v; w_f] ++ dashdash :: x_tail) with
  | OOk (Matches args None) =>
      opt_map m_raw (fm_get [112] args) = Some [x_tail] /\ opt_map m_raw (fm_get [111] args) = Some [[w_v]]
  | _ => False
  end.
Proof. vm_compute. split; reflexivity. Qed.

(** [prog -f sub v -- --help -x]: the prefix selects the subcommand, whose positional receives the tail *)
Example ex_top_dispatch :
  match parse_top x_c0 ([112] :: [w_f; t_sub; w_v] ++ dashdash :: [t_help; w_x]) with
  | OOk (Matches _ (Some (n, Matches args None))) =>
      n = t_sub /\ opt_map m_raw (fm_get [113] args) = Some [[w_v; t_help; w_x]]
  | _ => False
  end.
Proof. vm_compute. split; reflexivity. Qed.

(** the same prefix without a tail succeeds as well (hypotheses of [parse_top_prefix_same]) *)
Example ex_top_empty_tail :
  match parse_top x_c0 ([112] :: [w_opt; w_v; w_f] ++ dashdash :: []) with
  | OOk (Matches args None) => opt_map m_raw (fm_get [111] args) = Some [[w_v]] /\ fm_get [112] args = None
  | _ => False
  end.
Proof. vm_compute. split; reflexivity. Qed.

(** [--opt] is outside [touched] of the positional *)
Example ex_untouched : exists a, sink_arg (build_self x_c0) 1 = Some a /\
  touched (build_self x_c0) a [111] = false /\ find_group (build_self x_c0) [111] = None.
Proof. eexists. split; [vm_compute; reflexivity|]. split; vm_compute; reflexivity. Qed.

(** a help request BEFORE the escape is a help outcome whatever follows the escape *)
Example ex_display_prefix :
  match parse_loop (build_self x_c0) ([t_help] ++ dashdash :: x_tail) ls0 ps_new,
        parse_loop (build_self x_c0) ([t_help] ++ dashdash :: []) ls0 ps_new with
  | RErr e1 _, RErr e2 _ => is_display (e_kind e1) = true /\ e1 = e2
  | _, _ => False
  end.
Proof. vm_compute. split; reflexivity. Qed.

(** The restriction to entries outside [touched] cannot be dropped: an option that the positional
    overrides loses its entry as soon as the tail gives the positional a value (documented semantics
    of [overrides_with]; corpus/C05/escape-main.r2.cases replays the line on the implementation). *)
Definition y_pos : arg := x_pos <| a_overrides := [[111]] |>.
Definition y_c0 : cmd := (cmd_new [112]) <| c_args := [x_opt; y_pos] |> <| c_bin_name := Some [112] |>.
Theorem prefix_unrestricted_refuted : exists c0 pre t m1 m2 y,
  esc_class c0 = true /\ do_parse c0 (pre ++ dashdash :: t) = OOk m1 /\ do_parse c0 (pre ++ dashdash :: []) = OOk m2 /\
  fm_get y (ms_args m2) <> None /\ fm_get y (ms_args m1) = None.
Proof.
  exists y_c0, [w_opt; w_v], [w_x]. eexists. eexists. exists [111].
  split; [vm_compute; reflexivity|]. split; [vm_compute; reflexivity|]. split; [vm_compute; reflexivity|].
  split; [vm_compute; discriminate|vm_compute; reflexivity].
Qed.

(** * Non-vacuity of the chain class: [prog [-f] <src> <dst> [rest]...] *)
Definition z_src : arg := (arg_new [115]) <| a_required := true |>.
Definition z_dst : arg := (arg_new [100]) <| a_required := true |>.
Definition z_rest : arg := (arg_new [114]) <| a_num := Some {| vmin := 0; vmax := usize_max |} |>.
Definition z_c0 : cmd := (cmd_new [112]) <| c_args := [x_flag; z_src; z_dst; z_rest] |> <| c_bin_name := Some [112] |>.
Definition w_a : bytes := [45; 97].

Example ex_chain_class : esc_class z_c0 = true /\ chainc (build_self z_c0) = true.
Proof. split; vm_compute; reflexivity. Qed.

(** [prog -f -- -a --help x --]: [-a] is the source, [--help] the destination, [x --] the rest *)
Example ex_chain_run :
  match parse_top z_c0 ([112] :: [w_f] ++ dashdash :: [w_a; t_help; w_x; dashdash]) with
  | OOk (Matches args None) =>
      opt_map m_raw (fm_get [115] args) = Some [[w_a]] /\ opt_map m_raw (fm_get [100] args) = Some [[t_help]] /\
      opt_map m_raw (fm_get [114] args) = Some [[w_x; dashdash]] /\ opt_map m_raw (fm_get [102] args) = Some [[s_true]]
  | _ => False
  end.
Proof. vm_compute. repeat split; reflexivity. Qed.

(** [prog a -- --help -x]: the source was given before the escape, the counter is at the destination *)
Example ex_chain_run_mid :
  match parse_top z_c0 ([112] :: [w_v] ++ dashdash :: [t_help; w_x]) with
  | OOk (Matches args None) =>
      opt_map m_raw (fm_get [115] args) = Some [[w_v]] /\ opt_map m_raw (fm_get [100] args) = Some [[t_help]] /\
      opt_map m_raw (fm_get [114] args) = Some [[w_x]]
  | _ => False
  end.
Proof. vm_compute. repeat split; reflexivity. Qed.

(** the flag is untouched by every positional *)
Example ex_chain_untouched :
  forallb (fun a => if is_some (a_index a) then negb (touched (build_self z_c0) a [102]) else true)
          (c_args (build_self z_c0)) = true.
Proof. vm_compute. reflexivity. Qed.

(** (1) for the entry points: a DisplayHelp/DisplayVersion outcome of [pre ++ -- :: t1] is the outcome
    for every other tail *)
Theorem do_parse_display_not_from_tail c0 pre t1 t2 e :
  esc_class0 c0 = true -> do_parse c0 (pre ++ dashdash :: t1) = OErr e -> is_display (e_kind e) = true ->
  do_parse c0 (pre ++ dashdash :: t2) = OErr e.
Proof.
  intros Hc. destruct (esc_class0_ok c0 Hc) as (Hv & Hok & Hig).
  unfold do_parse. rewrite Hv. cbn [negb]. fold (top_fuel c0). rewrite Hig. cbn [andb].
  destruct (get_matches_with (top_fuel c0) (build_self c0) (pre ++ dashdash :: t1) ps_new) as [st|e1 st|x] eqn:Eg.
  - discriminate.
  - intros H Hd. injection H as ->.
    destruct (gmw_display_not_from_tail _ _ pre t1 t2 ps_new e st Hok eq_refl Eg Hd) as [s' ->]. reflexivity.
  - destruct x; discriminate.
Qed.

Theorem parse_top_display_not_from_tail c0 bin pre t1 t2 e :
  esc_class0 c0 = true -> is_set s_no_binary_name c0 = false -> c_bin_name c0 <> None ->
  parse_top c0 (bin :: pre ++ dashdash :: t1) = OErr e -> is_display (e_kind e) = true ->
  parse_top c0 (bin :: pre ++ dashdash :: t2) = OErr e.
Proof.
  intros Hc Hnb Hb. unfold parse_top. rewrite Hnb. destruct (c_bin_name c0); [|contradiction].
  apply do_parse_display_not_from_tail. exact Hc.
Qed.

(** [prog --help -- x y] asks for help whatever follows the escape *)
Example ex_top_display :
  match parse_top x_c0 ([112] :: [t_help] ++ dashdash :: x_tail) with
  | OErr e => is_display (e_kind e) = true
  | _ => False
  end.
Proof. vm_compute. reflexivity. Qed.

(** * Outside the classes: the low-index-multiple rule still looks at the shape of tail tokens

    [prog <files>... <dest>]: after the escape the look-ahead of the low-index-multiple rule
    ([is_new_arg] / [possible_subcommand] on the NEXT token) is still evaluated, so a tail token that
    looks like a flag ends the multi-valued positional early and the line is rejected, although the
    same line with an innocuous token is accepted.  The implementation agrees
    (corpus/C05/escape-main.r2.cases); the property's class (a TRAILING multi-valued positional) and
    the classes of the theorems above exclude such commands. *)
Definition l_files : arg := (arg_new [102]) <| a_num := Some {| vmin := 1; vmax := usize_max |} |> <| a_required := true |>.
Definition l_dest : arg := (arg_new [100]) <| a_required := true |>.
Definition l_c0 : cmd := (cmd_new [112]) <| c_args := [l_files; l_dest] |> <| c_bin_name := Some [112] |>.
Definition w_b : bytes := [98].
Definition w_c : bytes := [99].
Theorem low_index_tail_shape_refuted : exists c0 tail alt,
  plain c0 = true /\ valid c0 = true /\ length tail = length alt /\
  (exists m, do_parse c0 (dashdash :: alt) = OOk m) /\
  (exists e, do_parse c0 (dashdash :: tail) = OErr e /\ e_kind e = EUnknownArgument).
Proof.
  exists l_c0, [w_v; w_x; w_c], [w_v; w_b; w_c].
  split; [vm_compute; reflexivity|]. split; [vm_compute; reflexivity|]. split; [reflexivity|].
  split; [eexists; vm_compute; reflexivity|]. eexists. split; [vm_compute; reflexivity|reflexivity].
Qed.

(** * Global arguments: [delivered] survives [fill_in_global_values] when no positional (and not the
    external-subcommand slot) has the id of a global argument *)
Fixpoint pos_free (gl : list id) (f : nat) (c : cmd) : Prop :=
  match f with
  | O => True
  | S f' => (forall a, In a (c_args c) -> a_index a <> None -> mem_id (a_id a) gl = false)
            /\ mem_id ext_id gl = false
            /\ forall name sc, build_subcommand c name = Some sc -> pos_free gl f' sc
  end.

Fixpoint pos_freeb (gl : list id) (f : nat) (c : cmd) : bool :=
  match f with
  | O => true
  | S f' => forallb (fun a => if is_some (a_index a) then negb (mem_id (a_id a) gl) else true) (c_args c)
            && negb (mem_id ext_id gl)
            && forallb (fun s => match build_subcommand c (c_name s) with Some sc => pos_freeb gl f' sc | None => true end)
                       (c_subs c)
  end.

Lemma pos_free_of gl : forall f c, pos_freeb gl f c = true -> pos_free gl f c.
Proof.
  induction f as [|f IH]; intros c H; [exact I|]. cbn [pos_freeb] in H.
  apply andb_true_iff in H as [H H3]. apply andb_true_iff in H as [H1 H2]. cbn [pos_free].
  split; [|split; [apply negb_true_iff; exact H2|]].
  - intros a Hin Hidx. rewrite forallb_forall in H1. specialize (H1 a Hin).
    destruct (a_index a); [|contradiction]. cbn in H1. apply negb_true_iff. exact H1.
  - intros name sc Hbs. apply IH. pose proof Hbs as Hbs'. unfold build_subcommand in Hbs'.
    destruct (List.find (fun s => beq (c_name s) name) (c_subs c)) as [s0|] eqn:Ef; [|discriminate].
    apply List.find_some in Ef. destruct Ef as [Hin Hn]. apply beq_eq in Hn.
    rewrite forallb_forall in H3. specialize (H3 s0 Hin). rewrite Hn, Hbs in H3. exact H3.
Qed.

Lemma delivered_sng gl : forall f c t m m', pos_free gl f c -> delivered f c t m -> sng gl m m' -> delivered f c t m'.
Proof.
  induction f as [|f IH]; intros c t m m' Hp Hd Hs; [destruct Hd|].
  destruct m as [a s], m' as [a' s']. destruct Hp as (Hp & He & Hch). destruct Hs as [Hs1 Hs2].
  cbn [delivered ms_sub ms_args] in *.
  destruct Hd as [[D1 D2]|[(name & sc & sm & Eb & Esub & Hd)|(name & vals & sm & Esub & Hn & Hext)]].
  - left. split.
    + intros x Hx. destruct (D1 x Hx) as (Hnone & e & gs & early & t' & G1 & G2). subst s.
      destruct s' as [[? ?]|]; [contradiction|]. split; [reflexivity|]. exists e, gs, early, t'. split; [|exact G2].
      assert (Hsa : sink_arg c 1 = Some x) by (destruct Hx as [Hx|[_ Hx]]; [apply Hx|exact Hx]).
      destruct (sink_in c _ _ Hsa) as [Hin Hidx]. rewrite (Hs1 _ (Hp x Hin Hidx)). exact G1.
    + intros Hcc. destruct (D2 Hcc) as (Hnone & x & pc & Hcf). subst s.
      destruct s' as [[? ?]|]; [contradiction|]. split; [reflexivity|]. exists x, pc.
      eapply chain_filled_mono; [|exact Hcf]. intros b e Hin Hidx Hb. cbv beta in *. rewrite (Hs1 _ (Hp b Hin Hidx)). exact Hb.
  - right. left. subst s. destruct s' as [[n' sm']|]; [|contradiction]. destruct Hs2 as [<- Hs2].
    exists name, sc, sm'. split; [exact Eb|]. split; [reflexivity|]. exact (IH sc t sm sm' (Hch _ _ Eb) Hd Hs2).
  - right. right. subst s. destruct s' as [[n' sm']|]; [|contradiction]. destruct Hs2 as [<- Hs2].
    exists name, vals, sm'. split; [reflexivity|].
    destruct sm as [sa ss], sm' as [sa' ss']. cbn [ms_sub ms_args sng] in *. destruct Hs2 as [Hq1 Hq2]. subst ss.
    split; [destruct ss' as [[? ?]|]; [contradiction|reflexivity]|]. rewrite (Hq1 _ He). exact Hext.
Qed.

Definition tree_globals (c0 : cmd) : list id := all_globals (build_recursive (top_fuel c0) c0).

(** the class of [parse_top_delivered_g]: as [esc_class], with global arguments allowed as long as no
    positional of any level carries the id of a global argument of the tree *)
Definition esc_class_g (c0 : cmd) : bool :=
  esc_class0 c0 && pos_freeb (tree_globals c0) (top_fuel c0) (build_self c0).

Theorem do_parse_delivered_g c0 pre t m :
  esc_class_g c0 = true -> t <> [] ->
  do_parse c0 (pre ++ dashdash :: t) = OOk m ->
  delivered (top_fuel c0) (build_self c0) t m.
Proof.
  unfold esc_class_g. intros Hc Ht. apply andb_true_iff in Hc as [Hc Hpf].
  destruct (esc_class0_ok c0 Hc) as (Hv & Hok & Hig).
  unfold do_parse. rewrite Hv. cbn [negb]. fold (top_fuel c0).
  destruct (get_matches_with (top_fuel c0) (build_self c0) (pre ++ dashdash :: t) ps_new) as [st|e st|x] eqn:Eg.
  - intros H. injection H as <-.
    pose proof (gmw_delivered _ _ pre t ps_new st Hok Ht eq_refl eq_refl Eg) as Hd.
    set (m0 := into_inner (mt st)) in *.
    set (gs := used_global_args (S (matches_depth m0)) (build_recursive (top_fuel c0) c0) m0).
    assert (Hgs : forall g, In g gs -> mem_id g (tree_globals c0) = true).
    { intros g Hg. apply in_mem_id. exact (used_in_all _ _ _ _ Hg). }
    destruct (fill_spec (tree_globals c0) gs Hgs (S (matches_depth m0)) m0 []) as [_ Hs]; [intros p []|].
    exact (delivered_sng _ _ _ _ _ _ (pos_free_of _ _ _ Hpf) Hd Hs).
  - rewrite Hig. discriminate.
  - destruct x; discriminate.
Qed.

Theorem parse_top_delivered_g c0 bin pre t m :
  esc_class_g c0 = true -> is_set s_no_binary_name c0 = false -> c_bin_name c0 <> None -> t <> [] ->
  parse_top c0 (bin :: pre ++ dashdash :: t) = OOk m ->
  delivered (top_fuel c0) (build_self c0) t m.
Proof.
  intros Hc Hnb Hb Ht. unfold parse_top. rewrite Hnb. destruct (c_bin_name c0); [|contradiction].
  apply do_parse_delivered_g; assumption.
Qed.

(** non-vacuity: a global flag on the root, inherited by the subcommand *)
Definition g_flag : arg := (arg_new [103]) <| a_long := Some [103] |> <| a_action := Some ASetTrue |> <| a_global := true |>.
Definition g_c0 : cmd :=
  (cmd_new [112]) <| c_args := [g_flag; x_opt; x_pos] |> <| c_subs := [x_sub] |> <| c_bin_name := Some [112] |>.
Definition w_g : bytes := [45; 45; 103].

Example ex_class_g : esc_class_g g_c0 = true /\ esc_class g_c0 = false.
Proof. split; vm_compute; reflexivity. Qed.

(** [prog --g sub v -- --help -x]: the global flag is propagated into the subcommand's matches, the
    subcommand's positional holds the tail *)
Example ex_top_globals :
  match parse_top g_c0 ([112] :: [w_g; t_sub; w_v] ++ dashdash :: [t_help; w_x]) with
  | OOk (Matches args (Some (n, Matches sargs None))) =>
      n = t_sub /\ opt_map m_raw (fm_get [113] sargs) = Some [[w_v; t_help; w_x]] /\
      opt_map m_raw (fm_get [103] sargs) = Some [[s_true]] /\ opt_map m_raw (fm_get [103] args) = Some [[s_true]]
  | _ => False
  end.
Proof. vm_compute. repeat split; reflexivity. Qed.

(** * [parse_top] is [do_parse] of the definition with the program name filled in *)
Definition top_cmd (c0 : cmd) (bin : bytes) : cmd :=
  match c_bin_name c0 with
  | Some _ => c0
  | None => if utf8_valid bin && negb (is_nil bin) then c0 <| c_bin_name := Some bin |> else c0
  end.

Theorem parse_top_is_do_parse c0 bin rest :
  is_set s_no_binary_name c0 = false -> parse_top c0 (bin :: rest) = do_parse (top_cmd c0 bin) rest.
Proof. intros H. unfold parse_top, top_cmd. rewrite H. reflexivity. Qed.
