(** C01, round 5 (B): EVERY definition the configuration gate accepts -- no restriction on short flag-subcommands.

    [FsTotality.v] proves "no panic at all" for the class [flag_sub_class] (re-enterable levels are flat and do not
    take hyphen values first).  Outside that class the debug assertion of [Parser::parse_short_arg],
    [debug_assert_eq!(short_arg.advance_by(skip), Ok(()))] (panic site 920), IS reachable (recorded finding
    C01-flag-subcmd-skip, three mechanisms).  This file proves that it is the ONLY reachable panic site:

      [do_parse_only_920]: for every definition on which the internal [Built] flag is unset ([unbuilt]: a syntactic
      check of the definition; users cannot set the flag) and that the gate accepts ([valid]), and EVERY token
      list, [do_parse] is not [OOutOfFuel], and [OPanicked s] only with [s = 920].

    In particular the unsigned subtraction [cur_idx - flag_subcmd_at] (site 243) never underflows, whatever the
    nesting, and the other 29 modelled sites are dead without any class restriction.

    Proof.  [psafe]: "not a panic other than 920".  Per level ([Module FsAny], the lemmas of part 1 of
    FsInvariant.v instantiated with [FA a := a = at0], [FS := True]): [flag_subcmd_at] keeps the value [at0] with
    which the level was entered until a short flag-subcommand letter ends the loop, and the state predicate carries
    [at0 <= cur_idx] ([bound]; closed under the primitive matcher operations because the index counter only grows).
    [short_loop_any]: the flag-subcommand branch leaves [at <= cur_idx] ([at_le]: [at] is the old value or the
    bumped counter itself).  [parse_short_arg_any]: any [flag_subcmd_skip]: either [advance_by] fails (920) or the
    rest of the cluster is walked as usual; the three MaybeHyphenValue returns and the empty rest (NoArg) keep the
    state.  [parse_loop_any]: site 243 is [checked_sub cur_idx at] with [at_le].  [gmw_any]: recursion over the
    tree; a level entered with [keep_state] starts with an empty matcher, the parent's counter and [at], so its
    own [bound] holds by the parent's [at_le]. *)
From ClapModel Require Import Base.Bytes Base.Machine Base.Utf8 Lex.OsStrExtModel Lex.OsStrExtProofs.
From ClapModel Require Import Parse.Cmd Parse.Build Parse.Valid Parse.Matcher Parse.Errors Parse.Validator Parse.Parser.
From ClapModel Require Import ParseProofs.Safe ParseProofs.Invariant ParseProofs.Totality
                              ParseProofs.Relations ParseProofs.ValidateTotal ParseProofs.TotalityMain
                              ParseProofs.FlagSubClass ParseProofs.FsInvariant ParseProofs.FsTotality.
From Coq Require Import ZArith Lia.
From RecordUpdate Require Import RecordSet.
Import RecordSetNotations.
Open Scope N_scope.

(** "not a panic other than 920" *)
Definition psafe {A} (Qok : A -> Prop) (Qerr : ps -> Prop) (r : res A) : Prop :=
  match r with ROk a => Qok a | RErr _ st => Qerr st | RPanic s => s = 920 end.

Lemma psafe_bind {A B} (Q1 : A -> Prop) (Q2 : B -> Prop) Qe (r : res A) (f : A -> res B) :
  psafe Q1 Qe r -> (forall a, Q1 a -> psafe Q2 Qe (f a)) -> psafe Q2 Qe (rbind r f).
Proof. destruct r; cbn; auto. Qed.
Lemma psafe_weaken {A} (Q1 Q2 : A -> Prop) (Qe1 Qe2 : ps -> Prop) (r : res A) :
  psafe Q1 Qe1 r -> (forall a, Q1 a -> Q2 a) -> (forall s, Qe1 s -> Qe2 s) -> psafe Q2 Qe2 r.
Proof. destruct r; cbn; auto. Qed.
Lemma safe_psafe {A} (Q : A -> Prop) Qe (r : res A) : safe Q Qe r -> psafe Q Qe r.
Proof. destruct r; cbn; auto. intros []. Qed.

Module FsAny.
Section Level.
Variable c : cmd.
Hypothesis W1 : forall a, In a (c_args c) -> arg_complete a.
Hypothesis W2 : forall a, In a (c_args c) -> a_index a <> None -> a_is_positional a = true.
Hypothesis W3 : forall a, In a (c_args c) -> find_arg c (a_id a) = Some a.
Hypothesis W5 : forall a, In a (c_args c) -> a_is_positional a = true -> a_index a <> None.
Variable P : list (id * marg) -> N -> Prop.
Hypothesis PC_bump : forall l k, P l k -> P l (k + 1).
Hypothesis PC_remove : forall l k i, P l k -> P (fst (fm_remove i l)) k.
Hypothesis PC_entry : forall l k i ic grp s, P l k ->
  P (fm_entry_or_insert i (marg_new ic grp) (fun m => new_val_group (set_source s m)) l) k.
Hypothesis PC_addval : forall l k i j m m' v, In i (groups_for_arg c j) ->
  P l k -> fm_get i l = Some m -> append_val v m = Some m' ->
  P (fm_update i (fun _ => m') l) k.
Variable V : bytes -> Prop.
Hypothesis PC_push : forall l k i m m' v, V v -> P l k -> fm_get i l = Some m -> append_val v m = Some m' ->
  P (fm_update i (push_index (k + 1)) (fm_update i (fun _ => m') l)) (k + 1).
Hypothesis V_all : forall v, V v.
Hypothesis V_true : V s_true.
Hypothesis V_false : V s_false.
Hypothesis V_dec : forall n, V (n_to_dec n).
Hypothesis V_split : forall v d l, V v -> split v d = SplitOk l -> Forall V l.
Hypothesis V_dm : forall a, In a (c_args c) -> Forall V (a_default_missing a).
Hypothesis V_def : forall a, In a (c_args c) -> Forall V (a_default a).
Hypothesis V_env : forall a v, In a (c_args c) -> a_env a = Some v -> V v.
Hypothesis V_dif : forall a i p d, In a (c_args c) -> In (i, p, Some d) (a_default_ifs a) -> V d.

(** the value of [flag_subcmd_at] with which this level was entered: it does not change before the level is left *)
Variable at0 : option N.
Definition bound (k : N) : Prop := match at0 with Some a => a <= k | None => True end.
Hypothesis P_bound : forall l k, P l k -> bound k.

Definition FA : option N -> Prop := fun a => a = at0.
Definition FS : N -> Prop := fun _ => True.
Local Notation G := (FsInv.G c P V FA FS).
Local Notation Gout := (FsInv.Gout c P V).
Local Notation LI := (FsInv.LI c).
Local Notation sub_findable := (FsInv.sub_findable c).
Local Notation pend_is := FsInv.pend_is.

Definition at_le (st : ps) : Prop := match fs_at st with Some a => a <= cur_idx st | None => True end.

Lemma G_inv st : G st -> Gout st /\ fs_at st = at0.
Proof. intros [HM [Ha _]]. split; [exact HM|exact Ha]. Qed.
Lemma G_of st : Gout st -> fs_at st = at0 -> G st.
Proof. intros HM Ha. split; [exact HM|split; [exact Ha|exact I]]. Qed.
Lemma G_skip st s : G st -> G (st <| fs_skip := s |>).
Proof. intros [HM [Ha _]]. destruct st. split; [exact HM|split; [exact Ha|exact I]]. Qed.

Definition short_post (st : ps) (r : bytes) (ret : presult) (x : ps * presult * bool) : Prop :=
  let '(st1, pr, _) := x in
  Gout st1 /\
  match pr with
  | PROpt i => fs_at st1 = at0 /\ pend_is st1 i
  | PRFlagSub n => sub_findable n /\ at_le st1
  | PRMaybeHyphen => False
  | PRNoArg => st1 = st /\ ret = PRNoArg /\ r = []
  | PRAttachedNotConsumed | PRUnneeded _ _ => False
  | _ => fs_at st1 = at0
  end.

Ltac fsi L := eapply L; try eassumption.

Lemma short_loop_any : forall fuel r ret vaf st,
  (length r < fuel)%nat -> G st ->
  (ret = PRNoArg \/ ret = PRValuesDone) -> (forall n, V (skipn n r)) ->
  safe (short_post st r ret) G (short_loop c fuel r ret vaf st).
Proof.
  induction fuel as [|f IH]; intros r ret vaf st Hlen HG Hret HVs; [lia|].
  cbn [short_loop].
  destruct (sf_next r) as [[[ch|rest] r']|] eqn:En.
  - pose proof En as Hshr. apply sf_next_shrinks in Hshr.
    assert (HVs' : forall n, V (skipn n r')).
    { destruct (FsInv.sf_next_skipn _ _ _ En) as [n0 ->]. intros n. rewrite skipn_add. apply HVs. }
    assert (Lift : forall ret' st' (x : ps * presult * bool),
               (r' <> [] \/ ret' = PRValuesDone) -> short_post st' r' ret' x -> short_post st r ret x).
    { intros ret' st' [[st2 pr2] v2] Hne [HG2 H2]. split; [exact HG2|].
      destruct pr2; try exact H2; try exact I.
      destruct H2 as [_ [H2 H3]]. destruct Hne as [Hne|Hne]; [contradiction|]. subst ret'. discriminate. }
    destruct (get_short c ch) as [a|] eqn:Eg.
    + destruct (get_short_in _ _ _ Eg) as [Hin Hi].
      pose proof (FsInv.nonpos_of_index_none c W5 a Hin Hi) as Hnp.
      destruct (negb (a_takes_value a)).
      * eapply safe_bind; [fsi FsInv.react_safe; constructor|].
        intros [st1 pr] [HG1 [Hpr _]]. cbn in Hpr, HG1. subst pr. cbn [fst snd].
        eapply safe_weaken; [apply IH; [lia|exact HG1|right; reflexivity|exact HVs']| |auto].
        intros x Hx. eapply Lift; [right; reflexivity|exact Hx].
      * set (val := match r' with [] => None | _ => Some r' end).
        destruct (match val with Some (61 :: v) => (Some v, true) | _ => (val, false) end) as [val' has_eq] eqn:Ev.
        assert (HVval : forall v, val' = Some v -> V v).
        { intros v Hv. rewrite FsInv.strip_eq_spec in Ev. subst val.
          destruct r' as [|b0 t0]; [injection Ev as E1 _; rewrite <- E1 in Hv; discriminate|].
          destruct (b0 =? 61); injection Ev as E1 _; rewrite <- E1 in Hv; injection Hv as <-;
            [apply (HVs' 1%nat)|apply (HVs' 0%nat)]. }
        eapply safe_bind; [fsi FsInv.parse_opt_value_safe|].
        intros [st1 pr] [HG1 Hpr]. cbn [fst snd] in *.
        destruct (G_inv _ HG1) as [Ho1 Ha1].
        destruct pr; try contradiction; cbn.
        -- split; [exact Ho1|split; [exact Ha1|exact Hpr]].
        -- split; [exact Ho1|exact Ha1].
        -- destruct Hpr as [Hatt _].
           assert (Hr' : r' <> []).
           { subst val. destruct r'; [|discriminate]. inversion Ev; subst. contradiction. }
           eapply safe_weaken; [apply IH; [lia|exact HG1|exact Hret|exact HVs']| |auto].
           intros x Hx. eapply Lift; [left; exact Hr'|exact Hx].
        -- split; [exact Ho1|exact Ha1].
    + destruct (find_short_subcmd c ch) as [name|] eqn:Ef.
      * eapply safe_bind; [fsi FsInv.resolve_pending_safe|]. intros st1 [HG1 _].
        pose proof (FsInv.G_bump _ _ PC_bump _ _ _ _ HG1) as HGb.
        destruct (G_inv _ HGb) as [Hob Hab].
        pose proof (P_bound _ _ (proj2 (proj2 Hob))) as Hbd.
        unfold FsInv.Gout in Hob. autorewrite with ps in Hob, Hab, Hbd.
        destruct st1 as [m1 k1 a1 s1]. cbn in Hab, Hob, Hbd. subst a1.
        cbn. split; [exact Hob|].
        split; [eapply FsInv.find_short_subcmd_findable; exact Ef|].
        unfold at_le. destruct (is_nil r'); cbn; [exact I|].
        unfold bound in Hbd. destruct at0 as [a|]; cbn; [exact Hbd|lia].
      * destruct (G_inv _ HG) as [Ho Ha]. cbn. split; [exact Ho|exact Ha].
  - destruct (G_inv _ HG) as [Ho Ha]. cbn. split; [exact Ho|exact Ha].
  - destruct (G_inv _ HG) as [Ho Ha]. cbn. split; [exact Ho|].
    destruct Hret as [->| ->]; [|exact Ha].
    split; [reflexivity|split; [reflexivity|]]. unfold sf_next in En. destruct r; [reflexivity|].
    destruct (utf8_step (n :: r)) as [[? ?]|]; discriminate.
Qed.

(** ** [parse_short_arg] with an arbitrary [flag_subcmd_skip]: the debug assertion on [advance_by] is the one
    panic that is allowed *)
Lemma LI_skip pst st s : LI pst st -> LI pst (st <| fs_skip := s |>).
Proof. destruct st. destruct pst; exact (fun H => H). Qed.

Lemma parse_short_arg_any r pst pc vaf st : G st -> LI pst st ->
  psafe (fun x => let '(st1, pr, _) := x in
                 Gout st1 /\
                 match pr with
                 | PROpt i => fs_at st1 = at0 /\ pend_is st1 i
                 | PRMaybeHyphen => st1 = st
                 | PRNoArg => st1 = st <| fs_skip := 0 |>
                 | PRFlagSub n => sub_findable n /\ at_le st1
                 | PRAttachedNotConsumed | PRUnneeded _ _ => False
                 | _ => fs_at st1 = at0
                 end) G
       (parse_short_arg c r pst pc vaf st).
Proof.
  intros HG HL. unfold parse_short_arg.
  destruct (FsInv.state_arg_safe c P V FA FS pst st HG HL) as [sa [-> _]]. cbn [rbind].
  destruct (G_inv _ HG) as [Ho Ha].
  destruct (match sa with Some a => a_hyphen a || (a_negnum a && sf_is_negative_number r) | None => false end);
    [cbn; split; [exact Ho|reflexivity]|].
  destruct (match get_pos c pc with Some a => a_negnum a | None => false end && sf_is_negative_number r);
    [cbn; split; [exact Ho|reflexivity]|].
  destruct (match get_pos c pc with Some a => a_hyphen a && negb (a_last a) | None => false end
            && sf_any_unknown c (S (length r)) r);
    [cbn; split; [exact Ho|reflexivity]|].
  destruct (sf_advance_by _ r) as [r0|]; cbn [expect rbind]; [|reflexivity].
  apply safe_psafe.
  eapply safe_weaken; [apply short_loop_any; [lia|apply G_skip; exact HG|left; reflexivity|intros n; apply V_all]| |auto].
  intros [[st1 pr] v] [HG1 H1]. split; [exact HG1|].
  destruct pr; try exact H1; try exact I; try contradiction.
  destruct H1 as [H1 _]. exact H1.
Qed.

(** ** the token loop *)
Definition lr_ok (lr : loop_res) : Prop :=
  match lr with
  | LDone st => Gout st
  | LSub n keep _ st toks' => Gout st /\ sub_findable n /\ (keep = true -> at_le st)
  | LExternal _ _ st => Gout st
  | LHelpSub _ st => Gout st
  end.

Lemma Gout_skip st s : Gout st -> Gout (st <| fs_skip := s |>).
Proof. destruct st. exact (fun H => H). Qed.

Lemma parse_loop_any : forall toks ls st, G st -> LI (l_pst ls) st ->
  psafe lr_ok G (parse_loop c toks ls st).
Proof.
  induction toks as [|tok rest IH0]; intros ls st HG HL; [cbn; exact (proj1 HG)|].
  assert (IH : forall ls st, G st -> LI (l_pst ls) st -> psafe lr_ok G (parse_loop c rest ls st))
    by (intros; apply IH0; assumption).
  clear IH0.
  assert (HVt0 : V tok) by (apply V_all).
  cbn [parse_loop].
  match goal with |- psafe _ _ (rbind ?ph _) => set (phase1 := ph) end.
  assert (Hph : psafe (fun x => let '(early, ls1, st1) := x in
                        match early with
                        | Some r => psafe lr_ok G r
                        | None => G st1 /\ LI (l_pst ls1) st1 /\ l_pst ls1 = l_pst ls end) G phase1).
  { subst phase1. destruct (l_trailing ls); [cbn; split; [exact HG|split; [exact HL|reflexivity]]|].
    destruct (if is_set s_sub_precedence c || match l_pst ls with PSValuesDone => true | _ => false end
              then possible_subcommand c tok (l_vaf ls) else None) as [sc|] eqn:Esub.
    { assert (Hsc : sub_findable sc).
      { destruct (is_set s_sub_precedence c || match l_pst ls with PSValuesDone => true | _ => false end);
          [eapply FsInv.possible_subcommand_findable; exact Esub|discriminate]. }
      destruct (beq sc s_help && negb (is_set s_disable_help_sub c)); cbn; [exact (proj1 HG)|].
      split; [exact (proj1 HG)|split; [exact Hsc|discriminate]]. }
    (* after_flag *)
    assert (After : forall x,
       (let '(st1, pr, _) := x in
        G st1 /\ match pr with
                 | PROpt i => pend_is st1 i
                 | PRFlagSub n => sub_findable n
                 | PRMaybeHyphen | PRNoArg => LI (l_pst ls) st1
                 | PRAttachedNotConsumed => False
                 | _ => True end) ->
       psafe (fun y => let '(early, ls1, st1) := y in
                        match early with
                        | Some r => psafe lr_ok G r
                        | None => G st1 /\ LI (l_pst ls1) st1 /\ l_pst ls1 = l_pst ls end) G
         (let '(st1, pr, vaf1) := x in
          let ls1 := mkL (l_pst ls) (l_pos ls) vaf1 false in
          match pr with
          | PRValuesDone => ROk (Some (parse_loop c rest (mkL PSValuesDone (l_pos ls) vaf1 false) st1), ls1, st1)
          | PROpt i => ROk (Some (parse_loop c rest (mkL (PSOpt i) (l_pos ls) vaf1 false) st1), ls1, st1)
          | PRFlagSub n => ROk (Some (ROk (LSub n false vaf1 st1 rest)), ls1, st1)
          | PREqualsNotProvided a =>
              do st2 <- resolve_pending_ignore c st1; ROk (Some (RErr (mkerr c ENoEquals a) st2), ls1, st2)
          | PRNoMatchingArg a =>
              do st2 <- resolve_pending_ignore c st1; ROk (Some (RErr (mkerr c EUnknownArgument a) st2), ls1, st2)
          | PRUnneeded r a =>
              do st2 <- resolve_pending_ignore c st1; ROk (Some (RErr (mkerr c ETooManyValues a) st2), ls1, st2)
          | PRMaybeHyphen => ROk (None, ls1, st1)
          | PRNoArg => ROk (None, ls1, st1)
          | PRAttachedNotConsumed => RPanic 203
          end)).
    { intros [[st1 pr] vaf1] [HG1 Hpr]. cbn zeta.
      destruct pr; cbn [psafe].
      - split; [exact (proj1 HG1)|split; [exact Hpr|discriminate]].
      - apply IH; [exact HG1|exact Hpr].
      - apply IH; [exact HG1|exact I].
      - contradiction.
      - eapply psafe_bind; [apply safe_psafe; fsi FsInv.resolve_pending_ignore_safe|]. intros st2 HG2. cbn. exact HG2.
      - cbn. split; [exact HG1|split; [exact Hpr|reflexivity]].
      - eapply psafe_bind; [apply safe_psafe; fsi FsInv.resolve_pending_ignore_safe|]. intros st2 HG2. cbn. exact HG2.
      - eapply psafe_bind; [apply safe_psafe; fsi FsInv.resolve_pending_ignore_safe|]. intros st2 HG2. cbn. exact HG2.
      - cbn. split; [exact HG1|split; [exact Hpr|reflexivity]]. }
    destruct (is_escape tok).
    { destruct (FsInv.state_arg_safe c P V FA FS (l_pst ls) st HG HL) as [sa [-> _]]. cbn [rbind].
      destruct (match sa with Some a => a_hyphen a | None => false end); cbn; [split; [exact HG|split; [exact HL|reflexivity]]|].
      apply IH.
      - destruct HG as [[Hp [He HP]] [Hfa Hfs]]. unfold start_trailing.
        destruct (mt_pending (mt st)) as [p|] eqn:Ep; [|fsi FsInv.G_set_mt; exact (conj Hp (conj He HP))].
        fsi (FsInv.G_update_pending c P V FA FS st p); [exact (conj (conj Hp (conj He HP)) (conj Hfa Hfs))|reflexivity|reflexivity|].
        destruct (Hp p Ep) as [a0 [_ [_ HVp0]]]. exact HVp0.
      - cbn. destruct (l_pst ls) as [|i|i]; [exact I| |exact HL].
        destruct HL as [p [Hp Hi]]. unfold FsInv.pend_is, FsInv.pending_of, start_trailing in *. rewrite Hp.
        eexists. autorewrite with ps. split; [reflexivity|exact Hi]. }
    destruct (to_long tok) as [[[f ok] v]|] eqn:El.
    { eapply psafe_bind; [apply safe_psafe; fsi FsInv.parse_long_arg_safe; [intros Hf; eapply FsInv.to_long_flag; eassumption|intros; apply V_all]|].
      intros [[st1 pr] vaf1] [Hres Hno]. cbn [fst snd] in *.
      assert (Hres' : G st1 /\ match pr with
                 | PROpt i => pend_is st1 i
                 | PRFlagSub n => sub_findable n
                 | PRMaybeHyphen | PRNoArg => LI (l_pst ls) st1
                 | PRAttachedNotConsumed => False
                 | _ => True end).
      { destruct Hres as [HG1 Hpr]. split; [exact HG1|].
        destruct pr; try exact Hpr; try exact I; try (subst st1; exact HL). apply Hpr. }
      pose proof (After (st1, pr, vaf1) Hres') as HA. clear Hres Hres'.
      destruct pr; try (exfalso; apply Hno; reflexivity); cbn in HA |- *; exact HA. }
    destruct (to_short tok) as [r|] eqn:Es; [|cbn; split; [exact HG|split; [exact HL|reflexivity]]].
    eapply psafe_bind; [apply parse_short_arg_any; [exact HG|exact HL]|].
    intros [[st1 pr] vaf1] [Ho1 Hpr].
    destruct pr; try contradiction.
    - (* a short flag-subcommand: keep_state iff [at] is set; the subtraction cur_idx - at cannot underflow *)
      destruct Hpr as [Hf Hle]. unfold at_le in Hle.
      destruct (fs_at st1) as [a|] eqn:Ea.
      + unfold checked_sub. replace (a <=? cur_idx st1) with true by (symmetry; apply N.leb_le; exact Hle).
        cbn [expect rbind]. cbn.
        split; [apply Gout_skip; exact Ho1|split; [exact Hf|intros _]].
        unfold at_le. destruct st1; cbn in *. rewrite Ea. exact Hle.
      + cbn. split; [exact Ho1|split; [exact Hf|discriminate]].
    - pose proof (After (st1, PROpt i, vaf1) (conj (G_of _ Ho1 (proj1 Hpr)) (proj2 Hpr))) as HA. cbn in HA |- *. exact HA.
    - pose proof (After (st1, PRValuesDone, vaf1) (conj (G_of _ Ho1 Hpr) I)) as HA. cbn in HA |- *. exact HA.
    - subst st1. pose proof (After (st, PRMaybeHyphen, vaf1) (conj HG HL)) as HA. cbn in HA |- *. exact HA.
    - pose proof (After (st1, PREqualsNotProvided a, vaf1) (conj (G_of _ Ho1 Hpr) I)) as HA. cbn in HA |- *. exact HA.
    - pose proof (After (st1, PRNoMatchingArg a, vaf1) (conj (G_of _ Ho1 Hpr) I)) as HA. cbn in HA |- *. exact HA.
    - subst st1. pose proof (After (st <| fs_skip := 0 |>, PRNoArg, vaf1) (conj (G_skip _ _ HG) (LI_skip _ _ _ HL))) as HA.
      cbn in HA |- *. exact HA. }
  eapply psafe_bind; [exact Hph|]. clear Hph phase1.
  intros [[early ls1] st1] H1.
  destruct early as [r|]; [exact H1|].
  destruct H1 as [HG1 [HL1 Hpst]].
  match goal with
  | |- psafe _ _ (match _ with PSValuesDone => ?t | PSOpt _ => _ | PSPos _ => _ end) =>
      assert (Hpos : psafe lr_ok G t)
  end.
  { cbn zeta.
    match goal with |- psafe _ _ (rbind ?e _) => assert (Hpc : exists pcv, e = ROk pcv) end.
    { match goal with |- exists _, (if ?b then _ else _) = _ => destruct b end.
      - destruct rest as [|n rest']; [eexists; reflexivity|].
        destruct (List.find _ (positionals c)) as [a|] eqn:Ef; [|eexists; reflexivity].
        apply List.find_some in Ef. destruct Ef as [Hin _]. unfold positionals in Hin. apply filter_In in Hin.
        destruct (FsInv.is_new_arg_safe c W3 n a (proj1 Hin)) as [b ->]. cbn. eexists; reflexivity.
      - match goal with |- exists _, (if ?b then _ else _) = _ => destruct b end; eexists; reflexivity. }
    destruct Hpc as [pcv ->]. cbn [rbind].
    destruct (get_pos c pcv) as [a|] eqn:Eg.
    - destruct (get_pos_in _ _ _ Eg) as [Hin Hidx].
      destruct (a_last a && negb (l_trailing ls1)).
      + eapply psafe_bind; [apply safe_psafe; fsi FsInv.resolve_pending_ignore_safe|]. intros s2 HG2. exact HG2.
      + match goal with |- psafe _ _ (rbind (if ?b then _ else _) _) => destruct b eqn:Eb end.
        * eapply psafe_bind; [apply safe_psafe; fsi FsInv.resolve_pending_safe|]. intros s2 [HG2 Hp2].
          destruct (check_terminator a tok); [apply IH; [exact HG2|exact I]|].
          destruct (FsInv.push_pos_safe c W2 W3 P V FA FS s2 a tok (l_trailing ls1 || a_tva a) Hin Hidx HVt0 HG2 (or_introl Hp2)) as [m1 [Hpush HGm]].
          rewrite Hpush. cbn [expect rbind].
          destruct (negb (a_is_multiple a)); apply IH; try exact HGm; cbn; [exact I|].
          exists a. apply W3; exact Hin.
        * cbn [rbind].
          assert (Hpend : exists p, FsInv.pending_of st1 = Some p /\ p_id p = a_id a).
          { apply Bool.orb_false_elim in Eb. destruct Eb as [E1 _]. apply Bool.negb_false_iff in E1.
            unfold pending_arg_id, FsInv.pending_of in *. destruct (mt_pending (mt st1)) as [p|]; cbn in E1; [|discriminate].
            exists p. split; [reflexivity|]. apply beq_eq in E1. exact E1. }
          destruct (check_terminator a tok); [apply IH; [exact HG1|exact I]|].
          destruct (FsInv.push_pos_safe c W2 W3 P V FA FS st1 a tok (l_trailing ls1 || a_tva a) Hin Hidx HVt0 HG1 (or_intror Hpend)) as [m1 [Hpush HGm]].
          rewrite Hpush. cbn [expect rbind].
          destruct (negb (a_is_multiple a)); apply IH; try exact HGm; cbn; [exact I|].
          exists a. apply W3; exact Hin.
    - destruct (is_set s_allow_external c).
      + destruct (utf8_valid tok); [cbn; exact (proj1 HG1)|].
        eapply psafe_bind; [apply safe_psafe; fsi FsInv.resolve_pending_ignore_safe|]. intros s2 HG2. exact HG2.
      + eapply psafe_bind; [apply safe_psafe; fsi FsInv.resolve_pending_ignore_safe|]. intros s2 HG2. exact HG2. }
  destruct (if l_trailing ls1 then PSValuesDone else l_pst ls1) eqn:Est.
  - exact Hpos.
  - assert (Hi : l_trailing ls1 = false /\ l_pst ls1 = PSOpt i) by (destruct (l_trailing ls1); [discriminate|split; [reflexivity|exact Est]]).
    destruct Hi as [Htr Hpst1]. rewrite Hpst1 in HL1. destruct HL1 as [p [Hp Hid]].
    pose proof HG1 as [[Hpe _] _]. destruct (Hpe p Hp) as [a [Hf _]]. rewrite Hid in Hf. rewrite Hf. cbn [expect rbind].
    destruct (find_arg_some _ _ _ Hf) as [Hin _].
    destruct (check_terminator a tok); [apply IH; [exact HG1|exact I]|].
    destruct (FsInv.pending_values_push_same (mt st1) p i None false (Some tok) Hp Hid) as [p' [Hpush [Hid' [Hident' Hraw']]]];
      [left; reflexivity|].
    rewrite Hpush. cbn [expect rbind]. unfold needs_more_vals.
    destruct (W1 a Hin) as [_ [Hn _]]. destruct (a_num a) as [r|]; [|contradiction]. cbn [expect rbind].
    apply IH.
    + fsi (FsInv.G_update_pending c P V FA FS st1 p); [congruence|].
      rewrite Hraw'. apply Forall_app. split; [fsi (FsInv.pending_raw_V c P V FA FS st1 p)|repeat constructor; exact HVt0].
    + cbn. match goal with |- LI (if ?b then _ else _) _ => destruct b end; [|exact I].
      eexists. unfold FsInv.pending_of. autorewrite with ps. split; [reflexivity|exact Hid'].
  - exact Hpos.
Qed.
End Level.
End FsAny.

(** * the recursion over the command tree *)
Definition Pb (at0 : option N) : list (id * marg) -> N -> Prop := fun _ k => FsAny.bound at0 k.
Definition GB (c : cmd) (at0 : option N) : ps -> Prop := FsInv.G c (Pb at0) trivV (FsAny.FA at0) FsAny.FS.
Definition GT (c : cmd) : ps -> Prop := FsInv.G c trivP trivV FT FT.

Lemma bound_bump at0 k : FsAny.bound at0 k -> FsAny.bound at0 (k + 1).
Proof. unfold FsAny.bound. destruct at0; [lia|auto]. Qed.

Lemma parse_loop_bound c toks ls st : wfc' c ->
  GB c (fs_at st) st -> FsInv.LI c (l_pst ls) st ->
  psafe (FsAny.lr_ok c (Pb (fs_at st)) trivV) (GB c (fs_at st)) (parse_loop c toks ls st).
Proof.
  intros [W1 [W2 [W3 W5]]] HG HL.
  destruct (trivV_ok c toks) as [[V1 [V2 [V3 [V4 [V5 [V6 [V7 V8]]]]]]] _].
  eapply FsAny.parse_loop_any with (at0 := fs_at st); try eassumption.
  all: unfold Pb; try (intros; assumption); try (intros; apply bound_bump; assumption); try (intros; exact I).
Qed.

Fixpoint tree_ok_any (fuel : nat) (c : cmd) : Prop :=
  match fuel with
  | O => False
  | S f => wfc' c /\ assert_app c = true
           /\ (forall name sc, build_subcommand c name = Some sc -> tree_ok_any f sc)
  end.

Lemma GT_of_out c at0 st : FsInv.Gout c (Pb at0) trivV st -> GT c st.
Proof. intros [H1 [H2 _]]. split; [split; [exact H1|split; [exact H2|exact I]]|split; exact I]. Qed.
Lemma GT_of_GB c at0 st : GB c at0 st -> GT c st.
Proof. intros [H _]. eapply GT_of_out. exact H. Qed.

Lemma gmw_any : forall fuel c toks st0, tree_ok_any fuel c -> GB c (fs_at st0) st0 ->
  psafe (GT c) (GT c) (get_matches_with fuel c toks st0).
Proof.
  induction fuel as [|f IH]; intros c toks st0 Hok Hentry; [destruct Hok|].
  destruct (trivP_closed c) as [PC1 [PC2 [PC3 [PC4 [PC5 PC0]]]]].
  destruct (trivV_ok c toks) as [[V1 [V2 [V3 [V4 [V5 [V6 [V7 V8]]]]]]] HVtoks].
  destruct Hok as [Hwf [Happ Hch]]. pose proof Hwf as [W1 [W2 [W3 W5]]].
  cbn [get_matches_with].
  match goal with |- psafe _ _ (match ?pp with ROk _ => _ | RErr _ _ => _ | RPanic _ => _ end) => set (parsed := pp) end.
  assert (Hparsed : psafe (GT c) (GT c) parsed).
  { subst parsed.
    pose proof (parse_loop_bound c toks (mkL PSValuesDone 1 false false) st0 Hwf Hentry I) as Hloop.
    eapply psafe_bind; [eapply psafe_weaken; [exact Hloop|intros lr Hlr; exact Hlr|apply GT_of_GB]|].
    intros lr Hlr. destruct lr as [st|name keep vaf st rest|name vals st|names st].
    + eapply GT_of_out. exact Hlr.
    + destruct Hlr as [HGs [[sc0 Hfind] Hkeep]]. pose proof (GT_of_out _ _ _ HGs) as HGT.
      destruct (is_set s_args_negate_subs c && vaf); [exact HGT|].
      rewrite Hfind. cbn [expect rbind].
      destruct (build_subcommand c (c_name sc0)) as [sc|] eqn:Eb; [|exact HGT].
      pose proof (Hch _ _ Eb) as Hsc.
      destruct f as [|f']; [destruct Hsc|].
      pose proof Hsc as [_ [Happsc _]]. rewrite Happsc. cbn [negb].
      match goal with |- psafe _ _ (match get_matches_with _ _ _ ?s0 with _ => _ end) => set (sub_st0 := s0) end.
      assert (Hsub : psafe (GT sc) (GT sc) (get_matches_with (S f') sc rest sub_st0)).
      { apply IH; [exact Hsc|]. subst sub_st0. destruct keep.
        - specialize (Hkeep eq_refl). cbn.
          split; [|split; [reflexivity|exact I]].
          split; [intros p Hp; discriminate|split; [intros i m []|exact Hkeep]].
        - cbn. split; [|split; [reflexivity|exact I]].
          split; [intros p Hp; discriminate|split; [intros i m []|exact I]]. }
      destruct (get_matches_with (S f') sc rest sub_st0) as [sub_st|e sub_st|site]; cbn in Hsub.
      * apply FsInv.G_set_sub; exact HGT.
      * destruct (is_set s_ignore_errors c); [apply FsInv.G_set_sub; exact HGT|exact HGT].
      * exact Hsub.
    + pose proof (GT_of_out _ _ _ Hlr) as HGT.
      match goal with |- psafe _ _ (rbind ?fl _) => set (filled := fl) end.
      assert (Hfill : match filled with ROk _ => True | RErr _ s => s = st | RPanic _ => False end).
      { subst filled. apply external_fill_safe. cbn.
        eexists. split; [reflexivity|]. cbn. discriminate. }
      destruct filled as [m|e s|x]; cbn [rbind]; [|subst s; exact HGT|contradiction].
      apply FsInv.G_set_sub; exact HGT.
    + eapply GT_of_out. exact Hlr. }
  destruct parsed as [st|e st|site]; cbn in Hparsed; [| |exact Hparsed].
  - apply safe_psafe.
    eapply safe_bind; [eapply FsInv.resolve_pending_safe; eassumption|].
    intros st1 [HG1 _].
    eapply safe_bind; [eapply FsInv.add_env_safe; eassumption|].
    intros st2 HG2.
    eapply safe_bind; [eapply FsInv.add_defaults_safe; eassumption|].
    intros st3 HG3. unfold vres_to_res.
    destruct (validate c (mt st3)) as [|k a|s] eqn:Ev; [exact HG3|exact HG3|].
    exfalso. revert Ev. apply validate_total; [apply assert_app_rel_wf; exact Happ|apply HG3].
  - destruct (is_set s_ignore_errors c); [|exact Hparsed].
    apply safe_psafe.
    assert (Hr : safe (GT c) (GT c) (resolve_pending c st)).
    { eapply safe_weaken; [eapply FsInv.resolve_pending_safe; eassumption|intros a Ha; exact (proj1 Ha)|auto]. }
    destruct (resolve_pending c st) as [s0|e0 s0|x0]; cbn in Hr; [| |contradiction].
    all: assert (He : safe (GT c) (GT c) (add_env c s0)) by (eapply FsInv.add_env_safe; eassumption).
    all: destruct (add_env c s0) as [s1|e1 s1|x1]; cbn in He; [| |contradiction].
    all: assert (Hd : safe (GT c) (GT c) (add_defaults c s1)) by (eapply FsInv.add_defaults_safe; eassumption).
    all: destruct (add_defaults c s1) as [s2|e2 s2|x2]; cbn in Hd; [exact Hd|exact Hd|contradiction].
Qed.

(** * the class: the internal [Built] flag is unset on every node of the definition (users cannot set it) *)
Fixpoint unbuilt (x : cmd) : bool :=
  match x with
  | mkCmd _ _ _ _ _ _ _ _ subs set gset _ _ _ _ _ _ _ =>
      negb (s_built set) && negb (s_built gset)
      && (fix go (l : list cmd) : bool := match l with [] => true | s :: t => unbuilt s && go t end) subs
  end.

Lemma unbuilt_spec x : unbuilt x = true <->
  s_built (c_set x) = false /\ s_built (c_gset x) = false /\ forall s, In s (c_subs x) -> unbuilt s = true.
Proof.
  destruct x as [n al sf lf sfa lfa args groups subs set gset v lv ext bn dn ab lab]. cbn [unbuilt c_set c_gset c_subs].
  set (go := fix go (l : list cmd) : bool := match l with [] => true | s :: t => unbuilt s && go t end).
  assert (Hgo : forall l, go l = true <-> forall s, In s l -> unbuilt s = true).
  { induction l as [|s t IH]; cbn [go]; [split; [intros _ s []|reflexivity]|].
    rewrite Bool.andb_true_iff, IH. split.
    - intros [H1 H2] s' [<-|Hin]; [exact H1|apply H2; exact Hin].
    - intros H. split; [apply H; left; reflexivity|intros s' Hin; apply H; right; exact Hin]. }
  rewrite !Bool.andb_true_iff, !Bool.negb_true_iff, Hgo. tauto.
Qed.

Lemma unbuilt_frame y s : c_subs y = c_subs s -> c_set y = c_set s -> c_gset y = c_gset s -> unbuilt y = unbuilt s.
Proof. destruct y, s. cbn. intros -> -> ->. reflexivity. Qed.

Lemma build_subcommand_spec' c name sc : build_subcommand c name = Some sc ->
  exists s0 y, In s0 (c_subs c) /\ build_subcommand c (c_name s0) = Some sc
               /\ sc = build_self y /\ c_set y = c_set s0 /\ c_gset y = c_gset s0 /\ c_subs y = c_subs s0.
Proof.
  intros Hbs. pose proof Hbs as Hbs0. unfold build_subcommand in Hbs.
  destruct (List.find (fun s => beq (c_name s) name) (c_subs c)) as [s0|] eqn:Ef; [|discriminate].
  apply List.find_some in Ef. destruct Ef as [Hin0 Hname]. apply beq_eq in Hname.
  injection Hbs as Hsc.
  eexists s0, _. split; [exact Hin0|split; [rewrite Hname; exact Hbs0|split; [symmetry; exact Hsc|]]].
  destruct (c_display_name _); repeat split; reflexivity.
Qed.

Lemma unbuilt_child x s : unbuilt x = true -> In s (c_subs (build_self x)) -> unbuilt s = true.
Proof.
  intros Hu Hin. apply unbuilt_spec in Hu. destruct Hu as [Hb [Hg Hsub]].
  apply unbuilt_spec.
  destruct (subs_build_self x Hb s Hin) as [[s0 [Hin0 [[Hf1 _] [E1 E2]]]]|[Hs [_ [E1 E2]]]].
  - pose proof (Hsub s0 Hin0) as H0. apply unbuilt_spec in H0. destruct H0 as [B1 [B2 B3]].
    split; [rewrite E1, B1, Hg; reflexivity|split; [rewrite E2, B2, Hg; reflexivity|]].
    rewrite Hf1. exact B3.
  - split; [rewrite E1; exact Hg|split; [rewrite E2; exact Hg|]]. rewrite Hs. intros s' [].
Qed.

Lemma tree_ok_any_of_unbuilt : forall f x, unbuilt x = true ->
  valid_tree f (build_self x) = true -> tree_ok_any f (build_self x).
Proof.
  induction f as [|f IH]; intros x Hu Hv; [discriminate|].
  cbn [valid_tree] in Hv. apply andb_true_iff in Hv. destruct Hv as [Happ Hvch].
  rewrite forallb_forall in Hvch.
  pose proof Hu as Hu'. apply unbuilt_spec in Hu'. destruct Hu' as [Hb _].
  cbn [tree_ok_any]. split; [apply wfc'_of_built; assumption|split; [exact Happ|]].
  intros name sc Hbs. destruct (build_subcommand_spec' _ _ _ Hbs) as [s0 [y [Hin0 [Hbs0 [-> [Hset [Hgset Hsubs]]]]]]].
  specialize (Hvch s0 Hin0). rewrite Hbs0 in Hvch.
  apply IH; [|exact Hvch].
  rewrite (unbuilt_frame y s0 Hsubs Hset Hgset). eapply unbuilt_child; eassumption.
Qed.

(** * the theorems *)
Theorem do_parse_only_920 c0 toks : unbuilt c0 = true -> valid c0 = true ->
  match do_parse c0 toks with OPanicked s => s = 920 | OOutOfFuel => False | _ => True end.
Proof.
  intros Hu Hv. unfold do_parse. rewrite Hv. cbn [negb].
  unfold valid in Hv. cbn zeta in Hv.
  pose proof (tree_ok_any_of_unbuilt _ _ Hu Hv) as Hok.
  assert (Hentry : GB (build_self c0) (fs_at ps_new) ps_new).
  { cbn. split; [|split; [reflexivity|exact I]].
    split; [intros p Hp; discriminate|split; [intros i m []|exact I]]. }
  pose proof (gmw_any _ (build_self c0) toks ps_new Hok Hentry) as Hs.
  destruct (get_matches_with _ (build_self c0) toks ps_new) as [st|e st|s]; cbn in Hs.
  - exact I.
  - destruct (is_set s_ignore_errors (build_self c0) && use_stderr (e_kind e)); exact I.
  - subst s. reflexivity.
Qed.
