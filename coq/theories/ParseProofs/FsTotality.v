(** Totality of parsing (C01) for definitions WITH short flag-subcommands.

    [flag_sub_class c0] (boolean, computed on the tree as the parser builds it -- like [valid]):
      - no node carries the internal [Built] flag when the parser comes to build it;
      - every level that a cluster can re-enter -- the built child of a subcommand that has a short flag or a
        short-flag alias -- (a) has no short flag-subcommands of its own ("flat": then [flag_subcmd_at] is fresh
        whenever it is read) and (b) its first positional neither allows negative numbers nor (unless it is
        [last]) hyphen values (then [parse_short_arg] cannot return MaybeHyphenValue before it has consumed
        [flag_subcmd_skip]).
    Outside (a): [FlagSubClass.stale_at_witness]; outside (b): [FlagSubClass.unconsumed_skip_witness] (both panic the
    model and the crate).

    [gmw_fs]: the recursion over the command tree, generic in the state predicate [P] and the provenance
    predicate [V] exactly like [Totality.gmw_safe]; a level is entered either with a state satisfying the
    invariant (fresh, or through a name / long flag) or -- if it is [resumed_ok] -- with skip = 1 and the cluster
    first in its token list.  [do_parse_total_fs], [parse_top_total_fs]: the theorems. *)
From ClapModel Require Import Base.Bytes Base.Machine Base.Utf8.
From ClapModel Require Import Parse.Cmd Parse.Build Parse.Valid Parse.Matcher Parse.Errors Parse.Validator Parse.Parser.
From ClapModel Require Import ParseProofs.Safe ParseProofs.Invariant ParseProofs.Totality
                              ParseProofs.Relations ParseProofs.ValidateTotal ParseProofs.TotalityMain
                              ParseProofs.FlagSubClass ParseProofs.FsInvariant.
From ClapModel Require ParseProofs.Sites.
From Coq Require Import ZArith Lia.
From RecordUpdate Require Import RecordSet.
Import RecordSetNotations.
Open Scope N_scope.

(** * the class *)
(** no subcommand of [c] has a short flag or a short-flag alias *)
Definition w4b (c : cmd) : bool := forallb (fun s => negb (has_short_flag s)) (c_subs c).
(** a level that may be entered by re-reading a cluster *)
Definition resumed_okb (c : cmd) : bool := w4b c && FsInv.nohyph c 1.

Fixpoint fs_tree (fuel : nat) (c : cmd) (resumed : bool) : bool :=      (* [c] is built *)
  match fuel with
  | O => false
  | S f => (if resumed then resumed_okb c else true)
           && forallb (fun s => negb (s_built (c_set s))
                                && match build_subcommand c (c_name s) with
                                   | Some sc => fs_tree f sc (has_short_flag s)
                                   | None => false end) (c_subs c)
  end.
Definition flag_sub_class (c0 : cmd) : bool :=
  negb (s_built (c_set c0)) && let b := build_self c0 in fs_tree (S (S (depth b))) b false.

(** * the per-level facts of Invariant.v without "no short flag-subcommands" (W4) *)
Definition wfc' (c : cmd) : Prop :=
  (forall a, In a (c_args c) -> arg_complete a)
  /\ (forall a, In a (c_args c) -> a_index a <> None -> a_is_positional a = true)
  /\ (forall a, In a (c_args c) -> find_arg c (a_id a) = Some a)
  /\ (forall a, In a (c_args c) -> a_is_positional a = true -> a_index a <> None).

Definition resumed_ok (c : cmd) : Prop := FsInv.W4c c /\ FsInv.nohyph c 1 = true.

(** what the tree must satisfy, level by level, along every chain of built subcommands *)
Fixpoint tree_ok_fs (fuel : nat) (c : cmd) : Prop :=
  match fuel with
  | O => False
  | S f => wfc' c /\ assert_app c = true
           /\ (forall name sc, build_subcommand c name = Some sc -> tree_ok_fs f sc)
           /\ (forall ch name sc0 sc, find_short_subcmd c ch = Some name -> find_subcommand c name = Some sc0 ->
                 build_subcommand c (c_name sc0) = Some sc -> resumed_ok sc)
  end.

(** the resume-state part of the invariant at level [c] *)
Definition FAc (c : cmd) : option N -> Prop := fun a => FsInv.W4c c \/ a = None.
Definition FS0 : N -> Prop := fun s => s = 0.
Definition FT {A} : A -> Prop := fun _ => True.

Section Tree.
Variable V : cmd -> list bytes -> bytes -> Prop.
Variable P : cmd -> list bytes -> list (id * marg) -> N -> Prop.
Hypothesis HP : forall c toks, closedP c (V c toks) (P c toks).
(** a level entered through a cluster starts with an empty matcher but keeps the index counter *)
Hypothesis HP0 : forall c toks k, P c toks [] k.
Hypothesis HV : forall c toks, Vok c (V c toks) /\ Forall (fun tok => forall n, V c toks (skipn n tok)) toks.
Hypothesis validate_total : forall c m, assert_app c = true ->
  FsInv.entries_ok c (mt_args m) -> forall s, validate c m <> VPanic s.

(** in the loop / after the loop *)
Definition Gl c toks := FsInv.G c (P c toks) (V c toks) (FAc c) FS0.
Definition GT c toks := FsInv.G c (P c toks) (V c toks) FT FT.

Lemma GT_of_out c toks st : FsInv.Gout c (P c toks) (V c toks) st -> GT c toks st.
Proof. intros H. split; [exact H|split; exact I]. Qed.
Lemma GT_of_Gl c toks st : Gl c toks st -> GT c toks st.
Proof. intros [H _]. split; [exact H|split; exact I]. Qed.

(** how a level is entered *)
Definition entry_ok c toks (st0 : ps) : Prop :=
  Gl c toks st0
  \/ (resumed_ok c /\ fs_skip st0 = 1 /\ Gl c toks (st0 <| fs_skip := 0 |>) /\ FsInv.resumable toks).

Lemma gmw_fs : forall fuel c toks st0, tree_ok_fs fuel c -> entry_ok c toks st0 ->
  safe (GT c toks) (GT c toks) (get_matches_with fuel c toks st0).
Proof.
  induction fuel as [|f IH]; intros c toks st0 Hok Hentry; [destruct Hok|].
  destruct (HP c toks) as [PC1 [PC2 [PC3 [PC4 [PC5 PC0]]]]].
  destruct (HV c toks) as [[V1 [V2 [V3 [V4 [V5 [V6 [V7 V8]]]]]]] HVtoks].
  destruct Hok as [Hwf [Happ [Hch Hres]]]. pose proof Hwf as [W1 [W2 [W3 W5]]].
  assert (HFA : forall a, FAc c a <-> FsInv.W4c c \/ a = None) by (intros a; reflexivity).
  assert (HFS : forall s, FS0 s <-> s = 0) by (intros s; reflexivity).
  cbn [get_matches_with].
  match goal with |- safe _ _ (match ?pp with ROk _ => _ | RErr _ _ => _ | RPanic _ => _ end) => set (parsed := pp) end.
  assert (Hparsed : safe (GT c toks) (GT c toks) parsed).
  { subst parsed.
    assert (Hloop : safe (FsInv.lr_ok c (P c toks) (V c toks)) (Gl c toks)
                         (parse_loop c toks (mkL PSValuesDone 1 false false) st0)).
    { destruct Hentry as [HG|[[Hw Hnh] [Hskip [HG [tok [rest [r [-> [Es Hfo]]]]]]]]].
      - eapply FsInv.parse_loop_fs; try eassumption. exact I.
      - eapply FsInv.parse_loop_resume; try eassumption. }
    eapply safe_bind; [eapply safe_weaken; [exact Hloop|intros lr Hlr; exact Hlr|apply GT_of_Gl]|].
    intros lr Hlr. destruct lr as [st|name keep vaf st rest|name vals st|names st].
    + apply GT_of_out. exact Hlr.
    + destruct Hlr as [HGs [[sc0 Hfind] Hkeep]]. apply GT_of_out in HGs.
      destruct (is_set s_args_negate_subs c && vaf); [exact HGs|].
      rewrite Hfind. cbn [expect rbind].
      destruct (build_subcommand c (c_name sc0)) as [sc|] eqn:Eb; [|exact HGs].
      pose proof (Hch _ _ Eb) as Hsc.
      destruct f as [|f']; [destruct Hsc|].
      pose proof Hsc as [_ [Happsc _]]. rewrite Happsc. cbn [negb].
      destruct (HP sc rest) as [_ [_ [_ [_ [_ PC0s]]]]].
      match goal with |- safe _ _ (match get_matches_with _ _ _ ?s0 with _ => _ end) => set (sub_st0 := s0) end.
      assert (Hsub : safe (GT sc rest) (GT sc rest) (get_matches_with (S f') sc rest sub_st0)).
      { apply IH; [exact Hsc|]. subst sub_st0. destruct keep.
        - destruct (Hkeep eq_refl) as [[ch Hch0] [Hskip Hrs]].
          pose proof (Hres ch name sc0 sc Hch0 Hfind Eb) as Hro.
          right. split; [exact Hro|split; [exact Hskip|split; [|exact Hrs]]].
          split; [|split; [left; exact (proj1 Hro)|reflexivity]].
          split; [intros p Hp; discriminate|split; [intros i m []|apply HP0]].
        - left. apply FsInv.G_ps_new; [exact PC0s|right; reflexivity|reflexivity]. }
      destruct (get_matches_with (S f') sc rest sub_st0) as [sub_st|e sub_st|site]; cbn in Hsub.
      * apply FsInv.G_set_sub; exact HGs.
      * destruct (is_set s_ignore_errors c); [apply FsInv.G_set_sub; exact HGs|exact HGs].
      * contradiction.
    + apply GT_of_out in Hlr.
      match goal with |- safe _ _ (rbind ?fl _) => set (filled := fl) end.
      assert (Hfill : match filled with ROk _ => True | RErr _ s => s = st | RPanic _ => False end).
      { subst filled. apply external_fill_safe. cbn.
        eexists. split; [reflexivity|]. cbn. discriminate. }
      destruct filled as [m|e s|x]; cbn [rbind]; [|subst s; exact Hlr|contradiction].
      apply FsInv.G_set_sub; exact Hlr.
    + apply GT_of_out. exact Hlr. }
  destruct parsed as [st|e st|site]; cbn in Hparsed; [| |contradiction].
  - eapply safe_bind; [eapply FsInv.resolve_pending_safe; eassumption|].
    intros st1 [HG1 _].
    eapply safe_bind; [eapply FsInv.add_env_safe; eassumption|].
    intros st2 HG2.
    eapply safe_bind; [eapply FsInv.add_defaults_safe; eassumption|].
    intros st3 HG3. unfold vres_to_res.
    destruct (validate c (mt st3)) as [|k a|s] eqn:Ev; [exact HG3|exact HG3|].
    exfalso. apply (validate_total c (mt st3) Happ) with (s := s); [apply HG3|exact Ev].
  - destruct (is_set s_ignore_errors c); [|exact Hparsed].
    assert (Hr : safe (GT c toks) (GT c toks) (resolve_pending c st)).
    { eapply safe_weaken; [eapply FsInv.resolve_pending_safe; eassumption|intros a Ha; exact (proj1 Ha)|auto]. }
    destruct (resolve_pending c st) as [s0|e0 s0|x0]; cbn in Hr; [| |contradiction].
    all: assert (He : safe (GT c toks) (GT c toks) (add_env c s0)) by (eapply FsInv.add_env_safe; eassumption).
    all: destruct (add_env c s0) as [s1|e1 s1|x1]; cbn in He; [| |contradiction].
    all: assert (Hd : safe (GT c toks) (GT c toks) (add_defaults c s1)) by (eapply FsInv.add_defaults_safe; eassumption).
    all: destruct (add_defaults c s1) as [s2|e2 s2|x2]; cbn in Hd; [exact Hd|exact Hd|contradiction].
Qed.
End Tree.

(** * from the boolean class to [tree_ok_fs] *)
Lemma w4b_spec c : w4b c = true -> FsInv.W4c c.
Proof.
  unfold w4b, FsInv.W4c, find_short_subcmd. intros H ch. rewrite forallb_forall in H.
  rewrite find_none_all; [reflexivity|]. intros s Hs. specialize (H s Hs).
  unfold has_short_flag in H. apply Bool.negb_true_iff, Bool.orb_false_elim in H. destruct H as [H1 H2].
  unfold short_flag_aliases_to. destruct (c_short_flag s); [discriminate|].
  destruct (c_short_flag_aliases s); [reflexivity|discriminate].
Qed.

Lemma short_flag_aliases_to_has s ch : short_flag_aliases_to s ch = true -> has_short_flag s = true.
Proof.
  unfold short_flag_aliases_to, has_short_flag. destruct (c_short_flag s); [reflexivity|].
  destruct (c_short_flag_aliases s); [discriminate|reflexivity].
Qed.

Lemma wfc'_of_built x : s_built (c_set x) = false -> assert_app (build_self x) = true -> wfc' (build_self x).
Proof.
  intros Hb Happ. unfold wfc'. split; [|split; [|split]].
  - intros a Hin. eapply build_self_args_complete; eassumption.
  - intros a Hin Hidx. destruct (assert_app_arg _ _ Happ Hin) as [Haa _].
    unfold assert_arg in Haa. repeat (apply andb_true_iff in Haa as [Haa ?]).
    match goal with Hi : (if is_some (a_index a) then _ else _) = true |- _ => rename Hi into HI end.
    destruct (a_index a); [|contradiction]. cbn in HI. apply andb_true_iff in HI. apply HI.
  - intros a Hin. destruct (assert_app_arg _ _ Happ Hin) as [_ Hc]. apply Nat.ltb_lt in Hc.
    destruct (find_arg_of_in _ _ Hin) as [a' Ha']. rewrite Ha'. f_equal.
    unfold find_arg in Ha'. eapply count_lt2_unique; [exact Ha'|exact Hin|apply beq_refl|exact Hc].
  - intros a Hin Hp. unfold build_self in Hin. rewrite Hb in Hin.
    rewrite c_args_bs_mark, c_args_bs_deprecated in Hin. apply in_map_iff in Hin. destruct Hin as [b [<- Hb']].
    destruct (bs_deprecated_arg_frame
                (bs_args (bs_globals (bs_help_version (bs_propagate (bs_settings x)))))
                (fold_left (fun m a0 => match a_index a0 with Some n => N.max m n | None => m end)
                   (c_args (bs_args (bs_globals (bs_help_version (bs_propagate (bs_settings x)))))) 0) b) as [Hi Hpp].
    rewrite Hi. rewrite Hpp in Hp. rewrite c_args_bs_args in Hb'. eapply build_args_index; eassumption.
Qed.

(** subcommand names and aliases are unique ([assert_app]): a subcommand is what its own name resolves to *)
Lemma fs_mem_id_in y l : In y l -> mem_id y l = true.
Proof. intros H. unfold mem_id. apply existsb_exists. exists y. split; [exact H|apply beq_refl]. Qed.

Lemma fs_nodup_app_r a : forall b, nodup_ids (a ++ b) = true -> nodup_ids b = true.
Proof.
  induction a as [|x t IH]; intros b H; [exact H|]. cbn [app nodup_ids] in H.
  apply andb_true_iff in H. destruct H as [_ H]. exact (IH b H).
Qed.

Lemma fs_nodup_disjoint a : forall b y, nodup_ids (a ++ b) = true -> In y a -> In y b -> False.
Proof.
  induction a as [|x t IH]; intros b y H Ha Hb; [destruct Ha|]. cbn [app nodup_ids] in H.
  apply andb_true_iff in H. destruct H as [Hx H]. destruct Ha as [->|Ha]; [|exact (IH b y H Ha Hb)].
  rewrite (fs_mem_id_in y (t ++ b)) in Hx; [discriminate|]. apply in_or_app. right. exact Hb.
Qed.

Lemma fs_aliases_to_in s n : aliases_to s n = true -> In n (c_name s :: all_aliases s).
Proof.
  unfold aliases_to. intros H. apply orb_true_iff in H. destruct H as [H|H].
  - apply beq_eq in H. left. exact H.
  - apply existsb_exists in H. destruct H as [y [Hin Hy]]. apply beq_eq in Hy. subst y. right. exact Hin.
Qed.

Lemma nodup_find_self (f : cmd -> bool) s1 :
  (forall s, f s = true -> aliases_to s (c_name s1) = true) -> f s1 = true ->
  forall l, nodup_ids (flat_map (fun s => c_name s :: all_aliases s) l) = true -> In s1 l ->
  List.find f l = Some s1.
Proof.
  intros Hf Hf1. induction l as [|h t IH]; intros Hnd Hin; [destruct Hin|].
  cbn [List.find]. cbn [flat_map] in Hnd. destruct Hin as [->|Hin]; [rewrite Hf1; reflexivity|].
  destruct (f h) eqn:E.
  - exfalso. apply Hf in E. apply fs_aliases_to_in in E.
    apply (fs_nodup_disjoint _ _ (c_name s1) Hnd E). apply in_flat_map. exists s1. split; [exact Hin|left; reflexivity].
  - apply IH; [exact (fs_nodup_app_r _ _ Hnd)|exact Hin].
Qed.

Lemma fs_assert_app_nodup c : assert_app c = true -> nodup_ids (all_subcommand_names c) = true.
Proof.
  unfold assert_app. intros H.
  apply andb_true_iff in H. destruct H as [H _]. apply andb_true_iff in H. destruct H as [H _].
  apply andb_true_iff in H. destruct H as [_ H]. exact H.
Qed.

(** the child the parser builds for [name]: [build_self] of a subcommand of [c] (names filled in) *)
Lemma build_subcommand_spec c name sc : build_subcommand c name = Some sc ->
  exists s0 y, In s0 (c_subs c) /\ c_name s0 = name /\ build_subcommand c (c_name s0) = Some sc
               /\ sc = build_self y /\ c_set y = c_set s0.
Proof.
  intros Hbs. pose proof Hbs as Hbs0. unfold build_subcommand in Hbs.
  destruct (List.find (fun s => beq (c_name s) name) (c_subs c)) as [s0|] eqn:Ef; [|discriminate].
  apply List.find_some in Ef. destruct Ef as [Hin0 Hname]. apply beq_eq in Hname.
  injection Hbs as Hsc.
  eexists s0, _. split; [exact Hin0|split; [exact Hname|split; [rewrite Hname; exact Hbs0|split; [symmetry; exact Hsc|]]]].
  destruct (c_display_name _); reflexivity.
Qed.

Lemma tree_ok_fs_of_class : forall f x r, s_built (c_set x) = false ->
  valid_tree f (build_self x) = true -> fs_tree f (build_self x) r = true -> tree_ok_fs f (build_self x).
Proof.
  induction f as [|f IH]; intros x r Hb Hv Hc; [discriminate|].
  cbn [valid_tree] in Hv. apply andb_true_iff in Hv. destruct Hv as [Happ Hvch].
  cbn [fs_tree] in Hc. apply andb_true_iff in Hc. destruct Hc as [_ Hcch].
  rewrite forallb_forall in Hvch, Hcch.
  cbn [tree_ok_fs]. split; [apply wfc'_of_built; assumption|split; [exact Happ|split]].
  - intros name sc Hbs. destruct (build_subcommand_spec _ _ _ Hbs) as [s0 [y [Hin0 [_ [Hbs0 [-> Hset]]]]]].
    specialize (Hvch s0 Hin0). specialize (Hcch s0 Hin0). rewrite Hbs0 in Hvch, Hcch.
    apply andb_true_iff in Hcch. destruct Hcch as [Hnb Hfs]. apply Bool.negb_true_iff in Hnb.
    eapply IH; [rewrite Hset; exact Hnb|exact Hvch|exact Hfs].
  - intros ch name sc0 sc Hshort Hfind Hbs.
    pose proof (fs_assert_app_nodup _ Happ) as Hnd. unfold all_subcommand_names in Hnd.
    unfold find_short_subcmd in Hshort.
    destruct (List.find (fun s => short_flag_aliases_to s ch) (c_subs (build_self x))) as [s1|] eqn:Es1; [|discriminate].
    cbn in Hshort. inversion Hshort; subst name. clear Hshort.
    apply List.find_some in Es1. destruct Es1 as [Hin1 Hsf].
    (* the name resolves to [s1] itself, and so does the lookup of [build_subcommand] *)
    unfold find_subcommand in Hfind.
    rewrite (nodup_find_self (fun s => aliases_to s (c_name s1)) s1) in Hfind;
      [|intros s Hs; exact Hs|unfold aliases_to; rewrite beq_refl; reflexivity|exact Hnd|exact Hin1].
    inversion Hfind; subst sc0. clear Hfind.
    specialize (Hcch s1 Hin1). rewrite Hbs in Hcch.
    apply andb_true_iff in Hcch. destruct Hcch as [_ Hfs].
    rewrite (short_flag_aliases_to_has _ _ Hsf) in Hfs.
    destruct f as [|f']; [discriminate|]. cbn [fs_tree] in Hfs.
    apply andb_true_iff in Hfs. destruct Hfs as [Hro _]. unfold resumed_okb in Hro.
    apply andb_true_iff in Hro. destruct Hro as [Hw Hnh]. split; [apply w4b_spec; exact Hw|exact Hnh].
Qed.

(** * the theorems *)
Theorem do_parse_total_fs c0 toks : flag_sub_class c0 = true -> valid c0 = true ->
  match do_parse c0 toks with OPanicked _ | OOutOfFuel => False | _ => True end.
Proof.
  intros Hc Hv. unfold do_parse. rewrite Hv. cbn [negb].
  unfold valid in Hv. cbn zeta in Hv.
  unfold flag_sub_class in Hc. cbn zeta in Hc. apply andb_true_iff in Hc. destruct Hc as [Hb Hc].
  apply Bool.negb_true_iff in Hb.
  pose proof (tree_ok_fs_of_class _ _ _ Hb Hv Hc) as Hok.
  pose proof (gmw_fs (fun _ _ => trivV) (fun _ _ => trivP) (fun c _ => trivP_closed c) (fun _ _ _ => I) trivV_ok) as Hs.
  assert (Hvt : forall c m, assert_app c = true -> FsInv.entries_ok c (mt_args m) -> forall s, validate c m <> VPanic s).
  { intros c m Happ He s. apply validate_total; [apply assert_app_rel_wf; exact Happ|exact He]. }
  specialize (Hs Hvt _ (build_self c0) toks ps_new Hok).
  assert (Hentry : entry_ok (fun _ _ => trivV) (fun _ _ => trivP) (build_self c0) toks ps_new).
  { left. apply FsInv.G_ps_new; [exact I|right; reflexivity|reflexivity]. }
  specialize (Hs Hentry).
  destruct (get_matches_with _ (build_self c0) toks ps_new) as [st|e st|s]; cbn in Hs.
  - exact I.
  - destruct (is_set s_ignore_errors (build_self c0) && use_stderr (e_kind e)); exact I.
  - contradiction.
Qed.

(** [try_get_matches_from]: as in [TotalityMain.parse_top_total], the program name taken from argv[0] is stored
    in the definition before it is built; gate and class do not read it, which the hypotheses state as
    "under every program name". *)
Theorem parse_top_total_fs c0 argv :
  (forall b, flag_sub_class (c0 <| c_bin_name := b |>) = true) -> flag_sub_class c0 = true ->
  (forall b, valid (c0 <| c_bin_name := b |>) = true) -> valid c0 = true ->
  match parse_top c0 argv with OPanicked _ | OOutOfFuel => False | _ => True end.
Proof.
  intros Hcb Hc Hvb Hv. unfold parse_top.
  destruct (is_set s_no_binary_name c0); [apply do_parse_total_fs; assumption|].
  destruct argv as [|bin rest]; [apply do_parse_total_fs; assumption|].
  destruct (c_bin_name c0); [apply do_parse_total_fs; assumption|].
  destruct (utf8_valid bin && negb (is_nil bin)); [|apply do_parse_total_fs; assumption].
  apply do_parse_total_fs; [apply Hcb|apply Hvb].
Qed.

(** the rows [Modelled l] of the panic-site table (ParseProofs/Sites.v) are dead for the class as well *)
Theorem sites_dead_fs c0 toks : flag_sub_class c0 = true -> valid c0 = true ->
  forall n, In n Sites.modelled_sites -> do_parse c0 toks <> OPanicked n.
Proof.
  intros Hc Hv n _ H. pose proof (do_parse_total_fs c0 toks Hc Hv) as T. rewrite H in T. exact T.
Qed.

(** * every [plain] definition is in the class *)
Lemma nsf_no_short_flag s : nsf s -> has_short_flag s = false.
Proof. intros [H1 H2]. unfold has_short_flag. rewrite H1, H2. reflexivity. Qed.

Lemma fs_tree_of_plain : forall f x, plain x = true -> valid_tree f (build_self x) = true ->
  fs_tree f (build_self x) false = true.
Proof.
  induction f as [|f IH]; intros x Hp Hv; [discriminate|].
  cbn [valid_tree] in Hv. apply andb_true_iff in Hv. destruct Hv as [_ Hch].
  pose proof Hp as Hp'. apply plain_spec in Hp'. destruct Hp' as [Hb [Hg Hsub]].
  cbn [fs_tree andb]. apply forallb_forall. intros s Hin.
  rewrite forallb_forall in Hch. specialize (Hch s Hin).
  assert (Hs : s_built (c_set s) = false /\ nsf s).
  { destruct (subs_build_self x Hb s Hin) as [[s0 [Hin0 [[_ [Hf2 Hf3]] [E1 _]]]]|[_ [Hn [E1 _]]]].
    - destruct (Hsub s0 Hin0) as [[H1 H2] Hp0]. apply plain_spec in Hp0. destruct Hp0 as [B1 _].
      split; [rewrite E1, B1, Hg; reflexivity|split; congruence].
    - split; [rewrite E1; exact Hg|exact Hn]. }
  destruct Hs as [Hbs Hn]. rewrite Hbs, (nsf_no_short_flag _ Hn). cbn [negb andb].
  destruct (build_subcommand (build_self x) (c_name s)) as [sc|] eqn:Ebs; [|discriminate].
  unfold build_subcommand in Ebs.
  destruct (List.find (fun s' => beq (c_name s') (c_name s)) (c_subs (build_self x))) as [s0|] eqn:Ef; [|discriminate].
  apply List.find_some in Ef. destruct Ef as [Hin0 _].
  inversion Ebs; subst sc. clear Ebs.
  match goal with |- fs_tree f (build_self ?y) false = true => assert (Hpy : plain y = true) end.
  { match goal with |- plain ?y = true => rewrite (plain_frame y s0) end;
      [apply (plain_child x s0 Hp Hin0)| | |];
      repeat match goal with |- context [match ?d with Some _ => _ | None => _ end] => destruct d end; reflexivity. }
  apply IH; [exact Hpy|exact Hch].
Qed.

Theorem plain_in_class c0 : plain c0 = true -> valid c0 = true -> flag_sub_class c0 = true.
Proof.
  intros Hp Hv. unfold flag_sub_class. cbn zeta.
  pose proof Hp as Hp'. apply plain_spec in Hp'. destruct Hp' as [Hb _]. rewrite Hb. cbn [negb andb].
  apply fs_tree_of_plain; [exact Hp|exact Hv].
Qed.

(** * non-vacuity, and the class boundary *)
(** [FlagSubClass.candidate_cmd] (`p [-a] S|-S [-x] [-w] [v]`) and a wider definition: a short flag-subcommand
    with a short-flag alias, options, an optional-value option with require_equals, a multi-valued positional, a
    long-flag grandchild; a sibling whose own child has a short flag; a hyphen/negative-number positional at the
    ROOT (allowed: the root is never re-entered); [ignore_errors]. *)
Definition fs_opt (ch : N) : arg := (arg_new [ch]) <| a_short := Some ch |> <| a_action := Some ASet |>.
Definition fs_optm (ch : N) : arg :=
  (arg_new [ch]) <| a_short := Some ch |> <| a_action := Some AAppend |>
                 <| a_num := Some {| vmin := 0; vmax := 2 |} |> <| a_req_eq := true |>.
Definition fs_wide_cmd : cmd :=
  let posn := (arg_new [113]) <| a_num := Some {| vmin := 0; vmax := usize_max |} |> in
  let t := (cmd_new [116]) <| c_short_flag := Some 84 |> <| c_args := [flag 121] |> in
  let s := (cmd_new [115]) <| c_short_flag := Some 83 |> <| c_short_flag_aliases := [(49, true)] |>
             <| c_args := [flag 120; fs_opt 118; fs_optm 119; posn] |>
             <| c_subs := [(cmd_new [117]) <| c_long_flag := Some [117] |> ] |> in
  (cmd_new [112]) <| c_args := [flag 97; fs_opt 98; (arg_new [110]) <| a_negnum := true |> <| a_hyphen := true |>] |>
                  <| c_subs := [s; (cmd_new [122]) <| c_subs := [t] |>] |>
                  <| c_set := settings_none <| s_ignore_errors := true |> |>.

Example flag_sub_class_examples :
  (flag_sub_class candidate_cmd = true /\ valid candidate_cmd = true /\ plain candidate_cmd = false)
  /\ (flag_sub_class fs_wide_cmd = true /\ valid fs_wide_cmd = true /\ plain fs_wide_cmd = false
      /\ (forall b, flag_sub_class (fs_wide_cmd <| c_bin_name := b |>) = true)
      /\ (forall b, valid (fs_wide_cmd <| c_bin_name := b |>) = true))
  /\ (* the three recorded witnesses are outside the class *)
     flag_sub_class stale_cmd = false /\ flag_sub_class hyphen_cmd = false /\ flag_sub_class hyphen2_cmd = false.
Proof.
  split; [repeat split; vm_compute; reflexivity|].
  split; [|repeat split; vm_compute; reflexivity].
  split; [vm_compute; reflexivity|split; [vm_compute; reflexivity|split; [vm_compute; reflexivity|]]].
  split; intros [b|]; vm_compute; reflexivity.
Qed.
