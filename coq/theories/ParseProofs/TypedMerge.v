(** Property C04, round 2: the typed invariant THROUGH the globals merge ([propagate_globals]).

    The merge copies, for every id of a global argument on the reported chain, ONE of the entries the
    parser stored under that id to every level (C09: the most explicit source, deepest among equals).
    The entry keeps the typed values its own level's parser produced; so the reported levels stay
    typed exactly when the definitions agree: wherever an id of a global argument HAS an entry, that
    level's definition gives the id the same value parser as every level that gives it one
    ([globals_consistent]).  [TypedExamples.merged_typed_refuted] shows the hypothesis cannot be
    dropped (a subcommand redefining the id with another parser).

    Levels are described by their [spec] (id -> value parser): [cmd_spec c] for a level of a command,
    [ext_spec c] for the capture of an external subcommand of [c]; [chain_specs] walks the reported
    chain as [typed_matches] does. *)
From ClapModel Require Import Base.Bytes Base.Machine Base.Utf8.
From ClapModel Require Import Parse.Cmd Parse.Build Parse.Valid Parse.Matcher Parse.Errors Parse.Validator Parse.Parser.
From ClapModel Require Import ParseProofs.Safe ParseProofs.Relations ParseProofs.Globals ParseProofs.Dispatch ParseProofs.TypedInv.
From Coq Require Import ZArith Lia.
Open Scope N_scope.

Definition spec := id -> option vparser.
Definition cmd_spec (c : cmd) : spec := fun i => match find_arg c i with Some a => a_vp a | None => None end.
Definition ext_spec (c : cmd) : spec :=
  fun i => if beq i ext_id then Some (opt_default VPOsString (c_ext_vp c)) else None.

(** what the accessors of a level can reach ([fm_get]) is accepted by the parser the level's spec names *)
Definition typed_lv (sp : spec) (l : list (id * marg)) : Prop :=
  forall i ma vp, fm_get i l = Some ma -> sp i = Some vp -> Forall (Forall (accepts vp)) (m_raw ma).

Inductive chain_specs : cmd -> matches -> list spec -> Prop :=
| CS_leaf c args : chain_specs c (Matches args None) [cmd_spec c]
| CS_sub c args n sc sm sps : build_subcommand c n = Some sc -> chain_specs sc sm sps ->
    chain_specs c (Matches args (Some (n, sm))) (cmd_spec c :: sps)
| CS_ext c args n l : chain_specs c (Matches args (Some (n, Matches l None))) [cmd_spec c; ext_spec c].

Lemma typed_entries_lv c l : typed_entries c l -> typed_lv (cmd_spec c) l.
Proof.
  intros H i ma vp Hg Hs. unfold cmd_spec in Hs. destruct (find_arg c i) as [a|] eqn:Ef; [|discriminate].
  apply Safe.fm_get_in in Hg. destruct Hg as [k' [Hin Hb]]. apply beq_eq in Hb. subst k'.
  apply (H i ma a vp Hin Ef Hs).
Qed.

Scheme typed_matches_min := Minimality for typed_matches Sort Prop
  with typed_sub_min := Minimality for typed_sub Sort Prop.

Theorem typed_chain c m : typed_matches c m ->
  exists sps, chain_specs c m sps /\ Forall2 typed_lv sps (levels m).
Proof.
  intros H.
  apply (typed_matches_min
           (fun c m => exists sps, chain_specs c m sps /\ Forall2 typed_lv sps (levels m))
           (fun c sub => forall args, typed_entries c args ->
              exists sps, chain_specs c (Matches args sub) sps /\ Forall2 typed_lv sps (levels (Matches args sub))));
    [| | | |exact H].
  - intros c0 args sub He _ IH. apply IH. exact He.
  - intros c0 args He. exists [cmd_spec c0]. split; [constructor|]. cbn. constructor; [apply typed_entries_lv; exact He|constructor].
  - intros c0 n sc sm Hb _ [sps [Hc Hf]] args He. exists (cmd_spec c0 :: sps).
    split; [econstructor; eassumption|]. cbn. constructor; [apply typed_entries_lv; exact He|exact Hf].
  - intros c0 n vals Hv args He. exists [cmd_spec c0; ext_spec c0]. split; [constructor|]. cbn.
    constructor; [apply typed_entries_lv; exact He|]. constructor; [|constructor].
    intros i ma vp Hg Hs. cbn in Hg. unfold ext_spec in Hs.
    destruct (beq i ext_id) eqn:Ei; [|discriminate]. apply beq_eq in Ei. subst i. cbn in Hg.
    inversion Hg; subst ma. inversion Hs; subst vp. cbn. constructor; [exact Hv|constructor].
Qed.

(** the definitions agree on the parser of each global id wherever it has an entry *)
Definition globals_consistent (globals : list id) (sps : list spec) (lv : list (list (id * marg))) : Prop :=
  forall g, mem_id g globals = true ->
    forall sp vp, In sp sps -> sp g = Some vp ->
    forall sp' l' ma, In (sp', l') (combine sps lv) -> fm_get g l' = Some ma -> sp' g = Some vp.

Lemma Forall2_map_in {A B} (P Q : A -> B -> Prop) (f : B -> B) : forall xs ys,
  Forall2 P xs ys -> (forall x y, In (x, y) (combine xs ys) -> P x y -> Q x (f y)) -> Forall2 Q xs (map f ys).
Proof.
  induction 1 as [|x y xs ys Hxy _ IH]; intros H; cbn; constructor.
  - apply H; [left; reflexivity|exact Hxy].
  - apply IH. intros x' y' Hin. apply H. right. exact Hin.
Qed.

Lemma Forall2_in_r {A B} (P : A -> B -> Prop) : forall xs ys y,
  Forall2 P xs ys -> In y ys -> exists x, In (x, y) (combine xs ys) /\ In x xs /\ P x y.
Proof.
  induction 1 as [|x0 y0 xs ys Hxy _ IH]; intros Hin; [destruct Hin|].
  destruct Hin as [<-|Hin].
  - exists x0. split; [left; reflexivity|split; [left; reflexivity|exact Hxy]].
  - destruct (IH Hin) as [x [H1 [H2 H3]]]. exists x. split; [right; exact H1|split; [right; exact H2|exact H3]].
Qed.

Theorem merge_typed fuel globals m sps : (matches_depth m <= fuel)%nat ->
  Forall2 typed_lv sps (levels m) -> globals_consistent globals sps (levels m) ->
  Forall2 typed_lv sps (levels (fst (filled fuel globals m))).
Proof.
  intros Hfuel Hty Hcons.
  pose proof (vmF_nodup fuel globals m Hfuel) as Hnd.
  pose proof (fill_closed_form fuel globals m [] Hfuel) as Hcf. cbv zeta in Hcf. destruct Hcf as [_ [Hlv _]].
  unfold filled in *. rewrite Hlv.
  eapply Forall2_map_in; [exact Hty|].
  intros sp l Hin Hl i ma vp Hg Hs.
  rewrite (ins_all_get _ _ _ Hnd) in Hg.
  destruct (fm_get i (snd (fill_in_global_values fuel globals m []))) as [e|] eqn:Evm; [|apply (Hl i ma vp Hg Hs)].
  inversion Hg; subst e. clear Hg.
  assert (Hglob : mem_id i globals = true).
  { destruct (mem_id i globals) eqn:E; [reflexivity|]. pose proof (merge_keys fuel globals m Hfuel i E) as Hk.
    unfold filled in Hk. congruence. }
  pose proof (merge_pick fuel globals m Hfuel i Hglob) as Hp. unfold filled in Hp. rewrite Evm in Hp. symmetry in Hp.
  destruct (pick_spec _ _ _ Hp) as [[Habs _]|[l1 [l2 [Hes _]]]]; [discriminate|].
  assert (Hin' : In (Some ma) (map (fm_get i) (levels m))) by (rewrite Hes; apply in_or_app; right; left; reflexivity).
  apply in_map_iff in Hin'. destruct Hin' as [l' [Hg' Hl']].
  destruct (Forall2_in_r typed_lv sps (levels m) l' Hty Hl') as [sp' [Hc' [_ Hty']]].
  assert (Hsp : In sp sps) by (apply (in_combine_l _ _ _ _ Hin)).
  apply (Hty' i ma vp Hg'). apply (Hcons i Hglob sp vp Hsp Hs sp' l' ma Hc' Hg').
Qed.

(** the whole parse: what [_do_parse] reports, level by level *)
Theorem do_parse_merged_typed c0 toks m : do_parse c0 toks = OOk m ->
  exists st sps, m = reported c0 st /\ chain_specs (build_self c0) (into_inner (mt st)) sps /\
    (globals_consistent
       (used_global_args (S (matches_depth (into_inner (mt st))))
          (build_recursive (S (S (depth (build_self c0)))) c0) (into_inner (mt st)))
       sps (levels (into_inner (mt st))) ->
     Forall2 typed_lv sps (levels m)).
Proof.
  intros H. destruct (do_parse_typed c0 toks m H) as [st [Hm Ht]].
  destruct (typed_chain _ _ Ht) as [sps [Hc Hf]]. exists st, sps. split; [exact Hm|]. split; [exact Hc|].
  intros Hcons. subst m. unfold reported. cbv zeta.
  exact (merge_typed _ _ _ sps (Nat.le_succ_diag_r _) Hf Hcons).
Qed.
