(** Property C03, every level of the chain.

    Part 1: the token loop never touches the recorded subcommand ([mt_sub]) -- the frame lemma
    that was missing for the link "what the parent stores is what the child validated"
    (the phases after the loop are covered by C09's [Dispatch.post_keeps_sub]).
    Part 2: [validated_chain c m]: the reported matches [m], read from the root downwards, are at
    every level the matcher the validator accepted for that level's own (built) definition.
    Part 3: the theorem for [get_matches_with] (any fuel, any level) and for [do_parse].
    Part 4: the class [no_ignore] (no node of the definition sets [ignore_errors]) is inherited
    by every command the parser builds when it descends. *)
From Coq Require Import ZArith List Bool Lia.
Import ListNotations.
From ClapModel Require Import Base.Bytes Base.Machine Base.Utf8 Lex.OsStrExtModel.
From ClapModel Require Import Parse.Cmd Parse.Build Parse.Valid Parse.Matcher Parse.Errors Parse.Validator Parse.Parser.
From ClapModel Require Import ParseProofs.Relations ParseProofs.Dispatch.
From ClapModel Require Import ParseProofs.Safe ParseProofs.Invariant ParseProofs.Totality ParseProofs.TotalityMain ParseProofs.IndexInv.
From RecordUpdate Require Import RecordSet.
Import RecordSetNotations.
Open Scope N_scope.

(* [Relations.holds] (an ArgPredicate holds of an occurrence) and [Dispatch.holds] (partial
   correctness of a result) share a name; this file uses the second one under the name [pc]. *)
Notation pc := ClapModel.ParseProofs.Dispatch.holds.

(** * Part 1: the token loop keeps [mt_sub] *)
Section LoopSub.
Variable c : cmd.
Variable s : option (bytes * matches).
Notation Ss := (S_ s).

Lemma resolve_pending_ignore_sub st : Ss st -> pc Ss Ss (resolve_pending_ignore c st).
Proof.
  intros Hs. unfold resolve_pending_ignore. pose proof (resolve_pending_sub c s st Hs) as H.
  destruct (resolve_pending c st); cbn in *; auto.
Qed.

Lemma pending_values_push_sub m i idn tr v m' :
  pending_values_push m i idn tr v = Some m' -> mt_sub m' = mt_sub m.
Proof.
  unfold pending_values_push. cbv zeta.
  destruct (negb (beq _ i)); [discriminate|].
  destruct (is_some idn && _); [discriminate|].
  intros H. injection H as <-. reflexivity.
Qed.

Lemma start_trailing_sub m : mt_sub (start_trailing m) = mt_sub m.
Proof. unfold start_trailing. destruct (mt_pending m); reflexivity. Qed.

Lemma state_arg_sub pst : pc (fun _ => True) Ss (state_arg c pst : res (option arg)).
Proof. destruct pst as [|i|i]; cbn; try exact I; destruct (find_arg c i); cbn; exact I. Qed.

Lemma parse_opt_value_sub idn attached a has_eq st :
  Ss st -> pc (fun x => Ss (fst x)) Ss (parse_opt_value c idn attached a has_eq st).
Proof.
  intros Hs. unfold parse_opt_value. destruct (a_req_eq a && negb has_eq).
  - eapply holds_bind; [apply holds_expect; intros; exact I|]. intros r _.
    destruct (vmin r =? 0).
    + eapply holds_bind; [apply react_sub; exact Hs|]. intros x Hx. exact Hx.
    + exact Hs.
  - destruct attached as [v|].
    + eapply holds_bind; [apply react_sub; exact Hs|]. intros x Hx. exact Hx.
    + eapply holds_bind; [apply resolve_pending_sub; exact Hs|]. intros st1 H1.
      eapply holds_bind.
      { apply (holds_expect (fun m => mt_sub m = s)). intros m Hm.
        apply pending_values_push_sub in Hm. rewrite Hm. exact H1. }
      intros m Hm. exact Hm.
Qed.

Lemma parse_long_arg_sub flag ok value pst pos vaf st :
  Ss st -> pc (fun x => Ss (fst (fst x))) Ss (parse_long_arg c flag ok value pst pos vaf st).
Proof.
  intros Hs. unfold parse_long_arg.
  eapply holds_bind; [apply state_arg_sub|]. intros sa _.
  destruct (match sa with Some a => a_hyphen a | None => false end); [exact Hs|].
  destruct (negb ok); [exact Hs|].
  destruct (is_nil flag && negb (is_some value)); [exact I|].
  match goal with |- pc _ _ (match ?f with Some _ => _ | None => _ end) => destruct f as [a|] end.
  - destruct (a_takes_value a).
    + eapply holds_bind; [apply parse_opt_value_sub; exact Hs|]. intros x Hx. exact Hx.
    + destruct value as [rest|]; [exact Hs|].
      eapply holds_bind; [apply react_sub; exact Hs|]. intros x Hx. exact Hx.
  - destruct (possible_long_flag_subcommand c flag); [exact Hs|].
    destruct (match get_pos c pos with Some a => a_hyphen a && negb (a_last a) | None => false end); exact Hs.
Qed.

Lemma short_loop_sub : forall fuel r ret vaf st,
  Ss st -> pc (fun x => Ss (fst (fst x))) Ss (short_loop c fuel r ret vaf st).
Proof.
  induction fuel as [|f IH]; intros r ret vaf st Hs; cbn [short_loop]; [exact I|].
  destruct (sf_next r) as [[[ch|rest] r']|]; [|exact Hs|exact Hs].
  destruct (get_short c ch) as [a|].
  - destruct (negb (a_takes_value a)).
    + eapply holds_bind; [apply react_sub; exact Hs|]. intros x Hx. apply IH. exact Hx.
    + match goal with |- context [let '(_, _) := ?X in _] => destruct X as [val' has_eq] end.
      eapply holds_bind; [apply parse_opt_value_sub; exact Hs|]. intros x Hx.
      destruct (snd x); try exact Hx. apply IH. exact Hx.
  - destruct (find_short_subcmd c ch); [|exact Hs].
    eapply holds_bind; [apply resolve_pending_sub; exact Hs|]. intros st1 H1. exact H1.
Qed.

Lemma parse_short_arg_sub r pst pos vaf st :
  Ss st -> pc (fun x => Ss (fst (fst x))) Ss (parse_short_arg c r pst pos vaf st).
Proof.
  intros Hs. unfold parse_short_arg.
  eapply holds_bind; [apply state_arg_sub|]. intros sa _.
  destruct (match sa with Some a => a_hyphen a || (a_negnum a && sf_is_negative_number r) | None => false end); [exact Hs|].
  destruct (match get_pos c pos with Some a => a_negnum a | None => false end && sf_is_negative_number r); [exact Hs|].
  destruct (match get_pos c pos with Some a => a_hyphen a && negb (a_last a) | None => false end
            && sf_any_unknown c (S (length r)) r); [exact Hs|].
  eapply holds_bind; [apply holds_expect; intros; exact I|]. intros r0 _.
  apply short_loop_sub. exact Hs.
Qed.

Lemma is_new_arg_noerr next a : pc (fun _ => True) (fun _ => False) (is_new_arg c next a).
Proof.
  unfold is_new_arg. destruct (find_arg c (a_id a)) as [b|]; cbn [expect rbind]; [|exact I].
  destruct (a_hyphen b || (a_negnum b && pa_is_negative_number next)); [exact I|].
  destruct (is_long next); [exact I|]. destruct (is_short next); exact I.
Qed.

Definition lr_st (lr : loop_res) : ps :=
  match lr with LDone st => st | LSub _ _ _ st _ => st | LExternal _ _ st => st | LHelpSub _ st => st end.

(** what the loop hands over: the recorded subcommand untouched, and an external subcommand
    only where the definition allows one *)
Definition lr_post (lr : loop_res) : Prop :=
  Ss (lr_st lr) /\ match lr with LExternal _ _ _ => is_set s_allow_external c = true | _ => True end.

Lemma parse_loop_sub : forall toks ls st,
  Ss st -> pc lr_post Ss (parse_loop c toks ls st).
Proof.
  induction toks as [|tok rest IH]; intros ls st Hs; [exact (conj Hs I)|].
  cbn [parse_loop].
  match goal with |- pc _ _ (rbind ?ph _) => set (phase1 := ph) end.
  assert (Hph : pc (fun x : option (res loop_res) * lstate * ps =>
                      let '(early, _, st1) := x in
                      match early with
                      | Some r => pc lr_post Ss r
                      | None => Ss st1 end) Ss phase1).
  { subst phase1. destruct (l_trailing ls); [exact Hs|].
    match goal with |- pc _ _ (match ?o with Some _ => _ | None => _ end) => destruct o as [sc|] end.
    { destruct (beq sc s_help && negb (is_set s_disable_help_sub c)); exact (conj Hs I). }
    destruct (is_escape tok).
    { eapply holds_bind; [apply state_arg_sub|]. intros sa _.
      destruct (match sa with Some a => a_hyphen a | None => false end); [exact Hs|].
      cbn [pc]. apply IH. unfold S_. cbn. rewrite start_trailing_sub. exact Hs. }
    destruct (to_long tok) as [[[f ok] v]|].
    { eapply holds_bind; [apply parse_long_arg_sub; exact Hs|].
      intros [[st1 pr] vaf1] H1. cbn [fst snd] in H1 |- *.
      destruct pr; cbn [pc];
        first [ exact H1 | exact I | exact (conj H1 I) | (apply IH; exact H1)
              | (eapply holds_bind; [apply resolve_pending_ignore_sub; exact H1|]; intros st2 H2; exact H2) ]. }
    destruct (to_short tok) as [r|]; [|exact Hs].
    eapply holds_bind; [apply parse_short_arg_sub; exact Hs|].
    intros [[st1 pr] vaf1] H1. cbn [fst snd] in H1.
    destruct pr; cbn [pc];
      first [ exact H1 | exact I | (apply IH; exact H1)
            | (eapply holds_bind; [apply resolve_pending_ignore_sub; exact H1|]; intros st2 H2; exact H2)
            | idtac ].
    (* PRFlagSub through a short cluster: the resume bookkeeping *)
    destruct (fs_at st1) as [at_|]; [|exact (conj H1 I)].
    eapply holds_bind; [apply holds_expect; intros; exact I|]. intros d _. exact (conj H1 I). }
  eapply holds_bind; [exact Hph|]. clear Hph phase1.
  intros [[early ls1] st1] H1. destruct early as [r|]; [exact H1|].
  match goal with
  | |- pc _ _ (match _ with PSValuesDone => ?t | PSOpt _ => _ | PSPos _ => _ end) =>
      assert (Hpos : pc lr_post Ss t)
  end.
  { cbv zeta.
    eapply holds_bind with (Q1 := fun _ : N => True).
    { match goal with |- pc _ _ (if ?b then _ else _) => destruct b end.
      - destruct rest as [|n rest']; [exact I|].
        destruct (List.find _ (positionals c)) as [a|]; [|exact I].
        eapply holds_bind; [eapply holds_weaken; [apply is_new_arg_noerr|intros; exact I|intros ? []]|].
        intros; exact I.
      - match goal with |- pc _ _ (if ?b then _ else _) => destruct b end; exact I. }
    intros pcv _. destruct (get_pos c pcv) as [a|].
    - destruct (a_last a && negb (l_trailing ls1)).
      + eapply holds_bind; [apply resolve_pending_ignore_sub; exact H1|]. intros s2 H2. exact H2.
      + eapply holds_bind with (Q1 := Ss).
        { match goal with |- pc _ _ (if ?b then _ else _) => destruct b end;
            [apply resolve_pending_sub; exact H1 | exact H1]. }
        intros s2 H2. destruct (check_terminator a tok); [apply IH; exact H2|].
        eapply holds_bind.
        { apply (holds_expect (fun m => mt_sub m = s)). intros m Hm.
          apply pending_values_push_sub in Hm. rewrite Hm. exact H2. }
        intros m1 Hm1. destruct (negb (a_is_multiple a)); apply IH; exact Hm1.
    - destruct (is_set s_allow_external c) eqn:Eext.
      + destruct (utf8_valid tok); [exact (conj H1 Eext)|].
        eapply holds_bind; [apply resolve_pending_ignore_sub; exact H1|]. intros s2 H2. exact H2.
      + eapply holds_bind; [apply resolve_pending_ignore_sub; exact H1|]. intros s2 H2. exact H2. }
  destruct (if l_trailing ls1 then PSValuesDone else l_pst ls1) as [|i|i]; [exact Hpos| |exact Hpos].
  clear Hpos.
  eapply holds_bind; [apply holds_expect; intros; exact I|]. intros a _.
  destruct (check_terminator a tok); [apply IH; exact H1|].
  eapply holds_bind.
  { apply (holds_expect (fun m => mt_sub m = s)). intros m Hm.
    apply pending_values_push_sub in Hm. rewrite Hm. exact H1. }
  intros m1 Hm1.
  eapply holds_bind; [apply holds_expect; intros; exact I|]. intros more _.
  apply IH. exact Hm1.
Qed.
End LoopSub.

(** * Part 2: the chain of validated levels *)

(** [Relations] reads the entries and the recorded subcommand of a matcher, nothing else
    (in particular not the pending buffer) *)
Lemma Relations_frame c mt mt' :
  mt_args mt = mt_args mt' -> mt_sub mt = mt_sub mt' -> Relations c mt -> Relations c mt'.
Proof.
  intros Ea Es R.
  assert (Hp : forall x, present mt x <-> present mt' x).
  { intros x. unfold present. rewrite Ea. tauto. }
  apply (RelationsP_ext c mt' (present mt)); [exact Hp|].
  destruct R as [R1 R2 R3 R4]. constructor.
  - exact R1.
  - exact R2.
  - unfold negates_reqs in *. rewrite <- Es. intros Hn x Hx. apply (R3 Hn).
    destruct Hx as [a Hin Hr | g Hin Hr | g y Hin Hr Hy | x g y Hg Hpx Hy | root m y Hg Hm HR].
    + now apply Rq_static.
    + now apply Rq_group.
    + now apply (Rq_group_requires c mt _ g).
    + now apply (Rq_present_group c mt _ x g).
    + apply (Rq_requires c mt _ root m); auto. rewrite Ea. exact Hg.
  - unfold negates_reqs in *. rewrite <- Es. intros Hn a Hin Hc. apply (R4 Hn a Hin).
    unfold cond_required, has_value in *. rewrite Ea. exact Hc.
Qed.

(** the matcher of one level, rebuilt from the reported matches *)
Definition level_matcher (m : matches) : matcher := mkMatcher (ms_args m) None (ms_sub m).

Lemma Relations_level c mt : Relations c mt -> Relations c (level_matcher (into_inner mt)).
Proof. apply Relations_frame; reflexivity. Qed.

(** the matches of an external subcommand: one entry, [Id::EXTERNAL], holding the remaining tokens *)
Definition ext_matches (m : matches) : Prop := exists vals, m = Matches [(ext_id, ext_marg vals)] None.

(** [validated_chain c m]: at every level of the subcommand chain recorded in [m] the level's
    matcher satisfies [Relations] against that level's own definition -- the child definition
    being the one the parser builds when it descends ([build_subcommand]).  The chain ends at a
    level without subcommand or at an external subcommand (which has no definition). *)
Inductive validated_chain : cmd -> matches -> Prop :=
| VC_leaf c m : ms_sub m = None -> Relations c (level_matcher m) -> validated_chain c m
| VC_sub c m sc0 sc sm :
    ms_sub m = Some (c_name sc, sm) -> Relations c (level_matcher m) ->
    In sc0 (c_subs c) -> build_subcommand c (c_name sc0) = Some sc ->
    validated_chain sc sm -> validated_chain c m
| VC_ext c m name sm :
    ms_sub m = Some (name, sm) -> Relations c (level_matcher m) ->
    is_set s_allow_external c = true -> ext_matches sm -> validated_chain c m.

(** the names along the chain and its length, to state that the chain is the reported one *)
Fixpoint chain_names (m : matches) : list bytes :=
  match m with
  | Matches _ None => []
  | Matches _ (Some (n, sm)) => n :: chain_names sm
  end.

(** no level of the tree the parser can descend into ignores errors *)
Fixpoint strict_tree (fuel : nat) (c : cmd) : Prop :=
  match fuel with
  | O => True
  | S f => is_set s_ignore_errors c = false
           /\ forall name sc, build_subcommand c name = Some sc -> strict_tree f sc
  end.

(** * Part 3: every successful [get_matches_with] returns a validated chain *)
Lemma build_subcommand_of_sub c sc0 : In sc0 (c_subs c) -> exists sc, build_subcommand c (c_name sc0) = Some sc.
Proof.
  intros Hin. unfold build_subcommand.
  destruct (List.find (fun s => beq (c_name s) (c_name sc0)) (c_subs c)) as [s|] eqn:E; [eauto|].
  exfalso. apply (List.find_none _ _ E) in Hin. rewrite beq_refl in Hin. discriminate.
Qed.

Theorem gmw_chain : forall fuel c toks st0 st,
  tree_ok fuel c -> strict_tree fuel c -> G c idx_inv trivV st0 -> mt_sub (mt st0) = None ->
  get_matches_with fuel c toks st0 = ROk st ->
  validated_chain c (into_inner (mt st)).
Proof.
  induction fuel as [|f IH]; intros c toks st0 st Hok Hstrict HG Hsub0 Hr; [destruct Hok|].
  pose proof (level_relations (S f) c toks st0 st Hok HG Hr) as Hrel.
  apply Relations_level in Hrel.
  destruct (gmw_step f c toks st0 st Hr) as [lr [Hloop Hlr]].
  (* the loop result: invariant, no short flag-subcommand resume, [mt_sub] untouched *)
  destruct (idx_inv_closed c) as [PC1 [PC2 [PC3 [PC4 [PC5 PC0]]]]].
  destruct (trivV_ok c toks) as [[V1 [V2 [V3 [V4 [V5 [V6 [V7 V8]]]]]]] HVtoks].
  pose proof Hok as [Hwf [Happ Hch]]. pose proof Hwf as [W1 [W2 [W3 [W4 W5]]]].
  assert (Hsafe : safe (lr_ok c idx_inv trivV) (G c idx_inv trivV)
                       (parse_loop c toks (mkL PSValuesDone 1 false false) st0)).
  { eapply parse_loop_safe; try eassumption; try exact I. }
  rewrite Hloop in Hsafe. cbn [safe] in Hsafe.
  pose proof (parse_loop_sub c None toks (mkL PSValuesDone 1 false false) st0 Hsub0) as Hfr.
  rewrite Hloop in Hfr. cbn [pc] in Hfr. destruct Hfr as [Hfr Hext].
  destruct Hstrict as [Hign Hstrict].
  destruct lr as [st1|name keep vaf st1 rest|name vals st1|names st1].
  - (* no subcommand *)
    apply VC_leaf; [|exact Hrel]. cbn [into_inner ms_sub]. rewrite Hlr. exact Hfr.
  - destruct Hsafe as [HG1 [-> [sc0' Hfind']]].
    destruct Hlr as [sc0 [Hfind Hb]].
    assert (Hin0 : In sc0 (c_subs c)).
    { unfold find_subcommand in Hfind. apply List.find_some in Hfind. apply Hfind. }
    destruct (build_subcommand_of_sub c sc0 Hin0) as [sc Hbs]. rewrite Hbs in Hb.
    destruct Hb as [sub_st [Hcall Hsub]].
    destruct Hcall as [Hcall|[e [_ Hie]]]; [|rewrite Hie in Hign; discriminate].
    apply (VC_sub c _ sc0 sc (into_inner (mt sub_st))); [exact Hsub|exact Hrel|exact Hin0|exact Hbs|].
    pose proof (Hch _ _ Hbs) as Hoksc.
    apply (IH sc rest ps_new sub_st Hoksc (Hstrict _ _ Hbs)); [|reflexivity|exact Hcall].
    destruct (idx_inv_closed sc) as [_ [_ [_ [_ [_ H0]]]]]. apply G_ps_new. exact H0.
  - apply (VC_ext c _ name (Matches [(ext_id, ext_marg vals)] None)); [exact Hlr|exact Hrel|exact Hext|].
    exists vals. reflexivity.
  - destruct Hlr.
Qed.

(** * Part 4: the class [no_ignore] *)

(** [no_ignore x]: no node of the definition sets [ignore_errors] (locally or as a global setting) *)
Fixpoint no_ignore (x : cmd) : bool :=
  match x with
  | mkCmd _ _ _ _ _ _ _ _ subs set gset _ _ _ _ _ _ _ =>
      negb (s_ignore_errors set) && negb (s_ignore_errors gset)
      && (fix go (l : list cmd) : bool :=
            match l with
            | [] => true
            | s :: t => no_ignore s && go t
            end) subs
  end.

Lemma no_ignore_spec x : no_ignore x = true <->
  s_ignore_errors (c_set x) = false /\ s_ignore_errors (c_gset x) = false
  /\ forall s, In s (c_subs x) -> no_ignore s = true.
Proof.
  destruct x as [n al sf lf sfa lfa args groups subs set gset v lv ext bn dn ab lab].
  cbn [no_ignore c_set c_gset c_subs].
  set (go := fix go (l : list cmd) : bool :=
            match l with
            | [] => true
            | s :: t => no_ignore s && go t
            end).
  assert (Hgo : forall l, go l = true <-> forall s, In s l -> no_ignore s = true).
  { induction l as [|s t IH]; cbn [go]; [split; [intros _ s []|reflexivity]|].
    rewrite Bool.andb_true_iff, IH. split.
    - intros [H1 H2] s' [<-|Hin]; [exact H1|apply H2; exact Hin].
    - intros H. split; [apply H; now left|]. intros s' Hs'. apply H. now right. }
  rewrite !Bool.andb_true_iff, !Bool.negb_true_iff, Hgo. tauto.
Qed.

Lemma no_ignore_frame s s' : c_set s = c_set s' -> c_gset s = c_gset s' -> c_subs s = c_subs s' ->
  no_ignore s = no_ignore s'.
Proof. destruct s, s'; cbn. intros -> -> ->. reflexivity. Qed.

(** the children of a built command: a propagated child of the definition, or the generated
    [help] subcommand; what [no_ignore] reads of them *)
Lemma subs_build_self_ignore x : s_built (c_set x) = false ->
  forall s, In s (c_subs (build_self x)) ->
  (exists s0, In s0 (c_subs x) /\ c_subs s = c_subs s0
              /\ s_ignore_errors (c_set s) = s_ignore_errors (c_set s0) || s_ignore_errors (c_gset x)
              /\ s_ignore_errors (c_gset s) = s_ignore_errors (c_gset s0) || s_ignore_errors (c_gset x))
  \/ (c_subs s = [] /\ s_ignore_errors (c_set s) = s_ignore_errors (c_gset x)
      /\ s_ignore_errors (c_gset s) = s_ignore_errors (c_gset x)).
Proof.
  intros Hb s. unfold build_self. rewrite Hb.
  rewrite c_subs_bs_mark, c_subs_bs_deprecated, c_subs_bs_args.
  set (x1 := bs_settings x).
  assert (Hx1 : c_subs x1 = c_subs x /\ c_gset x1 = c_gset x).
  { subst x1. unfold bs_settings.
    repeat match goal with |- context [if ?b then _ else _] => destruct b end; split; reflexivity. }
  destruct Hx1 as [Hs1 Hg1].
  set (x2 := bs_propagate x1). set (x3 := bs_help_version x2).
  unfold bs_globals. cbn [c_subs]. intros Hin.
  change (c_subs (x3 <| c_subs := ?l |>)) with l in Hin.
  apply in_map_iff in Hin. destruct Hin as [s3 [Hs Hin3]].
  assert (H3 : (exists s0, In s0 (c_subs x) /\ s3 = propagate_subcommand x1 s0)
               \/ exists yy, c_gset yy = c_gset x /\ s3 = fix_help_unset (help_subcommand yy)).
  { subst x3. unfold bs_help_version in Hin3.
    set (y1 := if negb (is_set s_disable_help_flag x2) then x2 <| c_args := c_args x2 ++ [help_arg] |> else x2) in *.
    set (y2 := if negb (is_disable_version_flag_set y1) then y1 <| c_args := c_args y1 ++ [version_arg] |> else y1) in *.
    assert (Hy2 : c_subs y2 = map (propagate_subcommand x1) (c_subs x1) /\ c_gset y2 = c_gset x).
    { subst y2 y1 x2. unfold bs_propagate.
      repeat match goal with |- context [if ?b then _ else _] => destruct b end; split; try reflexivity; exact Hg1. }
    destruct Hy2 as [Hy2 Hgy2].
    destruct (negb (is_set s_disable_help_sub y2)).
    - cbn [c_subs] in Hin3. change (c_subs (y2 <| c_subs := ?l |>)) with l in Hin3.
      rewrite Hy2 in Hin3. apply in_app_or in Hin3. destruct Hin3 as [Hin3|[Hin3|[]]].
      + apply in_map_iff in Hin3. destruct Hin3 as [s0 [<- Hin0]]. left. exists s0. rewrite <- Hs1. auto.
      + right. exists y2. split; [exact Hgy2|]. rewrite <- Hin3. reflexivity.
    - rewrite Hy2 in Hin3. apply in_map_iff in Hin3. destruct Hin3 as [s0 [<- Hin0]]. left. exists s0. rewrite <- Hs1. auto. }
  assert (Hfr : c_subs s = c_subs s3 /\ c_set s = c_set s3 /\ c_gset s = c_gset s3).
  { rewrite <- Hs. destruct (beq (c_name s3) s_help && negb (is_set s_disable_help_sub x3)); [repeat split|].
    destruct (add_globals_frame (filter a_global (c_args x3)) s3) as [H1 [H2 [H3' _]]].
    unfold add_globals in *. repeat split; assumption. }
  destruct Hfr as [Hf1 [Hf4 Hf5]].
  destruct H3 as [[s0 [Hin0 Heq]]|[yy [Hgy Heq]]]; subst s3.
  - left. exists s0. split; [exact Hin0|]. rewrite Hf1, Hf4, Hf5.
    unfold propagate_subcommand.
    destruct (s_propagate_version (c_set x1));
      repeat match goal with |- context [match ?o with Some _ => _ | None => _ end] => destruct o end;
      cbn; rewrite ?Hg1; repeat split; reflexivity.
  - right. rewrite Hf1, Hf4, Hf5.
    unfold fix_help_unset, help_subcommand, propagate_subcommand.
    destruct (s_propagate_version (c_set yy));
      repeat match goal with |- context [match ?o with Some _ => _ | None => _ end] => destruct o end;
      cbn; rewrite ?Hgy; repeat split; reflexivity.
Qed.

Lemma no_ignore_child x s : plain x = true -> no_ignore x = true ->
  In s (c_subs (build_self x)) -> no_ignore s = true.
Proof.
  intros Hp Hn Hin. apply plain_spec in Hp. destruct Hp as [Hb _].
  apply no_ignore_spec in Hn. destruct Hn as [N1 [N2 N3]].
  apply no_ignore_spec.
  destruct (subs_build_self_ignore x Hb s Hin) as [[s0 [Hin0 [Es [E1 E2]]]]|[Es [E1 E2]]].
  - pose proof (N3 s0 Hin0) as Hn0. apply no_ignore_spec in Hn0. destruct Hn0 as [B1 [B2 B3]].
    rewrite E1, E2, B1, B2, N2, Es. split; [reflexivity|split; [reflexivity|exact B3]].
  - rewrite E1, E2, N2, Es. split; [reflexivity|split; [reflexivity|intros s2 []]].
Qed.

Definition ig (y : cmd) : bool * bool := (s_ignore_errors (c_set y), s_ignore_errors (c_gset y)).
Lemma ig_mark y : ig (bs_mark y) = ig y. Proof. reflexivity. Qed.
Lemma ig_deprecated y : ig (bs_deprecated y) = ig y. Proof. reflexivity. Qed.
Lemma ig_args y : ig (bs_args y) = ig y. Proof. reflexivity. Qed.
Lemma ig_globals y : ig (bs_globals y) = ig y. Proof. reflexivity. Qed.
Lemma ig_propagate y : ig (bs_propagate y) = ig y. Proof. reflexivity. Qed.
Lemma ig_help_version y : ig (bs_help_version y) = ig y.
Proof.
  unfold bs_help_version.
  destruct (negb (is_set s_disable_help_flag y));
    match goal with |- context [if negb (is_disable_version_flag_set ?z) then _ else _] =>
      destruct (negb (is_disable_version_flag_set z)) end;
    match goal with |- context [if negb (is_set s_disable_help_sub ?z) then _ else _] =>
      destruct (negb (is_set s_disable_help_sub z)) end; reflexivity.
Qed.
Lemma ig_settings y : ig (bs_settings y) =
  (s_ignore_errors (c_set y) || s_ignore_errors (c_gset y), s_ignore_errors (c_gset y)).
Proof.
  unfold bs_settings.
  match goal with |- context [if is_set s_args_negate_subs ?z then _ else _] =>
    destruct (is_set s_args_negate_subs z) end;
  match goal with |- context [if is_some (c_ext_vp ?z) then _ else _] =>
    destruct (is_some (c_ext_vp z)) end;
  match goal with |- context [if negb (has_subcommands ?z) then _ else _] =>
    destruct (negb (has_subcommands z)) end; reflexivity.
Qed.

Lemma build_self_ignore x : s_built (c_set x) = false ->
  is_set s_ignore_errors (build_self x) = s_ignore_errors (c_set x) || s_ignore_errors (c_gset x).
Proof.
  intros Hb.
  assert (H : ig (build_self x) =
              (s_ignore_errors (c_set x) || s_ignore_errors (c_gset x), s_ignore_errors (c_gset x))).
  { unfold build_self. rewrite Hb.
    rewrite ig_mark, ig_deprecated, ig_args, ig_globals, ig_help_version, ig_propagate, ig_settings. reflexivity. }
  unfold ig in H. injection H as H1 H2. unfold is_set. rewrite H1, H2.
  destruct (s_ignore_errors (c_set x)), (s_ignore_errors (c_gset x)); reflexivity.
Qed.

Lemma strict_tree_of : forall f x, plain x = true -> no_ignore x = true -> strict_tree f (build_self x).
Proof.
  induction f as [|f IH]; intros x Hp Hn; [exact I|].
  pose proof Hp as Hp'. apply plain_spec in Hp'. destruct Hp' as [Hb _].
  pose proof Hn as Hn'. apply no_ignore_spec in Hn'. destruct Hn' as [N1 [N2 _]].
  cbn [strict_tree]. split.
  - rewrite (build_self_ignore x Hb), N1, N2. reflexivity.
  - intros name sc Hbs. unfold build_subcommand in Hbs.
    destruct (List.find (fun s => beq (c_name s) name) (c_subs (build_self x))) as [s0|] eqn:Ef; [|discriminate].
    apply List.find_some in Ef. destruct Ef as [Hin0 _].
    inversion Hbs; subst sc. clear Hbs.
    match goal with |- strict_tree f (build_self ?y) =>
      assert (Hpy : plain y = true /\ no_ignore y = true) end.
    { split.
      - match goal with |- plain ?y = true => rewrite (plain_frame y s0) end;
          [apply (plain_child x s0 Hp Hin0)| | |];
          repeat match goal with |- context [match ?d with Some _ => _ | None => _ end] => destruct d end; reflexivity.
      - match goal with |- no_ignore ?y = true => rewrite (no_ignore_frame y s0) end;
          [apply (no_ignore_child x s0 Hp Hn Hin0)| | |];
          repeat match goal with |- context [match ?d with Some _ => _ | None => _ end] => destruct d end; reflexivity. }
    apply IH; apply Hpy.
Qed.

(** * The theorem for the whole parse *)
Theorem parse_sound_tree c0 toks m :
  plain c0 = true -> no_ignore c0 = true -> valid c0 = true ->
  do_parse c0 toks = OOk m ->
  exists st, run_level c0 toks = ROk st /\ m = reported c0 st
             /\ validated_chain (build_self c0) (into_inner (mt st))
             /\ Globals.chain m = Globals.chain (into_inner (mt st)).
Proof.
  intros Hp Hn Hv Hd.
  assert (Hi : is_set s_ignore_errors (build_self c0) = false).
  { pose proof Hp as Hp'. apply plain_spec in Hp'. destruct Hp' as [Hb _].
    apply no_ignore_spec in Hn. destruct Hn as [N1 [N2 _]].
    rewrite (build_self_ignore c0 Hb), N1, N2. reflexivity. }
  destruct (do_parse_sound c0 toks m Hd Hi) as [st [Hr [Hm _]]].
  exists st. split; [exact Hr|]. split; [exact Hm|]. split.
  - unfold run_level in Hr. cbv zeta in Hr. unfold valid in Hv. cbv zeta in Hv.
    apply (gmw_chain (S (S (depth (build_self c0)))) (build_self c0) toks ps_new st); [apply tree_ok_of_valid; assumption| apply strict_tree_of; assumption | | reflexivity | exact Hr].
    apply G_ps_new. destruct (idx_inv_closed (build_self c0)) as [_ [_ [_ [_ [_ H0]]]]]. exact H0.
  - rewrite Hm. unfold reported. cbv zeta.
    apply (proj1 (Globals.merge_chain _ _ (into_inner (mt st)) (Nat.le_succ_diag_r _))).
Qed.

(** non-vacuity: a two-level definition with relations at both levels, an argv that reaches
    the child level and one that ends in an external subcommand *)
Definition t_sub : cmd :=
  cmd_new [115]
    <| c_args := [wflag i_a [97;97] <| a_requires := [(PIsPresent, i_b)] |>; wflag i_b [98;98];
                  wflag i_c [99;99] <| a_blacklist := [i_b] |>] |>.
Definition t_cmd : cmd :=
  cmd_new [112]
    <| c_args := [wflag i_x [120;120]; wflag i_c [99;99] <| a_r_unless := [i_x] |>] |>
    <| c_subs := [t_sub] |>
    <| c_set := settings_none <| s_allow_external := true |> |>.
Definition t_toks : list bytes := [dd [120;120]; [115]; dd [97;97]; dd [98;98]].

Example parse_sound_tree_nonvacuous :
  plain t_cmd = true /\ no_ignore t_cmd = true /\ valid t_cmd = true
  /\ (exists m, do_parse t_cmd t_toks = OOk m /\ Globals.chain m = [[115]])
  /\ (exists m, do_parse t_cmd [dd [120;120]; [122]; [121]] = OOk m /\ Globals.chain m = [[122]])
  /\ (exists e, do_parse t_cmd [dd [120;120]; [115]; dd [97;97]] = OErr e /\ e_kind e = EMissingRequiredArgument).
Proof.
  split; [vm_compute; reflexivity|]. split; [vm_compute; reflexivity|]. split; [vm_compute; reflexivity|].
  split; [eexists; split; vm_compute; reflexivity|].
  split; [eexists; split; vm_compute; reflexivity|].
  eexists; split; vm_compute; reflexivity.
Qed.

(** [try_get_matches_from]: the same for [parse_top] (the program name taken from argv[0] is
    stored in the definition before it is built; as in C01's [parse_top_total] the validity gate
    is assumed under every program name) *)
Lemma no_ignore_bin c0 b : no_ignore (c0 <| c_bin_name := b |>) = no_ignore c0.
Proof. destruct c0; reflexivity. Qed.

Theorem parse_top_sound_tree c0 argv m :
  plain c0 = true -> no_ignore c0 = true ->
  (forall b, valid (c0 <| c_bin_name := b |>) = true) -> valid c0 = true ->
  parse_top c0 argv = OOk m ->
  exists c1 toks st,
    (c1 = c0 \/ exists b, c1 = c0 <| c_bin_name := Some b |>)
    /\ run_level c1 toks = ROk st /\ m = reported c1 st
    /\ validated_chain (build_self c1) (into_inner (mt st))
    /\ Globals.chain m = Globals.chain (into_inner (mt st)).
Proof.
  intros Hp Hn Hvb Hv. unfold parse_top.
  assert (Hsame : forall toks, do_parse c0 toks = OOk m ->
            exists c1 toks st, (c1 = c0 \/ exists b, c1 = c0 <| c_bin_name := Some b |>)
              /\ run_level c1 toks = ROk st /\ m = reported c1 st
              /\ validated_chain (build_self c1) (into_inner (mt st))
              /\ Globals.chain m = Globals.chain (into_inner (mt st))).
  { intros toks Hd. destruct (parse_sound_tree c0 toks m Hp Hn Hv Hd) as [st H].
    exists c0, toks, st. split; [left; reflexivity|exact H]. }
  destruct (is_set s_no_binary_name c0); [apply Hsame|].
  destruct argv as [|bin rest]; [apply Hsame|].
  destruct (c_bin_name c0); [apply Hsame|].
  destruct (utf8_valid bin && negb (is_nil bin)); [|apply Hsame].
  intros Hd.
  destruct (parse_sound_tree (c0 <| c_bin_name := Some bin |>) rest m) as [st H];
    [rewrite plain_bin; exact Hp|rewrite no_ignore_bin; exact Hn|apply Hvb|exact Hd|].
  exists (c0 <| c_bin_name := Some bin |>), rest, st. split; [right; exists bin; reflexivity|exact H].
Qed.
