(** The builder facts of the parser model against the tables the translator regenerates from the source on every run
    ([Gen/ActionTables.v], written by translators/builder_tables.py from clap_builder/src/builder/{action,range,arg}.rs).

    The parser model's data about [ArgAction], [ValueRange] and [Arg::_build] is hand-written ([Parse/Cmd.v],
    [Parse/Build.v]).  Here every such fact is compared with the table row read off the source:
    - [model_range_consts] / [model_range_preds]: the constants EMPTY / SINGLE / FULL and the predicates of [ValueRange];
    - [model_action_table]: per variant of [ArgAction]: default_num_args, takes_values, default_value,
      default_missing_value, default_value_parser;
    - [arg_build_table]: [Build.arg_build] IS the function [tbl_arg_build] that interprets the table (for every [arg]);
    - [model_action_gate]: max_num_args / value_type_id as used by the configuration gate [assert_arg] (equal to the
      source for every action since the repair of Parse/Cmd.v; the comparison had found the model stricter for
      SetTrue/SetFalse).
    An edit of the source that changes one of these facts changes the generated file and breaks the lemma named here. *)
From Coq Require Import List NArith String Ascii Bool Lia.
From ClapModel Require Import Base.Bytes Base.Machine Parse.Cmd Parse.Build Parse.Valid Gen.ActionTables.
From RecordUpdate Require Import RecordSet.
Import RecordSetNotations.
Import ListNotations.
Open Scope N_scope.

(** ---- reading the table ---- *)
Definition bytes_of_string (s : string) : bytes := map N_of_ascii (list_ascii_of_string s).
Definition obind {A B} (o : option A) (f : A -> option B) : option B := match o with Some a => f a | None => None end.
(** [opt_lift f o]: translate the content of an optional table cell; [None] = the cell holds a name [f] does not know *)
Definition opt_lift {A B} (f : A -> option B) (o : option A) : option (option B) :=
  match o with None => Some None | Some a => match f a with Some b => Some (Some b) | None => None end end.

Definition bound_val (b : gbound) : N := match b with GLit n => n | GUsizeMax => usize_max end.
Definition range_named (n : string) : option vrange :=
  match find (fun r => String.eqb (fst (fst (fst r))) n) gen_range_consts with
  | Some (_, lo, hi, _) => Some {| vmin := bound_val lo; vmax := bound_val hi |}
  | None => None end.

Definition term_val (r : vrange) (cur : N) (t : gterm) : N :=
  match t with GStart => vmin r | GEnd => vmax r | GCurrent => cur | GNum n => n | GMax => usize_max end.
Fixpoint bexpr_val (r : vrange) (cur : N) (e : gbexpr) : bool :=
  match e with
  | GEq a b => term_val r cur a =? term_val r cur b
  | GNe a b => negb (term_val r cur a =? term_val r cur b)
  | GLt a b => term_val r cur a <? term_val r cur b
  | GOr a b => bexpr_val r cur a || bexpr_val r cur b
  end.
Definition range_pred (n : string) : option gbexpr :=
  option_map snd (find (fun p => String.eqb (fst p) n) gen_range_preds).
(** the source's predicate [n] of [ValueRange], evaluated on [r] (and [current]) *)
Definition src_range_pred (n : string) (r : vrange) (cur : N) : option bool :=
  option_map (bexpr_val r cur) (range_pred n).

Definition action_variants : list action := [ASet; AAppend; ASetTrue; ASetFalse; ACount; AHelp; AHelpShort; AHelpLong; AVersion].
Definition action_sname (a : action) : string :=
  match a with
  | ASet => "Set" | AAppend => "Append" | ASetTrue => "SetTrue" | ASetFalse => "SetFalse" | ACount => "Count"
  | AHelp => "Help" | AHelpShort => "HelpShort" | AHelpLong => "HelpLong" | AVersion => "Version" end.
Definition action_named (s : string) : option action := find (fun a => String.eqb (action_sname a) s) action_variants.
Definition row_of (act : action) : option gaction_row :=
  find (fun r => String.eqb (ga_name r) (action_sname act)) gen_action_rows.
(** the names the translator uses for value parsers: [ValueParser::bool()], [value_parser!(u8)], [ValueParser::string()] *)
Definition vp_named (s : string) : option vparser :=
  if String.eqb s "bool" then Some VPBool else if String.eqb s "u8" then Some VPCount
  else if String.eqb s "string" then Some VPString else None.
(** [AnyValueId::of::<T>()] for the [T] a parser named [s] produces *)
Definition type_named (s : string) : option N := option_map vp_type (vp_named s).

Lemma action_variants_complete : forall act, In act action_variants.
Proof. intros []; cbn; tauto. Qed.

(** ---- range.rs ---- *)
Definition model_range_names : list (string * vrange) := [("EMPTY", r_empty); ("SINGLE", r_single); ("FULL", r_full)].

(** the model's three constants are the source's, [ValueRange::default()] is [r_single] (what [a_multiple_values] substitutes
    for a missing [num_args]), [1.into()] is [r_single] as well (what [a_takes_value] substitutes), and the only other
    constant of the source exists under cfg(debug_assertions) only *)
Theorem model_range_consts :
  (forall n r, In (n, r) model_range_names -> range_named n = Some r)
  /\ range_named gen_range_default = Some r_single
  /\ {| vmin := gen_takes_value_default_fixed; vmax := gen_takes_value_default_fixed |} = r_single
  /\ (forall n lo hi dbg, In (n, lo, hi, dbg) gen_range_consts -> dbg = false -> In n (map fst model_range_names)).
Proof.
  split; [|split; [|split]].
  - intros n r [H|[H|[H|[]]]]; inversion H; subst; reflexivity.
  - reflexivity.
  - reflexivity.
  - intros n lo hi dbg H Hd. cbn in H.
    repeat (destruct H as [H|H]; [inversion H; subst; cbn; try tauto; discriminate|]). destruct H.
Qed.

(** names of the predicates (kept as constants so that statements elsewhere need no string notation) *)
Definition pn_takes_values : string := "takes_values".
Definition pn_is_unbounded : string := "is_unbounded".
Definition pn_is_fixed : string := "is_fixed".
Definition pn_is_multiple : string := "is_multiple".
Definition pn_accepts_more : string := "accepts_more".
Definition model_range_pred_names : list string := [pn_takes_values; pn_is_unbounded; pn_is_fixed; pn_is_multiple; pn_accepts_more].

Definition pred_is (n : string) (f : vrange -> N -> bool) : Prop :=
  forall r cur, src_range_pred n r cur = Some (f r cur).

(** every predicate of [ValueRange] the model uses is the source's expression, for every range (and every [current]) *)
Theorem model_range_preds :
  pred_is pn_takes_values (fun r _ => r_takes_values r)
  /\ pred_is pn_is_unbounded (fun r _ => r_is_unbounded r)
  /\ pred_is pn_is_fixed (fun r _ => r_is_fixed r)
  /\ pred_is pn_is_multiple (fun r _ => r_is_multiple r)
  /\ pred_is pn_accepts_more r_accepts_more
  /\ (forall r, obind (src_range_pred (fst gen_range_num_values) r 0)
                  (fun b => Some (if b then Some (term_val r 0 (snd gen_range_num_values)) else None))
                = Some (r_num_values r))
  /\ map fst gen_range_preds = model_range_pred_names.
Proof.
  split; [intros r cur; reflexivity|]. split; [intros r cur; reflexivity|]. split; [intros r cur; reflexivity|].
  split; [intros r cur; reflexivity|]. split; [intros r cur; reflexivity|]. split; [|reflexivity].
  intros r. cbn. unfold r_num_values, r_is_fixed. destruct (vmin r =? vmax r); reflexivity.
Qed.

(** ---- action.rs ---- *)
(** one row of the source's table says about [act] exactly what the model's functions say *)
Definition row_ok (act : action) (row : gaction_row) : Prop :=
  ga_name row = action_sname act
  /\ range_named (ga_default_num_args row) = Some (action_default_num_args act)
  /\ ga_takes_values row = r_takes_values (action_default_num_args act)
  /\ option_map bytes_of_string (ga_default_value row) = action_default_value act
  /\ option_map bytes_of_string (ga_default_missing_value row) = action_default_missing_value act
  /\ opt_lift vp_named (ga_default_value_parser row) = Some (action_default_vp act).

(** rows and variants correspond one to one, in declaration order *)
Theorem model_action_table : Forall2 row_ok action_variants gen_action_rows.
Proof. repeat constructor. Qed.

Lemma Forall2_find_row : forall acts rows, Forall2 row_ok acts rows ->
  NoDup (map action_sname acts) ->
  forall act, In act acts ->
  exists row, find (fun r => String.eqb (ga_name r) (action_sname act)) rows = Some row /\ row_ok act row.
Proof.
  induction 1 as [|a r acts rows Hr HF IH]; intros Hnd act Hin; [destruct Hin|].
  cbn [map] in Hnd. inversion Hnd as [|? ? Hni Hnd']; subst.
  cbn [find]. destruct Hin as [->|Hin].
  - destruct Hr as [Hn Hrest]. rewrite Hn, String.eqb_refl. exists r. split; [reflexivity|split; assumption].
  - destruct (String.eqb (ga_name r) (action_sname act)) eqn:E.
    + apply String.eqb_eq in E. destruct Hr as [Hn _]. exfalso. apply Hni. rewrite <- Hn, E. apply in_map. exact Hin.
    + apply IH; assumption.
Qed.

(** the same, per action: the row found under the action's name agrees with the model *)
Theorem model_action_row : forall act, exists row, row_of act = Some row /\ row_ok act row.
Proof.
  intros act. apply (Forall2_find_row action_variants gen_action_rows model_action_table).
  - repeat constructor; cbn; intuition discriminate.
  - apply action_variants_complete.
Qed.

(** ---- the configuration gate: max_num_args / value_type_id ([assert_arg], debug_asserts.rs) ---- *)
Definition flag_action (act : action) : bool := match act with ASetTrue | ASetFalse => true | _ => false end.

(** what the source says, read through the table *)
Definition src_max_num_args (act : action) : option vrange := obind (row_of act) (fun row => range_named (ga_max_num_args row)).
Definition src_value_type (act : action) : option (option N) := obind (row_of act) (fun row => opt_lift type_named (ga_value_type_id row)).

(** The model's gate data are the source's, for every action (after the repair of [Parse/Cmd.v]: SetTrue/SetFalse allow
    [num_args(0..=1)] -- ValueRange::OPTIONAL -- and any value parser, as action.rs says; before the repair the model had
    [r_empty] and a bool-typed parser there and rejected `--flag=false` configurations clap accepts). *)
Theorem model_action_gate : forall act,
  src_max_num_args act = Some (action_max_num_args act) /\ src_value_type act = Some (action_value_type act).
Proof. intros []; split; reflexivity. Qed.

(** the only actions whose occurrences can carry a value: Set / Append, and SetTrue / SetFalse (`--flag=value`) *)
Theorem model_action_takes_value_arg : forall act,
  vmax (action_max_num_args act) <> 0 <-> (act = ASet \/ act = AAppend \/ act = ASetTrue \/ act = ASetFalse).
Proof.
  intros act. split.
  - destruct act; cbn; intros H; try (exfalso; apply H; reflexivity); tauto.
  - intros [ -> | [ -> | [ -> | -> ] ] ]; cbn; discriminate.
Qed.

(** consequence for the gate: whatever the model's [assert_arg] accepts passes the source's two assertions
    (`max_values() <= action.max_num_args().max_values()`, `action.value_type_id() == value_parser.type_id()`) *)
Theorem model_gate_implies_source : forall a, assert_arg a = true ->
  exists r ty, src_max_num_args (a_get_action a) = Some r /\ src_value_type (a_get_action a) = Some ty
    /\ vmax (opt_default r_single (a_num a)) <= vmax r
    /\ (forall t, ty = Some t -> exists vp, a_vp a = Some vp /\ vp_type vp = t).
Proof.
  intros a H. unfold assert_arg in H. repeat (apply andb_true_iff in H as [H ?]).
  match goal with Hm : (vmax _ <=? vmax (action_max_num_args _)) = true |- _ => apply N.leb_le in Hm; rename Hm into Hmax end.
  match goal with Ht : match action_value_type _ with _ => _ end = true |- _ => rename Ht into Hty end.
  destruct (model_action_gate (a_get_action a)) as [Hr Ht].
  exists (action_max_num_args (a_get_action a)), (action_value_type (a_get_action a)).
  split; [exact Hr|split; [exact Ht|split; [exact Hmax|]]].
  intros t Et. rewrite Et in Hty.
  destruct (a_vp a) as [vp|]; [|discriminate Hty]. exists vp. split; [reflexivity|]. apply N.eqb_eq in Hty. symmetry. exact Hty.
Qed.

(** ---- arg.rs: Arg::_build interpreted from the table ---- *)
Definition tbl_get_action (a : arg) : option action :=
  match a_action a with Some x => Some x | None => action_named gen_get_action_default end.

Definition tbl_ab_action (a : arg) : option arg :=
  match a_action a with
  | Some _ => Some a
  | None =>
      obind (range_named gen_build_flag_range) (fun flag_r =>
      obind (action_named gen_build_flag_action) (fun flag_a =>
      obind (action_named gen_build_unbounded_positional_action) (fun pos_a =>
      obind (action_named gen_build_other_action) (fun other_a =>
      obind (range_named gen_range_default) (fun dflt =>
        Some (a <| a_action := Some
                (if match a_num a with Some r => r_eqb r flag_r | None => false end then flag_a
                 else if a_is_positional a && r_is_unbounded (opt_default dflt (a_num a)) then pos_a
                 else other_a) |>))))))
  end.
Definition tbl_ab_default (a : arg) : option arg :=
  obind (tbl_get_action a) (fun act => obind (row_of act) (fun row =>
    Some (match ga_default_value row with
          | Some d => if is_nil (a_default a) then a <| a_default := [bytes_of_string d] |> else a
          | None => a end))).
Definition tbl_ab_dmissing (a : arg) : option arg :=
  obind (tbl_get_action a) (fun act => obind (row_of act) (fun row =>
    Some (match ga_default_missing_value row with
          | Some d => if is_nil (a_default_missing a) then a <| a_default_missing := [bytes_of_string d] |> else a
          | None => a end))).
Definition tbl_ab_vp (a : arg) : option arg :=
  match a_vp a with
  | Some _ => Some a
  | None =>
      obind (tbl_get_action a) (fun act => obind (row_of act) (fun row =>
      obind (vp_named gen_build_fallback_parser) (fun fb =>
      obind (opt_lift vp_named (ga_default_value_parser row)) (fun dv =>
        Some (a <| a_vp := Some (opt_default fb dv) |>)))))
  end.
Definition tbl_ab_num (a : arg) : option arg :=
  match a_num a with
  | Some _ => Some a
  | None =>
      if gen_build_val_names_more_than <? a_nvalnames a
      then Some (a <| a_num := Some {| vmin := a_nvalnames a; vmax := a_nvalnames a |} |>)
      else obind (tbl_get_action a) (fun act => obind (row_of act) (fun row =>
           obind (range_named (ga_default_num_args row)) (fun r => Some (a <| a_num := Some r |>))))
  end.
Definition tbl_arg_build (a : arg) : option arg :=
  obind (tbl_ab_action a) (fun a => obind (tbl_ab_default a) (fun a => obind (tbl_ab_dmissing a) (fun a =>
  obind (tbl_ab_vp a) tbl_ab_num))).

Lemma tbl_get_action_eq : forall a, tbl_get_action a = Some (a_get_action a).
Proof. intros a. unfold tbl_get_action, a_get_action. destruct (a_action a); reflexivity. Qed.

Lemma tbl_ab_action_eq : forall a, tbl_ab_action a = Some (ab_action a).
Proof.
  intros a. unfold tbl_ab_action, ab_action. destruct (a_action a) as [x|]; [reflexivity|].
  assert (Hfr : range_named gen_build_flag_range = Some r_empty) by reflexivity.
  assert (Hd : range_named gen_range_default = Some r_single) by reflexivity.
  assert (H1 : action_named gen_build_flag_action = Some ASetTrue) by reflexivity.
  assert (H2 : action_named gen_build_unbounded_positional_action = Some AAppend) by reflexivity.
  assert (H3 : action_named gen_build_other_action = Some ASet) by reflexivity.
  rewrite Hfr, H1, H2, H3, Hd. cbn [obind opt_default].
  destruct (a_num a) as [r|]; [reflexivity|].
  replace (r_is_unbounded r_single) with false by reflexivity. rewrite andb_false_r. reflexivity.
Qed.
Lemma tbl_ab_default_eq : forall a, tbl_ab_default a = Some (ab_default a).
Proof.
  intros a. unfold tbl_ab_default, ab_default. rewrite tbl_get_action_eq. cbn [obind].
  destruct (a_get_action a); reflexivity.
Qed.
Lemma tbl_ab_dmissing_eq : forall a, tbl_ab_dmissing a = Some (ab_dmissing a).
Proof.
  intros a. unfold tbl_ab_dmissing, ab_dmissing. rewrite tbl_get_action_eq. cbn [obind].
  destruct (a_get_action a); reflexivity.
Qed.
Lemma tbl_ab_vp_eq : forall a, tbl_ab_vp a = Some (ab_vp a).
Proof.
  intros a. unfold tbl_ab_vp, ab_vp. destruct (a_vp a) as [v|]; [reflexivity|].
  rewrite tbl_get_action_eq. cbn [obind]. destruct (a_get_action a); reflexivity.
Qed.
Lemma tbl_ab_num_eq : forall a, tbl_ab_num a = Some (ab_num a).
Proof.
  intros a. unfold tbl_ab_num, ab_num. destruct (a_num a) as [r|]; [reflexivity|].
  change gen_build_val_names_more_than with 1. destruct (1 <? a_nvalnames a); [reflexivity|].
  rewrite tbl_get_action_eq. cbn [obind]. destruct (a_get_action a); reflexivity.
Qed.

(** [Arg::_build] of the model is the function the regenerated table defines, for EVERY argument *)
Theorem arg_build_table : forall a, tbl_arg_build a = Some (arg_build a).
Proof.
  intros a. unfold tbl_arg_build, arg_build.
  rewrite tbl_ab_action_eq. cbn [obind]. rewrite tbl_ab_default_eq. cbn [obind].
  rewrite tbl_ab_dmissing_eq. cbn [obind]. rewrite tbl_ab_vp_eq. cbn [obind]. apply tbl_ab_num_eq.
Qed.

(** what the parser reads after the build: an argument without explicit [num_args] and at most one value name takes
    values exactly when the source's [takes_values()] of its action says so *)
Theorem built_takes_value_table : forall a row,
  a_num a = None -> a_nvalnames a <= 1 -> row_of (a_get_action (ab_action a)) = Some row ->
  a_takes_value (arg_build a) = ga_takes_values row.
Proof.
  intros a row Hn Hv Hrow.
  destruct (model_action_row (a_get_action (ab_action a))) as (row' & Hrow' & Hok).
  rewrite Hrow in Hrow'. inversion Hrow'; subst row'. destruct Hok as (_ & _ & Htv & _). rewrite Htv.
  assert (Hnum : forall b, a_num b = None -> a_nvalnames b <= 1 ->
                   a_num (ab_num b) = Some (action_default_num_args (a_get_action b))).
  { intros b Hb Hb1. unfold ab_num. rewrite Hb. destruct (1 <? a_nvalnames b) eqn:E; [apply N.ltb_lt in E; lia|reflexivity]. }
  assert (Hpres : forall b, a_num (ab_vp (ab_dmissing (ab_default b))) = a_num b
                  /\ a_nvalnames (ab_vp (ab_dmissing (ab_default b))) = a_nvalnames b
                  /\ a_get_action (ab_vp (ab_dmissing (ab_default b))) = a_get_action b).
  { intros b. unfold ab_vp, ab_dmissing, ab_default, a_get_action.
    destruct (action_default_value _); destruct (action_default_missing_value _);
      repeat match goal with |- context [if ?x then _ else _] => destruct x end;
      repeat match goal with |- context [match a_vp ?x with _ => _ end] => destruct (a_vp x) end; cbn; auto. }
  assert (Hact : a_num (ab_action a) = a_num a /\ a_nvalnames (ab_action a) = a_nvalnames a).
  { unfold ab_action. destruct (a_action a); cbn; auto. }
  destruct Hact as [Ha1 Ha2]. destruct (Hpres (ab_action a)) as (Hp1 & Hp2 & Hp3).
  unfold arg_build, a_takes_value. rewrite Hnum; [|rewrite Hp1, Ha1; exact Hn|rewrite Hp2, Ha2; exact Hv].
  cbn [opt_default]. rewrite Hp3. reflexivity.
Qed.

(** ---- non-vacuity ---- *)
Module TablesActionsExamples.
  (* `Arg::new("v").short('v').action(Count)` as written, before the build *)
  Definition ex_count : arg := (arg_new [118]) <| a_short := Some 118 |> <| a_action := Some ACount |>.
  (* `Arg::new("files").num_args(1..)`: positional, no action *)
  Definition ex_files : arg := (arg_new [102]) <| a_num := Some {| vmin := 1; vmax := usize_max |} |>.
  (* `Arg::new("q").long("q").num_args(0)`: a flag by num_args *)
  Definition ex_flag : arg := (arg_new [113]) <| a_long := Some [113] |> <| a_num := Some r_empty |>.

  Example build_count : tbl_arg_build ex_count = Some (arg_build ex_count)
    /\ a_default (arg_build ex_count) = [[48]] /\ a_vp (arg_build ex_count) = Some VPCount
    /\ a_num (arg_build ex_count) = Some r_empty.
  Proof. vm_compute. repeat split. Qed.
  Example build_files : option_map a_action (tbl_arg_build ex_files) = Some (Some AAppend).
  Proof. vm_compute. reflexivity. Qed.
  Example build_flag : option_map a_action (tbl_arg_build ex_flag) = Some (Some ASetTrue)
    /\ option_map a_default (tbl_arg_build ex_flag) = Some [s_false].
  Proof. vm_compute. split; reflexivity. Qed.
  (* hypotheses of [built_takes_value_table] hold for the Count flag; its row says "takes no values" *)
  Example takes_value_count : exists row, a_num ex_count = None /\ a_nvalnames ex_count <= 1
    /\ row_of (a_get_action (ab_action ex_count)) = Some row /\ ga_takes_values row = false.
  Proof. eexists. split; [reflexivity|split; [cbn; lia|split; reflexivity]]. Qed.
  (* hypotheses of [model_gate_implies_source]: the built Count flag passes the model's gate *)
  Example gate_count : assert_arg (arg_build ex_count) = true.
  Proof. vm_compute. reflexivity. Qed.
  (* the configuration on which model and source gates differed before the repair: SetTrue with num_args(0..=1) *)
  Definition ex_opt_flag : arg :=
    (arg_new [113]) <| a_long := Some [113] |> <| a_action := Some ASetTrue |> <| a_num := Some {| vmin := 0; vmax := 1 |} |>.
  Example gate_accepts_optional_flag : assert_arg (arg_build ex_opt_flag) = true
    /\ src_max_num_args ASetTrue = Some {| vmin := 0; vmax := 1 |}.
  Proof. split; [vm_compute; reflexivity|reflexivity]. Qed.
End TablesActionsExamples.
