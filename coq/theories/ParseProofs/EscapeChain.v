(** Property C05, round 2: the class [chainc] -- single-valued positionals followed by a multi-valued
    one (`prog <src> <dst> [rest]...`): after the escape each single-valued positional from the
    counter on takes one token of the tail, the multi-valued one all the rest ([chain_run]); the loop
    cannot run out of positionals ([chain_done]); entries no positional can touch are those of the
    state at the escape ([chain_base]). *)
From ClapModel Require Import Base.Bytes Base.Machine Base.Utf8 Lex.OsStrExtModel.
From ClapModel Require Import Parse.Cmd Parse.Build Parse.Valid Parse.Matcher Parse.Errors Parse.Validator Parse.Parser.
From ClapModel Require Import ParseProofs.Safe ParseProofs.Invariant ParseProofs.Totality ParseProofs.TotalityMain
  ParseProofs.Sources ParseProofs.Spelling ParseProofs.Dispatch
  ParseProofs.Escape ParseProofs.EscapeWalk ParseProofs.EscapeStore ParseProofs.EscapeSub ParseProofs.EscapeLevel.
From Coq Require Import ZArith Lia List Bool.
From RecordUpdate Require Import RecordSet.
Import RecordSetNotations.
Import ListNotations.
Open Scope N_scope.

Section Chain.
Variable c : cmd.
Hypothesis Hl : lvl c.
Hypothesis Hst : lvl_store c.
Let W3 := proj1 Hl.
Let WP := proj1 (proj2 Hl).

(** the class: single-valued positionals followed by a multi-valued one; no terminators, no [last],
    no [allow_missing_positional], indices [1 .. positional_count] all declared, positionals not in an
    overrides relation with each other *)
Definition chainc : bool :=
  negb (is_set s_allow_missing_pos c) && negb (existsb a_last (c_args c)) && negb (low_index_mults_any c)
  && ranged c
  && forallb (fun a => if is_some (a_index a)
                       then negb (is_some (a_term a)) && (a_multiple_values a || negb (a_is_multiple a))
                       else true) (c_args c)
  && forallb (fun a => forallb (fun b =>
        if is_some (a_index a) && is_some (a_index b) && negb (beq (a_id a) (a_id b))
        then negb (touched c a (a_id b)) else true) (c_args c)) (c_args c)
  && forallb (fun j => is_some (get_pos c (N.of_nat j))) (seq 1 (N.to_nat (positional_count c))).

Hypothesis Hc : chainc = true.

Lemma chain_facts :
  (forall pc vaf rest, pos_correct c pc vaf rest = ROk pc)
  /\ ranged c = true
  /\ (forall j a, get_pos c j = Some a -> a_term a = None /\ (a_multiple_values a = true \/ a_is_multiple a = false))
  /\ (forall j a k b, get_pos c j = Some a -> get_pos c k = Some b -> a_id a <> a_id b -> touched c a (a_id b) = false)
  /\ (forall j, in_range c j -> exists a, get_pos c j = Some a).
Proof.
  unfold chainc in Hc.
  apply andb_prop in Hc. destruct Hc as [H H7]. apply andb_prop in H. destruct H as [H H6].
  apply andb_prop in H. destruct H as [H H5]. apply andb_prop in H. destruct H as [H H4].
  apply andb_prop in H. destruct H as [H H3]. apply andb_prop in H. destruct H as [H1 H2].
  apply negb_true_iff in H1, H2, H3.
  split; [|split; [exact H4|split; [|split]]].
  - intros pc vaf rest. rewrite (pos_correct_sink c pc vaf rest H3). unfold sink_index. rewrite H1, H2. reflexivity.
  - intros j a Hg. destruct (get_pos_in _ _ _ Hg) as [Hin Hidx]. rewrite forallb_forall in H5. specialize (H5 a Hin).
    destruct (a_index a); [|contradiction]. cbn in H5. apply andb_prop in H5. destruct H5 as [Ha Hb].
    split; [destruct (a_term a); [discriminate|reflexivity]|].
    apply orb_prop in Hb. destruct Hb as [Hb|Hb]; [left; exact Hb|right; apply negb_true_iff; exact Hb].
  - intros j a k b Ha Hb Hne. destruct (get_pos_in _ _ _ Ha) as [Hina Hia]. destruct (get_pos_in _ _ _ Hb) as [Hinb Hib].
    rewrite forallb_forall in H6. specialize (H6 a Hina). rewrite forallb_forall in H6. specialize (H6 b Hinb).
    destruct (a_index a); [|contradiction]. destruct (a_index b); [|contradiction]. cbn [is_some andb] in H6.
    destruct (beq (a_id a) (a_id b)) eqn:Eb; [apply beq_eq in Eb; contradiction|]. cbn in H6.
    apply negb_true_iff. exact H6.
  - intros j [Hj1 Hj2]. rewrite forallb_forall in H7.
    assert (Hin : In (N.to_nat j) (seq 1 (N.to_nat (positional_count c)))) by (apply in_seq; lia).
    specialize (H7 _ Hin). rewrite N2Nat.id in H7. destruct (get_pos c j) as [a|]; [eauto|discriminate].
Qed.

Let C1 := proj1 chain_facts.
Let C2 := proj1 (proj2 chain_facts).
Let C3 := proj1 (proj2 (proj2 chain_facts)).
Let C4 := proj1 (proj2 (proj2 (proj2 chain_facts))).
Let C5 := proj2 (proj2 (proj2 (proj2 chain_facts))).

Definition next_ls (ls : lstate) (a : arg) : lstate :=
  if negb (a_is_multiple a) then mkL PSValuesDone (l_pos ls + 1) true true
  else mkL (PSPos (a_id a)) (l_pos ls) true true.

Lemma next_ls_facts ls a : l_trailing (next_ls ls a) = true /\ l_pos ls <= l_pos (next_ls ls a).
Proof. unfold next_ls. destruct (negb (a_is_multiple a)); cbn; split; try reflexivity; lia. Qed.

(** one iteration of a successful trailing-mode loop in the class *)
Lemma chain_step tok rest ls st s1 :
  l_trailing ls = true -> parse_loop c (tok :: rest) ls st = ROk (LDone s1) ->
  exists a st1 m1, get_pos c (l_pos ls) = Some a /\ flush_for c a st = ROk st1 /\
    pending_values_push (mt st1) (a_id a) (Some IIndex) true (Some tok) = Some m1 /\
    parse_loop c rest (next_ls ls a) (st1 <| mt := m1 |>) = ROk (LDone s1).
Proof.
  intros Htr. rewrite (parse_loop_trailing_step c tok rest ls st Htr). unfold pos_body. rewrite C1. cbn [rbind].
  destruct (get_pos c (l_pos ls)) as [a|] eqn:Eg.
  - fold (flush_for c a st). destruct (flush_for c a st) as [st1|? ?|?] eqn:Ef; cbn [rbind]; try discriminate.
    assert (Ect : check_terminator a tok = false) by (unfold check_terminator; rewrite (proj1 (C3 _ _ Eg)); reflexivity).
    rewrite Ect.
    destruct (pending_values_push (mt st1) (a_id a) (Some IIndex) true (Some tok)) as [m1|] eqn:Ep; cbn [expect rbind]; [|discriminate].
    intros E. exists a, st1, m1. split; [reflexivity|]. split; [exact Ef|]. split; [exact Ep|].
    revert E. unfold next_ls. destruct (negb (a_is_multiple a)); intros E; exact E.
  - unfold overflow. destruct (is_set s_allow_external c); [destruct (utf8_valid tok); [discriminate|]|];
      unfold resolve_pending_ignore; destruct (resolve_pending c st); cbn [rbind]; discriminate.
Qed.

Definition pend_untouched (st : ps) (y : id) : Prop :=
  forall p a, mt_pending (mt st) = Some p -> find_arg c (p_id p) = Some a -> touched c a y = false.

Lemma resolve_keep st st1 y : resolve_pending c st = ROk st1 -> pend_untouched st y -> get_entry y st1 = get_entry y st.
Proof.
  intros E Hu. destruct (mt_pending (mt st)) as [p|] eqn:Ep.
  - destruct (find_arg c (p_id p)) as [a|] eqn:Ef.
    + exact (resolve_pending_frame c st st1 p a y Ep Ef (Hu p a Ep Ef) E).
    + unfold resolve_pending in E. rewrite Ep, Ef in E. discriminate.
  - unfold resolve_pending in E. rewrite Ep in E. injection E as <-. reflexivity.
Qed.

Lemma pushed_untouched st1 a tok m1 y :
  In a (c_args c) -> pending_values_push (mt st1) (a_id a) (Some IIndex) true (Some tok) = Some m1 ->
  touched c a y = false -> pend_untouched (st1 <| mt := m1 |>) y.
Proof.
  intros Hin Ep Ht p a' Hp Hf. destruct (push_spec _ _ _ _ _ Ep) as (p0 & Hpend & Hid & _).
  change (mt (st1 <| mt := m1 |>)) with m1 in Hp. rewrite Hpend in Hp. injection Hp as <-.
  apply beq_eq in Hid. rewrite Hid, (W3 a Hin) in Hf. injection Hf as <-. exact Ht.
Qed.

Lemma pushed_entries st1 i idn tok m1 y :
  pending_values_push (mt st1) i idn true (Some tok) = Some m1 -> get_entry y (st1 <| mt := m1 |>) = get_entry y st1.
Proof.
  intros Ep. destruct (push_spec _ _ _ _ _ Ep) as (p0 & _ & _ & _ & _ & Hargs & _).
  unfold get_entry. change (mt (st1 <| mt := m1 |>)) with m1. rewrite Hargs. reflexivity.
Qed.

(** an entry that no positional from the counter on (nor the pending occurrence) can touch survives
    the rest of the loop and the final [resolve_pending] *)
Lemma chain_persist : forall t ls st s1 s2 y,
  l_trailing ls = true ->
  parse_loop c t ls st = ROk (LDone s1) -> resolve_pending c s1 = ROk s2 ->
  (forall j a', l_pos ls <= j -> get_pos c j = Some a' -> touched c a' y = false) ->
  pend_untouched st y ->
  get_entry y s2 = get_entry y st.
Proof.
  induction t as [|tok rest IH]; intros ls st s1 s2 y Htr E Er Hu Hp.
  - cbn [parse_loop] in E. injection E as <-. apply resolve_keep; assumption.
  - destruct (chain_step _ _ _ _ _ Htr E) as (a & st1 & m1 & Eg & Ef & Ep & E').
    destruct (get_pos_in _ _ _ Eg) as [Hin _].
    assert (H1 : get_entry y st1 = get_entry y st).
    { unfold flush_for in Ef. destruct (_ || _); [apply resolve_keep; assumption|injection Ef as <-; reflexivity]. }
    destruct (next_ls_facts ls a) as [Htr' Hle].
    rewrite <- H1, <- (pushed_entries st1 _ _ tok m1 y Ep).
    apply (IH (next_ls ls a) (st1 <| mt := m1 |>) s1 s2 y Htr' E' Er).
    + intros j a' Hj. apply Hu. lia.
    + apply (pushed_untouched st1 a tok m1 y Hin Ep). apply (Hu (l_pos ls) a (N.le_refl _) Eg).
Qed.

(** the entry that closing the pending occurrence of [y] creates is the entry of [y] at the end, when [y] is
    none of the positionals from the counter on and none of them can touch it *)
Lemma chain_pending_entry t ls st s1 s2 p y :
  l_trailing ls = true -> mt_pending (mt st) = Some p -> p_id p = y ->
  parse_loop c t ls st = ROk (LDone s1) -> resolve_pending c s1 = ROk s2 ->
  (forall j a', l_pos ls <= j -> get_pos c j = Some a' -> a_id a' <> y /\ touched c a' y = false) ->
  exists st1, resolve_pending c st = ROk st1 /\ get_entry y s2 = get_entry y st1.
Proof.
  intros Htr Hp Hid E Er Hu. destruct t as [|tok rest].
  - cbn [parse_loop] in E. injection E as <-. exists s2. split; [exact Er|reflexivity].
  - destruct (chain_step _ _ _ _ _ Htr E) as (a & st1 & m1 & Eg & Ef & Ep & E').
    destruct (get_pos_in _ _ _ Eg) as [Hin _].
    destruct (Hu (l_pos ls) a (N.le_refl _) Eg) as [Hne Hta].
    assert (Er1 : resolve_pending c st = ROk st1).
    { unfold flush_for, pending_arg_id in Ef. rewrite Hp in Ef. cbn [opt_map] in Ef. rewrite Hid in Ef.
      destruct (beq y (a_id a)) eqn:Eb; [apply beq_eq in Eb; exfalso; apply Hne; symmetry; exact Eb|].
      cbn [negb orb] in Ef. exact Ef. }
    exists st1. split; [exact Er1|].
    destruct (next_ls_facts ls a) as [Htr' Hle].
    rewrite <- (pushed_entries st1 _ _ tok m1 y Ep).
    apply (chain_persist rest (next_ls ls a) (st1 <| mt := m1 |>) s1 s2 y Htr' E' Er).
    + intros j a' Hj Hg'. apply (Hu j a'); [lia|exact Hg'].
    + apply (pushed_untouched st1 a tok m1 y Hin Ep Hta).
Qed.

(** how the tail is distributed: every single-valued positional from the counter on takes one token,
    the first multi-valued one all the rest; [get] looks up the final entries *)
Inductive chain_filled (get : id -> option marg) : N -> list bytes -> Prop :=
| CF_sink : forall pc a t e gs early t', get_pos c pc = Some a -> a_multiple_values a = true -> t <> [] ->
    get (a_id a) = Some e -> m_raw e = gs ++ [early ++ t'] -> tail_form c a t = Some t' -> chain_filled get pc t
| CF_last : forall pc a tok e gs t', get_pos c pc = Some a -> a_is_multiple a = false ->
    get (a_id a) = Some e -> m_raw e = gs ++ [t'] -> tail_form c a [tok] = Some t' -> chain_filled get pc [tok]
| CF_single : forall pc a tok t e gs t', get_pos c pc = Some a -> a_is_multiple a = false -> t <> [] ->
    get (a_id a) = Some e -> m_raw e = gs ++ [t'] -> tail_form c a [tok] = Some t' ->
    chain_filled get (pc + 1) t -> chain_filled get pc (tok :: t).

Lemma chain_filled_def get pc t :
  chain_filled get pc t <->
  ((exists a e gs early t', get_pos c pc = Some a /\ a_multiple_values a = true /\ t <> [] /\
      get (a_id a) = Some e /\ m_raw e = gs ++ [early ++ t'] /\ tail_form c a t = Some t')
   \/ (exists a tok e gs t', t = [tok] /\ get_pos c pc = Some a /\ a_is_multiple a = false /\
         get (a_id a) = Some e /\ m_raw e = gs ++ [t'] /\ tail_form c a [tok] = Some t')
   \/ (exists a tok rest e gs t', t = tok :: rest /\ rest <> [] /\ get_pos c pc = Some a /\ a_is_multiple a = false /\
         get (a_id a) = Some e /\ m_raw e = gs ++ [t'] /\ tail_form c a [tok] = Some t' /\
         chain_filled get (pc + 1) rest)).
Proof.
  split.
  - intros [pc0 a t0 e gs early t' H1 H2 H3 H4 H5 H6|pc0 a tok e gs t' H1 H2 H3 H4 H5|pc0 a tok t0 e gs t' H1 H2 H3 H4 H5 H6 H7].
    + left. exists a, e, gs, early, t'. repeat split; assumption.
    + right. left. exists a, tok, e, gs, t'. repeat split; assumption.
    + right. right. exists a, tok, t0, e, gs, t'. repeat split; assumption.
  - intros [(a & e & gs & early & t' & H1 & H2 & H3 & H4 & H5 & H6)
           |[(a & tok & e & gs & t' & -> & H1 & H2 & H3 & H4 & H5)
            |(a & tok & rest & e & gs & t' & -> & H0 & H1 & H2 & H3 & H4 & H5 & H6)]].
    + eapply CF_sink; eassumption.
    + eapply CF_last; eassumption.
    + eapply CF_single; eassumption.
Qed.

Lemma chain_filled_mono (g1 g2 : id -> option marg) :
  (forall a e, In a (c_args c) -> a_index a <> None -> g1 (a_id a) = Some e -> g2 (a_id a) = Some e) ->
  forall pc t, chain_filled g1 pc t -> chain_filled g2 pc t.
Proof.
  intros H pc t Hc1. induction Hc1 as [pc a t e gs early t' Hg Hm Ht He Hr Hf|pc a tok e gs t' Hg Hm He Hr Hf|pc a tok t e gs t' Hg Hm Ht He Hr Hf _ IH].
  - eapply CF_sink; try eassumption. apply H; [exact (proj1 (get_pos_in _ _ _ Hg))|exact (proj2 (get_pos_in _ _ _ Hg))|exact He].
  - eapply CF_last; try eassumption. apply H; [exact (proj1 (get_pos_in _ _ _ Hg))|exact (proj2 (get_pos_in _ _ _ Hg))|exact He].
  - eapply CF_single; try eassumption. apply H; [exact (proj1 (get_pos_in _ _ _ Hg))|exact (proj2 (get_pos_in _ _ _ Hg))|exact He].
Qed.

Lemma delimit_nil a ti : delimit c a [] ti = Some [].
Proof. unfold delimit. destruct (a_delim a); [|reflexivity]. destruct (_ && _); reflexivity. Qed.

Lemma chain_run : forall t ls st s1 s2, t <> [] -> l_trailing ls = true -> TV c st ->
  parse_loop c t ls st = ROk (LDone s1) -> resolve_pending c s1 = ROk s2 ->
  chain_filled (fun y => get_entry y s2) (l_pos ls) t.
Proof.
  induction t as [|tok rest IH]; intros ls st s1 s2 Hne Htr HTV E Er; [contradiction|].
  destruct (chain_step _ _ _ _ _ Htr E) as (a & st1 & m1 & Eg & Ef & Ep & E').
  destruct (get_pos_in _ _ _ Eg) as [Hin Hidx].
  destruct (C3 _ _ Eg) as [Hterm [Hmv|Hm]].
  - (* the multi-valued positional: it takes everything that follows *)
    assert (Hs : sink_arg c (l_pos ls) = Some a).
    { pose proof (C1 (l_pos ls) false []) as Hpc. unfold sink_arg.
      destruct (low_index_mults_any c) eqn:El.
      - exfalso. clear -Hc El. unfold chainc in Hc. rewrite El in Hc. cbn in Hc.
        rewrite !andb_false_r in Hc. cbn in Hc. discriminate.
      - rewrite (pos_correct_sink c _ false [] El) in Hpc. injection Hpc as ->. rewrite Eg, Hmv, Hterm. reflexivity. }
    destruct (trailing_sink_store c Hl Hst [] (tok :: rest) ls st s1 s2 a Htr Hs HTV Hne E Er)
      as (st0 & e & gs & early' & t' & _ & G1 & G2 & _ & G4 & _).
    eapply CF_sink; eassumption.
  - (* a single-valued positional: one token *)
    assert (Hmv : a_multiple_values a = false).
    { unfold a_is_multiple in Hm. apply orb_false_elim in Hm. exact (proj1 Hm). }
    assert (Er1 : resolve_pending c st = ROk st1).
    { unfold flush_for in Ef. rewrite Hmv in Ef. cbn [negb] in Ef. rewrite orb_true_r in Ef. exact Ef. }
    pose proof (Spelling.resolve_pending_clears c st st1 Er1) as Hnone.
    destruct (push_spec _ _ _ _ _ Ep) as (p & Hpend & Hid & Hraw & Hti & _).
    unfold pend_raw, pend_ti in Hraw, Hti. rewrite Hnone in Hraw, Hti. cbn [app] in Hraw.
    apply beq_eq in Hid.
    unfold next_ls in E'. rewrite Hm in E'. cbn [negb] in E'.
    set (st2 := st1 <| mt := m1 |>) in *.
    set (ls2 := mkL PSValuesDone (l_pos ls + 1) true true) in *.
    assert (HTV2 : TV c st2).
    { apply (push_TV c st1 _ _ _ _ m1 Ep); [apply TV_none; exact Hnone|].
      apply (takes_id_arg c W3 a Hin). apply WP; assumption. }
    destruct (chain_pending_entry rest ls2 st2 s1 s2 p (a_id a) eq_refl Hpend Hid E' Er) as (st3 & Er3 & Heq).
    { intros j a' Hj Hg'. cbn [l_pos ls2] in Hj.
      assert (Hne' : a_id a' <> a_id a).
      { intros Hid'. destruct (get_pos_in _ _ _ Hg') as [Hin' _].
        pose proof (W3 a' Hin') as F1. rewrite Hid', (W3 a Hin) in F1. injection F1 as ->.
        pose proof (get_pos_index c _ _ Hg') as I1. rewrite (get_pos_index c _ _ Eg) in I1. injection I1 as I1. lia. }
      split; [exact Hne'|]. exact (C4 _ _ _ _ Hg' Eg Hne'). }
    assert (Hf : find_arg c (p_id p) = Some a) by (rewrite Hid; apply W3; exact Hin).
    destruct (sink_resolve c st2 p a [] [tok] 0 st3 (proj2 Hst a Hin) (proj1 Hst a Hin (WP a Hin Hidx))
                Hpend Hf Hraw ltac:(discriminate) Hti ltac:(cbn; lia) Er3)
      as (e & gs & early' & t' & G1 & G2 & _ & G4 & G5 & _).
    rewrite delimit_nil in G4. injection G4 as <-. cbn [app] in G2.
    destruct rest as [|tok2 rest'].
    + eapply CF_last; [exact Eg|exact Hm| |exact G2|exact G5]. cbv beta. rewrite Heq. exact G1.
    + eapply CF_single; [exact Eg|exact Hm|discriminate| |exact G2|exact G5|].
      * cbv beta. rewrite Heq. exact G1.
      * apply (IH ls2 st2 s1 s2 ltac:(discriminate) eq_refl HTV2 E' Er).
Qed.

(** in the class the trailing-mode loop cannot run out of positionals *)
Lemma chain_done : forall toks ls st lr, l_trailing ls = true -> in_range c (l_pos ls) ->
  parse_loop c toks ls st = ROk lr -> exists s, lr = LDone s.
Proof.
  induction toks as [|tok rest IH]; intros ls st lr Htr Hr.
  - cbn [parse_loop]. intros E. injection E as <-. eexists; reflexivity.
  - rewrite (parse_loop_trailing_step c tok rest ls st Htr). unfold pos_body. rewrite C1. cbn [rbind].
    destruct (C5 _ Hr) as [a Eg]. rewrite Eg.
    destruct (_ : res ps) as [st1|? ?|?]; cbn [rbind]; try discriminate.
    assert (Ect : check_terminator a tok = false) by (unfold check_terminator; rewrite (proj1 (C3 _ _ Eg)); reflexivity).
    rewrite Ect.
    destruct (pending_values_push (mt st1) (a_id a) (Some IIndex) true (Some tok)) as [m1|]; cbn [expect rbind]; [|discriminate].
    destruct (ranged_pos c _ _ C2 Eg) as [R1 R2].
    destruct (negb (a_is_multiple a)) eqn:Em.
    + apply IH; [reflexivity|]. cbn [l_pos]. apply R2. left. apply negb_true_iff. exact Em.
    + apply IH; [reflexivity|exact R1].
Qed.

(** the trailing-mode loop keeps the recorded subcommand *)
Lemma chain_sub : forall t ls st s1, l_trailing ls = true ->
  parse_loop c t ls st = ROk (LDone s1) -> mt_sub (mt s1) = mt_sub (mt st).
Proof.
  induction t as [|tok rest IH]; intros ls st s1 Htr E.
  - cbn [parse_loop] in E. injection E as <-. reflexivity.
  - destruct (chain_step _ _ _ _ _ Htr E) as (a & st1 & m1 & Eg & Ef & Ep & E').
    rewrite (IH _ _ _ (proj1 (next_ls_facts ls a)) E').
    change (mt (st1 <| mt := m1 |>)) with m1. rewrite (push_sub _ _ _ _ _ _ Ep). exact (flush_sub c _ _ _ Ef).
Qed.

(** the common base state of two runs with different tails: every entry that no positional from
    the counter on can touch is, after the loop and [resolve_pending], the entry of [flush_for a st] *)
Lemma chain_base l ls st s1 s2 a :
  l_trailing ls = true -> get_pos c (l_pos ls) = Some a ->
  parse_loop c l ls st = ROk (LDone s1) -> resolve_pending c s1 = ROk s2 ->
  exists st0, flush_for c a st = ROk st0 /\ mt_pending (mt s2) = None /\
    forall y, (forall j a', l_pos ls <= j -> get_pos c j = Some a' -> touched c a' y = false) ->
              get_entry y s2 = get_entry y st0.
Proof.
  intros Htr Eg E Er. pose proof (Spelling.resolve_pending_clears c s1 s2 Er) as Hnone.
  destruct (get_pos_in _ _ _ Eg) as [Hin _].
  destruct l as [|tok rest].
  - cbn [parse_loop] in E. injection E as <-. unfold flush_for.
    destruct (negb (match pending_arg_id (mt st) with Some i => beq i (a_id a) | None => false end)
              || negb (a_multiple_values a)) eqn:Eb.
    + exists s2. split; [exact Er|]. split; [exact Hnone|reflexivity].
    + exists st. split; [reflexivity|]. split; [exact Hnone|]. intros y Hy.
      apply orb_false_elim in Eb. destruct Eb as [Eb _]. apply negb_false_iff in Eb.
      unfold pending_arg_id in Eb. destruct (mt_pending (mt st)) as [p|] eqn:Ep; cbn [opt_map] in Eb; [|discriminate].
      apply beq_eq in Eb.
      apply (resolve_pending_frame c st s2 p a y Ep); [rewrite Eb; apply W3; exact Hin| |exact Er].
      apply (Hy (l_pos ls) a (N.le_refl _) Eg).
  - destruct (chain_step _ _ _ _ _ Htr E) as (a' & st1 & m1 & Eg' & Ef & Ep & E').
    rewrite Eg in Eg'. injection Eg' as <-.
    exists st1. split; [exact Ef|]. split; [exact Hnone|]. intros y Hy.
    rewrite <- (pushed_entries st1 _ _ tok m1 y Ep).
    destruct (next_ls_facts ls a) as [Htr' Hle].
    apply (chain_persist rest (next_ls ls a) (st1 <| mt := m1 |>) s1 s2 y Htr' E' Er).
    + intros j a' Hj. apply Hy. lia.
    + apply (pushed_untouched st1 a tok m1 y Hin Ep). apply (Hy (l_pos ls) a (N.le_refl _) Eg).
Qed.

Lemma in_range_1 : in_range c 1.
Proof.
  pose proof C2 as H. unfold ranged in H. apply andb_prop in H. destruct H as [_ H].
  destruct (get_pos c (positional_count c)) as [a|] eqn:Eg; [|discriminate].
  destruct (ranged_pos c _ _ C2 Eg) as [[R1 R2] _]. unfold in_range. lia.
Qed.
End Chain.
