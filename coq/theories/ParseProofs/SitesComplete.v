(** C01: the converse direction of the site table (ParseProofs/Sites.v).

    [model_sites_listed]: for EVERY command definition (valid or not) and every token list, if the model's
    [do_parse] ends in [OPanicked s] then [s] is one of the numbers of the table ([modelled_sites]) or one of
    [callee_sites].  So the model has no panic site that the table does not know: the numbers in the
    [Modelled] rows are not mere labels, they are all the [RPanic]/[VPanic] results the model can produce.

    The proof is a purely structural traversal of the model (no invariant, no hypothesis on the command):
    [okp Q r] = "if [r] is a panic its number is listed; if it is a value, [Q] holds of it". *)
From ClapModel Require Import Base.Bytes Base.Machine Base.Utf8.
From ClapModel Require Import Parse.Cmd Parse.Build Parse.Valid Parse.Matcher Parse.Errors Parse.Validator Parse.Parser.
From ClapModel Require Import ParseProofs.Sites.
From ClapModel Require ParseProofs.VpKinds.
From Coq Require Import ZArith.
From RecordUpdate Require Import RecordSet.
Import RecordSetNotations.
Open Scope N_scope.

Definition ALL : list N := Eval vm_compute in 0 :: modelled_sites ++ callee_sites.
Definition listed (s : N) : Prop := mem_n s ALL = true.

(** the kinds of the errors the parse path constructs: every kind but [Io] and [Format] (those arise from
    [From<io::Error>] / [From<fmt::Error>] only, i.e. when printing, never while parsing) *)
Definition parser_kind (k : ekind) : bool := match k with EIo | EFormat => false | _ => true end.
Definition EK (e : error) : Prop := parser_kind (e_kind e) = true.

Definition okp {A} (Q : A -> Prop) (r : res A) : Prop :=
  match r with ROk a => Q a | RErr e _ => EK e | RPanic s => listed s end.
Notation T := (fun _ => True).
Ltac okleaf := first [exact I | reflexivity | assumption].

Lemma vp_parse_kind vp v k : vp_parse vp v = Some k -> parser_kind k = true.
Proof. apply (ClapModel.ParseProofs.VpKinds.vp_parse_kind_ind (fun k => parser_kind k = true)); reflexivity. Qed.

Lemma okp_bind {A B} (Q : A -> Prop) (Q' : B -> Prop) r f :
  okp Q r -> (forall a, Q a -> okp Q' (f a)) -> okp Q' (rbind r f).
Proof. destruct r as [a|e s|s]; cbn; auto. Qed.
Lemma okp_bindT {A B} (Q' : B -> Prop) (r : res A) f :
  okp T r -> (forall a, okp Q' (f a)) -> okp Q' (rbind r f).
Proof. intros H K. eapply okp_bind; [exact H|]. intros a _. apply K. Qed.

Create HintDb okp.

(** one structural step; [auto with okp] closes calls of functions already treated *)
Ltac okstep :=
  lazymatch goal with
  | |- okp _ (ROk _) => cbn [okp fst snd]; try okleaf
  | |- okp _ (RErr _ _) => first [reflexivity | assumption | solve [cbn [okp]; unfold EK, mkerr; cbn [e_kind]; eauto using vp_parse_kind] | solve [cbn [okp]; auto with okp]]
  | |- okp _ (RPanic _) => reflexivity
  | |- okp _ (expect _ ?o) => destruct o; cbn [expect]
  | |- okp _ (rbind _ _) => first [solve [auto with okp] | eapply okp_bindT; [|intros ?]]
  | |- okp _ (if ?b then _ else _) => destruct b
  | |- okp _ (let _ := _ in _) => cbn zeta
  | |- okp _ (match ?x with _ => _ end) => first [solve [auto with okp] | destruct x eqn:?]
  | |- okp _ _ => solve [auto with okp]
  end.
Ltac oksteps := repeat okstep.

Section Level.
Variable c : cmd.

Lemma okp_verify_num_args a raw st : okp T (verify_num_args c a raw st).
Proof. unfold verify_num_args. oksteps. Qed.
Hint Resolve okp_verify_num_args : okp.

Lemma okp_start_custom_arg a s m : okp T (start_custom_arg c a s m).
Proof.
  unfold start_custom_arg. destruct (src_explicit s); [|okleaf].
  generalize (start_custom_arg_m match s with SCmdLine => remove_overrides c a m | _ => m end a s).
  generalize (groups_for_arg c (a_id a)).
  assert (H : forall l (r : res matcher), okp T r ->
            okp T (fold_left (fun rm g => do m0 <- rm; let m' := start_custom_group_m m0 g s in
                                           expect 1533 (add_val_to m' g (a_id a))) l r)).
  { induction l as [|g l IH]; intros r Hr; cbn [fold_left]; [exact Hr|].
    apply IH. eapply okp_bindT; [exact Hr|]. intros m0. oksteps. }
  intros l m2. apply H. okleaf.
Qed.
Hint Resolve okp_start_custom_arg : okp.

Lemma okp_push_arg_values a : forall raw st, okp T (push_arg_values c a raw st).
Proof.
  induction raw as [|v t IH]; intros st; cbn [push_arg_values]; [okleaf|].
  oksteps.
Qed.
Hint Resolve okp_push_arg_values : okp.

Lemma okp_react_core idn s a raw ti st : okp T (react_core c idn s a raw ti st).
Proof.
  unfold react_core.
  eapply okp_bindT; [destruct (is_cmdline s); [apply okp_verify_num_args|okleaf]|]. intros _.
  match goal with |- okp _ (let '(r, t) := ?x in _) => destruct x as [raw' ti'] end.
  eapply okp_bindT; [oksteps|]. intros raw2.
  cbn zeta.
  destruct (a_get_action a); oksteps.
Qed.
Hint Resolve okp_react_core : okp.

Lemma okp_resolve_pending st : okp T (resolve_pending c st).
Proof. unfold resolve_pending. oksteps. Qed.
Hint Resolve okp_resolve_pending : okp.

Lemma okp_react idn s a raw ti st : okp T (react c idn s a raw ti st).
Proof. unfold react. oksteps. Qed.
Hint Resolve okp_react : okp.

Lemma okp_resolve_pending_ignore st : okp T (resolve_pending_ignore c st).
Proof.
  unfold resolve_pending_ignore. pose proof (okp_resolve_pending st) as H.
  destruct (resolve_pending c st); cbn in *; auto.
Qed.
Hint Resolve okp_resolve_pending_ignore : okp.

Lemma okp_parse_opt_value idn att a has_eq st : okp T (parse_opt_value c idn att a has_eq st).
Proof. unfold parse_opt_value. oksteps. Qed.
Hint Resolve okp_parse_opt_value : okp.

Lemma okp_state_arg pst : okp T (state_arg c pst).
Proof. unfold state_arg. oksteps. Qed.
Hint Resolve okp_state_arg : okp.

Lemma okp_parse_long_arg f ok v pst pc vaf st : okp T (parse_long_arg c f ok v pst pc vaf st).
Proof. unfold parse_long_arg. oksteps. Qed.
Hint Resolve okp_parse_long_arg : okp.

Lemma okp_short_loop : forall fuel r ret vaf st, okp T (short_loop c fuel r ret vaf st).
Proof.
  induction fuel as [|f IH]; intros r ret vaf st; cbn [short_loop]; [reflexivity|].
  destruct (sf_next r) as [[[ch|rest] r']|]; [|okleaf|okleaf].
  destruct (get_short c ch) as [a|].
  - destruct (negb (a_takes_value a)).
    + eapply okp_bindT; [apply okp_react|]. intros x. apply IH.
    + match goal with |- okp _ (let '(v, h) := ?x in _) => destruct x as [val has_eq] end.
      eapply okp_bindT; [apply okp_parse_opt_value|]. intros x.
      destruct (snd x); try okleaf. apply IH.
  - oksteps.
Qed.
Hint Resolve okp_short_loop : okp.

Lemma okp_parse_short_arg r pst pc vaf st : okp T (parse_short_arg c r pst pc vaf st).
Proof. unfold parse_short_arg. oksteps. Qed.
Hint Resolve okp_parse_short_arg : okp.

Lemma okp_is_new_arg n a : okp T (is_new_arg c n a).
Proof. unfold is_new_arg. oksteps. Qed.
Hint Resolve okp_is_new_arg : okp.

Lemma EK_match_arg_error tok vaf tr : EK (match_arg_error c tok vaf tr).
Proof.
  unfold match_arg_error, EK.
  repeat match goal with |- context [if ?b then _ else _] => destruct b end; reflexivity.
Qed.
Hint Resolve EK_match_arg_error : okp.

Definition early_ok (p1 : option (res loop_res) * lstate * ps) : Prop :=
  match fst (fst p1) with Some r => okp T r | None => True end.

Lemma okp_parse_loop : forall toks ls st, okp T (parse_loop c toks ls st).
Proof.
  induction toks as [|tok rest IH]; intros ls st; [okleaf|].
  cbn [parse_loop].
  match goal with |- okp _ (rbind ?ph _) => set (phase1 := ph) end.
  assert (Hph : okp early_ok phase1).
  { subst phase1. destruct (l_trailing ls); [okleaf|].
    match goal with |- okp _ (match ?x with Some _ => _ | None => _ end) => destruct x as [sc|] end.
    { destruct (beq sc s_help && negb (is_set s_disable_help_sub c)); okleaf. }
    assert (After : forall x : ps * presult * bool,
      okp early_ok
         (let '(st1, pr, vaf1) := x in
          let ls1 := mkL (l_pst ls) (l_pos ls) vaf1 false in
          match pr with
          | PRValuesDone => ROk (Some (parse_loop c rest (mkL PSValuesDone (l_pos ls) vaf1 false) st1), ls1, st1)
          | PROpt i => ROk (Some (parse_loop c rest (mkL (PSOpt i) (l_pos ls) vaf1 false) st1), ls1, st1)
          | PRFlagSub n => ROk (Some (ROk (LSub n false vaf1 st1 rest)), ls1, st1)
          | PREqualsNotProvided a =>
              do st2 <- resolve_pending_ignore c st1; ROk (Some (RErr (mkerr c ENoEquals a) st2), ls1, st2)
          | PRNoMatchingArg a =>
              do st2 <- resolve_pending_ignore c st1; ROk (Some (RErr (mkerr c EUnknownArgument a) st2), ls1, st2)
          | PRUnneeded r a =>
              do st2 <- resolve_pending_ignore c st1; ROk (Some (RErr (mkerr c ETooManyValues a) st2), ls1, st2)
          | PRMaybeHyphen => ROk (None, ls1, st1)
          | PRNoArg => ROk (None, ls1, st1)
          | PRAttachedNotConsumed => RPanic 203
          end)).
    { intros [[st1 pr] vaf1]. cbn zeta.
      destruct pr; try okleaf; try reflexivity;
        try (unfold okp, early_ok; cbn [fst snd]; apply IH);
        (eapply okp_bindT; [apply okp_resolve_pending_ignore|]; intros st2; okleaf). }
    destruct (is_escape tok).
    { eapply okp_bindT; [apply okp_state_arg|]. intros sa.
      destruct (match sa with Some a => a_hyphen a | None => false end); [okleaf|].
      unfold okp, early_ok; cbn [fst snd]. apply IH. }
    destruct (to_long tok) as [[[f ok] v]|].
    { eapply okp_bindT; [apply okp_parse_long_arg|]. intros [[st1 pr] vaf1]. cbn [fst snd].
      pose proof (After (st1, pr, vaf1)) as HA.
      destruct pr; try reflexivity; exact HA. }
    destruct (to_short tok) as [r|]; [|okleaf].
    eapply okp_bindT; [apply okp_parse_short_arg|]. intros [[st1 pr] vaf1].
    pose proof (After (st1, pr, vaf1)) as HA.
    destruct pr; try reflexivity; try exact HA.
    destruct (fs_at st1) as [a|]; [|okleaf].
    destruct (checked_sub (cur_idx st1) a); cbn [expect rbind]; [okleaf|reflexivity]. }
  eapply okp_bind; [exact Hph|]. clear Hph phase1.
  intros [[early ls1] st1] H1. unfold early_ok in H1. cbn [fst snd] in H1.
  destruct early as [r|]; [exact H1|]. clear H1.
  assert (Hpos : forall pc', okp T
     (match get_pos c pc' with
      | Some a =>
          if a_last a && negb (l_trailing ls1) then
            do st2 <- resolve_pending_ignore c st1; RErr (mkerr c EUnknownArgument tok) st2
          else
            let trailing := l_trailing ls1 || a_tva a in
            do st2 <- (if negb (match pending_arg_id (mt st1) with Some i => beq i (a_id a) | None => false end)
                          || negb (a_multiple_values a)
                       then resolve_pending c st1 else ROk st1);
            if check_terminator a tok then
              parse_loop c rest (mkL PSValuesDone (pc' + 1) true trailing) st2
            else
              do m1 <- expect 415 (pending_values_push (mt st2) (a_id a) (Some IIndex) trailing (Some tok));
              if negb (a_is_multiple a)
              then parse_loop c rest (mkL PSValuesDone (pc' + 1) true trailing) (st2 <| mt := m1 |>)
              else parse_loop c rest (mkL (PSPos (a_id a)) pc' true trailing) (st2 <| mt := m1 |>)
      | None =>
          if is_set s_allow_external c then
            if utf8_valid tok then ROk (LExternal tok rest st1)
            else do st2 <- resolve_pending_ignore c st1; RErr (mkerr c EInvalidUtf8 []) st2
          else do st2 <- resolve_pending_ignore c st1;
               RErr (match_arg_error c tok (l_vaf ls1) (l_trailing ls1)) st2
      end)).
  { intros pc'. destruct (get_pos c pc') as [a|].
    - destruct (a_last a && negb (l_trailing ls1)); [oksteps|].
      cbn zeta. eapply okp_bindT.
      { match goal with |- okp _ (if ?b then _ else _) => destruct b end; [apply okp_resolve_pending|okleaf]. }
      intros st2. destruct (check_terminator a tok); [apply IH|].
      eapply okp_bindT; [oksteps|]. intros m1. destruct (negb (a_is_multiple a)); apply IH.
    - oksteps. }
  assert (Hpc : okp T
     (if ((l_pos ls1 + 1 =? positional_count c)
             && existsb (fun a => a_is_multiple a && negb (positional_count c =? opt_default 0 (a_index a))) (positionals c)
             && match last (map Some (positionals c)) None with Some p => negb (a_last p) | None => false end
          || is_set s_allow_missing_pos c && (l_pos ls1 + 1 =? positional_count c) && negb (l_trailing ls1))
          && negb match get_pos c (l_pos ls1) with Some a => is_some (a_term a) | None => false end
      then match rest with
           | n :: _ =>
               match List.find (fun a => match a_index a with Some k => k =? l_pos ls1 | None => false end) (positionals c) with
               | Some a => do na <- is_new_arg c n a;
                           ROk (if na || is_some (possible_subcommand c n (l_vaf ls1)) then l_pos ls1 + 1 else l_pos ls1)
               | None => ROk (l_pos ls1 + 1)
               end
           | [] => ROk (l_pos ls1 + 1)
           end
      else if l_trailing ls1 && (is_set s_allow_missing_pos c || existsb a_last (c_args c)) then ROk (positional_count c)
      else ROk (l_pos ls1))).
  { oksteps. }
  destruct (if l_trailing ls1 then PSValuesDone else l_pst ls1) as [|i|i].
  - cbn zeta. eapply okp_bindT; [exact Hpc|]. intros pc'. apply Hpos.
  - eapply okp_bindT; [oksteps|]. intros a.
    destruct (check_terminator a tok); [apply IH|].
    eapply okp_bindT; [oksteps|]. intros m1.
    eapply okp_bindT; [oksteps|]. intros more. apply IH.
  - cbn zeta. eapply okp_bindT; [exact Hpc|]. intros pc'. apply Hpos.
Qed.
Hint Resolve okp_parse_loop : okp.

Lemma okp_fold_res {A} (f : ps -> A -> res ps) (Hf : forall st a, okp T (f st a)) :
  forall l (r : res ps), okp T r -> okp T (fold_left (fun rst a => do st <- rst; f st a) l r).
Proof.
  induction l as [|a l IH]; intros r Hr; cbn [fold_left]; [exact Hr|].
  apply IH. eapply okp_bindT; [exact Hr|]. intros st. apply Hf.
Qed.

Lemma okp_add_env st : okp T (add_env c st).
Proof.
  unfold add_env.
  apply (okp_fold_res (fun st a => if mt_contains (mt st) (a_id a) then ROk st
               else match a_env a with
                    | Some v => do x <- react c None SEnv a [v] None st; ROk (fst x)
                    | None => ROk st
                    end)); [|okleaf].
  intros st0 a. oksteps.
Qed.
Hint Resolve okp_add_env : okp.

Lemma okp_add_default_value a st : okp T (add_default_value c a st).
Proof.
  unfold add_default_value. cbn zeta.
  destruct (negb (is_nil (a_default_ifs a)) && negb (mt_contains (mt st) (a_id a))).
  - match goal with |- okp _ (match ?x with Some _ => _ | None => _ end) => destruct x as [[[i p] [d|]]|] end; oksteps.
  - oksteps.
Qed.

Lemma okp_add_defaults st : okp T (add_defaults c st).
Proof.
  unfold add_defaults.
  apply (okp_fold_res (fun st a => add_default_value c a st)); [|okleaf].
  intros st0 a. apply okp_add_default_value.
Qed.
Hint Resolve okp_add_defaults : okp.

(** the validator *)
Definition vokp (v : vres) : Prop := match v with VPanic s => listed s | VErr k _ => parser_kind k = true | VOk => True end.

Lemma vokp_build_conflict_err name ids : vokp (build_conflict_err c name ids).
Proof.
  unfold build_conflict_err. destruct (is_nil ids); [okleaf|].
  match goal with |- vokp (match ?x with Some _ => _ | None => _ end) => destruct x as [l|] end; [|reflexivity].
  destruct (forallb (fun i => is_some (find_arg c i)) l); [|reflexivity].
  destruct (find_arg c name); [okleaf|reflexivity].
Qed.

Lemma vokp_first_err l : Forall vokp l -> vokp (first_err l).
Proof.
  induction 1 as [|v l Hv Hl IH]; cbn [first_err]; [okleaf|].
  destruct v; [exact IH|exact Hv|exact Hv].
Qed.

Lemma vokp_validate_conflicts m pot : vokp (validate_conflicts c m pot).
Proof.
  unfold validate_conflicts.
  assert (Hx : vokp (validate_exclusive c m)).
  { unfold validate_exclusive. destruct (Nat.leb _ 1); [exact I|].
    match goal with |- vokp (match ?x with Some _ => _ | None => _ end) => destruct x end; [reflexivity|exact I]. }
  destruct (validate_exclusive c m) eqn:E; [|exact Hx|exact Hx].
  apply vokp_first_err. apply Forall_forall. intros v Hv. apply in_map_iff in Hv. destruct Hv as [p [<- _]].
  destruct (gather_conflicts c pot (fst p)); [apply vokp_build_conflict_err|reflexivity].
Qed.

Lemma vokp_validate m : vokp (validate c m).
Proof.
  unfold validate.
  destruct (conflicts_with_args c m) as [pot|]; [|reflexivity].
  cbn zeta.
  match goal with |- vokp (if ?b then _ else _) => destruct b end; [okleaf|].
  match goal with |- vokp (if ?b then _ else _) => destruct b end; [okleaf|].
  pose proof (vokp_validate_conflicts m pot) as H.
  destruct (validate_conflicts c m pot); [|exact H|exact H].
  match goal with |- vokp (if ?b then _ else _) => destruct b end; [okleaf|].
  destruct (missing_required c m pot) as [[|x l]|]; [okleaf|okleaf|reflexivity].
Qed.

Lemma okp_vres_to_res m st : okp T (vres_to_res c (validate c m) st).
Proof. pose proof (vokp_validate m) as H. unfold vres_to_res. destruct (validate c m); [okleaf|exact H|exact H]. Qed.
End Level.

#[export] Hint Resolve okp_parse_loop okp_add_env okp_add_defaults okp_resolve_pending okp_vres_to_res : okp.

Lemma okp_external_fill c vp st : forall vals (r : res matcher), okp T r ->
  okp T (fold_left (fun rm v => do m <- rm;
                       match vp_parse vp v with
                       | Some k => RErr (mkerr c k []) st
                       | None => expect 458 (add_val_to m ext_id v)
                       end) vals r).
Proof.
  induction vals as [|v vals IH]; intros r Hr; cbn [fold_left]; [exact Hr|].
  apply IH. eapply okp_bindT; [exact Hr|]. intros m. oksteps.
Qed.

Lemma EK_help_walk : forall names sc, EK (help_walk sc names).
Proof.
  induction names as [|n rest IH]; intros sc; cbn [help_walk]; [reflexivity|].
  destruct (find_subcommand sc n) as [s|]; [|reflexivity].
  destruct (build_subcommand sc (c_name s)) as [s'|]; [apply IH|reflexivity].
Qed.

Lemma okp_get_matches_with : forall fuel c toks st0, okp T (get_matches_with fuel c toks st0).
Proof.
  induction fuel as [|f IH]; intros c toks st0; cbn [get_matches_with]; [reflexivity|].
  match goal with |- okp _ (match ?pp with ROk _ => _ | RErr _ _ => _ | RPanic _ => _ end) => set (parsed := pp) end.
  assert (Hparsed : okp T parsed).
  { subst parsed. eapply okp_bindT; [apply okp_parse_loop|].
    intros [st|name keep vaf st rest|name vals st|names st]; [exact I| | |apply EK_help_walk].
    - destruct (is_set s_args_negate_subs c && vaf); [okleaf|].
      destruct (find_subcommand c name) as [sc0|]; cbn [expect rbind]; [|reflexivity].
      destruct (build_subcommand c (c_name sc0)) as [sc|]; [|okleaf].
      destruct (negb (assert_app sc)); [reflexivity|].
      cbn zeta.
      match goal with |- okp _ (match get_matches_with f sc rest ?s with _ => _ end) =>
        pose proof (IH sc rest s) as Hs; destruct (get_matches_with f sc rest s) end.
      + okleaf.
      + destruct (is_set s_ignore_errors c); [exact I|exact Hs].
      + exact Hs.
    - cbn zeta. eapply okp_bindT; [apply okp_external_fill; okleaf|]. intros m. okleaf. }
  destruct parsed as [st|e st|s].
  - eapply okp_bindT; [apply okp_resolve_pending|]. intros st1.
    eapply okp_bindT; [apply okp_add_env|]. intros st2.
    eapply okp_bindT; [apply okp_add_defaults|]. intros st3.
    apply okp_vres_to_res.
  - destruct (is_set s_ignore_errors c); [|exact Hparsed].
    pose proof (okp_resolve_pending c st) as Hr.
    destruct (resolve_pending c st) as [s0|e0 s0|x0]; cbn in Hr; [| |exact Hr].
    all: pose proof (okp_add_env c s0) as He.
    all: destruct (add_env c s0) as [s1|e1 s1|x1]; cbn in He; [| |exact He].
    all: pose proof (okp_add_defaults c s1) as Hd; destruct (add_defaults c s1); cbn in Hd |- *; first [exact Hparsed|exact Hd].
  - exact Hparsed.
Qed.

Lemma listed_in s : listed s -> s = 0 \/ In s (modelled_sites ++ callee_sites).
Proof.
  unfold listed, mem_n. intros H. apply existsb_exists in H. destruct H as [x [Hin Hx]].
  apply N.eqb_eq in Hx. subst x.
  change ALL with (0 :: modelled_sites ++ callee_sites) in Hin. destruct Hin as [<-|Hin]; auto.
Qed.

Theorem model_sites_listed c0 toks s : do_parse c0 toks = OPanicked s -> In s (modelled_sites ++ callee_sites).
Proof.
  unfold do_parse. destruct (negb (valid c0)); [discriminate|]. cbn zeta.
  pose proof (okp_get_matches_with (S (S (depth (build_self c0)))) (build_self c0) toks ps_new) as H.
  destruct (get_matches_with (S (S (depth (build_self c0)))) (build_self c0) toks ps_new) as [st|e st|x].
  - discriminate.
  - destruct (is_set s_ignore_errors (build_self c0) && use_stderr (e_kind e)); discriminate.
  - cbn in H. destruct x as [|p]; [discriminate|]. intros E. inversion E. subst s.
    destruct (listed_in _ H) as [H0|Hin]; [discriminate|exact Hin].
Qed.

(** the errors of the parse path: every kind except [Io]/[Format] -- for every definition and token list *)
Theorem parser_error_kinds c0 toks e : do_parse c0 toks = OErr e -> parser_kind (e_kind e) = true.
Proof.
  unfold do_parse. destruct (negb (valid c0)); [discriminate|]. cbn zeta.
  pose proof (okp_get_matches_with (S (S (depth (build_self c0)))) (build_self c0) toks ps_new) as H.
  destruct (get_matches_with (S (S (depth (build_self c0)))) (build_self c0) toks ps_new) as [st|e' st|x].
  - discriminate.
  - destruct (is_set s_ignore_errors (build_self c0) && use_stderr (e_kind e')); [discriminate|].
    intros E. inversion E. subst e'. exact H.
  - destruct x; discriminate.
Qed.

(** the same through [parse_top] *)
Theorem model_sites_listed_top c0 argv s : parse_top c0 argv = OPanicked s -> In s (modelled_sites ++ callee_sites).
Proof.
  unfold parse_top. destruct (is_set s_no_binary_name c0); [apply model_sites_listed|].
  destruct argv as [|bin rest]; apply model_sites_listed.
Qed.

(** the witness of C01_no_panic_refuted lands on a listed site, as it must *)
Example listed_920 : In 920 (modelled_sites ++ callee_sites).
Proof. vm_compute. tauto. Qed.
