(** Property C02, fourth pass, item (1): invocation trees WITH tails for the lifted class.

    [invy]: the items of a level, then nothing ([YLeaf]), a subcommand and its tree ([YSub]), [--] and the
    values after it ([YTrail]), or the run of a [trailing_var_arg] positional ([YTva]: rendered WITHOUT [--],
    meaning what [--] followed by the same values means).  Class [wfy_inv]: every level [convx] (UnparseX.v:
    [require_equals], terminators, hyphen / negative-number values of options, [last(true)] and
    [trailing_var_arg] positionals), items [wfx_items], tails [wfx_trail] / [wfx_tva] (UnparseXTrail.v).
    [gmw_inv_y]: [get_matches_with] on the rendered tree IS [run_invy]; conservation, the index closed form
    and the [parse_top] forms follow as for [inv].  [of_inv]: the trees of UnparseTree.v are the trees
    without [YTva]; the old classes ([wf_inv], [wfx_inv]) are contained in [wfy_inv] and [run_inv] is [run_invy]. *)
From ClapModel Require Import Base.Bytes Base.Machine Base.Utf8 Lex.OsStrExtModel.
From ClapModel Require Import Parse.Cmd Parse.Build Parse.Valid Parse.Matcher Parse.Errors Parse.Validator Parse.Parser.
From ClapModel Require Import ParseProofs.Actions ParseProofs.ActionsLoop ParseProofs.Spelling ParseProofs.Sources ParseProofs.Escape
                              ParseProofs.Unparse ParseProofs.UnparseProofs ParseProofs.UnparseTop ParseProofs.UnparseSub
                              ParseProofs.UnparseTrail ParseProofs.UnparseTree ParseProofs.UnparseIdx ParseProofs.UnparseIdxTop
                              ParseProofs.UnparseX ParseProofs.UnparseXProofs ParseProofs.UnparseXTree ParseProofs.UnparseXTrail
                              ParseProofs.UnparseXLook ParseProofs.UnparseGlobals.
From Coq Require Import ZArith Lia List Bool.
From RecordUpdate Require Import RecordSet.
Import RecordSetNotations.
Import ListNotations.
Open Scope N_scope.

Inductive invy :=
| YLeaf (its : list item)
| YSub (its : list item) (name : bytes) (j : invy)
| YTrail (its : list item) (vs : list bytes)         (* items, [--], the values after it *)
| YTva (its : list item) (vs : list bytes)           (* items, the run of a trailing_var_arg positional *)
| YHyp (its : list item) (vs : list bytes)           (* items, the run of a multi-valued positional with hyphen values *)
| YLook (its : list item) (init : list bytes) (vl : bytes) (its2 : list item).
   (* items, a look-ahead run at the second-to-last positional (low-index multiple / allow_missing_positional):
      [init] stays with it, [vl] goes to the last positional; then items that start with a flag *)

Fixpoint render_invy (i : invy) : list bytes :=
  match i with
  | YLeaf its => render its
  | YSub its name j => render its ++ name :: render_invy j
  | YTrail its vs => render its ++ ESC :: vs
  | YTva its vs | YHyp its vs => render its ++ vs
  | YLook its init vl its2 => render its ++ init ++ vl :: render its2
  end.
(** the occurrences of the root level of a tree *)
Definition invy_occs (c : cmd) (i : invy) : list occ :=
  match i with
  | YLeaf its | YSub its _ _ => occs c 1 its
  | YTrail its vs | YTva its vs => occs c 1 its ++ trailx_occs c (items_pos c 1 its) vs
  | YHyp its vs => occs c 1 its ++ item_occs c (items_pos c 1 its) (ItPos vs)
  | YLook its init vl its2 =>
      occs c 1 its ++ look_occs c (items_pos c 1 its) init vl ++ occs c (items_pos c 1 its + 2) its2
  end.

Fixpoint wfy_inv (c : cmd) (i : invy) : bool :=
  convx c && negb (is_set s_ignore_errors c) &&
  match i with
  | YLeaf its => wfx_items c PSValuesDone 1 its
  | YSub its name j =>
      wfx_items c PSValuesDone 1 its && is_done (items_pst c PSValuesDone 1 its)
      && negb (is_set s_args_negate_subs c)
      && match possible_subcommand c name false with
         | Some scn => negb (beq scn s_help && negb (is_set s_disable_help_sub c))
         | None => false end
      && match child c name with
         | Some scb => wfy_inv scb j
         | None => false end
  | YTrail its vs =>
      wfx_items c PSValuesDone 1 its && not_pos (items_pst c PSValuesDone 1 its)
      && (if is_done (items_pst c PSValuesDone 1 its) then nosub c ESC else true)
      && negb (is_set s_dont_delimit_trailing c) && negb (low_index_mults_any c)
      && wfx_trail c (items_pos c 1 its) vs
  | YTva its vs =>
      wfx_items c PSValuesDone 1 its && is_done (items_pst c PSValuesDone 1 its)
      && negb (is_set s_dont_delimit_trailing c) && negb (low_index_mults_any c)
      && wfx_tva c (items_pos c 1 its) vs
  | YHyp its vs =>
      wfx_items c PSValuesDone 1 its && is_done (items_pst c PSValuesDone 1 its)
      && wfx_hyp c (items_pos c 1 its) vs
  | YLook its init vl its2 =>
      wfx_items c PSValuesDone 1 its && is_done (items_pst c PSValuesDone 1 its)
      && wfx_look c (items_pos c 1 its) init vl (render its2)
      && wfx_items c PSValuesDone (items_pos c 1 its + 2) its2
  end.

Fixpoint run_invy (c : cmd) (i : invy) : res ps :=
  match i with
  | YLeaf its => do st1 <- react_all c (occs c 1 its) ps_new; post_loop c st1
  | YSub its name j =>
      match child c name with
      | Some scb =>
          do st' <- apply_items c 1 its ps_new;
          match run_invy scb j with
          | ROk sub_st =>
              do st1 <- resolve_pending c (ssub (Some (c_name scb, into_inner (mt sub_st))) st');
              post_loop c st1
          | RErr e _ => RErr e st'
          | RPanic n => RPanic n
          end
      | None => RPanic 0
      end
  | YTrail its vs | YTva its vs =>
      do st1 <- react_all c (occs c 1 its ++ trailx_occs c (items_pos c 1 its) vs) ps_new; post_loop c st1
  | YHyp its vs =>
      do st1 <- react_all c (occs c 1 its ++ item_occs c (items_pos c 1 its) (ItPos vs)) ps_new; post_loop c st1
  | YLook its init vl its2 =>
      do st1 <- react_all c (occs c 1 its ++ look_occs c (items_pos c 1 its) init vl ++ occs c (items_pos c 1 its + 2) its2) ps_new;
      post_loop c st1
  end.

Lemma wfy_inv_parts c i : wfy_inv c i = true ->
  convx c = true /\ is_set s_ignore_errors c = false /\
  match i with
  | YLeaf its => wfx_items c PSValuesDone 1 its = true
  | YSub its name j =>
      wfx_items c PSValuesDone 1 its = true /\ items_pst c PSValuesDone 1 its = PSValuesDone /\
      is_set s_args_negate_subs c = false /\
      exists scn sc0 scb, possible_subcommand c name false = Some scn /\
        (beq scn s_help && negb (is_set s_disable_help_sub c)) = false /\
        find_subcommand c scn = Some sc0 /\ build_subcommand c (c_name sc0) = Some scb /\
        child c name = Some scb /\ wfy_inv scb j = true
  | YTrail its vs =>
      wfx_items c PSValuesDone 1 its = true /\ not_pos (items_pst c PSValuesDone 1 its) = true /\
      (items_pst c PSValuesDone 1 its = PSValuesDone -> nosub c ESC = true) /\
      is_set s_dont_delimit_trailing c = false /\ low_index_mults_any c = false /\ wfx_trail c (items_pos c 1 its) vs = true
  | YTva its vs =>
      wfx_items c PSValuesDone 1 its = true /\ items_pst c PSValuesDone 1 its = PSValuesDone /\
      is_set s_dont_delimit_trailing c = false /\ low_index_mults_any c = false /\ wfx_tva c (items_pos c 1 its) vs = true
  | YHyp its vs =>
      wfx_items c PSValuesDone 1 its = true /\ items_pst c PSValuesDone 1 its = PSValuesDone /\
      wfx_hyp c (items_pos c 1 its) vs = true
  | YLook its init vl its2 =>
      wfx_items c PSValuesDone 1 its = true /\ items_pst c PSValuesDone 1 its = PSValuesDone /\
      wfx_look c (items_pos c 1 its) init vl (render its2) = true /\
      wfx_items c PSValuesDone (items_pos c 1 its + 2) its2 = true
  end.
Proof.
  intros H. destruct i as [its|its name j|its vs|its vs|its vs|its init vl its2]; cbn [wfy_inv] in H.
  - apply andb_prop in H. destruct H as [H H3]. apply andb_prop in H. destruct H as [H1 H2].
    split; [exact H1|]. split; [destruct (is_set s_ignore_errors c); [discriminate|reflexivity]|exact H3].
  - apply andb_prop in H. destruct H as [H H3]. apply andb_prop in H. destruct H as [H1 H2].
    split; [exact H1|]. split; [destruct (is_set s_ignore_errors c); [discriminate|reflexivity]|].
    apply andb_prop in H3. destruct H3 as [H3 H8]. apply andb_prop in H3. destruct H3 as [H3 H7].
    apply andb_prop in H3. destruct H3 as [H3 H6]. apply andb_prop in H3. destruct H3 as [H4 H5].
    split; [exact H4|]. split; [destruct (items_pst c PSValuesDone 1 its); try discriminate; reflexivity|].
    split; [destruct (is_set s_args_negate_subs c); [discriminate|reflexivity]|].
    unfold child in *. destruct (possible_subcommand c name false) as [scn|] eqn:Ep; [|discriminate].
    destruct (find_subcommand c scn) as [sc0|] eqn:Ef; [|discriminate].
    destruct (build_subcommand c (c_name sc0)) as [scb|] eqn:Eb; [|discriminate].
    exists scn, sc0, scb. split; [reflexivity|]. split; [destruct (beq scn s_help && _); [discriminate|reflexivity]|].
    split; [exact Ef|]. split; [exact Eb|]. split; [reflexivity|exact H8].
  - apply andb_prop in H. destruct H as [H H3]. apply andb_prop in H. destruct H as [H1 H2].
    split; [exact H1|]. split; [destruct (is_set s_ignore_errors c); [discriminate|reflexivity]|].
    apply andb_prop in H3. destruct H3 as [H3 H8]. apply andb_prop in H3. destruct H3 as [H3 H9]. apply andb_prop in H3. destruct H3 as [H3 H7].
    apply andb_prop in H3. destruct H3 as [H3 H6]. apply andb_prop in H3. destruct H3 as [H4 H5].
    split; [exact H4|]. split; [exact H5|]. split; [intros E; rewrite E in H6; exact H6|].
    split; [destruct (is_set s_dont_delimit_trailing c); [discriminate|reflexivity]|].
    split; [destruct (low_index_mults_any c); [discriminate|reflexivity]|exact H8].
  - apply andb_prop in H. destruct H as [H H3]. apply andb_prop in H. destruct H as [H1 H2].
    split; [exact H1|]. split; [destruct (is_set s_ignore_errors c); [discriminate|reflexivity]|].
    apply andb_prop in H3. destruct H3 as [H3 H8]. apply andb_prop in H3. destruct H3 as [H3 H9]. apply andb_prop in H3. destruct H3 as [H3 H7].
    apply andb_prop in H3. destruct H3 as [H4 H5].
    split; [exact H4|]. split; [destruct (items_pst c PSValuesDone 1 its); try discriminate; reflexivity|].
    split; [destruct (is_set s_dont_delimit_trailing c); [discriminate|reflexivity]|].
    split; [destruct (low_index_mults_any c); [discriminate|reflexivity]|exact H8].
  - apply andb_prop in H. destruct H as [H H3]. apply andb_prop in H. destruct H as [H1 H2].
    split; [exact H1|]. split; [destruct (is_set s_ignore_errors c); [discriminate|reflexivity]|].
    apply andb_prop in H3. destruct H3 as [H3 H8]. apply andb_prop in H3. destruct H3 as [H4 H5].
    split; [exact H4|]. split; [destruct (items_pst c PSValuesDone 1 its); try discriminate; reflexivity|exact H8].
  - apply andb_prop in H. destruct H as [H H3]. apply andb_prop in H. destruct H as [H1 H2].
    split; [exact H1|]. split; [destruct (is_set s_ignore_errors c); [discriminate|reflexivity]|].
    apply andb_prop in H3. destruct H3 as [H3 H8]. apply andb_prop in H3. destruct H3 as [H3 H7]. apply andb_prop in H3. destruct H3 as [H4 H5].
    split; [exact H4|]. split; [destruct (items_pst c PSValuesDone 1 its); try discriminate; reflexivity|]. split; [exact H7|exact H8].
Qed.

(** a level that ends in a tail: items, then a loop that is [trailx_apply] *)
Lemma gmw_tail_y c f its (tl vs : list bytes) : convx c = true -> is_set s_ignore_errors c = false ->
  is_set s_dont_delimit_trailing c = false ->
  wfx_items c PSValuesDone 1 its = true -> wfx_trail c (items_pos c 1 its) vs = true ->
  (forall st', apply_items c 1 its ps_new = ROk st' ->
     exists st'', resolve_pending c st'' = resolve_pending c st' /\
       parse_loop c tl (mkL (items_pst c PSValuesDone 1 its) (items_pos c 1 its) (false || negb (is_nil its)) false) st' =
       (do s' <- trailx_apply c (items_pos c 1 its) vs st''; ROk (LDone s'))) ->
  get_matches_with (S f) c (render its ++ tl) ps_new =
  (do st1 <- react_all c (occs c 1 its ++ trailx_occs c (items_pos c 1 its) vs) ps_new; post_loop c st1).
Proof.
  intros Hx Hie Hddt Hwi Hwt HL. rewrite get_matches_with_unfold. unfold cmdline_phase.
  pose proof (pend_inv_none c PSValuesDone ps_new eq_refl) as Hi0.
  rewrite (loop_items_x c Hx its tl PSValuesDone 1 false ps_new Hwi I Hi0 eq_refl).
  rewrite rbind_assoc. rewrite react_all_app.
  pose proof (flush_items_x c Hx its PSValuesDone 1 ps_new Hwi) as F.
  cbn [resolve_pending ps_new mt matcher_new mt_pending rbind] in F. change (mkPs matcher_new 0 None 0) with ps_new in F.
  rewrite <- F. clear F.
  destruct (apply_items c 1 its ps_new) as [st'|e s|n] eqn:Ea; cbn [rbind]; [|rewrite Hie; reflexivity|reflexivity].
  destruct (HL st' eq_refl) as [st'' [ER EL]]. rewrite EL. rewrite rbind_assoc.
  assert (FT : (do s' <- trailx_apply c (items_pos c 1 its) vs st'';
                do s2 <- resolve_pending c s'; post_loop c s2) =
               (do st0 <- resolve_pending c st';
                do s2 <- react_all c (trailx_occs c (items_pos c 1 its) vs) st0; post_loop c s2)).
  { rewrite <- ER. exact (flush_trail_x c Hx Hddt vs (items_pos c 1 its) st'' (post_loop c) Hwt). }
  destruct (trailx_apply c (items_pos c 1 its) vs st'') as [s'|e s|n]; cbn [rbind] in *.
  + rewrite rbind_assoc. exact FT.
  + rewrite rbind_assoc. rewrite <- FT. rewrite Hie. reflexivity.
  + rewrite rbind_assoc. rewrite <- FT. reflexivity.
Qed.

Lemma apply_items_fs c : forall its p st st', apply_items c p its st = ROk st' -> fs_skip st' = fs_skip st.
Proof.
  induction its as [|it l IH]; intros p st st' E; cbn [apply_items] in E.
  - inversion E; subst; reflexivity.
  - destruct (apply_item c p it st) as [s1|e s|n] eqn:E0; cbn [rbind] in E; try discriminate.
    rewrite (IH _ _ _ E). apply (apply_item_fs c _ _ _ _ E0).
Qed.

(** THE UN-PARSER THEOREM for one command tree, lifted class with tails *)
Theorem gmw_inv_y : forall i c f, valid_tree (S f) c = true -> wfy_inv c i = true ->
  get_matches_with (S f) c (render_invy i) ps_new = run_invy c i.
Proof.
  induction i as [its|its name j IH|its vs|its vs|its vs|its init vl its2]; intros c f Hv Hw; destruct (wfy_inv_parts c _ Hw) as [Hx [Hie H]].
  - cbn [render_invy run_invy]. apply gmw_items_x; assumption.
  - destruct H as [Hwi [Hpst [Hneg [scn [sc0 [scb [Hps [Hh [Hfs [Hb [Hch Hwj]]]]]]]]]]].
    pose proof (valid_tree_child f c scn sc0 scb Hv Hfs Hb) as Hvc.
    destruct f as [|f']; [cbn [valid_tree] in Hvc; discriminate|].
    cbn [render_invy run_invy]. rewrite Hch. rewrite get_matches_with_unfold. unfold cmdline_phase.
    rewrite (loop_items_x c Hx its (name :: render_invy j) PSValuesDone 1 false ps_new Hwi I
               (pend_inv_none c PSValuesDone ps_new eq_refl) eq_refl).
    rewrite Hpst. rewrite rbind_assoc.
    destruct (apply_items c 1 its ps_new) as [st'|e s|n]; cbn [rbind]. 2: { rewrite Hie; reflexivity. } 2: reflexivity.
    rewrite (loop_sub_name c name (render_invy j) _ _ st' scn Hneg Hps Hh). cbn [rbind].
    rewrite Hneg. cbn [andb]. rewrite Hfs. cbn [expect rbind]. rewrite Hb.
    assert (Ha : assert_app scb = true).
    { destruct f'; cbn [valid_tree] in Hvc; apply andb_prop in Hvc; apply Hvc. }
    rewrite Ha. cbn [negb].
    rewrite (IH scb f' Hvc Hwj).
    destruct (run_invy scb j) as [sub_st|e s|n]; [reflexivity|rewrite !Hie; reflexivity|reflexivity].
  - destruct H as [Hwi [Hnp [Hns [Hddt [Hlow Hwt]]]]]. cbn [render_invy run_invy].
    apply (gmw_tail_y c f its (ESC :: vs) vs Hx Hie Hddt Hwi Hwt). intros st' Ea.
    pose proof (pend_inv_none c PSValuesDone ps_new eq_refl) as Hi0.
    pose proof (items_pst_okx c Hx its PSValuesDone 1 Hwi I) as Hpo.
    pose proof (apply_items_inv_x c Hx its PSValuesDone 1 ps_new st' Hwi Hi0 Ea) as Hpi.
    assert (Hpi' : pend_inv c PSValuesDone st').
    { destruct (items_pst c PSValuesDone 1 its); [exact Hpi|exact Hpi|discriminate Hnp]. }
    exists (st' <| mt := start_trailing (mt st') |>). split; [apply (resolve_start_trailing c Hddt)|].
    rewrite (loop_escape_x c Hx vs _ _ _ st' Hpo).
    2: { destruct (items_pst c PSValuesDone 1 its) eqn:Ep; try exact I. apply Hns. reflexivity. }
    apply (loop_trail_x c Hx Hlow vs _ _ _ _ Hwt (pend_inv_start_trailing c st' Hpi')).
  - destruct H as [Hwi [Hpst [Hddt [Hlow Hwt]]]]. cbn [render_invy run_invy].
    apply (gmw_tail_y c f its vs vs Hx Hie Hddt Hwi (wfx_tva_trail c _ _ Hwt)). intros st' Ea.
    pose proof (pend_inv_none c PSValuesDone ps_new eq_refl) as Hi0.
    pose proof (apply_items_inv_x c Hx its PSValuesDone 1 ps_new st' Hwi Hi0 Ea) as Hpi. rewrite Hpst in Hpi.
    exists st'. split; [reflexivity|]. rewrite Hpst.
    apply (loop_tva c Hx Hlow vs _ _ st' Hwt Hpi).
  - destruct H as [Hwi [Hpst Hwh]]. cbn [render_invy run_invy].
    destruct (wfx_hyp_pos c _ _ Hwh) as [a Hg]. cbn [item_occs]. rewrite Hg.
    rewrite get_matches_with_unfold. unfold cmdline_phase.
    pose proof (pend_inv_none c PSValuesDone ps_new eq_refl) as Hi0.
    rewrite (loop_items_x c Hx its vs PSValuesDone 1 false ps_new Hwi I Hi0 eq_refl).
    rewrite rbind_assoc. rewrite Hpst.
    rewrite <- (flush_items_then_sep c Hx its a vs (post_loop c) Hwi (get_pos_in c _ a Hg)).
    destruct (apply_items c 1 its ps_new) as [st'|e s|n] eqn:Ea; cbn [rbind]; [|rewrite Hie; reflexivity|reflexivity].
    pose proof (apply_items_inv_x c Hx its PSValuesDone 1 ps_new st' Hwi Hi0 Ea) as Hpi. rewrite Hpst in Hpi.
    rewrite (loop_hyp c Hx vs _ _ st' Hwh Hpi). cbn [apply_item]. rewrite Hg. rewrite rbind_assoc.
    destruct (sep_step c IIndex a vs st') as [s1|e s|n]; cbn [rbind]; [reflexivity|rewrite Hie; reflexivity|reflexivity].
  - destruct H as [Hwi [Hpst [Hwl Hw2]]]. cbn [render_invy run_invy].
    set (pos := items_pos c 1 its) in *.
    destruct (wfx_look_parts c pos init vl (render its2) Hwl) as
      [a [a' [b [HL [Hga [Hla [Hgb [Hh' [Hn' [Hlast [Htva [Hmm [Hk [Hlb [Htb [Hmb [Htm [Hinit [Hvl Hgo]]]]]]]]]]]]]]]]]]].
    rewrite get_matches_with_unfold. unfold cmdline_phase.
    pose proof (pend_inv_none c PSValuesDone ps_new eq_refl) as Hi0.
    rewrite (loop_items_x c Hx its (init ++ vl :: render its2) PSValuesDone 1 false ps_new Hwi I Hi0 eq_refl).
    fold pos. rewrite Hpst. rewrite rbind_assoc.
    (* the meaning, flushed *)
    assert (FL : (do st' <- apply_items c 1 its ps_new; do s1 <- look_apply c pos init vl st';
                  do s2 <- apply_items c (pos + 2) its2 s1; do s3 <- resolve_pending c s2; post_loop c s3) =
                 (do st1 <- react_all c (occs c 1 its ++ look_occs c pos init vl ++ occs c (pos + 2) its2) ps_new; post_loop c st1)).
    { etransitivity; [apply rbind_ext; intros st' _; apply rbind_ext; intros s1 _;
                      apply (flush_items_K c Hx its2 PSValuesDone (pos + 2) s1 (post_loop c) Hw2)|].
      etransitivity; [apply rbind_ext; intros st' _;
                      apply (flush_look c Hx pos init vl st' (fun t => do s3 <- react_all c (occs c (pos + 2) its2) t; post_loop c s3) a b Hga Hgb)|].
      etransitivity; [apply (flush_items_K c Hx its PSValuesDone 1 ps_new
                               (fun t => do s <- react_all c (look_occs c pos init vl) t; do s3 <- react_all c (occs c (pos + 2) its2) s; post_loop c s3) Hwi)|].
      cbn [resolve_pending ps_new mt matcher_new mt_pending rbind]. change (mkPs matcher_new 0 None 0) with ps_new.
      cbv beta. symmetry. rewrite react_all_app, rbind_assoc. apply rbind_ext. intros u _.
      rewrite react_all_app, rbind_assoc. reflexivity. }
    rewrite <- FL. clear FL.
    destruct (apply_items c 1 its ps_new) as [st'|e s|n] eqn:Ea; cbn [rbind]; [|rewrite Hie; reflexivity|reflexivity].
    pose proof (apply_items_inv_x c Hx its PSValuesDone 1 ps_new st' Hwi Hi0 Ea) as Hpi. fold pos in Hpi. rewrite Hpst in Hpi.
    assert (Hs' : fs_skip st' = 0) by (rewrite (apply_items_fs c its 1 ps_new st' Ea); reflexivity).
    rewrite (loop_look c Hx pos a a' b HL Hga Hla Hgb Hh' Hn' Hlast Htva Hmm Hlb Htb Hmb init vl (render its2) _ st' Hk Hinit Hvl Hgo Htm Hpi).
    rewrite rbind_assoc.
    destruct (look_apply c pos init vl st') as [s1|e s|n] eqn:El; cbn [rbind]; [|rewrite Hie; reflexivity|reflexivity].
    destruct (look_apply_after c Hx pos init vl st' s1 a b Hga Hgb Hmb Hs' El) as [Hi1 Hs1].
    rewrite <- (app_nil_r (render its2)).
    rewrite (loop_items_x c Hx its2 [] PSValuesDone (pos + 2) true s1 Hw2 I Hi1 Hs1).
    cbn [parse_loop]. rewrite !rbind_assoc.
    destruct (apply_items c (pos + 2) its2 s1) as [s2|e s|n]; cbn [rbind]; [reflexivity|rewrite Hie; reflexivity|reflexivity].
Qed.

Theorem run_invy_sub_ok c its name j scb sub_st st : convx c = true ->
  wfx_items c PSValuesDone 1 its = true -> child c name = Some scb -> run_invy scb j = ROk sub_st ->
  (run_invy c (YSub its name j) = ROk st <->
   exists st1, react_all c (occs c 1 its) ps_new = ROk st1 /\
               post_loop c (ssub (Some (c_name scb, into_inner (mt sub_st))) st1) = ROk st).
Proof.
  intros Hx Hw Hch Hr. cbn [run_invy]. rewrite Hch, Hr.
  pose proof (flush_items_x c Hx its PSValuesDone 1 ps_new Hw) as F.
  cbn [resolve_pending ps_new mt matcher_new mt_pending rbind] in F. change (mkPs matcher_new 0 None 0) with ps_new in F.
  rewrite <- F. set (x := Some (c_name scb, into_inner (mt sub_st))).
  destruct (apply_items c 1 its ps_new) as [st'|e s|n]; cbn [rbind].
  - rewrite resolve_pending_sub. destruct (resolve_pending c st') as [s1|e s|n]; cbn [psub rbind].
    + split; [intros H; exists s1; split; [reflexivity|exact H]|intros [s2 [E H]]; inversion E; subst; exact H].
    + split; [discriminate|intros [s2 [E _]]; discriminate].
    + split; [discriminate|intros [s2 [E _]]; discriminate].
  - split; [discriminate|intros [s2 [E _]]; discriminate].
  - split; [discriminate|intros [s2 [E _]]; discriminate].
Qed.

Lemma invy_occs_args c i : Forall (fun o => In (o_arg o) (c_args c)) (invy_occs c i).
Proof.
  destruct i as [its|its name j|its vs|its vs|its vs|its init vl its2]; cbn [invy_occs]; try apply (occs_args c its 1);
    try (apply Forall_app; split; [apply (occs_args c its 1)|apply trailx_occs_args]).
  - apply Forall_app. split; [apply (occs_args c its 1)|]. cbn [item_occs].
    destruct (get_pos c (items_pos c 1 its)) as [a|] eqn:Hg; constructor; [apply (get_pos_in c _ a Hg)|constructor].
  - apply Forall_app. split; [apply (occs_args c its 1)|]. apply Forall_app. split; [apply look_occs_args|apply occs_args].
Qed.

(** what is needed of a successful root level: the fold of [react] over its occurrences, then the
    env / default / validation phases, whatever the subcommand slot holds *)
Lemma run_invy_root c i st : wfy_inv c i = true -> run_invy c i = ROk st ->
  exists st1 st1', react_all c (invy_occs c i) ps_new = ROk st1 /\
    mt_args (mt st1') = mt_args (mt st1) /\ mt_pending (mt st1') = None /\ post_loop c st1' = ROk st.
Proof.
  intros Hw H. destruct (wfy_inv_parts c _ Hw) as [Hx [Hie Hp]].
  destruct i as [its|its name j|its vs|its vs|its vs|its init vl its2]; cbn [invy_occs] in *.
  6:{ cbn [run_invy] in H.
      destruct (react_all c _ ps_new) as [st1|e s|n] eqn:E1; cbn [rbind] in H; try discriminate.
      exists st1, st1. split; [reflexivity|]. split; [reflexivity|]. split; [apply (react_all_pending_keep c _ _ _ E1 eq_refl)|exact H]. }
  5:{ cbn [run_invy] in H.
      destruct (react_all c (occs c 1 its ++ item_occs c (items_pos c 1 its) (ItPos vs)) ps_new) as [st1|e s|n] eqn:E1; cbn [rbind] in H; try discriminate.
      exists st1, st1. split; [reflexivity|]. split; [reflexivity|]. split; [apply (react_all_pending_keep c _ _ _ E1 eq_refl)|exact H]. }
  - cbn [run_invy] in H.
    destruct (react_all c (occs c 1 its) ps_new) as [st1|e s|n] eqn:E1; cbn [rbind] in H; try discriminate.
    exists st1, st1. split; [reflexivity|]. split; [reflexivity|]. split; [apply (react_all_pending_keep c _ _ _ E1 eq_refl)|exact H].
  - destruct Hp as [Hwi [_ [_ [scn [sc0 [scb [_ [_ [_ [_ [Hch _]]]]]]]]]]].
    destruct (run_invy scb j) as [sub_st|e s|n] eqn:Er.
    + apply (run_invy_sub_ok c its name j scb sub_st st Hx Hwi Hch Er) in H. destruct H as [st1 [E1 H]].
      exists st1, (ssub (Some (c_name scb, into_inner (mt sub_st))) st1). split; [exact E1|].
      split; [rewrite ssub_mt, msub_args; reflexivity|].
      split; [rewrite ssub_mt, msub_pending; apply (react_all_pending_keep c _ _ _ E1 eq_refl)|exact H].
    + cbn [run_invy] in H. rewrite Hch, Er in H. destruct (apply_items c 1 its ps_new); discriminate.
    + cbn [run_invy] in H. rewrite Hch, Er in H. destruct (apply_items c 1 its ps_new); discriminate.
  - cbn [run_invy] in H.
    destruct (react_all c (occs c 1 its ++ trailx_occs c (items_pos c 1 its) vs) ps_new) as [st1|e s|n] eqn:E1; cbn [rbind] in H; try discriminate.
    exists st1, st1. split; [reflexivity|]. split; [reflexivity|]. split; [apply (react_all_pending_keep c _ _ _ E1 eq_refl)|exact H].
  - cbn [run_invy] in H.
    destruct (react_all c (occs c 1 its ++ trailx_occs c (items_pos c 1 its) vs) ps_new) as [st1|e s|n] eqn:E1; cbn [rbind] in H; try discriminate.
    exists st1, st1. split; [reflexivity|]. split; [reflexivity|]. split; [apply (react_all_pending_keep c _ _ _ E1 eq_refl)|exact H].
Qed.

(** CONSERVATION and INDICES at the root of any tree of the lifted class with tails (hence at every level) *)
Theorem conservation_inv_y : forall i c f st, valid_tree (S f) c = true -> wfy_inv c i = true ->
  get_matches_with (S f) c (render_invy i) ps_new = ROk st ->
  forall a, In a (c_args c) ->
    (forall gs, denote_os c (a_id a) (invy_occs c i) = Some gs -> groups_of (a_id a) (mt st) = Some gs)
    /\ (forall e, fm_get (a_id a) (mt_args (mt st)) = Some e -> m_source e = Some SCmdLine ->
          denote_os c (a_id a) (invy_occs c i) = Some (m_raw e)).
Proof.
  intros i c f st Hv Hw H. rewrite (gmw_inv_y i c f Hv Hw) in H.
  destruct (wfy_inv_parts c _ Hw) as [Hx _].
  destruct (run_invy_root c i st Hw H) as [st1 [st1' [E1 [EA [P1 HP]]]]].
  apply (conservation_core_os_x c Hx _ st1 st1' st (invy_occs_args c i) E1 EA P1 HP).
Qed.

Theorem indices_inv_y : forall i c f st, valid_tree (S f) c = true -> wfy_inv c i = true ->
  get_matches_with (S f) c (render_invy i) ps_new = ROk st ->
  forall a ix, In a (c_args c) -> denote_idx_os c (a_id a) (invy_occs c i) = Some ix ->
  idx_of (a_id a) (mt st) = Some ix.
Proof.
  intros i c f st Hv Hw H a ix Ha D. rewrite (gmw_inv_y i c f Hv Hw) in H.
  destruct (wfy_inv_parts c _ Hw) as [Hx _].
  destruct (run_invy_root c i st Hw H) as [st1 [st1' [E1 [EA [P1 HP]]]]].
  apply (idx_core_x c Hx _ st1 st1' st a ix (invy_occs_args c i) Ha E1 EA P1 HP D).
Qed.

(** * the top level *)
Theorem parse_top_inv_y c0 bin i : is_set s_no_binary_name c0 = false ->
  valid (with_bin c0 bin) = true -> wfy_inv (build_self (with_bin c0 bin)) i = true ->
  parse_top c0 (bin :: render_invy i) =
  finish_outcome (with_bin c0 bin) (run_invy (build_self (with_bin c0 bin)) i).
Proof.
  intros Hn Hv Hw. unfold parse_top. rewrite Hn. fold (with_bin c0 bin).
  rewrite do_parse_unfold, Hv. cbn [negb]. f_equal. apply gmw_inv_y; [exact Hv|exact Hw].
Qed.

Theorem parse_top_denote_y c0 bin i st : is_set s_no_binary_name c0 = false ->
  valid (with_bin c0 bin) = true -> wfy_inv (build_self (with_bin c0 bin)) i = true ->
  no_globals (build_recursive (S (S (depth (build_self (with_bin c0 bin))))) (with_bin c0 bin)) = true ->
  run_invy (build_self (with_bin c0 bin)) i = ROk st ->
  parse_top c0 (bin :: render_invy i) = OOk (into_inner (mt st)).
Proof.
  intros Hn Hv Hw Hg Hr. rewrite (parse_top_inv_y c0 bin i Hn Hv Hw), Hr. apply finish_no_globals. exact Hg.
Qed.

(** ... with global arguments: C09's merge in closed form (UnparseGlobals.v) *)
Theorem parse_top_merged_y c0 bin i st : is_set s_no_binary_name c0 = false ->
  valid (with_bin c0 bin) = true -> wfy_inv (build_self (with_bin c0 bin)) i = true ->
  run_invy (build_self (with_bin c0 bin)) i = ROk st ->
  parse_top c0 (bin :: render_invy i) =
  OOk (ins_levels (merged_map (with_bin c0 bin) (into_inner (mt st))) (into_inner (mt st))).
Proof. intros Hn Hv Hw Hr. rewrite (parse_top_inv_y c0 bin i Hn Hv Hw), Hr. apply finish_is_merge. Qed.

(** * the trees of UnparseTree.v are the trees without a [trailing_var_arg] run; the old classes are contained *)
Fixpoint of_inv (i : inv) : invy :=
  match i with
  | ILeaf its => YLeaf its
  | ISub its name j => YSub its name (of_inv j)
  | ITrail its vs => YTrail its vs
  end.
Lemma render_of_inv : forall i, render_invy (of_inv i) = render_inv i.
Proof. induction i as [its|its name j IH|its vs]; cbn [of_inv render_invy render_inv]; try reflexivity. rewrite IH. reflexivity. Qed.

Lemma wf_inv_wfy_inv : forall i c, wf_inv c i = true -> wfy_inv c (of_inv i) = true /\ run_invy c (of_inv i) = run_inv c i.
Proof.
  induction i as [its|its name j IH|its vs]; intros c H.
  - destruct (wf_inv_parts c _ H) as [Hc [Hie Hw]]. cbn [wfy_inv of_inv run_invy run_inv].
    rewrite (conv_convx c Hc), Hie, (wf_wfx c Hc _ _ _ Hw). split; reflexivity.
  - destruct (wf_inv_parts c _ H) as [Hc [Hie [Hw [Hp [Hn [scn [sc0 [scb [Hps [Hh [Hfs [Hb [Hch Hwj]]]]]]]]]]]]].
    destruct (IH scb Hwj) as [IH1 IH2].
    cbn [wfy_inv of_inv run_invy run_inv]. rewrite (conv_convx c Hc), Hie, (wf_wfx c Hc _ _ _ Hw), Hp, Hn, Hps, Hh, Hch, IH1, IH2.
    split; reflexivity.
  - destruct (wf_inv_parts c _ H) as [Hc [Hie [Hw [Hnp [Hns [Hddt Hwt]]]]]].
    assert (Hlow : low_index_mults_any c = false).
    { destruct (conv_parts c Hc) as [_ [_ [_ [_ Hl]]]]. unfold low_index_mults_any. unfold low_index_multiple in Hl. rewrite Hl. reflexivity. }
    cbn [wfy_inv of_inv run_invy run_inv]. rewrite (conv_convx c Hc), Hie, (wf_wfx c Hc _ _ _ Hw), Hnp, Hddt, Hlow, (wf_trail_wfx c Hc _ _ Hwt).
    rewrite (trailx_occs_conv c Hc). split; [|reflexivity]. cbn [negb andb]. rewrite !andb_true_r.
    destruct (items_pst c PSValuesDone 1 its) eqn:Ep; cbn [is_done]; try reflexivity. apply Hns. reflexivity.
Qed.

Lemma wfx_inv_wfy_inv : forall i c, wfx_inv c i = true -> wfy_inv c (of_inv i) = true /\ run_invy c (of_inv i) = run_inv c i.
Proof.
  induction i as [its|its name j IH|its vs]; intros c H.
  - destruct (wfx_inv_parts c _ H) as [Hc [Hie Hw]]. cbn [wfy_inv of_inv run_invy run_inv].
    rewrite Hc, Hie, Hw. split; reflexivity.
  - destruct (wfx_inv_parts c _ H) as [Hc [Hie [Hw [Hp [Hn [scn [sc0 [scb [Hps [Hh [Hfs [Hb [Hch Hwj]]]]]]]]]]]]].
    destruct (IH scb Hwj) as [IH1 IH2].
    cbn [wfy_inv of_inv run_invy run_inv]. rewrite Hc, Hie, Hw, Hp, Hn, Hps, Hh, Hch, IH1, IH2.
    split; reflexivity.
  - destruct (wfx_inv_parts c _ H) as [_ [_ []]].
Qed.
