(** Property C05, round 2: [resolve_pending], [react], [add_env] and [add_defaults] do not read the
    recorded subcommand -- they commute with replacing it ([phases_ssub]).  Used for the entries of
    the levels above the one that consumed the [--]. *)
From ClapModel Require Import Base.Bytes Base.Machine Base.Utf8 Lex.OsStrExtModel.
From ClapModel Require Import Parse.Cmd Parse.Build Parse.Valid Parse.Matcher Parse.Errors Parse.Validator Parse.Parser.
From ClapModel Require Import ParseProofs.Dispatch.
From Coq Require Import ZArith Lia List Bool.
From RecordUpdate Require Import RecordSet.
Import RecordSetNotations.
Import ListNotations.
Open Scope N_scope.

(** * The phases after the loop do not read the recorded subcommand: they commute with replacing it *)
Section SubIrrelevant.
Variable c : cmd.
Variable s : option (bytes * matches).

Definition msub (m : matcher) : matcher := m <| mt_sub := s |>.
Definition ssub (st : ps) : ps := st <| mt := msub (mt st) |>.
Definition rmap {A} (g : A -> A) (r : res A) : res A :=
  match r with ROk a => ROk (g a) | RErr e st => RErr e (ssub st) | RPanic x => RPanic x end.
Definition mmap (r : res matcher) : res matcher :=
  match r with ROk m => ROk (msub m) | RErr e st => RErr e (ssub st) | RPanic x => RPanic x end.

Lemma rmap_bind {A B} (g : A -> A) (h : B -> B) (r : res A) (k k' : A -> res B) :
  (forall a, k' (g a) = rmap h (k a)) -> rbind (rmap g r) k' = rmap h (rbind r k).
Proof. intros H. destruct r; cbn; [apply H|reflexivity|reflexivity]. Qed.

Lemma mt_remove_msub m i : mt_remove (msub m) i = (msub (fst (mt_remove m i)), snd (mt_remove m i)).
Proof. unfold mt_remove, msub. cbn. destruct (fm_remove i (mt_args m)). reflexivity. Qed.

Lemma fold_remove_msub l : forall m,
  fold_left (fun m o => fst (mt_remove m o)) l (msub m) = msub (fold_left (fun m o => fst (mt_remove m o)) l m).
Proof. induction l as [|o l IH]; intros m; [reflexivity|]. cbn [fold_left]. rewrite mt_remove_msub. cbn [fst]. apply IH. Qed.

Lemma remove_overrides_msub a m : remove_overrides c a (msub m) = msub (remove_overrides c a m).
Proof.
  unfold remove_overrides. rewrite fold_remove_msub.
  change (arg_ids (msub ?x)) with (arg_ids x). apply fold_remove_msub.
Qed.

Lemma start_custom_arg_m_msub m a sr : start_custom_arg_m (msub m) a sr = msub (start_custom_arg_m m a sr).
Proof. reflexivity. Qed.
Lemma start_custom_group_m_msub m g sr : start_custom_group_m (msub m) g sr = msub (start_custom_group_m m g sr).
Proof. reflexivity. Qed.
Lemma add_val_to_msub m i v : add_val_to (msub m) i v = opt_map msub (add_val_to m i v).
Proof.
  unfold add_val_to. change (mt_args (msub m)) with (mt_args m).
  destruct (fm_get i (mt_args m)); [|reflexivity]. destruct (append_val v m0); reflexivity.
Qed.
Lemma add_index_to_msub m i ix : add_index_to (msub m) i ix = opt_map msub (add_index_to m i ix).
Proof.
  unfold add_index_to. change (mt_args (msub m)) with (mt_args m).
  destruct (fm_get i (mt_args m)); reflexivity.
Qed.

Lemma start_custom_arg_msub a sr m : start_custom_arg c a sr (msub m) = mmap (start_custom_arg c a sr m).
Proof.
  unfold start_custom_arg.
  assert (E : start_custom_arg_m (match sr with SCmdLine => remove_overrides c a (msub m) | _ => msub m end) a sr
              = msub (start_custom_arg_m (match sr with SCmdLine => remove_overrides c a m | _ => m end) a sr)).
  { destruct sr; try reflexivity. rewrite remove_overrides_msub. reflexivity. }
  rewrite E. destruct (src_explicit sr); [|reflexivity].
  generalize (start_custom_arg_m (match sr with SCmdLine => remove_overrides c a m | _ => m end) a sr). intros m0.
  change (ROk (msub m0)) with (mmap (ROk m0)). generalize (ROk m0 : res matcher). 
  induction (groups_for_arg c (a_id a)) as [|g l IH]; intros acc; [reflexivity|].
  cbn [fold_left]. rewrite <- IH. f_equal.
  destruct acc as [m1|e st|x]; cbn [mmap rbind]; try reflexivity.
  rewrite start_custom_group_m_msub, add_val_to_msub.
  destruct (add_val_to (start_custom_group_m m1 g sr) g (a_id a)); reflexivity.
Qed.

Lemma mt_ssub st : mt (ssub st) = msub (mt st). Proof. reflexivity. Qed.
Lemma ssub_set_mt st m : (ssub st) <| mt := msub m |> = ssub (st <| mt := m |>). Proof. reflexivity. Qed.
Lemma ssub_bump st : ps_bump (ssub st) = ssub (ps_bump st). Proof. reflexivity. Qed.

Lemma verify_num_args_ssub a raw st : verify_num_args c a raw (ssub st) = rmap (fun u => u) (verify_num_args c a raw st).
Proof.
  unfold verify_num_args. destruct (is_set s_ignore_errors c); [reflexivity|].
  destruct (a_num a) as [r|]; cbn [expect rbind]; [|reflexivity].
  destruct ((0 <? vmin r) && (N.of_nat (length raw) =? 0)); [reflexivity|].
  destruct (r_num_values r) as [n|].
  - destruct (negb (n =? N.of_nat (length raw))); reflexivity.
  - destruct (N.of_nat (length raw) <? vmin r); [reflexivity|].
    destruct (vmax r <? N.of_nat (length raw)); [|reflexivity]. destruct raw; reflexivity.
Qed.

Lemma push_arg_values_ssub a : forall raw st,
  push_arg_values c a raw (ssub st) = rmap ssub (push_arg_values c a raw st).
Proof.
  induction raw as [|v t IH]; intros st; cbn [push_arg_values]; [reflexivity|].
  destruct (a_vp a) as [vp|]; cbn [expect rbind]; [|reflexivity].
  destruct (vp_parse vp v); [reflexivity|].
  rewrite ssub_bump, mt_ssub, add_val_to_msub.
  destruct (add_val_to (mt (ps_bump st)) (a_id a) v) as [m1|]; cbn [opt_map expect rbind]; [|reflexivity].
  rewrite add_index_to_msub.
  change (cur_idx (ssub (ps_bump st))) with (cur_idx (ps_bump st)).
  destruct (add_index_to m1 (a_id a) (cur_idx (ps_bump st))) as [m2|]; cbn [opt_map expect rbind]; [|reflexivity].
  rewrite ssub_set_mt. apply IH.
Qed.

Definition xmap (x : ps * presult) : ps * presult := (ssub (fst x), snd x).

Lemma store_ssub a sr raw st m :
  (do m2 <- start_custom_arg c a sr (msub m);
   do st' <- push_arg_values c a raw ((ssub st) <| mt := m2 |>);
   ROk (st', PRValuesDone)) =
  rmap xmap (do m2 <- start_custom_arg c a sr m;
             do st' <- push_arg_values c a raw (st <| mt := m2 |>);
             ROk (st', PRValuesDone)).
Proof.
  rewrite start_custom_arg_msub.
  destruct (start_custom_arg c a sr m) as [m2|e0 s0|x0]; cbn [mmap rbind rmap]; try reflexivity.
  rewrite ssub_set_mt, push_arg_values_ssub.
  destruct (push_arg_values c a raw (st <| mt := m2 |>)); reflexivity.
Qed.

Lemma react_core_ssub idn sr a raw ti st :
  react_core c idn sr a raw ti (ssub st) = rmap xmap (react_core c idn sr a raw ti st).
Proof.
  unfold react_core.
  assert (Ev : (if is_cmdline sr then verify_num_args c a raw (ssub st) else ROk tt)
               = rmap (fun u => u) (if is_cmdline sr then verify_num_args c a raw st else ROk tt)).
  { destruct (is_cmdline sr); [apply verify_num_args_ssub|reflexivity]. }
  rewrite Ev.
  destruct (if is_cmdline sr then verify_num_args c a raw st else ROk tt) as [u|e0 s0|x0]; cbn [rmap rbind]; try reflexivity.
  destruct (match raw with [] => if negb (is_nil (a_default_missing a)) then (a_default_missing a, None) else (raw, ti)
                         | _ => (raw, ti) end) as [raw1 ti1].
  destruct (delimit c a raw1 ti1) as [raw2|]; cbn [expect rbind]; [|reflexivity].
  assert (SL : forall rw (bump : bool),
    (let st := if bump && is_cmdline sr && is_flag_ident idn then ps_bump (ssub st) else ssub st in
     let '(m1, removed) := mt_remove (mt st) (a_id a) in
     let st := st <| mt := m1 |> in
     if removed && negb (is_set s_args_override_self c || mem_id (a_id a) (a_overrides a))
     then RErr (mkerr c EArgumentConflict (a_id a)) st
     else do m2 <- start_custom_arg c a sr m1;
          do st' <- push_arg_values c a rw (st <| mt := m2 |>);
          ROk (st', PRValuesDone)) =
    rmap xmap
    (let st := if bump && is_cmdline sr && is_flag_ident idn then ps_bump st else st in
     let '(m1, removed) := mt_remove (mt st) (a_id a) in
     let st := st <| mt := m1 |> in
     if removed && negb (is_set s_args_override_self c || mem_id (a_id a) (a_overrides a))
     then RErr (mkerr c EArgumentConflict (a_id a)) st
     else do m2 <- start_custom_arg c a sr m1;
          do st' <- push_arg_values c a rw (st <| mt := m2 |>);
          ROk (st', PRValuesDone))).
  { intros rw bump. cbv zeta.
    assert (Eb : (if bump && is_cmdline sr && is_flag_ident idn then ps_bump (ssub st) else ssub st)
                 = ssub (if bump && is_cmdline sr && is_flag_ident idn then ps_bump st else st))
      by (destruct (bump && is_cmdline sr && is_flag_ident idn); reflexivity).
    rewrite Eb. generalize (if bump && is_cmdline sr && is_flag_ident idn then ps_bump st else st). intros sx.
    rewrite mt_ssub, mt_remove_msub. destruct (mt_remove (mt sx) (a_id a)) as [m1 removed]. cbn [fst snd].
    destruct (removed && negb (is_set s_args_override_self c || mem_id (a_id a) (a_overrides a))); [reflexivity|].
    rewrite ssub_set_mt. apply (store_ssub a sr rw (sx <| mt := m1 |>) m1). }
  destruct (a_get_action a); try reflexivity.
  - apply SL.
  - assert (Eb : (if is_cmdline sr && is_flag_ident idn then ps_bump (ssub st) else ssub st)
                 = ssub (if is_cmdline sr && is_flag_ident idn then ps_bump st else st))
      by (destruct (is_cmdline sr && is_flag_ident idn); reflexivity).
    rewrite Eb. generalize (if is_cmdline sr && is_flag_ident idn then ps_bump st else st). intros sx.
    rewrite mt_ssub. apply (store_ssub a sr raw2 sx (mt sx)).
  - apply SL.
  - apply SL.
  - change (existing_count a (mt (ssub st))) with (existing_count a (mt st)).
    rewrite mt_ssub, mt_remove_msub. destruct (mt_remove (mt st) (a_id a)) as [m1 removed]. cbn [fst snd].
    apply (store_ssub a sr _ st m1).
Qed.

Lemma resolve_pending_ssub st : resolve_pending c (ssub st) = rmap ssub (resolve_pending c st).
Proof.
  unfold resolve_pending. change (mt_pending (mt (ssub st))) with (mt_pending (mt st)).
  destruct (mt_pending (mt st)) as [p|]; [|reflexivity].
  destruct (find_arg c (p_id p)) as [a|]; cbn [expect rbind]; [|reflexivity].
  change ((ssub st) <| mt := (mt (ssub st)) <| mt_pending := None |> |>)
    with (ssub (st <| mt := (mt st) <| mt_pending := None |> |>)).
  rewrite react_core_ssub. destruct (react_core c _ _ a _ _ _) as [[s2 pr]|e0 s0|x0]; reflexivity.
Qed.

Lemma react_ssub idn sr a raw ti st : react c idn sr a raw ti (ssub st) = rmap xmap (react c idn sr a raw ti st).
Proof.
  unfold react. rewrite resolve_pending_ssub.
  destruct (resolve_pending c st) as [st1|e0 s0|x0]; cbn [rmap rbind]; try reflexivity. apply react_core_ssub.
Qed.

Lemma fold_rmap {X} (F : ps -> X -> res ps) (l : list X) :
  (forall st x, F (ssub st) x = rmap ssub (F st x)) ->
  forall acc, fold_left (fun rst x => do st <- rst; F st x) l (rmap ssub acc)
              = rmap ssub (fold_left (fun rst x => do st <- rst; F st x) l acc).
Proof.
  intros HF. induction l as [|x l IH]; intros acc; [reflexivity|]. cbn [fold_left]. rewrite <- IH. f_equal.
  destruct acc; cbn [rmap rbind]; try reflexivity. apply HF.
Qed.

Lemma add_env_ssub st : add_env c (ssub st) = rmap ssub (add_env c st).
Proof.
  unfold add_env. change (ROk (ssub st)) with (rmap ssub (ROk st)).
  apply (fold_rmap (fun st a => if mt_contains (mt st) (a_id a) then ROk st
                                else match a_env a with
                                     | Some v => do x <- react c None SEnv a [v] None st; ROk (fst x)
                                     | None => ROk st end)).
  intros st0 a. change (mt_contains (mt (ssub st0)) (a_id a)) with (mt_contains (mt st0) (a_id a)).
  destruct (mt_contains (mt st0) (a_id a)); [reflexivity|]. destruct (a_env a) as [v|]; [|reflexivity].
  rewrite react_ssub. destruct (react c None SEnv a [v] None st0) as [[s2 pr]|e0 s0|x0]; reflexivity.
Qed.

Lemma add_default_value_ssub a st : add_default_value c a (ssub st) = rmap ssub (add_default_value c a st).
Proof.
  unfold add_default_value.
  change (mt_contains (mt (ssub st)) (a_id a)) with (mt_contains (mt st) (a_id a)).
  change (mt_args (mt (ssub st))) with (mt_args (mt st)).
  assert (Plain : (if negb (is_nil (a_default a)) then
                     if mt_contains (mt st) (a_id a) then ROk (ssub st)
                     else do x <- react c None SDefault a (a_default a) None (ssub st); ROk (fst x)
                   else ROk (ssub st))
                  = rmap ssub (if negb (is_nil (a_default a)) then
                     if mt_contains (mt st) (a_id a) then ROk st
                     else do x <- react c None SDefault a (a_default a) None st; ROk (fst x)
                   else ROk st)).
  { destruct (negb (is_nil (a_default a))); [|reflexivity]. destruct (mt_contains (mt st) (a_id a)); [reflexivity|].
    rewrite react_ssub. destruct (react c None SDefault a (a_default a) None st) as [[s2 pr]|e0 s0|x0]; reflexivity. }
  destruct (negb (is_nil (a_default_ifs a)) && negb (mt_contains (mt st) (a_id a))); [|exact Plain].
  destruct (List.find _ (a_default_ifs a)) as [[[i p] [d|]]|]; [|reflexivity|exact Plain].
  rewrite react_ssub. destruct (react c None SDefault a [d] None st) as [[s2 pr]|e0 s0|x0]; reflexivity.
Qed.

Lemma add_defaults_ssub st : add_defaults c (ssub st) = rmap ssub (add_defaults c st).
Proof.
  unfold add_defaults. change (ROk (ssub st)) with (rmap ssub (ROk st)).
  apply (fold_rmap (fun st a => add_default_value c a st)). intros st0 a. apply add_default_value_ssub.
Qed.
End SubIrrelevant.

Lemma rmap_ok_inv {A} s (g : A -> A) (r : res A) y : rmap s g r = ROk y -> exists x, r = ROk x /\ y = g x.
Proof. destruct r; cbn; try discriminate. intros H. injection H as <-. eauto. Qed.

Lemma record_sub_ssub st name sub_st : record_sub st name sub_st = ssub (Some (name, into_inner (mt sub_st))) st.
Proof. reflexivity. Qed.

(** two states that differ only in the recorded subcommand go through [resolve_pending], [add_env],
    [add_defaults] to states that differ only in the recorded subcommand *)
Theorem phases_ssub c sA sB st0 r1 e1 d1 r2 e2 d2 :
  resolve_pending c (ssub sA st0) = ROk r1 -> add_env c r1 = ROk e1 -> add_defaults c e1 = ROk d1 ->
  resolve_pending c (ssub sB st0) = ROk r2 -> add_env c r2 = ROk e2 -> add_defaults c e2 = ROk d2 ->
  exists d0, d1 = ssub sA d0 /\ d2 = ssub sB d0.
Proof.
  intros A1 A2 A3 B1 B2 B3.
  rewrite resolve_pending_ssub in A1, B1.
  destruct (rmap_ok_inv _ _ _ _ A1) as (r0 & Er & ->). rewrite Er in B1. cbn in B1. injection B1 as <-.
  rewrite add_env_ssub in A2, B2.
  destruct (rmap_ok_inv _ _ _ _ A2) as (e0 & Ee & ->). rewrite Ee in B2. cbn in B2. injection B2 as <-.
  rewrite add_defaults_ssub in A3, B3.
  destruct (rmap_ok_inv _ _ _ _ A3) as (d0 & Ed & ->). rewrite Ed in B3. cbn in B3. injection B3 as <-.
  exists d0. split; reflexivity.
Qed.
