(** Property C05, round 2: help/version outcomes of the phases after the token loop
    ([resolve_pending], [add_env], [add_defaults], [validate], external subcommand capture): none, when
    the loop left a state satisfying [TV] and arguments with a Help/Version action carry no env
    variable and no default ([nodisp_src]). *)
From ClapModel Require Import Base.Bytes Base.Machine Base.Utf8 Lex.OsStrExtModel.
From ClapModel Require Import Parse.Cmd Parse.Build Parse.Valid Parse.Matcher Parse.Errors Parse.Validator Parse.Parser.
From ClapModel Require Import ParseProofs.Safe ParseProofs.Sources ParseProofs.Spelling ParseProofs.Dispatch ParseProofs.ErrorSound
  ParseProofs.Escape ParseProofs.EscapeWalk ParseProofs.EscapeLevel.
From Coq Require Import ZArith Lia List Bool.
From RecordUpdate Require Import RecordSet.
Import RecordSetNotations.
Import ListNotations.
Open Scope N_scope.

(** * Help/version outcomes of the phases after the loop *)
Section PostDisplay.
Variable c : cmd.
Hypothesis Hl : lvl c.
Let W3 := proj1 Hl.
Let WD := proj2 (proj2 Hl).

(** arguments with a Help/Version action carry no env variable and no default *)
Definition nodisp_src : Prop :=
  forall a, In a (c_args c) -> display_action a = true ->
    a_env a = None /\ a_default a = [] /\ a_default_ifs a = [].
Hypothesis Hnd : nodisp_src.

Lemma react_nodisp idn s a raw ti st e s' :
  mt_pending (mt st) = None -> display_action a = false ->
  react c idn s a raw ti st = RErr e s' -> is_display (e_kind e) = false.
Proof.
  intros Hp Ha. unfold react. rewrite (Sources.resolve_pending_none c st Hp). cbn [rbind].
  apply react_core_kind. exact Ha.
Qed.

Lemma react_pending_none idn s a raw ti st x :
  mt_pending (mt st) = None -> react c idn s a raw ti st = ROk x -> mt_pending (mt (fst x)) = None.
Proof.
  intros Hp. unfold react. rewrite (Sources.resolve_pending_none c st Hp). cbn [rbind].
  destruct x as [st' pr]. intros H. cbn [fst]. rewrite (Spelling.react_core_pending _ _ _ _ _ _ _ _ _ H). exact Hp.
Qed.

Definition okres (r : res ps) : Prop :=
  match r with ROk st => mt_pending (mt st) = None | RErr e _ => is_display (e_kind e) = false | RPanic _ => True end.

Lemma fold_okres (F : ps -> arg -> res ps) : forall l acc,
  (forall st a, In a l -> mt_pending (mt st) = None -> okres (F st a)) ->
  okres acc -> okres (fold_left (fun rst a => do st <- rst; F st a) l acc).
Proof.
  induction l as [|a l IH]; intros acc HF Hacc; [exact Hacc|]. cbn [fold_left].
  apply IH; [intros st a' Hin; apply HF; right; exact Hin|].
  destruct acc as [st|e s|x]; cbn [rbind]; [|exact Hacc|exact I]. apply HF; [left; reflexivity|exact Hacc].
Qed.

Lemma react_okres s a raw st : In a (c_args c) -> mt_pending (mt st) = None -> display_action a = false ->
  okres (do x <- react c None s a raw None st; ROk (fst x)).
Proof.
  intros Hin Hp Ha. destruct (react c None s a raw None st) as [x|e s'|n] eqn:E; cbn [rbind okres]; [| |exact I].
  - eapply react_pending_none; eassumption.
  - eapply react_nodisp; eassumption.
Qed.

Lemma add_env_okres st : mt_pending (mt st) = None -> okres (add_env c st).
Proof.
  intros Hp. unfold add_env.
  apply (fold_okres (fun st a => if mt_contains (mt st) (a_id a) then ROk st
                                 else match a_env a with
                                      | Some v => do x <- react c None SEnv a [v] None st; ROk (fst x)
                                      | None => ROk st end)); [|exact Hp].
  intros st0 a Hin Hp0. destruct (mt_contains (mt st0) (a_id a)); [exact Hp0|].
  destruct (a_env a) as [v|] eqn:Ee; [|exact Hp0].
  apply react_okres; [exact Hin|exact Hp0|].
  destruct (display_action a) eqn:Ea; [|reflexivity]. rewrite (proj1 (Hnd a Hin Ea)) in Ee. discriminate.
Qed.

Lemma add_default_value_okres a st : In a (c_args c) -> mt_pending (mt st) = None -> okres (add_default_value c a st).
Proof.
  intros Hin Hp. unfold add_default_value.
  destruct (display_action a) eqn:Ea.
  - destruct (Hnd a Hin Ea) as (_ & Hd & Hdi). rewrite Hd, Hdi. cbn. exact Hp.
  - assert (Plain : okres (if negb (is_nil (a_default a)) then
                             if mt_contains (mt st) (a_id a) then ROk st
                             else do x <- react c None SDefault a (a_default a) None st; ROk (fst x)
                           else ROk st)).
    { destruct (negb (is_nil (a_default a))); [|exact Hp]. destruct (mt_contains (mt st) (a_id a)); [exact Hp|].
      apply react_okres; assumption. }
    destruct (negb (is_nil (a_default_ifs a)) && negb (mt_contains (mt st) (a_id a))); [|exact Plain].
    destruct (List.find _ (a_default_ifs a)) as [[[i p] [d|]]|]; [|exact Hp|exact Plain].
    apply react_okres; assumption.
Qed.

Lemma add_defaults_okres st : mt_pending (mt st) = None -> okres (add_defaults c st).
Proof.
  intros Hp. unfold add_defaults.
  apply (fold_okres (fun st a => add_default_value c a st)); [|exact Hp].
  intros st0 a Hin Hp0. apply add_default_value_okres; assumption.
Qed.

Lemma validate_kind m k a : validate c m = VErr k a -> is_display k = false.
Proof.
  unfold validate. destruct (conflicts_with_args c m) as [pot|]; [|discriminate].
  destruct (_ && _ && _); [intros H; injection H as <- _; reflexivity|].
  destruct (_ && _); [intros H; injection H as <- _; reflexivity|].
  destruct (validate_conflicts c m pot) as [|k' a'|s'] eqn:Ev.
  - destruct (_ && _); [discriminate|].
    destruct (missing_required c m pot) as [[|x l]|]; try discriminate. intros H; injection H as <- _; reflexivity.
  - intros H; injection H as <- _. rewrite (validate_conflicts_kind _ _ _ _ _ Ev). reflexivity.
  - discriminate.
Qed.

(** the phases after a successful loop raise no help/version outcome *)
Theorem post_no_display stp e s : TV c stp ->
  post c (ROk stp) = RErr e s -> is_display (e_kind e) = false.
Proof.
  intros HTV. cbn [post].
  destruct (resolve_pending c stp) as [s2|e2 s2|x2] eqn:Er; cbn [rbind].
  - pose proof (Spelling.resolve_pending_clears c stp s2 Er) as Hp2.
    pose proof (add_env_okres s2 Hp2) as He. destruct (add_env c s2) as [s3|e3 s3|x3]; cbn [rbind okres] in *.
    + pose proof (add_defaults_okres s3 He) as Hd. destruct (add_defaults c s3) as [s4|e4 s4|x4]; cbn [rbind okres] in *.
      * unfold vres_to_res. destruct (validate c (mt s4)) as [|k a|x] eqn:Ev; try discriminate.
        intros H. injection H as <- _. cbn. exact (validate_kind _ _ _ Ev).
      * intros H. injection H as <- _. exact Hd.
      * discriminate.
    + intros H. injection H as <- _. exact He.
    + discriminate.
  - intros H. injection H as <- _.
    destruct (is_display (e_kind e2)) eqn:Hd; [|reflexivity]. exfalso.
    destruct (resolve_pending_display c _ _ _ Er Hd) as (p & a & Hp & Hf & Ha).
    pose proof (proj1 (HTV p Hp) a Hf) as Ht.
    rewrite (WD a (proj1 (find_arg_some _ _ _ Hf)) Ha) in Ht. discriminate.
  - discriminate.
Qed.

Lemma ext_fold_kind vp st : forall vals (acc : res matcher),
  (forall e0 s0, acc = RErr e0 s0 -> is_display (e_kind e0) = false) ->
  forall e0 s0, fold_left (fun rm v => do m <- rm;
         match vp_parse vp v with
         | Some k => RErr (mkerr c k []) st
         | None => expect 458 (add_val_to m ext_id v) end) vals acc = RErr e0 s0 ->
  is_display (e_kind e0) = false.
Proof.
  induction vals as [|v t IH]; intros acc Hacc e0 s0; cbn [fold_left]; [apply Hacc|].
  apply IH. intros e1 s1. destruct acc as [m| |]; cbn [rbind].
  - destruct (vp_parse vp v) as [k|] eqn:Ek.
    + intros H. injection H as <- _. cbn. exact (vp_parse_kind _ _ _ Ek).
    + unfold expect. destruct (add_val_to m ext_id v); discriminate.
  - apply Hacc.
  - discriminate.
Qed.

Lemma external_matches_kind name vals st e s :
  external_matches c name vals st = RErr e s -> is_display (e_kind e) = false.
Proof.
  unfold external_matches. cbv zeta.
  match goal with |- (do m <- ?f; _) = _ -> _ => destruct f as [m|e0 s0|x0] eqn:Ef end; cbn [rbind]; try discriminate.
  intros H. injection H as <- _. eapply ext_fold_kind; [|exact Ef]. discriminate.
Qed.

Lemma TV_set_sub st x : TV c st -> TV c (st <| mt := (mt st) <| mt_sub := x |> |>).
Proof. intros H. exact H. Qed.

Definition lr_state (lr : loop_res) : ps :=
  match lr with LDone s | LSub _ _ _ s _ | LExternal _ _ s | LHelpSub _ s => s end.

(** the state a successful trailing-mode loop returns satisfies the invariant *)
Lemma trailing_result_TV toks ls st lr :
  (forall a, In a (c_args c) -> a_index a <> None -> a_takes_value a = true) ->
  l_trailing ls = true -> TV c st -> parse_loop c toks ls st = ROk lr -> TV c (lr_state lr).
Proof.
  intros WP Htr HTV E.
  destruct (trailing_outcome c toks ls st Htr) as [ls' st2 Hr Er|pre tok rest ls1 st1 Eq Hr Hstop].
  - rewrite E in Er. injection Er as ->. cbn. exact (truns_TV c W3 WP _ _ _ _ _ _ Hr HTV).
  - rewrite E in Hstop. inversion Hstop; subst. cbn. exact (truns_TV c W3 WP _ _ _ _ _ _ Hr HTV).
Qed.
End PostDisplay.
