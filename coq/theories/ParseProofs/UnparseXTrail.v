(** Property C02, fourth pass, item (1): the tails of a level for the lifted class [convx]
    (UnparseX.v; positionals may now be [last(true)] / [trailing_var_arg]):

    * the values after [--]: every token, whatever it looks like, goes to the positional the CORRECTED
      counter points at -- [sink_index] (Escape.v, C05): the highest positional when the command has a
      [last(true)] positional, the current one otherwise; a positional taking several values takes all
      that remain; a value equal to the positional's terminator is excluded ([wfx_trail]);
    * a run of a [trailing_var_arg] positional: its first value is an ordinary value token, every later
      token of the line is a raw value of the same occurrence (the loop switches to trailing mode).
      It denotes what [--] followed by the same values denotes ([trailx_apply]/[trailx_occs]).

    The loop after the switch is C05's [pos_body] ([parse_loop_trailing_step], all commands); the
    counter correction is [pos_correct_sink]. *)
From ClapModel Require Import Base.Bytes Base.Machine Base.Utf8 Lex.OsStrExtModel.
From ClapModel Require Import Parse.Cmd Parse.Build Parse.Valid Parse.Matcher Parse.Errors Parse.Validator Parse.Parser.
From ClapModel Require Import ParseProofs.Actions ParseProofs.ActionsLoop ParseProofs.Spelling ParseProofs.Escape
                              ParseProofs.Unparse ParseProofs.UnparseProofs ParseProofs.UnparseTrail
                              ParseProofs.UnparseX ParseProofs.UnparseXProofs ParseProofs.LoopStep.
From Coq Require Import ZArith Lia List Bool.
From RecordUpdate Require Import RecordSet.
Import RecordSetNotations.
Import ListNotations.
Open Scope N_scope.

Section TrailX.
Variable c : cmd.

(** the counter after a value delivered at (corrected) counter [pc] to [a] *)
Definition next_pos (a : arg) (pc : N) : N := if a_is_multiple a then pc else pc + 1.

(** meaning of the values after [--], on parser states *)
Fixpoint trailx_apply (pos : N) (vs : list bytes) (st : ps) : res ps :=
  match vs with
  | [] => ROk st
  | v :: t =>
      match get_pos c (sink_index c pos) with
      | Some a =>
          do s1 <- resolve_pending c st;
          if a_multiple_values a then ROk (set_pending_ti (a_id a) IIndex (v :: t) (Some 0) s1)
          else trailx_apply (next_pos a (sink_index c pos)) t (set_pending_ti (a_id a) IIndex [v] (Some 0) s1)
      | None => ROk st
      end
  end.
(** ... and as occurrences *)
Fixpoint trailx_occs (pos : N) (vs : list bytes) : list occ :=
  match vs with
  | [] => []
  | v :: t =>
      match get_pos c (sink_index c pos) with
      | Some a => if a_multiple_values a then [occ_of IIndex a (v :: t)]
                  else occ_of IIndex a [v] :: trailx_occs (next_pos a (sink_index c pos)) t
      | None => []
      end
  end.
Definition no_term (a : arg) (v : bytes) : bool := negb (check_terminator a v).
(** every value finds a positional and is not that positional's terminator *)
Fixpoint wfx_trail (pos : N) (vs : list bytes) : bool :=
  match vs with
  | [] => true
  | v :: t =>
      match get_pos c (sink_index c pos) with
      | Some a => if a_multiple_values a then forallb (no_term a) (v :: t)
                  else no_term a v && wfx_trail (next_pos a (sink_index c pos)) t
      | None => false
      end
  end.
(** a run of a [trailing_var_arg] positional at counter [pos]: first value an ordinary value token that is
    no subcommand name; the rest arbitrary; the positional takes several values and stays the target in
    trailing mode *)
Definition wfx_tva (pos : N) (vs : list bytes) : bool :=
  match vs with
  | [] => false
  | v :: t =>
      match get_pos c pos with
      | Some a => a_tva a && negb (a_last a) && a_multiple_values a && (sink_index c pos =? pos)
                  && value_ok v && nosub c v && forallb (no_term a) (v :: t) && negb (lookahead_at c pos)
      | None => false
      end
  end.

(** the run of a multi-valued positional that takes HYPHEN VALUES: the first value is a value token or a token the
    parser hands back as a possible hyphen value ([hyphen_tok]); while the run is open EVERY later token of the line --
    [--], known flags, subcommand names -- is a value of the same occurrence *)
Definition wfx_hyp (pos : N) (vs : list bytes) : bool :=
  match vs with
  | [] => false
  | v :: t =>
      match get_pos c pos with
      | Some a => a_hyphen a && negb (a_last a) && negb (a_tva a) && a_multiple_values a
                  && nosub c v && (value_ok v || hyphen_tok c pos v) && forallb (no_term a) (v :: t)
                  && negb (lookahead_at c pos)
      | None => false
      end
  end.

Hypothesis Hx : convx c = true.

(** any token while the run of a hyphen-valued positional is open *)
Lemma hyp_more_tok (w : bytes) (rest : list bytes) pos vaf st a :
  get_pos c pos = Some a -> a_hyphen a = true -> a_last a = false -> a_tva a = false -> check_terminator a w = false ->
  lookahead_off c pos ->
  parse_loop c (w :: rest) (mkL (PSPos (a_id a)) pos vaf false) st = pos_step_k c a w rest pos st.
Proof.
  intros Hg Hh Hlast Htva Hterm Hlow. pose proof (get_pos_in c pos a Hg) as Ha. pose proof (find_arg_self_x c Hx a Ha) as FA.
  pose proof (convx_sp c Hx) as Hsp.
  assert (SA : state_arg c (PSPos (a_id a)) = ROk (Some a)) by (cbn [state_arg]; rewrite FA; reflexivity).
  rewrite parse_loop_step.
  assert (TAIL : forall vaf1,
    (do p1 <- ROk (@None (res loop_res), mkL (PSPos (a_id a)) pos vaf1 false, st);
     let '(early, ls, st) := p1 in
     match early with Some r => r | None => phase2 c (parse_loop c rest) w rest ls st end) = pos_step_k c a w rest pos st).
  { intros vaf1. cbn [rbind]. apply (pos_deliver c); try assumption. exact I. }
  unfold phase1. cbn [l_trailing l_pst l_vaf l_pos]. rewrite Hsp. cbn [orb].
  destruct (is_escape w).
  - rewrite SA. cbn [rbind]. rewrite Hh. exact (TAIL vaf).
  - destruct (to_long w) as [[[f ok] lv]|].
    + assert (PL : parse_long_arg c f ok lv (PSPos (a_id a)) pos vaf st = ROk (st, PRMaybeHyphen, vaf)).
      { unfold parse_long_arg. rewrite SA. cbn [rbind]. rewrite Hh. reflexivity. }
      rewrite PL. cbn [rbind fst snd]. unfold after_flag. cbn [l_pst l_pos]. exact (TAIL vaf).
    + destruct (to_short w) as [r|].
      * assert (PS : parse_short_arg c r (PSPos (a_id a)) pos vaf st = ROk (st, PRMaybeHyphen, vaf)).
        { unfold parse_short_arg. rewrite SA. cbn [rbind]. rewrite Hh. reflexivity. }
        rewrite PS. cbn [rbind fst snd]. unfold after_flag. cbn [l_pst l_pos]. exact (TAIL vaf).
      * exact (TAIL vaf).
Qed.

Lemma loop_hyp_values a pos st : get_pos c pos = Some a -> a_hyphen a = true -> a_last a = false -> a_tva a = false ->
  a_multiple_values a = true -> lookahead_off c pos ->
  forall (vs vs0 : list bytes), forallb (no_term a) vs = true ->
  parse_loop c vs (mkL (PSPos (a_id a)) pos true false) (set_pending (a_id a) IIndex vs0 st) =
  ROk (LDone (set_pending (a_id a) IIndex (vs0 ++ vs) st)).
Proof.
  intros Hg Hh Hlast Htva Hm Hlow. induction vs as [|v vs IH]; intros vs0 Hts.
  - rewrite app_nil_r. reflexivity.
  - cbn [forallb] in Hts. apply andb_prop in Hts. destruct Hts as [Ht Hts].
    assert (Ht' : check_terminator a v = false) by (unfold no_term in Ht; destruct (check_terminator a v); [discriminate|reflexivity]).
    rewrite (hyp_more_tok v vs pos true _ a Hg Hh Hlast Htva Ht' Hlow).
    rewrite (pos_more c v vs pos st a vs0 Hm). rewrite (IH (vs0 ++ [v]) Hts). rewrite <- app_assoc. reflexivity.
Qed.

Theorem loop_hyp : forall (vs : list bytes) pos vaf st, wfx_hyp pos vs = true -> pend_inv c PSValuesDone st ->
  parse_loop c vs (mkL PSValuesDone pos vaf false) st = (do s' <- apply_item c pos (ItPos vs) st; ROk (LDone s')).
Proof.
  intros vs pos vaf st Hw Hi. destruct vs as [|v vs]; [discriminate Hw|]. cbn [wfx_hyp] in Hw.
  destruct (get_pos c pos) as [a|] eqn:Hg; [|discriminate].
  apply andb_prop in Hw. destruct Hw as [Hw HL]. apply negb_true_iff in HL. apply (lookahead_off_of c) in HL.
  apply andb_prop in Hw. destruct Hw as [Hw Hts]. apply andb_prop in Hw. destruct Hw as [Hw Hv]. apply andb_prop in Hw. destruct Hw as [Hw Hn].
  apply andb_prop in Hw. destruct Hw as [Hw Hm]. apply andb_prop in Hw. destruct Hw as [Hw Htva]. apply andb_prop in Hw. destruct Hw as [Hh Hlast].
  apply negb_true_iff in Htva. apply negb_true_iff in Hlast.
  cbn [forallb] in Hts. apply andb_prop in Hts. destruct Hts as [Ht Hts].
  assert (Ht' : check_terminator a v = false) by (unfold no_term in Ht; destruct (check_terminator a v); [discriminate|reflexivity]).
  assert (E1 : parse_loop c (v :: vs) (mkL PSValuesDone pos vaf false) st = pos_step_k c a v vs pos st).
  { apply orb_prop in Hv. destruct Hv as [Hv|Hv].
    - apply (pos_branch_x c Hx v vs PSValuesDone pos vaf st a I Hn Hv Hg Ht' Hlast Htva HL).
    - apply (pos_branch_h c Hx v vs pos vaf st a Hn Hv Hg HL Ht' Hlast Htva). }
  rewrite E1. rewrite (pos_first_x c Hx v vs PSValuesDone pos st a Hg I Hi).
  assert (Hmul : a_is_multiple a = true) by (unfold a_is_multiple; rewrite Hm; reflexivity).
  rewrite Hmul. cbn [apply_item]. rewrite Hg. unfold sep_step.
  destruct (resolve_pending c st) as [s1|e s|n]; cbn [rbind]; try reflexivity.
  rewrite (loop_hyp_values a pos s1 Hg Hh Hlast Htva Hm HL vs [v] Hts). reflexivity.
Qed.

Lemma wfx_hyp_pos pos vs : wfx_hyp pos vs = true -> exists a, get_pos c pos = Some a.
Proof. destruct vs as [|v t]; [discriminate|]. cbn [wfx_hyp]. destruct (get_pos c pos) as [a|]; [exists a; reflexivity|discriminate]. Qed.

(** flushing: items, then one more occurrence with separate values *)
Lemma flush_items_then_sep {B} its a (vs : list bytes) (K : ps -> res B) : wfx_items c PSValuesDone 1 its = true -> In a (c_args c) ->
  (do st' <- apply_items c 1 its ps_new; do st1 <- sep_step c IIndex a vs st'; do st2 <- resolve_pending c st1; K st2) =
  (do st2 <- react_all c (occs c 1 its ++ [occ_of IIndex a vs]) ps_new; K st2).
Proof.
  intros Hw Ha.
  set (KK := fun s0 : ps => do x <- react_core c (Some IIndex) SCmdLine a vs None s0; K (fst x)).
  assert (E1 : forall st', (do st1 <- sep_step c IIndex a vs st'; do st2 <- resolve_pending c st1; K st2) =
                           (do s0 <- resolve_pending c st'; KK s0)).
  { intros st'. rewrite (sep_flush_x c Hx IIndex a vs st' K Ha). unfold react. apply rbind_assoc. }
  etransitivity; [apply rbind_ext; intros st' _; apply E1|].
  etransitivity; [symmetry; apply (rbind_assoc (apply_items c 1 its ps_new) (resolve_pending c) KK)|].
  pose proof (flush_items_x c Hx its PSValuesDone 1 ps_new Hw) as F.
  cbn [resolve_pending ps_new mt matcher_new mt_pending rbind] in F. change (mkPs matcher_new 0 None 0) with ps_new in F.
  rewrite F. rewrite react_all_app.
  pose proof (flush_react_all c (occs c 1 its) ps_new KK) as G.
  cbn [resolve_pending ps_new mt matcher_new mt_pending rbind] in G. change (mkPs matcher_new 0 None 0) with ps_new in G.
  rewrite <- G. rewrite rbind_assoc. apply rbind_ext. intros s1 _.
  cbn [react_all occ_of o_ident o_src o_arg o_raw o_ti]. unfold react, KK. rewrite !rbind_assoc. apply rbind_ext. intros s0 _.
  apply rbind_ext. intros x _. reflexivity.
Qed.

(** after [--] the look-ahead of a low-index multiple stays live: the tails below are for commands without one *)
Hypothesis Hlow : low_index_mults_any c = false.

Lemma trail_branch_x (v : bytes) (rest : list bytes) pst pos vaf st a :
  get_pos c (sink_index c pos) = Some a -> check_terminator a v = false ->
  parse_loop c (v :: rest) (mkL pst pos vaf true) st = trail_step_k c a v rest (sink_index c pos) st.
Proof.
  intros Hg Ht.
  rewrite (parse_loop_trailing_step c v rest (mkL pst pos vaf true) st eq_refl).
  unfold pos_body. cbn [l_pos l_vaf]. rewrite (pos_correct_sink c pos vaf rest Hlow). cbn [rbind].
  rewrite Hg. unfold trail_step_k. rewrite Ht. reflexivity.
Qed.

Lemma trail_first_x (v : bytes) (rest : list bytes) pc st a : In a (c_args c) -> a_index a <> None ->
  pend_inv c PSValuesDone st ->
  trail_step_k c a v rest pc st =
  (do s1 <- resolve_pending c st;
   let s2 := set_pending_ti (a_id a) IIndex [v] (Some 0) s1 in
   if a_is_multiple a then parse_loop c rest (mkL (PSPos (a_id a)) pc true true) s2
   else parse_loop c rest (mkL PSValuesDone (pc + 1) true true) s2).
Proof.
  intros Ha Hidx Hi.
  assert (Hc : negb (match pending_arg_id (mt st) with Some i => beq i (a_id a) | None => false end)
               || negb (a_multiple_values a) = true).
  { destruct (a_multiple_values a) eqn:Em; [|apply orb_true_r]. rewrite orb_false_r.
    unfold pending_arg_id. destruct (mt_pending (mt st)) as [p|] eqn:Ep; [|reflexivity]. cbn [opt_map].
    destruct (beq (p_id p) (a_id a)) eqn:Eb; [|reflexivity]. apply beq_eq in Eb. exfalso.
    assert (F : find_arg c (p_id p) = Some a) by (rewrite Eb; apply (find_arg_self_x c Hx a Ha)).
    destruct (Hi p a Ep F) as [H|H]; [contradiction|congruence]. }
  unfold trail_step_k. rewrite Hc.
  destruct (resolve_pending c st) as [st1|e s|n] eqn:RP; cbn [rbind]; try reflexivity.
  pose proof (resolve_pending_clears _ _ _ RP) as PN.
  unfold pending_values_push. rewrite PN. cbn [p_id p_ident p_raw p_trailing_idx is_some length].
  rewrite beq_refl. cbn [negb andb ident_eqb expect rbind app N.of_nat].
  assert (E : st1 <| mt := (mt st1) <| mt_pending := Some (mkPending (a_id a) (Some IIndex) [v] (Some 0)) |> |>
              = set_pending_ti (a_id a) IIndex [v] (Some 0) st1) by reflexivity.
  rewrite E. destruct (a_is_multiple a); reflexivity.
Qed.

Lemma sink_sink_multi pc a : a_is_multiple a = true -> sink_index c (next_pos a (sink_index c pc)) = sink_index c pc.
Proof. intros H. unfold next_pos. rewrite H. apply sink_index_idem. Qed.

Lemma loop_trail_values_x a pc st ti : get_pos c (sink_index c pc) = Some a -> a_multiple_values a = true ->
  forall (vs vs0 : list bytes), forallb (no_term a) vs = true ->
  parse_loop c vs (mkL (PSPos (a_id a)) (sink_index c pc) true true) (set_pending_ti (a_id a) IIndex vs0 (Some ti) st) =
  ROk (LDone (set_pending_ti (a_id a) IIndex (vs0 ++ vs) (Some ti) st)).
Proof.
  intros Hg Hm. induction vs as [|v vs IH]; intros vs0 Hts.
  - rewrite app_nil_r. reflexivity.
  - cbn [forallb] in Hts. apply andb_prop in Hts. destruct Hts as [Ht Hts].
    assert (Ht' : check_terminator a v = false) by (unfold no_term in Ht; destruct (check_terminator a v); [discriminate|reflexivity]).
    assert (Hg' : get_pos c (sink_index c (sink_index c pc)) = Some a) by (rewrite sink_index_idem; exact Hg).
    rewrite (trail_branch_x v vs (PSPos (a_id a)) (sink_index c pc) true _ a Hg' Ht'). rewrite sink_index_idem.
    rewrite (trail_more c v vs (sink_index c pc) st a vs0 ti Hm). rewrite (IH (vs0 ++ [v]) Hts). rewrite <- app_assoc. reflexivity.
Qed.

Lemma pend_inv_single_x i idn (vs : list bytes) ti st a : In a (c_args c) -> a_id a = i ->
  (a_index a = None \/ a_multiple_values a = false) ->
  pend_inv c PSValuesDone (set_pending_ti i idn vs ti st).
Proof.
  intros Ha Ei Hor p b Ep Fb.
  assert (Ep' : Some (mkPending i (Some idn) vs ti) = Some p) by (rewrite <- Ep; destruct st as [m ci fa fk]; destruct m; reflexivity).
  inversion Ep'; subst p. cbn [p_id] in Fb. rewrite <- Ei, (find_arg_self_x c Hx a Ha) in Fb. inversion Fb; subst b. exact Hor.
Qed.

(** the loop after [--] *)
Theorem loop_trail_x : forall (vs : list bytes) pos pst vaf st, wfx_trail pos vs = true -> pend_inv c PSValuesDone st ->
  parse_loop c vs (mkL pst pos vaf true) st = (do s' <- trailx_apply pos vs st; ROk (LDone s')).
Proof.
  induction vs as [|v vs IH]; intros pos pst vaf st Hw Hi; [reflexivity|].
  cbn [wfx_trail trailx_apply] in *. destruct (get_pos c (sink_index c pos)) as [a|] eqn:Hg; [|discriminate].
  pose proof (get_pos_in c _ a Hg) as Ha.
  assert (Hidx : a_index a <> None) by (rewrite (get_pos_index c _ a Hg); discriminate).
  destruct (a_multiple_values a) eqn:Em.
  - assert (Hw' := Hw). cbn [forallb] in Hw. apply andb_prop in Hw. destruct Hw as [Ht Hts].
    assert (Ht' : check_terminator a v = false) by (unfold no_term in Ht; destruct (check_terminator a v); [discriminate|reflexivity]).
    rewrite (trail_branch_x v vs pst pos vaf st a Hg Ht'). rewrite (trail_first_x v vs _ st a Ha Hidx Hi).
    destruct (resolve_pending c st) as [s1|e s|n]; cbn [rbind]; try reflexivity. cbv zeta.
    assert (Hmul : a_is_multiple a = true) by (unfold a_is_multiple; rewrite Em; reflexivity).
    rewrite Hmul. rewrite (loop_trail_values_x a pos s1 0 Hg Em vs [v] Hts). reflexivity.
  - apply andb_prop in Hw. destruct Hw as [Ht Hw].
    assert (Ht' : check_terminator a v = false) by (unfold no_term in Ht; destruct (check_terminator a v); [discriminate|reflexivity]).
    rewrite (trail_branch_x v vs pst pos vaf st a Hg Ht'). rewrite (trail_first_x v vs _ st a Ha Hidx Hi).
    destruct (resolve_pending c st) as [s1|e s|n]; cbn [rbind]; try reflexivity. cbv zeta.
    assert (Hinv : pend_inv c PSValuesDone (set_pending_ti (a_id a) IIndex [v] (Some 0) s1)).
    { apply (pend_inv_single_x _ _ _ _ _ a Ha eq_refl). right. exact Em. }
    unfold next_pos in *. destruct (a_is_multiple a); apply IH; assumption.
Qed.

(** the token [--] itself *)
Lemma loop_escape_x (rest : list bytes) pst pos vaf st : pst_okx c pst ->
  match pst with PSValuesDone => nosub c ESC = true | _ => True end ->
  parse_loop c (ESC :: rest) (mkL pst pos vaf false) st =
  parse_loop c rest (mkL pst pos vaf true) (st <| mt := start_trailing (mt st) |>).
Proof.
  intros Hp Hn. pose proof (convx_sp c Hx) as Hsp.
  cbn [parse_loop]. cbn [l_trailing l_pst l_vaf l_pos].
  assert (Hs : (if is_set s_sub_precedence c || match pst with PSValuesDone => true | _ => false end
                then possible_subcommand c ESC vaf else None) = None).
  { rewrite Hsp. cbn [orb]. destruct pst; try reflexivity. apply (nosub_if c ESC vaf true Hn). }
  rewrite Hs. change (is_escape ESC) with true. cbv iota.
  destruct (state_arg_okx c pst Hp) as [sa [Es Hsa]]. rewrite Es. cbn [rbind].
  assert (E1 : match sa with Some a0 => a_hyphen a0 | None => false end = false).
  { destruct sa as [a0|]; [apply Hsa|reflexivity]. }
  rewrite E1. reflexivity.
Qed.

(** the first value of a [trailing_var_arg] run: an ordinary positional value, but the loop goes on in trailing mode *)
Lemma loop_tva_head (v : bytes) (rest : list bytes) pos vaf st a :
  get_pos c pos = Some a -> a_last a = false -> a_tva a = true ->
  nosub c v = true -> value_ok v = true -> check_terminator a v = false -> lookahead_off c pos ->
  parse_loop c (v :: rest) (mkL PSValuesDone pos vaf false) st = trail_step_k c a v rest pos st.
Proof.
  intros Hg Hlast Htva Hn Hv Hterm HL. rewrite parse_loop_step.
  rewrite (phase1_value c Hx (parse_loop c rest) v rest PSValuesDone pos vaf st Hn Hv). cbn [rbind].
  unfold phase2. cbn [l_trailing l_pst]. unfold pos_part. rewrite (HL vaf rest PSValuesDone). cbn [rbind].
  cbn [l_trailing l_pst l_vaf l_pos]. rewrite Hg, Hlast, Htva. cbn [andb orb]. rewrite Hterm. unfold trail_step_k. reflexivity.
Qed.

(** the whole run of a [trailing_var_arg] positional *)
Theorem loop_tva : forall (vs : list bytes) pos vaf st, wfx_tva pos vs = true -> pend_inv c PSValuesDone st ->
  parse_loop c vs (mkL PSValuesDone pos vaf false) st = (do s' <- trailx_apply pos vs st; ROk (LDone s')).
Proof.
  intros vs pos vaf st Hw Hi. destruct vs as [|v vs]; [discriminate Hw|]. cbn [wfx_tva] in Hw.
  destruct (get_pos c pos) as [a|] eqn:Hg; [|discriminate].
  apply andb_prop in Hw. destruct Hw as [Hw HL]. apply negb_true_iff in HL. apply (lookahead_off_of c) in HL.
  apply andb_prop in Hw. destruct Hw as [Hw Hts]. apply andb_prop in Hw. destruct Hw as [Hw Hn].
  apply andb_prop in Hw. destruct Hw as [Hw Hv]. apply andb_prop in Hw. destruct Hw as [Hw Hsk].
  apply andb_prop in Hw. destruct Hw as [Hw Hm]. apply andb_prop in Hw. destruct Hw as [Htva Hlast].
  apply N.eqb_eq in Hsk. assert (Hlast' : a_last a = false) by (destruct (a_last a); [discriminate|reflexivity]).
  cbn [forallb] in Hts. apply andb_prop in Hts. destruct Hts as [Ht Hts].
  assert (Ht' : check_terminator a v = false) by (unfold no_term in Ht; destruct (check_terminator a v); [discriminate|reflexivity]).
  pose proof (get_pos_in c _ a Hg) as Ha.
  assert (Hidx : a_index a <> None) by (rewrite (get_pos_index c _ a Hg); discriminate).
  rewrite (loop_tva_head v vs pos vaf st a Hg Hlast' Htva Hn Hv Ht' HL).
  rewrite (trail_first_x v vs pos st a Ha Hidx Hi).
  cbn [trailx_apply]. rewrite Hsk, Hg, Hm.
  destruct (resolve_pending c st) as [s1|e s|n]; cbn [rbind]; try reflexivity. cbv zeta.
  assert (Hmul : a_is_multiple a = true) by (unfold a_is_multiple; rewrite Hm; reflexivity).
  rewrite Hmul. assert (Hg' : get_pos c (sink_index c pos) = Some a) by (rewrite Hsk; exact Hg).
  pose proof (loop_trail_values_x a pos s1 0 Hg' Hm vs [v] Hts) as L. rewrite Hsk in L. rewrite L. reflexivity.
Qed.

(** * flushing *)
Hypothesis Hddt : is_set s_dont_delimit_trailing c = false.

Lemma sep_flush_ti_x {B} idn a (vs : list bytes) ti st (K : ps -> res B) : In a (c_args c) ->
  (do s1 <- resolve_pending c st; do st2 <- resolve_pending c (set_pending_ti (a_id a) idn vs ti s1); K st2) =
  (do x <- react c (Some idn) SCmdLine a vs None st; K (fst x)).
Proof.
  intros Ha. rewrite <- (sep_flush_x c Hx idn a vs st K Ha). unfold sep_step. rewrite rbind_assoc.
  apply rbind_ext. intros s1 E. cbn [rbind]. rewrite (resolve_ti c Hddt _ _ _ _ _ (resolve_pending_clears _ _ _ E)). reflexivity.
Qed.

Theorem flush_trail_x {B} : forall (vs : list bytes) pos st (K : ps -> res B), wfx_trail pos vs = true ->
  (do s' <- trailx_apply pos vs st; do s2 <- resolve_pending c s'; K s2) =
  (do st0 <- resolve_pending c st; do s2 <- react_all c (trailx_occs pos vs) st0; K s2).
Proof.
  induction vs as [|v vs IH]; intros pos st K Hw.
  - cbn [trailx_apply trailx_occs react_all rbind]. apply rbind_ext. intros; reflexivity.
  - cbn [wfx_trail trailx_apply trailx_occs] in *. destruct (get_pos c (sink_index c pos)) as [a|] eqn:Hg; [|discriminate].
    pose proof (get_pos_in c _ a Hg) as Ha. rewrite rbind_assoc.
    destruct (a_multiple_values a) eqn:Em.
    + etransitivity; [apply (sep_flush_ti_x IIndex a (v :: vs) (Some 0) st K Ha)|].
      cbn [react_all occ_of o_ident o_src o_arg o_raw o_ti]. symmetry.
      etransitivity; [apply rbind_ext; intros x _; apply rbind_assoc|]. cbn [rbind].
      apply (resolve_react c (Some IIndex) SCmdLine a (v :: vs) None st (fun x => K (fst x))).
    + apply andb_prop in Hw. destruct Hw as [_ Hw].
      etransitivity; [apply rbind_ext; intros s1 _; apply (IH _ _ K Hw)|].
      etransitivity; [apply (sep_flush_ti_x IIndex a [v] (Some 0) st _ Ha)|].
      cbn [react_all occ_of o_ident o_src o_arg o_raw o_ti]. symmetry.
      etransitivity; [apply rbind_ext; intros x _; apply rbind_assoc|].
      apply (resolve_react c (Some IIndex) SCmdLine a [v] None st
               (fun x => do s2 <- react_all c (trailx_occs (next_pos a (sink_index c pos)) vs) (fst x); K s2)).
Qed.

(** a [trailing_var_arg] run is well formed as a trail *)
Lemma wfx_tva_trail pos vs : wfx_tva pos vs = true -> wfx_trail pos vs = true.
Proof.
  intros Hw. destruct vs as [|v vs]; [discriminate Hw|]. cbn [wfx_tva] in Hw.
  destruct (get_pos c pos) as [a|] eqn:Hg; [|discriminate].
  apply andb_prop in Hw. destruct Hw as [Hw _].
  apply andb_prop in Hw. destruct Hw as [Hw Hts]. apply andb_prop in Hw. destruct Hw as [Hw Hn].
  apply andb_prop in Hw. destruct Hw as [Hw Hv]. apply andb_prop in Hw. destruct Hw as [Hw Hsk].
  apply andb_prop in Hw. destruct Hw as [Hw Hm]. apply N.eqb_eq in Hsk.
  cbn [wfx_trail]. rewrite Hsk, Hg, Hm. exact Hts.
Qed.

End TrailX.

Lemma trailx_occs_args c : forall (vs : list bytes) pos, Forall (fun o => In (o_arg o) (c_args c)) (trailx_occs c pos vs).
Proof.
  induction vs as [|v vs IH]; intros pos; [constructor|]. cbn [trailx_occs].
  destruct (get_pos c (sink_index c pos)) as [a|] eqn:Hg; [|constructor].
  destruct (a_multiple_values a); constructor; try (apply (get_pos_in c _ a Hg)); [constructor|apply IH].
Qed.

(** in the old class the corrected counter is the counter and no value is a terminator: the old tail is the new one *)
Section OldTrail.
Variable c : cmd.
Hypothesis Hconv : conv c = true.

Lemma sink_index_conv pc : sink_index c pc = pc.
Proof.
  unfold sink_index. destruct (conv_parts c Hconv) as [_ [_ [_ [Hamp _]]]]. rewrite Hamp, (contains_last_false c Hconv). reflexivity.
Qed.
Lemma trailx_apply_conv : forall vs pos st, trailx_apply c pos vs st = trail_apply c pos vs st.
Proof.
  induction vs as [|v vs IH]; intros pos st; [reflexivity|]. cbn [trailx_apply trail_apply]. rewrite sink_index_conv.
  destruct (get_pos c pos) as [a|]; [|reflexivity]. apply rbind_ext. intros s1 _.
  destruct (a_multiple_values a); [reflexivity|]. apply IH.
Qed.
Lemma trailx_occs_conv : forall vs pos, trailx_occs c pos vs = trail_occs c pos vs.
Proof.
  induction vs as [|v vs IH]; intros pos; [reflexivity|]. cbn [trailx_occs trail_occs]. rewrite sink_index_conv.
  destruct (get_pos c pos) as [a|]; [|reflexivity].
  destruct (a_multiple_values a); [reflexivity|]. unfold next_pos. rewrite IH. reflexivity.
Qed.
Lemma wf_trail_wfx : forall vs pos, wf_trail c pos vs = true -> wfx_trail c pos vs = true.
Proof.
  induction vs as [|v vs IH]; intros pos H; [reflexivity|]. cbn [wfx_trail wf_trail] in *. rewrite sink_index_conv.
  destruct (get_pos c pos) as [a|] eqn:Hg; [|discriminate].
  destruct (conv_args c Hconv a (get_pos_in c pos a Hg)) as [_ [_ [_ Ht]]].
  assert (NT : forall w, no_term a w = true) by (intros w; unfold no_term, check_terminator; rewrite Ht; reflexivity).
  destruct (a_multiple_values a).
  - apply forallb_forall. intros w _. apply NT.
  - rewrite NT. cbn [andb]. apply IH. exact H.
Qed.
End OldTrail.
