(** The index discipline of the matcher (C02) as an instance of the primitive-closed state
    predicate of Invariant.v: keys pairwise distinct, every stored index at most the running
    counter, indices of one argument strictly increasing, no index shared by two arguments. *)
From ClapModel Require Import Base.Bytes Base.Machine.
From ClapModel Require Import Parse.Cmd Parse.Build Parse.Valid Parse.Matcher Parse.Errors Parse.Validator Parse.Parser.
From ClapModel Require Import ParseProofs.Safe ParseProofs.Invariant ParseProofs.Totality
                              ParseProofs.Relations ParseProofs.ValidateTotal ParseProofs.TotalityMain.
From Coq Require Import ZArith Lia Sorting.Sorted Sorting.Permutation.
From RecordUpdate Require Import RecordSet.
Import RecordSetNotations.
Open Scope N_scope.

Definition all_indices (l : list (id * marg)) : list N := flat_map (fun p => m_indices (snd p)) l.

Definition idx_inv (l : list (id * marg)) (k : N) : Prop :=
  NoDup (map fst l)
  /\ NoDup (all_indices l)
  /\ Forall (fun i => i <= k) (all_indices l)
  /\ Forall (fun p => StronglySorted N.lt (m_indices (snd p))) l.

(** * decomposition of a FlatMap at a key *)
Lemma fm_get_none_keys {V} i (l : list (id * V)) : fm_get i l = None -> ~ In i (map fst l).
Proof.
  induction l as [|[k v] t IH]; cbn; [tauto|]. destruct (beq k i) eqn:E; [discriminate|].
  intros H [Hk|Hin]; [subst; rewrite beq_refl in E; discriminate|exact (IH H Hin)].
Qed.

Lemma fm_split {V} i (l : list (id * V)) v : fm_get i l = Some v ->
  exists l1 k' l2, l = l1 ++ (k', v) :: l2 /\ k' = i
    /\ (forall f, fm_update i f l = l1 ++ (k', f v) :: l2)
    /\ fst (fm_remove i l) = l1 ++ l2.
Proof.
  induction l as [|[k w] t IH]; cbn; [discriminate|]. destruct (beq k i) eqn:E.
  - intros H; inversion H; subst. apply beq_eq in E. exists [], k, t. cbn. repeat split; auto.
  - intros H. destruct (IH H) as [l1 [k' [l2 [Hl [Hk [Hu Hr]]]]]].
    exists ((k, w) :: l1), k', l2. cbn. split; [rewrite Hl; reflexivity|]. split; [exact Hk|]. split.
    + intros f. rewrite Hu. reflexivity.
    + destruct (fm_remove i t) as [t' b]. cbn in *. rewrite Hr. reflexivity.
Qed.

Lemma fm_none_same {V} i (l : list (id * V)) : fm_get i l = None ->
  (forall f, fm_update i f l = l) /\ fst (fm_remove i l) = l.
Proof.
  induction l as [|[k w] t IH]; cbn; [auto|]. destruct (beq k i); [discriminate|].
  intros H. destruct (IH H) as [Hu Hr]. split.
  - intros f. rewrite Hu. reflexivity.
  - destruct (fm_remove i t) as [t' b]. cbn in *. rewrite Hr. reflexivity.
Qed.

Lemma all_indices_app a b : all_indices (a ++ b) = all_indices a ++ all_indices b.
Proof. unfold all_indices. apply flat_map_app. Qed.

Lemma all_indices_cons k m l : all_indices ((k, m) :: l) = m_indices m ++ all_indices l.
Proof. reflexivity. Qed.
Lemma m_indices_push x m : m_indices (push_index x m) = m_indices m ++ [x].
Proof. reflexivity. Qed.

Lemma NoDup_app_drop {A} (a b c : list A) : NoDup (a ++ b ++ c) -> NoDup (a ++ c).
Proof.
  induction b as [|x b IH]; cbn; [auto|]. intros H. apply IH. eapply NoDup_remove_1. exact H.
Qed.

Lemma Forall_app_drop {A} (Q : A -> Prop) (a b c : list A) : Forall Q (a ++ b ++ c) -> Forall Q (a ++ c).
Proof. rewrite !Forall_app. tauto. Qed.

Lemma NoDup_app_snoc {A} (l : list A) x : NoDup l -> ~ In x l -> NoDup (l ++ [x]).
Proof.
  intros H Hx. eapply Permutation_NoDup; [apply Permutation_cons_append|]. constructor; assumption.
Qed.

Lemma StronglySorted_snoc l x : StronglySorted N.lt l -> Forall (fun y => y < x) l -> StronglySorted N.lt (l ++ [x]).
Proof.
  induction 1 as [|a t Hs IH Ha]; cbn; intros Hf; [repeat constructor|].
  inversion Hf; subst. constructor; [apply IH; assumption|].
  apply Forall_app. split; [exact Ha|constructor; [assumption|constructor]].
Qed.

(** * closure under the primitive operations *)
Lemma idx_inv_bump l k : idx_inv l k -> idx_inv l (k + 1).
Proof.
  intros [H1 [H2 [H3 H4]]]. repeat split; auto. eapply Forall_impl; [|exact H3]. cbn. intros; lia.
Qed.

Lemma idx_inv_remove l k i : idx_inv l k -> idx_inv (fst (fm_remove i l)) k.
Proof.
  intros [H1 [H2 [H3 H4]]]. destruct (fm_get i l) as [v|] eqn:E.
  - destruct (fm_split i l v E) as [l1 [k' [l2 [Hl [_ [_ Hr]]]]]]. rewrite Hr. subst l.
    rewrite map_app in H1. cbn in H1. rewrite all_indices_app in H2, H3. cbn in H2, H3.
    rewrite Forall_app in H4. destruct H4 as [H4a H4b]. inversion H4b; subst.
    repeat split.
    + rewrite map_app. eapply NoDup_remove_1. exact H1.
    + rewrite all_indices_app. eapply NoDup_app_drop. exact H2.
    + rewrite all_indices_app. eapply Forall_app_drop. exact H3.
    + apply Forall_app. split; assumption.
  - destruct (fm_none_same i l E) as [_ Hr]. rewrite Hr. repeat split; assumption.
Qed.

Lemma idx_inv_update_same l k i v f : idx_inv l k -> fm_get i l = Some v ->
  m_indices (f v) = m_indices v -> idx_inv (fm_update i f l) k.
Proof.
  intros [H1 [H2 [H3 H4]]] E Hf.
  destruct (fm_split i l v E) as [l1 [k' [l2 [Hl [_ [Hu _]]]]]]. rewrite Hu. subst l.
  repeat split.
  - rewrite map_app in *. exact H1.
  - rewrite all_indices_app in *. cbn in *. rewrite Hf. exact H2.
  - rewrite all_indices_app in *. cbn in *. rewrite Hf. exact H3.
  - rewrite Forall_app in *. destruct H4 as [H4a H4b]. inversion H4b; subst. split; [exact H4a|].
    constructor; [cbn in *; rewrite Hf; assumption|assumption].
Qed.

Lemma idx_inv_entry l k i ic grp s : idx_inv l k ->
  idx_inv (fm_entry_or_insert i (marg_new ic grp) (fun m => new_val_group (set_source s m)) l) k.
Proof.
  intros H. unfold fm_entry_or_insert, fm_contains. destruct (fm_get i l) as [v|] eqn:E; cbn [is_some].
  - eapply idx_inv_update_same; [exact H|exact E|reflexivity].
  - destruct H as [H1 [H2 [H3 H4]]]. repeat split.
    + rewrite map_app. cbn. apply NoDup_app_snoc; [exact H1|apply fm_get_none_keys; exact E].
    + rewrite all_indices_app. cbn. rewrite app_nil_r. exact H2.
    + rewrite all_indices_app. cbn. rewrite app_nil_r. exact H3.
    + apply Forall_app. split; [exact H4|]. constructor; [cbn; constructor|constructor].
Qed.

Lemma idx_inv_addval l k i m m' v : idx_inv l k -> fm_get i l = Some m -> append_val v m = Some m' ->
  idx_inv (fm_update i (fun _ => m') l) k.
Proof.
  intros H E Ha. eapply idx_inv_update_same; [exact H|exact E|].
  unfold append_val in Ha. destruct (push_last v (m_raw m)); inversion Ha. reflexivity.
Qed.

Lemma idx_inv_push l k i m m' v : trivV v -> idx_inv l k -> fm_get i l = Some m -> append_val v m = Some m' ->
  idx_inv (fm_update i (push_index (k + 1)) (fm_update i (fun _ => m') l)) (k + 1).
Proof.
  intros _ H E Ha. pose proof (idx_inv_addval l k i m m' v H E Ha) as [H1 [H2 [H3 H4]]].
  assert (E' : fm_get i (fm_update i (fun _ => m') l) = Some m') by (rewrite fm_get_update, E, beq_refl; reflexivity).
  set (l' := fm_update i (fun _ => m') l) in *.
  destruct (fm_split i l' m' E') as [l1 [k' [l2 [Hl [_ [Hu _]]]]]]. rewrite Hu.
  rewrite Hl in H1, H2, H3, H4.
  assert (Hperm : Permutation (all_indices (l1 ++ (k', push_index (k + 1) m') :: l2))
                              ((k + 1) :: all_indices (l1 ++ (k', m') :: l2))).
  { rewrite !all_indices_app, !all_indices_cons, m_indices_push. symmetry.
    replace (all_indices l1 ++ (m_indices m' ++ [k + 1]) ++ all_indices l2)
      with ((all_indices l1 ++ m_indices m') ++ (k + 1) :: all_indices l2)
      by (rewrite <- !app_assoc; reflexivity).
    apply Permutation_cons_app. rewrite <- app_assoc. reflexivity. }
  assert (Hfresh : ~ In (k + 1) (all_indices (l1 ++ (k', m') :: l2))).
  { intros Hin. rewrite Forall_forall in H3. specialize (H3 _ Hin). lia. }
  repeat split.
  - rewrite map_app in *. exact H1.
  - eapply Permutation_NoDup; [symmetry; exact Hperm|]. constructor; assumption.
  - eapply Permutation_Forall; [symmetry; exact Hperm|]. constructor; [lia|].
    eapply Forall_impl; [|exact H3]. cbn; intros; lia.
  - rewrite Forall_app in *. destruct H4 as [H4a H4b]. inversion H4b; subst. split; [exact H4a|].
    constructor; [|assumption]. cbn [snd]. rewrite m_indices_push. apply StronglySorted_snoc; [assumption|].
    rewrite all_indices_app, all_indices_cons in H3. rewrite !Forall_app in H3. destruct H3 as [_ [H3 _]].
    eapply Forall_impl; [|exact H3]. cbn; intros; lia.
Qed.

Theorem idx_inv_closed c : closedP c trivV idx_inv.
Proof.
  unfold closedP. split; [exact idx_inv_bump|]. split; [exact idx_inv_remove|].
  split; [exact idx_inv_entry|]. split; [intros l k i j m m' v _; apply idx_inv_addval|]. split; [exact idx_inv_push|].
  repeat split; constructor.
Qed.

(** * the theorems *)
(** every successful level of the recursion (any depth, any entry state satisfying the invariant) *)
Theorem level_indices fuel c toks st0 st :
  tree_ok fuel c -> G c idx_inv trivV st0 -> get_matches_with fuel c toks st0 = ROk st ->
  idx_inv (mt_args (mt st)) (cur_idx st).
Proof.
  intros Hok HG Hr.
  assert (Hvt : forall c m, wfc c -> assert_app c = true -> entries_ok c (mt_args m) -> forall s, validate c m <> VPanic s).
  { intros c' m _ Happ He s. apply validate_total; [apply assert_app_rel_wf; exact Happ|exact He]. }
  pose proof (gmw_safe (fun _ _ => trivV) (fun _ _ => idx_inv) (fun c' _ => idx_inv_closed c') trivV_ok Hvt fuel c toks st0 Hok HG) as Hs.
  rewrite Hr in Hs. cbn in Hs. apply Hs.
Qed.

(** the root level of a parse of a valid, plain command: the matcher as validated
    (before global values are copied between levels) *)
Theorem root_indices c0 toks st :
  plain c0 = true -> valid c0 = true ->
  get_matches_with (S (S (depth (build_self c0)))) (build_self c0) toks ps_new = ROk st ->
  idx_inv (mt_args (mt st)) (cur_idx st).
Proof.
  intros Hp Hv Hr. unfold valid in Hv. cbn zeta in Hv.
  eapply level_indices; [apply tree_ok_of_valid; eassumption| |exact Hr].
  apply G_ps_new. destruct (idx_inv_closed (build_self c0)) as [_ [_ [_ [_ [_ H0]]]]]. exact H0.
Qed.

(** * consequence for C03: the key-uniqueness hypothesis of the validator's soundness theorem
      holds of the state the parser hands to it *)
Theorem parse_relations c0 toks m :
  plain c0 = true -> valid c0 = true ->
  do_parse c0 toks = OOk m -> is_set s_ignore_errors (build_self c0) = false ->
  exists st, run_level c0 toks = ROk st /\ m = reported c0 st /\ Relations (build_self c0) (mt st).
Proof.
  intros Hp Hv Hd Hi. destruct (do_parse_sound c0 toks m Hd Hi) as [st [Hr [Hm Hrel]]].
  exists st. split; [exact Hr|split; [exact Hm|]]. apply Hrel.
  unfold fm_wf. unfold run_level in Hr. cbn zeta in Hr.
  apply (root_indices c0 toks st Hp Hv Hr).
Qed.

Theorem level_relations fuel c toks st0 st :
  tree_ok fuel c -> G c idx_inv trivV st0 -> get_matches_with fuel c toks st0 = ROk st ->
  Relations c (mt st).
Proof.
  intros Hok HG Hr. destruct fuel as [|f]; [destruct Hok|]. pose proof Hok as [_ [Happ _]].
  apply (gmw_sound (S f) c toks st0 st Happ Hr). unfold fm_wf.
  apply (level_indices (S f) c toks st0 st Hok HG Hr).
Qed.
