(** Property C06, whole-line theorems: non-vacuity and the refutation witness.
    One command with every origin on one line, a subcommand level, and an override chain. *)
From ClapModel Require Import Base.Bytes Base.Machine Base.Utf8 Lex.OsStrExtModel.
From ClapModel Require Import Parse.Cmd Parse.Build Parse.Valid Parse.Matcher Parse.Errors Parse.Validator Parse.Parser.
From ClapModel Require Import ParseProofs.Totality ParseProofs.Actions ParseProofs.Sources ParseProofs.Unparse ParseProofs.UnparseProofs ParseProofs.UnparseTop
                              ParseProofs.UnparseSub ParseProofs.UnparseTrail ParseProofs.UnparseTree ParseProofs.KindSound ParseProofs.SourcesLine
                              ParseProofs.SourcesDefaults ParseProofs.SourcesLineGlobals.
From Coq Require Import ZArith List Bool.
From RecordUpdate Require Import RecordSet.
Import RecordSetNotations.
Import ListNotations.
Open Scope N_scope.

Module SrcEx.
  (** prog --aa <v> (Set, env = "E1", default "d")
           --bb <v> (Set, default_value_if(aa present, "x"), default "y")
           -m/--mm [<v>] (Set, 0..1 values, default-missing "M")
           --ff (SetTrue, overrides kk)   --gg (SetTrue, overrides aa)   --hh (SetTrue, overrides gg)
           --kk <v> (Set, default "k")    --nn <v> (Set)
           --ee <v> (Set, env = "E2,3", delimiter ',')
      run: --xx <v> (Set, default "q")  --zz (SetTrue) *)
  Definition a : arg := (arg_new [97]) <| a_long := Some [97;97] |> <| a_action := Some ASet |> <| a_env := Some [69;49] |> <| a_default := [[100]] |>.
  Definition b : arg := (arg_new [98]) <| a_long := Some [98;98] |> <| a_action := Some ASet |>
                         <| a_default_ifs := [([97], PIsPresent, Some [120])] |> <| a_default := [[121]] |>.
  Definition m : arg := (arg_new [109]) <| a_short := Some 109 |> <| a_long := Some [109;109] |> <| a_action := Some ASet |>
                          <| a_num := Some {| vmin := 0; vmax := 1 |} |> <| a_default_missing := [[77]] |>.
  Definition f : arg := (arg_new [102]) <| a_long := Some [102;102] |> <| a_action := Some ASetTrue |> <| a_overrides := [[107]] |>.
  Definition g : arg := (arg_new [103]) <| a_long := Some [103;103] |> <| a_action := Some ASetTrue |> <| a_overrides := [[97]] |>.
  Definition h : arg := (arg_new [104]) <| a_long := Some [104;104] |> <| a_action := Some ASetTrue |> <| a_overrides := [[103]] |>.
  Definition k : arg := (arg_new [107]) <| a_long := Some [107;107] |> <| a_action := Some ASet |> <| a_default := [[107]] |>.
  Definition n : arg := (arg_new [110]) <| a_long := Some [110;110] |> <| a_action := Some ASet |>.
  Definition e : arg := (arg_new [101]) <| a_long := Some [101;101] |> <| a_action := Some ASet |> <| a_env := Some [69;50;44;51] |> <| a_delim := Some 44 |>.
  Definition x : arg := (arg_new [120]) <| a_long := Some [120;120] |> <| a_action := Some ASet |> <| a_default := [[113]] |>.
  Definition z : arg := (arg_new [122]) <| a_long := Some [122;122] |> <| a_action := Some ASetTrue |>.
  Definition run : cmd := (cmd_new [114; 117; 110]) <| c_args := [x; z] |>.
  Definition t0 : cmd := (cmd_new [112]) <| c_args := [a; b; m; f; g; h; k; n; e] |> <| c_subs := [run] |>.
  Definition tbin : bytes := [112].
  Definition cb : cmd := build_self (with_bin t0 tbin).

  (** prog --kk=V --mm --ff run --zz *)
  Definition its : list item := [ItLongEq [107;107] [86]; ItLongSep [109;109] []; ItLong [102;102]].
  Definition sinv : inv := ILeaf [ItLong [122;122]].
  Definition tinv : inv := ISub its [114;117;110] sinv.
  (** prog --aa=V --gg --hh *)
  Definition rinv : inv := ILeaf [ItLongEq [97;97] [86]; ItLong [103;103]; ItLong [104;104]].

  Example ex_nobin : is_set s_no_binary_name t0 = false. Proof. reflexivity. Qed.
  Example ex_valid : valid (with_bin t0 tbin) = true. Proof. vm_compute. reflexivity. Qed.
  Example ex_plain : plain (with_bin t0 tbin) = true. Proof. vm_compute. reflexivity. Qed.
  Example ex_wf : wf_inv cb tinv = true. Proof. vm_compute. reflexivity. Qed.
  Example ex_wf_r : wf_inv cb rinv = true. Proof. vm_compute. reflexivity. Qed.
  Example ex_no_globals : no_globals (build_recursive (S (S (depth cb))) (with_bin t0 tbin)) = true.
  Proof. vm_compute. reflexivity. Qed.
  Example ex_render : render_inv tinv = [[45;45;107;107;61;86]; [45;45;109;109]; [45;45;102;102]; [114;117;110]; [45;45;122;122]]
                      /\ render_inv rinv = [[45;45;97;97;61;86]; [45;45;103;103]; [45;45;104;104]].
  Proof. split; vm_compute; reflexivity. Qed.

  Definition summary (ms : matches) : list (id * option src * list (list bytes)) :=
    map (fun p => (fst p, m_source (snd p), m_raw (snd p))) (ms_args ms).

  (** every origin on one line: [mm] named without a value (missing-value default "M"), [ff] named,
      [aa] from the environment, [ee] from the environment split at ',', [bb] by its conditional
      default (the rule sees [aa]'s environment entry), [kk] NAMED BUT OVERRIDDEN by the later [--ff]:
      its plain default, [gg]/[hh] the implicit flag defaults, [nn] absent; the subcommand level
      has [zz] named and [xx] defaulted *)
  Example ex_parse : exists ms sm,
    parse_top t0 (tbin :: render_inv tinv) = OOk ms /\ ms_sub ms = Some ([114;117;110], sm) /\
    summary ms = [([109], Some SCmdLine, [[[77]]]); ([102], Some SCmdLine, [[s_true]]);
                  ([97], Some SEnv, [[[69;49]]]); ([101], Some SEnv, [[[69;50]; [51]]]);
                  ([98], Some SDefault, [[[120]]]); ([103], Some SDefault, [[s_false]]);
                  ([104], Some SDefault, [[s_false]]); ([107], Some SDefault, [[[107]]])] /\
    summary sm = [([122], Some SCmdLine, [[s_true]]); ([120], Some SDefault, [[[113]]])].
  Proof. eexists. eexists. split; [vm_compute; reflexivity|]. repeat split. Qed.

  Example ex_named :
    map (fun a => (a_id a, named_alive cb (a_id a) (inv_occs cb tinv))) (c_args cb) =
    [([97], false); ([98], false); ([109], true); ([102], true); ([103], false); ([104], false);
     ([107], false); ([110], false); ([101], false); ([104; 101; 108; 112], false)].
  Proof. vm_compute. reflexivity. Qed.

  (** the subcommand level is reached by [at_level] *)
  Definition ms0 : matches := match parse_top t0 (tbin :: render_inv tinv) with OOk ms => ms | _ => Matches [] None end.
  Definition scb : cmd := match child cb [114;117;110] with Some s => s | None => cb end.
  Definition sm0 : matches := match ms_sub ms0 with Some (_, sm) => sm | None => Matches [] None end.
  Example ex_at_level :
    parse_top t0 (tbin :: render_inv tinv) = OOk ms0 /\ at_level cb tinv ms0 scb sinv sm0 /\
    summary sm0 = [([122], Some SCmdLine, [[s_true]]); ([120], Some SDefault, [[[113]]])].
  Proof.
    split; [vm_compute; reflexivity|]. split; [|vm_compute; reflexivity].
    apply (AL_down cb its [114;117;110] sinv ms0 scb sm0 scb sinv sm0);
      [vm_compute; reflexivity|vm_compute; reflexivity|apply AL_here].
  Qed.

  (** hypotheses of [missing_value_line] for the item [--mm] (no value) of the line above *)
  Example ex_missing_value_hyps : exists o,
    inv_items tinv = [ItLongEq [107;107] [86]] ++ ItLongSep [109;109] [] :: [ItLong [102;102]] /\
    item_occs cb (items_pos cb 1 [ItLongEq [107;107] [86]]) (ItLongSep [109;109] []) = [] ++ [o] /\
    a_id (o_arg o) = [109] /\ o_raw o = [] /\ a_default_missing (o_arg o) = [[77]] /\
    a_get_action (o_arg o) = ASet /\
    Forall (quiet cb (a_id (o_arg o)))
           (occs cb (items_pos cb 1 ([ItLongEq [107;107] [86]] ++ [ItLongSep [109;109] []])) [ItLong [102;102]] ++ trail_part cb tinv).
  Proof.
    eexists. split; [reflexivity|]. split; [vm_compute; reflexivity|]. split; [reflexivity|]. split; [reflexivity|].
    split; [reflexivity|]. split; [reflexivity|]. vm_compute. repeat constructor.
  Qed.

  (** REFUTED: "an EnvVariable label implies that no token of the line names the argument".
      [prog --aa=V --gg --hh]: [--gg] overrides (removes) [aa], [--hh] removes [gg], the environment
      then gives [aa] its value: the parse succeeds, [aa] is labelled EnvVariable, and the token
      [--aa=V] names it.  (Without [--hh] the same line is an ArgumentConflict: an override is also
      a conflict once the environment has re-added the argument.) *)
  Definition rms : matches := match parse_top t0 (tbin :: render_inv rinv) with OOk ms => ms | _ => Matches [] None end.
  Definition ra : arg := match find_arg cb [97] with Some x => x | None => a end.
  Definition re : marg := match fm_get [97] (ms_args rms) with Some x => x | None => marg_new false false end.
  Definition rtok : bytes := [45;45;97;97;61;86].
  Theorem env_named_refuted : exists c0 bin i ms a0 e0 tok,
    valid (with_bin c0 bin) = true /\ plain (with_bin c0 bin) = true /\ wf_inv (build_self (with_bin c0 bin)) i = true /\
    parse_top c0 (bin :: render_inv i) = OOk ms /\
    In a0 (c_args (build_self (with_bin c0 bin))) /\ fm_get (a_id a0) (ms_args ms) = Some e0 /\
    m_source e0 = Some SEnv /\ In tok (render_inv i) /\ token_names (build_self (with_bin c0 bin)) tok a0.
  Proof.
    exists t0, tbin, rinv, rms, ra, re, rtok.
    split; [exact ex_valid|]. split; [exact ex_plain|]. split; [exact ex_wf_r|].
    split; [vm_compute; reflexivity|].
    split; [vm_compute; left; reflexivity|]. split; [vm_compute; reflexivity|]. split; [vm_compute; reflexivity|].
    split; [left; reflexivity|].
    left. exists [97;97], true, (Some [86]). split; [vm_compute; reflexivity|]. left. vm_compute. reflexivity.
  Qed.

  (** non-interference of default values: the same definition with other plain defaults
      ([kk]: "Z" instead of "k", [aa]: none, [nn]: "N", [bb]: "w" instead of "y"), the same line *)
  Definition f2 (x : arg) : list bytes :=
    if beq (a_id x) [107] then [[90]] else if beq (a_id x) [97] then [] else if beq (a_id x) [110] then [[78]]
    else if beq (a_id x) [98] then [[119]] else a_default x.
  Definition t2 : cmd :=
    (cmd_new [112]) <| c_args := [a <| a_default := [] |>; b <| a_default := [[119]] |>; m; f; g; h;
                                  k <| a_default := [[90]] |>; n <| a_default := [[78]] |>; e] |> <| c_subs := [run] |>.
  Example ex_ni_hyps :
    is_set s_no_binary_name t2 = false /\ valid (with_bin t2 tbin) = true /\
    build_self (with_bin t2 tbin) = with_defaults f2 cb /\ wf_inv (with_defaults f2 cb) tinv = true /\
    no_globals (build_recursive (S (S (depth (build_self (with_bin t2 tbin))))) (with_bin t2 tbin)) = true.
  Proof.
    split; [reflexivity|]. split; [vm_compute; reflexivity|]. split; [vm_compute; reflexivity|].
    split; vm_compute; reflexivity.
  Qed.
  Example ex_ni_parse : exists ms2,
    parse_top t2 (tbin :: render_inv tinv) = OOk ms2 /\
    summary ms2 = [([109], Some SCmdLine, [[[77]]]); ([102], Some SCmdLine, [[s_true]]);
                   ([97], Some SEnv, [[[69;49]]]); ([101], Some SEnv, [[[69;50]; [51]]]);
                   ([98], Some SDefault, [[[120]]]); ([103], Some SDefault, [[s_false]]);
                   ([104], Some SDefault, [[s_false]]); ([107], Some SDefault, [[[90]]]); ([110], Some SDefault, [[[78]]])].
  Proof. eexists. split; [vm_compute; reflexivity|]. reflexivity. Qed.

  (** a tree with a global argument: prog --aa (env) --gl <v> (Set, GLOBAL, default "0") --nn <v>; run as above.
      line: prog --nn=V run --gl=S --zz.  The parser stores [gl] = "0" (DefaultValue) at the root and
      [gl] = "S" (CommandLine) in [run]; the reported root entry is the merged one (CommandLine "S"). *)
  Definition gl : arg := (arg_new [103;108]) <| a_long := Some [103;108] |> <| a_action := Some ASet |> <| a_global := true |> <| a_default := [[48]] |>.
  Definition t3 : cmd := (cmd_new [112]) <| c_args := [a; gl; n] |> <| c_subs := [run] |>.
  Definition cb3 : cmd := build_self (with_bin t3 tbin).
  Definition ginv : inv := ISub [ItLongEq [110;110] [86]] [114;117;110] (ILeaf [ItLongEq [103;108] [83]; ItLong [122;122]]).
  Definition gmp : matches := match parse_top t3 (tbin :: render_inv ginv) with OOk ms => ms | _ => Matches [] None end.
  Definition gst : ps := match run_inv cb3 ginv with ROk st => st | _ => ps_new end.
  Example ex_globals :
    valid (with_bin t3 tbin) = true /\ wf_inv cb3 ginv = true /\
    no_globals (build_recursive (S (S (depth cb3))) (with_bin t3 tbin)) = false /\
    parse_top t3 (tbin :: render_inv ginv) = OOk gmp /\ run_inv cb3 ginv = ROk gst /\
    summary (into_inner (mt gst)) = [([110], Some SCmdLine, [[[86]]]); ([97], Some SEnv, [[[69;49]]]); ([103;108], Some SDefault, [[[48]]])] /\
    summary gmp = [([110], Some SCmdLine, [[[86]]]); ([97], Some SEnv, [[[69;49]]]); ([103;108], Some SCmdLine, [[[83]]])] /\
    at_level2 cb3 ginv (into_inner (mt gst)) gmp cb3 ginv (into_inner (mt gst)) gmp.
  Proof.
    split; [vm_compute; reflexivity|]. split; [vm_compute; reflexivity|]. split; [vm_compute; reflexivity|].
    split; [vm_compute; reflexivity|]. split; [vm_compute; reflexivity|]. split; [vm_compute; reflexivity|].
    split; [vm_compute; reflexivity|]. apply AL2_here.
  Qed.

  (** changing only [kk] and [nn] (no conditional default reads them): the class [difs_avoid_b] holds;
      with [f2] it does not ([bb]'s rule reads [aa], whose default [f2] removes) *)
  Definition f3 (x : arg) : list bytes :=
    if beq (a_id x) [107] then [[90]] else if beq (a_id x) [110] then [[78]] else a_default x.
  Definition st_of (r : res ps) : ps := match r with ROk st => st | _ => ps_new end.
  Example ex_unchanged :
    difs_avoid_b f3 cb = true /\ difs_avoid_b f2 cb = false /\ wf_inv (with_defaults f3 cb) tinv = true /\
    run_inv cb tinv = ROk (st_of (run_inv cb tinv)) /\
    run_inv (with_defaults f3 cb) tinv = ROk (st_of (run_inv (with_defaults f3 cb) tinv)) /\
    summary (into_inner (mt (st_of (run_inv (with_defaults f3 cb) tinv)))) =
      [([109], Some SCmdLine, [[[77]]]); ([102], Some SCmdLine, [[s_true]]);
       ([97], Some SEnv, [[[69;49]]]); ([101], Some SEnv, [[[69;50]; [51]]]);
       ([98], Some SDefault, [[[120]]]); ([103], Some SDefault, [[s_false]]);
       ([104], Some SDefault, [[s_false]]); ([107], Some SDefault, [[[90]]]); ([110], Some SDefault, [[[78]]])].
  Proof.
    split; [vm_compute; reflexivity|]. split; [vm_compute; reflexivity|]. split; [vm_compute; reflexivity|].
    split; [vm_compute; reflexivity|]. split; [vm_compute; reflexivity|]. vm_compute. reflexivity.
  Qed.
End SrcEx.
