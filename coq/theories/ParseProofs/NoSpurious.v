(** Property C10, fourth pass: "inputs that break no rule are not rejected" as an INDEPENDENT statement.

    Part 1 (this file): the rule set of ONE command level, stated declaratively on the occurrences an
    invocation denotes (C02's [occs] / C07's abstract fold [step_abs]; no parser function occurs in a rule),
    and the level theorem: when the rules hold, the fold of [react] over the occurrences succeeds
    ([react_all_ok]), the defaults phase succeeds ([add_defaults_ok]) and the validator accepts
    ([post_loop_ok_rules]).  The matcher the level ends in REPORTS the denotation ([reports]): per argument
    exactly the groups of C07's fold, flagged explicit, with the argument's case-folding flag; a group id is
    present only if one of its members occurred.

    Rules, per occurrence [o] of the level ([occ_rules]):
      (a) the number of raw values is inside the argument's declared range ([count_in_range], C10 round 1);
      (b) every value the occurrence stores -- the pieces of each raw value at the argument's delimiter
          ([SplitSpec], C14), the default-missing values when it has none, the literal of a flag -- is in the
          argument's parser language ([in_lang], C04/C10 round 1);
      (h) the argument's action stores (it is not a help / version request);
    per level:
      (d) a Set-like argument without self-override occurs only when it is not stored at that point
          ([no_repeat]: C07's fold over the occurrences before it is [None]);
      (e) the declared default values are in the language too ([defaults_ok]: a configuration rule);
      (c) every matcher that reports the denotation satisfies C03's [Relations], and the two checks of the
          validator that are not relations: no subcommand => not [subcommand_required], and not
          ([arg_required_else_help] with an empty line). *)
From ClapModel Require Import Base.Bytes Base.Machine Base.Utf8 Lex.OsStrExtModel Lex.OsStrExtProofs.
From ClapModel Require Import Parse.Cmd Parse.Build Parse.Valid Parse.Matcher Parse.Errors Parse.Validator Parse.Parser.
From ClapModel Require Import ParseProofs.Safe ParseProofs.Actions ParseProofs.Sources ParseProofs.ErrorSound ParseProofs.Relations
                              ParseProofs.RelationsClauses ParseProofs.ValidateTotal ParseProofs.RelationsComplete ParseProofs.RelationsCompleteAll
                              ParseProofs.Unparse ParseProofs.UnparseTop ParseProofs.UnparseSub ParseProofs.UnparseLift.
From Coq Require Import ZArith Lia List Bool.
From RecordUpdate Require Import RecordSet.
Import RecordSetNotations.
Import ListNotations.
Open Scope N_scope.

(** * 1. the rules of one occurrence *)
Definition storing (a : arg) : bool :=
  match a_get_action a with ASet | AAppend | ASetTrue | ASetFalse | ACount => true | _ => false end.

(** the raw values an occurrence contributes: its own, or the default-missing values when it has none *)
Definition eff_raw (a : arg) (raw : list bytes) : list bytes := match raw with [] => a_default_missing a | _ => raw end.
(** the pieces of one raw value: cut at the argument's delimiter, if it has one *)
Definition pieces (a : arg) (v : bytes) (ps : list bytes) : Prop :=
  match a_delim a with Some d => pieces_of (encode_utf8 d) v ps | None => ps = [v] end.
(** the values a storing action pushes (C15's [stored_vals], restated: the literal of a flag) *)
Definition pushed (a : arg) (vals : list bytes) : list bytes :=
  match a_get_action a with
  | ASetTrue => match vals with [] => [s_true] | _ => vals end
  | ASetFalse => match vals with [] => [s_false] | _ => vals end
  | _ => vals
  end.
(** (b): every stored value is in the language; a counter without explicit value stores a decimal <= 255,
    which is in the language of the counter parser *)
Definition values_ok (a : arg) (raw : list bytes) : Prop :=
  exists vp, a_vp a = Some vp /\
    forall pss, Forall2 (pieces a) (eff_raw a raw) pss ->
      Forall (in_lang vp) (pushed a (concat pss))
      /\ (a_get_action a = ACount -> concat pss = [] -> vp = VPCount).
(** (a) *)
Definition count_ok_occ (a : arg) (raw : list bytes) : Prop :=
  exists r, a_num a = Some r /\ count_in_range r (N.of_nat (length raw)).

Definition occ_rules (o : occ) : Prop :=
  storing (o_arg o) = true /\ count_ok_occ (o_arg o) (o_raw o) /\ values_ok (o_arg o) (o_raw o).

(** an occurrence of the command line, of an argument of the level *)
Definition line_occ (c : cmd) (o : occ) : Prop :=
  o_src o = SCmdLine /\ o_ti o = None /\ In (o_arg o) (c_args c).

(** * 2. one [react] succeeds *)
Lemma occ_values_eff c a raw : occ_values c a raw None = delimit c a (eff_raw a raw) None.
Proof.
  unfold occ_values, eff_raw. destruct raw as [|r t]; [|reflexivity].
  destruct (a_default_missing a) as [|d t]; reflexivity.
Qed.

Lemma occ_values_pieces c a raw :
  exists pss, Forall2 (pieces a) (eff_raw a raw) pss /\ occ_values c a raw None = Some (concat pss).
Proof.
  rewrite occ_values_eff. unfold pieces. destruct (a_delim a) as [d|] eqn:Ed.
  - exact (delimit_bytes c a d (eff_raw a raw) Ed).
  - exists (map (fun v => [v]) (eff_raw a raw)). split.
    + induction (eff_raw a raw) as [|v t IH]; cbn [map]; constructor; [reflexivity|exact IH].
    + rewrite (delimit_none c a _ None Ed). f_equal.
      induction (eff_raw a raw) as [|v t IH]; cbn [map concat app]; [reflexivity|f_equal; exact IH].
Qed.

Lemma start_push_succeeds c a s vp vals (st0 : Parser.ps) m :
  wf_m m -> ~ In (a_id a) (groups_for_arg c (a_id a)) -> a_vp a = Some vp ->
  Forall (fun v => vp_parse vp v = None) vals ->
  exists st', (do m2 <- start_custom_arg c a s m; push_arg_values c a vals (st0 <| mt := m2 |>)) = ROk st'.
Proof.
  intros Hwf Hng Evp Hall.
  destruct (start_custom_arg_spec c a s m Hwf) as [m2 [E2 [W2 [P2 [G2 F2]]]]].
  rewrite E2. cbn [rbind]. specialize (G2 Hng). rewrite <- (set_mt_mt st0 m2) in W2, G2.
  set (ma0 := opt_default (marg_new (a_ignore_case a) false) (own_prev c s a (get (a_id a) m))) in *.
  assert (R2 : m_raw (new_val_group (set_source s ma0)) = m_raw ma0 ++ [[]]) by (destruct ma0; reflexivity).
  exact (push_arg_values_ok c a vp Evp vals _ _ _ _ Hall W2 G2 R2).
Qed.

Lemma in_lang_all vp vals : Forall (in_lang vp) vals -> Forall (fun v => vp_parse vp v = None) vals.
Proof. intros H. eapply Forall_impl; [|exact H]. intros v Hv. apply vp_parse_accepts_iff. exact Hv. Qed.

(** ONE OCCURRENCE SUCCEEDS, any source: count inside the range (command line), stored values in the
    language, a storing action, and a Set-like argument either absent or self-overriding *)
Theorem react_core_succeeds c idn s a raw st :
  wf_m (mt st) -> ~ In (a_id a) (groups_for_arg c (a_id a)) ->
  (s = SCmdLine -> count_ok_occ a raw) -> storing a = true -> values_ok a raw ->
  (set_family a = true -> mt_contains (mt st) (a_id a) = false \/ self_override c a = true) ->
  exists st', react_core c idn s a raw None st = ROk (st', PRValuesDone).
Proof.
  intros Hwf Hng Hcnt Hsto [vp [Evp Hval]] Hrep. rewrite Actions.react_core_unfold.
  assert (Hv : (if is_cmdline s then verify_num_args c a raw st else ROk tt) = ROk tt).
  { destruct s; cbn [is_cmdline]; try reflexivity.
    destruct (Hcnt eq_refl) as [r [Er Hr]]. exact (verify_num_args_complete c a raw st r Er Hr). }
  rewrite Hv. cbn [rbind].
  destruct (occ_values_pieces c a raw) as [pss [Hp Eo]]. rewrite Eo. cbn [expect rbind].
  destruct (Hval pss Hp) as [Hlang Hcount]. apply in_lang_all in Hlang.
  set (vals := concat pss) in *. unfold react_action. unfold pushed in Hlang. unfold storing in Hsto. unfold set_family in Hrep.
  assert (SL : forall vs bump, Forall (fun v => vp_parse vp v = None) vs ->
            (mt_contains (mt st) (a_id a) = false \/ self_override c a = true) ->
            exists st', set_like c idn s a vs bump st = ROk (st', PRValuesDone)).
  { intros vs bump Hvs Hc. unfold set_like.
    set (st0 := if bump && is_cmdline s && is_flag_ident idn then ps_bump st else st).
    assert (Em : mt st0 = mt st) by (unfold st0; destruct (bump && is_cmdline s && is_flag_ident idn); [apply ps_bump_mt|reflexivity]).
    rewrite Em. pose proof (mt_remove_wf (mt st) (a_id a) Hwf) as W1. pose proof (mt_remove_removed (mt st) (a_id a)) as R1.
    destruct (mt_remove (mt st) (a_id a)) as [m1 removed]. cbn [fst snd] in W1, R1. rewrite R1.
    assert (Ec : mt_contains (mt st) (a_id a) && negb (self_override c a) = false).
    { destruct Hc as [Hc|Hc]; rewrite Hc; [reflexivity|apply andb_false_r]. }
    rewrite Ec.
    destruct (start_push_succeeds c a s vp vs (st0 <| mt := m1 |>) m1 W1 Hng Evp Hvs) as [st' E'].
    destruct (start_custom_arg c a s m1) as [m2|e s0|n]; cbn [rbind] in E' |- *; try discriminate E'.
    rewrite E'. cbn [rbind]. eexists. reflexivity. }
  destruct (a_get_action a) eqn:Ea; try discriminate Hsto.
  - apply SL; [exact Hlang|apply Hrep; reflexivity].
  - set (st0 := if is_cmdline s && is_flag_ident idn then ps_bump st else st).
    assert (Em : mt st0 = mt st) by (unfold st0; destruct (is_cmdline s && is_flag_ident idn); [apply ps_bump_mt|reflexivity]).
    rewrite Em. destruct (start_push_succeeds c a s vp vals st0 (mt st) Hwf Hng Evp Hlang) as [st' E'].
    destruct (start_custom_arg c a s (mt st)) as [m2|e s0|n]; cbn [rbind] in E' |- *; try discriminate E'.
    rewrite E'. cbn [rbind]. eexists. reflexivity.
  - apply SL; [exact Hlang|apply Hrep; reflexivity].
  - apply SL; [exact Hlang|apply Hrep; reflexivity].
  - set (vals' := match vals with [] => [n_to_dec (N.min 255 (existing_count a (mt st) + 1))] | _ => vals end).
    assert (Hl' : Forall (fun v => vp_parse vp v = None) vals').
    { unfold vals'. destruct vals as [|v0 vt] eqn:Ev; [|exact Hlang].
      rewrite (Hcount eq_refl eq_refl). constructor; [|constructor].
      apply dec_accept. apply N.le_min_l. }
    pose proof (mt_remove_wf (mt st) (a_id a) Hwf) as W1.
    destruct (mt_remove (mt st) (a_id a)) as [m1 removed]. cbn [fst] in W1.
    destruct (start_push_succeeds c a s vp vals' st m1 W1 Hng Evp Hl') as [st' E'].
    destruct (start_custom_arg c a s m1) as [m2|e s0|n]; cbn [rbind] in E' |- *; try discriminate E'.
    rewrite E'. cbn [rbind]. eexists. reflexivity.
Qed.

(** * 3. the case-folding flag of an argument's entry is the argument's *)
Lemma push_arg_values_ic c a : forall raw st st' e,
  push_arg_values c a raw st = ROk st' -> get (a_id a) (mt st) = Some e ->
  exists e', get (a_id a) (mt st') = Some e' /\ m_ignore_case e' = m_ignore_case e.
Proof.
  induction raw as [|v t IH]; intros st st' e H Hg; cbn [push_arg_values] in H.
  - inversion H; subst. exists e. split; [exact Hg|reflexivity].
  - destruct (a_vp a) as [vp|]; cbn [expect rbind] in H; [|discriminate H].
    destruct (vp_parse vp v); [discriminate H|].
    unfold add_val_to in H. rewrite ps_bump_mt in H. unfold get in Hg. rewrite Hg in H.
    unfold append_val in H. destruct (push_last v (m_raw e)) as [rs|]; cbn [expect rbind] in H; [|discriminate H].
    unfold add_index_to in H. cbn [mt_args set] in H.
    rewrite fm_update_get_same in H. rewrite Hg in H. cbn [opt_map expect rbind] in H.
    match type of H with push_arg_values _ _ _ ?s1 = _ =>
      assert (G1 : exists e1, get (a_id a) (mt s1) = Some e1 /\ m_ignore_case e1 = m_ignore_case e) end.
    { rewrite set_mt_mt. unfold get. cbn [mt_args set].
      rewrite fm_update_get_same, fm_update_get_same, Hg. cbn [opt_map]. eexists. split; [reflexivity|].
      destruct e; reflexivity. }
    destruct G1 as [e1 [G1 I1]]. destruct (IH _ _ e1 H G1) as [e' [G' I']].
    exists e'. split; [exact G'|congruence].
Qed.

Lemma start_push_ic c a s vals (st0 : Parser.ps) m st' :
  wf_m m -> ~ In (a_id a) (groups_for_arg c (a_id a)) ->
  (do m2 <- start_custom_arg c a s m; push_arg_values c a vals (st0 <| mt := m2 |>)) = ROk st' ->
  exists e', get (a_id a) (mt st') = Some e' /\
    m_ignore_case e' = m_ignore_case (opt_default (marg_new (a_ignore_case a) false) (own_prev c s a (get (a_id a) m))).
Proof.
  intros Hwf Hng H.
  destruct (start_custom_arg_spec c a s m Hwf) as [m2 [E2 [W2 [P2 [G2 F2]]]]].
  rewrite E2 in H. cbn [rbind] in H. specialize (G2 Hng). rewrite <- (set_mt_mt st0 m2) in G2.
  destruct (push_arg_values_ic c a vals _ _ _ H G2) as [e' [G' I']].
  exists e'. split; [exact G'|]. rewrite I'.
  destruct (opt_default (marg_new (a_ignore_case a) false) (own_prev c s a (get (a_id a) m))); reflexivity.
Qed.

Theorem react_core_ic c idn s a raw ti st st' pr :
  wf_m (mt st) -> ~ In (a_id a) (groups_for_arg c (a_id a)) ->
  react_core c idn s a raw ti st = ROk (st', pr) ->
  forall e', get (a_id a) (mt st') = Some e' ->
    m_ignore_case e' = a_ignore_case a \/ exists e, get (a_id a) (mt st) = Some e /\ m_ignore_case e' = m_ignore_case e.
Proof.
  intros Hwf Hng H e' Ge'. rewrite Actions.react_core_unfold in H.
  destruct (if is_cmdline s then verify_num_args c a raw st else ROk tt) as [[]|e0 st0|site]; cbn [rbind] in H; try discriminate.
  destruct (occ_values c a raw ti) as [vals|]; cbn [expect rbind] in H; [|discriminate].
  unfold react_action in H.
  assert (SL : forall vs bump, set_like c idn s a vs bump st = ROk (st', pr) -> m_ignore_case e' = a_ignore_case a).
  { intros vs bump HS. unfold set_like in HS.
    set (st1 := if bump && is_cmdline s && is_flag_ident idn then ps_bump st else st) in *.
    assert (E1 : mt st1 = mt st) by (unfold st1; destruct (bump && is_cmdline s && is_flag_ident idn); [apply ps_bump_mt|reflexivity]).
    rewrite E1 in HS.
    pose proof (mt_remove_wf (mt st) (a_id a) Hwf) as W1. pose proof (mt_remove_get (mt st) (a_id a)) as G1.
    destruct (mt_remove (mt st) (a_id a)) as [m1 removed]. cbn [fst snd] in *.
    destruct (removed && negb (self_override c a)); [discriminate|].
    assert (H' : (do m2 <- start_custom_arg c a s m1; push_arg_values c a vs ((st1 <| mt := m1 |>) <| mt := m2 |>)) = ROk st').
    { destruct (start_custom_arg c a s m1); cbn [rbind] in *; try discriminate.
      destruct (push_arg_values c a vs _); cbn [rbind] in *; try discriminate. inversion HS; reflexivity. }
    destruct (start_push_ic c a s vs _ m1 st' W1 Hng H') as [e2 [G2 I2]].
    rewrite Ge' in G2. inversion G2; subst e2. rewrite I2.
    assert (Gs : get (a_id a) m1 = None) by (rewrite G1 by exact Hwf; rewrite beq_refl; reflexivity).
    rewrite Gs. unfold own_prev. destruct (is_cmdline s && overridden c a (a_id a)); reflexivity. }
  destruct (a_get_action a) eqn:Ea; try discriminate.
  - left. exact (SL _ _ H).
  - set (st1 := if is_cmdline s && is_flag_ident idn then ps_bump st else st) in *.
    assert (E1 : mt st1 = mt st) by (unfold st1; destruct (is_cmdline s && is_flag_ident idn); [apply ps_bump_mt|reflexivity]).
    rewrite E1 in H.
    assert (H' : (do m2 <- start_custom_arg c a s (mt st); push_arg_values c a vals (st1 <| mt := m2 |>)) = ROk st').
    { destruct (start_custom_arg c a s (mt st)); cbn [rbind] in *; try discriminate.
      destruct (push_arg_values c a vals _); cbn [rbind] in *; try discriminate. inversion H; reflexivity. }
    destruct (start_push_ic c a s vals _ _ st' Hwf Hng H') as [e2 [G2 I2]].
    rewrite Ge' in G2. inversion G2; subst e2. rewrite I2. unfold own_prev.
    destruct (is_cmdline s && overridden c a (a_id a)); [left; reflexivity|].
    destruct (get (a_id a) (mt st)) as [e|]; [right; exists e; split; reflexivity|left; reflexivity].
  - left. exact (SL _ _ H).
  - left. exact (SL _ _ H).
  - left.
    set (vals' := match vals with [] => [n_to_dec (N.min 255 (existing_count a (mt st) + 1))] | _ => vals end) in *.
    pose proof (mt_remove_wf (mt st) (a_id a) Hwf) as W1. pose proof (mt_remove_get (mt st) (a_id a)) as G1.
    destruct (mt_remove (mt st) (a_id a)) as [m1 removed]. cbn [fst snd] in *.
    assert (H' : (do m2 <- start_custom_arg c a s m1; push_arg_values c a vals' (st <| mt := m2 |>)) = ROk st').
    { destruct (start_custom_arg c a s m1); cbn [rbind] in *; try discriminate.
      destruct (push_arg_values c a vals' _); cbn [rbind] in *; try discriminate. inversion H; reflexivity. }
    destruct (start_push_ic c a s vals' _ m1 st' W1 Hng H') as [e2 [G2 I2]].
    rewrite Ge' in G2. inversion G2; subst e2. rewrite I2.
    assert (Gs : get (a_id a) m1 = None) by (rewrite G1 by exact Hwf; rewrite beq_refl; reflexivity).
    rewrite Gs. unfold own_prev. destruct (is_cmdline s && overridden c a (a_id a)); reflexivity.
Qed.

(** * 4. the fold of [react] over the occurrences of a level succeeds *)
Section Level.
Variable c : cmd.
Hypothesis Happ : assert_app c = true.

(** (d): a Set-like argument that does not override itself occurs only while it is not stored: the
    abstract fold (C07: Set keeps the last, overrides remove) over the occurrences before it gives [None] *)
Definition no_repeat (os : list occ) : Prop :=
  forall os1 o os2, os = os1 ++ o :: os2 -> set_family (o_arg o) = true -> self_override c (o_arg o) = false ->
    denote_os c (a_id (o_arg o)) os1 = None.

(** what holds of the matcher after the occurrences [os1] *)
Record linv (os1 : list occ) (m : matcher) : Prop := {
  li_wf : wf_m m;
  li_pend : mt_pending m = None;
  li_cl : all_cl m;
  li_den : forall a, In a (c_args c) -> groups_of (a_id a) m = denote_os c (a_id a) os1;
  li_ic : forall a e, In a (c_args c) -> get (a_id a) m = Some e -> m_ignore_case e = a_ignore_case a;
  li_key : forall k, get k m <> None ->
             exists o, In o os1 /\ In (o_arg o) (c_args c) /\ (k = a_id (o_arg o) \/ In k (groups_for_arg c (a_id (o_arg o))));
  li_sub : mt_sub m = None
}.

Lemma ssub_none_id st : mt_sub (mt st) = None -> ssub None st = st.
Proof. destruct st as [m ci fa fk]. destruct m as [ar pe su]. cbn. intros ->. reflexivity. Qed.

Lemma linv_new : linv [] matcher_new.
Proof.
  constructor.
  - exact wf_m_new.
  - reflexivity.
  - constructor.
  - intros a _. reflexivity.
  - intros a e _ H. discriminate H.
  - intros k H. exfalso. apply H. reflexivity.
  - reflexivity.
Qed.

Lemma ids_inj a b : In a (c_args c) -> In b (c_args c) -> a_id a = a_id b -> a = b.
Proof.
  intros Ha Hb E. destruct (assert_app_ids_distinct c Happ) as [Hnd _].
  exact (nodup_map_inj a_id (c_args c) a b Hnd Ha Hb E).
Qed.

Lemma linv_step os1 o st : linv os1 (mt st) -> line_occ c o -> occ_rules o ->
  (set_family (o_arg o) = true -> self_override c (o_arg o) = false -> denote_os c (a_id (o_arg o)) os1 = None) ->
  exists x, react c (o_ident o) (o_src o) (o_arg o) (o_raw o) (o_ti o) st = ROk x /\ linv (os1 ++ [o]) (mt (fst x)).
Proof.
  intros [Hwf Hp Hcl Hden Hic Hkey Hsub] [Es [Et Hin]] [Hsto [Hcnt Hval]] Hrep.
  set (a := o_arg o) in *.
  pose proof (assert_app_group_ids c a Happ Hin) as Hng.
  rewrite (Actions.react_no_pending c _ _ _ _ _ st Hp). rewrite Es, Et.
  assert (Hrep' : set_family a = true -> mt_contains (mt st) (a_id a) = false \/ self_override c a = true).
  { intros Hf. destruct (self_override c a) eqn:Eso; [right; reflexivity|left].
    specialize (Hrep Hf eq_refl). rewrite <- (Hden a Hin) in Hrep. unfold groups_of, get in Hrep.
    unfold mt_contains, fm_contains. destruct (fm_get (a_id a) (mt_args (mt st))); [discriminate Hrep|reflexivity]. }
  destruct (react_core_succeeds c (o_ident o) SCmdLine a (o_raw o) st Hwf (Hng (a_id a)) (fun _ => Hcnt) Hsto Hval Hrep') as [st' E].
  exists (st', PRValuesDone). split; [exact E|]. cbn [fst].
  destruct (react_core_spec c _ _ _ _ _ _ _ _ Hwf (Hng (a_id a)) E) as [vals [Ho [W [P [G [F _]]]]]].
  constructor.
  - exact W.
  - congruence.
  - exact (all_cl_react_core c _ _ _ _ _ _ _ E Hcl).
  - intros a' Hin'.
    assert (RA : react_all c [o] st = ROk st').
    { cbn [react_all]. rewrite (Actions.react_no_pending c _ _ _ _ _ st Hp). rewrite Es, Et. fold a. rewrite E. reflexivity. }
    assert (NC : Forall (no_group_clash c (a_id a')) [o]).
    { constructor; [|constructor]. split; [exact (Hng (a_id a))|exact (assert_app_group_ids c a' Happ Hin' (a_id a))]. }
    destruct (react_all_denote c (a_id a') [o] st st' Hwf Hp NC RA) as [R _].
    rewrite R. unfold denote_os. rewrite fold_left_app. cbn [fold_left]. f_equal.
    rewrite (Hden a' Hin'). reflexivity.
  - intros a' e' Hin' Ge'. destruct (beq (a_id a') (a_id a)) eqn:Eb.
    + apply beq_eq in Eb. pose proof (ids_inj a' a Hin' Hin Eb) as ->.
      destruct (react_core_ic c _ _ _ _ _ _ _ _ Hwf (Hng (a_id a)) E e' Ge') as [I|[e [Ge I]]]; [exact I|].
      rewrite I. exact (Hic a e Hin Ge).
    + apply beq_neq in Eb. rewrite (F (a_id a') Eb (assert_app_group_ids c a' Happ Hin' (a_id a))) in Ge'.
      destruct (is_cmdline SCmdLine && overridden c a (a_id a')); [discriminate Ge'|]. exact (Hic a' e' Hin' Ge').
  - intros k Hk. destruct (beq k (a_id a)) eqn:Eb.
    + apply beq_eq in Eb. exists o. split; [apply in_or_app; right; left; reflexivity|]. split; [exact Hin|left; exact Eb].
    + apply beq_neq in Eb. destruct (mem_id k (groups_for_arg c (a_id a))) eqn:Em.
      * apply Actions.mem_id_in in Em. exists o. split; [apply in_or_app; right; left; reflexivity|]. split; [exact Hin|right; exact Em].
      * apply Actions.mem_id_notin in Em. rewrite (F k Eb Em) in Hk.
        destruct (is_cmdline SCmdLine && overridden c a k); [exfalso; apply Hk; reflexivity|].
        destruct (Hkey k Hk) as [o' [Ho' R']]. exists o'. split; [apply in_or_app; left; exact Ho'|exact R'].
  - pose proof (react_core_sub c None (o_ident o) SCmdLine a (o_raw o) None st) as RS.
    rewrite (ssub_none_id st Hsub), E in RS. cbn [psub2] in RS. inversion RS as [RS'].
    rewrite RS' at 1. rewrite ssub_mt. destruct (mt st'); reflexivity.
Qed.

Theorem react_all_ok : forall os2 os1 st, linv os1 (mt st) -> Forall (line_occ c) os2 -> Forall occ_rules os2 ->
  no_repeat (os1 ++ os2) ->
  exists st', react_all c os2 st = ROk st' /\ linv (os1 ++ os2) (mt st').
Proof.
  induction os2 as [|o t IH]; intros os1 st HI HL HR HN.
  - exists st. rewrite app_nil_r. split; [reflexivity|exact HI].
  - inversion HL as [|? ? HLo HLt]; subst. inversion HR as [|? ? HRo HRt]; subst.
    destruct (linv_step os1 o st HI HLo HRo (HN os1 o t eq_refl)) as [x [E HI']].
    cbn [react_all]. rewrite E. cbn [rbind].
    assert (EA : os1 ++ o :: t = (os1 ++ [o]) ++ t) by (rewrite <- app_assoc; reflexivity).
    rewrite EA in HN |- *. exact (IH (os1 ++ [o]) (fst x) HI' HLt HRt HN).
Qed.

End Level.

(** * 5. the phases after the loop *)
(** class: no argument of the level declares an environment value (environment occurrences: not lifted) *)
Definition no_env (c : cmd) : bool := forallb (fun a => negb (is_some (a_env a))) (c_args c).

Lemma add_env_none c st : no_env c = true -> add_env c st = ROk st.
Proof.
  unfold no_env. rewrite add_env_unfold. intros H. revert st.
  induction (c_args c) as [|a t IH]; intros st; [reflexivity|].
  cbn [forallb] in H. apply andb_true_iff in H. destruct H as [Ha Ht].
  cbn [fold_left]. unfold env_step at 2. cbn [rbind].
  destruct (a_env a); [discriminate Ha|]. destruct (mt_contains (mt st) (a_id a)); exact (IH Ht st).
Qed.

(** (e): the default values a definition declares -- [default_value(s)] and the values of its
    [default_value_if] rules -- are stored by a storing action and lie in the parser's language *)
Definition default_cand (a : arg) (raw : list bytes) : Prop :=
  (raw = a_default a /\ raw <> []) \/ (exists i p d, In (i, p, Some d) (a_default_ifs a) /\ raw = [d]).
Definition defaults_ok (c : cmd) : Prop :=
  forall a raw, In a (c_args c) -> default_cand a raw -> storing a = true /\ values_ok a raw.

Section Post.
Variable c : cmd.
Hypothesis Happ : assert_app c = true.

Lemma default_react_ok a raw st : In a (c_args c) -> wf_m (mt st) -> mt_pending (mt st) = None ->
  storing a = true -> values_ok a raw -> mt_contains (mt st) (a_id a) = false ->
  exists x, react c None SDefault a raw None st = ROk x /\ wf_m (mt (fst x)) /\ mt_pending (mt (fst x)) = None.
Proof.
  intros Hin Hwf Hp Hsto Hval Hc.
  pose proof (assert_app_group_ids c a Happ Hin (a_id a)) as Hng.
  rewrite (Actions.react_no_pending c _ _ _ _ _ st Hp).
  assert (Hcnt : SDefault = SCmdLine -> count_ok_occ a raw) by discriminate.
  destruct (react_core_succeeds c None SDefault a raw st Hwf Hng Hcnt Hsto Hval (fun _ => or_introl Hc)) as [st' E].
  exists (st', PRValuesDone). split; [exact E|]. cbn [fst].
  destruct (react_core_spec c _ _ _ _ _ _ _ _ Hwf Hng E) as [vals [_ [W [P _]]]].
  split; [exact W|congruence].
Qed.

Lemma add_default_value_ok a st : In a (c_args c) -> wf_m (mt st) -> mt_pending (mt st) = None ->
  (forall raw, default_cand a raw -> storing a = true /\ values_ok a raw) ->
  exists st', add_default_value c a st = ROk st' /\ wf_m (mt st') /\ mt_pending (mt st') = None.
Proof.
  intros Hin Hwf Hp Hd. unfold add_default_value.
  assert (Plain : exists st', (if negb (is_nil (a_default a))
                               then if mt_contains (mt st) (a_id a) then ROk st
                                    else do x <- react c None SDefault a (a_default a) None st; ROk (fst x)
                               else ROk st) = ROk st' /\ wf_m (mt st') /\ mt_pending (mt st') = None).
  { destruct (is_nil (a_default a)) eqn:En; cbn [negb]; [exists st; auto|].
    destruct (mt_contains (mt st) (a_id a)) eqn:Ec; [exists st; auto|].
    assert (Hc : default_cand a (a_default a)).
    { left. split; [reflexivity|]. intros E. rewrite E in En. discriminate En. }
    destruct (Hd _ Hc) as [Hs Hv].
    destruct (default_react_ok a (a_default a) st Hin Hwf Hp Hs Hv Ec) as [x [E [W P]]].
    rewrite E. cbn [rbind]. exists (fst x). auto. }
  destruct (negb (is_nil (a_default_ifs a)) && negb (mt_contains (mt st) (a_id a))) eqn:Ei; [|exact Plain].
  apply andb_true_iff in Ei. destruct Ei as [_ Ec]. apply negb_true_iff in Ec.
  match goal with |- context [List.find ?f (a_default_ifs a)] => destruct (List.find f (a_default_ifs a)) as [[[i p] [d|]]|] eqn:Ef end.
  - apply List.find_some in Ef. destruct Ef as [Hr _].
    assert (Hc : default_cand a [d]) by (right; exists i, p, d; split; [exact Hr|reflexivity]).
    destruct (Hd _ Hc) as [Hs Hv].
    destruct (default_react_ok a [d] st Hin Hwf Hp Hs Hv Ec) as [x [E [W P]]].
    rewrite E. cbn [rbind]. exists (fst x). auto.
  - exists st. auto.
  - exact Plain.
Qed.

Lemma defaults_fold_ok : forall l st, incl l (c_args c) -> defaults_ok c -> wf_m (mt st) -> mt_pending (mt st) = None ->
  exists st', fold_left (defaults_step c) l (ROk st) = ROk st' /\ wf_m (mt st') /\ mt_pending (mt st') = None.
Proof.
  induction l as [|a t IH]; intros st Hl Hd Hwf Hp; [exists st; auto|].
  cbn [fold_left]. unfold defaults_step at 2. cbn [rbind].
  assert (Hin : In a (c_args c)) by (apply Hl; left; reflexivity).
  destruct (add_default_value_ok a st Hin Hwf Hp (fun raw => Hd a raw Hin)) as [st1 [E [W P]]].
  rewrite E. apply IH; [intros x Hx; apply Hl; right; exact Hx|exact Hd|exact W|exact P].
Qed.

Theorem add_defaults_ok st : defaults_ok c -> wf_m (mt st) -> mt_pending (mt st) = None ->
  exists st', add_defaults c st = ROk st' /\ wf_m (mt st').
Proof.
  intros Hd Hwf Hp. rewrite add_defaults_unfold.
  destruct (defaults_fold_ok (c_args c) st (incl_refl _) Hd Hwf Hp) as [st' [E [W _]]]. exists st'. auto.
Qed.

(** ** what the final matcher reports *)
(** [m] reports the occurrences [os] (and "a subcommand was used" = [sub]): per argument the explicit entry
    holds exactly the groups of C07's fold, with the argument's case-folding flag, and there is no explicit
    entry when the fold gives none; any other id (a group) is present only if one of its members occurred *)
Record reports (os : list occ) (sub : bool) (m : matcher) : Prop := {
  rp_arg : forall a, In a (c_args c) ->
     match denote_os c (a_id a) os with
     | Some gs => exists e, fm_get (a_id a) (mt_args m) = Some e /\ explicit_m e /\ m_raw e = gs
                            /\ m_ignore_case e = a_ignore_case a
     | None => ~ present m (a_id a)
     end;
  rp_other : forall k, present m k -> (forall a, In a (c_args c) -> a_id a <> k) ->
     exists o, In o os /\ In (o_arg o) (c_args c) /\ In k (groups_for_arg c (a_id (o_arg o)));
  rp_sub : is_some (mt_sub m) = sub
}.

Lemma cl_explicit e : m_source e = Some SCmdLine -> explicit_m e.
Proof. intros H. unfold explicit_m. rewrite H. discriminate. Qed.

Theorem final_reports os x st1 st3 : linv c os (mt st1) ->
  add_defaults c (ssub x st1) = ROk st3 -> reports os (is_some x) (mt st3).
Proof.
  intros [Hwf Hp Hcl Hden Hic Hkey _] Hd.
  assert (Hp2 : mt_pending (mt (ssub x st1)) = None) by (rewrite ssub_mt, msub_pending; exact Hp).
  destruct (add_defaults_frame c _ _ Hp2 Hd) as [_ [Hsub [_ [Hkeep Hnew]]]].
  rewrite ssub_mt, msub_args in Hkeep, Hnew.
  constructor.
  - intros a Hin. pose proof (Hden a Hin) as D. unfold groups_of, get in D.
    destruct (denote_os c (a_id a) os) as [gs|].
    + destruct (fm_get (a_id a) (mt_args (mt st1))) as [e|] eqn:Eg; [|discriminate D].
      cbn [opt_map] in D. inversion D as [D']. exists e. split; [exact (Hkeep _ _ Eg)|].
      split; [exact (cl_explicit e (fm_get_forall _ _ _ Hcl Eg))|]. split; [reflexivity|exact (Hic a e Hin Eg)].
    + destruct (fm_get (a_id a) (mt_args (mt st1))) as [e|] eqn:Eg; [discriminate D|].
      intros [m [Gm Em]]. apply Em. exact (Hnew _ _ Eg Gm).
  - intros k [m [Gm Em]] Hk.
    destruct (fm_get k (mt_args (mt st1))) as [e|] eqn:Eg.
    + assert (Hne : get k (mt st1) <> None) by (unfold get; rewrite Eg; discriminate).
      destruct (Hkey k Hne) as [o [Ho [Hin [E|G]]]]; [exfalso; exact (Hk _ Hin (eq_sym E))|].
      exists o. auto.
    + exfalso. apply Em. exact (Hnew _ _ Eg Gm).
  - rewrite Hsub, ssub_mt. destruct (mt st1); reflexivity.
Qed.
End Post.

(** * 6. the level theorem *)
(** (c), the relations: EVERY matcher that reports the denotation satisfies C03's declarative [Relations] *)
Definition relations_rule (c : cmd) (os : list occ) (sub : bool) : Prop :=
  forall m, reports c os sub m -> Relations c m.
(** (c), the two checks of the validator that are not relations: a level that selects no subcommand is not
    [subcommand_required], and is not empty under [arg_required_else_help] *)
Definition shape_rule (c : cmd) (os : list occ) (sub : bool) : Prop :=
  sub = true \/ (is_set s_sub_required c = false /\ (is_set s_arg_required_else_help c = false \/ os <> [])).

Lemma in_fm_get_some {V} k (v : V) l : In (k, v) l -> fm_get k l <> None.
Proof.
  intros H E. apply Actions.fm_get_none in E. apply E. unfold keys. apply in_map_iff. exists (k, v). split; [reflexivity|exact H].
Qed.

Theorem level_ok c os x st1 : assert_app c = true -> no_env c = true -> pos_indexed_b c = true ->
  Forall (line_occ c) os -> linv c os (mt st1) -> defaults_ok c ->
  relations_rule c os (is_some x) -> shape_rule c os (is_some x) ->
  exists st, post_loop c (ssub x st1) = ROk st.
Proof.
  intros Happ Henv Hpos HL HI Hd HR HS. unfold post_loop. rewrite (add_env_none c _ Henv). cbn [rbind].
  pose proof HI as [Hwf Hp Hcl Hden Hic Hkey _].
  assert (Hwf2 : wf_m (mt (ssub x st1))) by (unfold wf_m; rewrite ssub_mt, msub_args; exact Hwf).
  assert (Hp2 : mt_pending (mt (ssub x st1)) = None) by (rewrite ssub_mt, msub_pending; exact Hp).
  destruct (add_defaults_ok c Happ (ssub x st1) Hd Hwf2 Hp2) as [st3 [E3 W3]].
  rewrite E3. cbn [rbind].
  pose proof (final_reports c os x st1 st3 HI E3) as Rp.
  destruct (add_defaults_frame c _ _ Hp2 E3) as [_ [Hsub [[news [Hargs Hnews]] _]]].
  rewrite ssub_mt, msub_args in Hargs, Hnews.
  assert (V : validate c (mt st3) = VOk).
  { apply (validate_complete c (assert_app_rel_wf c Happ) (mt st3)).
    - exact W3.
    - intros i m Hin. rewrite Hargs in Hin. apply in_app_or in Hin. destruct Hin as [Hin|Hin].
      + destruct (Hkey i (in_fm_get_some i m _ Hin)) as [o [_ [Ha [E|G]]]].
        * destruct (find_arg_of_in c _ Ha) as [a' Ea]. unfold id_exists. rewrite E, Ea. reflexivity.
        * exact (id_exists_group c _ _ G).
      + rewrite Forall_forall in Hnews. destruct (Hnews _ Hin) as [_ [_ [a [Ha [Ea _]]]]]. cbn [fst] in Ea.
        destruct (find_arg_of_in c _ Ha) as [a' Ea']. unfold id_exists. rewrite <- Ea, Ea'. reflexivity.
    - exact (pos_indexed_b_sound c Hpos).
    - rewrite (rp_sub c os _ _ Rp). destruct HS as [HS|[_ [HS|HS]]].
      + rewrite HS. reflexivity.
      + rewrite HS. apply andb_false_iff. left. apply andb_false_r.
      + destruct (exists_last HS) as [os' [o Eo]]. subst os.
        assert (Ho : line_occ c o) by (rewrite Forall_forall in HL; apply HL; apply in_or_app; right; left; reflexivity).
        destruct Ho as [_ [_ Ha]]. pose proof (rp_arg c _ _ _ Rp _ Ha) as RA.
        unfold denote_os in RA. rewrite fold_left_app in RA. cbn [fold_left] in RA. unfold step_abs at 1 in RA.
        rewrite beq_refl in RA. destruct RA as [e [Ge [Ee _]]].
        assert (Hin : In (a_id (o_arg o), e) (explicit_entries (mt st3))).
        { unfold explicit_entries. apply filter_In. split; [exact (fm_get_In _ _ _ Ge)|]. cbn [snd]. apply explicit_m_spec. exact Ee. }
        destruct (explicit_entries (mt st3)); [destruct Hin|]. cbn [is_nil]. apply andb_false_r.
    - rewrite (rp_sub c os _ _ Rp). destruct HS as [HS|[HS _]]; rewrite HS; [reflexivity|apply andb_false_r].
    - exact (HR _ Rp). }
  rewrite V. exists st3. reflexivity.
Qed.

(** ONE LEVEL: the rules imply that the denotation [react_all ; post_loop] succeeds *)
Record level_rules (c : cmd) (os : list occ) (sub : bool) : Prop := {
  lr_occ : Forall occ_rules os;                 (* (a) (b) (h) *)
  lr_rep : no_repeat c os;                      (* (d) *)
  lr_def : defaults_ok c;                       (* (e) *)
  lr_rel : relations_rule c os sub;             (* (c) *)
  lr_shape : shape_rule c os sub
}.

Theorem level_accepts c os x : assert_app c = true -> no_env c = true -> pos_indexed_b c = true ->
  Forall (line_occ c) os -> level_rules c os (is_some x) ->
  exists st1 st, react_all c os ps_new = ROk st1 /\ post_loop c (ssub x st1) = ROk st /\ mt_sub (mt st1) = None.
Proof.
  intros Happ Henv Hpos HL [HO HN Hd HR HS].
  destruct (react_all_ok c Happ os [] ps_new (linv_new c) HL HO HN) as [st1 [E1 HI]].
  cbn [app] in HI. destruct (level_ok c os x st1 Happ Henv Hpos HL HI Hd HR HS) as [st E].
  exists st1, st. split; [exact E1|]. split; [exact E|exact (li_sub c _ _ HI)].
Qed.

(** the occurrences an item list denotes are command-line occurrences of arguments of the level *)
Lemma occs_line c its : forall pos, Forall (line_occ c) (occs c pos its).
Proof.
  intros pos. pose proof (occs_args c its pos) as HA.
  assert (HS : forall pos, Forall (fun o => o_src o = SCmdLine /\ o_ti o = None) (occs c pos its)).
  { clear. induction its as [|it t IH]; intros pos; cbn [occs]; [constructor|].
    apply Forall_app. split; [|apply IH].
    assert (F : forall fl, Forall (fun o => o_src o = SCmdLine /\ o_ti o = None) (flags_occs c fl)).
    { induction fl as [|ch fl IHf]; unfold flags_occs; cbn [flat_map]; [constructor|].
      apply Forall_app. split; [|exact IHf]. destruct (get_short c ch); repeat constructor. }
    destruct it as [n|n v|n vs|fl tl|vs]; cbn [item_occs].
    - destruct (get_long c n); repeat constructor.
    - destruct (get_long c n); repeat constructor.
    - destruct (get_long c n); repeat constructor.
    - apply Forall_app. split; [apply F|]. destruct tl as [|o v|o v|o vs]; cbn [tail_occs]; try constructor;
        destruct (get_short c o); repeat constructor.
    - destruct (get_pos c pos); repeat constructor. }
  specialize (HS pos). rewrite Forall_forall in *. intros o Ho. destruct (HS o Ho) as [A B].
  split; [exact A|]. split; [exact B|exact (HA o Ho)].
Qed.

(** * 7. the converse for ONE occurrence, by kind: a rejected command-line occurrence breaks the rule its kind names *)
Lemma pushed_not_lang a raw vp v : a_vp a = Some vp ->
  (exists pss, Forall2 (pieces a) (eff_raw a raw) pss /\ In v (pushed a (concat pss))) -> ~ in_lang vp v -> ~ values_ok a raw.
Proof.
  intros Evp [pss [F Hin]] Hn [vp' [Evp' H]]. rewrite Evp in Evp'. inversion Evp'; subst vp'.
  destruct (H pss F) as [HF _]. rewrite Forall_forall in HF. exact (Hn (HF v Hin)).
Qed.

Theorem react_core_rejection_names_rule c idn a raw st e st' :
  wf_m (mt st) -> react_core c idn SCmdLine a raw None st = RErr e st' ->
  (In (e_kind e) [EInvalidValue; EWrongNumberOfValues; ETooFewValues; ETooManyValues] /\ ~ count_ok_occ a raw)
  \/ (e_kind e = EArgumentConflict /\ set_family a = true /\ self_override c a = false /\ mt_contains (mt st) (a_id a) = true)
  \/ (In (e_kind e) [EInvalidUtf8; EInvalidValue; EValueValidation] /\ ~ values_ok a raw)
  \/ (In (e_kind e) [EDisplayHelp; EDisplayVersion] /\ storing a = false).
Proof.
  intros Hwf H. rewrite Actions.react_core_unfold in H. cbn [is_cmdline] in H.
  destruct (verify_num_args c a raw st) as [[]|e0 st0|site] eqn:Ev; cbn [rbind] in H; [|inversion H; subst e0 st0|discriminate H].
  2:{ left. destruct (verify_num_args_sound c a raw st e st' Ev) as [r [Er [_ [_ [_ [Hk _]]]]]].
      split; [exact Hk|]. intros [r' [Er' Hr']]. rewrite Er in Er'. inversion Er'; subst r'.
      exact (verify_num_args_justified c a raw st e st' r Ev Er Hr'). }
  destruct (occ_values_pieces c a raw) as [pss [Hp Eo]]. rewrite Eo in H. cbn [expect rbind] in H.
  set (vals := concat pss) in *. unfold react_action in H.
  assert (PV : forall vs (s1 : Parser.ps) m, wf_m m ->
            (forall v, In v vs -> In v (pushed a vals) \/ (a_get_action a = ACount /\ vals = [] /\ exists k, k <= 255 /\ v = n_to_dec k)) ->
            (do m2 <- start_custom_arg c a SCmdLine m; do s2 <- push_arg_values c a vs (s1 <| mt := m2 |>); ROk (s2, PRValuesDone))
              = RErr e st' ->
            In (e_kind e) [EInvalidUtf8; EInvalidValue; EValueValidation] /\ ~ values_ok a raw).
  { intros vs s1 m Wm Hvs HE.
    destruct (start_custom_arg c a SCmdLine m) as [m2|e1 s0|n1] eqn:Es; cbn [rbind] in HE;
      [|exfalso; exact (start_custom_arg_no_err c a SCmdLine m e1 s0 Wm Es)|discriminate HE].
    destruct (push_arg_values c a vs (s1 <| mt := m2 |>)) as [s2|e2 s0|n2] eqn:Ep; cbn [rbind] in HE; try discriminate HE.
    inversion HE; subst e2 s0.
    destruct (push_arg_values_sound c a vs _ e st' Ep) as [vp [v [Evp [Hin [Hk [Hnl _]]]]]].
    split; [exact (proj1 (proj2 (vp_parse_reject_sound vp v (e_kind e) Hk)))|].
    destruct (Hvs v Hin) as [Hpu|[Ea [En [k [Hk255 ->]]]]].
    - apply (pushed_not_lang a raw vp v Evp); [exists pss; split; [exact Hp|exact Hpu]|exact Hnl].
    - intros [vp' [Evp' HV]]. rewrite Evp in Evp'. inversion Evp'; subst vp'.
      destruct (HV pss Hp) as [_ HC]. rewrite (HC Ea En) in Hk. rewrite (dec_accept k Hk255) in Hk. discriminate Hk. }
  assert (SL : forall vs bump, set_like c idn SCmdLine a vs bump st = RErr e st' ->
            (forall v, In v vs -> In v (pushed a vals)) -> set_family a = true ->
            (e_kind e = EArgumentConflict /\ set_family a = true /\ self_override c a = false /\ mt_contains (mt st) (a_id a) = true)
            \/ (In (e_kind e) [EInvalidUtf8; EInvalidValue; EValueValidation] /\ ~ values_ok a raw)).
  { intros vs bump HS Hvs Hf. unfold set_like in HS.
    set (st1 := if bump && is_cmdline SCmdLine && is_flag_ident idn then ps_bump st else st) in *.
    assert (E1 : mt st1 = mt st) by (unfold st1; destruct (bump && is_cmdline SCmdLine && is_flag_ident idn); [apply ps_bump_mt|reflexivity]).
    rewrite E1 in HS. pose proof (mt_remove_wf (mt st) (a_id a) Hwf) as W1. pose proof (mt_remove_removed (mt st) (a_id a)) as R1.
    destruct (mt_remove (mt st) (a_id a)) as [m1 removed]. cbn [fst snd] in *.
    destruct (removed && negb (self_override c a)) eqn:Ec.
    - left. inversion HS; subst. apply andb_prop in Ec. destruct Ec as [Er Eo'].
      split; [reflexivity|]. split; [exact Hf|]. split; [apply negb_true_iff; exact Eo'|first [exact Er|rewrite <- R1; exact Er]].
    - right. apply (PV vs (st1 <| mt := m1 |>) m1 W1); [intros v Hv; left; exact (Hvs v Hv)|exact HS]. }
  unfold pushed in SL, PV. unfold storing, set_family in *.
  destruct (a_get_action a) eqn:Ea.
  - destruct (SL vals true H (fun v Hv => Hv) eq_refl) as [X|X]; [right; left; exact X|right; right; left; exact X].
  - right. right. left.
    set (st1 := if is_cmdline SCmdLine && is_flag_ident idn then ps_bump st else st) in *.
    assert (E1 : mt st1 = mt st) by (unfold st1; destruct (is_cmdline SCmdLine && is_flag_ident idn); [apply ps_bump_mt|reflexivity]).
    rewrite E1 in H. apply (PV vals st1 (mt st) Hwf); [intros v Hv; left; exact Hv|exact H].
  - destruct (SL _ false H (fun v Hv => Hv) eq_refl) as [X|X]; [right; left; exact X|right; right; left; exact X].
  - destruct (SL _ false H (fun v Hv => Hv) eq_refl) as [X|X]; [right; left; exact X|right; right; left; exact X].
  - right. right. left.
    pose proof (mt_remove_wf (mt st) (a_id a) Hwf) as W1.
    destruct (mt_remove (mt st) (a_id a)) as [m1 removed]. cbn [fst] in W1.
    eapply (PV _ st m1 W1); [|exact H].
    intros v Hv. destruct vals as [|v0 vt] eqn:Evals; [|left; exact Hv].
    right. split; [reflexivity|]. split; [reflexivity|]. destruct Hv as [<-|[]].
    eexists. split; [|reflexivity]. apply N.le_min_l.
  - right. right. right. inversion H; subst. split; [left; reflexivity|reflexivity].
  - right. right. right. inversion H; subst. split; [left; reflexivity|reflexivity].
  - right. right. right. inversion H; subst. split; [left; reflexivity|reflexivity].
  - right. right. right. inversion H; subst. split; [right; left; reflexivity|reflexivity].
Qed.
