(** Property C03, the two recorded findings as boolean families of DEFINITIONS.

    Both findings go through one function, [Parser::remove_overrides]:
    F1 [f1_family]: some [overrides_with] list names a group id -- the group's own entry is removed,
       its members stay;
    F2 [f2_family]: some arg overrides another arg and one of the two belongs to a group -- a member
       entry is removed (directly, or by the transitive rule when the overridden arg occurs later),
       the group's entry stays.
    This file proves: the frame of [remove_overrides] for every command (which entries it can
    remove); outside the two families it removes neither a group's entry nor a member's entry,
    so it preserves the coherence of group entries; each refutation witness lies in exactly its
    own family and its incoherence is produced by that single call. *)
From Coq Require Import ZArith List Bool Lia.
Import ListNotations.
From ClapModel Require Import Base.Bytes Base.Machine.
From ClapModel Require Import Parse.Cmd Parse.Build Parse.Valid Parse.Matcher Parse.Errors Parse.Validator Parse.Parser.
From ClapModel Require Import ParseProofs.Relations.
From RecordUpdate Require Import RecordSet.
Import RecordSetNotations.
Open Scope N_scope.

(** * the families *)
Definition is_group_id (c : cmd) (o : id) : bool := is_some (find_group c o) && negb (is_some (find_arg c o)).
Definition in_some_group (c : cmd) (i : id) : bool := negb (is_nil (groups_for_arg c i)).

(** F1: an [overrides_with] list names a group *)
Definition f1_family (c : cmd) : bool :=
  existsb (fun a => existsb (is_group_id c) (a_overrides a)) (c_args c).
(** F2: an arg overrides ANOTHER arg, and the overridden or the overriding one is a group member *)
Definition f2_family (c : cmd) : bool :=
  existsb (fun a => existsb (fun o => negb (beq o (a_id a)) && is_some (find_arg c o)
                                      && (in_some_group c o || in_some_group c (a_id a)))
                            (a_overrides a)) (c_args c).
Definition group_safe (c : cmd) : bool := negb (f1_family c) && negb (f2_family c).

(** * the frame of [remove_overrides], every command *)
Lemma fm_get_remove_other {V} (k o : id) (l : list (id * V)) : k <> o -> fm_get k (fst (fm_remove o l)) = fm_get k l.
Proof.
  intros Hne. induction l as [|[k' v] t IH]; cbn [fm_remove fm_get fst]; [reflexivity|].
  destruct (beq k' o) eqn:Eo.
  - cbn [fst]. apply beq_eq in Eo. subst k'. destruct (beq o k) eqn:Ek; [apply beq_eq in Ek; congruence|reflexivity].
  - destruct (fm_remove o t) as [t' b] eqn:Er. cbn [fst fm_get] in *. rewrite IH. reflexivity.
Qed.
Lemma mt_remove_args m o : mt_args (fst (mt_remove m o)) = fst (fm_remove o (mt_args m)).
Proof. unfold mt_remove. destruct (fm_remove o (mt_args m)). reflexivity. Qed.
Lemma fold_remove_get k os : forall m, ~ In k os ->
  fm_get k (mt_args (fold_left (fun m o => fst (mt_remove m o)) os m)) = fm_get k (mt_args m).
Proof.
  induction os as [|o t IH]; intros m Hni; cbn [fold_left]; [reflexivity|].
  rewrite IH; [|intros H; apply Hni; now right]. rewrite mt_remove_args.
  apply fm_get_remove_other. intros ->. apply Hni. now left.
Qed.

(** an entry survives [remove_overrides a] unless its id is in [a]'s override list or names an
    arg whose own override list contains [a] (the transitive rule) *)
Theorem remove_overrides_frame c a m k :
  ~ In k (a_overrides a) ->
  (forall ov, find_arg c k = Some ov -> ~ In (a_id a) (a_overrides ov)) ->
  fm_get k (mt_args (remove_overrides c a m)) = fm_get k (mt_args m).
Proof.
  intros H1 H2. unfold remove_overrides. rewrite fold_remove_get; [apply fold_remove_get; exact H1|].
  intros Hin. apply filter_In in Hin as [_ Hf].
  destruct (find_arg c k) as [ov|] eqn:Ek; [|discriminate]. apply mem_id_In in Hf. exact (H2 ov eq_refl Hf).
Qed.

(** * outside the families *)
Section Safe.
Variable c : cmd.
Hypothesis GS : group_safe c = true.

Lemma not_f1 a o : In a (c_args c) -> In o (a_overrides a) -> is_group_id c o = false.
Proof.
  intros Ha Ho. unfold group_safe in GS. apply andb_true_iff in GS as [G1 _]. apply negb_true_iff in G1.
  destruct (is_group_id c o) eqn:E; [|reflexivity]. exfalso.
  unfold f1_family in G1. assert (existsb (fun a => existsb (is_group_id c) (a_overrides a)) (c_args c) = true); [|congruence].
  apply existsb_exists. exists a. split; [exact Ha|]. apply existsb_exists. exists o. auto.
Qed.
Lemma not_f2 a o : In a (c_args c) -> In o (a_overrides a) -> o <> a_id a -> is_some (find_arg c o) = true ->
  in_some_group c o = false /\ in_some_group c (a_id a) = false.
Proof.
  intros Ha Ho Hne Harg. unfold group_safe in GS. apply andb_true_iff in GS as [_ G2]. apply negb_true_iff in G2.
  destruct (in_some_group c o || in_some_group c (a_id a)) eqn:E; [|now apply orb_false_iff in E].
  exfalso. unfold f2_family in G2.
  match type of G2 with ?X = false => assert (X = true); [|congruence] end.
  apply existsb_exists. exists a. split; [exact Ha|]. apply existsb_exists. exists o. split; [exact Ho|].
  rewrite Harg, E. apply beq_neq in Hne. rewrite Hne. reflexivity.
Qed.

(** [remove_overrides] touches no group's own entry ... *)
Theorem remove_overrides_keeps_group a m x g :
  In a (c_args c) -> group_of c x g ->
  fm_get x (mt_args (remove_overrides c a m)) = fm_get x (mt_args m).
Proof.
  intros Ha [Hna Hg]. apply remove_overrides_frame.
  - intros Hin. pose proof (not_f1 a x Ha Hin) as H. unfold is_group_id in H. rewrite Hg, Hna in H. discriminate.
  - intros ov Hov. congruence.
Qed.

(** ... and no entry of another arg that belongs to a group *)
Theorem remove_overrides_keeps_member a m k :
  find_arg c (a_id a) = Some a -> k <> a_id a -> is_some (find_arg c k) = true -> in_some_group c k = true ->
  fm_get k (mt_args (remove_overrides c a m)) = fm_get k (mt_args m).
Proof.
  intros Hfa Hne Hk Hg. destruct (find_arg_id c _ a Hfa) as [_ Ha]. apply remove_overrides_frame.
  - intros Hin. destruct (not_f2 a k Ha Hin Hne Hk) as [H _]. congruence.
  - intros ov Hov Hin. destruct (find_arg_id c k ov Hov) as [Hid Hovin].
    destruct (not_f2 ov (a_id a) Hovin Hin) as [_ H]; [congruence|now rewrite Hfa|]. rewrite Hid in H. congruence.
Qed.

(** hence coherence of every group that does not contain the occurring arg itself is preserved
    (the arg's own entry is rebuilt, together with the entries of its groups, by
    [start_custom_arg] right after) *)
Theorem remove_overrides_coherent a m g :
  rel_wf c = true -> find_arg c (a_id a) = Some a -> In g (c_groups c) -> find_arg c (g_id g) = None ->
  ~ In (a_id a) (g_args g) ->
  (present m (g_id g) <-> present_members m g) ->
  (present (remove_overrides c a m) (g_id g) <-> present_members (remove_overrides c a m) g).
Proof.
  intros Wf Hfa Hg Hna Hnm Hc. destruct (rel_wf_group c g Wf Hg) as [Hfg Hmem].
  destruct (find_arg_id c _ a Hfa) as [_ Ha].
  assert (E1 : forall P', (exists ma, fm_get (g_id g) (mt_args (remove_overrides c a m)) = Some ma /\ P' ma)
                          <-> (exists ma, fm_get (g_id g) (mt_args m) = Some ma /\ P' ma)).
  { intros P'. rewrite (remove_overrides_keeps_group a m (g_id g) g Ha (conj Hna Hfg)). tauto. }
  assert (E2 : forall k, In k (g_args g) ->
            fm_get k (mt_args (remove_overrides c a m)) = fm_get k (mt_args m)).
  { intros k Hk. destruct (Hmem k Hk) as [b Hb]. apply remove_overrides_keeps_member; auto.
    - intros ->. exact (Hnm Hk).
    - now rewrite Hb.
    - unfold in_some_group, groups_for_arg.
      destruct (filter (fun g0 => mem_id k (g_args g0)) (c_groups c)) as [|g0 t] eqn:Ef; [|reflexivity].
      exfalso. assert (In g (filter (fun g0 => mem_id k (g_args g0)) (c_groups c))) as Hin.
      { apply filter_In. split; [exact Hg|now apply mem_id_In]. }
      rewrite Ef in Hin. destruct Hin. }
  unfold present, present_members, present in *. rewrite E1. rewrite Hc. split.
  - intros (k & Hk & Hp). exists k. split; [exact Hk|]. rewrite (E2 k Hk). exact Hp.
  - intros (k & Hk & Hp). exists k. split; [exact Hk|]. rewrite (E2 k Hk) in Hp. exact Hp.
Qed.
End Safe.

(** * the witnesses stand, each in exactly its own family, and the break is that one call *)
Definition built_arg (c0 : cmd) (i : id) : arg := opt_default (arg_new i) (find_arg (build_self c0) i).
Definition entry (l : list (id * marg)) : matcher := mkMatcher l None None.
Definition flag_entry (s : src) : marg := mkMarg (Some s) [] [[s_true]] false false.
Definition group_entry (v : id) : marg := mkMarg (Some SCmdLine) [] [[v]] false true.

(** a definition with overrides AND groups outside both families: c overrides d, group g = {a, b} *)
Definition i_d : id := [100].
Definition gs_cmd : cmd :=
  cmd_new [112]
    <| c_args := [wflag i_a [97;97]; wflag i_b [98;98]; wflag i_c [99;99] <| a_overrides := [i_d] |>;
                  wflag i_d [100;100]] |>
    <| c_groups := [group_new i_g <| g_args := [i_a; i_b] |> <| g_multiple := true |>] |>.

Theorem families_witnesses :
  (* F1 witness: in F1, not in F2; `--aa` (overrides the group g) removes g's entry, keeps b's *)
  f1_family (build_self f1_cmd) = true /\ f2_family (build_self f1_cmd) = false
  /\ (let m := entry [(i_b, flag_entry SCmdLine); (i_g, group_entry i_b)] in
      coherent_b (build_self f1_cmd) m = true
      /\ coherent_b (build_self f1_cmd) (remove_overrides (build_self f1_cmd) (built_arg f1_cmd i_a) m) = false)
  (* F2 witness: in F2, not in F1; `--cc` (overrides a) removes a's entry, keeps g's *)
  /\ f2_family (build_self f2_cmd) = true /\ f1_family (build_self f2_cmd) = false
  /\ (let m := entry [(i_a, flag_entry SCmdLine); (i_g, group_entry i_a)] in
      coherent_b (build_self f2_cmd) m = true
      /\ coherent_b (build_self f2_cmd) (remove_overrides (build_self f2_cmd) (built_arg f2_cmd i_c) m) = false)
  (* outside both families: the override fires (d is removed), the group stays coherent *)
  /\ valid gs_cmd = true /\ group_safe (build_self gs_cmd) = true
  /\ (exists st, run_level gs_cmd [dd [97;97]; dd [100;100]; dd [99;99]] = ROk st
                 /\ coherent_b (build_self gs_cmd) (mt st) = true
                 /\ check_explicit (mt st) i_g PIsPresent = true
                 /\ check_explicit (mt st) i_d PIsPresent = false
                 /\ check_explicit (mt st) i_c PIsPresent = true).
Proof.
  split; [vm_compute; reflexivity|]. split; [vm_compute; reflexivity|].
  split; [split; vm_compute; reflexivity|].
  split; [vm_compute; reflexivity|]. split; [vm_compute; reflexivity|].
  split; [split; vm_compute; reflexivity|].
  split; [vm_compute; reflexivity|]. split; [vm_compute; reflexivity|].
  eexists. split; [vm_compute; reflexivity|]. repeat split; vm_compute; reflexivity.
Qed.
