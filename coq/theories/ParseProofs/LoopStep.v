(** One iteration of [Parser::parse]'s token loop ([parse_loop]) split into its two phases -- classification of the
    token ([phase1]: subcommand, [--], long, short) and delivery ([phase2]: to the open option, or to the positional the
    corrected counter points at).  The definitions repeat the model's text with the rest of the loop as a parameter;
    [parse_loop_step] (by computation) says that the iteration IS their composition.  Used by C02's invariant of the
    pending buffer (UnparsePendingLoop.v) and by the positional lemmas of the lifted un-parser class. *)
From ClapModel Require Import Base.Bytes Base.Machine Base.Utf8 Lex.OsStrExtModel.
From ClapModel Require Import Parse.Cmd Parse.Build Parse.Valid Parse.Matcher Parse.Errors Parse.Validator Parse.Parser.
From Coq Require Import ZArith Lia List Bool.
From RecordUpdate Require Import RecordSet.
Import RecordSetNotations.
Import ListNotations.
Open Scope N_scope.

Section Step.
Variable c : cmd.

(** ** one iteration of [parse_loop], in two phases; [rec] is the rest of the loop *)
Definition after_flag (rec : lstate -> ps -> res loop_res) (rest : list bytes) (ls : lstate) (x : ps * presult * bool)
  : res (option (res loop_res) * lstate * ps) :=
          let '(st1, pr, vaf1) := x in
          let ls1 := mkL (l_pst ls) (l_pos ls) vaf1 false in
          match pr with
          | PRValuesDone => ROk (Some (rec (mkL PSValuesDone (l_pos ls) vaf1 false) st1), ls1, st1)
          | PROpt i => ROk (Some (rec (mkL (PSOpt i) (l_pos ls) vaf1 false) st1), ls1, st1)
          | PRFlagSub n => ROk (Some (ROk (LSub n false vaf1 st1 rest)), ls1, st1)
          | PREqualsNotProvided a =>
              do st2 <- resolve_pending_ignore c st1; ROk (Some (RErr (mkerr c ENoEquals a) st2), ls1, st2)
          | PRNoMatchingArg a =>
              do st2 <- resolve_pending_ignore c st1; ROk (Some (RErr (mkerr c EUnknownArgument a) st2), ls1, st2)
          | PRUnneeded r a =>
              do st2 <- resolve_pending_ignore c st1; ROk (Some (RErr (mkerr c ETooManyValues a) st2), ls1, st2)
          | PRMaybeHyphen => ROk (None, ls1, st1)
          | PRNoArg => ROk (None, ls1, st1)
          | PRAttachedNotConsumed => RPanic 203
          end.

Definition phase1 (rec : lstate -> ps -> res loop_res) (tok : bytes) (rest : list bytes) (ls : lstate) (st : ps)
  : res (option (res loop_res) * lstate * ps) :=
      if l_trailing ls then ROk (None, ls, st) else
      let try_sub := is_set s_sub_precedence c
                     || match l_pst ls with PSValuesDone => true | _ => false end in
      match (if try_sub then possible_subcommand c tok (l_vaf ls) else None) with
      | Some sc =>
          if beq sc s_help && negb (is_set s_disable_help_sub c)
          then ROk (Some (ROk (LHelpSub rest st)), ls, st)
          else ROk (Some (ROk (LSub sc false (l_vaf ls) st rest)), ls, st)
      | None =>
        if is_escape tok then
          do sa <- state_arg c (l_pst ls);
          if match sa with Some a => a_hyphen a | None => false end then ROk (None, ls, st)
          else ROk (Some (rec (mkL (l_pst ls) (l_pos ls) (l_vaf ls) true)
                                     (st <| mt := start_trailing (mt st) |>)), ls, st)
        else match to_long tok with
        | Some (f, ok, v) =>
            do x <- parse_long_arg c f ok v (l_pst ls) (l_pos ls) (l_vaf ls) st;
            match snd (fst x) with PRNoArg => RPanic 153 | _ => after_flag rec rest ls x end
        | None =>
          match to_short tok with
          | Some r =>
              do x <- parse_short_arg c r (l_pst ls) (l_pos ls) (l_vaf ls) st;
              match x with
              | (st1, PRFlagSub n, vaf1) =>
                  match fs_at st1 with
                  | Some a =>
                      do d <- expect 243 (checked_sub (cur_idx st1) a);
                      let st2 := st1 <| fs_skip := d + 1 |> in
                      ROk (Some (ROk (LSub n true vaf1 st2 (tok :: rest))), ls, st2)
                  | None => ROk (Some (ROk (LSub n false vaf1 st1 rest)), ls, st1)
                  end
              | (_, PRUnneeded _ _, _) => RPanic 282
              | (_, PRAttachedNotConsumed, _) => RPanic 282
              | _ => after_flag rec rest ls x
              end
          | None => ROk (None, ls, st)
          end
        end
      end.

Definition opt_part (rec : lstate -> ps -> res loop_res) (tok : bytes) (ls : lstate) (st : ps) (i : id) : res loop_res :=
          do a <- expect 290 (find_arg c i);
          if check_terminator a tok then
            rec (mkL PSValuesDone (l_pos ls) (l_vaf ls) (l_trailing ls)) st
          else
            do m1 <- expect 297 (pending_values_push (mt st) i None false (Some tok));
            do more <- expect 299 (needs_more_vals m1 a);
            rec (mkL (if more then PSOpt i else PSValuesDone) (l_pos ls) (l_vaf ls) (l_trailing ls))
                       (st <| mt := m1 |>).

Definition pc_part (rest : list bytes) (ls : lstate) : res N :=
    let positional_count := positional_count c in
    let contains_last := existsb a_last (c_args c) in
        let pc := l_pos ls in
        let is_second_to_last := (pc + 1 =? positional_count) in
        let low_index_mults := is_second_to_last
             && existsb (fun a => a_is_multiple a && negb (positional_count =? opt_default 0 (a_index a))) (positionals c)
             && match last (map Some (positionals c)) None with Some p => negb (a_last p) | None => false end in
        let is_terminated := match get_pos c pc with Some a => is_some (a_term a) | None => false end in
        let missing_pos := is_set s_allow_missing_pos c && is_second_to_last && negb (l_trailing ls) in
          (if (low_index_mults || missing_pos) && negb is_terminated then
             match rest with
             | n :: _ =>
                 match List.find (fun a => match a_index a with Some k => k =? pc | None => false end) (positionals c) with
                 | Some a => do na <- is_new_arg c n a;
                             ROk (if na || is_some (possible_subcommand c n (l_vaf ls)) then pc + 1 else pc)
                 | None => ROk (pc + 1)
                 end
             | [] => ROk (pc + 1)
             end
           else if l_trailing ls && (is_set s_allow_missing_pos c || contains_last) then ROk positional_count
           else ROk pc).

Definition pos_part (rec : lstate -> ps -> res loop_res) (tok : bytes) (rest : list bytes) (ls : lstate) (st : ps) : res loop_res :=
        do pc' <- pc_part rest ls;
        match get_pos c pc' with
        | Some a =>
            if a_last a && negb (l_trailing ls) then
              do st1 <- resolve_pending_ignore c st;
              RErr (mkerr c EUnknownArgument tok) st1
            else
              let trailing := l_trailing ls || a_tva a in
              do st1 <- (if negb (match pending_arg_id (mt st) with Some i => beq i (a_id a) | None => false end)
                            || negb (a_multiple_values a)
                         then resolve_pending c st else ROk st);
              if check_terminator a tok then
                rec (mkL PSValuesDone (pc' + 1) true trailing) st1
              else
                do m1 <- expect 415 (pending_values_push (mt st1) (a_id a) (Some IIndex) trailing (Some tok));
                if negb (a_is_multiple a)
                then rec (mkL PSValuesDone (pc' + 1) true trailing) (st1 <| mt := m1 |>)
                else rec (mkL (PSPos (a_id a)) pc' true trailing) (st1 <| mt := m1 |>)
        | None =>
            if is_set s_allow_external c then
              if utf8_valid tok then ROk (LExternal tok rest st)
              else do st1 <- resolve_pending_ignore c st; RErr (mkerr c EInvalidUtf8 []) st1
            else do st1 <- resolve_pending_ignore c st;
                 RErr (match_arg_error c tok (l_vaf ls) (l_trailing ls)) st1
        end.

Definition phase2 (rec : lstate -> ps -> res loop_res) (tok : bytes) (rest : list bytes) (ls : lstate) (st : ps)
  : res loop_res :=
      match (if l_trailing ls then PSValuesDone else l_pst ls) with
      | PSOpt i => opt_part rec tok ls st i
      | _ => pos_part rec tok rest ls st
      end.

Lemma parse_loop_step tok rest ls st :
  parse_loop c (tok :: rest) ls st =
  (do p1 <- phase1 (parse_loop c rest) tok rest ls st;
   let '(early, ls, st) := p1 in
   match early with Some r => r | None => phase2 (parse_loop c rest) tok rest ls st end).
Proof. reflexivity. Qed.

End Step.
