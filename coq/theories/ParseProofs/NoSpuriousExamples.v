(** Property C10, fourth pass, part 4: non-vacuity of [no_spurious_reject] and the witnesses that each
    rule is necessary.  Everything here is computation ([vm_compute]) plus the sound checkers of
    NoSpuriousCheck.v and [relations_rule_decide]. *)
From ClapModel Require Import Base.Bytes Base.Machine Base.Utf8 Lex.OsStrExtModel.
From ClapModel Require Import Parse.Cmd Parse.Build Parse.Valid Parse.Matcher Parse.Errors Parse.Validator Parse.Parser.
From ClapModel Require Import ParseProofs.Actions ParseProofs.ErrorSound ParseProofs.Relations ParseProofs.RelationsComplete
                              ParseProofs.Unparse ParseProofs.UnparseTop
                              ParseProofs.UnparseSub ParseProofs.UnparseTrail ParseProofs.UnparseTree
                              ParseProofs.UnparseX ParseProofs.UnparseXTree
                              ParseProofs.NoSpurious ParseProofs.NoSpuriousTree ParseProofs.NoSpuriousCheck.
From Coq Require Import ZArith Lia List Bool.
From RecordUpdate Require Import RecordSet.
Import RecordSetNotations.
Import ListNotations.
Open Scope N_scope.

Module NsrEx.
  (** prog -r/--req <v> (Set, required)   -n/--num <v> (Set, i64 in -5..=300)   -q/--quiet (SetTrue, conflicts_with verbose)
           -v/--verbose (Count)   -m/--mu <v>{1..3} (Append, delimiter ",")   -x/--ex (SetTrue, requires num)
           -d/--def <v> (Set, i64 in 0..=9, default "7")   -p/--pair <v>{2} (Set)   <f>
           subcommand run: -k/--key <v> (Set, required)
      line: prog --req A -n 300 -vv --mu a,b c -x F run --key=K *)
  Definition r : arg := (arg_new [114]) <| a_short := Some 114 |> <| a_long := Some [114; 101; 113] |> <| a_action := Some ASet |>
                          <| a_required := true |>.
  Definition n : arg := (arg_new [110]) <| a_short := Some 110 |> <| a_long := Some [110; 117; 109] |> <| a_action := Some ASet |>
                          <| a_vp := Some (VPI64 (-5) 300) |>.
  Definition q : arg := (arg_new [113]) <| a_short := Some 113 |> <| a_long := Some [113; 117; 105; 101; 116] |>
                          <| a_action := Some ASetTrue |> <| a_blacklist := [[118]] |>.
  Definition v : arg := (arg_new [118]) <| a_short := Some 118 |> <| a_long := Some [118; 101; 114; 98; 111; 115; 101] |>
                          <| a_action := Some ACount |>.
  Definition m : arg := (arg_new [109]) <| a_short := Some 109 |> <| a_long := Some [109; 117] |> <| a_action := Some AAppend |>
                          <| a_num := Some {| vmin := 1; vmax := 3 |} |> <| a_delim := Some 44 |>.
  Definition x : arg := (arg_new [120]) <| a_short := Some 120 |> <| a_long := Some [101; 120] |> <| a_action := Some ASetTrue |>
                          <| a_requires := [(PIsPresent, [110])] |>.
  Definition d : arg := (arg_new [100]) <| a_short := Some 100 |> <| a_long := Some [100; 101; 102] |> <| a_action := Some ASet |>
                          <| a_vp := Some (VPI64 0 9) |> <| a_default := [[55]] |>.
  Definition p : arg := (arg_new [112]) <| a_short := Some 112 |> <| a_long := Some [112; 97; 105; 114] |> <| a_action := Some ASet |>
                          <| a_num := Some {| vmin := 2; vmax := 2 |} |>.
  Definition f : arg := arg_new [102].
  Definition k : arg := (arg_new [107]) <| a_short := Some 107 |> <| a_long := Some [107; 101; 121] |> <| a_action := Some ASet |>
                          <| a_required := true |>.
  Definition run : cmd := (cmd_new [114; 117; 110]) <| c_args := [k] |>.
  Definition c0 : cmd := (cmd_new [112]) <| c_args := [r; n; q; v; m; x; d; p; f] |> <| c_subs := [run] |>.
  Definition bin : bytes := [112].
  Definition c : cmd := build_self (with_bin c0 bin).
  Definition s_run : bytes := [114; 117; 110].
  Definition scb : cmd := match child c s_run with Some s => s | None => c end.
  Lemma child_run : child c s_run = Some scb.
  Proof. vm_compute. reflexivity. Qed.

  Definition its : list item :=
    [ItLongSep [114; 101; 113] [[65]];
     ItCluster [] (TSep 110 [[51; 48; 48]]);
     ItCluster [118; 118] TNone;
     ItLongSep [109; 117] [[97; 44; 98]; [99]];
     ItCluster [120] TNone;
     ItPos [[70]]].
  Definition jts : list item := [ItLongEq [107; 101; 121] [75]].
  Definition ninv : inv := ISub its s_run (ILeaf jts).

  (** a stand-in for "some subcommand was used": the rules read only [is_some] of it *)
  Definition some_sub : option (bytes * matches) := Some ([], Matches [] None).

  Ltac decide_relations :=
    let st1 := fresh "st1" in let st3 := fresh "st3" in let E1 := fresh "E1" in let E3 := fresh "E3" in
    intros st1 st3 E1 E3; vm_compute in E1; inversion E1; subst st1; clear E1;
    vm_compute in E3; inversion E3; subst st3; clear E3; vm_compute; reflexivity.

  Lemma root_rules : level_rules c (occs c 1 its) true.
  Proof.
    assert (HO : Forall occ_rules (occs c 1 its)) by (apply (occ_rules_b_sound c); vm_compute; reflexivity).
    assert (HN : no_repeat c (occs c 1 its)) by (apply no_repeat_b_ok; vm_compute; reflexivity).
    assert (HD : defaults_ok c) by (apply defaults_b_sound; vm_compute; reflexivity).
    constructor; [exact HO|exact HN|exact HD| |left; reflexivity].
    change true with (is_some some_sub).
    apply (relations_rule_decide c _ some_sub); [vm_compute; reflexivity|vm_compute; reflexivity|apply occs_line|exact HO|exact HN|exact HD|].
    decide_relations.
  Qed.

  Lemma run_rules : level_rules scb (occs scb 1 jts) false.
  Proof.
    assert (HO : Forall occ_rules (occs scb 1 jts)) by (apply (occ_rules_b_sound scb); vm_compute; reflexivity).
    assert (HN : no_repeat scb (occs scb 1 jts)) by (apply no_repeat_b_ok; vm_compute; reflexivity).
    assert (HD : defaults_ok scb) by (apply defaults_b_sound; vm_compute; reflexivity).
    constructor; [exact HO|exact HN|exact HD| |right; split; [vm_compute; reflexivity|left; vm_compute; reflexivity]].
    change false with (is_some (@None (bytes * matches))).
    apply (relations_rule_decide scb _ None); [vm_compute; reflexivity|vm_compute; reflexivity|apply occs_line|exact HO|exact HN|exact HD|].
    decide_relations.
  Qed.

  Example ex_class :
    is_set s_no_binary_name c0 = false /\ valid (with_bin c0 bin) = true /\ wfx_inv c ninv = true /\ lvl_class c ninv = true /\
    render_inv ninv =
      [[45; 45; 114; 101; 113]; [65]; [45; 110]; [51; 48; 48]; [45; 118; 118]; [45; 45; 109; 117]; [97; 44; 98]; [99];
       [45; 120]; [70]; [114; 117; 110]; [45; 45; 107; 101; 121; 61; 75]].
  Proof. vm_compute. repeat split; reflexivity. Qed.

  Example ex_rules : inv_rules c ninv.
  Proof.
    unfold ninv. cbn [inv_rules inv_occs has_sub]. split; [exact root_rules|].
    rewrite child_run. cbn [inv_rules inv_occs has_sub]. split; [exact run_rules|exact I].
  Qed.

  Definition raw_of (i : id) (mm : matches) : option groups := opt_map m_raw (fm_get i (ms_args mm)).
  Example ex_parse : exists mm sm,
    parse_top c0 (bin :: render_inv ninv) = OOk mm /\ ms_sub mm = Some (s_run, sm) /\
    raw_of [114] mm = Some [[[65]]] /\ raw_of [110] mm = Some [[[51; 48; 48]]] /\ raw_of [118] mm = Some [[[50]]] /\
    raw_of [109] mm = Some [[[97]; [98]; [99]]] /\ raw_of [120] mm = Some [[s_true]] /\ raw_of [100] mm = Some [[[55]]] /\
    raw_of [102] mm = Some [[[70]]] /\ raw_of [107] sm = Some [[[75]]].
  Proof. eexists. eexists. split; [vm_compute; reflexivity|]. repeat split. Qed.

  (** * each rule is necessary: a line of the class on which the rule named fails (the others hold) and
      which the parser rejects, with the kind that names the rule *)
  Definition in_class (k0 : cmd) (i : inv) : Prop :=
    is_set s_no_binary_name k0 = false /\ valid (with_bin k0 bin) = true /\
    wfx_inv (build_self (with_bin k0 bin)) i = true /\ lvl_class (build_self (with_bin k0 bin)) i = true.
  Definition rejected (k0 : cmd) (i : inv) (k : ekind) (a : bytes) : Prop :=
    exists e, parse_top k0 (bin :: render_inv i) = OErr e /\ e_kind e = k /\ e_arg e = a.
  Ltac cls := repeat split; vm_compute; reflexivity.
  Ltac rej := eexists; split; [vm_compute; reflexivity|split; reflexivity].
  Ltac refute_rel :=
    let st1 := fresh "st1" in let st := fresh "st" in let E1 := fresh "E1" in let E2 := fresh "E2" in
    intros st1 st E1 E2; vm_compute in E1; inversion E1; subst st1; clear E1; vm_compute in E2; discriminate E2.

  Definition REQ : item := ItLongSep [114; 101; 113] [[65]].
  Definition none_sub : option (bytes * matches) := None.

  (** (a)  prog --req A --pair B : one value for an option declared with two *)
  Definition ia : inv := ILeaf [REQ; ItLongSep [112; 97; 105; 114] [[66]]].
  Example need_count :
    in_class c0 ia /\ Forall (fun o => storing (o_arg o) = true /\ values_ok (o_arg o) (o_raw o)) (inv_occs c ia) /\
    no_repeat c (inv_occs c ia) /\ defaults_ok c /\
    ~ Forall (fun o => count_ok_occ (o_arg o) (o_raw o)) (inv_occs c ia) /\
    rejected c0 ia EWrongNumberOfValues [112].
  Proof.
    split; [cls|]. split; [apply (sv_b_sound c); vm_compute; reflexivity|]. split; [apply no_repeat_b_ok; vm_compute; reflexivity|].
    split; [apply defaults_b_sound; vm_compute; reflexivity|]. split; [|rej].
    intros F. pose proof (forall_b_complete _ (fun o => count_b (o_arg o) (o_raw o)) _ (fun o H => count_b_complete _ _ H) F) as B.
    vm_compute in B. discriminate B.
  Qed.

  (** (b)  prog --req A -n 301 : a value outside the declared range -5..=300 *)
  Definition ib : inv := ILeaf [REQ; ItCluster [] (TSep 110 [[51; 48; 49]])].
  Example need_language :
    in_class c0 ib /\ Forall (fun o => storing (o_arg o) = true /\ count_ok_occ (o_arg o) (o_raw o)) (inv_occs c ib) /\
    no_repeat c (inv_occs c ib) /\ defaults_ok c /\
    ~ Forall (fun o => values_ok (o_arg o) (o_raw o)) (inv_occs c ib) /\
    rejected c0 ib EValueValidation [110].
  Proof.
    split; [cls|]. split; [apply sc_b_sound; vm_compute; reflexivity|]. split; [apply no_repeat_b_ok; vm_compute; reflexivity|].
    split; [apply defaults_b_sound; vm_compute; reflexivity|]. split; [|rej].
    intros F. pose proof (forall_b_complete _ (fun o => values_b c (o_arg o) (o_raw o)) _ (fun o H => values_b_complete c _ _ H) F) as B.
    vm_compute in B. discriminate B.
  Qed.

  (** (h)  prog --req A --help : the action of the named argument does not store *)
  Definition ih : inv := ILeaf [REQ; ItLong [104; 101; 108; 112]].
  Example need_storing :
    in_class c0 ih /\ ~ Forall (fun o => storing (o_arg o) = true) (inv_occs c ih) /\ rejected c0 ih EDisplayHelp [].
  Proof.
    split; [cls|]. split; [|rej].
    intros F. pose proof (forall_b_complete _ (fun o => storing (o_arg o)) _ (fun o H => H) F) as B.
    vm_compute in B. discriminate B.
  Qed.

  (** (d)  prog --req A --req B : a Set argument that does not override itself, twice *)
  Definition id_ : inv := ILeaf [REQ; ItLongSep [114; 101; 113] [[66]]].
  Example need_no_repeat :
    in_class c0 id_ /\ Forall occ_rules (inv_occs c id_) /\ defaults_ok c /\
    ~ no_repeat c (inv_occs c id_) /\ rejected c0 id_ EArgumentConflict [114].
  Proof.
    split; [cls|]. split; [apply (occ_rules_b_sound c); vm_compute; reflexivity|].
    split; [apply defaults_b_sound; vm_compute; reflexivity|]. split; [|rej].
    apply no_repeat_b_refute. vm_compute. reflexivity.
  Qed.

  (** (c)  three lines on which only the relations fail: a required argument missing, a declared conflict,
      a [requires] target missing *)
  Definition ic1 : inv := ILeaf [ItCluster [] (TSep 110 [[51]])].
  Definition ic2 : inv := ILeaf [REQ; ItCluster [113] TNone; ItCluster [118] TNone].
  Definition ic3 : inv := ILeaf [REQ; ItCluster [120] TNone].
  Lemma need_relations_gen i k a : in_class c0 (ILeaf i) -> forallb (occ_rules_b c) (occs c 1 i) = true ->
    no_repeat_b c [] (occs c 1 i) = true ->
    (forall st1 st, react_all c (occs c 1 i) ps_new = ROk st1 -> post_loop c (ssub none_sub st1) <> ROk st) ->
    rejected c0 (ILeaf i) k a ->
    in_class c0 (ILeaf i) /\ Forall occ_rules (inv_occs c (ILeaf i)) /\ no_repeat c (inv_occs c (ILeaf i)) /\ defaults_ok c /\
    shape_rule c (inv_occs c (ILeaf i)) false /\ ~ relations_rule c (inv_occs c (ILeaf i)) false /\ rejected c0 (ILeaf i) k a.
  Proof.
    intros Hc HO HN HF HR. cbn [inv_occs].
    assert (HO' : Forall occ_rules (occs c 1 i)) by (apply (occ_rules_b_sound c); exact HO).
    assert (HN' : no_repeat c (occs c 1 i)) by (apply no_repeat_b_ok; exact HN).
    assert (HD : defaults_ok c) by (apply defaults_b_sound; vm_compute; reflexivity).
    assert (HS : shape_rule c (occs c 1 i) false) by (right; split; [vm_compute; reflexivity|left; vm_compute; reflexivity]).
    split; [exact Hc|]. split; [exact HO'|]. split; [exact HN'|]. split; [exact HD|]. split; [exact HS|]. split; [|exact HR].
    change false with (is_some none_sub).
    apply (relations_rule_refute c _ none_sub); [vm_compute; reflexivity|vm_compute; reflexivity|vm_compute; reflexivity|
      apply occs_line|exact HO'|exact HN'|exact HD|exact HS|exact HF].
  Qed.
  Example need_relations_required :
    in_class c0 ic1 /\ Forall occ_rules (inv_occs c ic1) /\ no_repeat c (inv_occs c ic1) /\ defaults_ok c /\
    shape_rule c (inv_occs c ic1) false /\ ~ relations_rule c (inv_occs c ic1) false /\ rejected c0 ic1 EMissingRequiredArgument [114].
  Proof. apply need_relations_gen; [cls|vm_compute; reflexivity|vm_compute; reflexivity|refute_rel|rej]. Qed.
  Example need_relations_conflict :
    in_class c0 ic2 /\ Forall occ_rules (inv_occs c ic2) /\ no_repeat c (inv_occs c ic2) /\ defaults_ok c /\
    shape_rule c (inv_occs c ic2) false /\ ~ relations_rule c (inv_occs c ic2) false /\ rejected c0 ic2 EArgumentConflict [113].
  Proof. apply need_relations_gen; [cls|vm_compute; reflexivity|vm_compute; reflexivity|refute_rel|rej]. Qed.
  Example need_relations_requires :
    in_class c0 ic3 /\ Forall occ_rules (inv_occs c ic3) /\ no_repeat c (inv_occs c ic3) /\ defaults_ok c /\
    shape_rule c (inv_occs c ic3) false /\ ~ relations_rule c (inv_occs c ic3) false /\ rejected c0 ic3 EMissingRequiredArgument [110].
  Proof. apply need_relations_gen; [cls|vm_compute; reflexivity|vm_compute; reflexivity|refute_rel|rej]. Qed.

  (** (e)  the same program with [default_value("77")] on --def (i64 in 0..=9); line: prog --req A *)
  Definition d2 : arg := d <| a_default := [[55; 55]] |>.
  Definition c0e : cmd := c0 <| c_args := [r; n; q; v; m; x; d2; p; f] |>.
  Definition ce : cmd := build_self (with_bin c0e bin).
  Definition ie : inv := ILeaf [REQ].
  Example need_defaults :
    in_class c0e ie /\ Forall occ_rules (inv_occs ce ie) /\ no_repeat ce (inv_occs ce ie) /\
    ~ defaults_ok ce /\ rejected c0e ie EValueValidation [100].
  Proof.
    split; [cls|]. split; [apply (occ_rules_b_sound ce); vm_compute; reflexivity|].
    split; [apply no_repeat_b_ok; vm_compute; reflexivity|]. split; [|rej].
    intros D. pose proof (defaults_b_complete ce D) as B. vm_compute in B. discriminate B.
  Qed.
End NsrEx.

Lemma necessity_vocabulary : forall k0 i k a,
  (NsrEx.in_class k0 i <->
   is_set s_no_binary_name k0 = false /\ valid (with_bin k0 NsrEx.bin) = true /\
   wfx_inv (build_self (with_bin k0 NsrEx.bin)) i = true /\ lvl_class (build_self (with_bin k0 NsrEx.bin)) i = true) /\
  (NsrEx.rejected k0 i k a <->
   exists e, parse_top k0 (NsrEx.bin :: render_inv i) = OErr e /\ e_kind e = k /\ e_arg e = a) /\
  NsrEx.c = build_self (with_bin NsrEx.c0 NsrEx.bin) /\ NsrEx.ce = build_self (with_bin NsrEx.c0e NsrEx.bin).
Proof.
  intros k0 i k a. split; [split; intros X; exact X|]. split; [split; intros X; exact X|]. split; reflexivity.
Qed.
