(** Property C08, generic decomposition of the token loop.

    One iteration of [parse_loop] either hands over to the loop on the rest of the line at ONE new
    (loop state, parser state) -- every recursive call of the model's loop body is a tail call -- or it
    leaves the loop with a result that mentions the rest of the line only as the payload handed to a
    subcommand.  The rest of the line is looked at in exactly one other place: the look-ahead of the
    positional counter correction ([pos_counter], low-index multiples / allow_missing_positional).

    [step] is that one iteration as a function returning "go on from (ls, st)" or "exit"; [run] iterates
    it over a prefix.  [run_split]: for EVERY prefix [pre] and every [tail],
    [parse_loop (pre ++ tail)] = run [pre], then [parse_loop tail] from the state reached (or the exit
    result, with the unread tokens as payload).  [run_la]: the run over [pre] depends on [tail] only
    through the look-ahead class of its first token ([la_eq]). *)
From ClapModel Require Import Base.Bytes Base.Machine Base.Utf8 Lex.OsStrExtModel.
From ClapModel Require Import Parse.Cmd Parse.Build Parse.Valid Parse.Matcher Parse.Errors Parse.Validator Parse.Parser.
From ClapModel Require Import ParseProofs.Spelling ParseProofs.Actions ParseProofs.ActionsLoop ParseProofs.Dispatch.
From ClapModel Require Import ParseProofs.SpellingLine.
From Coq Require Import ZArith Lia List Bool.
From RecordUpdate Require Import RecordSet.
Import RecordSetNotations.
Import ListNotations.
Open Scope N_scope.

(** ways of leaving the loop inside an iteration *)
Inductive exit :=
| XErr (e : error) (st : ps)
| XPanic (n : N)
| XSub (n : bytes) (keep vaf : bool) (st : ps)     (* payload: the rest (and the token itself when [keep]) *)
| XHelp (st : ps)                                    (* payload: the rest *)
| XExt (st : ps).                                    (* external subcommand [tok], payload: the rest *)

Inductive sres := SGo (ls : lstate) (st : ps) | SExit (x : exit).

Definition exit_res (tok : bytes) (rest : list bytes) (x : exit) : res loop_res :=
  match x with
  | XErr e st => RErr e st
  | XPanic n => RPanic n
  | XSub n keep vaf st => ROk (LSub n keep vaf st (if keep then tok :: rest else rest))
  | XHelp st => ROk (LHelpSub rest st)
  | XExt st => ROk (LExternal tok rest st)
  end.

Definition interp (rec : lstate -> ps -> res loop_res) (tok : bytes) (rest : list bytes) (s : sres) : res loop_res :=
  match s with SGo ls st => rec ls st | SExit x => exit_res tok rest x end.

Definition sbind {A} (r : res A) (f : A -> sres) : sres :=
  match r with ROk a => f a | RErr e s => SExit (XErr e s) | RPanic n => SExit (XPanic n) end.

Lemma interp_sbind {A} rec tok rest (r : res A) f :
  interp rec tok rest (sbind r f) = rbind r (fun a => interp rec tok rest (f a)).
Proof. destruct r; reflexivity. Qed.

Definition p1map (f : sres -> res loop_res) (p : res (option sres * lstate * ps))
  : res (option (res loop_res) * lstate * ps) :=
  match p with
  | ROk (o, l, s) => ROk (opt_map f o, l, s)
  | RErr e s => RErr e s
  | RPanic n => RPanic n
  end.

Lemma p1map_bind {A} f (r : res A) k : p1map f (rbind r k) = rbind r (fun a => p1map f (k a)).
Proof. destruct r; reflexivity. Qed.

Section Step.
Variable c : cmd.

Definition after_flag_s (ls : lstate) (x : ps * presult * bool) : res (option sres * lstate * ps) :=
  let '(st1, pr, vaf1) := x in
  let ls1 := mkL (l_pst ls) (l_pos ls) vaf1 false in
  match pr with
  | PRValuesDone => ROk (Some (SGo (mkL PSValuesDone (l_pos ls) vaf1 false) st1), ls1, st1)
  | PROpt i => ROk (Some (SGo (mkL (PSOpt i) (l_pos ls) vaf1 false) st1), ls1, st1)
  | PRFlagSub n => ROk (Some (SExit (XSub n false vaf1 st1)), ls1, st1)
  | PREqualsNotProvided a =>
      do st2 <- resolve_pending_ignore c st1; ROk (Some (SExit (XErr (mkerr c ENoEquals a) st2)), ls1, st2)
  | PRNoMatchingArg a =>
      do st2 <- resolve_pending_ignore c st1; ROk (Some (SExit (XErr (mkerr c EUnknownArgument a) st2)), ls1, st2)
  | PRUnneeded r a =>
      do st2 <- resolve_pending_ignore c st1; ROk (Some (SExit (XErr (mkerr c ETooManyValues a) st2)), ls1, st2)
  | PRMaybeHyphen => ROk (None, ls1, st1)
  | PRNoArg => ROk (None, ls1, st1)
  | PRAttachedNotConsumed => RPanic 203
  end.

Definition after_short_s (ls : lstate) (x : ps * presult * bool) : res (option sres * lstate * ps) :=
  match x with
  | (st1, PRFlagSub n, vaf1) =>
      match fs_at st1 with
      | Some a =>
          do d <- expect 243 (checked_sub (cur_idx st1) a);
          let st2 := st1 <| fs_skip := d + 1 |> in
          ROk (Some (SExit (XSub n true vaf1 st2)), ls, st2)
      | None => ROk (Some (SExit (XSub n false vaf1 st1)), ls, st1)
      end
  | (_, PRUnneeded _ _, _) => RPanic 282
  | (_, PRAttachedNotConsumed, _) => RPanic 282
  | _ => after_flag_s ls x
  end.

Definition classify_s (tok : bytes) (ls : lstate) (st : ps) : res (option sres * lstate * ps) :=
  if is_escape tok then
    do sa <- state_arg c (l_pst ls);
    if match sa with Some a => a_hyphen a | None => false end then ROk (None, ls, st)
    else ROk (Some (SGo (mkL (l_pst ls) (l_pos ls) (l_vaf ls) true)
                        (st <| mt := start_trailing (mt st) |>)), ls, st)
  else match to_long tok with
  | Some (f, ok, v) =>
      do x <- parse_long_arg c f ok v (l_pst ls) (l_pos ls) (l_vaf ls) st;
      match snd (fst x) with PRNoArg => RPanic 153 | _ => after_flag_s ls x end
  | None =>
    match to_short tok with
    | Some r =>
        do x <- parse_short_arg c r (l_pst ls) (l_pos ls) (l_vaf ls) st;
        after_short_s ls x
    | None => ROk (None, ls, st)
    end
  end.

Definition phase1_s (tok : bytes) (ls : lstate) (st : ps) : res (option sres * lstate * ps) :=
  if l_trailing ls then ROk (None, ls, st) else
  let try_sub := is_set s_sub_precedence c
                 || match l_pst ls with PSValuesDone => true | _ => false end in
  match (if try_sub then possible_subcommand c tok (l_vaf ls) else None) with
  | Some sc =>
      if beq sc s_help && negb (is_set s_disable_help_sub c)
      then ROk (Some (SExit (XHelp st)), ls, st)
      else ROk (Some (SExit (XSub sc false (l_vaf ls) st)), ls, st)
  | None => classify_s tok ls st
  end.

(** [pcf] = the positional counter correction, i.e. the only reader of the rest of the line *)
Definition positional_s (pcf : lstate -> res N) (tok : bytes) (ls : lstate) (st : ps) : sres :=
  sbind (pcf ls) (fun pc' =>
  match get_pos c pc' with
  | Some a =>
      if a_last a && negb (l_trailing ls) then
        sbind (resolve_pending_ignore c st) (fun st1 => SExit (XErr (mkerr c EUnknownArgument tok) st1))
      else
        let trailing := l_trailing ls || a_tva a in
        sbind (if negb (match pending_arg_id (mt st) with Some i => beq i (a_id a) | None => false end)
                  || negb (a_multiple_values a)
               then resolve_pending c st else ROk st) (fun st1 =>
        if check_terminator a tok then
          SGo (mkL PSValuesDone (pc' + 1) true trailing) st1
        else
          sbind (expect 415 (pending_values_push (mt st1) (a_id a) (Some IIndex) trailing (Some tok))) (fun m1 =>
          if negb (a_is_multiple a)
          then SGo (mkL PSValuesDone (pc' + 1) true trailing) (st1 <| mt := m1 |>)
          else SGo (mkL (PSPos (a_id a)) pc' true trailing) (st1 <| mt := m1 |>)))
  | None =>
      if is_set s_allow_external c then
        if utf8_valid tok then SExit (XExt st)
        else sbind (resolve_pending_ignore c st) (fun st1 => SExit (XErr (mkerr c EInvalidUtf8 []) st1))
      else sbind (resolve_pending_ignore c st) (fun st1 =>
           SExit (XErr (match_arg_error c tok (l_vaf ls) (l_trailing ls)) st1))
  end).

Definition phase2_s (pcf : lstate -> res N) (tok : bytes) (ls : lstate) (st : ps) : sres :=
  match (if l_trailing ls then PSValuesDone else l_pst ls) with
  | PSOpt i =>
      sbind (expect 290 (find_arg c i)) (fun a =>
      if check_terminator a tok then
        SGo (mkL PSValuesDone (l_pos ls) (l_vaf ls) (l_trailing ls)) st
      else
        sbind (expect 297 (pending_values_push (mt st) i None false (Some tok))) (fun m1 =>
        sbind (expect 299 (needs_more_vals m1 a)) (fun more =>
        SGo (mkL (if more then PSOpt i else PSValuesDone) (l_pos ls) (l_vaf ls) (l_trailing ls))
            (st <| mt := m1 |>))))
  | _ => positional_s pcf tok ls st
  end.

Definition finish_s (pcf : lstate -> res N) (tok : bytes) (p : res (option sres * lstate * ps)) : sres :=
  sbind p (fun p1 =>
  let '(early, ls, st) := p1 in
  match early with
  | Some r => r
  | None => phase2_s pcf tok ls st
  end).

(** one iteration; [pcf] abstracts the look-ahead *)
Definition step_with (pcf : lstate -> res N) (tok : bytes) (ls : lstate) (st : ps) : sres :=
  finish_s pcf tok (phase1_s tok ls st).

(** one iteration when [rest] follows *)
Definition step (rest : list bytes) (tok : bytes) (ls : lstate) (st : ps) : sres :=
  step_with (pos_counter c rest) tok ls st.

(** ** the pieces of the model's loop body are the interpretation of these *)
Section Interp.
Variable rec : lstate -> ps -> res loop_res.
Variable rest : list bytes.
Variable tok : bytes.
Let I := interp rec tok rest.

Lemma after_flag_interp ls x : after_flag c rec rest ls x = p1map I (after_flag_s ls x).
Proof.
  destruct x as [[st1 pr] vaf1]. unfold after_flag, after_flag_s.
  destruct pr; try reflexivity; rewrite p1map_bind; reflexivity.
Qed.

Lemma after_short_interp ls x : after_short c rec rest tok ls x = p1map I (after_short_s ls x).
Proof.
  destruct x as [[st1 pr] vaf1]. unfold after_short, after_short_s.
  destruct pr; try apply after_flag_interp; try reflexivity.
  destruct (fs_at st1) as [a|]; [|reflexivity].
  rewrite p1map_bind. reflexivity.
Qed.

Lemma classify_interp ls st : classify c rec rest tok ls st = p1map I (classify_s tok ls st).
Proof.
  unfold classify, classify_s. destruct (is_escape tok).
  - rewrite p1map_bind. destruct (state_arg c (l_pst ls)) as [sa|e s|n]; cbn [rbind]; try reflexivity.
    destruct (match sa with Some a => a_hyphen a | None => false end); reflexivity.
  - destruct (to_long tok) as [[[f ok] v]|].
    + rewrite p1map_bind.
      destruct (parse_long_arg c f ok v (l_pst ls) (l_pos ls) (l_vaf ls) st) as [x|e s|n]; cbn [rbind]; try reflexivity.
      destruct (snd (fst x)) eqn:E; try apply after_flag_interp. reflexivity.
    + destruct (to_short tok) as [r|]; [|reflexivity].
      rewrite p1map_bind.
      destruct (parse_short_arg c r (l_pst ls) (l_pos ls) (l_vaf ls) st) as [x|e s|n]; cbn [rbind]; try reflexivity.
      apply after_short_interp.
Qed.

Lemma phase1_interp ls st : phase1 c rec rest tok ls st = p1map I (phase1_s tok ls st).
Proof.
  unfold phase1, phase1_s. destruct (l_trailing ls); [reflexivity|]. cbv zeta.
  destruct (if is_set s_sub_precedence c || match l_pst ls with PSValuesDone => true | _ => false end
            then possible_subcommand c tok (l_vaf ls) else None) as [sc|].
  - destruct (beq sc s_help && negb (is_set s_disable_help_sub c)); reflexivity.
  - apply classify_interp.
Qed.

Lemma positional_interp ls st :
  positional c rec rest tok ls st = I (positional_s (pos_counter c rest) tok ls st).
Proof.
  unfold positional, positional_s, I. rewrite interp_sbind.
  destruct (pos_counter c rest ls) as [pc'|e s|n]; cbn [rbind]; try reflexivity.
  destruct (get_pos c pc') as [a|].
  - destruct (a_last a && negb (l_trailing ls)).
    + rewrite interp_sbind. reflexivity.
    + cbv zeta. rewrite interp_sbind.
      destruct (if negb (match pending_arg_id (mt st) with Some i => beq i (a_id a) | None => false end)
                   || negb (a_multiple_values a) then resolve_pending c st else ROk st) as [st1|e s|n];
        cbn [rbind]; try reflexivity.
      destruct (check_terminator a tok); [reflexivity|].
      rewrite interp_sbind.
      destruct (pending_values_push (mt st1) (a_id a) (Some IIndex) (l_trailing ls || a_tva a) (Some tok)) as [m1|];
        cbn [expect rbind]; try reflexivity.
      destruct (negb (a_is_multiple a)); reflexivity.
  - destruct (is_set s_allow_external c).
    + destruct (utf8_valid tok); [reflexivity|]. rewrite interp_sbind. reflexivity.
    + rewrite interp_sbind. reflexivity.
Qed.

Lemma phase2_interp ls st : phase2 c rec rest tok ls st = I (phase2_s (pos_counter c rest) tok ls st).
Proof.
  unfold phase2, phase2_s.
  destruct (if l_trailing ls then PSValuesDone else l_pst ls) as [|i|i]; try apply positional_interp.
  unfold I. rewrite interp_sbind.
  destruct (find_arg c i) as [a|]; cbn [expect rbind]; [|reflexivity].
  destruct (check_terminator a tok); [reflexivity|].
  rewrite interp_sbind.
  destruct (pending_values_push (mt st) i None false (Some tok)) as [m1|]; cbn [expect rbind]; [|reflexivity].
  rewrite interp_sbind.
  destruct (needs_more_vals m1 a) as [more|]; cbn [expect rbind]; reflexivity.
Qed.

(** the model's loop body is [step], interpreted *)
Lemma iteration_step ls st : iteration c rec rest tok ls st = I (step rest tok ls st).
Proof.
  unfold iteration, finish_iter, step, step_with, finish_s. rewrite phase1_interp.
  destruct (phase1_s tok ls st) as [[[early l] s]|e s|n]; cbn [p1map rbind sbind]; try reflexivity.
  destruct early as [r|]; cbn [opt_map]; [reflexivity|]. apply phase2_interp.
Qed.
End Interp.

(** ** look-ahead classes *)
(** two continuations of the line that the positional counter correction cannot tell apart *)
Definition la_eq (r1 r2 : list bytes) : Prop := forall ls, pos_counter c r1 ls = pos_counter c r2 ls.

Lemma la_eq_refl r : la_eq r r.
Proof. intros ls. reflexivity. Qed.

Lemma la_eq_sym r1 r2 : la_eq r1 r2 -> la_eq r2 r1.
Proof. intros H ls. symmetry. apply H. Qed.

Lemma la_eq_trans r1 r2 r3 : la_eq r1 r2 -> la_eq r2 r3 -> la_eq r1 r3.
Proof. intros H1 H2 ls. rewrite H1. apply H2. Qed.

(** only the first token is looked at *)
Lemma la_eq_head n r1 r2 : la_eq (n :: r1) (n :: r2).
Proof. intros ls. reflexivity. Qed.

Lemma la_eq_app p r1 r2 : la_eq r1 r2 -> la_eq (p ++ r1) (p ++ r2).
Proof. destruct p as [|n p]; [intros H; exact H|intros _; apply la_eq_head]. Qed.

Lemma step_with_ext f g tok ls st : (forall l, f l = g l) -> step_with f tok ls st = step_with g tok ls st.
Proof.
  intros E. unfold step_with, finish_s.
  destruct (phase1_s tok ls st) as [[[early l] s]|e s|n]; cbn [sbind]; try reflexivity.
  destruct early as [r|]; [reflexivity|].
  unfold phase2_s. destruct (if l_trailing l then PSValuesDone else l_pst l); try reflexivity;
    unfold positional_s; rewrite E; reflexivity.
Qed.

Lemma step_la r1 r2 tok ls st : la_eq r1 r2 -> step r1 tok ls st = step r2 tok ls st.
Proof. intros H. apply step_with_ext. exact H. Qed.

(** ** running a prefix *)
(** the state the loop is in when it has consumed [pre] (and [tail] follows), or the way it left the
    loop inside [pre]: the exit, the token at which it happened and the tokens of [pre] not yet read *)
Fixpoint run (pre tail : list bytes) (ls : lstate) (st : ps) : (lstate * ps) + (exit * bytes * list bytes) :=
  match pre with
  | [] => inl (ls, st)
  | tok :: pre' =>
      match step (pre' ++ tail) tok ls st with
      | SGo ls1 st1 => run pre' tail ls1 st1
      | SExit x => inr (x, tok, pre')
      end
  end.

(** THE GENERIC DECOMPOSITION: any prefix, any tail *)
Theorem run_split : forall pre tail ls st,
  parse_loop c (pre ++ tail) ls st =
  match run pre tail ls st with
  | inl (ls', st') => parse_loop c tail ls' st'
  | inr (x, tok, pre') => exit_res tok (pre' ++ tail) x
  end.
Proof.
  induction pre as [|tok pre IH]; intros tail ls st; [reflexivity|].
  cbn [app run]. rewrite parse_loop_cons, iteration_step.
  destruct (step (pre ++ tail) tok ls st) as [ls1 st1|x]; cbn [interp]; [apply IH|reflexivity].
Qed.

(** a line that ends at this level ([LDone]) has run through every prefix of itself *)
Theorem run_of_done pre tail ls st s : parse_loop c (pre ++ tail) ls st = ROk (LDone s) ->
  exists ls' st', run pre tail ls st = inl (ls', st') /\ parse_loop c tail ls' st' = ROk (LDone s).
Proof.
  rewrite run_split. destruct (run pre tail ls st) as [[ls' st']|[[x tok] pre']].
  - intros H. exists ls', st'. auto.
  - destruct x; cbn [exit_res]; discriminate.
Qed.

Theorem run_la : forall pre t1 t2 ls st, la_eq t1 t2 -> run pre t1 ls st = run pre t2 ls st.
Proof.
  induction pre as [|tok pre IH]; intros t1 t2 ls st H; [reflexivity|].
  cbn [run]. rewrite (step_la (pre ++ t1) (pre ++ t2) tok ls st (la_eq_app pre t1 t2 H)).
  destruct (step (pre ++ t2) tok ls st) as [ls1 st1|x]; [apply IH; exact H|reflexivity].
Qed.

Theorem run_app : forall p q tail ls st,
  run (p ++ q) tail ls st =
  match run p (q ++ tail) ls st with
  | inl (ls', st') => run q tail ls' st'
  | inr (x, tok, p') => inr (x, tok, p' ++ q)
  end.
Proof.
  induction p as [|tok p IH]; intros q tail ls st; [reflexivity|].
  cbn [app run]. rewrite <- app_assoc.
  destruct (step (p ++ q ++ tail) tok ls st) as [ls1 st1|x]; [apply IH|reflexivity].
Qed.
End Step.

(** * the loop only hands over states with [flag_subcmd_skip = 0] *)
Section Fs.
Variable c : cmd.

Lemma pov_fs idn att a he st st' pr : parse_opt_value c idn att a he st = ROk (st', pr) -> fs_skip st' = fs_skip st.
Proof.
  unfold parse_opt_value. destruct (a_req_eq a && negb he).
  - destruct (a_num a) as [r|]; cbn [expect rbind]; [|discriminate].
    destruct (vmin r =? 0).
    + destruct (react c (Some idn) SCmdLine a [] None st) as [[s1 p1]|e s1|n] eqn:R; cbn [rbind]; try discriminate.
      intros H; inversion H; subst. apply (react_fs _ _ _ _ _ _ _ _ _ R).
    + intros H; inversion H; reflexivity.
  - destruct att as [v|].
    + destruct (react c (Some idn) SCmdLine a [v] None st) as [[s1 p1]|e s1|n] eqn:R; cbn [rbind]; try discriminate.
      intros H; inversion H; subst. apply (react_fs _ _ _ _ _ _ _ _ _ R).
    + destruct (resolve_pending c st) as [s1|e s1|n] eqn:R; cbn [rbind]; try discriminate.
      destruct (pending_values_push (mt s1) (a_id a) (Some idn) false None) as [m|]; cbn [expect rbind]; try discriminate.
      intros H; inversion H; subst. rewrite <- (SpellingLine.resolve_pending_fs c _ _ R). destruct s1; reflexivity.
Qed.

Lemma pla_fs f ok v pst pos vaf st st' pr w :
  parse_long_arg c f ok v pst pos vaf st = ROk (st', pr, w) -> fs_skip st' = fs_skip st.
Proof.
  rewrite parse_long_arg_unfold.
  destruct (state_arg c pst) as [sa|e s|n]; cbn [rbind]; try discriminate.
  destruct (match sa with Some a => a_hyphen a | None => false end); [intros H; inversion H; reflexivity|].
  destruct (negb ok); [intros H; inversion H; reflexivity|].
  destruct (is_nil f && negb (is_some v)); [discriminate|].
  unfold parse_long_found. destruct (lookup_long c f) as [a|].
  - destruct (a_takes_value a).
    + destruct (parse_opt_value c ILong v a (is_some v) st) as [[s1 p1]|e s1|n] eqn:R; cbn [rbind]; try discriminate.
      intros H; inversion H; subst. apply (pov_fs _ _ _ _ _ _ _ R).
    + destruct v as [rst|]; [intros H; inversion H; reflexivity|].
      destruct (react c (Some ILong) SCmdLine a [] None st) as [[s1 p1]|e s1|n] eqn:R; cbn [rbind]; try discriminate.
      intros H; inversion H; subst. apply (react_fs _ _ _ _ _ _ _ _ _ R).
  - destruct (possible_long_flag_subcommand c f); [intros H; inversion H; reflexivity|].
    destruct (match get_pos c pos with Some a => a_hyphen a && negb (a_last a) | None => false end);
      intros H; inversion H; reflexivity.
Qed.

Lemma short_loop_fs : forall fuel r ret vaf st st' pr w,
  short_loop c fuel r ret vaf st = ROk (st', pr, w) -> fs_skip st' = fs_skip st.
Proof.
  induction fuel as [|f IH]; intros r ret vaf st st' pr w; [discriminate|]. cbn [short_loop].
  destruct (sf_next r) as [[[ch|rst] r']|]; try (intros H; inversion H; reflexivity).
  destruct (get_short c ch) as [a|].
  - destruct (negb (a_takes_value a)).
    + destruct (react c (Some IShort) SCmdLine a [] None st) as [[s1 p1]|e s1|n] eqn:R; cbn [rbind]; try discriminate.
      cbn [fst snd]. intros H. rewrite (IH _ _ _ _ _ _ _ H). apply (react_fs _ _ _ _ _ _ _ _ _ R).
    + destruct (match match r' with [] => None | _ => Some r' end with
                | Some (61 :: v) => (Some v, true)
                | _ => (match r' with [] => None | _ => Some r' end, false) end) as [val he].
      destruct (parse_opt_value c IShort val a he st) as [[s1 p1]|e s1|n] eqn:R; cbn [rbind]; try discriminate.
      cbn [fst snd]. pose proof (pov_fs _ _ _ _ _ _ _ R) as F1.
      destruct p1; try (intros H; inversion H; subst; exact F1).
      intros H. rewrite (IH _ _ _ _ _ _ _ H). exact F1.
  - destruct (find_short_subcmd c ch) as [name|]; [|intros H; inversion H; reflexivity].
    destruct (resolve_pending c st) as [s1|e s1|n] eqn:R; cbn [rbind]; try discriminate.
    intros H; inversion H; subst. rewrite <- (SpellingLine.resolve_pending_fs c _ _ R). destruct s1; reflexivity.
Qed.

Lemma psa_fs r pst pos vaf st st' pr w : fs_skip st = 0 ->
  parse_short_arg c r pst pos vaf st = ROk (st', pr, w) -> fs_skip st' = 0.
Proof.
  intros F. unfold parse_short_arg.
  destruct (state_arg c pst) as [sa|e s|n]; cbn [rbind]; try discriminate.
  destruct (match sa with Some a => a_hyphen a || (a_negnum a && sf_is_negative_number r) | None => false end);
    [intros H; inversion H; subst; exact F|].
  destruct (match get_pos c pos with Some a => a_negnum a | None => false end && sf_is_negative_number r);
    [intros H; inversion H; subst; exact F|].
  destruct (match get_pos c pos with Some a => a_hyphen a && negb (a_last a) | None => false end
            && sf_any_unknown c (S (length r)) r); [intros H; inversion H; subst; exact F|].
  destruct (sf_advance_by _ r) as [r0|]; cbn [expect rbind]; [|discriminate].
  intros H. rewrite (short_loop_fs _ _ _ _ _ _ _ _ H). destruct st; reflexivity.
Qed.

Definition p1_fs (p : res (option sres * lstate * ps)) : Prop :=
  match p with
  | ROk (None, _, s) => fs_skip s = 0
  | ROk (Some (SGo _ s1), _, _) => fs_skip s1 = 0
  | _ => True
  end.

Lemma after_flag_fs ls st1 pr w : fs_skip st1 = 0 -> p1_fs (after_flag_s c ls (st1, pr, w)).
Proof.
  intros F. unfold after_flag_s. destruct pr; cbn [p1_fs]; auto;
    destruct (resolve_pending_ignore c st1) as [s2|e s2|n]; cbn [rbind p1_fs]; auto.
Qed.

Lemma after_short_fs ls st1 pr w : fs_skip st1 = 0 -> p1_fs (after_short_s c ls (st1, pr, w)).
Proof.
  intros F. unfold after_short_s. destruct pr; try (apply after_flag_fs; exact F); cbn [p1_fs]; auto.
  destruct (fs_at st1) as [a|]; cbn [p1_fs]; auto.
  destruct (checked_sub (cur_idx st1) a); cbn [expect rbind p1_fs]; auto.
Qed.

Lemma classify_fs tok ls st : fs_skip st = 0 -> p1_fs (classify_s c tok ls st).
Proof.
  intros F. unfold classify_s. destruct (is_escape tok).
  - destruct (state_arg c (l_pst ls)) as [sa|e s|n]; cbn [rbind p1_fs]; auto.
    destruct (match sa with Some a => a_hyphen a | None => false end); cbn [p1_fs]; [exact F|].
    destruct st; exact F.
  - destruct (to_long tok) as [[[f ok] v]|].
    + destruct (parse_long_arg c f ok v (l_pst ls) (l_pos ls) (l_vaf ls) st) as [[[s1 pr] w]|e s|n] eqn:R;
        cbn [rbind p1_fs]; auto.
      pose proof (pla_fs _ _ _ _ _ _ _ _ _ _ R) as F1. rewrite F in F1. cbn [fst snd].
      destruct pr; try (apply after_flag_fs; exact F1). cbn [p1_fs]. auto.
    + destruct (to_short tok) as [r|]; [|exact F].
      destruct (parse_short_arg c r (l_pst ls) (l_pos ls) (l_vaf ls) st) as [[[s1 pr] w]|e s|n] eqn:R;
        cbn [rbind p1_fs]; auto.
      apply after_short_fs. apply (psa_fs _ _ _ _ _ _ _ _ F R).
Qed.

Lemma phase1_fs tok ls st : fs_skip st = 0 -> p1_fs (phase1_s c tok ls st).
Proof.
  intros F. unfold phase1_s. destruct (l_trailing ls); [exact F|]. cbv zeta.
  destruct (if is_set s_sub_precedence c || match l_pst ls with PSValuesDone => true | _ => false end
            then possible_subcommand c tok (l_vaf ls) else None) as [sc|].
  - destruct (beq sc s_help && negb (is_set s_disable_help_sub c)); cbn [p1_fs]; auto.
  - apply classify_fs. exact F.
Qed.

Definition s_fs (s : sres) : Prop := match s with SGo _ s1 => fs_skip s1 = 0 | SExit _ => True end.

Lemma positional_fs pcf tok ls st : fs_skip st = 0 -> s_fs (positional_s c pcf tok ls st).
Proof.
  intros F. unfold positional_s. destruct (pcf ls) as [pc'|e s|n]; cbn [sbind s_fs]; auto.
  destruct (get_pos c pc') as [a|].
  - destruct (a_last a && negb (l_trailing ls)).
    + destruct (resolve_pending_ignore c st); cbn [sbind s_fs]; auto.
    + cbv zeta.
      assert (K : forall s1, fs_skip s1 = 0 ->
        s_fs (if check_terminator a tok then SGo (mkL PSValuesDone (pc' + 1) true (l_trailing ls || a_tva a)) s1
              else sbind (expect 415 (pending_values_push (mt s1) (a_id a) (Some IIndex) (l_trailing ls || a_tva a) (Some tok)))
                     (fun m1 => if negb (a_is_multiple a)
                                then SGo (mkL PSValuesDone (pc' + 1) true (l_trailing ls || a_tva a)) (s1 <| mt := m1 |>)
                                else SGo (mkL (PSPos (a_id a)) pc' true (l_trailing ls || a_tva a)) (s1 <| mt := m1 |>)))).
      { intros s1 F1. destruct (check_terminator a tok); [exact F1|].
        destruct (pending_values_push _ _ _ _ _) as [m1|]; cbn [expect sbind s_fs]; auto.
        destruct (negb (a_is_multiple a)); cbn [s_fs]; destruct s1; exact F1. }
      destruct (negb (match pending_arg_id (mt st) with Some i => beq i (a_id a) | None => false end)
                || negb (a_multiple_values a)).
      * destruct (resolve_pending c st) as [s1|e s|n] eqn:R; cbn [sbind s_fs]; auto.
        apply K. rewrite (SpellingLine.resolve_pending_fs c _ _ R). exact F.
      * cbn [sbind]. apply K. exact F.
  - destruct (is_set s_allow_external c).
    + destruct (utf8_valid tok); [cbn [s_fs]; auto|]. destruct (resolve_pending_ignore c st); cbn [sbind s_fs]; auto.
    + destruct (resolve_pending_ignore c st); cbn [sbind s_fs]; auto.
Qed.

Lemma phase2_fs pcf tok ls st : fs_skip st = 0 -> s_fs (phase2_s c pcf tok ls st).
Proof.
  intros F. unfold phase2_s.
  destruct (if l_trailing ls then PSValuesDone else l_pst ls) as [|i|i]; try (apply positional_fs; exact F).
  destruct (find_arg c i) as [a|]; cbn [expect sbind s_fs]; auto.
  destruct (check_terminator a tok); [exact F|].
  destruct (pending_values_push (mt st) i None false (Some tok)) as [m1|]; cbn [expect sbind s_fs]; auto.
  destruct (needs_more_vals m1 a) as [more|]; cbn [expect sbind s_fs]; auto.
Qed.

(** one iteration from a state with [flag_subcmd_skip = 0] hands over a state with [flag_subcmd_skip = 0] *)
Theorem step_fs rest tok ls st ls1 st1 : fs_skip st = 0 -> step c rest tok ls st = SGo ls1 st1 -> fs_skip st1 = 0.
Proof.
  intros F. unfold step, step_with, finish_s. pose proof (phase1_fs tok ls st F) as P.
  destruct (phase1_s c tok ls st) as [[[early l] s]|e s|n]; cbn [sbind]; try discriminate.
  destruct early as [r|].
  - cbn [p1_fs] in P. intros H. subst r. exact P.
  - cbn [p1_fs] in P. intros H. pose proof (phase2_fs (pos_counter c rest) tok l s P) as Q. rewrite H in Q. exact Q.
Qed.

Theorem run_fs : forall pre tail ls st ls' st', fs_skip st = 0 -> run c pre tail ls st = inl (ls', st') -> fs_skip st' = 0.
Proof.
  induction pre as [|tok pre IH]; intros tail ls st ls' st' F; cbn [run].
  - intros H; inversion H; subst. exact F.
  - destruct (step c (pre ++ tail) tok ls st) as [l1 s1|x] eqn:S1; [|discriminate].
    apply IH. apply (step_fs _ _ _ _ _ _ F S1).
Qed.
End Fs.
