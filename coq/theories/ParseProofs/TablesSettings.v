(** The model's treatment of [AppSettings] against the tables regenerated from the source on every run
    ([Gen/SettingsTables.v], written by translators/builder_tables.py from clap_builder/src/builder/{app_settings,command}.rs,
    and -- for the two spec readers -- from this framework's ocaml/common_parse/spec.ml and harness/src/modes/parse.rs).

    The chain that is closed here:  a setter name [n] in a case file
      --(harness, [harness_calls_named_method])-->  the real [Command::n(true)]
      --(source, table [gen_setters] / [gen_setting_helpers])-->  AppSettings variant V set in `settings` (and `g_settings` when global)
      --([spec_reader_matches_source])-->  exactly what the model-side spec reader does to the model command, for every command;
    [propagate_table]: [Build.propagate_subcommand] IS the function the source's `_propagate_subcommand` table defines;
    [global_setter_reaches_every_level] / [local_setter_stays]: which settings reach subcommands, at every depth;
    [bs_settings_table], [help_subcommand_table]: the settings block of `_build_self` and the finishing of the generated
    `help` subcommand, interpreted from the table, equal the model's functions. *)
From Coq Require Import List String Bool.
From ClapModel Require Import Base.Bytes Parse.Cmd Parse.Build Gen.SettingsTables.
From RecordUpdate Require Import RecordSet.
Import RecordSetNotations.
Import ListNotations.
Open Scope string_scope.

Definition obind {A B} (o : option A) (f : A -> option B) : option B := match o with Some a => f a | None => None end.
Fixpoint omap {A B} (f : A -> option B) (l : list A) : option (list B) :=
  match l with [] => Some [] | a :: t => obind (f a) (fun b => obind (omap f t) (fun r => Some (b :: r))) end.
Definition assoc {B} (k : string) (l : list (string * B)) : option B :=
  option_map snd (find (fun p => String.eqb (fst p) k) l).

(** ---- the model's field for an AppSettings variant ---- *)
Record sfield := { sf_get : settings -> bool; sf_put : bool -> settings -> settings }.
(** (field of [Cmd.settings] -- the name the extracted OCaml record uses too --, AppSettings variant, accessors) *)
Definition model_fields : list (string * (string * sfield)) := [
  ("s_ignore_errors", ("IgnoreErrors", {| sf_get := s_ignore_errors; sf_put := fun b s => s <| s_ignore_errors := b |> |}));
  ("s_args_override_self", ("AllArgsOverrideSelf", {| sf_get := s_args_override_self; sf_put := fun b s => s <| s_args_override_self := b |> |}));
  ("s_dont_delimit_trailing", ("DontDelimitTrailingValues", {| sf_get := s_dont_delimit_trailing; sf_put := fun b s => s <| s_dont_delimit_trailing := b |> |}));
  ("s_infer_long", ("InferLongArgs", {| sf_get := s_infer_long; sf_put := fun b s => s <| s_infer_long := b |> |}));
  ("s_infer_sub", ("InferSubcommands", {| sf_get := s_infer_sub; sf_put := fun b s => s <| s_infer_sub := b |> |}));
  ("s_no_binary_name", ("NoBinaryName", {| sf_get := s_no_binary_name; sf_put := fun b s => s <| s_no_binary_name := b |> |}));
  ("s_disable_help_flag", ("DisableHelpFlag", {| sf_get := s_disable_help_flag; sf_put := fun b s => s <| s_disable_help_flag := b |> |}));
  ("s_disable_version_flag", ("DisableVersionFlag", {| sf_get := s_disable_version_flag; sf_put := fun b s => s <| s_disable_version_flag := b |> |}));
  ("s_disable_help_sub", ("DisableHelpSubcommand", {| sf_get := s_disable_help_sub; sf_put := fun b s => s <| s_disable_help_sub := b |> |}));
  ("s_propagate_version", ("PropagateVersion", {| sf_get := s_propagate_version; sf_put := fun b s => s <| s_propagate_version := b |> |}));
  ("s_arg_required_else_help", ("ArgRequiredElseHelp", {| sf_get := s_arg_required_else_help; sf_put := fun b s => s <| s_arg_required_else_help := b |> |}));
  ("s_allow_hyphen", ("AllowHyphenValues", {| sf_get := s_allow_hyphen; sf_put := fun b s => s <| s_allow_hyphen := b |> |}));
  ("s_allow_negnum", ("AllowNegativeNumbers", {| sf_get := s_allow_negnum; sf_put := fun b s => s <| s_allow_negnum := b |> |}));
  ("s_tva", ("TrailingVarArg", {| sf_get := s_tva; sf_put := fun b s => s <| s_tva := b |> |}));
  ("s_allow_missing_pos", ("AllowMissingPositional", {| sf_get := s_allow_missing_pos; sf_put := fun b s => s <| s_allow_missing_pos := b |> |}));
  ("s_hidden", ("Hidden", {| sf_get := s_hidden; sf_put := fun b s => s <| s_hidden := b |> |}));
  ("s_sub_required", ("SubcommandRequired", {| sf_get := s_sub_required; sf_put := fun b s => s <| s_sub_required := b |> |}));
  ("s_allow_external", ("AllowExternalSubcommands", {| sf_get := s_allow_external; sf_put := fun b s => s <| s_allow_external := b |> |}));
  ("s_args_negate_subs", ("ArgsNegateSubcommands", {| sf_get := s_args_negate_subs; sf_put := fun b s => s <| s_args_negate_subs := b |> |}));
  ("s_sub_precedence", ("SubcommandPrecedenceOverArg", {| sf_get := s_sub_precedence; sf_put := fun b s => s <| s_sub_precedence := b |> |}));
  ("s_subs_negate_reqs", ("SubcommandsNegateReqs", {| sf_get := s_subs_negate_reqs; sf_put := fun b s => s <| s_subs_negate_reqs := b |> |}));
  ("s_multicall", ("Multicall", {| sf_get := s_multicall; sf_put := fun b s => s <| s_multicall := b |> |}));
  ("s_built", ("Built", {| sf_get := s_built; sf_put := fun b s => s <| s_built := b |> |}));
  ("s_bin_name_built", ("BinNameBuilt", {| sf_get := s_bin_name_built; sf_put := fun b s => s <| s_bin_name_built := b |> |}))
].
Definition field_by_name (n : string) : option sfield := option_map snd (assoc n model_fields).
Definition field_by_variant (v : string) : option sfield :=
  option_map (fun p => snd (snd p)) (find (fun p => String.eqb (fst (snd p)) v) model_fields).
Definition all_sfields : list sfield := map (fun p => snd (snd p)) model_fields.

(** the two AppFlags fields of [Command], by their Rust names; and the model's record fields that stand for them *)
Definition rec_get (n : string) : option (cmd -> settings) :=
  if String.eqb n "settings" then Some c_set else if String.eqb n "g_settings" then Some c_gset else None.
Definition rec_put (n : string) : option (settings -> cmd -> cmd) :=
  if String.eqb n "settings" then Some (fun s c => c <| c_set := s |>)
  else if String.eqb n "g_settings" then Some (fun s c => c <| c_gset := s |>) else None.
Definition model_rec (n : string) : option string :=
  if String.eqb n "c_set" then Some "settings" else if String.eqb n "c_gset" then Some "g_settings" else None.

(** apply [upd] to the named AppFlags fields of [c], in order *)
Fixpoint apply_scope (recs : list string) (upd : settings -> settings) (c : cmd) : option cmd :=
  match recs with
  | [] => Some c
  | r :: t => obind (rec_get r) (fun g => obind (rec_put r) (fun p => apply_scope t upd (p (upd (g c)) c)))
  end.

Definition find_helper (h : string) : option (bool * list string) :=
  option_map (fun x => (snd (fst x), snd x)) (find (fun x => String.eqb (fst (fst x)) h) gen_setting_helpers).
(** `self.<h>(AppSettings::<v>)` on the model command, as the source defines the helper [h] *)
Definition apply_helper (h v : string) (c : cmd) : option cmd :=
  obind (find_helper h) (fun hb => obind (field_by_variant v) (fun f => apply_scope (snd hb) (sf_put f (fst hb)) c)).

Definition find_setter (n : string) : option (string * bool) :=
  option_map (fun x => (snd (fst x), snd x)) (find (fun x => String.eqb (fst (fst x)) n) gen_setters).
(** the source: `Command::<n>(true)` *)
Definition src_apply (n : string) (c : cmd) : option cmd :=
  obind (find_setter n) (fun vg => apply_helper (if snd vg then "global_setting" else "setting") (fst vg) c).

Definition find_spec (n : string) : option (string * string) :=
  option_map (fun x => (snd (fst x), snd x)) (find (fun x => String.eqb (fst (fst x)) n) gen_spec_settings).
(** the model-side spec reader (ocaml/common_parse/spec.ml [apply_setting]) as its table says *)
Definition spec_apply (n : string) (c : cmd) : option cmd :=
  obind (find_spec n) (fun sf =>
  obind (assoc (fst sf) gen_spec_scopes) (fun recs =>
  obind (omap model_rec recs) (fun rrecs =>
  obind (field_by_name (snd sf)) (fun f => apply_scope rrecs (sf_put f true) c)))).

Definition spec_names : list string := map (fun x => fst (fst x)) gen_spec_settings.
Definition spec_is_global (n : string) : option bool :=
  obind (find_spec n) (fun sf => option_map (fun recs => existsb (String.eqb "c_gset") recs) (assoc (fst sf) gen_spec_scopes)).

(** ---- the model's fields behave like independent bits; [settings_or] is the bitwise or ---- *)
Lemma fields_or : Forall (fun f => forall a b, sf_get f (settings_or a b) = sf_get f a || sf_get f b) all_sfields.
Proof. repeat constructor. Qed.
Lemma fields_get_put : Forall (fun f => forall b s, sf_get f (sf_put f b s) = b) all_sfields.
Proof. repeat constructor. Qed.

(** ---- the spec readers against the source ---- *)
(** every setter name the model-side reader knows is a setter of the source, and the reader does to the model command
    exactly what the source's setter does (same variant, same AppFlags fields) -- for every command *)
Theorem spec_reader_matches_source :
  Forall (fun n => forall c, exists c', spec_apply n c = Some c' /\ src_apply n c = Some c') spec_names.
Proof. repeat constructor; intros c; eexists; split; reflexivity. Qed.

(** ... in particular the reader writes a setting into the global record exactly for the source's global setters *)
Theorem spec_reader_globals_match_source :
  Forall (fun n => exists v g, find_setter n = Some (v, g) /\ spec_is_global n = Some g) spec_names.
Proof. repeat constructor; eexists; eexists; split; reflexivity. Qed.

(** the implementation-side reader calls the method of the same name, for the same list of names *)
Theorem harness_calls_named_method :
  Forall (fun p => fst p = snd p) gen_harness_settings /\ map fst gen_harness_settings = spec_names.
Proof. split; [repeat constructor|reflexivity]. Qed.

(** the setters of the source the parser model does not represent; a new setter in command.rs lands in one of these
    lists and breaks this lemma until it is modelled or listed *)
Definition unmodelled (glob : bool) : list string :=
  map (fun x => fst (fst x))
      (filter (fun x => Bool.eqb (snd x) glob && negb (existsb (String.eqb (fst (fst x))) spec_names)) gen_setters).
(** help-rendering settings (no effect on parsing) / settings no generated case sets (the deprecated command-level
    allow_hyphen_values, allow_negative_numbers, trailing_var_arg have model fields read by [bs_deprecated]; multicall
    and flatten_help are outside the model's class) *)
Definition known_unmodelled_global : list string := ["next_line_help"; "disable_colored_help"; "help_expected"; "hide_possible_values"].
Definition known_unmodelled_local : list string :=
  ["flatten_help"; "allow_hyphen_values"; "allow_negative_numbers"; "trailing_var_arg"; "multicall"].
Theorem unmodelled_setters :
  unmodelled true = known_unmodelled_global /\ unmodelled false = known_unmodelled_local.
Proof. split; reflexivity. Qed.

(** every variant the model has a field for exists in the source, and [is_set] reads the two records the model reads *)
Theorem fields_are_variants :
  forallb (fun p => existsb (String.eqb (fst (snd p))) gen_appsettings) model_fields = true
  /\ omap rec_get gen_is_set_reads = Some [c_set; c_gset].
Proof. split; reflexivity. Qed.

(** ---- _propagate_subcommand ---- *)
Definition version_copy (parent sc : cmd) : cmd :=
  let sc := match c_version parent, c_version sc with
            | Some v, None => sc <| c_version := Some v |> | _, _ => sc end in
  match c_long_version parent, c_long_version sc with
  | Some v, None => sc <| c_long_version := Some v |> | _, _ => sc end.

Definition tbl_propagate (parent sc : cmd) : option cmd :=
  obind (rec_get (fst gen_propagate_version_guard)) (fun gr =>
  obind (field_by_variant (snd gen_propagate_version_guard)) (fun gf =>
    fold_left (fun acc abc =>
                 obind acc (fun sc =>
                 obind (rec_put (fst (fst abc))) (fun pa =>
                 obind (rec_get (snd (fst abc))) (fun gb =>
                 obind (rec_get (snd abc)) (fun gc => Some (pa (settings_or (gb sc) (gc parent)) sc))))))
              gen_propagate_assigns
              (Some (if sf_get gf (gr parent) then version_copy parent sc else sc)))).

(** the model's [propagate_subcommand] is the function the source's table defines, for every parent and subcommand *)
Theorem propagate_table : forall p sc, tbl_propagate p sc = Some (propagate_subcommand p sc).
Proof. intros p sc. unfold tbl_propagate, propagate_subcommand. cbn. destruct (s_propagate_version (c_set p)); reflexivity. Qed.

Definition vc1 (parent sc : cmd) : cmd :=
  match c_version parent, c_version sc with Some v, None => sc <| c_version := Some v |> | _, _ => sc end.
Definition vc2 (parent sc : cmd) : cmd :=
  match c_long_version parent, c_long_version sc with Some v, None => sc <| c_long_version := Some v |> | _, _ => sc end.
Lemma vc1_settings : forall p sc, c_set (vc1 p sc) = c_set sc /\ c_gset (vc1 p sc) = c_gset sc.
Proof. intros p sc. unfold vc1. destruct (c_version p), (c_version sc); split; reflexivity. Qed.
Lemma vc2_settings : forall p sc, c_set (vc2 p sc) = c_set sc /\ c_gset (vc2 p sc) = c_gset sc.
Proof. intros p sc. unfold vc2. destruct (c_long_version p), (c_long_version sc); split; reflexivity. Qed.
Lemma version_copy_settings : forall p sc,
  c_set (version_copy p sc) = c_set sc /\ c_gset (version_copy p sc) = c_gset sc.
Proof.
  intros p sc. change (version_copy p sc) with (vc2 p (vc1 p sc)).
  destruct (vc2_settings p (vc1 p sc)) as [H1 H2]. destruct (vc1_settings p sc) as [H3 H4].
  rewrite H1, H2, H3, H4. split; reflexivity.
Qed.

Lemma propagate_settings : forall p sc,
  c_set (propagate_subcommand p sc) = settings_or (c_set sc) (c_gset p)
  /\ c_gset (propagate_subcommand p sc) = settings_or (c_gset sc) (c_gset p).
Proof.
  intros p sc.
  change (propagate_subcommand p sc) with
    (let sc' := if s_propagate_version (c_set p) then version_copy p sc else sc in
     sc' <| c_set := settings_or (c_set sc') (c_gset p) |> <| c_gset := settings_or (c_gset sc') (c_gset p) |>).
  cbv zeta. destruct (version_copy_settings p sc) as [H1 H2].
  destruct (s_propagate_version (c_set p)).
  - split; [change (settings_or (c_set (version_copy p sc)) (c_gset p) = settings_or (c_set sc) (c_gset p)); rewrite H1; reflexivity
           |change (settings_or (c_gset (version_copy p sc)) (c_gset p) = settings_or (c_gset sc) (c_gset p)); rewrite H2; reflexivity].
  - split; reflexivity.
Qed.

(** per setting: what a subcommand sees after the propagation step, and what it hands on *)
Theorem propagate_is_set : forall f, In f all_sfields -> forall p sc,
  is_set (sf_get f) (propagate_subcommand p sc) = is_set (sf_get f) sc || sf_get f (c_gset p)
  /\ sf_get f (c_gset (propagate_subcommand p sc)) = sf_get f (c_gset sc) || sf_get f (c_gset p).
Proof.
  intros f Hf p sc. pose proof (proj1 (Forall_forall _ _) fields_or f Hf) as Hor.
  destruct (propagate_settings p sc) as [H1 H2]. unfold is_set. rewrite H1, H2, !Hor.
  split; [|reflexivity].
  destruct (sf_get f (c_set sc)), (sf_get f (c_gset sc)), (sf_get f (c_gset p)); reflexivity.
Qed.

(** the leaf of a chain of subcommands [sc1; sc2; ...] below [p], each level propagated from the one above *)
Definition propagate_chain (p : cmd) (scs : list cmd) : cmd := fold_left propagate_subcommand scs p.

(** a setting in the global record reaches every level below, whatever the depth *)
Theorem global_reaches_every_level : forall f, In f all_sfields -> forall scs p,
  sf_get f (c_gset p) = true ->
  sf_get f (c_gset (propagate_chain p scs)) = true
  /\ (scs <> [] -> is_set (sf_get f) (propagate_chain p scs) = true).
Proof.
  intros f Hf scs. induction scs as [|sc t IH]; intros p Hp.
  - split; [exact Hp|intros H; congruence].
  - unfold propagate_chain. cbn [fold_left]. fold (propagate_chain (propagate_subcommand p sc) t).
    destruct (propagate_is_set f Hf p sc) as [Hs Hg].
    assert (Hg' : sf_get f (c_gset (propagate_subcommand p sc)) = true) by (rewrite Hg, Hp; apply orb_true_r).
    destruct (IH _ Hg') as [IH1 IH2]. split; [exact IH1|]. intros _.
    destruct t as [|sc' t'].
    + cbn. rewrite Hs, Hp. apply orb_true_r.
    + apply IH2. discriminate.
Qed.

(** ... so: a setter the source routes through `global_setting` is seen at every level below the command it was called on *)
Theorem global_setter_reaches_every_level : forall n v f,
  In n spec_names -> find_setter n = Some (v, true) -> field_by_variant v = Some f ->
  forall p p' scs, spec_apply n p = Some p' -> scs <> [] ->
  is_set (sf_get f) p' = true /\ is_set (sf_get f) (propagate_chain p' scs) = true.
Proof.
  intros n v f Hn Hs Hf p p' scs Ha Hne.
  assert (Hfin : In f all_sfields).
  { unfold field_by_variant in Hf. destruct (find _ model_fields) as [x|] eqn:E; [|discriminate].
    cbn in Hf. inversion Hf; subst. apply find_some in E. destruct E as [E _].
    unfold all_sfields. apply (in_map (fun p => snd (snd p))) in E. exact E. }
  assert (Hg : sf_get f (c_gset p') = true).
  { revert Hs Hf Ha. unfold spec_names in Hn. cbn in Hn.
    repeat (destruct Hn as [<-|Hn];
            [intros Hs Hf Ha; vm_compute in Hs; first [discriminate Hs | (inversion Hs; subst v; vm_compute in Hf; inversion Hf; subst f;
               cbn in Ha; inversion Ha; subst p'; reflexivity)]|]).
    destruct Hn. }
  split.
  - unfold is_set. rewrite Hg. apply orb_true_r.
  - apply (global_reaches_every_level f Hfin scs p' Hg). exact Hne.
Qed.

(** ... and a setter routed through `setting` leaves the global record alone: nothing below the command changes *)
Theorem local_setter_stays : forall n v,
  In n spec_names -> find_setter n = Some (v, false) ->
  forall p p' sc, spec_apply n p = Some p' ->
  c_gset p' = c_gset p
  /\ c_set (propagate_subcommand p' sc) = c_set (propagate_subcommand p sc)
  /\ c_gset (propagate_subcommand p' sc) = c_gset (propagate_subcommand p sc).
Proof.
  intros n v Hn Hs p p' sc Ha.
  assert (Hg : c_gset p' = c_gset p).
  { revert Hs Ha. unfold spec_names in Hn. cbn in Hn.
    repeat (destruct Hn as [<-|Hn];
            [intros Hs Ha; vm_compute in Hs; first [discriminate Hs | (cbn in Ha; inversion Ha; subst p'; reflexivity)]|]).
    destruct Hn. }
  split; [exact Hg|].
  destruct (propagate_settings p' sc) as [H1 H2]. destruct (propagate_settings p sc) as [H3 H4].
  rewrite H1, H2, H3, H4, Hg. split; reflexivity.
Qed.

(** ---- _build_self: the settings block ---- *)
Definition cond_named (s : string) : option (cmd -> bool) :=
  if String.eqb s "self.is_multicall_set()" then Some (is_set s_multicall)
  else if String.eqb s "!cfg!(feature = ""help"") && self.get_override_help().is_none()" then Some (fun _ => false)
       (* the harness builds clap with the `help` feature *)
  else if String.eqb s "self.is_set(AppSettings::ArgsNegateSubcommands)" then Some (is_set s_args_negate_subs)
  else if String.eqb s "self.external_value_parser.is_some()" then Some (fun c => is_some (c_ext_vp c))
  else if String.eqb s "!self.has_subcommands()" then Some (fun c => negb (has_subcommands c))
  else None.

Definition tbl_bs_settings (c : cmd) : option cmd :=
  let '(a, b, d) := gen_build_self_merge in
  obind (rec_put a) (fun pa => obind (rec_get b) (fun gb => obind (rec_get d) (fun gd =>
    fold_left (fun acc cv =>
                 obind acc (fun c =>
                 obind (cond_named (fst cv)) (fun cond =>
                 obind (omap field_by_variant (snd cv)) (fun fs =>
                   Some (if cond c then c <| c_set := fold_left (fun s f => sf_put f true s) fs (c_set c) |> else c)))))
              gen_build_self_sets
              (Some (pa (settings_or (gb c) (gd c)) c))))).

(** the settings block of the model's [build_self] is the one the table defines (multicall is outside the model's class) *)
Theorem bs_settings_table : forall c, is_set s_multicall c = false -> tbl_bs_settings c = Some (bs_settings c).
Proof.
  intros c Hm. unfold is_set in Hm. apply orb_false_elim in Hm as [Hm1 Hm2].
  unfold tbl_bs_settings, bs_settings. cbn -[settings_or is_set has_subcommands].
  assert (Hmc : is_set s_multicall (c <| c_set := settings_or (c_set c) (c_gset c) |>) = false).
  { unfold is_set. cbn. rewrite Hm1, Hm2. reflexivity. }
  rewrite Hmc.
  destruct (is_set s_args_negate_subs (c <| c_set := settings_or (c_set c) (c_gset c) |>)); cbn -[settings_or has_subcommands];
    destruct (c_ext_vp c); cbn -[settings_or has_subcommands];
    match goal with |- context [has_subcommands ?x] => destruct (has_subcommands x) end; reflexivity.
Qed.

(** ---- _check_help_and_version: finishing the generated `help` subcommand ---- *)
Definition help0 : cmd := (cmd_new s_help) <| c_about := Some s_help_about |> <| c_args := [help_subcommand_arg] |>.
Definition tbl_help_subcommand (parent : cmd) : option cmd :=
  fold_left (fun acc hv => obind acc (apply_helper (fst hv) (snd hv))) gen_help_sub_chain
            (Some ((propagate_subcommand parent help0) <| c_version := None |> <| c_long_version := None |>)).

Theorem help_subcommand_table : forall p, tbl_help_subcommand p = Some (fix_help_unset (help_subcommand p)).
Proof.
  intros p. unfold tbl_help_subcommand, help_subcommand, fix_help_unset, propagate_subcommand.
  destruct (s_propagate_version (c_set p)); [destruct (c_version p); destruct (c_long_version p)|]; vm_compute; reflexivity.
Qed.

(** the instance C07 reads: `args_override_self(true)` on a command holds on it and at every level below *)
Definition n_args_override_self : string := "args_override_self".
Theorem args_override_self_global : forall p p' scs,
  spec_apply n_args_override_self p = Some p' -> scs <> [] ->
  is_set s_args_override_self p' = true /\ is_set s_args_override_self (propagate_chain p' scs) = true.
Proof.
  intros p p' scs Ha Hne.
  refine (global_setter_reaches_every_level n_args_override_self "AllArgsOverrideSelf"
            {| sf_get := s_args_override_self; sf_put := fun b s => s <| s_args_override_self := b |> |}
            _ eq_refl eq_refl p p' scs Ha Hne).
  cbn. tauto.
Qed.

(** ---- non-vacuity ---- *)
Module TablesSettingsExamples.
  Definition leaf : cmd := cmd_new [108].
  Definition mid : cmd := (cmd_new [109]) <| c_subs := [leaf] |>.
  Definition root : cmd := (cmd_new [114]) <| c_subs := [mid] |>.
  (* `infer_long_args(true)` on the root reaches the leaf two levels down; `hide(true)` does not *)
  Example infer_long_reaches_leaf : exists root',
    spec_apply "infer_long_args" root = Some root'
    /\ is_set s_infer_long (propagate_chain root' [mid; leaf]) = true
    /\ is_set s_infer_long (propagate_chain root [mid; leaf]) = false.
  Proof. eexists. split; [reflexivity|split; vm_compute; reflexivity]. Qed.
  Example hide_stays : exists root',
    spec_apply "hide" root = Some root' /\ is_set s_hidden root' = true
    /\ is_set s_hidden (propagate_chain root' [mid; leaf]) = false.
  Proof. eexists. split; [reflexivity|split; vm_compute; reflexivity]. Qed.
  (* hypotheses of [global_setter_reaches_every_level] / [local_setter_stays] *)
  Example hyp_global : In "args_override_self" spec_names /\ find_setter "args_override_self" = Some ("AllArgsOverrideSelf", true)
    /\ exists f, field_by_variant "AllArgsOverrideSelf" = Some f /\ sf_get f = s_args_override_self.
  Proof. split; [cbn; tauto|split; [reflexivity|eexists; split; reflexivity]]. Qed.
  Example hyp_local : In "subcommand_required" spec_names /\ find_setter "subcommand_required" = Some ("SubcommandRequired", false).
  Proof. split; [cbn; tauto|reflexivity]. Qed.
  Example hyp_bs : is_set s_multicall root = false /\ option_map (fun c => s_disable_help_sub (c_set c)) (tbl_bs_settings leaf) = Some true.
  Proof. split; vm_compute; reflexivity. Qed.
End TablesSettingsExamples.
