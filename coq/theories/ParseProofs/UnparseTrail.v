(** Property C02, un-parser: [--] and the values after it (at the last level of an invocation).
    After [--] every token is a positional value, whatever it looks like: the loop is a fold that
    hands each value to the positional the counter points at; a positional taking several values
    takes all that remain. *)
From ClapModel Require Import Base.Bytes Base.Machine Base.Utf8 Lex.OsStrExtModel.
From ClapModel Require Import Parse.Cmd Parse.Build Parse.Valid Parse.Matcher Parse.Errors Parse.Validator Parse.Parser.
From ClapModel Require Import ParseProofs.Actions ParseProofs.ActionsLoop ParseProofs.Spelling
                              ParseProofs.Unparse ParseProofs.UnparseProofs.
From Coq Require Import ZArith Lia List Bool.
From RecordUpdate Require Import RecordSet.
Import RecordSetNotations.
Import ListNotations.
Open Scope N_scope.

Definition ESC : bytes := [DASH; DASH].

Definition set_pending_ti (i : id) (idn : ident) (vs : list bytes) (ti : option N) (st : ps) : ps :=
  st <| mt := (mt st) <| mt_pending := Some (mkPending i (Some idn) vs ti) |> |>.

Section Trail.
Variable c : cmd.

(** meaning of the values after [--], on parser states *)
Fixpoint trail_apply (pos : N) (vs : list bytes) (st : ps) : res ps :=
  match vs with
  | [] => ROk st
  | v :: t =>
      match get_pos c pos with
      | Some a =>
          do s1 <- resolve_pending c st;
          if a_multiple_values a then ROk (set_pending_ti (a_id a) IIndex (v :: t) (Some 0) s1)
          else trail_apply (if a_is_multiple a then pos else pos + 1) t (set_pending_ti (a_id a) IIndex [v] (Some 0) s1)
      | None => ROk st
      end
  end.
(** ... and as occurrences *)
Fixpoint trail_occs (pos : N) (vs : list bytes) : list occ :=
  match vs with
  | [] => []
  | v :: t =>
      match get_pos c pos with
      | Some a => if a_multiple_values a then [occ_of IIndex a (v :: t)]
                  else occ_of IIndex a [v] :: trail_occs (if a_is_multiple a then pos else pos + 1) t
      | None => []
      end
  end.
(** every value finds a positional *)
Fixpoint wf_trail (pos : N) (vs : list bytes) : bool :=
  match vs with
  | [] => true
  | v :: t =>
      match get_pos c pos with
      | Some a => if a_multiple_values a then true else wf_trail (if a_is_multiple a then pos else pos + 1) t
      | None => false
      end
  end.

Hypothesis Hconv : conv c = true.

Lemma contains_last_false : existsb a_last (c_args c) = false.
Proof.
  destruct (existsb a_last (c_args c)) eqn:E; [|reflexivity]. apply existsb_exists in E. destruct E as [a [Ha El]].
  destruct (conv_args_pos c Hconv a Ha) as [H _]. congruence.
Qed.

Definition trail_step_k (a : arg) (v : bytes) (rest : list bytes) (pos : N) (st : ps) : res loop_res :=
  do st1 <- (if negb (match pending_arg_id (mt st) with Some i => beq i (a_id a) | None => false end)
                || negb (a_multiple_values a)
             then resolve_pending c st else ROk st);
  do m1 <- expect 415 (pending_values_push (mt st1) (a_id a) (Some IIndex) true (Some v));
  if negb (a_is_multiple a)
  then parse_loop c rest (mkL PSValuesDone (pos + 1) true true) (st1 <| mt := m1 |>)
  else parse_loop c rest (mkL (PSPos (a_id a)) pos true true) (st1 <| mt := m1 |>).

Lemma trail_branch (v : bytes) (rest : list bytes) pst pos vaf st a : get_pos c pos = Some a ->
  parse_loop c (v :: rest) (mkL pst pos vaf true) st = trail_step_k a v rest pos st.
Proof.
  intros Hg. destruct (conv_parts c Hconv) as [_ [Hsp [_ [Hamp Hlow]]]].
  pose proof (get_pos_in c pos a Hg) as Ha.
  destruct (conv_args c Hconv a Ha) as [_ [_ [_ Hterm]]]. destruct (conv_args_pos c Hconv a Ha) as [Hlast Htva].
  unfold low_index_multiple in Hlow.
  cbn [parse_loop]. cbn [l_trailing l_pst l_vaf l_pos]. cbn [rbind]. cbn [l_trailing l_pst l_vaf l_pos].
  unfold trail_step_k.
  rewrite Hlow, Hamp, contains_last_false, !andb_false_r. cbn [andb orb rbind]. rewrite Hg, Hlast. cbn [andb orb].
  unfold check_terminator. rewrite Hterm. reflexivity.
Qed.

Lemma trail_first (v : bytes) (rest : list bytes) pos st a : get_pos c pos = Some a ->
  pend_inv c PSValuesDone st ->
  trail_step_k a v rest pos st =
  (do s1 <- resolve_pending c st;
   let s2 := set_pending_ti (a_id a) IIndex [v] (Some 0) s1 in
   if a_is_multiple a then parse_loop c rest (mkL (PSPos (a_id a)) pos true true) s2
   else parse_loop c rest (mkL PSValuesDone (pos + 1) true true) s2).
Proof.
  intros Hg Hi. pose proof (get_pos_in c pos a Hg) as Ha.
  assert (Hc : negb (match pending_arg_id (mt st) with Some i => beq i (a_id a) | None => false end)
               || negb (a_multiple_values a) = true).
  { destruct (a_multiple_values a) eqn:Em; [|apply orb_true_r]. rewrite orb_false_r.
    unfold pending_arg_id. destruct (mt_pending (mt st)) as [p|] eqn:Ep; [|reflexivity]. cbn [opt_map].
    destruct (beq (p_id p) (a_id a)) eqn:Eb; [|reflexivity]. apply beq_eq in Eb. exfalso.
    assert (F : find_arg c (p_id p) = Some a) by (rewrite Eb; apply (find_arg_self c Hconv a Ha)).
    destruct (Hi p a Ep F) as [H|H]; [rewrite (get_pos_index c pos a Hg) in H; discriminate H|congruence]. }
  unfold trail_step_k. rewrite Hc.
  destruct (resolve_pending c st) as [st1|e s|n] eqn:RP; cbn [rbind]; try reflexivity.
  pose proof (resolve_pending_clears _ _ _ RP) as PN.
  unfold pending_values_push. rewrite PN. cbn [p_id p_ident p_raw p_trailing_idx is_some length].
  rewrite beq_refl. cbn [negb andb ident_eqb expect rbind app N.of_nat].
  assert (E : st1 <| mt := (mt st1) <| mt_pending := Some (mkPending (a_id a) (Some IIndex) [v] (Some 0)) |> |>
              = set_pending_ti (a_id a) IIndex [v] (Some 0) st1) by reflexivity.
  rewrite E. destruct (a_is_multiple a); reflexivity.
Qed.

Lemma trail_more (v : bytes) (rest : list bytes) pos st a (vs0 : list bytes) ti : a_multiple_values a = true ->
  trail_step_k a v rest pos (set_pending_ti (a_id a) IIndex vs0 (Some ti) st) =
  parse_loop c rest (mkL (PSPos (a_id a)) pos true true) (set_pending_ti (a_id a) IIndex (vs0 ++ [v]) (Some ti) st).
Proof.
  intros Hm. unfold trail_step_k.
  assert (Hmul : a_is_multiple a = true) by (unfold a_is_multiple; rewrite Hm; reflexivity).
  replace (pending_arg_id (mt (set_pending_ti (a_id a) IIndex vs0 (Some ti) st))) with (Some (a_id a))
    by (destruct st as [m ci fa fk]; destruct m; reflexivity).
  rewrite beq_refl, Hm, Hmul. cbn [negb orb rbind].
  assert (PV : pending_values_push (mt (set_pending_ti (a_id a) IIndex vs0 (Some ti) st)) (a_id a) (Some IIndex) true (Some v) =
               Some ((mt (set_pending_ti (a_id a) IIndex vs0 (Some ti) st)) <| mt_pending := Some (mkPending (a_id a) (Some IIndex) (vs0 ++ [v]) (Some ti)) |>)).
  { unfold pending_values_push, set_pending_ti. destruct st as [m ci fa fk]. destruct m. cbn. rewrite beq_refl. reflexivity. }
  rewrite PV. cbn [expect rbind]. f_equal; destruct st as [m ci fa fk]; destruct m; reflexivity.
Qed.

Lemma loop_trail_values a pos st ti : get_pos c pos = Some a -> a_multiple_values a = true ->
  forall (vs vs0 : list bytes),
  parse_loop c vs (mkL (PSPos (a_id a)) pos true true) (set_pending_ti (a_id a) IIndex vs0 (Some ti) st) =
  ROk (LDone (set_pending_ti (a_id a) IIndex (vs0 ++ vs) (Some ti) st)).
Proof.
  intros Hg Hm. induction vs as [|v vs IH]; intros vs0.
  - rewrite app_nil_r. reflexivity.
  - rewrite (trail_branch v vs (PSPos (a_id a)) pos true _ a Hg).
    rewrite (trail_more v vs pos st a vs0 ti Hm). rewrite (IH (vs0 ++ [v])). rewrite <- app_assoc. reflexivity.
Qed.

Lemma pend_inv_single i idn (vs : list bytes) ti st a : In a (c_args c) -> a_id a = i ->
  (a_index a = None \/ a_multiple_values a = false) ->
  pend_inv c PSValuesDone (set_pending_ti i idn vs ti st).
Proof.
  intros Ha Ei Hor p b Ep Fb.
  assert (Ep' : Some (mkPending i (Some idn) vs ti) = Some p) by (rewrite <- Ep; destruct st as [m ci fa fk]; destruct m; reflexivity).
  inversion Ep'; subst p. cbn [p_id] in Fb. rewrite <- Ei, (find_arg_self c Hconv a Ha) in Fb. inversion Fb; subst b. exact Hor.
Qed.

(** the loop after [--] *)
Theorem loop_trail : forall (vs : list bytes) pos pst vaf st, wf_trail pos vs = true -> pend_inv c PSValuesDone st ->
  parse_loop c vs (mkL pst pos vaf true) st = (do s' <- trail_apply pos vs st; ROk (LDone s')).
Proof.
  induction vs as [|v vs IH]; intros pos pst vaf st Hw Hi; [reflexivity|].
  cbn [wf_trail trail_apply] in *. destruct (get_pos c pos) as [a|] eqn:Hg; [|discriminate].
  rewrite (trail_branch v vs pst pos vaf st a Hg). rewrite (trail_first v vs pos st a Hg Hi).
  destruct (resolve_pending c st) as [s1|e s|n]; cbn [rbind]; try reflexivity. cbv zeta.
  destruct (a_multiple_values a) eqn:Em.
  - assert (Hmul : a_is_multiple a = true) by (unfold a_is_multiple; rewrite Em; reflexivity).
    rewrite Hmul. rewrite (loop_trail_values a pos s1 0 Hg Em vs [v]). reflexivity.
  - assert (Hinv : pend_inv c PSValuesDone (set_pending_ti (a_id a) IIndex [v] (Some 0) s1)).
    { apply (pend_inv_single _ _ _ _ _ a (get_pos_in c pos a Hg) eq_refl). right. exact Em. }
    destruct (a_is_multiple a); apply IH; assumption.
Qed.

(** the token [--] itself *)
Lemma loop_escape (rest : list bytes) pst pos vaf st : pst_ok c pst ->
  match pst with PSValuesDone => nosub c ESC = true | _ => True end ->
  parse_loop c (ESC :: rest) (mkL pst pos vaf false) st =
  parse_loop c rest (mkL pst pos vaf true) (st <| mt := start_trailing (mt st) |>).
Proof.
  intros Hp Hn. destruct (conv_parts c Hconv) as [_ [Hsp _]].
  cbn [parse_loop]. cbn [l_trailing l_pst l_vaf l_pos].
  assert (Hs : (if is_set s_sub_precedence c || match pst with PSValuesDone => true | _ => false end
                then possible_subcommand c ESC vaf else None) = None).
  { rewrite Hsp. cbn [orb]. destruct pst; try reflexivity. apply (nosub_if c ESC vaf true Hn). }
  rewrite Hs. change (is_escape ESC) with true. cbv iota.
  destruct (state_arg_ok c Hconv pst Hp) as [sa [Es Hsa]]. rewrite Es. cbn [rbind].
  assert (E1 : match sa with Some a0 => a_hyphen a0 | None => false end = false).
  { destruct sa as [a0|]; [apply Hsa|reflexivity]. }
  rewrite E1. reflexivity.
Qed.

(** * flushing *)
Hypothesis Hddt : is_set s_dont_delimit_trailing c = false.

Lemma delimit_go_ti db ti : forall l i, delimit_go false db ti i l = delimit_go false db None i l.
Proof. induction l as [|v t IH]; intros i; [reflexivity|]. cbn [delimit_go andb]. rewrite IH. reflexivity. Qed.

Lemma delimit_ti a (raw : list bytes) ti : delimit c a raw ti = delimit c a raw None.
Proof. unfold delimit. rewrite Hddt. cbn [andb]. destruct (a_delim a); [apply delimit_go_ti|reflexivity]. Qed.

Lemma react_core_ti idn s a (raw : list bytes) ti st : react_core c idn s a raw ti st = react_core c idn s a raw None st.
Proof.
  unfold react_core. destruct (if is_cmdline s then verify_num_args c a raw st else ROk tt) as [[]|e s0|n]; cbn [rbind]; try reflexivity.
  destruct raw as [|r0 rt]; [destruct (negb (is_nil (a_default_missing a)))|]; try rewrite (delimit_ti a _ ti); reflexivity.
Qed.

Lemma resolve_ti i idn (vs : list bytes) ti st : mt_pending (mt st) = None ->
  resolve_pending c (set_pending_ti i idn vs ti st) = resolve_pending c (set_pending i idn vs st).
Proof.
  intros PN. unfold resolve_pending.
  replace (mt_pending (mt (set_pending_ti i idn vs ti st))) with (Some (mkPending i (Some idn) vs ti))
    by (destruct st as [m ci fa fk]; destruct m; reflexivity).
  replace (mt_pending (mt (set_pending i idn vs st))) with (Some (mkPending i (Some idn) vs None))
    by (destruct st as [m ci fa fk]; destruct m; reflexivity).
  cbn [p_id p_ident p_raw p_trailing_idx].
  replace ((set_pending_ti i idn vs ti st) <| mt := (mt (set_pending_ti i idn vs ti st)) <| mt_pending := None |> |>)
    with ((set_pending i idn vs st) <| mt := (mt (set_pending i idn vs st)) <| mt_pending := None |> |>)
    by (destruct st as [m ci fa fk]; destruct m; reflexivity).
  destruct (find_arg c i) as [a|]; cbn [expect rbind]; [|reflexivity]. rewrite react_core_ti. reflexivity.
Qed.

Lemma resolve_start_trailing st : resolve_pending c (st <| mt := start_trailing (mt st) |>) = resolve_pending c st.
Proof.
  unfold resolve_pending, start_trailing. destruct (mt_pending (mt st)) as [p|] eqn:Ep.
  - replace (mt_pending (mt (st <| mt := (mt st) <| mt_pending := Some (p <| p_trailing_idx :=
       match p_trailing_idx p with Some t => Some t | None => Some (N.of_nat (length (p_raw p))) end |>) |> |>)))
      with (Some (p <| p_trailing_idx := match p_trailing_idx p with Some t => Some t | None => Some (N.of_nat (length (p_raw p))) end |>))
      by (destruct st as [m ci fa fk]; destruct m; reflexivity).
    replace (p_id (p <| p_trailing_idx := match p_trailing_idx p with Some t => Some t | None => Some (N.of_nat (length (p_raw p))) end |>)) with (p_id p)
      by (destruct p; reflexivity).
    destruct (find_arg c (p_id p)) as [a|]; cbn [expect rbind]; [|reflexivity].
    rewrite react_core_ti. symmetry. rewrite react_core_ti. symmetry.
    replace (p_ident (p <| p_trailing_idx := match p_trailing_idx p with Some t => Some t | None => Some (N.of_nat (length (p_raw p))) end |>)) with (p_ident p) by (destruct p; reflexivity).
    replace (p_raw (p <| p_trailing_idx := match p_trailing_idx p with Some t => Some t | None => Some (N.of_nat (length (p_raw p))) end |>)) with (p_raw p) by (destruct p; reflexivity).
    match goal with |- rbind (react_core _ _ _ _ _ _ ?s1) _ = rbind (react_core _ _ _ _ _ _ ?s2) _ => replace s1 with s2; [reflexivity|] end.
    destruct st as [m ci fa fk]; destruct m; reflexivity.
  - assert (E : st <| mt := mt st |> = st) by (destruct st; reflexivity). rewrite E, Ep. reflexivity.
Qed.

Lemma pend_inv_start_trailing st : pend_inv c PSValuesDone st -> pend_inv c PSValuesDone (st <| mt := start_trailing (mt st) |>).
Proof.
  intros Hi p b Ep Fb. unfold start_trailing in Ep. destruct (mt_pending (mt st)) as [p0|] eqn:E0.
  - assert (Ep' : Some (p0 <| p_trailing_idx := match p_trailing_idx p0 with Some t => Some t | None => Some (N.of_nat (length (p_raw p0))) end |>) = Some p)
      by (rewrite <- Ep; destruct st as [m ci fa fk]; destruct m; reflexivity).
    inversion Ep'; subst p. apply (Hi p0 b E0). destruct p0; exact Fb.
  - assert (Ep' : mt_pending (mt st) = Some p) by (rewrite <- Ep; destruct st; reflexivity). congruence.
Qed.

Lemma sep_flush_ti {B} idn a (vs : list bytes) ti st (K : ps -> res B) : In a (c_args c) ->
  (do s1 <- resolve_pending c st; do st2 <- resolve_pending c (set_pending_ti (a_id a) idn vs ti s1); K st2) =
  (do x <- react c (Some idn) SCmdLine a vs None st; K (fst x)).
Proof.
  intros Ha. rewrite <- (sep_flush c Hconv idn a vs st K Ha). unfold sep_step. rewrite rbind_assoc.
  apply rbind_ext. intros s1 E. cbn [rbind]. rewrite (resolve_ti _ _ _ _ _ (resolve_pending_clears _ _ _ E)). reflexivity.
Qed.

Theorem flush_trail {B} : forall (vs : list bytes) pos st (K : ps -> res B), wf_trail pos vs = true ->
  (do s' <- trail_apply pos vs st; do s2 <- resolve_pending c s'; K s2) =
  (do st0 <- resolve_pending c st; do s2 <- react_all c (trail_occs pos vs) st0; K s2).
Proof.
  induction vs as [|v vs IH]; intros pos st K Hw.
  - cbn [trail_apply trail_occs react_all rbind]. apply rbind_ext. intros; reflexivity.
  - cbn [wf_trail trail_apply trail_occs] in *. destruct (get_pos c pos) as [a|] eqn:Hg; [|discriminate].
    pose proof (get_pos_in c pos a Hg) as Ha. rewrite rbind_assoc.
    destruct (a_multiple_values a) eqn:Em.
    + etransitivity; [apply (sep_flush_ti IIndex a (v :: vs) (Some 0) st K Ha)|].
      cbn [react_all occ_of o_ident o_src o_arg o_raw o_ti]. symmetry.
      etransitivity; [apply rbind_ext; intros x _; apply rbind_assoc|]. cbn [rbind].
      apply (resolve_react c (Some IIndex) SCmdLine a (v :: vs) None st (fun x => K (fst x))).
    + etransitivity; [apply rbind_ext; intros s1 _; apply (IH _ _ K Hw)|].
      etransitivity; [apply (sep_flush_ti IIndex a [v] (Some 0) st _ Ha)|].
      cbn [react_all occ_of o_ident o_src o_arg o_raw o_ti]. symmetry.
      etransitivity; [apply rbind_ext; intros x _; apply rbind_assoc|].
      apply (resolve_react c (Some IIndex) SCmdLine a [v] None st
               (fun x => do s2 <- react_all c (trail_occs (if a_is_multiple a then pos else pos + 1) vs) (fst x); K s2)).
Qed.

Lemma trail_occs_args : forall (vs : list bytes) pos, Forall (fun o => In (o_arg o) (c_args c)) (trail_occs pos vs).
Proof.
  induction vs as [|v vs IH]; intros pos; [constructor|]. cbn [trail_occs].
  destruct (get_pos c pos) as [a|] eqn:Hg; [|constructor].
  destruct (a_multiple_values a); constructor; try (apply (get_pos_in c pos a Hg)); [constructor|apply IH].
Qed.

End Trail.
