(** Property C02, fourth pass, item (2), trees: the class conjuncts of EVERY level of [wf_inv] are discharged
    from the command tree AS THE USER WRITES IT.

    [user_tree k c0] (fuel [k] > depth): at every node -- [user_conventional] (UnparseBridge.v), no [ignore_errors], no
    [Built] mark in the global settings, global arguments are options, no subcommand named or aliased [help].  The class is
    stable under what the parser does to a child before building it ([prop_child]: [_propagate_subcommand] merges the parent's
    global settings, [_propagate_global_args] appends the parent's global arguments), so by induction over the invocation
    tree [wf_inv (build_self c0) i] reduces to [wf_tree_body (build_self c0) i]: the items of every level and the
    subcommand names -- nothing about classes.  All through projection lemmas on VARIABLE commands. *)
From ClapModel Require Import Base.Bytes Base.Machine Base.Utf8 Lex.OsStrExtModel.
From ClapModel Require Import Parse.Cmd Parse.Build Parse.Valid Parse.Matcher Parse.Errors Parse.Validator Parse.Parser.
From ClapModel Require Import ParseProofs.Actions ParseProofs.Unparse ParseProofs.UnparseProofs ParseProofs.UnparseTop
                              ParseProofs.UnparseSub ParseProofs.UnparseTrail ParseProofs.UnparseTree
                              ParseProofs.UnparseX ParseProofs.UnparseBridge ParseProofs.UnparseUser.
From Coq Require Import ZArith Lia List Bool.
From RecordUpdate Require Import RecordSet.
Import RecordSetNotations.
Import ListNotations.
Open Scope N_scope.

(** ** the subcommands of the built command *)
Definition add_globals (globals : list arg) (sc : cmd) : cmd :=
  fold_left (fun sc a => if is_some (find_arg sc (a_id a)) then sc else sc <| c_args := c_args sc ++ [a] |>) globals sc.
Definition glob_sub (x : cmd) (sc : cmd) : cmd :=
  if beq (c_name sc) s_help && negb (is_set s_disable_help_sub x) then sc else add_globals (filter a_global (c_args x)) sc.

Lemma subs_mark x : c_subs (bs_mark x) = c_subs x. Proof. reflexivity. Qed.
Lemma subs_deprecated x : c_subs (bs_deprecated x) = c_subs x. Proof. reflexivity. Qed.
Lemma subs_bs_args x : c_subs (bs_args x) = c_subs x. Proof. reflexivity. Qed.
Lemma subs_globals x : c_subs (bs_globals x) = map (glob_sub x) (c_subs x). Proof. reflexivity. Qed.
Lemma subs_propagate x : c_subs (bs_propagate x) = map (propagate_subcommand x) (c_subs x). Proof. reflexivity. Qed.
Lemma subs_settings x : c_subs (bs_settings x) = c_subs x.
Proof. unfold bs_settings. repeat match goal with |- context [if ?b then _ else _] => destruct b end; reflexivity. Qed.
Lemma set_bs_args y : c_set (bs_args y) = c_set y /\ c_gset (bs_args y) = c_gset y.
Proof. split; reflexivity. Qed.
Lemma set_bs_globals y : c_set (bs_globals y) = c_set y /\ c_gset (bs_globals y) = c_gset y.
Proof. split; reflexivity. Qed.
Lemma set_settings_args x l : c_set (x <| c_args := l |>) = c_set x /\ c_gset (x <| c_args := l |>) = c_gset x.
Proof. split; reflexivity. Qed.

Lemma propagate_name p sc : c_name (propagate_subcommand p sc) = c_name sc /\ c_aliases (propagate_subcommand p sc) = c_aliases sc.
Proof.
  unfold propagate_subcommand. repeat match goal with |- context [if ?b then _ else _] => destruct b
                                             | |- context [match ?x with _ => _ end] => destruct x end; split; reflexivity.
Qed.
Lemma help_sub_name x : c_name (fix_help_unset (help_subcommand x)) = s_help /\ c_aliases (fix_help_unset (help_subcommand x)) = [].
Proof.
  unfold fix_help_unset, help_subcommand.
  set (h0 := (cmd_new s_help) <| c_about := Some s_help_about |> <| c_args := [help_subcommand_arg] |>).
  destruct (propagate_name x h0) as [Pn Pa].
  split; [transitivity (c_name (propagate_subcommand x h0)); [reflexivity|rewrite Pn; reflexivity]
         |transitivity (c_aliases (propagate_subcommand x h0)); [reflexivity|rewrite Pa; reflexivity]].
Qed.

(** [_check_help_and_version]: at most the generated help subcommand is appended, and only when it is not disabled *)
Lemma subs_help_version x : exists l, c_subs (bs_help_version x) = c_subs x ++ l /\
  (forall h, In h l -> c_name h = s_help /\ c_aliases h = [] /\ is_set s_disable_help_sub x = false).
Proof.
  unfold bs_help_version.
  set (x1 := if negb (is_set s_disable_help_flag x) then x <| c_args := c_args x ++ [help_arg] |> else x).
  set (x2 := if negb (is_disable_version_flag_set x1) then x1 <| c_args := c_args x1 ++ [version_arg] |> else x1).
  assert (E1 : c_subs x1 = c_subs x /\ is_set s_disable_help_sub x1 = is_set s_disable_help_sub x) by (unfold x1; destruct (negb (is_set s_disable_help_flag x)); split; reflexivity).
  assert (E2 : c_subs x2 = c_subs x1 /\ is_set s_disable_help_sub x2 = is_set s_disable_help_sub x1) by (unfold x2; destruct (negb (is_disable_version_flag_set x1)); split; reflexivity).
  destruct E1 as [S1 D1]. destruct E2 as [S2 D2].
  destruct (negb (is_set s_disable_help_sub x2)) eqn:E.
  - exists [fix_help_unset (help_subcommand x2)]. split; [cbn [c_subs]; rewrite S2, S1; reflexivity|].
    intros h [<-|[]]. destruct (help_sub_name x2) as [Hn Ha]. split; [exact Hn|]. split; [exact Ha|]. rewrite <- D1, <- D2. apply negb_true_iff in E. exact E.
  - exists []. split; [rewrite app_nil_r, S2, S1; reflexivity|intros h []].
Qed.

Lemma args_help_version_set x : c_set (bs_help_version x) = c_set x /\ c_gset (bs_help_version x) = c_gset x.
Proof.
  unfold bs_help_version. repeat match goal with |- context [if ?b then _ else _] => destruct b end; split; reflexivity.
Qed.

(** the child as the parser hands it to [_build_self] (before the names are set) *)
Definition prop_child (c0 s0 : cmd) : cmd :=
  let c1 := bs_settings c0 in
  let x := bs_help_version (bs_propagate c1) in
  add_globals (filter a_global (c_args x)) (propagate_subcommand c1 s0).

Lemma built_subs c0 : s_built (c_set c0) = false ->
  forall sc, In sc (c_subs (build_self c0)) ->
    (exists s0, In s0 (c_subs c0) /\ sc = glob_sub (bs_help_version (bs_propagate (bs_settings c0))) (propagate_subcommand (bs_settings c0) s0))
    \/ (c_name sc = s_help /\ c_aliases sc = [] /\ is_set s_disable_help_sub (build_self c0) = false).
Proof.
  intros Eb sc Hin. rewrite (build_self_unbuilt c0 Eb) in Hin. rewrite subs_mark, subs_deprecated in Hin.
  unfold pre_build in Hin. rewrite subs_bs_args, subs_globals in Hin.
  destruct (subs_help_version (bs_propagate (bs_settings c0))) as [l [E Hl]]. rewrite E in Hin.
  rewrite subs_propagate, subs_settings in Hin. apply in_map_iff in Hin. destruct Hin as [p [Ep Hp]].
  apply in_app_or in Hp. destruct Hp as [Hp|Hp].
  - left. apply in_map_iff in Hp. destruct Hp as [s0 [Es Hs]]. exists s0. split; [exact Hs|]. rewrite <- Ep, <- Es. reflexivity.
  - right. destruct (Hl p Hp) as [N [A D]].
    assert (Ed : is_set s_disable_help_sub (bs_help_version (bs_propagate (bs_settings c0))) = false).
    { unfold is_set in *. destruct (args_help_version_set (bs_propagate (bs_settings c0))) as [E1 E2]. rewrite E1, E2. exact D. }
    unfold glob_sub in Ep. rewrite N, beq_refl, Ed in Ep. cbn [andb negb] in Ep. subst sc. split; [exact N|]. split; [exact A|].
    rewrite (build_self_unbuilt c0 Eb).
    rewrite (is_set_mark s_disable_help_sub _ (fun s => eq_refl)), is_set_deprecated. unfold pre_build.
    unfold is_set in *.
    destruct (set_bs_args (bs_globals (bs_help_version (bs_propagate (bs_settings c0))))) as [T1 T2]. rewrite T1, T2.
    destruct (set_bs_globals (bs_help_version (bs_propagate (bs_settings c0)))) as [T3 T4]. rewrite T3, T4. exact Ed.
Qed.

(** ** facts about [add_globals] and [propagate_subcommand] *)
Lemma add_globals_spec : forall gl sc, exists l,
  c_args (add_globals gl sc) = c_args sc ++ l /\ (forall a, In a l -> In a gl) /\
  c_set (add_globals gl sc) = c_set sc /\ c_gset (add_globals gl sc) = c_gset sc /\ c_subs (add_globals gl sc) = c_subs sc /\
  c_name (add_globals gl sc) = c_name sc /\ c_aliases (add_globals gl sc) = c_aliases sc.
Proof.
  induction gl as [|g t IH]; intros sc.
  - exists []. rewrite app_nil_r. repeat split. intros a [].
  - unfold add_globals. cbn [fold_left]. fold (add_globals t (if is_some (find_arg sc (a_id g)) then sc else sc <| c_args := c_args sc ++ [g] |>)).
    destruct (is_some (find_arg sc (a_id g))).
    + destruct (IH sc) as [l [E [Hl R]]]. exists l. split; [exact E|]. split; [intros a Ha; right; apply Hl; exact Ha|exact R].
    + destruct (IH (sc <| c_args := c_args sc ++ [g] |>)) as [l [E [Hl [R1 [R2 [R3 [R4 R5]]]]]]]. exists (g :: l).
      split; [rewrite E; transitivity ((c_args sc ++ [g]) ++ l); [reflexivity|rewrite <- app_assoc; reflexivity]|].
      split; [intros a [<-|Ha]; [left; reflexivity|right; apply Hl; exact Ha]|].
      repeat split; assumption.
Qed.

Lemma propagate_spec p sc : c_args (propagate_subcommand p sc) = c_args sc /\ c_subs (propagate_subcommand p sc) = c_subs sc /\
  c_name (propagate_subcommand p sc) = c_name sc /\ c_aliases (propagate_subcommand p sc) = c_aliases sc /\
  c_set (propagate_subcommand p sc) = settings_or (c_set sc) (c_gset p) /\
  c_gset (propagate_subcommand p sc) = settings_or (c_gset sc) (c_gset p).
Proof.
  unfold propagate_subcommand. repeat match goal with |- context [if ?b then _ else _] => destruct b
                                             | |- context [match ?x with _ => _ end] => destruct x end; repeat split.
Qed.

(** ** the class on the tree as written *)
Definition global_opts (c0 : cmd) : bool := forallb (fun a => negb (a_global a) || negb (a_is_positional a)) (c_args c0).
Definition no_help_sub (c0 : cmd) : bool := forallb (fun s => negb (aliases_to s s_help)) (c_subs c0).
Definition user_node (c0 : cmd) : bool :=
  user_conventional c0 && negb (is_set s_ignore_errors c0) && negb (s_built (c_gset c0)) && global_opts c0 && no_help_sub c0.
Fixpoint user_tree (k : nat) (c0 : cmd) : bool :=
  match k with
  | O => false
  | S k' => user_node c0 && forallb (user_tree k') (c_subs c0)
  end.

Lemma user_node_parts c0 : user_node c0 = true ->
  user_conventional c0 = true /\ is_set s_ignore_errors c0 = false /\ s_built (c_gset c0) = false /\ global_opts c0 = true /\ no_help_sub c0 = true.
Proof.
  unfold user_node. intros H. apply andb_prop in H. destruct H as [H H5]. apply andb_prop in H. destruct H as [H H4].
  apply andb_prop in H. destruct H as [H H3]. apply andb_prop in H. destruct H as [H1 H2].
  apply negb_true_iff in H2. apply negb_true_iff in H3. repeat split; assumption.
Qed.

Lemma user_conventional_parts c0 : user_conventional c0 = true ->
  s_built (c_set c0) = false /\ is_set s_sub_precedence c0 = false /\ is_set s_allow_missing_pos c0 = false /\
  is_set s_allow_hyphen c0 = false /\ is_set s_allow_negnum c0 = false /\ is_set s_tva c0 = false /\
  forallb conv_arg (c_args c0) = true /\ no_index (c_args c0) = true /\ last_only_multiple (c_args c0) = true.
Proof.
  unfold user_conventional, conventional0. intros H.
  apply andb_prop in H. destruct H as [H Hl]. apply andb_prop in H. destruct H as [H Hn]. apply andb_prop in H. destruct H as [Hb Hc].
  apply andb_prop in Hc. destruct Hc as [Hc Hargs]. apply andb_prop in Hc. destruct Hc as [Hc Htva].
  apply andb_prop in Hc. destruct Hc as [Hc Hnn]. apply andb_prop in Hc. destruct Hc as [Hc Hhy]. apply andb_prop in Hc. destruct Hc as [Hsp Hamp].
  repeat match goal with Hx : negb _ = true |- _ => apply negb_true_iff in Hx end. repeat split; assumption.
Qed.

Lemma is_set_or (f : settings -> bool) c0 : is_set f c0 = false -> f (c_set c0) = false /\ f (c_gset c0) = false.
Proof. unfold is_set. intros H. apply orb_false_iff in H. exact H. Qed.

Lemma lom_nopos : forall l, npos l = 0%nat -> last_only_multiple l = true.
Proof.
  induction l as [|a t IH]; intros H; [reflexivity|]. rewrite npos_cons in H. destruct (a_is_positional a) eqn:E; [discriminate H|].
  cbn [last_only_multiple]. rewrite E, (IH H). reflexivity.
Qed.

(** THE CLASS IS STABLE under propagation into a child *)
Lemma prop_child_node c0 s0 : user_node c0 = true -> user_node s0 = true -> user_node (prop_child c0 s0) = true /\
  c_subs (prop_child c0 s0) = c_subs s0.
Proof.
  intros H0 Hs. destruct (user_node_parts c0 H0) as [U0 [I0 [B0 [G0 _]]]]. destruct (user_node_parts s0 Hs) as [Us [Is [Bs [Gs Ns]]]].
  destruct (user_conventional_parts c0 U0) as [_ [P1 [P2 [P3 [P4 [P5 [A0 [N0 _]]]]]]]].
  destruct (user_conventional_parts s0 Us) as [Q0 [Q1 [Q2 [Q3 [Q4 [Q5 [As [Nis Ls]]]]]]]].
  unfold prop_child. cbv zeta.
  set (c1 := bs_settings c0). set (x := bs_help_version (bs_propagate c1)).
  destruct (add_globals_spec (filter a_global (c_args x)) (propagate_subcommand c1 s0)) as [l [EA [Hl [ES [EG [ESub _]]]]]].
  destruct (propagate_spec c1 s0) as [PA [PS [_ [_ [PSet PG]]]]].
  assert (GS : c_gset c1 = c_gset c0) by apply gset_bs_settings.
  (* the appended arguments are declared arguments of the parent (or generated flags) that are global options *)
  assert (HX : forall a, In a l -> (In a (c_args c0) \/ a = help_arg \/ a = version_arg) /\ a_global a = true).
  { intros a Ha. specialize (Hl a Ha). apply filter_In in Hl. destruct Hl as [Hin Hg]. split; [|exact Hg].
    unfold x in Hin. destruct (args_help_version (bs_propagate c1)) as [hv [Eh Hhv]]. rewrite Eh, args_propagate in Hin.
    unfold c1 in Hin. rewrite args_settings in Hin. apply in_app_or in Hin. destruct Hin as [Hin|Hin]; [left; exact Hin|right; apply Hhv; exact Hin]. }
  assert (HL : forallb conv_arg l = true /\ no_index l = true /\ npos l = 0%nat).
  { clear -HX A0 N0 G0. induction l as [|a t IH]; [repeat split|].
    destruct IH as [I1 [I2 I3]]; [intros b Hb; apply HX; right; exact Hb|].
    destruct (HX a (or_introl eq_refl)) as [Hor Hg]. unfold no_index in *. cbn [forallb]. rewrite npos_cons.
    destruct Hor as [Hin|[->| ->]].
    - rewrite forallb_forall in A0, N0. unfold global_opts in G0. rewrite forallb_forall in G0.
      rewrite (A0 a Hin), (N0 a Hin), I1, I2. specialize (G0 a Hin). rewrite Hg in G0. cbn [negb orb] in G0. apply negb_true_iff in G0.
      rewrite G0. repeat split; assumption.
    - rewrite I1, I2. repeat split; assumption.
    - rewrite I1, I2. repeat split; assumption. }
  destruct HL as [L1 [L2 L3]].
  assert (SET : forall f : settings -> bool, (forall a b, f (settings_or a b) = f a || f b) -> is_set f c0 = false ->
            is_set f (add_globals (filter a_global (c_args x)) (propagate_subcommand c1 s0)) = is_set f s0).
  { intros f Hf H. destruct (is_set_or f c0 H) as [_ Hg]. unfold is_set. rewrite ES, EG, PSet, PG, !Hf, GS, Hg, !orb_false_r. reflexivity. }
  split; [|rewrite ESub; exact PS].
  unfold user_node, user_conventional, conventional0.
  rewrite (SET s_sub_precedence (fun a b => eq_refl) P1), (SET s_allow_missing_pos (fun a b => eq_refl) P2),
    (SET s_allow_hyphen (fun a b => eq_refl) P3), (SET s_allow_negnum (fun a b => eq_refl) P4), (SET s_tva (fun a b => eq_refl) P5),
    (SET s_ignore_errors (fun a b => eq_refl) I0), Q1, Q2, Q3, Q4, Q5, Is.
  rewrite ES, EG, PSet, PG, EA, PA. cbn [negb andb].
  assert (Eb1 : s_built (settings_or (c_set s0) (c_gset c1)) = false) by (change (s_built (c_set s0) || s_built (c_gset c1) = false); rewrite GS, Q0, B0; reflexivity).
  assert (Eb2 : s_built (settings_or (c_gset s0) (c_gset c1)) = false) by (change (s_built (c_gset s0) || s_built (c_gset c1) = false); rewrite GS, Bs, B0; reflexivity).
  rewrite Eb1, Eb2. cbn [negb andb].
  unfold no_index in *. rewrite forallb_app. rewrite forallb_app. rewrite As, L1, Nis, L2. cbn [andb].
  rewrite (lom_app _ _ L3 (lom_nopos l L3)), Ls. cbn [andb].
  unfold global_opts. rewrite EA, PA, forallb_app. unfold global_opts in Gs. rewrite Gs. cbn [andb].
  assert (GL : forallb (fun a => negb (a_global a) || negb (a_is_positional a)) l = true).
  { clear -L3. induction l as [|a t IH]; [reflexivity|]. rewrite npos_cons in L3. destruct (a_is_positional a) eqn:E; [discriminate L3|].
    cbn [forallb]. rewrite E, (IH L3). cbn [negb]. rewrite orb_true_r. reflexivity. }
  rewrite GL. cbn [andb]. unfold no_help_sub. rewrite ESub, PS. exact Ns.
Qed.

Lemma prop_child_tree k c0 s0 : user_node c0 = true -> user_tree k s0 = true -> user_tree k (prop_child c0 s0) = true.
Proof.
  intros H0 Hs. destruct k as [|k']; [discriminate Hs|]. cbn [user_tree] in *. apply andb_prop in Hs. destruct Hs as [Hn Hsub].
  destruct (prop_child_node c0 s0 H0 Hn) as [N S]. rewrite N, S. exact Hsub.
Qed.

(** the names set by [_build_subcommand] do not matter *)
Lemma user_tree_names k x b d : user_tree k (x <| c_bin_name := b |> <| c_display_name := d |>) = user_tree k x.
Proof. destruct k; reflexivity. Qed.
Lemma user_tree_bin k x b : user_tree k (x <| c_bin_name := b |>) = user_tree k x.
Proof. destruct k; reflexivity. Qed.

(** ** the tree theorem *)
(** [wf_inv] without the class conjuncts, at every level *)
Fixpoint wf_tree_body (c : cmd) (i : inv) : bool :=
  match i with
  | ILeaf its => wf_items c PSValuesDone 1 its
  | ISub its name j =>
      wf_items c PSValuesDone 1 its && is_done (items_pst c PSValuesDone 1 its)
      && negb (is_set s_args_negate_subs c)
      && match possible_subcommand c name false with
         | Some scn => negb (beq scn s_help && negb (is_set s_disable_help_sub c))
         | None => false end
      && match child c name with
         | Some scb => wf_tree_body scb j
         | None => false end
  | ITrail its vs =>
      wf_items c PSValuesDone 1 its && not_pos (items_pst c PSValuesDone 1 its)
      && (if is_done (items_pst c PSValuesDone 1 its) then nosub c ESC else true)
      && negb (is_set s_dont_delimit_trailing c)
      && wf_trail c (items_pos c 1 its) vs
  end.

Lemma conv_of_user_a c0 : assert_app (build_self c0) = true -> user_conventional c0 = true -> conv (build_self c0) = true.
Proof.
  intros Ha Hu. destruct (user_conventional_parts c0 Hu) as [Eb [P1 [P2 [P3 [P4 [P5 [A0 [N0 L0]]]]]]]].
  unfold conv. rewrite Ha, (low_index_of_user c0 Eb P3 P4 P5 N0 L0).
  rewrite (is_set_build_self s_sub_precedence c0 (fun s => eq_refl) (set_sp c0)).
  rewrite (is_set_build_self s_allow_missing_pos c0 (fun s => eq_refl) (set_amp c0)).
  rewrite P1, P2. cbn [andb negb]. rewrite !andb_true_r.
  apply (built_args_pred conv_arg conv_arg c0); try assumption.
  - intros a Hc _. rewrite conv_arg_build. exact Hc.
  - intros a n Hc _ _. rewrite conv_arg_index, conv_arg_build. exact Hc.
  - reflexivity.
  - reflexivity.
  - intros Hb. rewrite Hb in Eb. discriminate.
Qed.

Theorem wf_inv_of_user_tree : forall i k c0 f, user_tree k c0 = true -> valid_tree (S f) (build_self c0) = true ->
  wf_tree_body (build_self c0) i = true -> wf_inv (build_self c0) i = true.
Proof.
  induction i as [its|its name j IH|its vs]; intros k c0 f Hu Hv Hb;
    (destruct k as [|k']; [discriminate Hu|]); cbn [user_tree] in Hu; apply andb_prop in Hu; destruct Hu as [Hn Hsub];
    destruct (user_node_parts c0 Hn) as [U0 [I0 [B0 [G0 N0]]]];
    assert (Ha : assert_app (build_self c0) = true) by (cbn [valid_tree] in Hv; apply andb_prop in Hv; apply Hv);
    pose proof (conv_of_user_a c0 Ha U0) as Hc; rewrite wf_inv_body, Hc, ie_build_self, I0; cbn [negb andb].
  - exact Hb.
  - cbn [wf_tree_body wf_body] in *.
    apply andb_prop in Hb. destruct Hb as [Hb Hch]. rewrite Hb. cbn [andb].
    apply andb_prop in Hb. destruct Hb as [Hb Hps].
    destruct (child (build_self c0) name) as [scb|] eqn:Ech; [|discriminate Hch].
    unfold child in Ech. destruct (possible_subcommand (build_self c0) name false) as [scn|] eqn:Ep; [|discriminate Ech].
    destruct (find_subcommand (build_self c0) scn) as [sc0|] eqn:Ef; [|discriminate Ech].
    pose proof (valid_tree_child f (build_self c0) scn sc0 scb Hv Ef Ech) as Hvc.
    destruct f as [|f']; [cbn [valid_tree] in Hvc; discriminate|].
    (* which subcommand of the built command is built *)
    unfold build_subcommand in Ech.
    destruct (find (fun s => beq (c_name s) (c_name sc0)) (c_subs (build_self c0))) as [sc2|] eqn:Ef2; [|discriminate Ech].
    destruct (user_conventional_parts c0 U0) as [Eb _].
    apply find_some in Ef2. destruct Ef2 as [Hin2 En2]. apply beq_eq in En2.
    unfold find_subcommand in Ef. apply find_some in Ef. destruct Ef as [Hin0 Eal].
    assert (Hnh : forall s0, In s0 (c_subs c0) -> forall y, c_name y = c_name s0 -> c_aliases y = c_aliases s0 -> aliases_to y s_help = false).
    { intros s0 Hs0 y Ey Ay. unfold no_help_sub in N0. rewrite forallb_forall in N0. specialize (N0 s0 Hs0). apply negb_true_iff in N0.
      unfold aliases_to, all_aliases in *. rewrite Ey, Ay. exact N0. }
    destruct (built_subs c0 Eb sc2 Hin2) as [[s0 [Hs0 E2]]|[Nh [Ah Dh]]].
    + (* a declared subcommand *)
      assert (Ename : c_name s0 <> s_help).
      { intros E. pose proof (Hnh s0 Hs0 s0 eq_refl eq_refl) as X. unfold aliases_to in X. rewrite E, beq_refl in X. discriminate X. }
      assert (E2' : sc2 = prop_child c0 s0).
      { rewrite E2. unfold glob_sub, prop_child. destruct (propagate_spec (bs_settings c0) s0) as [_ [_ [Pn _]]]. rewrite Pn.
        destruct (beq (c_name s0) s_help) eqn:Eh; [apply beq_eq in Eh; contradiction|]. reflexivity. }
      assert (Hut : user_tree k' sc2 = true).
      { rewrite E2'. apply prop_child_tree; [exact Hn|]. rewrite forallb_forall in Hsub. apply Hsub. exact Hs0. }
      match type of Ech with Some (build_self ?s3) = Some scb => assert (Hu3 : user_tree k' s3 = true) end.
      { cbv zeta. match goal with |- user_tree _ (match ?d with _ => _ end) = _ => destruct d end;
          [rewrite user_tree_bin|rewrite user_tree_names]; exact Hut. }
      inversion Ech as [Escb]. rewrite <- Escb in *. apply (IH k' _ f' Hu3 Hvc Hch).
    + (* the generated help subcommand: excluded by the name test *)
      exfalso. rewrite Nh in En2.
      destruct (built_subs c0 Eb sc0 Hin0) as [[s0 [Hs0 E0]]|[Nh0 [Ah0 Dh0]]].
      * assert (X : c_name sc0 = c_name s0).
        { rewrite E0. unfold glob_sub. destruct (propagate_spec (bs_settings c0) s0) as [_ [_ [Pn _]]].
          match goal with |- c_name (if ?b then _ else _) = _ => destruct b end; [exact Pn|]. destruct (add_globals_spec (filter a_global (c_args (bs_help_version (bs_propagate (bs_settings c0))))) (propagate_subcommand (bs_settings c0) s0)) as [l [_ [_ [_ [_ [_ [En _]]]]]]].
          rewrite En. exact Pn. }
        pose proof (Hnh s0 Hs0 s0 eq_refl eq_refl) as Y. unfold aliases_to in Y. rewrite <- X, <- En2, beq_refl in Y. discriminate Y.
      * unfold aliases_to, all_aliases in Eal. rewrite Ah0, Nh0 in Eal. cbn [map existsb] in Eal. rewrite orb_false_r in Eal.
        apply beq_eq in Eal. rewrite <- Eal in Hps. rewrite beq_refl, Dh in Hps. discriminate Hps.
  - exact Hb.
Qed.

(** THE UN-PARSER THEOREM FOR TREES ON THE DEFINITION AS WRITTEN *)
Theorem parse_top_user_tree c0 bin i k : is_set s_no_binary_name c0 = false -> valid (with_bin c0 bin) = true ->
  user_tree k c0 = true -> wf_tree_body (build_self (with_bin c0 bin)) i = true ->
  parse_top c0 (bin :: render_inv i) = finish_outcome (with_bin c0 bin) (run_inv (build_self (with_bin c0 bin)) i).
Proof.
  intros Hn Hv Hu Hb. apply (parse_top_inv c0 bin i Hn Hv).
  assert (Hu' : user_tree k (with_bin c0 bin) = true).
  { unfold with_bin. destruct (c_bin_name c0); [exact Hu|]. destruct (utf8_valid bin && negb (is_nil bin)); [rewrite user_tree_bin|]; exact Hu. }
  assert (Hv' := Hv). unfold valid in Hv'. cbv zeta in Hv'.
  apply (wf_inv_of_user_tree i k (with_bin c0 bin) (S (depth (build_self (with_bin c0 bin)))) Hu' Hv' Hb).
Qed.

(** non-vacuity: the two-level example of the second pass ([prog --qu -voA go -x --name=V F]) and the tree with a GLOBAL
    argument of the third pass ([prog --gl=R -q run --gl=S -x]), as written *)
From ClapModel Require Import ParseProofs.UnparseExamples ParseProofs.UnparseGlobals.
Example user_tree_examples :
  user_tree 3 UnparseEx.t0 = true /\
  wf_tree_body (build_self (with_bin UnparseEx.t0 UnparseEx.tbin)) UnparseEx.tinv = true /\
  user_tree 3 GlobEx.c0 = true /\ wf_tree_body (build_self (with_bin GlobEx.c0 GlobEx.bin)) GlobEx.ginv = true /\
  user_tree 1 UnparseEx.t0 = false.
Proof. vm_compute. repeat split; reflexivity. Qed.
