(** Property C02, fourth pass, item (4): LOW-INDEX MULTIPLES ([<sources>... <target>]) and [allow_missing_positional]
    as part of the invocation language.

    At the second-to-last positional [a] (counter [pos], [lookahead_at c pos]) the counter correction looks at the NEXT
    token: a value that is followed by another plain value stays with [a]; a value followed by a flag-looking token, or
    by nothing, goes to the LAST positional [b].  A look-ahead run is therefore [init ++ [vl]] followed by [next]
    (nothing, or something that starts with a flag): [init] -- any number of values if [a] takes several, at most one
    otherwise -- is one occurrence of [a] (none if [init] is empty: [a] is skipped), [vl] is the occurrence of [b].
    [loop_look]: the token loop on such a run; [flush_look]: its meaning as occurrences. *)
From ClapModel Require Import Base.Bytes Base.Machine Base.Utf8 Lex.OsStrExtModel.
From ClapModel Require Import Parse.Cmd Parse.Build Parse.Valid Parse.Matcher Parse.Errors Parse.Validator Parse.Parser.
From ClapModel Require Import ParseProofs.Actions ParseProofs.ActionsLoop ParseProofs.Spelling ParseProofs.Escape
                              ParseProofs.Unparse ParseProofs.UnparseProofs ParseProofs.UnparseTop ParseProofs.UnparseTrail
                              ParseProofs.UnparseX ParseProofs.UnparseXProofs ParseProofs.LoopStep.
From Coq Require Import ZArith Lia List Bool.
From RecordUpdate Require Import RecordSet.
Import RecordSetNotations.
Import ListNotations.
Open Scope N_scope.

Section Look.
Variable c : cmd.

(** the second-to-last positional as the counter correction finds it *)
Definition low_arg (pos : N) : option arg :=
  List.find (fun a => match a_index a with Some k => k =? pos | None => false end) (positionals c).
Definition flaglike (n : bytes) : bool := is_long n || is_short n.
Definition goes (next : list bytes) : bool := match next with [] => true | n :: _ => flaglike n end.
(** a plain value: passes the classification phase, does not look like a flag to the look-ahead, is no subcommand name *)
Definition plain_val (v : bytes) : bool := value_ok v && negb (flaglike v) && nosub c v.

Definition wfx_look (pos : N) (init : list bytes) (vl : bytes) (next : list bytes) : bool :=
  match get_pos c pos, low_arg pos, get_pos c (pos + 1) with
  | Some a, Some a', Some b =>
      lookahead_at c pos
      && negb (a_hyphen a') && negb (a_negnum a')
      && negb (a_last a) && negb (a_tva a) && (a_multiple_values a || negb (a_is_multiple a))
      && (a_multiple_values a || (length init <=? 1)%nat)
      && negb (a_last b) && negb (a_tva b) && negb (a_is_multiple b) && negb (check_terminator b vl)
      && forallb plain_val init && plain_val vl && goes next
  | _, _, _ => false
  end.

(** meaning on parser states, and as occurrences *)
Definition look_apply (pos : N) (init : list bytes) (vl : bytes) (st : ps) : res ps :=
  match get_pos c pos, get_pos c (pos + 1) with
  | Some a, Some b =>
      do s1 <- (if is_nil init then ROk st else sep_step c IIndex a init st);
      sep_step c IIndex b [vl] s1
  | _, _ => ROk st
  end.
Definition look_occs (pos : N) (init : list bytes) (vl : bytes) : list occ :=
  match get_pos c pos, get_pos c (pos + 1) with
  | Some a, Some b => (if is_nil init then [] else [occ_of IIndex a init]) ++ [occ_of IIndex b [vl]]
  | _, _ => []
  end.

Hypothesis Hx : convx c = true.

Lemma plain_val_parts v : plain_val v = true -> value_ok v = true /\ is_long v = false /\ is_short v = false /\ nosub c v = true.
Proof.
  unfold plain_val, flaglike. intros H. apply andb_prop in H. destruct H as [H H3]. apply andb_prop in H. destruct H as [H1 H2].
  apply negb_true_iff in H2. apply orb_false_iff in H2. destruct H2 as [H2 H4]. repeat split; assumption.
Qed.

Lemma low_arg_in pos a' : low_arg pos = Some a' -> In a' (c_args c).
Proof. unfold low_arg, positionals. intros H. apply find_some in H. destruct H as [H _]. apply filter_In in H. apply H. Qed.

(** the counter correction where the look-ahead is on *)
Lemma pc_on pos vaf pst (rest : list bytes) : lookahead_at c pos = true ->
  pc_part c rest (mkL pst pos vaf false) =
  match rest with
  | n :: _ => match low_arg pos with
              | Some a => do na <- is_new_arg c n a; ROk (if na || is_some (possible_subcommand c n vaf) then pos + 1 else pos)
              | None => ROk (pos + 1) end
  | [] => ROk (pos + 1)
  end.
Proof.
  intros H. unfold pc_part. cbn [l_pos l_trailing l_vaf]. cbv zeta.
  unfold lookahead_at, low_index_mults_any, is_terminated in H.
  assert (E : (((pos + 1 =? positional_count c)
                && existsb (fun a => a_is_multiple a && negb (positional_count c =? opt_default 0 (a_index a))) (positionals c)
                && match last (map Some (positionals c)) None with Some p => negb (a_last p) | None => false end
                || is_set s_allow_missing_pos c && (pos + 1 =? positional_count c) && negb false)
               && negb match get_pos c pos with Some a => is_some (a_term a) | None => false end) = true).
  { destruct (pos + 1 =? positional_count c); destruct (existsb _ (positionals c));
      destruct (match last (map Some (positionals c)) None with Some p => negb (a_last p) | None => false end);
      destruct (is_set s_allow_missing_pos c);
      destruct (match get_pos c pos with Some a => is_some (a_term a) | None => false end); cbn in *; congruence. }
  rewrite E. reflexivity.
Qed.

Lemma is_new_arg_plain n a' : In a' (c_args c) -> a_hyphen a' = false -> a_negnum a' = false ->
  is_new_arg c n a' = ROk (is_long n || (is_short n || false)).
Proof.
  intros Ha Hh Hn. unfold is_new_arg. rewrite (find_arg_self_x c Hx a' Ha). cbn [expect rbind]. rewrite Hh, Hn. cbn [orb andb].
  destruct (is_long n); [reflexivity|]. destruct (is_short n); reflexivity.
Qed.

Lemma pc_stay pos vaf pst n (r : list bytes) a' : lookahead_at c pos = true -> low_arg pos = Some a' ->
  a_hyphen a' = false -> a_negnum a' = false -> plain_val n = true ->
  pc_part c (n :: r) (mkL pst pos vaf false) = ROk pos.
Proof.
  intros HL Hl Hh Hn Hp. destruct (plain_val_parts n Hp) as [_ [E1 [E2 Hs]]].
  rewrite (pc_on pos vaf pst (n :: r) HL), Hl, (is_new_arg_plain n a' (low_arg_in pos a' Hl) Hh Hn), E1, E2. cbn [rbind orb].
  unfold nosub in Hs. apply andb_prop in Hs. destruct Hs as [S1 S2].
  assert (S : possible_subcommand c n vaf = None).
  { destruct vaf; [destruct (possible_subcommand c n true); [discriminate S2|reflexivity]|destruct (possible_subcommand c n false); [discriminate S1|reflexivity]]. }
  rewrite S. reflexivity.
Qed.

Lemma pc_go pos vaf pst (next : list bytes) a' : lookahead_at c pos = true -> low_arg pos = Some a' ->
  a_hyphen a' = false -> a_negnum a' = false -> goes next = true ->
  pc_part c next (mkL pst pos vaf false) = ROk (pos + 1).
Proof.
  intros HL Hl Hh Hn Hg. rewrite (pc_on pos vaf pst next HL). destruct next as [|n r]; [reflexivity|].
  rewrite Hl, (is_new_arg_plain n a' (low_arg_in pos a' Hl) Hh Hn). cbn [goes] in Hg. unfold flaglike in Hg.
  cbn [rbind]. destruct (is_long n); [reflexivity|]. cbn [orb] in *. rewrite Hg. reflexivity.
Qed.

(** one plain value at the look-ahead counter *)
Lemma look_step (v : bytes) (rest : list bytes) pst pos pc' vaf st x :
  match pst with PSOpt _ => False | _ => True end -> plain_val v = true ->
  pc_part c rest (mkL pst pos vaf false) = ROk pc' -> get_pos c pc' = Some x ->
  check_terminator x v = false -> a_last x = false -> a_tva x = false ->
  parse_loop c (v :: rest) (mkL pst pos vaf false) st = pos_step_k c x v rest pc' st.
Proof.
  intros Hp Hv Hpc Hg Ht Hl Htv. destruct (plain_val_parts v Hv) as [Hvo [_ [_ Hs]]]. rewrite parse_loop_step.
  rewrite (phase1_value c Hx (parse_loop c rest) v rest pst pos vaf st); [|destruct pst; [exact Hs|exact I|exact I]|exact Hvo].
  cbn [rbind]. apply (pos_deliver_at c v rest pst pos pc' vaf st x Hp Hpc Hg Ht Hl Htv).
Qed.

Section Run.
Variables (pos : N) (a a' b : arg).
Hypothesis HL : lookahead_at c pos = true.
Hypothesis Hga : get_pos c pos = Some a.
Hypothesis Hla : low_arg pos = Some a'.
Hypothesis Hgb : get_pos c (pos + 1) = Some b.
Hypothesis Hh' : a_hyphen a' = false.
Hypothesis Hn' : a_negnum a' = false.
Hypothesis Hlast : a_last a = false.
Hypothesis Htva : a_tva a = false.

Lemma a_no_term v : check_terminator a v = false.
Proof.
  unfold lookahead_at, is_terminated in HL. rewrite Hga in HL. apply andb_prop in HL. destruct HL as [_ H].
  unfold check_terminator. destruct (a_term a); [discriminate H|reflexivity].
Qed.

(** values that stay with [a] while its run is open *)
Lemma look_stay_values : a_multiple_values a = true -> forall (vs vs0 : list bytes) n (r : list bytes) st,
  forallb plain_val vs = true -> plain_val n = true ->
  parse_loop c (vs ++ n :: r) (mkL (PSPos (a_id a)) pos true false) (set_pending (a_id a) IIndex vs0 st) =
  parse_loop c (n :: r) (mkL (PSPos (a_id a)) pos true false) (set_pending (a_id a) IIndex (vs0 ++ vs) st).
Proof.
  intros Hm. induction vs as [|v vs IH]; intros vs0 n r st Hvs Hnp.
  - cbn [app]. rewrite app_nil_r. reflexivity.
  - cbn [forallb] in Hvs. apply andb_prop in Hvs. destruct Hvs as [Hv Hvs]. cbn [app].
    assert (Hnext : exists n' r', vs ++ n :: r = n' :: r' /\ plain_val n' = true).
    { destruct vs as [|w t]; [exists n, r; split; [reflexivity|exact Hnp]|].
      cbn [forallb] in Hvs. apply andb_prop in Hvs. exists w, (t ++ n :: r). split; [reflexivity|apply Hvs]. }
    destruct Hnext as [n' [r' [En Hn'p]]].
    rewrite (look_step v (vs ++ n :: r) (PSPos (a_id a)) pos pos true _ a I Hv); [| |exact Hga|apply a_no_term|exact Hlast|exact Htva].
    2:{ rewrite En. apply (pc_stay pos true _ n' r' a' HL Hla Hh' Hn' Hn'p). }
    rewrite (pos_more c v (vs ++ n :: r) pos st a vs0 Hm). rewrite (IH (vs0 ++ [v]) n r st Hvs Hnp). rewrite <- app_assoc. reflexivity.
Qed.

Hypothesis Hmm : a_multiple_values a = true \/ a_is_multiple a = false.
Hypothesis Hlb : a_last b = false.
Hypothesis Htb : a_tva b = false.
Hypothesis Hmb : a_is_multiple b = false.

Lemma b_single : a_multiple_values b = false.
Proof. unfold a_is_multiple in Hmb. apply orb_false_iff in Hmb. apply Hmb. Qed.

(** the last value of the run goes to [b] *)
Lemma look_go (vl : bytes) (next : list bytes) pst vaf st : match pst with PSOpt _ => False | _ => True end ->
  plain_val vl = true -> goes next = true -> check_terminator b vl = false -> pend_inv c pst st ->
  parse_loop c (vl :: next) (mkL pst pos vaf false) st =
  (do st1 <- sep_step c IIndex b [vl] st; parse_loop c next (mkL PSValuesDone (pos + 2) true false) st1).
Proof.
  intros Hp Hv Hg Ht Hi.
  rewrite (look_step vl next pst pos (pos + 1) vaf st b Hp Hv (pc_go pos vaf pst next a' HL Hla Hh' Hn' Hg) Hgb Ht Hlb Htb).
  rewrite (pos_first_x c Hx vl next pst (pos + 1) st b Hgb); [|destruct pst; [exact I|exact I|apply b_single]|exact Hi].
  rewrite Hmb. replace (pos + 1 + 1) with (pos + 2) by lia. reflexivity.
Qed.

(** THE LOOK-AHEAD RUN *)
Theorem loop_look (init : list bytes) (vl : bytes) (next : list bytes) vaf st :
  (a_multiple_values a = true \/ (length init <= 1)%nat) ->
  forallb plain_val init = true -> plain_val vl = true -> goes next = true -> check_terminator b vl = false ->
  pend_inv c PSValuesDone st ->
  parse_loop c (init ++ vl :: next) (mkL PSValuesDone pos vaf false) st =
  (do s' <- look_apply pos init vl st; parse_loop c next (mkL PSValuesDone (pos + 2) true false) s').
Proof.
  intros Hk Hinit Hvl Hg Ht Hi. unfold look_apply. rewrite Hga, Hgb.
  destruct init as [|v1 t].
  - cbn [app is_nil rbind]. apply (look_go vl next PSValuesDone vaf st I Hvl Hg Ht Hi).
  - cbn [is_nil]. cbn [forallb] in Hinit. apply andb_prop in Hinit. destruct Hinit as [Hv1 Ht1]. cbn [app].
    assert (Hnext : exists n' r', t ++ vl :: next = n' :: r' /\ plain_val n' = true).
    { destruct t as [|w t']; [exists vl, next; split; [reflexivity|exact Hvl]|].
      cbn [forallb] in Ht1. apply andb_prop in Ht1. exists w, (t' ++ vl :: next). split; [reflexivity|apply Ht1]. }
    destruct Hnext as [n' [r' [En Hn'p]]].
    rewrite (look_step v1 (t ++ vl :: next) PSValuesDone pos pos vaf st a I Hv1); [| |exact Hga|apply a_no_term|exact Hlast|exact Htva].
    2:{ rewrite En. apply (pc_stay pos vaf _ n' r' a' HL Hla Hh' Hn' Hn'p). }
    rewrite (pos_first_x c Hx v1 (t ++ vl :: next) PSValuesDone pos st a Hga I Hi).
    unfold sep_step at 1 2. destruct (resolve_pending c st) as [s1|e s|n] eqn:RP; cbn [rbind]; try reflexivity.
    pose proof (get_pos_in c pos a Hga) as Ha.
    destruct Hmm as [Hm|Hm].
    + assert (Hmul : a_is_multiple a = true) by (unfold a_is_multiple; rewrite Hm; reflexivity). rewrite Hmul.
      rewrite (look_stay_values Hm t [v1] vl next s1 Ht1 Hvl). cbn [app].
      apply (look_go vl next (PSPos (a_id a)) true _ I Hvl Hg Ht). exact I.
    + rewrite Hm. destruct Hk as [Hk|Hk]; [unfold a_is_multiple in Hm; rewrite Hk in Hm; discriminate Hm|].
      destruct t as [|w t']; [|cbn [length] in Hk; lia]. cbn [app].
      assert (Hoff : lookahead_at c (pos + 1) = false).
      { unfold lookahead_at in *. apply andb_prop in HL. destruct HL as [H1 _]. apply andb_prop in H1. destruct H1 as [_ H1].
        apply N.eqb_eq in H1. assert (E : (pos + 1 + 1 =? positional_count c) = false) by (apply N.eqb_neq; lia).
        rewrite E, andb_false_r. reflexivity. }
      destruct (plain_val_parts vl Hvl) as [Hvo [_ [_ Hs]]].
      rewrite (pos_branch_x c Hx vl next PSValuesDone (pos + 1) true _ b I Hs Hvo Hgb Ht Hlb Htb (lookahead_off_of c (pos + 1) Hoff)).
      assert (Hi1 : pend_inv c PSValuesDone (set_pending (a_id a) IIndex [v1] s1)).
      { intros p x Ep Fx.
        assert (Ep' : Some (mkPending (a_id a) (Some IIndex) [v1] None) = Some p) by (rewrite <- Ep; destruct s1 as [m ci fa fk]; destruct m; reflexivity).
        inversion Ep'; subst p. cbn [p_id] in Fx. rewrite (find_arg_self_x c Hx a Ha) in Fx. inversion Fx; subst x.
        right. unfold a_is_multiple in Hm. apply orb_false_iff in Hm. apply Hm. }
      rewrite (pos_first_x c Hx vl next PSValuesDone (pos + 1) _ b Hgb I Hi1). rewrite Hmb.
      replace (pos + 1 + 1) with (pos + 2) by lia. reflexivity.
Qed.

End Run.

(** the class gives the hypotheses of the run *)
Lemma wfx_look_parts pos init vl next : wfx_look pos init vl next = true ->
  exists a a' b, lookahead_at c pos = true /\ get_pos c pos = Some a /\ low_arg pos = Some a' /\ get_pos c (pos + 1) = Some b /\
    a_hyphen a' = false /\ a_negnum a' = false /\ a_last a = false /\ a_tva a = false /\
    (a_multiple_values a = true \/ a_is_multiple a = false) /\ (a_multiple_values a = true \/ (length init <= 1)%nat) /\
    a_last b = false /\ a_tva b = false /\ a_is_multiple b = false /\ check_terminator b vl = false /\
    forallb plain_val init = true /\ plain_val vl = true /\ goes next = true.
Proof.
  unfold wfx_look. destruct (get_pos c pos) as [a|]; [|discriminate]. destruct (low_arg pos) as [a'|]; [|discriminate].
  destruct (get_pos c (pos + 1)) as [b|]; [|discriminate]. intros H. exists a, a', b.
  repeat match type of H with (_ && _) = true => let H' := fresh "H" in apply andb_prop in H; destruct H as [H H'] end.
  repeat match goal with Hh : negb _ = true |- _ => apply negb_true_iff in Hh end.
  split; [assumption|]. split; [reflexivity|]. split; [reflexivity|]. split; [reflexivity|].
  repeat (split; [assumption|]).
  split; [match goal with Hh : (a_multiple_values a || negb (a_is_multiple a)) = true |- _ => apply orb_prop in Hh; destruct Hh as [Hh|Hh]; [left; exact Hh|right; apply negb_true_iff in Hh; exact Hh] end|].
  split; [match goal with Hh : (a_multiple_values a || (length init <=? 1)%nat) = true |- _ => apply orb_prop in Hh; destruct Hh as [Hh|Hh]; [left; exact Hh|right; apply Nat.leb_le in Hh; exact Hh] end|].
  repeat (split; [assumption|]). assumption.
Qed.

(** THE LOOK-AHEAD RUN, from the class *)
Theorem loop_look_wf pos (init : list bytes) (vl : bytes) (next : list bytes) vaf st :
  wfx_look pos init vl next = true -> pend_inv c PSValuesDone st ->
  parse_loop c (init ++ vl :: next) (mkL PSValuesDone pos vaf false) st =
  (do s' <- look_apply pos init vl st; parse_loop c next (mkL PSValuesDone (pos + 2) true false) s').
Proof.
  intros Hw Hi.
  destruct (wfx_look_parts pos init vl next Hw) as
    [a [a' [b [HL [Hga [Hla [Hgb [Hh' [Hn' [Hlast [Htva [Hmm [Hk [Hlb [Htb [Hmb [Htm [Hinit [Hvl Hgo]]]]]]]]]]]]]]]]]]].
  apply (loop_look pos a a' b HL Hga Hla Hgb Hh' Hn' Hlast Htva Hmm Hlb Htb Hmb init vl next vaf st Hk Hinit Hvl Hgo Htm Hi).
Qed.

(** flushing *)
Lemma flush_items_K {B} its pst p st (K : ps -> res B) : wfx_items c pst p its = true ->
  (do st' <- apply_items c p its st; do s <- resolve_pending c st'; K s) =
  (do st0 <- resolve_pending c st; do s <- react_all c (occs c p its) st0; K s).
Proof.
  intros Hw. etransitivity; [symmetry; apply (rbind_assoc (apply_items c p its st) (resolve_pending c) K)|].
  rewrite (flush_items_x c Hx its pst p st Hw). apply rbind_assoc.
Qed.

Lemma flush_pos_item {B} p x (vs : list bytes) st (K : ps -> res B) : get_pos c p = Some x ->
  (do st1 <- sep_step c IIndex x vs st; do st2 <- resolve_pending c st1; K st2) =
  (do st0 <- resolve_pending c st; do st2 <- react_all c [occ_of IIndex x vs] st0; K st2).
Proof. intros Hg. exact (flush_react_all_sep_x c Hx IIndex x vs (get_pos_in c p x Hg) [] st K). Qed.

Lemma flush_look {B} pos init vl st (K : ps -> res B) a b : get_pos c pos = Some a -> get_pos c (pos + 1) = Some b ->
  (do s1 <- look_apply pos init vl st; do s <- resolve_pending c s1; K s) =
  (do st0 <- resolve_pending c st; do s <- react_all c (look_occs pos init vl) st0; K s).
Proof.
  intros Hga Hgb. unfold look_apply, look_occs. rewrite Hga, Hgb. rewrite rbind_assoc.
  destruct init as [|v t]; cbn [is_nil app].
  - cbn [rbind]. apply (flush_pos_item (pos + 1) b [vl] st K Hgb).
  - etransitivity; [apply rbind_ext; intros s1 _; apply (flush_pos_item (pos + 1) b [vl] s1 K Hgb)|].
    etransitivity; [apply (flush_pos_item pos a (v :: t) st (fun s => do st2 <- react_all c [occ_of IIndex b [vl]] s; K st2) Hga)|].
    apply rbind_ext. intros st0 _. change ([occ_of IIndex a (v :: t); occ_of IIndex b [vl]]) with ([occ_of IIndex a (v :: t)] ++ [occ_of IIndex b [vl]]).
    rewrite react_all_app, rbind_assoc. reflexivity.
Qed.

Lemma look_occs_args pos init vl : Forall (fun o => In (o_arg o) (c_args c)) (look_occs pos init vl).
Proof.
  unfold look_occs. destruct (get_pos c pos) as [a|] eqn:Ha; [|constructor]. destruct (get_pos c (pos + 1)) as [b|] eqn:Hb; [|constructor].
  apply Forall_app. split.
  - destruct (is_nil init); constructor; [apply (get_pos_in c pos a Ha)|constructor].
  - constructor; [apply (get_pos_in c _ b Hb)|constructor].
Qed.

(** the state after the run: nothing open but the single value of [b] *)
Lemma look_apply_after pos init vl st s' a b : get_pos c pos = Some a -> get_pos c (pos + 1) = Some b ->
  a_is_multiple b = false -> fs_skip st = 0 -> look_apply pos init vl st = ROk s' ->
  pend_inv c PSValuesDone s' /\ fs_skip s' = 0.
Proof.
  intros Hga Hgb Hmb Hs H. unfold look_apply in H. rewrite Hga, Hgb in H.
  assert (Hb1 : a_multiple_values b = false) by (unfold a_is_multiple in Hmb; apply orb_false_iff in Hmb; apply Hmb).
  assert (FS : forall x p (vs : list bytes) s0 s1, get_pos c p = Some x -> sep_step c IIndex x vs s0 = ROk s1 -> fs_skip s1 = fs_skip s0).
  { intros x p vs s0 s1 Hg E. apply (apply_item_fs c p (ItPos vs) s0 s1). cbn [apply_item]. rewrite Hg. exact E. }
  destruct (if is_nil init then ROk st else sep_step c IIndex a init st) as [s1|e s|n] eqn:E1; cbn [rbind] in H; try discriminate.
  split.
  - apply (sep_step_inv_x c Hx IIndex b [vl] s1 s' PSValuesDone (get_pos_in c _ b Hgb)); [right; exact Hb1|exact H].
  - rewrite (FS b (pos + 1) [vl] s1 s' Hgb H). destruct (is_nil init).
    + inversion E1; subst. exact Hs.
    + rewrite (FS a pos init st s1 Hga E1). exact Hs.
Qed.

End Look.
