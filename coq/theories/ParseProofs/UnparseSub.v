(** Property C02, un-parser, subcommands (part 1): the command-line machinery of one level never
    reads or writes the [subcommand] slot of the matcher.  [ssub x st] stores [x] in that slot;
    every primitive up to [react] / [resolve_pending] commutes with it (results and error states). *)
From ClapModel Require Import Base.Bytes Base.Machine Base.Utf8 Lex.OsStrExtModel.
From ClapModel Require Import Parse.Cmd Parse.Build Parse.Valid Parse.Matcher Parse.Errors Parse.Validator Parse.Parser.
From Coq Require Import ZArith Lia List Bool.
From RecordUpdate Require Import RecordSet.
Import RecordSetNotations.
Import ListNotations.
Open Scope N_scope.

Definition msub (x : option (bytes * matches)) (m : matcher) : matcher := m <| mt_sub := x |>.
Definition ssub (x : option (bytes * matches)) (st : ps) : ps := st <| mt := msub x (mt st) |>.
Definition msubR (x : option (bytes * matches)) (r : res matcher) : res matcher :=
  match r with ROk m => ROk (msub x m) | RErr e s => RErr e (ssub x s) | RPanic n => RPanic n end.
(** on results whose error state is a parser state *)
Definition psub (x : option (bytes * matches)) (r : res ps) : res ps :=
  match r with ROk s => ROk (ssub x s) | RErr e s => RErr e (ssub x s) | RPanic n => RPanic n end.
Definition psub2 {B} (x : option (bytes * matches)) (r : res (ps * B)) : res (ps * B) :=
  match r with ROk (s, b) => ROk (ssub x s, b) | RErr e s => RErr e (ssub x s) | RPanic n => RPanic n end.

Section Sub.
Variable c : cmd.
Variable x : option (bytes * matches).

Lemma msub_args m : mt_args (msub x m) = mt_args m. Proof. destruct m; reflexivity. Qed.
Lemma msub_pending m : mt_pending (msub x m) = mt_pending m. Proof. destruct m; reflexivity. Qed.
Lemma ssub_mt st : mt (ssub x st) = msub x (mt st). Proof. destruct st; reflexivity. Qed.
Lemma ssub_set_mt st m : (ssub x st) <| mt := msub x m |> = ssub x (st <| mt := m |>).
Proof. destruct st; reflexivity. Qed.
Lemma ssub_bump st : ps_bump (ssub x st) = ssub x (ps_bump st). Proof. destruct st; reflexivity. Qed.
Lemma ssub_cur st : cur_idx (ssub x st) = cur_idx st. Proof. destruct st; reflexivity. Qed.

Lemma mt_remove_sub m i : mt_remove (msub x m) i = (msub x (fst (mt_remove m i)), snd (mt_remove m i)).
Proof. unfold mt_remove. destruct m as [ar pe su]. cbn. destruct (fm_remove i ar). reflexivity. Qed.

Lemma fold_remove_sub l : forall m,
  fold_left (fun m o => fst (mt_remove m o)) l (msub x m) = msub x (fold_left (fun m o => fst (mt_remove m o)) l m).
Proof.
  induction l as [|o l IH]; intros m; [reflexivity|]. cbn [fold_left]. rewrite mt_remove_sub. cbn [fst]. apply IH.
Qed.

Lemma remove_overrides_sub a m : remove_overrides c a (msub x m) = msub x (remove_overrides c a m).
Proof.
  unfold remove_overrides. rewrite fold_remove_sub. unfold arg_ids. rewrite msub_args. apply fold_remove_sub.
Qed.

Lemma start_custom_arg_m_sub m a s : start_custom_arg_m (msub x m) a s = msub x (start_custom_arg_m m a s).
Proof. destruct m; reflexivity. Qed.
Lemma start_custom_group_m_sub m g s : start_custom_group_m (msub x m) g s = msub x (start_custom_group_m m g s).
Proof. destruct m; reflexivity. Qed.
Lemma add_val_to_sub m i v : add_val_to (msub x m) i v = opt_map (msub x) (add_val_to m i v).
Proof.
  unfold add_val_to. rewrite msub_args. destruct (fm_get i (mt_args m)) as [ma|]; [|reflexivity].
  destruct (append_val v ma); [|reflexivity]. destruct m; reflexivity.
Qed.
Lemma add_index_to_sub m i ix : add_index_to (msub x m) i ix = opt_map (msub x) (add_index_to m i ix).
Proof.
  unfold add_index_to. rewrite msub_args. destruct (fm_get i (mt_args m)) as [ma|]; [|reflexivity].
  destruct m; reflexivity.
Qed.

Lemma groups_fold_sub a s gs : forall (acc : res matcher),
  fold_left (fun rm g => do m <- rm; let m' := start_custom_group_m m g s in expect 1533 (add_val_to m' g (a_id a)))
            gs (msubR x acc) =
  msubR x (fold_left (fun rm g => do m <- rm; let m' := start_custom_group_m m g s in expect 1533 (add_val_to m' g (a_id a)))
                           gs acc).
Proof.
  induction gs as [|g gs IH]; intros acc; [reflexivity|]. cbn [fold_left]. rewrite <- IH. f_equal.
  destruct acc as [m|e st|n]; cbn [msubR rbind]; try reflexivity.
  cbv zeta. rewrite start_custom_group_m_sub, add_val_to_sub.
  destruct (add_val_to (start_custom_group_m m g s) g (a_id a)); reflexivity.
Qed.

Lemma start_custom_arg_sub a s m : start_custom_arg c a s (msub x m) = msubR x (start_custom_arg c a s m).
Proof.
  unfold start_custom_arg.
  assert (E : match s with SCmdLine => remove_overrides c a (msub x m) | _ => msub x m end
              = msub x (match s with SCmdLine => remove_overrides c a m | _ => m end)).
  { destruct s; try reflexivity. apply remove_overrides_sub. }
  rewrite E, start_custom_arg_m_sub. destruct (src_explicit s); [|reflexivity].
  apply (groups_fold_sub a s (groups_for_arg c (a_id a)) (ROk _)).
Qed.

Lemma push_arg_values_sub a : forall raw st,
  push_arg_values c a raw (ssub x st) = psub x (push_arg_values c a raw st).
Proof.
  induction raw as [|v t IH]; intros st; [reflexivity|]. cbn [push_arg_values].
  rewrite ssub_bump. destruct (a_vp a) as [vp|]; cbn [expect rbind]; [|reflexivity].
  destruct (vp_parse vp v); [reflexivity|].
  rewrite ssub_mt, add_val_to_sub. destruct (add_val_to (mt (ps_bump st)) (a_id a) v) as [m1|]; cbn [opt_map expect rbind]; [|reflexivity].
  rewrite add_index_to_sub, ssub_cur.
  destruct (add_index_to m1 (a_id a) (cur_idx (ps_bump st))) as [m2|]; cbn [opt_map expect rbind]; [|reflexivity].
  rewrite ssub_set_mt. apply IH.
Qed.

Lemma verify_num_args_sub a raw st :
  verify_num_args c a raw (ssub x st) =
  match verify_num_args c a raw st with ROk u => ROk u | RErr e s => RErr e (ssub x s) | RPanic n => RPanic n end.
Proof.
  unfold verify_num_args. destruct (is_set s_ignore_errors c); [reflexivity|].
  destruct (a_num a) as [r|]; cbn [expect rbind]; [|reflexivity].
  destruct ((0 <? vmin r) && (N.of_nat (length raw) =? 0)); [reflexivity|].
  destruct (r_num_values r) as [n|].
  - destruct (negb (n =? N.of_nat (length raw))); reflexivity.
  - destruct (N.of_nat (length raw) <? vmin r); [reflexivity|].
    destruct (vmax r <? N.of_nat (length raw)); [|reflexivity]. destruct raw; reflexivity.
Qed.

Lemma existing_count_sub a m : existing_count a (msub x m) = existing_count a m.
Proof. unfold existing_count. rewrite msub_args. reflexivity. Qed.

Lemma store_sub a s raw (st : ps) m1 :
  (do m2 <- start_custom_arg c a s (msub x m1);
   do st' <- push_arg_values c a raw ((ssub x st) <| mt := m2 |>); ROk (st', PRValuesDone)) =
  psub2 x (do m2 <- start_custom_arg c a s m1;
           do st' <- push_arg_values c a raw (st <| mt := m2 |>); ROk (st', PRValuesDone)).
Proof.
  rewrite start_custom_arg_sub. destruct (start_custom_arg c a s m1) as [m2|e s0|n]; cbn [msubR rbind psub2]; try reflexivity.
  rewrite ssub_set_mt, push_arg_values_sub.
  destruct (push_arg_values c a raw (st <| mt := m2 |>)) as [s1|e s1|n]; reflexivity.
Qed.

Lemma bump_if_sub (b : bool) st : (if b then ps_bump (ssub x st) else ssub x st) = ssub x (if b then ps_bump st else st).
Proof. destruct b; [apply ssub_bump|reflexivity]. Qed.

Lemma react_core_sub idn s a raw ti st :
  react_core c idn s a raw ti (ssub x st) = psub2 x (react_core c idn s a raw ti st).
Proof.
  unfold react_core.
  assert (V : (if is_cmdline s then verify_num_args c a raw (ssub x st) else ROk tt) =
              match (if is_cmdline s then verify_num_args c a raw st else ROk tt) with
              | ROk u => ROk u | RErr e s0 => RErr e (ssub x s0) | RPanic n => RPanic n end).
  { destruct (is_cmdline s); [apply verify_num_args_sub|reflexivity]. }
  rewrite V. destruct (if is_cmdline s then verify_num_args c a raw st else ROk tt) as [[]|e s0|n]; cbn [rbind psub2]; try reflexivity.
  destruct (match raw with [] => if negb (is_nil (a_default_missing a)) then (a_default_missing a, None) else (raw, ti)
                         | _ => (raw, ti) end) as [raw1 ti1].
  destruct (delimit c a raw1 ti1) as [raw2|]; cbn [expect rbind psub2]; [|reflexivity].
  assert (SL : forall (rw : list bytes) (bump : bool),
    (let st0 := if bump && is_cmdline s && is_flag_ident idn then ps_bump (ssub x st) else ssub x st in
     let '(m1, removed) := mt_remove (mt st0) (a_id a) in
     let st0 := st0 <| mt := m1 |> in
     if removed && negb (is_set s_args_override_self c || mem_id (a_id a) (a_overrides a))
     then RErr (mkerr c EArgumentConflict (a_id a)) st0
     else do m2 <- start_custom_arg c a s m1;
          do st' <- push_arg_values c a rw (st0 <| mt := m2 |>);
          ROk (st', PRValuesDone)) =
    psub2 x
    (let st0 := if bump && is_cmdline s && is_flag_ident idn then ps_bump st else st in
     let '(m1, removed) := mt_remove (mt st0) (a_id a) in
     let st0 := st0 <| mt := m1 |> in
     if removed && negb (is_set s_args_override_self c || mem_id (a_id a) (a_overrides a))
     then RErr (mkerr c EArgumentConflict (a_id a)) st0
     else do m2 <- start_custom_arg c a s m1;
          do st' <- push_arg_values c a rw (st0 <| mt := m2 |>);
          ROk (st', PRValuesDone))).
  { intros rw bump. cbv zeta. rewrite bump_if_sub.
    set (st0 := if bump && is_cmdline s && is_flag_ident idn then ps_bump st else st).
    rewrite ssub_mt, mt_remove_sub. destruct (mt_remove (mt st0) (a_id a)) as [m1 removed]. cbn [fst snd].
    rewrite ssub_set_mt.
    destruct (removed && negb _); [reflexivity|]. apply store_sub. }
  destruct (a_get_action a); try reflexivity.
  - apply SL.
  - rewrite bump_if_sub. rewrite ssub_mt. apply store_sub.
  - apply SL.
  - apply SL.
  - rewrite ssub_mt, existing_count_sub, mt_remove_sub.
    destruct (mt_remove (mt st) (a_id a)) as [m1 removed]. cbn [fst snd]. apply store_sub.
Qed.

Lemma resolve_pending_sub st : resolve_pending c (ssub x st) = psub x (resolve_pending c st).
Proof.
  unfold resolve_pending. rewrite ssub_mt, msub_pending. destruct (mt_pending (mt st)) as [p|]; [|reflexivity].
  assert (E : (ssub x st) <| mt := (msub x (mt st)) <| mt_pending := None |> |> = ssub x (st <| mt := (mt st) <| mt_pending := None |> |>)).
  { destruct st as [m ci fa fk]. destruct m. reflexivity. }
  rewrite E. destruct (find_arg c (p_id p)) as [a|]; cbn [expect rbind]; [|reflexivity].
  rewrite react_core_sub.
  destruct (react_core c (p_ident p) SCmdLine a (p_raw p) (p_trailing_idx p) _) as [[s1 pr]|e s1|n]; reflexivity.
Qed.

End Sub.
