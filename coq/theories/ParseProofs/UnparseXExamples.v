(** Property C02, third pass, item (3): non-vacuity of the lifted class. *)
From ClapModel Require Import Base.Bytes Base.Machine Base.Utf8 Lex.OsStrExtModel.
From ClapModel Require Import Parse.Cmd Parse.Build Parse.Valid Parse.Matcher Parse.Errors Parse.Validator Parse.Parser.
From ClapModel Require Import ParseProofs.Actions ParseProofs.Unparse ParseProofs.UnparseProofs ParseProofs.UnparseTop
                              ParseProofs.UnparseSub ParseProofs.UnparseTrail ParseProofs.UnparseTree ParseProofs.UnparseIdx ParseProofs.UnparseIdxTop
                              ParseProofs.UnparseX ParseProofs.UnparseXProofs ParseProofs.UnparseXTree.
From Coq Require Import ZArith List Bool.
From RecordUpdate Require Import RecordSet.
Import RecordSetNotations.
Import ListNotations.
Open Scope N_scope.

Module XEx.
  (** prog -v (Count)  -r/--req=<v> (Set, require_equals)  -t/--term <v>{1..3} (Append, terminator ";")
           -y/--hy <v>{2} (Set, allow_hyphen_values)  -n/--num <v> (Set, allow_negative_numbers)  <f>
           subcommand run: -k/--key=<v> (require_equals)
      line: prog --req=A -vr=B --term X Y --hy -x -- --num -5 F -t Z --req== -y --num --term run --key=K *)
  Definition v : arg := (arg_new [118]) <| a_short := Some 118 |> <| a_action := Some ACount |>.
  Definition r : arg := (arg_new [114]) <| a_short := Some 114 |> <| a_long := Some [114; 101; 113] |> <| a_action := Some ASet |>
                          <| a_req_eq := true |>.
  Definition t : arg := (arg_new [116]) <| a_short := Some 116 |> <| a_long := Some [116; 101; 114; 109] |> <| a_action := Some AAppend |>
                          <| a_num := Some {| vmin := 1; vmax := 3 |} |> <| a_term := Some [59] |>.
  Definition y : arg := (arg_new [121]) <| a_short := Some 121 |> <| a_long := Some [104; 121] |> <| a_action := Some ASet |>
                          <| a_num := Some {| vmin := 2; vmax := 2 |} |> <| a_hyphen := true |>.
  Definition n : arg := (arg_new [110]) <| a_short := Some 110 |> <| a_long := Some [110; 117; 109] |> <| a_action := Some ASet |>
                          <| a_negnum := true |>.
  Definition f : arg := arg_new [102].
  Definition k : arg := (arg_new [107]) <| a_short := Some 107 |> <| a_long := Some [107; 101; 121] |> <| a_action := Some ASet |>
                          <| a_req_eq := true |>.
  Definition run : cmd := (cmd_new [114; 117; 110]) <| c_args := [k] |>.
  Definition c0 : cmd := (cmd_new [112]) <| c_args := [v; r; t; y; n; f] |> <| c_subs := [run] |> <| c_set := settings_none <| s_args_override_self := true |> |>.
  Definition bin : bytes := [112].
  Definition c : cmd := build_self (with_bin c0 bin).
  Definition its : list item :=
    [ItLongEq [114; 101; 113] [65];
     ItCluster [118] (TEq 114 [66]);
     ItLongSep [116; 101; 114; 109] [[88]; [89]];
     ItLongSep [104; 121] [[45; 120]; [45; 45]];
     ItLongSep [110; 117; 109] [[45; 53]];
     ItPos [[70]];
     ItCluster [] (TSep 116 [[90]]);
     ItLongEq [114; 101; 113] [61];
     ItCluster [] (TSep 121 [[45; 45; 110; 117; 109]; [45; 45; 116; 101; 114; 109]])].
  Definition xinv : inv := ISub its [114; 117; 110] (ILeaf [ItLongEq [107; 101; 121] [75]]).

  Example ex_hyps :
    is_set s_no_binary_name c0 = false /\ valid (with_bin c0 bin) = true /\ wfx_inv c xinv = true /\
    convx c = true /\ conv c = false /\
    no_globals (build_recursive (S (S (depth c))) (with_bin c0 bin)) = true /\
    render_inv xinv =
      [[45; 45; 114; 101; 113; 61; 65]; [45; 118; 114; 61; 66]; [45; 45; 116; 101; 114; 109]; [88]; [89];
       [45; 45; 104; 121]; [45; 120]; [45; 45]; [45; 45; 110; 117; 109]; [45; 53]; [70]; [45; 116]; [90];
       [45; 45; 114; 101; 113; 61; 61]; [45; 121]; [45; 45; 110; 117; 109]; [45; 45; 116; 101; 114; 109];
       [114; 117; 110]; [45; 45; 107; 101; 121; 61; 75]].
  Proof. vm_compute. repeat split; reflexivity. Qed.
  Definition raw_of (i : id) (m : matches) : option groups := opt_map m_raw (fm_get i (ms_args m)).
  Definition idx_of_m (i : id) (m : matches) : option (list N) := opt_map m_indices (fm_get i (ms_args m)).
  Example ex_parse : exists m sm,
    parse_top c0 (bin :: render_inv xinv) = OOk m /\ ms_sub m = Some ([114; 117; 110], sm) /\
    raw_of [114] m = Some [[[61]]] /\ raw_of [116] m = Some [[[88]; [89]]; [[90]]] /\
    raw_of [121] m = Some [[[45; 45; 110; 117; 109]; [45; 45; 116; 101; 114; 109]]] /\
    raw_of [110] m = Some [[[45; 53]]] /\ raw_of [102] m = Some [[[70]]] /\ raw_of [118] m = Some [[[49]]] /\
    raw_of [107] sm = Some [[[75]]] /\
    idx_of_m [116] m = Some [7; 8; 16] /\ idx_of_m [121] m = Some [20; 21] /\ idx_of_m [110] m = Some [13].
  Proof. eexists. eexists. split; [vm_compute; reflexivity|]. repeat split. Qed.

  (** the terminator token: prog --term X ; F -v   (";" closes the occurrence of --term, F is the positional) *)
  Definition its1 : list item := [ItLongSep [116; 101; 114; 109] [[88]]].
  Definition its2 : list item := [ItPos [[70]]; ItCluster [118] TNone].
  Definition tb : arg := match get_long c [116; 101; 114; 109] with Some a => a | None => t end.
  Example ex_term_hyps :
    is_set s_ignore_errors c = false /\ wfx_items c PSValuesDone 1 its1 = true /\
    items_pst c PSValuesDone 1 its1 = PSOpt (a_id tb) /\ In tb (c_args c) /\ a_term tb = Some [59] /\
    (a_hyphen tb || value_ok [59] || (a_negnum tb && negnum_tok [59])) = true /\
    wfx_items c PSValuesDone (items_pos c 1 its1) its2 = true /\
    render its1 ++ [59] :: render its2 = [[45; 45; 116; 101; 114; 109]; [88]; [59]; [70]; [45; 118]].
  Proof.
    split; [vm_compute; reflexivity|]. split; [vm_compute; reflexivity|]. split; [vm_compute; reflexivity|].
    split; [apply (get_long_in c [116; 101; 114; 109]); vm_compute; reflexivity|]. split; [vm_compute; reflexivity|]. split; [vm_compute; reflexivity|].
    split; vm_compute; reflexivity.
  Qed.
  Example ex_term_parse : exists st,
    get_matches_with 3 c (render its1 ++ [59] :: render its2) ps_new = ROk st /\
    groups_of [116] (mt st) = Some [[[88]]] /\ groups_of [102] (mt st) = Some [[[70]]] /\
    idx_of [116] (mt st) = Some [2] /\ idx_of [102] (mt st) = Some [3].
  Proof. eexists. split; [vm_compute; reflexivity|]. repeat split. Qed.
End XEx.
