(** Property C08: detached vs attached values that look like negative numbers.

    For an option with [allow_negative_numbers], EVERY token [-<n>] whose remainder the lexer's
    [is_number] accepts ([-1], [-1.], [-2.5], [-1e3], ...) is taken as the option's value in the detached
    spelling -- [--opt -1.] = [--opt=-1.], [-o -1.] = [-o-1.] -- although it looks like a short cluster:
    [parse_short_arg] answers MaybeHyphenValue and the loop hands the token to the pending option.
    The whole-line theorems of SpellingLine.v are re-proved against an abstract "value step"
    ([takes_as_value]) of which plain value tokens and negative-number tokens are the two instances.
    [is_number_lang]: the parser model's [is_number] is the lexer's (C13), hence the declarative number
    language of C13 ([number_lang]). *)
From ClapModel Require Import Base.Bytes Base.Machine Base.Utf8 Lex.OsStrExtModel.
From ClapModel Require Lex.LexModel Lex.LexProofs.
From ClapModel Require Import Parse.Cmd Parse.Build Parse.Valid Parse.Matcher Parse.Errors Parse.Validator Parse.Parser.
From ClapModel Require Import ParseProofs.Spelling ParseProofs.Actions ParseProofs.ActionsLoop ParseProofs.Dispatch.
From ClapModel Require Import ParseProofs.SpellingLine ParseProofs.SpellingStep ParseProofs.SpellingTree.
From Coq Require Import ZArith Lia List Bool.
From RecordUpdate Require Import RecordSet.
Import RecordSetNotations.
Import ListNotations.
Open Scope N_scope.

Section Neg.
Variable c : cmd.

(** the loop, with the option [a] waiting for a value, hands the token [v] to it (or ends the option at
    its terminator) -- whatever [v] looks like *)
Definition takes_as_value (a : arg) (v : bytes) : Prop :=
  forall rest pos vaf st,
  parse_loop c (v :: rest) (mkL (PSOpt (a_id a)) pos vaf false) st =
  (do a0 <- expect 290 (find_arg c (a_id a));
   if check_terminator a0 v then parse_loop c rest (mkL PSValuesDone pos vaf false) st
   else do y <- take_value c (a_id a) v st;
        parse_loop c rest (mkL (if snd y then PSOpt (a_id a) else PSValuesDone) pos vaf false) (fst y)).

Lemma plain_takes a v : is_set s_sub_precedence c = false -> plain_value a v -> takes_as_value a v.
Proof.
  intros SP [E [TL [TS _]]] rest pos vaf st. apply parse_loop_value_step; assumption.
Qed.

(** a token that looks like a negative number, for an option that allows negative numbers *)
Definition negnum_value (a : arg) (v : bytes) : Prop :=
  a_negnum a = true /\ (exists r, to_short v = Some r /\ sf_is_negative_number r = true) /\
  check_terminator a v = false.

Lemma negnum_takes a v : is_set s_sub_precedence c = false -> find_arg c (a_id a) = Some a ->
  negnum_value a v -> takes_as_value a v.
Proof.
  intros SP FA [NN [[r [TS NEG]] _]] rest pos vaf st.
  destruct (to_short_facts v r TS) as [TL E].
  rewrite parse_loop_cons. unfold iteration, phase1. cbn [l_trailing l_pst l_pos l_vaf]. cbv zeta.
  rewrite SP. cbn [orb]. unfold classify. rewrite E, TL, TS. cbn [l_pst l_pos l_vaf].
  unfold parse_short_arg. cbn [state_arg]. rewrite FA. cbn [expect rbind]. rewrite NN, NEG.
  cbn [andb]. rewrite orb_true_r. cbn [rbind after_short after_flag finish_iter].
  unfold phase2. cbn [l_trailing l_pst l_pos l_vaf]. rewrite FA. cbn [expect rbind].
  destruct (check_terminator a v); [reflexivity|].
  unfold take_value. rewrite FA. cbn [expect rbind].
  destruct (pending_values_push (mt st) (a_id a) None false (Some v)) as [m1|]; cbn [expect rbind]; [|reflexivity].
  destruct (needs_more_vals m1 a) as [more|]; cbn [expect rbind fst snd]; reflexivity.
Qed.

(** [opt_then_value] of SpellingLine.v against the abstract value step *)
Lemma opt_then_value_vs idn a r v rest tok ls st x0 :
  single_opt c a r -> takes_as_value a v -> check_terminator a v = false -> fs_skip st = 0 ->
  react c (Some idn) SCmdLine a [v] None st = ROk x0 ->
  res_rel c
    (finish_iter c (parse_loop c (v :: rest)) (v :: rest) tok
       (do x <- parse_opt_value c idn None a false st;
        after_flag c (parse_loop c (v :: rest)) (v :: rest) ls (fst x, snd x, true)))
    (parse_loop c rest (mkL PSValuesDone (l_pos ls) true false) (fst x0)).
Proof.
  intros [TV [RE [FA [NA [AM OI]]]]] VS CT FS R.
  destruct (attached_vs_separate c idn a r v false st FA RE NA) as [EQ SN].
  rewrite (parse_opt_value_attached c idn v a false st RE), R in EQ. cbn [rbind fst] in EQ.
  destruct (parse_opt_value c idn None a false st) as [x1|e s|n] eqn:P1; cbn [rbind] in EQ; try discriminate.
  destruct (take_value c (a_id a) v (fst x1)) as [y1|e s|n] eqn:TK; cbn [rbind] in EQ; try discriminate.
  destruct (SN x1 y1 eq_refl TK) as [S1 S2]. rewrite AM in S2.
  cbn [rbind]. destruct x1 as [st1 pr1]. cbn [fst snd] in *. subst pr1.
  unfold after_flag, finish_iter. cbn [rbind].
  rewrite (VS rest (l_pos ls) true st1).
  rewrite FA. cbn [expect rbind]. rewrite CT, TK. cbn [rbind]. rewrite S2.
  assert (FS1 : fs_skip st1 = 0).
  { unfold parse_opt_value in P1. rewrite RE in P1. cbn [andb] in P1.
    destruct (resolve_pending c st) as [s1|e s|n] eqn:RP; cbn [rbind] in P1; try discriminate.
    destruct (pending_values_push (mt s1) (a_id a) (Some idn) false None); cbn [expect rbind] in P1; try discriminate.
    inversion P1; subst. rewrite <- FS, <- (SpellingLine.resolve_pending_fs c _ _ RP). destruct s1; reflexivity. }
  unfold take_value in TK. rewrite FA in TK. cbn [expect rbind] in TK.
  destruct (pending_values_push (mt st1) (a_id a) None false (Some v)) as [m1|] eqn:PV; cbn [expect rbind] in TK; [|discriminate].
  destruct (needs_more_vals m1 a); cbn [expect rbind] in TK; [|discriminate].
  inversion TK; subst y1. cbn [fst] in *.
  apply flush_bisim.
  - split; [exact (eq_sym EQ)|]. split.
    + intros p Hp k b0 Hb. destruct (push_pending_id _ _ _ _ _ _ PV) as [q [Hq Hi]].
      replace (mt (st1 <| mt := m1 |>)) with m1 in Hp by (destruct st1; reflexivity).
      rewrite Hq in Hp. inversion Hp; subst q. rewrite Hi. apply (OI k b0 Hb).
    + rewrite <- FS1. destruct st1; reflexivity.
  - intros i. cbn. discriminate.
Qed.

(** [--opt v] and [--opt=v], any value token the loop hands to the option *)
Theorem long_space_vs_eq_vs l v a r tokA tokB rest ls st x0 :
  flag_site c ls tokA -> flag_site c ls tokB ->
  to_long tokA = Some (l, true, Some v) -> to_long tokB = Some (l, true, None) ->
  lookup_long c l = Some a -> single_opt c a r -> takes_as_value a v -> check_terminator a v = false ->
  fs_skip st = 0 ->
  react c (Some ILong) SCmdLine a [v] None st = ROk x0 ->
  res_rel c (parse_loop c (tokB :: v :: rest) ls st) (parse_loop c (tokA :: rest) ls st).
Proof.
  intros FA FB TA TB LK SO VS CT FS R.
  pose proof SO as [TV [RE _]].
  rewrite !parse_loop_cons. unfold iteration.
  rewrite (phase1_long c _ _ ls tokA l (Some v) a st FA TA) by (try assumption; apply andb_false_r).
  rewrite (phase1_long c _ _ ls tokB l None a st FB TB) by (try assumption; rewrite (to_long_nonempty _ _ _ TB); reflexivity).
  cbn [is_some].
  rewrite (parse_opt_value_attached c ILong v a true st RE), R.
  unfold finish_iter at 2. cbn [rbind fst snd after_flag].
  apply (opt_then_value_vs ILong a r v rest tokB ls st x0 SO VS CT FS R).
Qed.

(** [-o v] and [-ov], any value token the loop hands to the option *)
Theorem short_space_vs_att_vs ch a r b t rA rB tokA tokB rest ls st x0 :
  short_site c ls tokA -> short_site c ls tokB ->
  to_short tokA = Some rA -> sf_next rA = Some (inl ch, b :: t) -> b <> 61 ->
  to_short tokB = Some rB -> sf_next rB = Some (inl ch, []) ->
  get_short c ch = Some a -> single_opt c a r -> takes_as_value a (b :: t) -> check_terminator a (b :: t) = false ->
  fs_skip st = 0 ->
  react c (Some IShort) SCmdLine a [b :: t] None st = ROk x0 ->
  res_rel c (parse_loop c (tokB :: (b :: t) :: rest) ls st) (parse_loop c (tokA :: rest) ls st).
Proof.
  intros SA SB TA NA NB TB NB' GS SO VS CT FS R.
  pose proof SO as [TV [RE _]].
  rewrite !parse_loop_cons. unfold iteration.
  rewrite (phase1_short c _ _ ls tokA rA st SA TA FS), (phase1_short c _ _ ls tokB rB st SB TB FS).
  rewrite (short_loop_opt_attached c (length rA) rA ch a b t PRNoArg (l_vaf ls) st NA NB GS TV RE).
  rewrite (short_loop_opt_alone c (length rB) rB ch a PRNoArg (l_vaf ls) st NB' GS TV).
  pose proof (parse_opt_value_attached c IShort (b :: t) a false st RE) as PA.
  pose proof (opt_then_value_vs IShort a r (b :: t) rest tokB ls st x0 SO VS CT FS R) as K.
  destruct (parse_opt_value c IShort None a false st) as [[st1 pr1]|e s|n] eqn:P.
  - pose proof (pov_none_result c IShort a st _ RE P) as E. cbn [snd] in E. subst pr1.
    unfold bytes in *. rewrite PA, R.
    unfold finish_iter at 2. cbn [rbind fst snd after_short after_flag] in *. exact K.
  - unfold bytes in *. rewrite PA, R.
    unfold finish_iter at 2. cbn [rbind fst snd after_short after_flag] in *. exact K.
  - unfold bytes in *. rewrite PA, R.
    unfold finish_iter at 2. cbn [rbind fst snd after_short after_flag] in *. exact K.
Qed.

(** the property's wording: every negative-number token is a value in the detached spelling *)
Theorem long_space_vs_eq_negnum l v a r tokA tokB rest ls st x0 :
  is_set s_sub_precedence c = false ->
  flag_site c ls tokA -> flag_site c ls tokB ->
  to_long tokA = Some (l, true, Some v) -> to_long tokB = Some (l, true, None) ->
  lookup_long c l = Some a -> single_opt c a r -> negnum_value a v -> fs_skip st = 0 ->
  react c (Some ILong) SCmdLine a [v] None st = ROk x0 ->
  res_rel c (parse_loop c (tokB :: v :: rest) ls st) (parse_loop c (tokA :: rest) ls st).
Proof.
  intros SP FA FB TA TB LK SO NV FS R. pose proof SO as [_ [_ [FAa _]]].
  apply (long_space_vs_eq_vs l v a r tokA tokB rest ls st x0); try assumption.
  - apply negnum_takes; assumption.
  - apply NV.
Qed.

Theorem short_space_vs_att_negnum ch a r b t rA rB tokA tokB rest ls st x0 :
  is_set s_sub_precedence c = false ->
  short_site c ls tokA -> short_site c ls tokB ->
  to_short tokA = Some rA -> sf_next rA = Some (inl ch, b :: t) -> b <> 61 ->
  to_short tokB = Some rB -> sf_next rB = Some (inl ch, []) ->
  get_short c ch = Some a -> single_opt c a r -> negnum_value a (b :: t) -> fs_skip st = 0 ->
  react c (Some IShort) SCmdLine a [b :: t] None st = ROk x0 ->
  res_rel c (parse_loop c (tokB :: (b :: t) :: rest) ls st) (parse_loop c (tokA :: rest) ls st).
Proof.
  intros SP SA SB TA NA NB TB NB' GS SO NV FS R. pose proof SO as [_ [_ [FAa _]]].
  apply (short_space_vs_att_vs ch a r b t rA rB tokA tokB rest ls st x0); try assumption.
  - apply negnum_takes; assumption.
  - apply NV.
Qed.
End Neg.

(** * the parser model's [is_number] is the lexer's (C13): the declarative number language *)
Lemma is_number_aux_loop : forall s i sd pe,
  is_number_aux s (N.of_nat i) sd (opt_map N.of_nat pe) =
  opt_map (opt_map N.of_nat) (LexModel.is_number_loop s i sd pe).
Proof.
  induction s as [|ch t IH]; intros i sd pe; [reflexivity|].
  cbn [is_number_aux LexModel.is_number_loop].
  change (is_digit ch) with (LexModel.is_digit ch).
  assert (S1 : N.of_nat i + 1 = N.of_nat (S i)) by lia.
  assert (Z : (0 <? N.of_nat i) = (0 <? i)%nat) by (destruct i; reflexivity).
  assert (P : negb (is_some (opt_map N.of_nat pe)) = LexModel.is_none pe) by (destruct pe; reflexivity).
  destruct (LexModel.is_digit ch); [rewrite S1; apply IH|].
  rewrite P, Z, S1.
  destruct ((ch =? 46) && negb sd && LexModel.is_none pe && (0 <? i)%nat); [apply IH|].
  change ((ch =? 101) || (ch =? 69)) with (LexModel.is_e ch).
  destruct (LexModel.is_e ch && LexModel.is_none pe && (0 <? i)%nat); [|reflexivity].
  apply (IH (S i) sd (Some i)).
Qed.

Lemma is_number_lex s : is_number s = true <-> LexModel.is_number s = LexModel.Ret true.
Proof.
  unfold is_number, LexModel.is_number.
  pose proof (is_number_aux_loop s 0 false None) as B. cbn [N.of_nat opt_map] in B. rewrite B.
  destruct (LexModel.is_number_loop s 0 false None) as [[i|]|] eqn:L; cbn [opt_map].
  - destruct s as [|ch t]; [cbn in L; discriminate L|]. cbn [length].
    replace (N.of_nat (S (length t)) - 1) with (N.of_nat (length t)) by lia.
    destruct (Nat.eqb i (length t)) eqn:E.
    + apply Nat.eqb_eq in E. subst i. rewrite N.eqb_refl. cbn. split; discriminate.
    + apply Nat.eqb_neq in E. assert (H : (N.of_nat i =? N.of_nat (length t)) = false) by (apply N.eqb_neq; lia).
      rewrite H. cbn. split; reflexivity.
  - split; reflexivity.
  - split; discriminate.
Qed.

Theorem is_number_lang s : is_number s = true <-> LexProofs.number_lang s.
Proof. rewrite is_number_lex. apply (proj2 (LexProofs.is_number_lang s)). Qed.

(** so: for an option with [allow_negative_numbers], [-m] is a value for EVERY [m] of the number language *)
Theorem number_is_negnum_value a m : a_negnum a = true -> utf8_valid m = true -> m <> [] -> hd 0 m <> 45 ->
  LexProofs.number_lang m -> check_terminator a (45 :: m) = false -> negnum_value a (45 :: m).
Proof.
  intros NN U NE H NL CT. split; [exact NN|]. split; [|exact CT].
  exists m. split.
  - unfold to_short, strip_prefix. cbn [starts_with length skipn]. rewrite N.eqb_refl. cbn [andb].
    replace (starts_with m []) with true by (destruct m; reflexivity).
    destruct m as [|x t]; [contradiction|]. cbn [hd] in H. cbn [starts_with is_nil].
    assert (X : (x =? DASH) = false) by (apply N.eqb_neq; exact H). rewrite X. reflexivity.
  - unfold sf_is_negative_number. rewrite U. apply is_number_lang. exact NL.
Qed.

(** whole lines *)
Theorem long_space_vs_eq_negnum_top c0 bin l v a r tokA tokB rest x0 :
  is_set s_no_binary_name c0 = false ->
  let c := build_self (top_cmd c0 bin) in
  is_set s_ignore_errors c = false -> is_set s_sub_precedence c = false ->
  flag_site c ls_top tokA -> flag_site c ls_top tokB ->
  to_long tokA = Some (l, true, Some v) -> to_long tokB = Some (l, true, None) ->
  lookup_long c l = Some a -> single_opt c a r -> negnum_value a v ->
  react c (Some ILong) SCmdLine a [v] None ps_new = ROk x0 ->
  parse_top c0 (bin :: tokB :: v :: rest) = parse_top c0 (bin :: tokA :: rest).
Proof.
  intros NB c IE SP FA FB TA TB LK SO NV R.
  apply (parse_top_lift c0 bin _ _ NB IE).
  apply (long_space_vs_eq_negnum c l v a r tokA tokB rest ls_top ps_new x0); try assumption. reflexivity.
Qed.

Theorem short_space_vs_att_negnum_top c0 bin ch a r b t rA rB tokA tokB rest x0 :
  is_set s_no_binary_name c0 = false ->
  let c := build_self (top_cmd c0 bin) in
  is_set s_ignore_errors c = false -> is_set s_sub_precedence c = false ->
  short_site c ls_top tokA -> short_site c ls_top tokB ->
  to_short tokA = Some rA -> sf_next rA = Some (inl ch, b :: t) -> b <> 61 ->
  to_short tokB = Some rB -> sf_next rB = Some (inl ch, []) ->
  get_short c ch = Some a -> single_opt c a r -> negnum_value a (b :: t) ->
  react c (Some IShort) SCmdLine a [b :: t] None ps_new = ROk x0 ->
  parse_top c0 (bin :: tokB :: (b :: t) :: rest) = parse_top c0 (bin :: tokA :: rest).
Proof.
  intros NB c IE SP SA SB TA NA NB' TB NB'' GS SO NV R.
  apply (parse_top_lift c0 bin _ _ NB IE).
  apply (short_space_vs_att_negnum c ch a r b t rA rB tokA tokB rest ls_top ps_new x0); try assumption. reflexivity.
Qed.

(** * Non-vacuity: [p [--scale|-s <n>] [x]], [--scale] allows negative numbers *)
Definition exn_cmd : cmd :=
  (cmd_new [112]) <| c_bin_name := Some [112] |>
  <| c_args := [
       (arg_new [115]) <| a_long := Some [115; 99; 97; 108; 101] |> <| a_short := Some 115 |> <| a_action := Some ASet |>
                       <| a_negnum := true |>;
       (arg_new [120]) <| a_action := Some ASet |> ] |>.
Definition exn := build_self exn_cmd.
Definition exn_scale : arg := nth 0 (c_args exn) (arg_new []).
Definition n_1 : bytes := [45; 49].
Definition n_1dot : bytes := [45; 49; 46].
Definition n_2_5 : bytes := [45; 50; 46; 53].
Definition n_1e3 : bytes := [45; 49; 101; 51].
Definition n_scale : bytes := [45; 45; 115; 99; 97; 108; 101].
Definition n_scale_eq_1dot : bytes := n_scale ++ [61] ++ n_1dot.
Definition n_s : bytes := [45; 115].
Definition n_s_1dot : bytes := [45; 115; 45; 49; 46].

Example exn_top : build_self (top_cmd exn_cmd [112]) = exn /\ assert_app exn = true /\ valid exn_cmd = true.
Proof. vm_compute. repeat split. Qed.

(** the four documented shapes are numbers of the language, hence negative-number values of [--scale] *)
Example exn_numbers :
  Forall (fun v => negnum_value exn_scale v) [n_1; n_1dot; n_2_5; n_1e3] /\
  Forall (fun m => LexProofs.number_lang m) [[49]; [49; 46]; [50; 46; 53]; [49; 101; 51]].
Proof.
  split.
  - repeat (apply Forall_cons;
      [split; [vm_compute; reflexivity|]; split; [eexists; split; vm_compute; reflexivity|vm_compute; reflexivity]|]).
    apply Forall_nil.
  - repeat (apply Forall_cons; [apply is_number_lang; vm_compute; reflexivity|]). apply Forall_nil.
Qed.

Example exn_single : single_opt exn exn_scale r_single.
Proof.
  unfold single_opt. repeat (split; [vm_compute; reflexivity|]). apply opt_id_of_b. vm_compute. reflexivity.
Qed.

Example ex_negnum_hyps :
  is_set s_no_binary_name exn_cmd = false /\ is_set s_ignore_errors exn = false /\ is_set s_sub_precedence exn = false /\
  flag_site exn ls_top n_scale_eq_1dot /\ flag_site exn ls_top n_scale /\
  to_long n_scale_eq_1dot = Some ([115; 99; 97; 108; 101], true, Some n_1dot) /\
  to_long n_scale = Some ([115; 99; 97; 108; 101], true, None) /\
  lookup_long exn [115; 99; 97; 108; 101] = Some exn_scale /\ negnum_value exn_scale n_1dot /\
  (exists x0, react exn (Some ILong) SCmdLine exn_scale [n_1dot] None ps_new = ROk x0) /\
  short_site exn ls_top n_s_1dot /\ short_site exn ls_top n_s /\
  to_short n_s_1dot = Some [115; 45; 49; 46] /\ sf_next [115; 45; 49; 46] = Some (inl 115, n_1dot) /\
  to_short n_s = Some [115] /\ sf_next [115] = Some (inl 115, []) /\ get_short exn 115 = Some exn_scale /\
  out_ok (parse_top exn_cmd [[112]; n_scale; n_1dot; [120]]) = true /\
  parse_top exn_cmd [[112]; n_scale; n_1dot; [120]] = parse_top exn_cmd [[112]; n_scale_eq_1dot; [120]] /\
  parse_top exn_cmd [[112]; n_s; n_1dot; [120]] = parse_top exn_cmd [[112]; n_s_1dot; [120]].
Proof.
  assert (NV : negnum_value exn_scale n_1dot).
  { split; [vm_compute; reflexivity|]. split; [eexists; split; vm_compute; reflexivity|vm_compute; reflexivity]. }
  assert (SS : forall t, possible_subcommand exn t false = None -> short_site exn ls_top t).
  { intros t H. split; [reflexivity|]. split; [reflexivity|]. split; [vm_compute; auto|exact H]. }
  split; [vm_compute; reflexivity|]. split; [vm_compute; reflexivity|]. split; [vm_compute; reflexivity|].
  split; [vm_compute; auto|]. split; [vm_compute; auto|].
  split; [vm_compute; reflexivity|]. split; [vm_compute; reflexivity|]. split; [vm_compute; reflexivity|].
  split; [exact NV|]. split; [eexists; vm_compute; reflexivity|].
  split; [apply SS; vm_compute; reflexivity|]. split; [apply SS; vm_compute; reflexivity|].
  split; [vm_compute; reflexivity|]. split; [vm_compute; reflexivity|].
  split; [vm_compute; reflexivity|]. split; [vm_compute; reflexivity|]. split; [vm_compute; reflexivity|].
  split; [vm_compute; reflexivity|]. split; vm_compute; reflexivity.
Qed.
