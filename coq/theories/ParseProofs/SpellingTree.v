(** Property C08: a rewritten occurrence ANYWHERE in the line -- behind an arbitrary prefix, at any level of
    the subcommand tree -- and compositions of rewrites.

    [lvl_equiv c r1 r2]: one level of [get_matches_with] cannot tell the loop results [r1], [r2] apart
    (both bisimulation relations, [res_rel] and [dd_rel], imply it).
    [occ_at TX TY c pre st0]: on the line [pre ++ TX] the loop of level [c] runs through [pre] and reaches a
    state at which [TX] and [TY] are level-equivalent ([occ_here]), or it leaves the level inside [pre] through
    a subcommand name / long flag and the same holds one level down for the unread part of [pre]
    ([occ_below]).  [respell_tree]: then [get_matches_with] agrees on [pre ++ TX] and [pre ++ TY];
    [respell_top]: so does [parse_top]; [respell_chain_top]: and so does any chain of such rewrites. *)
From ClapModel Require Import Base.Bytes Base.Machine Base.Utf8 Lex.OsStrExtModel.
From ClapModel Require Import Parse.Cmd Parse.Build Parse.Valid Parse.Matcher Parse.Errors Parse.Validator Parse.Parser.
From ClapModel Require Import ParseProofs.Safe ParseProofs.Spelling ParseProofs.Actions ParseProofs.ActionsLoop ParseProofs.Dispatch.
From ClapModel Require Import ParseProofs.SpellingLine ParseProofs.SpellingStep ParseProofs.SpellingDash.
From Coq Require Import ZArith Lia List Bool.
From RecordUpdate Require Import RecordSet.
Import RecordSetNotations.
Import ListNotations.
Open Scope N_scope.

(** ** level equivalence of loop results *)
Definition lvl_equiv (c : cmd) (r1 r2 : res loop_res) : Prop :=
  forall f, gmw_rel (post c (do lr <- r1; dispatch_lr c f lr)) (post c (do lr <- r2; dispatch_lr c f lr)).

Lemma gmw_rel_sym r1 r2 : gmw_rel r1 r2 -> gmw_rel r2 r1.
Proof. destruct r1, r2; cbn; intros H; try discriminate H; try (symmetry; exact H). Qed.

Lemma gmw_rel_trans r1 r2 r3 : gmw_rel r1 r2 -> gmw_rel r2 r3 -> gmw_rel r1 r3.
Proof.
  destruct r1, r2; cbn; intros H; try discriminate H; destruct r3; cbn; intros H'; try discriminate H';
    try (rewrite H; exact H').
Qed.

Lemma lvl_refl c r : lvl_equiv c r r.
Proof. intros f. apply gmw_rel_refl. Qed.

Lemma lvl_of_eq c r1 r2 : r1 = r2 -> lvl_equiv c r1 r2.
Proof. intros ->. apply lvl_refl. Qed.

Lemma lvl_sym c r1 r2 : lvl_equiv c r1 r2 -> lvl_equiv c r2 r1.
Proof. intros H f. apply gmw_rel_sym. apply H. Qed.

Lemma lvl_trans c r1 r2 r3 : lvl_equiv c r1 r2 -> lvl_equiv c r2 r3 -> lvl_equiv c r1 r3.
Proof. intros H1 H2 f. eapply gmw_rel_trans; [apply H1|apply H2]. Qed.

Lemma lvl_of_res_rel c r1 r2 : is_set s_ignore_errors c = false -> res_rel c r1 r2 -> lvl_equiv c r1 r2.
Proof. intros IE H f. apply gmw_of_loops; assumption. Qed.

Lemma lvl_of_dd_rel c r1 r2 : is_set s_ignore_errors c = false -> is_set s_dont_delimit_trailing c = false ->
  dd_rel r1 r2 -> lvl_equiv c r1 r2.
Proof. intros IE D H f. apply dd_dispatch; assumption. Qed.

(** ** the occurrence somewhere in the tree *)
Section Tree.
Variables TX TY : list bytes.

Inductive occ_at : cmd -> list bytes -> ps -> Prop :=
| occ_here c pre st0 ls' st' :
    la_eq c TX TY ->
    run c pre TX ls_top st0 = inl (ls', st') ->
    lvl_equiv c (parse_loop c TX ls' st') (parse_loop c TY ls' st') ->
    occ_at c pre st0
| occ_below c pre st0 n vaf st tok pre' sc0 sc :
    la_eq c TX TY -> is_set s_ignore_errors c = false ->
    run c pre TX ls_top st0 = inr (XSub n false vaf st, tok, pre') ->
    find_subcommand c n = Some sc0 -> build_subcommand c (c_name sc0) = Some sc ->
    occ_at sc pre' ps_new ->
    occ_at c pre st0.

Lemma after_sub_congr f c n vaf st r1 r2 sc0 sc :
  is_set s_ignore_errors c = false ->
  find_subcommand c n = Some sc0 -> build_subcommand c (c_name sc0) = Some sc ->
  gmw_rel (get_matches_with f sc r1 ps_new) (get_matches_with f sc r2 ps_new) ->
  after_sub f c n false vaf st r1 = after_sub f c n false vaf st r2.
Proof.
  intros IE FS BS G. unfold after_sub. destruct (is_set s_args_negate_subs c && vaf); [reflexivity|].
  rewrite FS. cbn [expect rbind]. rewrite BS. destruct (negb (assert_app sc)); [reflexivity|].
  cbn [sub_init]. rewrite IE.
  destruct (get_matches_with f sc r1 ps_new) as [a|e a|k];
  destruct (get_matches_with f sc r2 ps_new) as [b|e' b|k']; cbn [gmw_rel] in G; try discriminate G.
  - inversion G; reflexivity.
  - subst e'. reflexivity.
  - inversion G; reflexivity.
Qed.

Theorem respell_tree : forall c pre st0, occ_at c pre st0 ->
  forall f, gmw_rel (get_matches_with f c (pre ++ TX) st0) (get_matches_with f c (pre ++ TY) st0).
Proof.
  induction 1 as [c pre st0 ls' st' LA R E|c pre st0 n vaf st tok pre' sc0 sc LA IE R FS BS O IH]; intros f.
  - destruct f as [|f]; [apply gmw_rel_refl|].
    rewrite !gmw_unfold, !parsed_of_dispatch. change (mkL PSValuesDone 1 false false) with ls_top.
    rewrite !run_split, <- (run_la c pre TX TY ls_top st0 LA), R. apply E.
  - destruct f as [|f]; [apply gmw_rel_refl|].
    rewrite !gmw_unfold, !parsed_of_dispatch. change (mkL PSValuesDone 1 false false) with ls_top.
    rewrite !run_split, <- (run_la c pre TX TY ls_top st0 LA), R. cbn [exit_res rbind dispatch_lr].
    rewrite (after_sub_congr f c n vaf st (pre' ++ TX) (pre' ++ TY) sc0 sc IE FS BS (IH f)).
    apply gmw_rel_refl.
Qed.

Theorem respell_top c0 bin pre :
  is_set s_no_binary_name c0 = false ->
  let c := build_self (top_cmd c0 bin) in
  is_set s_ignore_errors c = false -> occ_at c pre ps_new ->
  parse_top c0 (bin :: pre ++ TX) = parse_top c0 (bin :: pre ++ TY).
Proof.
  intros NB c IE O. unfold parse_top. rewrite NB.
  apply (do_parse_of_gmw (top_cmd c0 bin) _ _ IE). intros f. apply (respell_tree c pre ps_new O).
Qed.
End Tree.

(** the relation is symmetric in the two spellings *)
Lemma occ_at_sym TX TY : forall c pre st0, occ_at TX TY c pre st0 -> occ_at TY TX c pre st0.
Proof.
  induction 1 as [c pre st0 ls' st' LA R E|c pre st0 n vaf st tok pre' sc0 sc LA IE R FS BS O IH].
  - apply (occ_here TY TX c pre st0 ls' st'); [apply la_eq_sym; exact LA| |apply lvl_sym; exact E].
    rewrite <- (run_la c pre TX TY ls_top st0 LA). exact R.
  - apply (occ_below TY TX c pre st0 n vaf st tok pre' sc0 sc); try assumption; [apply la_eq_sym; exact LA|].
    rewrite <- (run_la c pre TX TY ls_top st0 LA). exact R.
Qed.

(** ** compositions: any chain of rewrites, each applicable to the line produced by the previous ones *)
Inductive respell_chain (c : cmd) : list bytes -> list bytes -> Prop :=
| chain_nil L : respell_chain c L L
| chain_step pre TX TY L : occ_at TX TY c pre ps_new -> respell_chain c (pre ++ TY) L -> respell_chain c (pre ++ TX) L.

Theorem respell_chain_top c0 bin L L' :
  is_set s_no_binary_name c0 = false ->
  let c := build_self (top_cmd c0 bin) in
  is_set s_ignore_errors c = false -> respell_chain c L L' ->
  parse_top c0 (bin :: L) = parse_top c0 (bin :: L').
Proof.
  intros NB c IE H. induction H as [L|pre TX TY L O _ IH]; [reflexivity|].
  rewrite <- IH. apply (respell_top TX TY c0 bin pre NB IE O).
Qed.

(** ** the spelling theorems as level equivalences at the state the prefix leads to *)
Section Instances.
Variable c : cmd.
Hypothesis IE : is_set s_ignore_errors c = false.

(** look-ahead: two tokens that are both flags (long or short looking) are both "a new argument" *)
Definition flag_tok (t : bytes) : Prop := is_escape t = false /\ (to_long t <> None \/ to_short t <> None).

Lemma short_is_short t : to_short t <> None -> is_short t = true.
Proof.
  unfold to_short, is_short, is_stdio, strip_prefix, DASH.
  destruct t as [|x t]; [intros H; exfalso; apply H; reflexivity|].
  cbn [starts_with length skipn beq].
  destruct (x =? 45); cbn [andb]; [|intros H; exfalso; apply H; reflexivity].
  destruct t as [|y t]; [cbn; intros H; exfalso; apply H; reflexivity|].
  cbn [starts_with beq is_nil].
  destruct (y =? 45); cbn [andb negb]; [intros H; exfalso; apply H; destruct t; reflexivity|]. reflexivity.
Qed.

Lemma flag_tok_new t : flag_tok t -> is_long t = true \/ is_short t = true.
Proof.
  intros [E [H|H]].
  - left. unfold is_long. rewrite E. unfold to_long, strip_prefix in H.
    destruct (starts_with t [DASH; DASH]); [reflexivity|]. exfalso. apply H. reflexivity.
  - right. apply short_is_short. exact H.
Qed.

Lemma is_new_arg_flags t1 t2 a : flag_tok t1 -> flag_tok t2 ->
  pa_is_negative_number t1 = pa_is_negative_number t2 ->
  is_new_arg c t1 a = is_new_arg c t2 a.
Proof.
  intros F1 F2 NN. unfold is_new_arg. destruct (find_arg c (a_id a)) as [a0|]; cbn [expect rbind]; [|reflexivity].
  rewrite NN. destruct (a_hyphen a0 || (a_negnum a0 && pa_is_negative_number t2)); [reflexivity|].
  destruct (flag_tok_new t1 F1) as [L1|S1]; destruct (flag_tok_new t2 F2) as [L2|S2];
    rewrite ?L1, ?L2; try reflexivity.
  - rewrite S2. destruct (is_long t2); reflexivity.
  - rewrite S1. destruct (is_long t1); reflexivity.
  - rewrite S1, S2. destruct (is_long t1), (is_long t2); reflexivity.
Qed.

(** two flag-looking first tokens that are not subcommand names: the look-ahead does not distinguish them *)
Lemma la_flags t1 t2 r1 r2 : flag_tok t1 -> flag_tok t2 ->
  pa_is_negative_number t1 = pa_is_negative_number t2 ->
  possible_subcommand c t1 false = None -> possible_subcommand c t2 false = None ->
  la_eq c (t1 :: r1) (t2 :: r2).
Proof.
  intros F1 F2 NN P1 P2 ls. unfold pos_counter. cbv zeta.
  rewrite (possible_subcommand_vaf c t1 (l_vaf ls) P1), (possible_subcommand_vaf c t2 (l_vaf ls) P2).
  destruct (find _ (positionals c)) as [a|]; [|reflexivity].
  rewrite (is_new_arg_flags t1 t2 a F1 F2 NN). reflexivity.
Qed.

(** a level without look-ahead: no low-index multiples, no [allow_missing_positional] *)
Definition no_lookahead : Prop :=
  is_set s_allow_missing_pos c = false /\
  (existsb (fun a => a_is_multiple a && negb (positional_count c =? opt_default 0 (a_index a))) (positionals c)
   && match last (map Some (positionals c)) None with Some p => negb (a_last p) | None => false end) = false.

Lemma la_none r1 r2 : no_lookahead -> la_eq c r1 r2.
Proof.
  intros [AM LI] ls. unfold pos_counter. cbv zeta. rewrite AM. cbn [andb orb].
  rewrite <- !andb_assoc, LI, !andb_false_r. cbn [orb andb]. reflexivity.
Qed.
End Instances.

(** ** subcommand alias / inferred prefix vs canonical name *)
Section SubNames.
Variable c : cmd.

Lemma possible_subcommand_some_negate tok vaf n : possible_subcommand c tok vaf = Some n ->
  (is_set s_args_negate_subs c && vaf) = false.
Proof.
  rewrite possible_subcommand_unfold. destruct (negb (utf8_valid tok)); [discriminate|].
  destruct (is_set s_args_negate_subs c && vaf); [discriminate|reflexivity].
Qed.

(** the loop stops at either spelling with the name the lookup answered *)
Lemma sub_tok_loop tok n rest ls st :
  l_trailing ls = false ->
  (is_set s_sub_precedence c || match l_pst ls with PSValuesDone => true | _ => false end) = true ->
  possible_subcommand c tok (l_vaf ls) = Some n ->
  (beq n s_help && negb (is_set s_disable_help_sub c)) = false ->
  parse_loop c (tok :: rest) ls st = ROk (LSub n false (l_vaf ls) st rest).
Proof.
  intros T TS P NH. rewrite parse_loop_cons. unfold iteration, phase1. rewrite T. cbv zeta.
  rewrite TS, P, NH. reflexivity.
Qed.

(** two spellings of the same subcommand -- names the lookup answers with that [find_subcommand] resolves to
    the same child (alias / canonical name / unique prefix under [infer_subcommands]) *)
Theorem sub_name_respell t1 t2 n1 n2 rest ls st :
  l_trailing ls = false ->
  (is_set s_sub_precedence c || match l_pst ls with PSValuesDone => true | _ => false end) = true ->
  possible_subcommand c t1 (l_vaf ls) = Some n1 -> possible_subcommand c t2 (l_vaf ls) = Some n2 ->
  (beq n1 s_help && negb (is_set s_disable_help_sub c)) = false ->
  (beq n2 s_help && negb (is_set s_disable_help_sub c)) = false ->
  find_subcommand c n1 = find_subcommand c n2 ->
  lvl_equiv c (parse_loop c (t1 :: rest) ls st) (parse_loop c (t2 :: rest) ls st).
Proof.
  intros T TS P1 P2 H1 H2 FS f.
  rewrite (sub_tok_loop t1 n1 rest ls st T TS P1 H1), (sub_tok_loop t2 n2 rest ls st T TS P2 H2).
  cbn [rbind dispatch_lr].
  assert (E : after_sub f c n1 false (l_vaf ls) st rest = after_sub f c n2 false (l_vaf ls) st rest).
  { unfold after_sub. rewrite (possible_subcommand_some_negate t1 (l_vaf ls) n1 P1), FS. reflexivity. }
  rewrite E. apply gmw_rel_refl.
Qed.

(** look-ahead: both spellings are subcommand names (the counter moves on at either) *)
Lemma la_subs t1 t2 r1 r2 :
  (forall vaf, is_some (possible_subcommand c t1 vaf) = is_some (possible_subcommand c t2 vaf)) ->
  is_escape t1 = false -> to_long t1 = None -> to_short t1 = None ->
  is_escape t2 = false -> to_long t2 = None -> to_short t2 = None ->
  la_eq c (t1 :: r1) (t2 :: r2).
Proof.
  intros PS E1 L1 S1 E2 L2 S2 ls. unfold pos_counter. cbv zeta. rewrite (PS (l_vaf ls)).
  destruct (find _ (positionals c)) as [a|]; [|reflexivity].
  rewrite (is_new_arg_plain c t1 a E1 L1 S1), (is_new_arg_plain c t2 a E2 L2 S2). reflexivity.
Qed.

Lemma possible_subcommand_vaf_some tok n vaf : possible_subcommand c tok false = Some n ->
  possible_subcommand c tok vaf = if is_set s_args_negate_subs c && vaf then None else Some n.
Proof.
  rewrite !possible_subcommand_unfold. destruct (negb (utf8_valid tok)); [discriminate|].
  rewrite andb_false_r. destruct (is_set s_args_negate_subs c && vaf); [reflexivity|]. intros H; exact H.
Qed.

Lemma la_subs_some t1 t2 n1 n2 r1 r2 :
  possible_subcommand c t1 false = Some n1 -> possible_subcommand c t2 false = Some n2 ->
  is_escape t1 = false -> to_long t1 = None -> to_short t1 = None ->
  is_escape t2 = false -> to_long t2 = None -> to_short t2 = None ->
  la_eq c (t1 :: r1) (t2 :: r2).
Proof.
  intros P1 P2. apply la_subs. intros vaf.
  rewrite (possible_subcommand_vaf_some t1 n1 vaf P1), (possible_subcommand_vaf_some t2 n2 vaf P2).
  destruct (is_set s_args_negate_subs c && vaf); reflexivity.
Qed.
End SubNames.

(** ** the occurrence behind an arbitrary prefix of its own level: whole lines *)
Theorem respell_anywhere c0 bin pre TX TY ls' st' :
  is_set s_no_binary_name c0 = false ->
  let c := build_self (top_cmd c0 bin) in
  is_set s_ignore_errors c = false -> la_eq c TX TY ->
  run c pre TX ls_top ps_new = inl (ls', st') ->
  lvl_equiv c (parse_loop c TX ls' st') (parse_loop c TY ls' st') ->
  parse_top c0 (bin :: pre ++ TX) = parse_top c0 (bin :: pre ++ TY).
Proof.
  intros NB c IE LA R E. apply (respell_top TX TY c0 bin pre NB IE).
  apply (occ_here TX TY c pre ps_new ls' st' LA R E).
Qed.

(** [--opt=v] vs [--opt v] behind ANY prefix the loop runs through *)
Theorem long_space_vs_eq_anywhere c0 bin pre l v a r tokA tokB rest ls' st' x0 :
  is_set s_no_binary_name c0 = false ->
  let c := build_self (top_cmd c0 bin) in
  is_set s_ignore_errors c = false -> is_set s_sub_precedence c = false ->
  la_eq c (tokA :: rest) (tokB :: v :: rest) ->
  run c pre (tokA :: rest) ls_top ps_new = inl (ls', st') ->
  flag_site c ls' tokA -> flag_site c ls' tokB ->
  to_long tokA = Some (l, true, Some v) -> to_long tokB = Some (l, true, None) ->
  lookup_long c l = Some a -> single_opt c a r -> plain_value a v ->
  react c (Some ILong) SCmdLine a [v] None st' = ROk x0 ->
  parse_top c0 (bin :: pre ++ tokA :: rest) = parse_top c0 (bin :: pre ++ tokB :: v :: rest).
Proof.
  intros NB c IE SP LA R FA FB TA TB LK SO PV RE.
  pose proof (run_fs c pre _ ls_top ps_new ls' st' eq_refl R) as FS.
  apply (respell_anywhere c0 bin pre _ _ ls' st' NB IE LA R).
  apply lvl_sym. apply (lvl_of_res_rel c _ _ IE).
  apply (long_space_vs_eq c l v a r tokA tokB rest ls' st' x0); assumption.
Qed.

(** a cluster vs its flags one by one behind ANY prefix *)
Theorem cluster_vs_singles_anywhere c0 bin pre chs ch0 rest ls' st' :
  is_set s_no_binary_name c0 = false ->
  let c := build_self (top_cmd c0 bin) in
  is_set s_ignore_errors c = false ->
  no_short_subs c -> dash_not_sub c ->
  la_eq c ((45 :: ch0 :: chs) :: rest) (map (fun ch => [45; ch]) (ch0 :: chs) ++ rest) ->
  run c pre ((45 :: ch0 :: chs) :: rest) ls_top ps_new = inl (ls', st') ->
  Forall (flag_ch c) (ch0 :: chs) ->
  l_trailing ls' = false -> l_pst ls' = PSValuesDone -> no_hyphen_pos c (l_pos ls') ->
  parse_top c0 (bin :: pre ++ (45 :: ch0 :: chs) :: rest) =
  parse_top c0 (bin :: pre ++ map (fun ch => [45; ch]) (ch0 :: chs) ++ rest).
Proof.
  intros NB c IE NS DS LA R F T V NH.
  pose proof (run_fs c pre _ ls_top ps_new ls' st' eq_refl R) as FS.
  apply (respell_anywhere c0 bin pre _ _ ls' st' NB IE LA R).
  apply lvl_of_eq. apply (cluster_vs_singles c NS DS chs ch0 rest ls' st' F T V NH FS).
Qed.

(** * Non-vacuity: a chain of five rewrites, four of them inside a subcommand level *)
(** [p [-v] run|rum [-a|--alpha|--alp|-A] [-b] [--opt|-o <v>] [f]], [p sync]; [infer_subcommands] at the root,
    [infer_long_args] in [run] *)
Definition ext_run0 : cmd :=
  (cmd_new [114; 117; 110]) <| c_aliases := [([114; 117; 109], true)] |>
  <| c_set := settings_none <| s_infer_long := true |> |>
  <| c_args := [
       (arg_new [97]) <| a_long := Some [97; 108; 112; 104; 97] |> <| a_aliases := [([97; 108; 112], false)] |> <| a_short := Some 97 |>
                      <| a_short_aliases := [(65, true)] |> <| a_action := Some ASetTrue |>;
       (arg_new [98]) <| a_short := Some 98 |> <| a_action := Some ASetTrue |>;
       (arg_new [111]) <| a_long := Some [111; 112; 116] |> <| a_short := Some 111 |> <| a_action := Some ASet |>;
       (arg_new [102]) <| a_action := Some ASet |> ] |>.
Definition ext_cmd : cmd :=
  (cmd_new [112]) <| c_bin_name := Some [112] |> <| c_set := settings_none <| s_infer_sub := true |> |>
  <| c_args := [ (arg_new [118]) <| a_long := Some [118; 101; 114; 98] |> <| a_short := Some 118 |> <| a_action := Some ASetTrue |> ] |>
  <| c_subs := [ ext_run0; cmd_new [115; 121; 110; 99] ] |>.
Definition ext := build_self ext_cmd.
Definition ext_run : cmd := match build_subcommand ext [114; 117; 110] with Some s => s | None => cmd_new [] end.
Definition ext_opt : arg := nth 2 (c_args ext_run) (arg_new []).
Definition k_v : bytes := [45; 118].
Definition k_ru : bytes := [114; 117].
Definition k_run : bytes := [114; 117; 110].
Definition k_ab : bytes := [45; 97; 98].
Definition k_a : bytes := [45; 97].
Definition k_b : bytes := [45; 98].
Definition k_op_eq : bytes := [45; 45; 111; 112; 61; 119].
Definition k_opt_eq : bytes := [45; 45; 111; 112; 116; 61; 119].
Definition k_opt : bytes := [45; 45; 111; 112; 116].
Definition k_w : bytes := [119].
Definition k_x : bytes := [120].

Example ext_top : build_self (top_cmd ext_cmd [112]) = ext /\ assert_app ext = true /\ valid ext_cmd = true /\
  is_set s_ignore_errors ext = false /\ is_set s_ignore_errors ext_run = false.
Proof. vm_compute. repeat split. Qed.

Lemma ext_la r1 r2 : la_eq ext r1 r2.
Proof. apply la_none. vm_compute. auto. Qed.
Lemma ext_run_la r1 r2 : la_eq ext_run r1 r2.
Proof. apply la_none. vm_compute. auto. Qed.

(** entering [run]: the root loop runs through [-v] and leaves at the name; the child level is [ext_run] *)
Lemma ext_below TX TY pre' : occ_at TX TY ext_run pre' ps_new -> occ_at TX TY ext (k_v :: k_run :: pre') ps_new.
Proof.
  intros H.
  eapply (occ_below TX TY ext (k_v :: k_run :: pre') ps_new k_run _ _ k_run pre' _ ext_run).
  - apply ext_la.
  - vm_compute. reflexivity.
  - cbn [run]. 
    assert (S1 : forall rest, step ext rest k_v ls_top ps_new = SGo (mkL PSValuesDone 1 true false)
              (match step ext [] k_v ls_top ps_new with SGo _ s => s | _ => ps_new end)).
    { intros rest. rewrite (step_la ext rest [] k_v ls_top ps_new (ext_la _ _)). vm_compute. reflexivity. }
    rewrite S1.
    assert (S2 : forall rest st, step ext rest k_run (mkL PSValuesDone 1 true false) st = SExit (XSub k_run false true st)).
    { intros rest st. unfold step, step_with, phase1_s. cbn [l_trailing l_pst l_vaf]. cbv zeta.
      rewrite orb_true_r.
      replace (possible_subcommand ext k_run true) with (Some k_run) by (vm_compute; reflexivity).
      replace (beq k_run s_help && negb (is_set s_disable_help_sub ext)) with false by (vm_compute; reflexivity).
      reflexivity. }
    rewrite S2. reflexivity.
  - vm_compute. reflexivity.
  - vm_compute. reflexivity.
  - exact H.
Qed.

Definition L0 := [k_v; k_ru; k_ab; k_op_eq; k_x].
Definition L5 := [k_v; k_run; k_a; k_b; k_opt; k_w; dd; k_x].

(** step 1, at the root: inferred prefix [ru] vs the name [run] *)
Lemma ext_step1 R : occ_at (k_ru :: R) (k_run :: R) ext [k_v] ps_new.
Proof.
  eapply occ_here; [apply ext_la| |].
  - cbn [run app]. rewrite (step_la ext (k_ru :: R) [] k_v ls_top ps_new (ext_la _ _)). vm_compute. reflexivity.
  - apply (sub_name_respell ext k_ru k_run k_run k_run); vm_compute; reflexivity.
Qed.

(** step 2, inside [run]: the cluster [-ab] vs [-a -b] *)
Lemma ext_step2 R : occ_at (k_ab :: R) (k_a :: k_b :: R) ext_run [] ps_new.
Proof.
  assert (NS : no_short_subs ext_run) by (apply no_short_subs_of_b; vm_compute; reflexivity).
  assert (DS : dash_not_sub ext_run) by (apply dash_not_sub_of_b; vm_compute; reflexivity).
  assert (F : Forall (flag_ch ext_run) [97; 98]).
  { constructor; [|constructor; [|constructor]]; (split; [reflexivity|]); (split; [discriminate|]);
      eexists; split; vm_compute; reflexivity. }
  assert (NH : no_hyphen_pos ext_run 1) by (vm_compute; auto).
  apply (occ_here (k_ab :: R) (k_a :: k_b :: R) ext_run [] ps_new ls_top ps_new (ext_run_la _ _) eq_refl).
  apply lvl_of_eq.
  exact (cluster_vs_singles ext_run NS DS [98] 97 R ls_top ps_new F eq_refl eq_refl NH eq_refl).
Qed.

(** step 3: the inferred prefix [--op=w] vs [--opt=w], behind [-a -b] *)
Lemma ext_step3 : occ_at [k_op_eq; k_x] [k_opt_eq; k_x] ext_run [k_a; k_b] ps_new.
Proof.
  eapply occ_here; [apply ext_run_la|vm_compute; reflexivity|].
  apply lvl_of_eq.
  apply (long_respell ext_run [111; 112] [111; 112; 116] (Some k_w) ext_opt); try (vm_compute; reflexivity);
    vm_compute; auto.
Qed.

(** step 4: [--opt=w] vs [--opt w], behind [-a -b] *)
Lemma ext_step4 : occ_at [k_opt_eq; k_x] [k_opt; k_w; k_x] ext_run [k_a; k_b] ps_new.
Proof.
  eapply occ_here; [apply ext_run_la|vm_compute; reflexivity|].
  apply lvl_sym. apply lvl_of_res_rel; [vm_compute; reflexivity|].
  eapply (long_space_vs_eq ext_run [111; 112; 116] k_w ext_opt r_single k_opt_eq k_opt [k_x]);
    try (vm_compute; reflexivity); try (vm_compute; auto; fail).
  - unfold single_opt. repeat (split; [vm_compute; reflexivity|]). apply opt_id_of_b. vm_compute. reflexivity.
Qed.

(** step 5: an explicit [--] before the positional, behind [-a -b --opt w] *)
Lemma ext_step5 : occ_at [k_x] [dd; k_x] ext_run [k_a; k_b; k_opt; k_w] ps_new.
Proof.
  eapply occ_here; [apply ext_run_la|vm_compute; reflexivity|].
  apply lvl_sym. apply lvl_of_dd_rel; [vm_compute; reflexivity..|].
  apply dash_loop; try (vm_compute; reflexivity).
  - split; [reflexivity|]. split; [intros i; discriminate|]. split; vm_compute; auto.
  - repeat constructor; vm_compute; reflexivity.
Qed.

Example ext_chain : respell_chain ext L0 L5.
Proof.
  unfold L0, L5.
  apply (chain_step ext [k_v] (k_ru :: [k_ab; k_op_eq; k_x]) (k_run :: [k_ab; k_op_eq; k_x])); [apply ext_step1|].
  apply (chain_step ext [k_v; k_run] (k_ab :: [k_op_eq; k_x]) (k_a :: k_b :: [k_op_eq; k_x]));
    [apply (ext_below _ _ []); apply ext_step2|].
  apply (chain_step ext [k_v; k_run; k_a; k_b] [k_op_eq; k_x] [k_opt_eq; k_x]);
    [apply (ext_below _ _ [k_a; k_b]); apply ext_step3|].
  apply (chain_step ext [k_v; k_run; k_a; k_b] [k_opt_eq; k_x] [k_opt; k_w; k_x]);
    [apply (ext_below _ _ [k_a; k_b]); apply ext_step4|].
  apply (chain_step ext [k_v; k_run; k_a; k_b; k_opt; k_w] [k_x] [dd; k_x]);
    [apply (ext_below _ _ [k_a; k_b; k_opt; k_w]); apply ext_step5|].
  apply chain_nil.
Qed.

Example ext_chain_lines :
  out_ok (parse_top ext_cmd ([112] :: L0)) = true /\ parse_top ext_cmd ([112] :: L0) = parse_top ext_cmd ([112] :: L5).
Proof.
  split; [vm_compute; reflexivity|].
  apply (respell_chain_top ext_cmd [112] L0 L5); [reflexivity|vm_compute; reflexivity|].
  replace (build_self (top_cmd ext_cmd [112])) with ext by (vm_compute; reflexivity). exact ext_chain.
Qed.

(** * What the inductive definitions say (pinned inversion principles) *)
Theorem occ_at_meaning TX TY c pre st0 : occ_at TX TY c pre st0 ->
  (forall ls, pos_counter c TX ls = pos_counter c TY ls) /\
  ((exists ls' st', run c pre TX ls_top st0 = inl (ls', st') /\
                    lvl_equiv c (parse_loop c TX ls' st') (parse_loop c TY ls' st')) \/
   (exists n vaf st tok pre' sc0 sc,
      is_set s_ignore_errors c = false /\
      run c pre TX ls_top st0 = inr (XSub n false vaf st, tok, pre') /\
      find_subcommand c n = Some sc0 /\ build_subcommand c (c_name sc0) = Some sc /\
      occ_at TX TY sc pre' ps_new)).
Proof.
  intros H. destruct H as [c pre st0 ls' st' LA R E|c pre st0 n vaf st tok pre' sc0 sc LA IE R FS BS OC].
  - split; [exact LA|]. left. exists ls', st'. auto.
  - split; [exact LA|]. right. exists n, vaf, st, tok, pre', sc0, sc. auto.
Qed.

Theorem respell_chain_meaning c L L' : respell_chain c L L' ->
  L = L' \/ exists pre TX TY, L = pre ++ TX /\ occ_at TX TY c pre ps_new /\ respell_chain c (pre ++ TY) L'.
Proof.
  intros H. destruct H as [L|pre TX TY L OC R]; [left; reflexivity|].
  right. exists pre, TX, TY. auto.
Qed.
