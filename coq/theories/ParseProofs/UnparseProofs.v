(** Property C02, the un-parser theorem at the level of the token loop: simulation proofs.

    [loop_items]: for a conventional built command [c] ([conv c = true]) and every well-formed
    invocation ([wf_items c its = true]), from every clean state
      parse_loop c (render its ++ rest) ls st  =  do st' <- apply_items c its st; parse_loop c rest ls' st'
    (an equality of results, so it also covers the lines on which an occurrence is rejected).
    [flush_items]: flushing the state [apply_items] produces is the fold of [react] over the
    spelling-independent occurrence list [occs c its]. *)
From ClapModel Require Import Base.Bytes Base.Machine Base.Utf8 Lex.OsStrExtModel Lex.OsStrExtProofs.
From ClapModel Require Import Parse.Cmd Parse.Build Parse.Valid Parse.Matcher Parse.Errors Parse.Validator Parse.Parser.
From ClapModel Require Import ParseProofs.Actions ParseProofs.ActionsLoop ParseProofs.Spelling ParseProofs.Unparse.
From Coq Require Import ZArith Lia List Bool.
From RecordUpdate Require Import RecordSet.
Import RecordSetNotations.
Import ListNotations.
Open Scope N_scope.

(** * 1. lexing of rendered tokens *)
Lemma mem_n_in x l : mem_n x l = true <-> In x l.
Proof.
  unfold mem_n. rewrite existsb_exists. split.
  - intros [y [Hy E]]. apply N.eqb_eq in E. subst. exact Hy.
  - intros H. exists x. split; [exact H|apply N.eqb_refl].
Qed.

Lemma no_eq_no_occ n i : mem_n EQ n = false -> ~ occurs_at n [EQ] i.
Proof.
  intros H [a [b [E _]]]. assert (In EQ n) by (rewrite E; apply in_or_app; right; left; reflexivity).
  apply mem_n_in in H0. congruence.
Qed.

Lemma split_eq_none n : mem_n EQ n = false -> split_once n [EQ] = None.
Proof. intros H. apply split_once_none. intros i. apply no_eq_no_occ. exact H. Qed.

Lemma split_eq_some n v : mem_n EQ n = false -> split_once (n ++ EQ :: v) [EQ] = Some (n, v).
Proof.
  intros H. apply split_once_some. split; [reflexivity|].
  intros j Hj [a [b [E La]]].
  assert (In EQ n); [|apply mem_n_in in H0; congruence].
  assert (N1 : nth j (n ++ EQ :: v) 0 = nth j n 0) by (apply app_nth1; exact Hj).
  assert (N2 : nth j (a ++ [EQ] ++ b) 0 = EQ).
  { rewrite app_nth2 by lia. rewrite La, Nat.sub_diag. reflexivity. }
  rewrite E in N1. rewrite N2 in N1. rewrite N1. apply nth_In. exact Hj.
Qed.

Lemma name_ok_parts n : name_ok n = true -> n <> [] /\ utf8_valid n = true /\ mem_n EQ n = false.
Proof.
  unfold name_ok. intros H. apply andb_prop in H. destruct H as [H H3]. apply andb_prop in H. destruct H as [H1 H2].
  split; [|split; [exact H2|]].
  - intros ->. discriminate.
  - destruct (mem_n EQ n); [discriminate|reflexivity].
Qed.

Lemma is_escape_long n : n <> [] -> is_escape (DASH :: DASH :: n) = false.
Proof.
  intros H. unfold is_escape. apply beq_neq. intros E. inversion E. contradiction.
Qed.

Lemma to_long_plain n : name_ok n = true -> to_long (DASH :: DASH :: n) = Some (n, true, None).
Proof.
  intros H. destruct (name_ok_parts n H) as [H1 [H2 H3]]. unfold to_long.
  replace (strip_prefix (DASH :: DASH :: n) [DASH; DASH]) with (Some n) by (symmetry; apply strip_prefix_spec; reflexivity).
  destruct n as [|b t]; [contradiction|]. rewrite split_eq_none by exact H3. rewrite H2. reflexivity.
Qed.

Lemma to_long_eq n v : name_ok n = true -> to_long (DASH :: DASH :: n ++ EQ :: v) = Some (n, true, Some v).
Proof.
  intros H. destruct (name_ok_parts n H) as [H1 [H2 H3]]. unfold to_long.
  replace (strip_prefix (DASH :: DASH :: n ++ EQ :: v) [DASH; DASH]) with (Some (n ++ EQ :: v))
    by (symmetry; apply strip_prefix_spec; reflexivity).
  destruct n as [|b t]; [contradiction|]. cbn [app]. change (b :: t ++ EQ :: v) with ((b :: t) ++ EQ :: v).
  rewrite split_eq_some by exact H3. rewrite H2. reflexivity.
Qed.

Lemma short_ok_parts ch : short_ok ch = true -> scalar ch = true /\ ch <> DASH.
Proof.
  unfold short_ok. intros H. apply andb_prop in H. destruct H as [H1 H2].
  split; [exact H1|]. intros E. apply N.eqb_eq in E. rewrite E in H2. discriminate.
Qed.

(** encoding then decoding one character (the converse of [Utf8.utf8_step_encode]) *)
#[local] Ltac Zify.zify_post_hook ::= Z.to_euclidean_division_equations.
Lemma utf8_step_enc c r : scalar c = true ->
  utf8_step (utf8_encode c ++ r) = Some (c, length (utf8_encode c)).
Proof.
  unfold scalar. intros H. apply andb_prop in H. destruct H as [H1 H2]. apply N.ltb_lt in H1.
  unfold utf8_encode.
  destruct (c <? 128) eqn:E1.
  - cbn [app utf8_step]. rewrite E1. reflexivity.
  - apply N.ltb_ge in E1. destruct (c <? 2048) eqn:E2.
    + apply N.ltb_lt in E2. cbn [app utf8_step length].
      replace (192 + c / 64 <? 128) with false by (symmetry; apply N.ltb_ge; lia).
      replace ((194 <=? 192 + c / 64) && (192 + c / 64 <=? 223)) with true
        by (symmetry; apply andb_true_iff; split; apply N.leb_le; lia).
      unfold cont.
      replace ((128 <=? 128 + c mod 64) && (128 + c mod 64 <=? 191)) with true
        by (symmetry; apply andb_true_iff; split; apply N.leb_le; lia).
      f_equal. f_equal. lia.
    + apply N.ltb_ge in E2. destruct (c <? 65536) eqn:E3.
      * apply N.ltb_lt in E3. cbn [app utf8_step length].
        replace (224 + c / 4096 <? 128) with false by (symmetry; apply N.ltb_ge; lia).
        replace ((194 <=? 224 + c / 4096) && (224 + c / 4096 <=? 223)) with false
          by (symmetry; apply andb_false_iff; right; apply N.leb_gt; lia).
        replace ((224 <=? 224 + c / 4096) && (224 + c / 4096 <=? 239)) with true
          by (symmetry; apply andb_true_iff; split; apply N.leb_le; lia).
        assert (NS : ~ (55296 <= c < 57344)).
        { intros [A B]. apply N.leb_le in A. apply N.ltb_lt in B. rewrite A, B in H2. discriminate. }
        unfold cont.
        replace ((if 224 + c / 4096 =? 224 then 160 else 128) <=? 128 + (c / 64) mod 64) with true
          by (symmetry; apply N.leb_le; destruct (224 + c / 4096 =? 224) eqn:Q; [apply N.eqb_eq in Q|]; lia).
        replace (128 + (c / 64) mod 64 <=? (if 224 + c / 4096 =? 237 then 159 else 191)) with true
          by (symmetry; apply N.leb_le; destruct (224 + c / 4096 =? 237) eqn:Q; [apply N.eqb_eq in Q|]; lia).
        replace ((128 <=? 128 + c mod 64) && (128 + c mod 64 <=? 191)) with true
          by (symmetry; apply andb_true_iff; split; apply N.leb_le; lia).
        cbn [andb]. f_equal. f_equal. lia.
      * apply N.ltb_ge in E3. cbn [app utf8_step length].
        replace (240 + c / 262144 <? 128) with false by (symmetry; apply N.ltb_ge; lia).
        replace ((194 <=? 240 + c / 262144) && (240 + c / 262144 <=? 223)) with false
          by (symmetry; apply andb_false_iff; right; apply N.leb_gt; lia).
        replace ((224 <=? 240 + c / 262144) && (240 + c / 262144 <=? 239)) with false
          by (symmetry; apply andb_false_iff; right; apply N.leb_gt; lia).
        replace ((240 <=? 240 + c / 262144) && (240 + c / 262144 <=? 244)) with true
          by (symmetry; apply andb_true_iff; split; apply N.leb_le; lia).
        unfold cont.
        replace ((if 240 + c / 262144 =? 240 then 144 else 128) <=? 128 + (c / 4096) mod 64) with true
          by (symmetry; apply N.leb_le; destruct (240 + c / 262144 =? 240) eqn:Q; [apply N.eqb_eq in Q|]; lia).
        replace (128 + (c / 4096) mod 64 <=? (if 240 + c / 262144 =? 244 then 143 else 191)) with true
          by (symmetry; apply N.leb_le; destruct (240 + c / 262144 =? 244) eqn:Q; [apply N.eqb_eq in Q|]; lia).
        replace ((128 <=? 128 + (c / 64) mod 64) && (128 + (c / 64) mod 64 <=? 191)) with true
          by (symmetry; apply andb_true_iff; split; apply N.leb_le; lia).
        replace ((128 <=? 128 + c mod 64) && (128 + c mod 64 <=? 191)) with true
          by (symmetry; apply andb_true_iff; split; apply N.leb_le; lia).
        cbn [andb]. f_equal. f_equal. lia.
Qed.

Lemma enc_cons c : exists b t, utf8_encode c = b :: t /\ (c < 128 -> b = c) /\ (128 <= c -> 192 <= b).
Proof.
  unfold utf8_encode. destruct (c <? 128) eqn:E1; [|destruct (c <? 2048); [|destruct (c <? 65536)]];
    eexists; eexists; (split; [reflexivity|]); split; intros H;
    try (apply N.ltb_lt in E1); try (apply N.ltb_ge in E1); try reflexivity; lia.
Qed.

Lemma sf_next_enc ch (r : bytes) : scalar ch = true -> sf_next (utf8_encode ch ++ r) = Some (inl ch, r).
Proof.
  intros H. unfold sf_next. rewrite (utf8_step_enc ch r H).
  destruct (enc_cons ch) as [b [t [E _]]]. rewrite E at 1. cbn [app].
  rewrite skipn_app, skipn_all, Nat.sub_diag. reflexivity.
Qed.
Lemma sf_next_enc0 ch : scalar ch = true -> sf_next (utf8_encode ch) = Some (inl ch, []).
Proof. intros H. rewrite <- (app_nil_r (utf8_encode ch)) at 1. apply sf_next_enc. exact H. Qed.

(** the first byte of a character other than [-] is not [-] *)
Lemma enc_head ch : ch <> DASH -> exists b t, utf8_encode ch = b :: t /\ b <> DASH.
Proof.
  intros Hne. destruct (enc_cons ch) as [b [t [E [H1 H2]]]]. exists b, t. split; [exact E|].
  destruct (N.lt_ge_cases ch 128) as [L|G]; [rewrite (H1 L); exact Hne|]. specialize (H2 G). unfold DASH. lia.
Qed.

(** a token [-x...] whose first character is not [-] *)
Lemma lex_short ch r : ch <> DASH ->
  is_escape (DASH :: ch :: r) = false /\ to_long (DASH :: ch :: r) = None /\ to_short (DASH :: ch :: r) = Some (ch :: r).
Proof.
  intros Hne. assert (E45 : (ch =? 45) = false) by (apply N.eqb_neq; exact Hne).
  split; [|split].
  - unfold is_escape, DASH. cbn [beq]. rewrite E45. reflexivity.
  - unfold to_long, strip_prefix, DASH. cbn [starts_with]. rewrite E45. reflexivity.
  - unfold to_short, strip_prefix, DASH. cbn [starts_with length skipn].
    change ((45 =? 45) && true) with true. cbn iota. cbn [starts_with]. rewrite E45. reflexivity.
Qed.

Lemma value_ok_parts v : value_ok v = true -> is_escape v = false /\ to_long v = None /\ to_short v = None.
Proof.
  unfold value_ok. intros H. apply andb_prop in H. destruct H as [H H3]. apply andb_prop in H. destruct H as [H1 H2].
  destruct (is_escape v); [discriminate|]. destruct (to_long v); [discriminate|]. destruct (to_short v); [discriminate|].
  repeat split.
Qed.

(** a token that does not start with [-] is a value token; so is a lone [-] *)
Lemma value_ok_nodash v : hd 0 v <> DASH -> value_ok v = true.
Proof.
  intros H. destruct v as [|b t]; [reflexivity|]. cbn [hd] in H.
  assert (E : (b =? 45) = false) by (apply N.eqb_neq; exact H).
  unfold value_ok, is_escape, to_long, to_short, strip_prefix, DASH. cbn [beq starts_with]. rewrite E. reflexivity.
Qed.
Lemma value_ok_stdio : value_ok [DASH] = true.
Proof. reflexivity. Qed.

Section Sim.
Variable c : cmd.
Hypothesis Hconv : conv c = true.

Lemma conv_parts : assert_app c = true /\ is_set s_sub_precedence c = false /\ forallb conv_arg (c_args c) = true
  /\ is_set s_allow_missing_pos c = false /\ low_index_multiple c = false.
Proof.
  unfold conv in Hconv.
  apply andb_prop in Hconv. destruct Hconv as [H H5]. apply andb_prop in H. destruct H as [H H4].
  apply andb_prop in H. destruct H as [H H3]. apply andb_prop in H. destruct H as [H1 H2].
  split; [exact H1|]. split; [destruct (is_set s_sub_precedence c); [discriminate|reflexivity]|].
  split; [exact H3|]. split; [destruct (is_set s_allow_missing_pos c); [discriminate|reflexivity]|].
  destruct (low_index_multiple c); [discriminate|reflexivity].
Qed.
Lemma conv_app : assert_app c = true.
Proof. apply conv_parts. Qed.
Lemma conv_sp : is_set s_sub_precedence c = false.
Proof. apply conv_parts. Qed.
Lemma conv_args a : In a (c_args c) ->
  a_hyphen a = false /\ a_negnum a = false /\ a_req_eq a = false /\ a_term a = None.
Proof.
  intros Ha. destruct conv_parts as [_ [_ [H _]]].
  rewrite forallb_forall in H. specialize (H a Ha). unfold conv_arg in H.
  apply andb_prop in H. destruct H as [H _]. apply andb_prop in H. destruct H as [H _].
  apply andb_prop in H. destruct H as [H H4]. apply andb_prop in H. destruct H as [H H3]. apply andb_prop in H. destruct H as [H1 H2].
  destruct (a_hyphen a); [discriminate|]. destruct (a_negnum a); [discriminate|]. destruct (a_req_eq a); [discriminate|].
  destruct (a_term a); [discriminate|]. repeat split.
Qed.
Lemma conv_args_pos a : In a (c_args c) -> a_last a = false /\ a_tva a = false.
Proof.
  intros Ha. destruct conv_parts as [_ [_ [H _]]].
  rewrite forallb_forall in H. specialize (H a Ha). unfold conv_arg in H.
  apply andb_prop in H. destruct H as [H H6]. apply andb_prop in H. destruct H as [_ H5].
  destruct (a_last a); [discriminate|]. destruct (a_tva a); [discriminate|]. split; reflexivity.
Qed.

(** ** lookups return arguments of the command *)
Lemma get_long_in n a : get_long c n = Some a -> In a (c_args c).
Proof.
  unfold get_long. destruct (find _ (keymap c)) as [[k b]|] eqn:E; [|discriminate].
  intros H. inversion H; subst. apply find_some in E. destruct E as [E _]. apply in_keymap in E. apply E.
Qed.
Lemma get_short_in ch a : get_short c ch = Some a -> In a (c_args c).
Proof.
  unfold get_short. destruct (find _ (keymap c)) as [[k b]|] eqn:E; [|discriminate].
  intros H. inversion H; subst. apply find_some in E. destruct E as [E _]. apply in_keymap in E. apply E.
Qed.
Lemma get_pos_in n a : get_pos c n = Some a -> In a (c_args c).
Proof.
  unfold get_pos. destruct (find _ (keymap c)) as [[k b]|] eqn:E; [|discriminate].
  intros H. inversion H; subst. apply find_some in E. destruct E as [E _]. apply in_keymap in E. apply E.
Qed.
Lemma find_arg_in i a : find_arg c i = Some a -> In a (c_args c) /\ a_id a = i.
Proof.
  unfold find_arg. intros H. apply find_some in H. destruct H as [H E]. apply beq_eq in E. auto.
Qed.
Lemma find_arg_self a : In a (c_args c) -> find_arg c (a_id a) = Some a.
Proof.
  intros Ha. destruct (find_arg c (a_id a)) as [b|] eqn:E.
  - destruct (find_arg_in _ _ E) as [Hb Eb]. f_equal. apply (ids_unique c b a conv_app Hb Ha Eb).
  - unfold find_arg in E. pose proof (find_none _ _ E a Ha) as N. cbn beta in N. rewrite beq_refl in N. discriminate.
Qed.

(** ** the parse state between items *)
Definition pst_ok (pst : pstate_t) : Prop :=
  match pst with PSValuesDone => True | PSOpt i | PSPos i => exists a, find_arg c i = Some a end.

Lemma state_arg_ok pst : pst_ok pst ->
  exists sa, state_arg c pst = ROk sa /\
    match sa with Some a => a_hyphen a = false /\ a_negnum a = false | None => True end.
Proof.
  destruct pst as [|i|i]; cbn [pst_ok state_arg].
  - intros _. exists None. split; [reflexivity|exact I].
  - intros [a Ha]. rewrite Ha. cbn [expect rbind]. exists (Some a). split; [reflexivity|].
    destruct (find_arg_in _ _ Ha) as [Hin _]. destruct (conv_args a Hin) as [H1 [H2 _]]. split; assumption.
  - intros [a Ha]. rewrite Ha. cbn [expect rbind]. exists (Some a). split; [reflexivity|].
    destruct (find_arg_in _ _ Ha) as [Hin _]. destruct (conv_args a Hin) as [H1 [H2 _]]. split; assumption.
Qed.

Lemma opt_pst_ok a k : In a (c_args c) -> pst_ok (opt_pst a k).
Proof.
  intros Ha. unfold opt_pst. destruct (a_num a) as [r|]; [|exact I].
  destruct (r_accepts_more r (N.of_nat k)); [|exact I]. exists a. apply find_arg_self. exact Ha.
Qed.

(** ** the loop on one dash token *)
Lemma nosub_if tok vaf (b : bool) : nosub c tok = true ->
  (if b then possible_subcommand c tok vaf else None) = None.
Proof.
  unfold nosub. intros H. apply andb_prop in H. destruct H as [H1 H2]. destruct b; [|reflexivity].
  destruct vaf; [destruct (possible_subcommand c tok true)|destruct (possible_subcommand c tok false)];
    try reflexivity; discriminate.
Qed.

(** what the loop does after a flag-like token was handled with result [ValuesDone] / [Opt] *)
Definition after_flag_k (rest : list bytes) (pos : N) (x : ps * presult * bool) : res loop_res :=
  match snd (fst x) with
  | PROpt i => parse_loop c rest (mkL (PSOpt i) pos (snd x) false) (fst (fst x))
  | _ => parse_loop c rest (mkL PSValuesDone pos (snd x) false) (fst (fst x))
  end.

Definition done_or_opt (R : res (ps * presult * bool)) : Prop :=
  forall st1 pr vaf1, R = ROk (st1, pr, vaf1) -> pr = PRValuesDone \/ exists i, pr = PROpt i.

Lemma loop_long_tok (tok f : bytes) ok (v : option bytes) (rest : list bytes) pst pos vaf st R :
  nosub c tok = true -> is_escape tok = false -> to_long tok = Some (f, ok, v) ->
  parse_long_arg c f ok v pst pos vaf st = R -> done_or_opt R ->
  parse_loop c (tok :: rest) (mkL pst pos vaf false) st = (do x <- R; after_flag_k rest pos x).
Proof.
  intros Hn He Hl HR Hpr. cbn [parse_loop]. cbn [l_trailing l_pst l_vaf l_pos].
  rewrite (nosub_if tok vaf _ Hn), He, Hl, HR.
  destruct R as [[[st1 pr] vaf1]|e s|n]; cbn [rbind fst snd]; try reflexivity.
  destruct (Hpr _ _ _ eq_refl) as [->|[i ->]]; reflexivity.
Qed.

Lemma loop_short_tok (tok r : bytes) (rest : list bytes) pst pos vaf st R :
  nosub c tok = true -> is_escape tok = false -> to_long tok = None -> to_short tok = Some r ->
  parse_short_arg c r pst pos vaf st = R -> done_or_opt R ->
  parse_loop c (tok :: rest) (mkL pst pos vaf false) st = (do x <- R; after_flag_k rest pos x).
Proof.
  intros Hn He Hl Hs HR Hpr. cbn [parse_loop]. cbn [l_trailing l_pst l_vaf l_pos].
  rewrite (nosub_if tok vaf _ Hn), He, Hl, Hs, HR.
  destruct R as [[[st1 pr] vaf1]|e s|n]; cbn [rbind fst snd]; try reflexivity.
  destruct (Hpr _ _ _ eq_refl) as [->|[i ->]]; reflexivity.
Qed.


(** ** [parse_long_arg] on a known long name *)
Lemma pla_found (f : bytes) (v : option bytes) pst pos vaf st a :
  pst_ok pst -> (f <> [] \/ v <> None) -> get_long c f = Some a ->
  parse_long_arg c f true v pst pos vaf st = parse_long_found c f v pos vaf st (Some a).
Proof.
  intros Hp Hne Hg. rewrite parse_long_arg_unfold.
  destruct (state_arg_ok pst Hp) as [sa [Es Hsa]]. rewrite Es. cbn [rbind].
  assert (E1 : match sa with Some a0 => a_hyphen a0 | None => false end = false).
  { destruct sa as [a0|]; [apply Hsa|reflexivity]. }
  rewrite E1. cbn [negb].
  assert (E2 : is_nil f && negb (is_some v) = false).
  { destruct Hne as [H|H]; [destruct f; [contradiction|reflexivity]|].
    destruct v; [apply andb_false_r|contradiction]. }
  rewrite E2. rewrite (long_exact_wins c f a Hg). reflexivity.
Qed.

Lemma react_done idn a (raw : list bytes) st :
  done_or_opt (do x <- react c (Some idn) SCmdLine a raw None st; ROk (fst x, snd x, true)).
Proof.
  intros st1 pr vaf1. destruct (react c (Some idn) SCmdLine a raw None st) as [[s0 p0]|e s|n] eqn:E; cbn [rbind fst snd]; try discriminate.
  intros H. inversion H; subst. left. apply (react_ok_pr _ _ _ _ _ _ _ _ _ E).
Qed.

(** [--name], a flag *)
Lemma loop_long_flag (n : bytes) a (rest : list bytes) pst pos vaf st :
  pst_ok pst -> nosub c (DASH :: DASH :: n) = true -> name_ok n = true ->
  get_long c n = Some a -> a_takes_value a = false ->
  parse_loop c ((DASH :: DASH :: n) :: rest) (mkL pst pos vaf false) st =
  (do st1 <- flag_step c ILong a st; parse_loop c rest (mkL PSValuesDone pos true false) st1).
Proof.
  intros Hp Hn Hk Hg Htv. destruct (name_ok_parts n Hk) as [Hne _].
  assert (HR : parse_long_arg c n true None pst pos vaf st =
               (do x <- react c (Some ILong) SCmdLine a [] None st; ROk (fst x, snd x, true))).
  { rewrite (pla_found n None pst pos vaf st a Hp (or_introl Hne) Hg). unfold parse_long_found. rewrite Htv. reflexivity. }
  etransitivity; [exact (loop_long_tok _ n true None rest pst pos vaf st _ Hn (is_escape_long n Hne) (to_long_plain n Hk)
                           HR (react_done ILong a [] st))|].
  unfold flag_step.
  destruct (react c (Some ILong) SCmdLine a [] None st) as [[s0 p0]|e s|k] eqn:E; cbn [rbind fst snd]; try reflexivity.
  unfold after_flag_k. cbn [fst snd]. rewrite (react_ok_pr _ _ _ _ _ _ _ _ _ E). reflexivity.
Qed.

(** [--name=value] *)
Lemma loop_long_eq (n v : bytes) a (rest : list bytes) pst pos vaf st :
  pst_ok pst -> nosub c (DASH :: DASH :: n ++ EQ :: v) = true -> name_ok n = true ->
  get_long c n = Some a -> a_takes_value a = true ->
  parse_loop c ((DASH :: DASH :: n ++ EQ :: v) :: rest) (mkL pst pos vaf false) st =
  (do st1 <- att_step c ILong a v st; parse_loop c rest (mkL PSValuesDone pos true false) st1).
Proof.
  intros Hp Hn Hk Hg Htv. destruct (name_ok_parts n Hk) as [Hne _].
  destruct (conv_args a (get_long_in n a Hg)) as [_ [_ [Hre _]]].
  assert (Hesc : is_escape (DASH :: DASH :: n ++ EQ :: v) = false).
  { destruct n as [|b t]; [contradiction|]. apply (is_escape_long ((b :: t) ++ EQ :: v)). discriminate. }
  assert (HR : parse_long_arg c n true (Some v) pst pos vaf st =
               (do x <- react c (Some ILong) SCmdLine a [v] None st; ROk (fst x, PRValuesDone, true))).
  { rewrite (pla_found n (Some v) pst pos vaf st a Hp (or_introl Hne) Hg). unfold parse_long_found. rewrite Htv.
    rewrite parse_opt_value_attached by exact Hre.
    destruct (react c (Some ILong) SCmdLine a [v] None st) as [[s0 p0]|e s|k]; reflexivity. }
  assert (HD : done_or_opt (do x <- react c (Some ILong) SCmdLine a [v] None st; ROk (fst x, PRValuesDone, true))).
  { intros st1 pr vaf1. destruct (react c (Some ILong) SCmdLine a [v] None st) as [[s0 p0]|e s|k]; cbn [rbind]; try discriminate.
    intros H; inversion H; subst. left. reflexivity. }
  etransitivity; [exact (loop_long_tok _ n true (Some v) rest pst pos vaf st _ Hn Hesc (to_long_eq n v Hk) HR HD)|].
  unfold att_step.
  destruct (react c (Some ILong) SCmdLine a [v] None st) as [[s0 p0]|e s|k] eqn:E; cbn [rbind fst snd]; reflexivity.
Qed.

(** [parse_opt_value] without an attached value: flush, then open the occurrence *)
Lemma pov_open idn a st : a_req_eq a = false ->
  parse_opt_value c idn None a false st = (do st1 <- sep_step c idn a [] st; ROk (st1, PROpt (a_id a))).
Proof.
  intros Hre. unfold parse_opt_value, sep_step. rewrite Hre. cbn [andb].
  destruct (resolve_pending c st) as [st1|e s|n] eqn:RP; cbn [rbind]; try reflexivity.
  pose proof (resolve_pending_clears _ _ _ RP) as PN.
  unfold pending_values_push. rewrite PN. cbn [p_id p_ident p_raw p_trailing_idx is_some].
  rewrite beq_refl, ident_eqb_refl. cbn [negb andb expect rbind]. reflexivity.
Qed.

Lemma sep_done idn a st :
  done_or_opt (do x <- (do st1 <- sep_step c idn a [] st; ROk (st1, PROpt (a_id a))); ROk (fst x, snd x, true)).
Proof.
  intros st1 pr vaf1. destruct (sep_step c idn a [] st) as [s0|e s|n]; cbn [rbind fst snd]; try discriminate.
  intros H; inversion H; subst. right. eexists; reflexivity.
Qed.

(** [--name] of an option: the occurrence is opened, the state becomes [Opt] *)
Lemma loop_long_open (n : bytes) a (rest : list bytes) pst pos vaf st :
  pst_ok pst -> nosub c (DASH :: DASH :: n) = true -> name_ok n = true ->
  get_long c n = Some a -> a_takes_value a = true ->
  parse_loop c ((DASH :: DASH :: n) :: rest) (mkL pst pos vaf false) st =
  (do st1 <- sep_step c ILong a [] st; parse_loop c rest (mkL (PSOpt (a_id a)) pos true false) st1).
Proof.
  intros Hp Hn Hk Hg Htv. destruct (name_ok_parts n Hk) as [Hne _].
  destruct (conv_args a (get_long_in n a Hg)) as [_ [_ [Hre _]]].
  assert (HR : parse_long_arg c n true None pst pos vaf st =
               (do x <- (do st1 <- sep_step c ILong a [] st; ROk (st1, PROpt (a_id a))); ROk (fst x, snd x, true))).
  { rewrite (pla_found n None pst pos vaf st a Hp (or_introl Hne) Hg). unfold parse_long_found. rewrite Htv.
    cbn [is_some]. rewrite pov_open by exact Hre. reflexivity. }
  etransitivity; [exact (loop_long_tok _ n true None rest pst pos vaf st _ Hn (is_escape_long n Hne) (to_long_plain n Hk) HR (sep_done ILong a st))|].
  destruct (sep_step c ILong a [] st) as [s0|e s|k]; cbn [rbind fst snd]; reflexivity.
Qed.

(** ** value tokens of an open occurrence *)
Lemma set_pending_again i idn (vs vs' : list bytes) st :
  (set_pending i idn vs st) <| mt := (mt (set_pending i idn vs st)) <| mt_pending := Some (mkPending i (Some idn) vs' None) |> |>
  = set_pending i idn vs' st.
Proof. destruct st as [m ci fa fk]. destruct m. reflexivity. Qed.

Lemma take_value_open a idn (vs : list bytes) (v : bytes) st r : In a (c_args c) -> a_num a = Some r ->
  take_value c (a_id a) v (set_pending (a_id a) idn vs st) =
  ROk (set_pending (a_id a) idn (vs ++ [v]) st, r_accepts_more r (N.of_nat (length (vs ++ [v])))).
Proof.
  intros Ha Hr. unfold take_value. rewrite (find_arg_self a Ha). cbn [expect rbind].
  assert (PV : pending_values_push (mt (set_pending (a_id a) idn vs st)) (a_id a) None false (Some v) =
               Some ((mt (set_pending (a_id a) idn vs st)) <| mt_pending := Some (mkPending (a_id a) (Some idn) (vs ++ [v]) None) |>)).
  { unfold pending_values_push, set_pending. destruct st as [m ci fa fk]. destruct m. cbn. rewrite beq_refl. reflexivity. }
  rewrite PV. cbn [expect rbind]. unfold needs_more_vals. rewrite Hr.
  replace (mt_pending ((mt (set_pending (a_id a) idn vs st)) <| mt_pending := Some (mkPending (a_id a) (Some idn) (vs ++ [v]) None) |>))
    with (Some (mkPending (a_id a) (Some idn) (vs ++ [v]) None)) by (destruct st as [m ci fa fk]; destruct m; reflexivity).
  cbn [p_id p_raw]. rewrite beq_refl. cbn [expect rbind]. rewrite set_pending_again. reflexivity.
Qed.

Lemma loop_values a idn r (rest : list bytes) pos vaf st : In a (c_args c) -> a_num a = Some r ->
  forall (vs vs0 : list bytes), forallb value_ok vs = true ->
  N.of_nat (length vs0 + length vs) <= vmax r -> N.of_nat (length vs0) < vmax r ->
  parse_loop c (vs ++ rest) (mkL (PSOpt (a_id a)) pos vaf false) (set_pending (a_id a) idn vs0 st) =
  parse_loop c rest (mkL (opt_pst a (length vs0 + length vs)) pos vaf false) (set_pending (a_id a) idn (vs0 ++ vs) st).
Proof.
  intros Ha Hr. destruct (conv_args a Ha) as [_ [_ [_ Hterm]]].
  induction vs as [|v vs IH]; intros vs0 Hv Hc Hlt.
  - cbn [app length]. rewrite Nat.add_0_r, app_nil_r. unfold opt_pst. rewrite Hr. unfold r_accepts_more.
    apply N.ltb_lt in Hlt. rewrite Hlt. reflexivity.
  - cbn [forallb] in Hv. apply andb_prop in Hv. destruct Hv as [Hv Hvs].
    destruct (value_ok_parts v Hv) as [E1 [E2 E3]].
    cbn [app]. rewrite (parse_loop_value_step c v (vs ++ rest) pos vaf _ (a_id a) conv_sp E1 E2 E3).
    rewrite (find_arg_self a Ha). cbn [expect rbind]. unfold check_terminator. rewrite Hterm.
    rewrite (take_value_open a idn vs0 v st r Ha Hr). cbn [rbind fst snd].
    cbn [length] in Hc.
    assert (L : length (vs0 ++ [v]) = S (length vs0)) by (rewrite app_length; cbn [length]; lia).
    destruct vs as [|v' vs'].
    + cbn [app length]. unfold opt_pst. rewrite Hr. rewrite L. replace (length vs0 + 1)%nat with (S (length vs0)) by lia.
      rewrite ?app_nil_r. reflexivity.
    + assert (Hm : r_accepts_more r (N.of_nat (length (vs0 ++ [v]))) = true).
      { unfold r_accepts_more. apply N.ltb_lt. rewrite L. cbn [length] in Hc. lia. }
      rewrite Hm. rewrite (IH (vs0 ++ [v]) Hvs).
      * rewrite L, <- app_assoc. cbn [app length]. replace (S (length vs0) + S (length vs'))%nat with (length vs0 + S (S (length vs')))%nat by lia.
        reflexivity.
      * rewrite L. cbn [length] in *. lia.
      * rewrite L. cbn [length] in Hc. lia.
Qed.

(** [--name V1 .. Vk] *)
Lemma count_ok_parts a k : a_takes_value a = true -> count_ok a k = true ->
  exists r, a_num a = Some r /\ N.of_nat k <= vmax r /\ 0 < vmax r.
Proof.
  unfold count_ok, a_takes_value. destruct (a_num a) as [r|]; [|discriminate].
  cbn [opt_default]. unfold r_takes_values. intros H1 H2. exists r. split; [reflexivity|].
  split; [apply N.leb_le; exact H2|]. destruct (vmax r =? 0) eqn:E; [discriminate|]. apply N.eqb_neq in E. lia.
Qed.

Lemma sep_step_values idn a (vs : list bytes) st (rest : list bytes) pos vaf :
  In a (c_args c) -> a_takes_value a = true -> count_ok a (length vs) = true -> forallb value_ok vs = true ->
  (do st1 <- sep_step c idn a [] st; parse_loop c (vs ++ rest) (mkL (PSOpt (a_id a)) pos vaf false) st1) =
  (do st1 <- sep_step c idn a vs st; parse_loop c rest (mkL (opt_pst a (length vs)) pos vaf false) st1).
Proof.
  intros Ha Htv Hc Hv. destruct (count_ok_parts a _ Htv Hc) as [r [Hr [Hle Hpos]]].
  unfold sep_step. destruct (resolve_pending c st) as [st1|e s|n]; cbn [rbind]; try reflexivity.
  rewrite (loop_values a idn r rest pos vaf st1 Ha Hr vs [] Hv); cbn [length app Nat.add]; try assumption. reflexivity.
Qed.

Lemma loop_long_sep (n : bytes) (vs : list bytes) a (rest : list bytes) pst pos vaf st :
  pst_ok pst -> nosub c (DASH :: DASH :: n) = true -> name_ok n = true ->
  get_long c n = Some a -> sep_ok (Some a) vs = true ->
  parse_loop c (((DASH :: DASH :: n) :: vs) ++ rest) (mkL pst pos vaf false) st =
  (do st1 <- sep_step c ILong a vs st; parse_loop c rest (mkL (opt_pst a (length vs)) pos true false) st1).
Proof.
  intros Hp Hn Hk Hg Hs. unfold sep_ok in Hs. apply andb_prop in Hs. destruct Hs as [Hs Hv]. apply andb_prop in Hs. destruct Hs as [Htv Hc].
  cbn [app]. etransitivity; [exact (loop_long_open n a (vs ++ rest) pst pos vaf st Hp Hn Hk Hg Htv)|].
  apply sep_step_values; try assumption. apply (get_long_in n a Hg).
Qed.


(** ** short clusters *)
Definition tail_bytes (t : ctail) : bytes :=
  match t with
  | TNone => []
  | TAtt o v => utf8_encode o ++ v
  | TEq o v => utf8_encode o ++ EQ :: v
  | TSep o _ => utf8_encode o
  end.
Definition tail_vals (t : ctail) : list bytes := match t with TSep _ vs => vs | _ => [] end.

Lemma render_cluster fl t : render_item (ItCluster fl t) = (DASH :: enc_shorts fl ++ tail_bytes t) :: tail_vals t.
Proof. destruct t; cbn [render_item tail_bytes tail_vals]; rewrite ?app_nil_r; reflexivity. Qed.

Lemma psa_start (r : bytes) pst pos vaf st : pst_ok pst -> fs_skip st = 0 ->
  parse_short_arg c r pst pos vaf st = short_loop c (S (length r)) r PRNoArg vaf st.
Proof.
  intros Hp Hskip. unfold parse_short_arg.
  destruct (state_arg_ok pst Hp) as [sa [Es Hsa]]. rewrite Es. cbn [rbind].
  assert (E1 : match sa with Some a => a_hyphen a || (a_negnum a && sf_is_negative_number r) | None => false end = false).
  { destruct sa as [a0|]; [|reflexivity]. destruct Hsa as [H1 H2]. rewrite H1, H2. reflexivity. }
  rewrite E1.
  assert (E2 : match get_pos c pos with Some a => a_negnum a | None => false end = false).
  { destruct (get_pos c pos) as [a0|] eqn:G; [|reflexivity]. apply (conv_args a0 (get_pos_in _ _ G)). }
  rewrite E2. cbn [andb].
  assert (E3 : match get_pos c pos with Some a => a_hyphen a && negb (a_last a) | None => false end = false).
  { destruct (get_pos c pos) as [a0|] eqn:G; [|reflexivity]. destruct (conv_args a0 (get_pos_in _ _ G)) as [H _]. rewrite H. reflexivity. }
  rewrite E3. cbn [andb].
  rewrite Hskip. rewrite N.min_0_l. cbn [N.to_nat sf_advance_by expect rbind].
  assert (Est : st <| fs_skip := 0 |> = st) by (destruct st; cbn in Hskip; subst; reflexivity).
  rewrite Est. reflexivity.
Qed.

Definition cl_flag (ch : N) : bool := short_ok ch && is_flag (get_short c ch).

Lemma cl_flag_parts ch : cl_flag ch = true ->
  scalar ch = true /\ ch <> DASH /\ exists a, get_short c ch = Some a /\ a_takes_value a = false.
Proof.
  unfold cl_flag. intros H. apply andb_prop in H. destruct H as [H1 H2].
  destruct (short_ok_parts ch H1) as [L D]. split; [exact L|]. split; [exact D|].
  unfold is_flag in H2. destruct (get_short c ch) as [a|]; [|discriminate]. exists a. split; [reflexivity|].
  destruct (a_takes_value a); [discriminate|reflexivity].
Qed.

Lemma short_loop_flags : forall fl (tl : bytes) fuel ret vaf st,
  forallb cl_flag fl = true -> (length (enc_shorts fl ++ tl) < fuel)%nat ->
  short_loop c fuel (enc_shorts fl ++ tl) ret vaf st =
  (do st' <- flags_step c fl st;
   short_loop c (S (length tl)) tl (if is_nil fl then ret else PRValuesDone) (if is_nil fl then vaf else true) st').
Proof.
  induction fl as [|ch fl IH]; intros tl fuel ret vaf st Hfl Hf.
  - cbn [enc_shorts flat_map app flags_step rbind is_nil]. cbn [enc_shorts flat_map app] in Hf. apply short_loop_fuel; lia.
  - cbn [forallb] in Hfl. apply andb_prop in Hfl. destruct Hfl as [Hch Hfl].
    destruct (cl_flag_parts ch Hch) as [L [_ [a [Hg Htv]]]].
    destruct fuel as [|f]; [cbn in Hf; lia|]. unfold enc_shorts in *. cbn [flat_map] in *. rewrite <- app_assoc in *.
    rewrite (short_loop_flag_step c f _ ch _ a ret vaf st (sf_next_enc ch _ L) Hg Htv).
    cbn [flags_step is_nil]. rewrite Hg. unfold flag_step.
    destruct (react c (Some IShort) SCmdLine a [] None st) as [[s0 p0]|e s|k] eqn:E; cbn [rbind fst snd]; try reflexivity.
    assert (Hlen : (length (flat_map utf8_encode fl ++ tl) < f)%nat).
    { destruct (enc_cons ch) as [b [t0 [Eb _]]]. rewrite Eb in Hf. cbn [app length] in Hf. rewrite app_length in Hf. lia. }
    rewrite IH; [|exact Hfl|exact Hlen].
    rewrite (react_ok_pr _ _ _ _ _ _ _ _ _ E).
    destruct (flags_step c fl s0) as [s1|e s|k]; cbn [rbind]; try reflexivity.
    destruct fl; reflexivity.
Qed.

(** result of the cluster walk at its tail *)
Definition tail_res (t : ctail) (st' : ps) : res (ps * presult * bool) :=
  match t with
  | TNone => ROk (st', PRValuesDone, true)
  | TAtt o v | TEq o v =>
      match get_short c o with
      | Some a => do st1 <- att_step c IShort a v st'; ROk (st1, PRValuesDone, true)
      | None => RPanic 0 end
  | TSep o vs =>
      match get_short c o with
      | Some a => do st1 <- sep_step c IShort a [] st'; ROk (st1, PROpt (a_id a), true)
      | None => RPanic 0 end
  end.

Lemma is_opt_parts (o : option arg) : is_opt o = true -> exists a, o = Some a /\ a_takes_value a = true.
Proof. destruct o as [a|]; [|discriminate]. cbn [is_opt]. intros H. exists a. auto. Qed.
Lemma is_flag_parts (o : option arg) : is_flag o = true -> exists a, o = Some a /\ a_takes_value a = false.
Proof. destruct o as [a|]; [|discriminate]. cbn [is_flag]. intros H. exists a. split; [reflexivity|]. destruct (a_takes_value a); [discriminate|reflexivity]. Qed.
Lemma sep_ok_parts (o : option arg) vs : sep_ok o vs = true -> exists a, o = Some a /\ a_takes_value a = true /\
  count_ok a (length vs) = true /\ forallb value_ok vs = true.
Proof.
  destruct o as [a|]; [|discriminate]. cbn [sep_ok]. intros H. apply andb_prop in H. destruct H as [H H3].
  apply andb_prop in H. destruct H as [H1 H2]. exists a. auto.
Qed.

Lemma short_loop_eq_attached f (r : bytes) ch a (v : bytes) ret vaf st :
  sf_next r = Some (inl ch, EQ :: v) -> get_short c ch = Some a -> a_takes_value a = true -> a_req_eq a = false ->
  short_loop c (S f) r ret vaf st =
  (do x <- react c (Some IShort) SCmdLine a [v] None st; ROk (fst x, PRValuesDone, true)).
Proof.
  intros N GS TV RE. cbn [short_loop]. rewrite N, GS, TV. cbn [negb]. unfold EQ.
  cbv beta iota zeta. rewrite parse_opt_value_attached by exact RE.
  destruct (react c (Some IShort) SCmdLine a [v] None st) as [x|e s|n]; reflexivity.
Qed.

Lemma short_loop_tail t ret vaf st : wf_tail c t = true -> (t = TNone -> ret = PRValuesDone /\ vaf = true) ->
  short_loop c (S (length (tail_bytes t))) (tail_bytes t) ret vaf st = tail_res t st.
Proof.
  intros Hw Hn. destruct t as [|o v|o v|o vs]; cbn [tail_bytes tail_res wf_tail] in *.
  - destruct (Hn eq_refl) as [-> ->]. reflexivity.
  - apply andb_prop in Hw. destruct Hw as [Hw H4]. apply andb_prop in Hw. destruct Hw as [Hw H3]. apply andb_prop in Hw. destruct Hw as [H1 H2].
    destruct (short_ok_parts o H1) as [L _]. destruct (is_opt_parts _ H2) as [a [Hg Htv]]. rewrite Hg.
    destruct (conv_args a (get_short_in o a Hg)) as [_ [_ [Hre _]]].
    destruct v as [|b t]; [discriminate|]. cbn [hd] in H4.
    assert (Hb : b <> 61). { intros ->. discriminate. }
    rewrite (short_loop_opt_attached c _ (utf8_encode o ++ b :: t) o a b t ret vaf st (sf_next_enc o _ L) Hb Hg Htv Hre).
    rewrite parse_opt_value_attached by exact Hre. unfold att_step. unfold bytes in *.
    destruct (react c (Some IShort) SCmdLine a [b :: t] None st) as [x|e s|n]; reflexivity.
  - apply andb_prop in Hw. destruct Hw as [H1 H2].
    destruct (short_ok_parts o H1) as [L _]. destruct (is_opt_parts _ H2) as [a [Hg Htv]]. rewrite Hg.
    destruct (conv_args a (get_short_in o a Hg)) as [_ [_ [Hre _]]].
    rewrite (short_loop_eq_attached _ (utf8_encode o ++ EQ :: v) o a v ret vaf st (sf_next_enc o _ L) Hg Htv Hre).
    unfold att_step. destruct (react c (Some IShort) SCmdLine a [v] None st) as [x|e s|n]; reflexivity.
  - apply andb_prop in Hw. destruct Hw as [H1 H2].
    destruct (short_ok_parts o H1) as [L _]. destruct (sep_ok_parts _ _ H2) as [a [Hg [Htv _]]]. rewrite Hg.
    destruct (conv_args a (get_short_in o a Hg)) as [_ [_ [Hre _]]].
    rewrite (short_loop_opt_alone c _ (utf8_encode o) o a ret vaf st (sf_next_enc0 o L) Hg Htv).
    rewrite pov_open by exact Hre.
    destruct (sep_step c IShort a [] st) as [x|e s|n]; reflexivity.
Qed.

Lemma psa_cluster fl t pst pos vaf st :
  pst_ok pst -> fs_skip st = 0 -> forallb cl_flag fl = true -> wf_tail c t = true ->
  (is_nil fl && match t with TNone => true | _ => false end) = false ->
  parse_short_arg c (enc_shorts fl ++ tail_bytes t) pst pos vaf st = (do st' <- flags_step c fl st; tail_res t st').
Proof.
  intros Hp Hskip Hfl Hw Hne. rewrite (psa_start _ pst pos vaf st Hp Hskip).
  rewrite (short_loop_flags fl (tail_bytes t) _ PRNoArg vaf st Hfl) by lia.
  destruct (flags_step c fl st) as [st'|e s|n]; cbn [rbind]; try reflexivity.
  apply short_loop_tail; [exact Hw|]. intros ->. destruct fl; [discriminate|]. split; reflexivity.
Qed.

Lemma cluster_done fl t st : done_or_opt (do st' <- flags_step c fl st; tail_res t st').
Proof.
  intros st1 pr vaf1. destruct (flags_step c fl st) as [st'|e s|n]; cbn [rbind]; try discriminate.
  destruct t as [|o v|o v|o vs]; cbn [tail_res].
  - intros H; inversion H; left; reflexivity.
  - destruct (get_short c o); [|discriminate]. destruct (att_step c IShort a v st'); cbn [rbind]; try discriminate.
    intros H; inversion H; left; reflexivity.
  - destruct (get_short c o); [|discriminate]. destruct (att_step c IShort a v st'); cbn [rbind]; try discriminate.
    intros H; inversion H; left; reflexivity.
  - destruct (get_short c o); [|discriminate]. destruct (sep_step c IShort a [] st'); cbn [rbind]; try discriminate.
    intros H; inversion H; right; eexists; reflexivity.
Qed.

(** the first character of a cluster token is a short name, hence not [-] *)
Lemma cluster_head fl t : forallb cl_flag fl = true -> wf_tail c t = true ->
  (is_nil fl && match t with TNone => true | _ => false end) = false ->
  exists ch r, enc_shorts fl ++ tail_bytes t = ch :: r /\ ch <> DASH.
Proof.
  intros Hfl Hw Hne. destruct fl as [|ch fl].
  - cbn [enc_shorts flat_map app].
    destruct t as [|o v|o v|o vs]; cbn [tail_bytes app wf_tail] in *; [discriminate| | |].
    + apply andb_prop in Hw. destruct Hw as [Hw _]. apply andb_prop in Hw. destruct Hw as [Hw _]. apply andb_prop in Hw. destruct Hw as [H1 _].
      destruct (enc_head o (proj2 (short_ok_parts o H1))) as [b [t0 [E D]]]. rewrite E. exists b, (t0 ++ v). split; [reflexivity|exact D].
    + apply andb_prop in Hw. destruct Hw as [H1 _].
      destruct (enc_head o (proj2 (short_ok_parts o H1))) as [b [t0 [E D]]]. rewrite E. exists b, (t0 ++ EQ :: v). split; [reflexivity|exact D].
    + apply andb_prop in Hw. destruct Hw as [H1 _].
      destruct (enc_head o (proj2 (short_ok_parts o H1))) as [b [t0 [E D]]]. rewrite E. exists b, t0. split; [reflexivity|exact D].
  - cbn [forallb] in Hfl. apply andb_prop in Hfl. destruct Hfl as [Hch _].
    destruct (cl_flag_parts ch Hch) as [_ [D _]]. destruct (enc_head ch D) as [b [t0 [E Db]]].
    unfold enc_shorts. cbn [flat_map]. rewrite E. exists b, ((t0 ++ flat_map utf8_encode fl) ++ tail_bytes t).
    split; [reflexivity|exact Db].
Qed.

Lemma tail_step_values t st (rest : list bytes) pos : wf_tail c t = true ->
  (do x <- tail_res t st; after_flag_k (tail_vals t ++ rest) pos x) =
  (do st1 <- tail_step c t st; parse_loop c rest (mkL (item_pst c pos (ItCluster [] t)) pos true false) st1).
Proof.
  intros Hw. destruct t as [|o v|o v|o vs]; cbn [tail_res tail_step tail_vals item_pst wf_tail app] in *.
  - reflexivity.
  - apply andb_prop in Hw. destruct Hw as [Hw _]. apply andb_prop in Hw. destruct Hw as [Hw _]. apply andb_prop in Hw. destruct Hw as [_ H2].
    destruct (is_opt_parts _ H2) as [a [Hg _]]. rewrite Hg.
    destruct (att_step c IShort a v st) as [s0|e s|k]; reflexivity.
  - apply andb_prop in Hw. destruct Hw as [_ H2].
    destruct (is_opt_parts _ H2) as [a [Hg _]]. rewrite Hg.
    destruct (att_step c IShort a v st) as [s0|e s|k]; reflexivity.
  - apply andb_prop in Hw. destruct Hw as [_ H2].
    destruct (sep_ok_parts _ _ H2) as [a [Hg [Htv [Hc Hv]]]]. rewrite Hg.
    rewrite <- (sep_step_values IShort a vs st rest pos true (get_short_in o a Hg) Htv Hc Hv).
    destruct (sep_step c IShort a [] st) as [s0|e s|k]; reflexivity.
Qed.

Lemma loop_cluster fl t (rest : list bytes) pst pos vaf st :
  pst_ok pst -> fs_skip st = 0 -> nosub c (DASH :: enc_shorts fl ++ tail_bytes t) = true ->
  forallb cl_flag fl = true -> wf_tail c t = true ->
  (is_nil fl && match t with TNone => true | _ => false end) = false ->
  parse_loop c (render_item (ItCluster fl t) ++ rest) (mkL pst pos vaf false) st =
  (do st1 <- apply_item c pos (ItCluster fl t) st; parse_loop c rest (mkL (item_pst c pos (ItCluster fl t)) pos true false) st1).
Proof.
  intros Hp Hskip Hn Hfl Hw Hne. rewrite render_cluster. cbn [app].
  destruct (cluster_head fl t Hfl Hw Hne) as [ch [r [Er Hd]]].
  destruct (lex_short ch r Hd) as [L1 [L2 L3]]. rewrite <- Er in L1, L2, L3.
  etransitivity; [exact (loop_short_tok _ _ (tail_vals t ++ rest) pst pos vaf st _ Hn L1 L2 L3
                           (psa_cluster fl t pst pos vaf st Hp Hskip Hfl Hw Hne) (cluster_done fl t st))|].
  cbn [apply_item]. destruct (flags_step c fl st) as [st'|e s|n]; cbn [rbind]; try reflexivity.
  rewrite (tail_step_values t st' rest pos Hw). destruct t; reflexivity.
Qed.



(** ** positional values *)
Lemma get_pos_index n a : get_pos c n = Some a -> a_index a = Some n.
Proof.
  unfold get_pos. destruct (find _ (keymap c)) as [[k b]|] eqn:E; [|discriminate].
  intros H. inversion H; subst. apply find_some in E. destruct E as [E F]. cbn [fst] in F.
  destruct k as [x|x|x]; try discriminate. apply N.eqb_eq in F. subst x.
  apply in_keymap in E. destruct E as [_ E]. unfold arg_keys in E. destruct (a_index a) as [k|].
  - destruct E as [E|[]]. inversion E. reflexivity.
  - exfalso. rewrite !in_app_iff in E. destruct E as [E|[E|[E|E]]].
    + destruct (a_short a); [destruct E as [E|[]]; discriminate|destruct E].
    + destruct (a_long a); [destruct E as [E|[]]; discriminate|destruct E].
    + apply in_map_iff in E. destruct E as [y [E _]]. discriminate.
    + apply in_map_iff in E. destruct E as [y [E _]]. discriminate.
Qed.

Definition pos_step_k (a : arg) (v : bytes) (rest : list bytes) (pos : N) (st : ps) : res loop_res :=
  do st1 <- (if negb (match pending_arg_id (mt st) with Some i => beq i (a_id a) | None => false end)
                || negb (a_multiple_values a)
             then resolve_pending c st else ROk st);
  do m1 <- expect 415 (pending_values_push (mt st1) (a_id a) (Some IIndex) false (Some v));
  if negb (a_is_multiple a)
  then parse_loop c rest (mkL PSValuesDone (pos + 1) true false) (st1 <| mt := m1 |>)
  else parse_loop c rest (mkL (PSPos (a_id a)) pos true false) (st1 <| mt := m1 |>).

Lemma pos_branch (v : bytes) (rest : list bytes) pst pos vaf st a :
  match pst with PSOpt _ => False | _ => True end ->
  (match pst with PSValuesDone => nosub c v = true | _ => True end) -> value_ok v = true -> get_pos c pos = Some a ->
  parse_loop c (v :: rest) (mkL pst pos vaf false) st = pos_step_k a v rest pos st.
Proof.
  intros Hp Hn Hv Hg. destruct (value_ok_parts v Hv) as [E1 [E2 E3]].
  destruct conv_parts as [_ [Hsp [_ [Hamp Hlow]]]].
  pose proof (get_pos_in pos a Hg) as Ha.
  destruct (conv_args a Ha) as [_ [_ [_ Hterm]]]. destruct (conv_args_pos a Ha) as [Hlast Htva].
  unfold low_index_multiple in Hlow.
  cbn [parse_loop]. cbn [l_trailing l_pst l_vaf l_pos].
  assert (Hs : (if is_set s_sub_precedence c || match pst with PSValuesDone => true | _ => false end
                then possible_subcommand c v vaf else None) = None).
  { rewrite Hsp. cbn [orb]. destruct pst; try reflexivity. apply (nosub_if v vaf true Hn). }
  rewrite Hs, E1, E2, E3. cbn [rbind]. cbn [l_trailing l_pst l_vaf l_pos].
  unfold pos_step_k.
  destruct pst as [|i|i]; [|contradiction|];
    rewrite Hlow, Hamp, !andb_false_r; cbn [andb orb rbind]; rewrite Hg, Hlast, Htva; cbn [andb orb];
    unfold check_terminator; rewrite Hterm; reflexivity.
Qed.

Lemma get_long_index n a : get_long c n = Some a -> a_index a = None.
Proof.
  unfold get_long. destruct (find _ (keymap c)) as [[k b]|] eqn:E; [|discriminate].
  intros H. inversion H; subst. apply find_some in E. destruct E as [E F]. cbn [fst] in F.
  destruct k as [x|x|x]; try discriminate.
  apply in_keymap in E. destruct E as [_ E]. unfold arg_keys in E. destruct (a_index a) as [k|]; [|reflexivity].
  destruct E as [E|[]]. discriminate.
Qed.
Lemma get_short_index ch a : get_short c ch = Some a -> a_index a = None.
Proof.
  unfold get_short. destruct (find _ (keymap c)) as [[k b]|] eqn:E; [|discriminate].
  intros H. inversion H; subst. apply find_some in E. destruct E as [E F]. cbn [fst] in F.
  destruct k as [x|x|x]; try discriminate.
  apply in_keymap in E. destruct E as [_ E]. unfold arg_keys in E. destruct (a_index a) as [k|]; [|reflexivity].
  destruct E as [E|[]]. discriminate.
Qed.

(** what may be pending between two items: unless a run of a multi-valued positional is open
    ([PSPos]), the pending occurrence is an option's or a one-value positional's *)
Definition pend_inv (pst : pstate_t) (st : ps) : Prop :=
  match pst with
  | PSPos _ => True
  | _ => forall p b, mt_pending (mt st) = Some p -> find_arg c (p_id p) = Some b ->
                     a_index b = None \/ a_multiple_values b = false
  end.

Lemma pos_first (v : bytes) (rest : list bytes) pst pos st a : get_pos c pos = Some a ->
  match pst with PSPos _ => a_multiple_values a = false | _ => True end -> pend_inv pst st ->
  pos_step_k a v rest pos st =
  (do st1 <- sep_step c IIndex a [v] st;
   parse_loop c rest (mkL (if a_is_multiple a then PSPos (a_id a) else PSValuesDone)
                          (if a_is_multiple a then pos else pos + 1) true false) st1).
Proof.
  intros Hg Hp Hi. pose proof (get_pos_in pos a Hg) as Ha.
  assert (Hc : negb (match pending_arg_id (mt st) with Some i => beq i (a_id a) | None => false end)
               || negb (a_multiple_values a) = true).
  { destruct (a_multiple_values a) eqn:Em; [|apply orb_true_r]. rewrite orb_false_r.
    unfold pending_arg_id. destruct (mt_pending (mt st)) as [p|] eqn:Ep; [|reflexivity]. cbn [opt_map].
    destruct (beq (p_id p) (a_id a)) eqn:Eb; [|reflexivity]. apply beq_eq in Eb. exfalso.
    assert (F : find_arg c (p_id p) = Some a) by (rewrite Eb; apply (find_arg_self a Ha)).
    destruct pst as [|i|i]; [| |discriminate Hp];
      (destruct (Hi p a Ep F) as [H|H]; [rewrite (get_pos_index pos a Hg) in H; discriminate H|congruence]). }
  unfold pos_step_k, sep_step. rewrite Hc.
  destruct (resolve_pending c st) as [st1|e s|n] eqn:RP; cbn [rbind]; try reflexivity.
  pose proof (resolve_pending_clears _ _ _ RP) as PN.
  unfold pending_values_push. rewrite PN. cbn [p_id p_ident p_raw p_trailing_idx is_some].
  rewrite beq_refl. cbn [negb andb ident_eqb expect rbind app].
  assert (E : st1 <| mt := (mt st1) <| mt_pending := Some (mkPending (a_id a) (Some IIndex) [v] None) |> |>
              = set_pending (a_id a) IIndex [v] st1) by reflexivity.
  rewrite E. destruct (a_is_multiple a); reflexivity.
Qed.

Lemma pos_more (v : bytes) (rest : list bytes) pos st a (vs0 : list bytes) : a_multiple_values a = true ->
  pos_step_k a v rest pos (set_pending (a_id a) IIndex vs0 st) =
  parse_loop c rest (mkL (PSPos (a_id a)) pos true false) (set_pending (a_id a) IIndex (vs0 ++ [v]) st).
Proof.
  intros Hm. unfold pos_step_k.
  assert (Hmul : a_is_multiple a = true) by (unfold a_is_multiple; rewrite Hm; reflexivity).
  replace (pending_arg_id (mt (set_pending (a_id a) IIndex vs0 st))) with (Some (a_id a))
    by (destruct st as [m ci fa fk]; destruct m; reflexivity).
  rewrite beq_refl, Hm, Hmul. cbn [negb orb rbind].
  assert (PV : pending_values_push (mt (set_pending (a_id a) IIndex vs0 st)) (a_id a) (Some IIndex) false (Some v) =
               Some ((mt (set_pending (a_id a) IIndex vs0 st)) <| mt_pending := Some (mkPending (a_id a) (Some IIndex) (vs0 ++ [v]) None) |>)).
  { unfold pending_values_push, set_pending. destruct st as [m ci fa fk]. destruct m. cbn. rewrite beq_refl. reflexivity. }
  rewrite PV. cbn [expect rbind]. rewrite set_pending_again. reflexivity.
Qed.

Lemma loop_pos_values a (rest : list bytes) pos st : get_pos c pos = Some a -> a_multiple_values a = true ->
  forall (vs vs0 : list bytes), forallb value_ok vs = true ->
  parse_loop c (vs ++ rest) (mkL (PSPos (a_id a)) pos true false) (set_pending (a_id a) IIndex vs0 st) =
  parse_loop c rest (mkL (PSPos (a_id a)) pos true false) (set_pending (a_id a) IIndex (vs0 ++ vs) st).
Proof.
  intros Hg Hm. induction vs as [|v vs IH]; intros vs0 Hv.
  - cbn [app]. rewrite app_nil_r. reflexivity.
  - cbn [forallb] in Hv. apply andb_prop in Hv. destruct Hv as [Hv Hvs]. cbn [app].
    rewrite (pos_branch v (vs ++ rest) (PSPos (a_id a)) pos true _ a I I Hv Hg).
    rewrite (pos_more v (vs ++ rest) pos st a vs0 Hm). rewrite (IH (vs0 ++ [v]) Hvs).
    rewrite <- app_assoc. reflexivity.
Qed.

Lemma pos_ok_parts pst o (vs : list bytes) : pos_ok pst o vs = true ->
  exists a v vs', o = Some a /\ vs = v :: vs' /\ forallb value_ok vs = true /\
    (a_multiple_values a = true \/ vs' = []) /\
    match pst with PSValuesDone => True | PSOpt _ => False | PSPos _ => a_multiple_values a = false end.
Proof.
  destruct o as [a|]; [|discriminate]. cbn [pos_ok]. intros H.
  apply andb_prop in H. destruct H as [H H4]. apply andb_prop in H. destruct H as [H H3]. apply andb_prop in H. destruct H as [H1 H2].
  destruct vs as [|v vs']; [discriminate|]. exists a, v, vs'. split; [reflexivity|]. split; [reflexivity|]. split; [exact H2|]. split.
  - destruct (a_multiple_values a); [left; reflexivity|]. right. cbn [orb length] in H3.
    destruct vs'; [reflexivity|discriminate].
  - destruct pst; [exact I|discriminate|]. destruct (a_multiple_values a); [discriminate|reflexivity].
Qed.

Lemma loop_pos (vs : list bytes) (rest : list bytes) pst pos vaf st :
  pend_inv pst st -> forallb (nosub c) (firstn 1 vs) = true -> pos_ok pst (get_pos c pos) vs = true ->
  parse_loop c (vs ++ rest) (mkL pst pos vaf false) st =
  (do st1 <- apply_item c pos (ItPos vs) st;
   parse_loop c rest (mkL (item_pst c pos (ItPos vs)) (item_pos c pos (ItPos vs)) true false) st1).
Proof.
  intros Hi Hn Hok. destruct (pos_ok_parts _ _ _ Hok) as [a [v [vs' [Hg [-> [Hv [Hm Hp]]]]]]].
  cbn [apply_item item_pst item_pos]. rewrite Hg.
  cbn [firstn forallb] in Hn. apply andb_prop in Hn. destruct Hn as [Hn _].
  cbn [forallb] in Hv. apply andb_prop in Hv. destruct Hv as [Hv Hvs]. cbn [app].
  rewrite (pos_branch v (vs' ++ rest) pst pos vaf st a); [|destruct pst; tauto|destruct pst; tauto|exact Hv|exact Hg].
  rewrite (pos_first v (vs' ++ rest) pst pos st a Hg); [|destruct pst; tauto|exact Hi].
  destruct Hm as [Hm| ->].
  - assert (Hmul : a_is_multiple a = true) by (unfold a_is_multiple; rewrite Hm; reflexivity).
    rewrite Hmul. unfold sep_step. destruct (resolve_pending c st) as [st1|e s|n]; cbn [rbind]; try reflexivity.
    rewrite (loop_pos_values a rest pos st1 Hg Hm vs' [v] Hvs). reflexivity.
  - cbn [app]. reflexivity.
Qed.


(** ** one item, then the whole invocation *)
Lemma resolve_pending_fs st st1 : resolve_pending c st = ROk st1 -> fs_skip st1 = fs_skip st.
Proof.
  unfold resolve_pending. destruct (mt_pending (mt st)) as [p|]; [|intros H; inversion H; reflexivity].
  destruct (find_arg c (p_id p)) as [a|]; cbn [expect rbind]; [|discriminate].
  destruct (react_core c _ _ _ _ _ _) as [[s0 p0]|e s|n] eqn:E; cbn [rbind fst]; try discriminate.
  intros H; inversion H; subst. apply react_core_fs in E. rewrite E. destruct st; reflexivity.
Qed.

Lemma flag_step_fs idn a st st' : flag_step c idn a st = ROk st' -> fs_skip st' = fs_skip st.
Proof.
  unfold flag_step. destruct (react c (Some idn) SCmdLine a [] None st) as [[s0 p0]|e s|n] eqn:E; cbn [rbind fst]; try discriminate.
  intros H; inversion H; subst. apply (react_fs _ _ _ _ _ _ _ _ _ E).
Qed.
Lemma att_step_fs idn a (v : bytes) st st' : att_step c idn a v st = ROk st' -> fs_skip st' = fs_skip st.
Proof.
  unfold att_step. destruct (react c (Some idn) SCmdLine a [v] None st) as [[s0 p0]|e s|n] eqn:E; cbn [rbind fst]; try discriminate.
  intros H; inversion H; subst. apply (react_fs _ _ _ _ _ _ _ _ _ E).
Qed.
Lemma sep_step_fs idn a (vs : list bytes) st st' : sep_step c idn a vs st = ROk st' -> fs_skip st' = fs_skip st.
Proof.
  unfold sep_step. destruct (resolve_pending c st) as [s0|e s|n] eqn:E; cbn [rbind]; try discriminate.
  intros H; inversion H; subst. apply resolve_pending_fs in E. rewrite <- E. destruct s0; reflexivity.
Qed.
Lemma flags_step_fs : forall fl st st', flags_step c fl st = ROk st' -> fs_skip st' = fs_skip st.
Proof.
  induction fl as [|ch fl IH]; intros st st' H; cbn [flags_step] in H; [inversion H; reflexivity|].
  destruct (get_short c ch) as [a|]; [|inversion H; reflexivity].
  destruct (flag_step c IShort a st) as [s0|e s|n] eqn:E; cbn [rbind] in H; try discriminate.
  rewrite (IH _ _ H). apply (flag_step_fs _ _ _ _ E).
Qed.
Lemma apply_item_fs pos it st st' : apply_item c pos it st = ROk st' -> fs_skip st' = fs_skip st.
Proof.
  destruct it as [n|n v|n vs|fl t|vs]; cbn [apply_item].
  - destruct (get_long c n); [apply flag_step_fs|intros H; inversion H; reflexivity].
  - destruct (get_long c n); [apply att_step_fs|intros H; inversion H; reflexivity].
  - destruct (get_long c n); [apply sep_step_fs|intros H; inversion H; reflexivity].
  - destruct (flags_step c fl st) as [s0|e s|n] eqn:E; cbn [rbind]; try discriminate.
    intros H. rewrite <- (flags_step_fs _ _ _ E).
    destruct t as [|o v|o v|o vs]; cbn [tail_step] in H.
    + inversion H; reflexivity.
    + destruct (get_short c o); [apply (att_step_fs _ _ _ _ _ H)|inversion H; reflexivity].
    + destruct (get_short c o); [apply (att_step_fs _ _ _ _ _ H)|inversion H; reflexivity].
    + destruct (get_short c o); [apply (sep_step_fs _ _ _ _ _ H)|inversion H; reflexivity].
  - destruct (get_pos c pos); [apply sep_step_fs|intros H; inversion H; reflexivity].
Qed.

Lemma wf_item_parts pst pos it : wf_item c pst pos it = true ->
  (forall tok l, render_item it = tok :: l -> nosub c tok = true) /\
  match it with
  | ItLong n => name_ok n = true /\ is_flag (get_long c n) = true
  | ItLongEq n v => name_ok n = true /\ is_opt (get_long c n) = true
  | ItLongSep n vs => name_ok n = true /\ sep_ok (get_long c n) vs = true
  | ItCluster fl t => forallb cl_flag fl = true /\ wf_tail c t = true /\
                      (is_nil fl && match t with TNone => true | _ => false end) = false
  | ItPos vs => forallb (nosub c) (firstn 1 vs) = true /\ pos_ok pst (get_pos c pos) vs = true
  end.
Proof.
  unfold wf_item. intros H. apply andb_prop in H. destruct H as [H1 H2]. split.
  - intros tok l E. rewrite E in H1. cbn [firstn forallb] in H1. apply andb_prop in H1. apply H1.
  - destruct it as [n|n v|n vs|fl t|vs].
    + apply andb_prop in H2. exact H2.
    + apply andb_prop in H2. exact H2.
    + apply andb_prop in H2. exact H2.
    + apply andb_prop in H2. destruct H2 as [H2 H4]. apply andb_prop in H2. destruct H2 as [H2 H3].
      split; [exact H2|]. split; [exact H3|]. destruct (is_nil fl && _); [discriminate|reflexivity].
    + split; [exact H1|exact H2].
Qed.

Lemma item_pst_ok pst pos it : wf_item c pst pos it = true -> pst_ok (item_pst c pos it).
Proof.
  intros H. destruct (wf_item_parts pst pos it H) as [_ H2]. destruct it as [n|n v|n vs|fl t|vs]; cbn [item_pst]; try exact I.
  - destruct H2 as [_ H2]. destruct (sep_ok_parts _ _ H2) as [a [Hg _]]. rewrite Hg. apply opt_pst_ok. apply (get_long_in n a Hg).
  - destruct t as [|o v|o v|o vs]; try exact I. destruct H2 as [_ [H2 _]]. cbn [wf_tail] in H2.
    apply andb_prop in H2. destruct H2 as [_ H2]. destruct (sep_ok_parts _ _ H2) as [a [Hg _]]. rewrite Hg.
    apply opt_pst_ok. apply (get_short_in o a Hg).
  - destruct (get_pos c pos) as [a|] eqn:Hg; [|exact I]. destruct (a_is_multiple a); [|exact I].
    exists a. apply find_arg_self. apply (get_pos_in pos a Hg).
Qed.

Lemma loop_item it (rest : list bytes) pst pos vaf st :
  wf_item c pst pos it = true -> pst_ok pst -> pend_inv pst st -> fs_skip st = 0 ->
  parse_loop c (render_item it ++ rest) (mkL pst pos vaf false) st =
  (do st1 <- apply_item c pos it st;
   parse_loop c rest (mkL (item_pst c pos it) (item_pos c pos it) true false) st1).
Proof.
  intros Hw Hp Hi Hskip. destruct (wf_item_parts pst pos it Hw) as [Hn H2]. destruct it as [n|n v|n vs|fl t|vs].
  - destruct H2 as [Hk Hf]. destruct (is_flag_parts _ Hf) as [a [Hg Htv]].
    cbn [render_item app apply_item item_pst item_pos]. rewrite Hg.
    apply loop_long_flag; try assumption. apply (Hn _ _ eq_refl).
  - destruct H2 as [Hk Hf]. destruct (is_opt_parts _ Hf) as [a [Hg Htv]].
    cbn [render_item app apply_item item_pst item_pos]. rewrite Hg.
    apply loop_long_eq; try assumption. apply (Hn _ _ eq_refl).
  - destruct H2 as [Hk Hf]. destruct (sep_ok_parts _ _ Hf) as [a [Hg _]].
    cbn [render_item apply_item item_pst item_pos]. rewrite Hg. rewrite Hg in Hf.
    apply loop_long_sep; try assumption. apply (Hn _ _ eq_refl).
  - destruct H2 as [Hfl [Hwt Hne]]. cbn [item_pos]. apply loop_cluster; try assumption.
    apply (Hn _ _ (render_cluster fl t)).
  - destruct H2 as [Hns Hok]. cbn [render_item]. apply loop_pos; assumption.
Qed.

(** the pending-buffer invariant is re-established by every item *)
Lemma react_all_pending_none : forall os st st', react_all c os st = ROk st' -> os <> [] -> mt_pending (mt st') = None.
Proof.
  induction os as [|o os IH]; intros st st' H Hne; [contradiction|]. cbn [react_all] in H.
  destruct (react c (o_ident o) (o_src o) (o_arg o) (o_raw o) (o_ti o) st) as [x|e s|n] eqn:E; cbn [rbind] in H; try discriminate.
  destruct os as [|o' os']; [|apply (IH _ _ H); discriminate].
  cbn [react_all] in H. inversion H; subst. unfold react in E.
  destruct (resolve_pending c st) as [st1|e s|n] eqn:RP; cbn [rbind] in E; try discriminate.
  destruct x as [sx px]. apply react_core_pending in E. cbn [fst]. rewrite E. apply (resolve_pending_clears _ _ _ RP).
Qed.

Lemma pend_inv_none pst st : mt_pending (mt st) = None -> pend_inv pst st.
Proof. intros H. destruct pst; cbn [pend_inv]; try exact I; intros p b E; rewrite H in E; discriminate. Qed.

Lemma step_pending_none idn a (raw : list bytes) st st' :
  (do x <- react c (Some idn) SCmdLine a raw None st; ROk (fst x)) = ROk st' -> mt_pending (mt st') = None.
Proof.
  destruct (react c (Some idn) SCmdLine a raw None st) as [x|e s|n] eqn:E; cbn [rbind]; try discriminate.
  intros H; inversion H; subst. unfold react in E.
  destruct (resolve_pending c st) as [st1|e s|n] eqn:RP; cbn [rbind] in E; try discriminate.
  destruct x as [sx px]. apply react_core_pending in E. cbn [fst]. rewrite E. apply (resolve_pending_clears _ _ _ RP).
Qed.

Lemma sep_step_inv idn a (vs : list bytes) st st' pst : In a (c_args c) ->
  (a_index a = None \/ a_multiple_values a = false) ->
  sep_step c idn a vs st = ROk st' -> pend_inv pst st'.
Proof.
  intros Ha Hor. unfold sep_step. destruct (resolve_pending c st) as [st1|e s|n]; cbn [rbind]; try discriminate.
  intros H; inversion H; subst. destruct pst; cbn [pend_inv]; try exact I;
    (intros p b Ep Fb;
     assert (Ep' : Some (mkPending (a_id a) (Some idn) vs None) = Some p)
       by (rewrite <- Ep; destruct st1 as [m ci fa fk]; destruct m; reflexivity);
     inversion Ep'; subst p; cbn [p_id] in Fb; rewrite (find_arg_self a Ha) in Fb; inversion Fb; subst b; exact Hor).
Qed.

Lemma flags_step_pending fl st st' : forallb cl_flag fl = true -> fl <> [] ->
  flags_step c fl st = ROk st' -> mt_pending (mt st') = None.
Proof.
  revert st. induction fl as [|ch fl IH]; intros st Hfl Hne H; [contradiction|].
  cbn [forallb] in Hfl. apply andb_prop in Hfl. destruct Hfl as [Hch Hfl].
  destruct (cl_flag_parts ch Hch) as [_ [_ [a [Hg _]]]]. cbn [flags_step] in H. rewrite Hg in H.
  destruct (flag_step c IShort a st) as [s0|e s|n] eqn:E; cbn [rbind] in H; try discriminate.
  destruct fl as [|ch' fl'].
  - cbn [flags_step] in H. inversion H; subst. apply (step_pending_none _ _ _ _ _ E).
  - apply (IH s0 Hfl); [discriminate|exact H].
Qed.

Lemma apply_item_inv pst pos it st st' : wf_item c pst pos it = true ->
  apply_item c pos it st = ROk st' -> pend_inv (item_pst c pos it) st'.
Proof.
  intros Hw H. destruct (wf_item_parts pst pos it Hw) as [_ H2]. destruct it as [n|n v|n vs|fl t|vs]; cbn [apply_item] in H.
  - destruct H2 as [_ Hf]. destruct (is_flag_parts _ Hf) as [a [Hg _]]. rewrite Hg in H.
    apply pend_inv_none. apply (step_pending_none _ _ _ _ _ H).
  - destruct H2 as [_ Hf]. destruct (is_opt_parts _ Hf) as [a [Hg _]]. rewrite Hg in H.
    apply pend_inv_none. apply (step_pending_none _ _ _ _ _ H).
  - destruct H2 as [_ Hf]. destruct (sep_ok_parts _ _ Hf) as [a [Hg _]]. rewrite Hg in H.
    apply (sep_step_inv ILong a vs st st' _ (get_long_in n a Hg) (or_introl (get_long_index n a Hg)) H).
  - destruct H2 as [Hfl [Hwt Hne]].
    destruct (flags_step c fl st) as [s0|e s|k] eqn:E; cbn [rbind] in H; try discriminate.
    destruct t as [|o v|o v|o vs]; cbn [tail_step wf_tail] in *.
    + inversion H; subst. apply pend_inv_none. apply (flags_step_pending fl st st' Hfl); [|exact E].
      intros ->. discriminate.
    + apply andb_prop in Hwt. destruct Hwt as [Hwt _]. apply andb_prop in Hwt. destruct Hwt as [Hwt _]. apply andb_prop in Hwt. destruct Hwt as [_ Ho].
      destruct (is_opt_parts _ Ho) as [a [Hg _]]. rewrite Hg in H. apply pend_inv_none. apply (step_pending_none _ _ _ _ _ H).
    + apply andb_prop in Hwt. destruct Hwt as [_ Ho].
      destruct (is_opt_parts _ Ho) as [a [Hg _]]. rewrite Hg in H. apply pend_inv_none. apply (step_pending_none _ _ _ _ _ H).
    + apply andb_prop in Hwt. destruct Hwt as [_ Ho].
      destruct (sep_ok_parts _ _ Ho) as [a [Hg _]]. rewrite Hg in H.
      apply (sep_step_inv IShort a vs s0 st' _ (get_short_in o a Hg) (or_introl (get_short_index o a Hg)) H).
  - destruct H2 as [_ Hok]. destruct (pos_ok_parts _ _ _ Hok) as [a [v [vs' [Hg _]]]]. rewrite Hg in H.
    cbn [item_pst]. rewrite Hg. destruct (a_is_multiple a) eqn:Em; [exact I|].
    apply (sep_step_inv IIndex a vs st st' _ (get_pos_in pos a Hg)); [|exact H].
    right. unfold a_is_multiple in Em. destruct (a_multiple_values a); [discriminate|reflexivity].
Qed.

Lemma items_pst_ok : forall its pst pos, wf_items c pst pos its = true -> pst_ok pst -> pst_ok (items_pst c pst pos its).
Proof.
  induction its as [|it its IH]; intros pst pos Hw Hp; [exact Hp|]. cbn [wf_items items_pst] in *.
  apply andb_prop in Hw. destruct Hw as [Hw Hws]. apply (IH _ _ Hws). apply (item_pst_ok pst pos it Hw).
Qed.

Lemma apply_items_inv : forall its pst pos st st', wf_items c pst pos its = true -> pend_inv pst st ->
  apply_items c pos its st = ROk st' -> pend_inv (items_pst c pst pos its) st'.
Proof.
  induction its as [|it its IH]; intros pst pos st st' Hw Hi H; cbn [wf_items items_pst apply_items] in *.
  - inversion H; subst. exact Hi.
  - apply andb_prop in Hw. destruct Hw as [Hw Hws].
    destruct (apply_item c pos it st) as [st1|e s|n] eqn:E; cbn [rbind] in H; try discriminate.
    apply (IH _ _ st1 st' Hws (apply_item_inv pst pos it st st1 Hw E) H).
Qed.

(** THE SIMULATION: the token loop on a rendered invocation is the invocation's meaning *)
Theorem loop_items : forall its (rest : list bytes) pst pos vaf st,
  wf_items c pst pos its = true -> pst_ok pst -> pend_inv pst st -> fs_skip st = 0 ->
  parse_loop c (render its ++ rest) (mkL pst pos vaf false) st =
  (do st' <- apply_items c pos its st;
   parse_loop c rest (mkL (items_pst c pst pos its) (items_pos c pos its) (vaf || negb (is_nil its)) false) st').
Proof.
  induction its as [|it its IH]; intros rest pst pos vaf st Hw Hp Hi Hskip.
  - cbn [render flat_map app apply_items rbind items_pst items_pos is_nil negb]. rewrite orb_false_r. reflexivity.
  - cbn [wf_items] in Hw. apply andb_prop in Hw. destruct Hw as [Hw Hws].
    unfold render. cbn [flat_map]. rewrite <- app_assoc. fold (render its).
    rewrite (loop_item it (render its ++ rest) pst pos vaf st Hw Hp Hi Hskip).
    cbn [apply_items items_pst items_pos is_nil negb]. rewrite orb_true_r.
    destruct (apply_item c pos it st) as [st1|e s|n] eqn:E; cbn [rbind]; try reflexivity.
    rewrite (IH rest (item_pst c pos it) (item_pos c pos it) true st1 Hws (item_pst_ok pst pos it Hw)
               (apply_item_inv pst pos it st st1 Hw E)); [reflexivity|].
    rewrite (apply_item_fs _ _ _ _ E). exact Hskip.
Qed.

(** * 3. flushing: the meaning as a fold of [react] over the occurrences *)
Lemma rbind_assoc {A B C} (r : res A) (f : A -> res B) (g : B -> res C) :
  (do y <- (do x <- r; f x); g y) = (do x <- r; do y <- f x; g y).
Proof. destruct r; reflexivity. Qed.
Lemma rbind_ret {A} (r : res A) : (do x <- r; ROk x) = r.
Proof. destruct r; reflexivity. Qed.
Lemma rbind_ext {A B} (r : res A) (f g : A -> res B) : (forall x, r = ROk x -> f x = g x) -> rbind r f = rbind r g.
Proof. intros H. destruct r; cbn [rbind]; try reflexivity. apply H. reflexivity. Qed.

Lemma resolve_none st : mt_pending (mt st) = None -> resolve_pending c st = ROk st.
Proof. intros H. unfold resolve_pending. rewrite H. reflexivity. Qed.

Lemma react_pending_none idn s a (raw : list bytes) ti st x :
  react c idn s a raw ti st = ROk x -> mt_pending (mt (fst x)) = None.
Proof.
  unfold react. destruct (resolve_pending c st) as [st1|e s0|n] eqn:E; cbn [rbind]; try discriminate.
  destruct x as [st' pr]. intros H. apply react_core_pending in H. cbn [fst]. rewrite H.
  apply (resolve_pending_clears _ _ _ E).
Qed.

Lemma react_resolve {B} idn s a (raw : list bytes) ti st (K : ps -> res B) :
  (do x <- react c idn s a raw ti st; do st2 <- resolve_pending c (fst x); K st2) =
  (do x <- react c idn s a raw ti st; K (fst x)).
Proof.
  apply rbind_ext. intros x E. rewrite (resolve_none _ (react_pending_none _ _ _ _ _ _ _ E)). reflexivity.
Qed.

Lemma resolve_react {B} idn s a (raw : list bytes) ti st (K : ps * presult -> res B) :
  (do st0 <- resolve_pending c st; do x <- react c idn s a raw ti st0; K x) =
  (do x <- react c idn s a raw ti st; K x).
Proof.
  unfold react. destruct (resolve_pending c st) as [st1|e s0|n] eqn:E; cbn [rbind]; try reflexivity.
  rewrite (resolve_none _ (resolve_pending_clears _ _ _ E)). reflexivity.
Qed.

Lemma flush_react_all {B} : forall os st (K : ps -> res B),
  (do s1 <- react_all c os st; do st2 <- resolve_pending c s1; K st2) =
  (do st0 <- resolve_pending c st; do st2 <- react_all c os st0; K st2).
Proof.
  induction os as [|o os IH]; intros st K; cbn [react_all].
  - cbn [rbind]. apply rbind_ext. intros; reflexivity.
  - rewrite rbind_assoc.
    etransitivity; [apply rbind_ext; intros x _; apply IH|].
    rewrite react_resolve.
    symmetry. etransitivity; [apply rbind_ext; intros x _; apply rbind_assoc|].
    apply (resolve_react (o_ident o) (o_src o) (o_arg o) (o_raw o) (o_ti o) st (fun x => do st2 <- react_all c os (fst x); K st2)).
Qed.

Lemma set_pending_clear i idn (vs : list bytes) st : mt_pending (mt st) = None ->
  (set_pending i idn vs st) <| mt := (mt (set_pending i idn vs st)) <| mt_pending := None |> |> = st.
Proof. destruct st as [m ci fa fk]. destruct m. cbn. intros ->. reflexivity. Qed.

Lemma sep_flush {B} idn a (vs : list bytes) st (K : ps -> res B) : In a (c_args c) ->
  (do st1 <- sep_step c idn a vs st; do st2 <- resolve_pending c st1; K st2) =
  (do x <- react c (Some idn) SCmdLine a vs None st; K (fst x)).
Proof.
  intros Ha. unfold sep_step, react. rewrite !rbind_assoc. apply rbind_ext. intros st1 E. cbn [rbind].
  pose proof (resolve_pending_clears _ _ _ E) as PN.
  unfold resolve_pending at 1.
  replace (mt_pending (mt (set_pending (a_id a) idn vs st1))) with (Some (mkPending (a_id a) (Some idn) vs None))
    by (destruct st1 as [m ci fa fk]; destruct m; reflexivity).
  cbn [p_id p_ident p_raw p_trailing_idx]. rewrite (find_arg_self a Ha). cbn [expect rbind].
  rewrite (set_pending_clear _ _ _ _ PN). rewrite rbind_assoc. reflexivity.
Qed.

Lemma flush_react_all_sep {B} idn a (vs : list bytes) : In a (c_args c) -> forall os st (K : ps -> res B),
  (do s1 <- react_all c os st; do st1 <- sep_step c idn a vs s1; do st2 <- resolve_pending c st1; K st2) =
  (do st0 <- resolve_pending c st; do st2 <- react_all c (os ++ [occ_of idn a vs]) st0; K st2).
Proof.
  intros Ha. induction os as [|o os IH]; intros st K; cbn [react_all app].
  - cbn [rbind]. rewrite (sep_flush idn a vs st K Ha).
    symmetry. etransitivity; [apply rbind_ext; intros x _; apply rbind_assoc|].
    cbn [occ_of o_ident o_src o_arg o_raw o_ti]. cbn [rbind].
    apply (resolve_react (Some idn) SCmdLine a vs None st (fun x => K (fst x))).
  - rewrite rbind_assoc.
    etransitivity; [apply rbind_ext; intros x _; apply IH|].
    rewrite react_resolve.
    symmetry. etransitivity; [apply rbind_ext; intros x _; apply rbind_assoc|].
    apply (resolve_react (o_ident o) (o_src o) (o_arg o) (o_raw o) (o_ti o) st
             (fun x => do st2 <- react_all c (os ++ [occ_of idn a vs]) (fst x); K st2)).
Qed.

Lemma flags_step_react_all : forall fl st, forallb cl_flag fl = true ->
  flags_step c fl st = react_all c (flags_occs c fl) st.
Proof.
  induction fl as [|ch fl IH]; intros st H; [reflexivity|].
  cbn [forallb] in H. apply andb_prop in H. destruct H as [Hch Hfl].
  destruct (cl_flag_parts ch Hch) as [_ [_ [a [Hg _]]]].
  unfold flags_occs. cbn [flags_step flat_map]. rewrite Hg. cbn [app react_all occ_of o_ident o_src o_arg o_raw o_ti].
  unfold flag_step. rewrite rbind_assoc. apply rbind_ext. intros x _. cbn [rbind]. apply IH. exact Hfl.
Qed.

Lemma flush_item {B} pst pos it st (K : ps -> res B) : wf_item c pst pos it = true ->
  (do st1 <- apply_item c pos it st; do st2 <- resolve_pending c st1; K st2) =
  (do st0 <- resolve_pending c st; do st2 <- react_all c (item_occs c pos it) st0; K st2).
Proof.
  intros Hw. destruct (wf_item_parts pst pos it Hw) as [_ H2]. destruct it as [n|n v|n vs|fl t|vs]; cbn [apply_item item_occs].
  - destruct H2 as [_ Hf]. destruct (is_flag_parts _ Hf) as [a [Hg _]]. rewrite Hg.
    rewrite <- flush_react_all. cbn [react_all occ_of o_ident o_src o_arg o_raw o_ti]. reflexivity.
  - destruct H2 as [_ Hf]. destruct (is_opt_parts _ Hf) as [a [Hg _]]. rewrite Hg.
    rewrite <- flush_react_all. cbn [react_all occ_of o_ident o_src o_arg o_raw o_ti]. reflexivity.
  - destruct H2 as [_ Hf]. destruct (sep_ok_parts _ _ Hf) as [a [Hg _]]. rewrite Hg.
    exact (flush_react_all_sep ILong a vs (get_long_in n a Hg) [] st K).
  - destruct H2 as [Hfl [Hwt _]]. rewrite (flags_step_react_all fl st Hfl). rewrite rbind_assoc.
    destruct t as [|o v|o v|o vs]; cbn [tail_step tail_occs wf_tail] in *.
    + rewrite app_nil_r. cbn [rbind]. etransitivity; [|apply flush_react_all]. apply rbind_ext. intros; reflexivity.
    + apply andb_prop in Hwt. destruct Hwt as [Hwt _]. apply andb_prop in Hwt. destruct Hwt as [Hwt _]. apply andb_prop in Hwt. destruct Hwt as [_ Ho].
      destruct (is_opt_parts _ Ho) as [a [Hg _]]. rewrite Hg.
      rewrite <- flush_react_all. rewrite react_all_app, rbind_assoc. apply rbind_ext. intros s1 _.
      cbn [react_all occ_of o_ident o_src o_arg o_raw o_ti]. reflexivity.
    + apply andb_prop in Hwt. destruct Hwt as [_ Ho].
      destruct (is_opt_parts _ Ho) as [a [Hg _]]. rewrite Hg.
      rewrite <- flush_react_all. rewrite react_all_app, rbind_assoc. apply rbind_ext. intros s1 _.
      cbn [react_all occ_of o_ident o_src o_arg o_raw o_ti]. reflexivity.
    + apply andb_prop in Hwt. destruct Hwt as [_ Ho].
      destruct (sep_ok_parts _ _ Ho) as [a [Hg _]]. rewrite Hg.
      exact (flush_react_all_sep IShort a vs (get_short_in o a Hg) (flags_occs c fl) st K).
  - destruct H2 as [_ Hok]. destruct (pos_ok_parts _ _ _ Hok) as [a [v [vs' [Hg _]]]]. rewrite Hg.
    exact (flush_react_all_sep IIndex a vs (get_pos_in pos a Hg) [] st K).
Qed.

(** THE MEANING: what is in the matcher once the line is flushed is the fold of [react] over the
    invocation's occurrences, whatever spelling each had *)
Theorem flush_items : forall its pst pos st, wf_items c pst pos its = true ->
  (do st' <- apply_items c pos its st; resolve_pending c st') =
  (do st0 <- resolve_pending c st; react_all c (occs c pos its) st0).
Proof.
  induction its as [|it its IH]; intros pst pos st Hw.
  - cbn [apply_items occs react_all rbind]. symmetry. apply rbind_ret.
  - cbn [wf_items] in Hw. apply andb_prop in Hw. destruct Hw as [Hw Hws].
    cbn [apply_items]. rewrite rbind_assoc.
    etransitivity; [apply rbind_ext; intros st1 _; apply (IH _ _ st1 Hws)|].
    rewrite (flush_item pst pos it st (fun st2 => react_all c (occs c (item_pos c pos it) its) st2) Hw).
    apply rbind_ext. intros st0 _. cbn [occs]. rewrite react_all_app. reflexivity.
Qed.

End Sim.
