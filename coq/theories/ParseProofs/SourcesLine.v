(** Property C06, stated against the LINE (round 2).

    [Sources.v] proves phase order, precedence and frames for any state the token loop leaves
    behind.  Here "supplied on the command line" is tied to the tokens:

    - for the class of C02's un-parser theorem ([conv] / [wf_inv]: a rendered invocation tree)
      the matcher after the command line IS the fold of [react] over the occurrences of the
      invocation, so "the argument is named on the line by an occurrence that survives the
      overrides" is a boolean of the invocation ([named_alive]) and the origin of every argument of
      every level is decided by it, then by the environment, then by the defaults;
    - for the class [plain] (every valid definition without short flag subcommands) and EVERY token
      list, in one direction: a CommandLine label implies that a token of the line names the
      argument (C10's invariant [K]). *)
From ClapModel Require Import Base.Bytes Base.Machine Base.Utf8 Lex.OsStrExtModel.
From ClapModel Require Import Parse.Cmd Parse.Build Parse.Valid Parse.Matcher Parse.Errors Parse.Validator Parse.Parser.
From ClapModel Require Import ParseProofs.Safe ParseProofs.Invariant ParseProofs.Totality ParseProofs.TotalityMain.
From ClapModel Require Import ParseProofs.Actions ParseProofs.ActionsLoop ParseProofs.Spelling ParseProofs.Sources
                              ParseProofs.Unparse ParseProofs.UnparseProofs ParseProofs.UnparseTop ParseProofs.UnparseSub
                              ParseProofs.UnparseTrail ParseProofs.UnparseTree ParseProofs.KindSound.
From Coq Require Import ZArith Lia List Bool.
From RecordUpdate Require Import RecordSet.
Import RecordSetNotations.
Import ListNotations.
Open Scope N_scope.

(** * 1. "named on the line by an occurrence that survives the overrides" *)

(** a small state machine over the occurrences of the line, left to right: an occurrence of [i]
    switches on, an occurrence of an argument in an override relation with [i] switches off *)
Fixpoint alive (c : cmd) (i : id) (os : list occ) (acc : bool) : bool :=
  match os with
  | [] => acc
  | o :: t => alive c i t (if beq (a_id (o_arg o)) i then true
                           else if overridden c (o_arg o) i then false else acc)
  end.
Definition named_alive (c : cmd) (i : id) (os : list occ) : bool := alive c i os false.

Definition all_cmdline (os : list occ) : Prop := Forall (fun o => o_src o = SCmdLine) os.

Lemma alive_spec c i os : all_cmdline os -> forall prev,
  is_some (fold_left (step_abs c i) os prev) = alive c i os (is_some prev).
Proof.
  induction os as [|o os IH]; intros Hall prev; [reflexivity|].
  inversion Hall as [|? ? Ho Hall']; subst. cbn [fold_left alive]. rewrite (IH Hall'). f_equal.
  unfold step_abs. rewrite Ho. cbn [is_cmdline andb].
  destruct (beq (a_id (o_arg o)) i); [reflexivity|].
  destruct (overridden c (o_arg o) i); reflexivity.
Qed.

Lemma denote_alive c i os : all_cmdline os ->
  is_some (denote_os c i os) = named_alive c i os.
Proof. intros H. unfold denote_os, named_alive. rewrite (alive_spec c i os H None). reflexivity. Qed.

(** [o] neither is an occurrence of [i] nor overrides it *)
Definition quiet (c : cmd) (i : id) (o : occ) : Prop :=
  beq (a_id (o_arg o)) i = false /\ overridden c (o_arg o) i = false.

(** declarative reading: some occurrence of [i] is followed only by quiet occurrences (it is the
    last occurrence of [i], and nothing after it overrides [i]) *)
Lemma alive_iff c i : forall os acc,
  alive c i os acc = true <->
  (exists os1 o os2, os = os1 ++ o :: os2 /\ beq (a_id (o_arg o)) i = true /\ Forall (quiet c i) os2)
  \/ (acc = true /\ Forall (quiet c i) os).
Proof.
  induction os as [|o t IH]; intros acc; cbn [alive].
  - split.
    + intros H. right. split; [exact H|constructor].
    + intros [[os1 [o [os2 [E _]]]]|[H _]]; [destruct os1; discriminate|exact H].
  - rewrite IH. clear IH. destruct (beq (a_id (o_arg o)) i) eqn:Eb.
    + split.
      * intros [[os1 [o' [os2 [E [Hb Hq]]]]]|[_ Hq]].
        -- left. exists (o :: os1), o', os2. split; [rewrite E; reflexivity|]. split; assumption.
        -- left. exists [], o, t. split; [reflexivity|]. split; assumption.
      * intros [[os1 [o' [os2 [E [Hb Hq]]]]]|[_ Hq]].
        -- destruct os1 as [|x os1]; cbn [app] in E; inversion E; subst.
           ++ right. split; [reflexivity|exact Hq].
           ++ left. exists os1, o', os2. split; [reflexivity|]. split; assumption.
        -- inversion Hq as [|? ? [Hx _] _]; subst. rewrite Eb in Hx. discriminate.
    + destruct (overridden c (o_arg o) i) eqn:Eo.
      * split.
        -- intros [[os1 [o' [os2 [E [Hb Hq]]]]]|[Hx _]]; [|discriminate].
           left. exists (o :: os1), o', os2. split; [rewrite E; reflexivity|]. split; assumption.
        -- intros [[os1 [o' [os2 [E [Hb Hq]]]]]|[_ Hq]].
           ++ destruct os1 as [|x os1]; cbn [app] in E; inversion E; subst.
              ** rewrite Eb in Hb. discriminate.
              ** left. exists os1, o', os2. split; [reflexivity|]. split; assumption.
           ++ inversion Hq as [|? ? [_ Hx] _]; subst. rewrite Eo in Hx. discriminate.
      * split.
        -- intros [[os1 [o' [os2 [E [Hb Hq]]]]]|[Hx Hq]].
           ++ left. exists (o :: os1), o', os2. split; [rewrite E; reflexivity|]. split; assumption.
           ++ right. split; [exact Hx|]. constructor; [split; assumption|exact Hq].
        -- intros [[os1 [o' [os2 [E [Hb Hq]]]]]|[Hx Hq]].
           ++ destruct os1 as [|x os1]; cbn [app] in E; inversion E; subst.
              ** rewrite Eb in Hb. discriminate.
              ** left. exists os1, o', os2. split; [reflexivity|]. split; assumption.
           ++ right. split; [exact Hx|]. inversion Hq; subst; assumption.
Qed.

Theorem named_alive_iff c i os :
  named_alive c i os = true <->
  exists os1 o os2, os = os1 ++ o :: os2 /\ a_id (o_arg o) = i /\ Forall (quiet c i) os2.
Proof.
  unfold named_alive. rewrite alive_iff. split.
  - intros [[os1 [o [os2 [E [Hb Hq]]]]]|[Hx _]]; [|discriminate].
    exists os1, o, os2. split; [exact E|]. split; [apply beq_eq; exact Hb|exact Hq].
  - intros [os1 [o [os2 [E [Hb Hq]]]]]. left. exists os1, o, os2. split; [exact E|].
    split; [rewrite Hb; apply beq_refl|exact Hq].
Qed.

(** * 2. the occurrences of an invocation are command-line occurrences; their [react]s label CommandLine *)
Lemma flags_occs_cmdline c fl : all_cmdline (flags_occs c fl).
Proof.
  induction fl as [|ch fl IH]; [constructor|]. unfold flags_occs. cbn [flat_map].
  destruct (get_short c ch) as [a|]; cbn [app]; [|exact IH]. constructor; [reflexivity|exact IH].
Qed.

Lemma occs_cmdline c its : forall pos, all_cmdline (occs c pos its).
Proof.
  induction its as [|it its IH]; intros pos; [constructor|]. cbn [occs]. apply Forall_app. split; [|apply IH].
  destruct it as [n|n v|n vs|fl t|vs]; cbn [item_occs].
  - destruct (get_long c n) as [a|]; constructor; [reflexivity|constructor].
  - destruct (get_long c n) as [a|]; constructor; [reflexivity|constructor].
  - destruct (get_long c n) as [a|]; constructor; [reflexivity|constructor].
  - apply Forall_app. split; [apply flags_occs_cmdline|].
    destruct t as [|o v|o v|o vs]; cbn [tail_occs]; try constructor;
      destruct (get_short c o) as [a|]; constructor; try reflexivity; constructor.
  - destruct (get_pos c pos) as [a|]; constructor; [reflexivity|constructor].
Qed.

Lemma trail_occs_cmdline c : forall vs pos, all_cmdline (trail_occs c pos vs).
Proof.
  induction vs as [|v vs IH]; intros pos; [constructor|]. cbn [trail_occs].
  destruct (get_pos c pos) as [a|]; [|constructor].
  destruct (a_multiple_values a); [constructor; [reflexivity|constructor]|].
  constructor; [reflexivity|apply IH].
Qed.

Lemma inv_occs_cmdline c i : all_cmdline (inv_occs c i).
Proof.
  destruct i as [its|its name j|its vs]; cbn [inv_occs]; try apply occs_cmdline.
  apply Forall_app. split; [apply occs_cmdline|apply trail_occs_cmdline].
Qed.

Lemma react_all_all_cl c : forall os st st', all_cmdline os ->
  react_all c os st = ROk st' -> all_cl (mt st) -> all_cl (mt st').
Proof.
  induction os as [|o os IH]; intros st st' Hall H F; cbn [react_all] in H.
  - inversion H; subst. exact F.
  - inversion Hall as [|? ? Ho Hall']; subst. rewrite Ho in H.
    destruct (react c (o_ident o) SCmdLine (o_arg o) (o_raw o) (o_ti o) st) as [x|e s|n] eqn:E; cbn [rbind] in H; try discriminate.
    apply (IH (fst x) st' Hall' H). apply (all_cl_react c _ _ _ _ _ _ E F).
Qed.

Lemma all_cl_new : all_cl (mt ps_new).
Proof. constructor. Qed.

(** * 3. one level of an invocation tree: the flushed command line, then the later phases *)
Lemma run_inv_level c i st : wf_inv c i = true -> run_inv c i = ROk st ->
  exists st1 st1', react_all c (inv_occs c i) ps_new = ROk st1 /\
    mt_args (mt st1') = mt_args (mt st1) /\ mt_pending (mt st1') = None /\
    post_loop c st1' = ROk st.
Proof.
  intros Hw H. destruct (wf_inv_parts c _ Hw) as [Hconv [Hie Hp]].
  destruct i as [its|its name j|its vs]; cbn [inv_occs] in *.
  - cbn [run_inv] in H.
    destruct (react_all c (occs c 1 its) ps_new) as [st1|e s|n] eqn:E1; cbn [rbind] in H; try discriminate.
    exists st1, st1. split; [reflexivity|]. split; [reflexivity|]. split; [|exact H].
    apply (react_all_pending_keep c _ _ _ E1 eq_refl).
  - destruct Hp as [Hwi [_ [_ [scn [sc0 [scb [_ [_ [_ [_ [Hch _]]]]]]]]]]].
    destruct (run_inv scb j) as [sub_st|e s|n] eqn:Er.
    + apply (run_inv_sub_ok c its name j scb sub_st st Hconv Hwi Hch Er) in H. destruct H as [st1 [E1 H]].
      exists st1, (ssub (Some (c_name scb, into_inner (mt sub_st))) st1). split; [exact E1|].
      split; [rewrite ssub_mt, msub_args; reflexivity|]. split; [|exact H].
      rewrite ssub_mt, msub_pending. apply (react_all_pending_keep c _ _ _ E1 eq_refl).
    + cbn [run_inv] in H. rewrite Hch, Er in H. destruct (apply_items c 1 its ps_new); discriminate.
    + cbn [run_inv] in H. rewrite Hch, Er in H. destruct (apply_items c 1 its ps_new); discriminate.
  - cbn [run_inv] in H.
    destruct (react_all c (occs c 1 its ++ trail_occs c (items_pos c 1 its) vs) ps_new) as [st1|e s|n] eqn:E1; cbn [rbind] in H; try discriminate.
    exists st1, st1. split; [reflexivity|]. split; [reflexivity|]. split; [|exact H].
    apply (react_all_pending_keep c _ _ _ E1 eq_refl).
Qed.

(** the later phases on any flushed state: the precedence lattice of [Sources.precedence], stated on [post_loop] *)
Lemma post_loop_precedence c st1 st : ids_distinct c -> mt_pending (mt st1) = None ->
  post_loop c st1 = ROk st ->
  exists st2, add_env c st1 = ROk st2 /\ add_defaults c st2 = ROk st /\ mt_pending (mt st2) = None
    /\ validate c (mt st) = VOk
    /\ forall pre a post, c_args c = pre ++ a :: post ->
       match fm_get (a_id a) (mt_args (mt st1)) with
       | Some m => fm_get (a_id a) (mt_args (mt st)) = Some m
       | None =>
           match a_env a with
           | Some v => exists vs e, delimit c a [v] None = Some vs /\ vs <> []
                         /\ fm_get (a_id a) (mt_args (mt st)) = Some e
                         /\ m_source e = Some SEnv /\ m_raw e = [vs]
           | None => exists st_a ch,
                       fold_left (defaults_step c) pre (ROk st2) = ROk st_a
                       /\ default_choice a (mt st_a) ch
                       /\ match ch with
                          | None => fm_get (a_id a) (mt_args (mt st)) = None
                          | Some raw => exists vs e, delimit c a raw None = Some vs /\ vs <> []
                                          /\ fm_get (a_id a) (mt_args (mt st)) = Some e
                                          /\ m_source e = Some SDefault /\ m_raw e = [vs]
                          end
           end
       end.
Proof.
  intros [Hnd Hng] P1 H. unfold post_loop in H.
  destruct (add_env c st1) as [st2|e s|n] eqn:E2; cbn [rbind] in H; try discriminate.
  destruct (add_defaults c st2) as [st3|e s|n] eqn:E3; cbn [rbind] in H; try discriminate.
  unfold vres_to_res in H. destruct (validate c (mt st3)) eqn:Ev; try discriminate.
  inversion H; subst st3. clear H.
  destruct (add_env_frame c st1 st2 P1 E2) as [P2 [_ [Ek [En [Ex Ea]]]]].
  destruct (add_defaults_frame c st2 st P2 E3) as [_ [_ [_ [Dk _]]]].
  exists st2. split; [reflexivity|]. split; [exact E3|]. split; [exact P2|]. split; [exact Ev|].
  intros pre a post Hsplit.
  assert (Hin : In a (c_args c)) by (rewrite Hsplit; apply in_or_app; right; left; reflexivity).
  pose proof (Hng a Hin) as Hg.
  destruct (fm_get (a_id a) (mt_args (mt st1))) as [m|] eqn:G1.
  - apply Dk. apply Ek; assumption.
  - destruct (a_env a) as [v|] eqn:Ee.
    + pose proof (Ex a v Hin Ee Hg) as Hne.
      destruct (fm_get (a_id a) (mt_args (mt st2))) as [e|] eqn:G2; [|contradiction].
      destruct (En (a_id a) e Hg G1 G2) as [Se [_ [a' [v' [vs [Hin' [Hid [Ee' [Hd [Hvs Re]]]]]]]]]].
      assert (a' = a) by (eapply nodup_map_inj; eassumption). subst a'.
      rewrite Ee in Ee'. inversion Ee'; subst v'.
      exists vs, e. repeat split; try assumption. apply Dk. exact G2.
    + assert (G2 : fm_get (a_id a) (mt_args (mt st2)) = None).
      { apply Ea; [exact Hg|exact G1|]. intros a' Hin' Hid.
        assert (a' = a) by (eapply nodup_map_inj; eassumption). subst a'. exact Ee. }
      destruct (add_defaults_decides c st2 st pre a post Hnd Hsplit P2 E3) as [st_a [Hf [_ Hdec]]].
      destruct (Hdec G2) as [ch [Hch Hres]]. exists st_a, ch. repeat split; assumption.
Qed.

(** * 4. THE ORIGIN of every argument of one level of a rendered invocation

    [os] are the occurrences of the level ([inv_occs]: computed from the invocation alone), [st] the
    level's final state, [st2] the state before the defaults phase, [pre] the arguments defined
    before [a].  Exactly one branch applies (the guards are a boolean, [a_env] and the functional
    relation [default_choice], see [default_choice_det]):
    - named on the line by a surviving occurrence: the entry is labelled CommandLine and holds
      exactly the groups the line denotes for the argument;
    - else the environment variable is set: EnvVariable, the variable's value split at the delimiter;
    - else a conditional / plain default applies: DefaultValue, that default;
    - else there is no entry. *)
Definition origin_of (c : cmd) (os : list occ) (st2 st : ps) (pre : list arg) (a : arg) : Prop :=
  if named_alive c (a_id a) os
  then exists gs e, denote_os c (a_id a) os = Some gs /\ fm_get (a_id a) (mt_args (mt st)) = Some e
                    /\ m_source e = Some SCmdLine /\ m_raw e = gs
  else match a_env a with
       | Some v => exists vs e, delimit c a [v] None = Some vs /\ vs <> []
                     /\ fm_get (a_id a) (mt_args (mt st)) = Some e
                     /\ m_source e = Some SEnv /\ m_raw e = [vs]
       | None => exists st_a ch,
                   fold_left (defaults_step c) pre (ROk st2) = ROk st_a
                   /\ default_choice a (mt st_a) ch
                   /\ match ch with
                      | None => fm_get (a_id a) (mt_args (mt st)) = None
                      | Some raw => exists vs e, delimit c a raw None = Some vs /\ vs <> []
                                      /\ fm_get (a_id a) (mt_args (mt st)) = Some e
                                      /\ m_source e = Some SDefault /\ m_raw e = [vs]
                      end
       end.

Definition level_origin (c : cmd) (os : list occ) (st : ps) : Prop :=
  exists st2, add_defaults c st2 = ROk st /\ validate c (mt st) = VOk
    /\ forall pre a post, c_args c = pre ++ a :: post -> origin_of c os st2 st pre a.

Theorem run_inv_origin c i st : wf_inv c i = true -> run_inv c i = ROk st ->
  level_origin c (inv_occs c i) st.
Proof.
  intros Hw H. destruct (wf_inv_parts c _ Hw) as [Hconv [Hie _]].
  destruct (run_inv_level c i st Hw H) as [st1 [st1' [E1 [EA [P1 HP]]]]].
  pose proof (inv_occs_args c i Hconv) as Hos.
  pose proof (inv_occs_cmdline c i) as Hcl.
  pose proof (react_all_all_cl c _ _ _ Hcl E1 all_cl_new) as Hall.
  pose proof (assert_app_ids_distinct c (conv_app c Hconv)) as Hid.
  destruct (post_loop_precedence c st1' st Hid P1 HP) as [st2 [E2 [E3 [P2 [Ev Hpre]]]]].
  exists st2. split; [exact E3|]. split; [exact Ev|].
  intros pre a post Hsplit.
  assert (Hin : In a (c_args c)) by (rewrite Hsplit; apply in_or_app; right; left; reflexivity).
  destruct (react_all_os_denote c Hconv _ st1 a Hos Hin E1) as [R _].
  specialize (Hpre pre a post Hsplit). rewrite EA in Hpre.
  unfold origin_of. rewrite <- (denote_alive c (a_id a) _ Hcl). rewrite <- R.
  unfold groups_of, get.
  destruct (fm_get (a_id a) (mt_args (mt st1))) as [m|] eqn:G1; cbn [opt_map is_some].
  - exists (m_raw m), m. split; [reflexivity|]. split; [exact Hpre|]. split; [|reflexivity].
    apply (fm_get_forall _ _ _ Hall G1).
  - exact Hpre.
Qed.

Theorem gmw_origin i c f st : valid_tree (S f) c = true -> wf_inv c i = true ->
  get_matches_with (S f) c (render_inv i) ps_new = ROk st ->
  level_origin c (inv_occs c i) st.
Proof. intros Hv Hw H. rewrite (gmw_inv i c f Hv Hw) in H. apply run_inv_origin; assumption. Qed.

(** the relation [default_choice] is functional: the default / absent branches exclude each other *)
Lemma default_choice_det a m x y : default_choice a m x -> default_choice a m y -> x = y.
Proof.
  intros Hx Hy. destruct Hx as [l1 i p d l2 E Hn Hh|Hn]; destruct Hy as [l1' i' p' d' l2' E' Hn' Hh'|Hn'].
  - rewrite E in E'. clear E.
    revert l1' E' Hn'. induction l1 as [|r l1 IH]; intros l1' E' Hn'.
    + destruct l1' as [|r' l1']; cbn [app] in E'.
      * inversion E'; subst. reflexivity.
      * inversion E'; subst. rewrite (Hn' _ (or_introl eq_refl)) in Hh. discriminate.
    + destruct l1' as [|r' l1']; cbn [app] in E'.
      * inversion E'; subst. rewrite (Hn _ (or_introl eq_refl)) in Hh'. discriminate.
      * inversion E'; subst. apply (IH (fun r0 H0 => Hn r0 (or_intror H0)) l1' H1).
        intros r0 H0. apply Hn'. right. exact H0.
  - rewrite Hn' in Hh; [discriminate|]. rewrite E. apply in_or_app. right. left. reflexivity.
  - rewrite Hn in Hh'; [discriminate|]. rewrite E'. apply in_or_app. right. left. reflexivity.
  - reflexivity.
Qed.

(** * 5. CommandLine iff named: the reported source against the invocation *)
Theorem run_inv_cmdline_iff_named c i st : wf_inv c i = true -> run_inv c i = ROk st ->
  forall a, In a (c_args c) ->
    (forall e, fm_get (a_id a) (mt_args (mt st)) = Some e ->
       (m_source e = Some SCmdLine <-> named_alive c (a_id a) (inv_occs c i) = true))
    /\ (fm_get (a_id a) (mt_args (mt st)) = None -> named_alive c (a_id a) (inv_occs c i) = false)
    /\ (named_alive c (a_id a) (inv_occs c i) = true ->
        exists e, fm_get (a_id a) (mt_args (mt st)) = Some e /\ m_source e = Some SCmdLine
                  /\ denote_os c (a_id a) (inv_occs c i) = Some (m_raw e)).
Proof.
  intros Hw H a Hin. destruct (run_inv_origin c i st Hw H) as [st2 [_ [_ Ho]]].
  destruct (in_split _ _ Hin) as [pre [post Hsplit]]. specialize (Ho pre a post Hsplit).
  unfold origin_of in Ho. destruct (named_alive c (a_id a) (inv_occs c i)) eqn:Ea.
  - destruct Ho as [gs [e [Hd [Ge [Se Re]]]]]. split; [|split].
    + intros e' Ge'. rewrite Ge in Ge'. inversion Ge'; subst e'. split; [reflexivity|intros _; exact Se].
    + intros Gn. rewrite Gn in Ge. discriminate.
    + intros _. exists e. split; [exact Ge|]. split; [exact Se|]. rewrite Hd, Re. reflexivity.
  - split; [|split; [reflexivity|discriminate]].
    intros e Ge. split; [|discriminate]. intros Se. exfalso.
    destruct (a_env a) as [v|].
    + destruct Ho as [vs [e' [_ [_ [Ge' [Se' _]]]]]]. rewrite Ge in Ge'. inversion Ge'; subst e'. congruence.
    + destruct Ho as [st_a [ch [_ [_ Hc]]]]. destruct ch as [raw|].
      * destruct Hc as [vs [e' [_ [_ [Ge' [Se' _]]]]]]. rewrite Ge in Ge'. inversion Ge'; subst e'. congruence.
      * rewrite Ge in Hc. discriminate.
Qed.

Theorem gmw_cmdline_iff_named i c f st : valid_tree (S f) c = true -> wf_inv c i = true ->
  get_matches_with (S f) c (render_inv i) ps_new = ROk st ->
  forall a, In a (c_args c) ->
    (forall e, fm_get (a_id a) (mt_args (mt st)) = Some e ->
       (m_source e = Some SCmdLine <-> named_alive c (a_id a) (inv_occs c i) = true))
    /\ (fm_get (a_id a) (mt_args (mt st)) = None -> named_alive c (a_id a) (inv_occs c i) = false)
    /\ (named_alive c (a_id a) (inv_occs c i) = true ->
        exists e, fm_get (a_id a) (mt_args (mt st)) = Some e /\ m_source e = Some SCmdLine
                  /\ denote_os c (a_id a) (inv_occs c i) = Some (m_raw e)).
Proof. intros Hv Hw H. rewrite (gmw_inv i c f Hv Hw) in H. apply run_inv_cmdline_iff_named; assumption. Qed.

(** * 6. every level of the tree, and [parse_top] *)
(** [at_level c i m c' i' m']: walking down the invocation tree [i] of command [c] and the reported
    matches [m] in step (subcommand slot by subcommand slot) reaches the level [c'] with its own
    invocation [i'] and its own matches [m'] *)
Inductive at_level : cmd -> inv -> matches -> cmd -> inv -> matches -> Prop :=
| AL_here c i m : at_level c i m c i m
| AL_down c its name j m scb sm c' i' m' :
    child c name = Some scb -> ms_sub m = Some (c_name scb, sm) ->
    at_level scb j sm c' i' m' -> at_level c (ISub its name j) m c' i' m'.

Lemma at_level_run c i m c' i' m' : at_level c i m c' i' m' ->
  forall st, m = into_inner (mt st) -> wf_inv c i = true -> run_inv c i = ROk st ->
  exists st', m' = into_inner (mt st') /\ wf_inv c' i' = true /\ run_inv c' i' = ROk st'.
Proof.
  induction 1 as [c i m|c its name j m scb sm c' i' m' Hch Hsub Hal IH]; intros st Em Hw Hr.
  - exists st. split; [exact Em|]. split; assumption.
  - destruct (chain_inv c its name j st Hw Hr) as [scb0 [sub_st [Hch0 [Hr0 Hs0]]]].
    rewrite Hch in Hch0. inversion Hch0; subst scb0.
    destruct (wf_inv_parts c _ Hw) as [_ [_ [_ [_ [_ [scn [sc0 [scb1 [_ [_ [_ [_ [Hch1 Hwj]]]]]]]]]]]]].
    rewrite Hch in Hch1. inversion Hch1; subst scb1.
    subst m. unfold into_inner in Hsub. cbn [ms_sub] in Hsub. rewrite Hs0 in Hsub. inversion Hsub; subst sm.
    apply (IH sub_st eq_refl Hwj Hr0).
Qed.

Theorem tree_origin c i st : wf_inv c i = true -> run_inv c i = ROk st ->
  forall c' i' m', at_level c i (into_inner (mt st)) c' i' m' ->
  exists st', m' = into_inner (mt st') /\ level_origin c' (inv_occs c' i') st'.
Proof.
  intros Hw Hr c' i' m' Hal.
  destruct (at_level_run _ _ _ _ _ _ Hal st eq_refl Hw Hr) as [st' [Em [Hw' Hr']]].
  exists st'. split; [exact Em|]. apply run_inv_origin; assumption.
Qed.

Lemma parse_top_ok_run c0 bin i m : is_set s_no_binary_name c0 = false ->
  valid (with_bin c0 bin) = true -> wf_inv (build_self (with_bin c0 bin)) i = true ->
  no_globals (build_recursive (S (S (depth (build_self (with_bin c0 bin))))) (with_bin c0 bin)) = true ->
  parse_top c0 (bin :: render_inv i) = OOk m ->
  exists st, run_inv (build_self (with_bin c0 bin)) i = ROk st /\ m = into_inner (mt st).
Proof.
  intros Hn Hv Hw Hg H. rewrite (parse_top_inv c0 bin i Hn Hv Hw) in H.
  destruct (wf_inv_parts _ _ Hw) as [_ [Hie _]].
  destruct (run_inv (build_self (with_bin c0 bin)) i) as [st|e s|n] eqn:Er.
  - exists st. split; [reflexivity|]. rewrite (finish_no_globals _ st Hg) in H. inversion H. reflexivity.
  - unfold finish_outcome in H. rewrite Hie in H. cbn [andb] in H. discriminate.
  - unfold finish_outcome in H. destruct n; discriminate.
Qed.

(** THE ORIGIN THEOREM at [parse_top]: for every level the reported matches reach, every argument
    of that level has exactly the origin its own part of the line, the environment and the
    defaults prescribe *)
Theorem parse_top_origin c0 bin i m : is_set s_no_binary_name c0 = false ->
  valid (with_bin c0 bin) = true -> wf_inv (build_self (with_bin c0 bin)) i = true ->
  no_globals (build_recursive (S (S (depth (build_self (with_bin c0 bin))))) (with_bin c0 bin)) = true ->
  parse_top c0 (bin :: render_inv i) = OOk m ->
  forall c' i' m', at_level (build_self (with_bin c0 bin)) i m c' i' m' ->
  exists st', m' = into_inner (mt st') /\ level_origin c' (inv_occs c' i') st'.
Proof.
  intros Hn Hv Hw Hg H c' i' m' Hal.
  destruct (parse_top_ok_run c0 bin i m Hn Hv Hw Hg H) as [st [Hr Em]]. subst m.
  apply (tree_origin _ i st Hw Hr c' i' m' Hal).
Qed.

Theorem parse_top_cmdline_iff_named c0 bin i m : is_set s_no_binary_name c0 = false ->
  valid (with_bin c0 bin) = true -> wf_inv (build_self (with_bin c0 bin)) i = true ->
  no_globals (build_recursive (S (S (depth (build_self (with_bin c0 bin))))) (with_bin c0 bin)) = true ->
  parse_top c0 (bin :: render_inv i) = OOk m ->
  forall c' i' m', at_level (build_self (with_bin c0 bin)) i m c' i' m' ->
  forall a, In a (c_args c') ->
    (forall e, fm_get (a_id a) (ms_args m') = Some e ->
       (m_source e = Some SCmdLine <-> named_alive c' (a_id a) (inv_occs c' i') = true))
    /\ (fm_get (a_id a) (ms_args m') = None -> named_alive c' (a_id a) (inv_occs c' i') = false)
    /\ (named_alive c' (a_id a) (inv_occs c' i') = true ->
        exists e, fm_get (a_id a) (ms_args m') = Some e /\ m_source e = Some SCmdLine
                  /\ denote_os c' (a_id a) (inv_occs c' i') = Some (m_raw e)).
Proof.
  intros Hn Hv Hw Hg H c' i' m' Hal a Hin.
  destruct (parse_top_ok_run c0 bin i m Hn Hv Hw Hg H) as [st [Hr Em]]. subst m.
  destruct (at_level_run _ _ _ _ _ _ Hal st eq_refl Hw Hr) as [st' [Em [Hw' Hr']]]. subst m'.
  unfold into_inner. cbn [ms_args]. apply run_inv_cmdline_iff_named; assumption.
Qed.

(** * 7. the missing-value default, against the line *)
(** what an occurrence stores ([o_vals], C07): the declared missing-value default exactly when the
    occurrence carries no value; otherwise its own values (split at the delimiter) *)
Lemma o_vals_spec c o :
  (o_raw o = [] -> a_default_missing (o_arg o) <> [] ->
     o_vals c o = opt_default [] (delimit c (o_arg o) (a_default_missing (o_arg o)) None))
  /\ (o_raw o <> [] -> o_vals c o = opt_default [] (delimit c (o_arg o) (o_raw o) (o_ti o)))
  /\ (o_raw o = [] -> a_default_missing (o_arg o) = [] -> o_vals c o = []).
Proof.
  unfold o_vals, occ_values. split; [|split].
  - intros Er Hd. rewrite Er. destruct (a_default_missing (o_arg o)) as [|d dm]; [contradiction|]. reflexivity.
  - intros Hr. destruct (o_raw o) as [|r rt]; [contradiction|]. reflexivity.
  - intros Er Hd. rewrite Er, Hd. cbn [is_nil negb]. rewrite delimit_nil. reflexivity.
Qed.

Lemma quiet_unrelated c i os : all_cmdline os -> Forall (quiet c i) os -> Forall (unrelated c i) os.
Proof.
  intros _ H. eapply Forall_impl; [|exact H]. intros o [H1 H2]. split; [exact H1|]. rewrite H2. apply andb_false_r.
Qed.

(** the LAST occurrence of a Set/Append argument that nothing later overrides: its values are the
    last value group of the entry *)
Theorem run_inv_last_occurrence c i st os1 o os2 : wf_inv c i = true -> run_inv c i = ROk st ->
  inv_occs c i = os1 ++ o :: os2 -> Forall (quiet c (a_id (o_arg o))) os2 ->
  a_get_action (o_arg o) = ASet \/ a_get_action (o_arg o) = AAppend ->
  exists e, fm_get (a_id (o_arg o)) (mt_args (mt st)) = Some e /\ m_source e = Some SCmdLine
    /\ last (m_raw e) [] = o_vals c o.
Proof.
  intros Hw Hr Eos Hq Hact. destruct (wf_inv_parts c _ Hw) as [Hconv _].
  pose proof (inv_occs_args c i Hconv) as Hos. pose proof (inv_occs_cmdline c i) as Hcl.
  rewrite Eos in Hos, Hcl.
  assert (Hin : In (o_arg o) (c_args c)).
  { rewrite Forall_forall in Hos. apply Hos. apply in_or_app. right. left. reflexivity. }
  assert (Ha : named_alive c (a_id (o_arg o)) (inv_occs c i) = true).
  { apply named_alive_iff. exists os1, o, os2. split; [exact Eos|]. split; [reflexivity|exact Hq]. }
  destruct (run_inv_cmdline_iff_named c i st Hw Hr (o_arg o) Hin) as [_ [_ H3]].
  destruct (H3 Ha) as [e [Ge [Se Hd]]]. exists e. split; [exact Ge|]. split; [exact Se|].
  rewrite Eos in Hd. unfold denote_os in Hd. rewrite fold_left_app in Hd. cbn [fold_left] in Hd.
  apply Forall_app in Hcl. destruct Hcl as [_ Hcl]. inversion Hcl as [|? ? _ Hcl2]; subst.
  rewrite (fold_unrelated c _ os2 (quiet_unrelated c _ os2 Hcl2 Hq)) in Hd.
  unfold step_abs in Hd. rewrite beq_refl in Hd. inversion Hd as [Hd']. clear Hd.
  unfold step_self. destruct Hact as [Ea|Ea]; rewrite Ea.
  - reflexivity.
  - apply last_last.
Qed.

Lemma occs_app c its1 : forall its2 pos,
  occs c pos (its1 ++ its2) = occs c pos its1 ++ occs c (items_pos c pos its1) its2.
Proof.
  induction its1 as [|it its1 IH]; intros its2 pos; [reflexivity|].
  cbn [app occs items_pos]. rewrite IH, app_assoc. reflexivity.
Qed.

(** what follows the items of a level: the values after [--] *)
Definition trail_part (c : cmd) (i : inv) : list occ :=
  match i with ITrail its vs => trail_occs c (items_pos c 1 its) vs | _ => [] end.
Lemma inv_occs_items c i : inv_occs c i = occs c 1 (inv_items i) ++ trail_part c i.
Proof. destruct i; cbn [inv_occs inv_items trail_part]; rewrite ?app_nil_r; reflexivity. Qed.

(** A MISSING-VALUE DEFAULT APPLIES PRECISELY WHEN THE OPTION IS PRESENT WITHOUT A VALUE.
    [it] is an item of the level whose last occurrence [o] is the option's ([--o], [--o=v],
    [--o v1 .. vk], [-abo], [-abov], [-abo=v], [-abo v1 .. vk], a positional run), [pre_o] the flags of the cluster
    before it; nothing later on the line names the argument again or overrides it.  Then the
    entry's last value group is: the declared missing-value default iff the item carries no value
    for the option; otherwise exactly the item's values. *)
Theorem missing_value_line c i st its1 it its2 pre_o o : wf_inv c i = true -> run_inv c i = ROk st ->
  inv_items i = its1 ++ it :: its2 ->
  item_occs c (items_pos c 1 its1) it = pre_o ++ [o] ->
  Forall (quiet c (a_id (o_arg o))) (occs c (items_pos c 1 (its1 ++ [it])) its2 ++ trail_part c i) ->
  a_get_action (o_arg o) = ASet \/ a_get_action (o_arg o) = AAppend ->
  exists e, fm_get (a_id (o_arg o)) (mt_args (mt st)) = Some e /\ m_source e = Some SCmdLine
    /\ (o_raw o = [] -> a_default_missing (o_arg o) <> [] ->
          last (m_raw e) [] = opt_default [] (delimit c (o_arg o) (a_default_missing (o_arg o)) None))
    /\ (o_raw o <> [] -> last (m_raw e) [] = opt_default [] (delimit c (o_arg o) (o_raw o) (o_ti o)))
    /\ (o_raw o = [] -> a_default_missing (o_arg o) = [] -> last (m_raw e) [] = []).
Proof.
  intros Hw Hr Ei Eo Hq Hact.
  assert (Eos : inv_occs c i = (occs c 1 its1 ++ pre_o) ++ o ::
                  (occs c (items_pos c 1 (its1 ++ [it])) its2 ++ trail_part c i)).
  { rewrite inv_occs_items, Ei.
    change (its1 ++ it :: its2) with (its1 ++ [it] ++ its2). rewrite app_assoc.
    rewrite (occs_app c (its1 ++ [it]) its2 1). rewrite (occs_app c its1 [it] 1).
    cbn [occs]. rewrite app_nil_r, Eo. rewrite <- !app_assoc. reflexivity. }
  destruct (run_inv_last_occurrence c i st _ o _ Hw Hr Eos Hq Hact) as [e [Ge [Se Hl]]].
  exists e. split; [exact Ge|]. split; [exact Se|]. rewrite Hl. apply o_vals_spec.
Qed.

(** * 8. every valid definition, EVERY token list: the labels are accounted for by the line (one direction) *)
Lemma fm_get_in_pair {V} k (l : list (id * V)) v : fm_get k l = Some v -> In (k, v) l.
Proof.
  induction l as [|[k' v'] t IH]; cbn [fm_get]; [discriminate|].
  destruct (beq k' k) eqn:E; [|intros H; right; apply IH; exact H].
  intros H. inversion H; subst. apply beq_eq in E. subst. left. reflexivity.
Qed.

Lemma selId_arg c T a : ids_distinct c -> In a (c_args c) -> selId c T (a_id a) -> occurs c T a.
Proof.
  intros [Hnd Hng] Hin [a' [[Hin' Hocc] [Hid|Hg]]].
  - assert (a' = a) by (eapply nodup_map_inj; eassumption). subst a'. exact Hocc.
  - exfalso. apply (in_groups_for_arg c (a_id a') (a_id a)); [apply mem_id_in; exact Hg|apply Hng; exact Hin].
Qed.

(** any level of the recursion, any token list (class: [tree_ok], i.e. valid definitions without short
    flag subcommands): a CommandLine label implies that a token of the level's line names the
    argument ([occurs]: a long / inferred long / short in a cluster that resolves to it, or any token
    when the argument is positional) *)
Theorem level_cmdline_named fuel c toks st0 st : tree_ok fuel c -> K c toks st0 ->
  get_matches_with fuel c toks st0 = ROk st ->
  forall a e, In a (c_args c) -> fm_get (a_id a) (mt_args (mt st)) = Some e ->
    m_source e = Some SCmdLine -> occurs c toks a.
Proof.
  intros Hok HK H a e Hin Ge Se.
  pose proof (gmw_breaks fuel c toks st0 Hok HK) as Hs. rewrite H in Hs. cbn [okE] in Hs.
  destruct fuel as [|f]; [destruct Hok|]. destruct Hok as [_ [Happ _]].
  destruct Hs as [_ He]. specialize (He _ _ (fm_get_in_pair _ _ _ Ge)). rewrite Se in He. cbn [okSrc] in He.
  apply (selId_arg c toks a (assert_app_ids_distinct c Happ) Hin He).
Qed.

(** the root level of any valid definition a user can write, any token list: what each label implies *)
Theorem plain_source_accounted c0 toks st : plain c0 = true -> valid c0 = true ->
  get_matches_with (S (S (depth (build_self c0)))) (build_self c0) toks ps_new = ROk st ->
  forall a e, In a (c_args (build_self c0)) -> fm_get (a_id a) (mt_args (mt st)) = Some e ->
    match m_source e with
    | Some SCmdLine => occurs (build_self c0) toks a
    | Some SEnv => exists v vs, a_env a = Some v /\ delimit (build_self c0) a [v] None = Some vs /\ m_raw e = [vs]
    | Some SDefault => a_env a = None
    | None => False
    end.
Proof.
  intros Hp Hv H a e Hin Ge.
  pose proof (assert_app_ids_distinct _ (valid_assert_app c0 Hv)) as Hid.
  destruct (source_honest _ _ toks ps_new st Hid eq_refl H) as [st_c [st1 [_ [_ Hh]]]].
  specialize (Hh a e Hin Ge).
  destruct (m_source e) as [[| |]|] eqn:Se.
  - apply Hh.
  - apply Hh.
  - unfold valid in Hv. cbn zeta in Hv.
    pose proof (tree_ok_of_valid _ _ Hp Hv) as Hok.
    apply (level_cmdline_named _ _ toks ps_new st Hok (K_fresh _ toks ps_new eq_refl) H a e Hin Ge Se).
  - exact Hh.
Qed.
