(** Global settings in the REAL build order: a setting that sits in the global record of a command is set at every level
    the parser can descend into -- [build_self] of the command, [build_subcommand] of that, and so on, to any depth.
    (ParseProofs/TablesSettings.v proves the same for the abstract chain [propagate_chain]; C05's EscapeDdt.v proved it
    for the one setting dont_delimit_trailing_values -- this file is that argument for EVERY model field.)
    The generated `help` subcommand clears PropagateVersion in its global record (`unset_global_setting`), so that one
    field is handed on to every subcommand except below the generated `help`: [indep_pv] excludes it. *)
From Coq Require Import List Bool String.
From ClapModel Require Import Base.Bytes Base.Machine Parse.Cmd Parse.Build.
From ClapModel Require Import ParseProofs.Totality ParseProofs.TotalityMain ParseProofs.Dispatch ParseProofs.TablesSettings.
From RecordUpdate Require Import RecordSet.
Import RecordSetNotations.
Import ListNotations.

(** the setting [g] is set at every level of every chain of built subcommands (to depth [fuel]) *)
Fixpoint set_all (g : settings -> bool) (fuel : nat) (c : cmd) : Prop :=
  match fuel with
  | O => True
  | S f => is_set g c = true /\ forall name sc, build_subcommand c name = Some sc -> set_all g f sc
  end.

(** the field does not change when PropagateVersion is cleared *)
Definition indep_pv (f : sfield) : Prop := forall s, sf_get f (s <| s_propagate_version := false |>) = sf_get f s.

Section Field.
Variable f : sfield.
Hypothesis Hor : forall a b, sf_get f (settings_or a b) = sf_get f a || sf_get f b.
Hypothesis Hpv : indep_pv f.

Let gf (x : cmd) : bool := sf_get f (c_gset x).

Lemma gf_propagate parent sc : gf parent = true -> gf (propagate_subcommand parent sc) = true.
Proof.
  unfold gf. intros H. destruct (propagate_settings parent sc) as [_ H2]. rewrite H2, Hor, H. apply orb_true_r.
Qed.

Lemma gset_help_version y : c_gset (bs_help_version y) = c_gset y.
Proof.
  unfold bs_help_version.
  set (y1 := if negb (is_set s_disable_help_flag y) then y <| c_args := (c_args y ++ [help_arg])%list |> else y).
  assert (E1 : c_gset y1 = c_gset y) by (subst y1; destruct (negb (is_set s_disable_help_flag y)); reflexivity).
  set (y2 := if negb (is_disable_version_flag_set y1) then y1 <| c_args := (c_args y1 ++ [version_arg])%list |> else y1).
  assert (E2 : c_gset y2 = c_gset y1) by (subst y2; destruct (negb (is_disable_version_flag_set y1)); reflexivity).
  destruct (negb (is_set s_disable_help_sub y2)); (transitivity (c_gset y2); [reflexivity|congruence]).
Qed.
Lemma gset_settings y : c_gset (bs_settings y) = c_gset y.
Proof.
  unfold bs_settings.
  set (y1 := y <| c_set := settings_or (c_set y) (c_gset y) |>).
  assert (E1 : c_gset y1 = c_gset y) by reflexivity.
  set (y2 := if is_set s_args_negate_subs y1 then _ else y1).
  assert (E2 : c_gset y2 = c_gset y1) by (subst y2; destruct (is_set s_args_negate_subs y1); reflexivity).
  set (y3 := if is_some (c_ext_vp y2) then _ else y2).
  assert (E3 : c_gset y3 = c_gset y2) by (subst y3; destruct (is_some (c_ext_vp y2)); reflexivity).
  destruct (negb (has_subcommands y3)); (transitivity (c_gset y3); [reflexivity|congruence]).
Qed.
Lemma gset_mark y : c_gset (bs_mark y) = c_gset y. Proof. reflexivity. Qed.
Lemma gset_deprecated y : c_gset (bs_deprecated y) = c_gset y. Proof. reflexivity. Qed.
Lemma gset_args y : c_gset (bs_args y) = c_gset y. Proof. reflexivity. Qed.
Lemma gset_globals y : c_gset (bs_globals y) = c_gset y. Proof. reflexivity. Qed.
Lemma gset_propagate y : c_gset (bs_propagate y) = c_gset y. Proof. reflexivity. Qed.
(** [build_self] never touches the global record *)
Lemma gset_build_self x : c_gset (build_self x) = c_gset x.
Proof.
  unfold build_self. destruct (s_built (c_set x)); [reflexivity|].
  rewrite gset_mark, gset_deprecated, gset_args, gset_globals, gset_help_version, gset_propagate, gset_settings. reflexivity.
Qed.

Lemma gf_build_self x : gf x = true -> gf (build_self x) = true /\ is_set (sf_get f) (build_self x) = true.
Proof.
  intros H. assert (G : gf (build_self x) = true) by (unfold gf; rewrite gset_build_self; exact H).
  split; [exact G|]. unfold is_set. unfold gf in G. rewrite G. apply orb_true_r.
Qed.

Lemma subs_help_version y s : In s (c_subs (bs_help_version y)) ->
  In s (c_subs y) \/ exists y2, c_gset y2 = c_gset y /\ s = fix_help_unset (help_subcommand y2).
Proof.
  unfold bs_help_version.
  set (y1 := if negb (is_set s_disable_help_flag y) then y <| c_args := (c_args y ++ [help_arg])%list |> else y).
  assert (E1 : c_gset y1 = c_gset y /\ c_subs y1 = c_subs y) by (subst y1; destruct (negb (is_set s_disable_help_flag y)); split; reflexivity).
  set (y2 := if negb (is_disable_version_flag_set y1) then y1 <| c_args := (c_args y1 ++ [version_arg])%list |> else y1).
  assert (E2 : c_gset y2 = c_gset y1 /\ c_subs y2 = c_subs y1) by (subst y2; destruct (negb (is_disable_version_flag_set y1)); split; reflexivity).
  destruct E1 as [E1 F1]. destruct E2 as [E2 F2].
  destruct (negb (is_set s_disable_help_sub y2)).
  - change (c_subs (y2 <| c_subs := ?l |>)) with l. intros Hin. apply in_app_or in Hin.
    destruct Hin as [Hin|[<-|[]]]; [left; rewrite <- F1, <- F2; exact Hin|].
    right. exists y2. split; [congruence|reflexivity].
  - intros Hin. left. rewrite <- F1, <- F2. exact Hin.
Qed.

Lemma gf_help y2 : gf y2 = true -> gf (fix_help_unset (help_subcommand y2)) = true.
Proof.
  intros H. unfold fix_help_unset, help_subcommand.
  set (h0 := (cmd_new s_help) <| c_about := Some s_help_about |> <| c_args := [help_subcommand_arg] |>).
  pose proof (gf_propagate y2 h0 H) as Hh. unfold gf in *. cbn [c_gset set]. 
  change (sf_get f ((c_gset (propagate_subcommand y2 h0)) <| s_propagate_version := false |>) = true).
  rewrite Hpv. exact Hh.
Qed.

(** every child of a freshly built command carries the setting in its global record *)
Lemma subs_gf x : s_built (c_set x) = false -> gf x = true ->
  forall s, In s (c_subs (build_self x)) -> gf s = true.
Proof.
  intros Hb Hg s. rewrite (build_self_subs x Hb). unfold pre_globals.
  set (x1 := bs_settings x).
  assert (Hx1 : gf x1 = true) by (subst x1; unfold gf; rewrite gset_settings; exact Hg).
  set (x2 := bs_propagate x1).
  assert (Hg2 : gf x2 = true) by (subst x2; unfold gf; rewrite gset_propagate; exact Hx1).
  assert (Hs2 : forall s2, In s2 (c_subs x2) -> gf s2 = true).
  { subst x2. unfold bs_propagate. change (c_subs (x1 <| c_subs := ?l |>)) with l.
    intros s2 Hin. apply in_map_iff in Hin. destruct Hin as [s0 [<- _]]. apply gf_propagate. exact Hx1. }
  set (x3 := bs_help_version x2).
  assert (H3 : forall s3, In s3 (c_subs x3) -> gf s3 = true).
  { intros s3 Hin. subst x3. destruct (subs_help_version x2 s3 Hin) as [Hin2|(y2 & Ey & ->)]; [exact (Hs2 s3 Hin2)|].
    apply gf_help. unfold gf in *. rewrite Ey. exact Hg2. }
  unfold bs_globals. change (c_subs (x3 <| c_subs := ?l |>)) with l.
  intros Hin. apply in_map_iff in Hin. destruct Hin as [s3 [<- Hin3]].
  destruct (beq (c_name s3) s_help && negb (is_set s_disable_help_sub x3)); [exact (H3 s3 Hin3)|].
  destruct (add_globals_frame (filter a_global (c_args x3)) s3) as (_ & _ & Hgs & _).
  unfold add_globals in Hgs. unfold gf. rewrite Hgs. exact (H3 s3 Hin3).
Qed.

Theorem set_all_of_global : forall fuel x, plain x = true -> gf x = true -> set_all (sf_get f) fuel (build_self x).
Proof.
  induction fuel as [|fuel IH]; intros x Hp Hg; [exact I|].
  pose proof Hp as Hp'. apply plain_spec in Hp'. destruct Hp' as [Hb [Hgb Hsub]].
  cbn [set_all]. split; [exact (proj2 (gf_build_self x Hg))|].
  intros name sc Hbs. unfold build_subcommand in Hbs.
  destruct (List.find (fun s => beq (c_name s) name) (c_subs (build_self x))) as [s0|] eqn:Ef; [|discriminate].
  apply List.find_some in Ef. destruct Ef as [Hin0 _].
  pose proof (subs_gf x Hb Hg s0 Hin0) as Hs0.
  pose proof (plain_child x s0 Hp Hin0) as Hp0.
  injection Hbs as <-.
  apply IH.
  - rewrite <- Hp0. apply plain_frame;
      repeat match goal with |- context [match ?d with Some _ => _ | None => _ end] => destruct d end; reflexivity.
  - unfold gf in *. rewrite <- Hs0.
    repeat match goal with |- context [match ?d with Some _ => _ | None => _ end] => destruct d end; reflexivity.
Qed.
End Field.

(** all model fields except PropagateVersion are independent of clearing PropagateVersion *)
Definition pv_free_fields : list sfield :=
  map (fun p => snd (snd p)) (filter (fun p => negb (String.eqb (fst (snd p)) "PropagateVersion"%string)) model_fields).
Lemma pv_free_len : length pv_free_fields = 23%nat.
Proof. vm_compute. reflexivity. Qed.
Lemma pv_free_indep : Forall indep_pv pv_free_fields.
Proof.
  unfold pv_free_fields.
  let l := eval vm_compute in (filter (fun p => negb (String.eqb (fst (snd p)) "PropagateVersion"%string)) model_fields) in
  change (filter (fun p => negb (String.eqb (fst (snd p)) "PropagateVersion"%string)) model_fields) with l.
  cbn [map fst snd].
  repeat (apply Forall_cons; [intros s; reflexivity|]). apply Forall_nil.
Qed.
Lemma pv_free_or : Forall (fun f => forall a b, sf_get f (settings_or a b) = sf_get f a || sf_get f b) pv_free_fields.
Proof.
  unfold pv_free_fields.
  let l := eval vm_compute in (filter (fun p => negb (String.eqb (fst (snd p)) "PropagateVersion"%string)) model_fields) in
  change (filter (fun p => negb (String.eqb (fst (snd p)) "PropagateVersion"%string)) model_fields) with l.
  cbn [map fst snd].
  repeat (apply Forall_cons; [intros a b; reflexivity|]). apply Forall_nil.
Qed.

(** every global setting (PropagateVersion aside) holds at every level of the built tree, for every tree of class [plain]
    (nothing built yet, no short-flag subcommands: C01's class) and every depth *)
Theorem global_setting_set_at_every_built_level : forall f, In f pv_free_fields ->
  forall fuel x, plain x = true -> sf_get f (c_gset x) = true -> set_all (sf_get f) fuel (build_self x).
Proof.
  intros f Hf fuel x Hp Hg.
  apply (set_all_of_global f).
  - exact (proj1 (Forall_forall _ _) pv_free_or f Hf).
  - exact (proj1 (Forall_forall _ _) pv_free_indep f Hf).
  - exact Hp.
  - exact Hg.
Qed.

(** ... in particular for a setter the source routes through `global_setting`, applied to the root as the spec reader does *)
Theorem global_setter_set_at_every_built_level : forall n v f,
  In n spec_names -> find_setter n = Some (v, true) -> field_by_variant v = Some f -> In f pv_free_fields ->
  forall fuel x x', spec_apply n x = Some x' -> plain x' = true -> set_all (sf_get f) fuel (build_self x').
Proof.
  intros n v f Hn Hs Hf Hpvf fuel x x' Ha Hp.
  apply (global_setting_set_at_every_built_level f Hpvf fuel x' Hp).
  revert Hs Hf Ha. unfold spec_names in Hn. cbn in Hn.
  repeat (destruct Hn as [<-|Hn];
          [intros Hs Hf Ha; vm_compute in Hs; first [discriminate Hs | (inversion Hs; subst v; vm_compute in Hf; inversion Hf; subst f;
             cbn in Ha; inversion Ha; subst x'; reflexivity)]|]).
  destruct Hn.
Qed.

(** the instance C07 reads: `args_override_self(true)` on the root of an unbuilt tree holds at every built level *)
Definition f_args_override_self : sfield :=
  {| sf_get := s_args_override_self; sf_put := fun b s => s <| s_args_override_self := b |> |}.
Theorem args_override_self_every_built_level : forall fuel x x',
  spec_apply n_args_override_self x = Some x' -> plain x' = true -> set_all s_args_override_self fuel (build_self x').
Proof.
  intros fuel x x' Ha Hp.
  refine (global_setter_set_at_every_built_level n_args_override_self "AllArgsOverrideSelf"%string f_args_override_self
            _ eq_refl eq_refl _ fuel x x' Ha Hp).
  - cbn. tauto.
  - cbn. tauto.
Qed.

Module TablesSettingsTreeExamples.
  Definition leaf : cmd := cmd_new [108].
  Definition mid : cmd := (cmd_new [109]) <| c_subs := [leaf] |>.
  Definition root : cmd := (cmd_new [114]) <| c_subs := [mid] |>.
  Definition il : sfield := {| sf_get := s_infer_long; sf_put := fun b s => s <| s_infer_long := b |> |}.
  (* hypotheses of the theorem for `infer_long_args(true)` on a three-level tree *)
  Example hyps : exists root', spec_apply "infer_long_args"%string root = Some root' /\ plain root' = true
    /\ In il pv_free_fields /\ find_setter "infer_long_args"%string = Some ("InferLongArgs", true)%string.
  Proof. eexists. split; [reflexivity|split; [vm_compute; reflexivity|split; [cbn; tauto|reflexivity]]]. Qed.
  (* and what it says there: the leaf, built through two build_subcommand steps, has the setting *)
  Example leaf_has_it : exists root' m l,
    spec_apply "infer_long_args"%string root = Some root'
    /\ build_subcommand (build_self root') [109] = Some m /\ build_subcommand m [108] = Some l
    /\ is_set s_infer_long l = true.
  Proof. eexists. eexists. eexists. split; [reflexivity|]. split; [vm_compute; reflexivity|]. split; vm_compute; reflexivity. Qed.
End TablesSettingsTreeExamples.
